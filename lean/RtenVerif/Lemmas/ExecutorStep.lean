import RtenVerif.Lemmas.ExecutorRc
/-!
# C02 — anatomy of one executor step

Decomposition of `step` into its phases and the effect of each phase on `temp_values`,
for runs without a capture environment (`Model::run`, `Graph::run`, `partial_run`).
-/
namespace RtenVerif.Executor
open RtenVerif.Graph

/-- No capture environment (top-level run). -/
def NoCaps {V : Type} (st : St V) : Prop := ∀ v, st.caps v = none

/-- No capture can be taken by value: every captured value is visible by reference only
(`can_take_input` is false for every name). -/
def NoTake {V : Type} (st : St V) : Prop := ∀ v x b, st.caps v = some (x, b) → b = false

theorem NoCaps.noTake {V : Type} {st : St V} (h : NoCaps st) : NoTake st := by
  intro v x b hv; rw [h v] at hv; cases hv

/-- The phases of a completed step. -/
structure StepParts {V : Type} (ops : Ops V) (r : Run V) (st st' : St V) (i : Nat)
    (tr : StepTrace) where
  op : OpNode
  st1 : St V
  taken : List (Nat × V)
  st2 : St V
  byVal : List (Nat × V)
  ins : List (Option V)
  outs : List V
  temps3 : Nat → Option V
  stored : List Nat
  released : List Nat
  hop : getOp r.g i = some op
  htake : (if (!(candidates ops i op st.temps).isEmpty &&
      (candidates ops i op st.temps).all (fun c => canTake r st c.2) && !r.neverInPlace) = true
      then takeAll r st (candidates ops i op st.temps) else some (st, [])) = some (st1, taken)
  hbyval : (if ops.isSubgraph i = true then takeByValue r st1 (capDeps r.g op) else (st1, []))
      = (st2, byVal)
  hins : collectInputs r st2 (taken.map (fun t => t.1)) op.inputs 0 = some ins
  hrun : (if (!taken.isEmpty) = true then ops.runInPlace i taken ins
      else if ops.isSubgraph i = true then
        ops.run i ins ((capDeps r.g op).map (capView r st2 byVal))
      else ops.run i ins []) = some outs
  hlen : op.outputs.length ≤ outs.length
  hstore : storeOutputs r st2.temps op.outputs outs = (temps3, stored)
  hrel : releaseLoop r { st2 with temps := temps3 } (opDeps r.g op) = (st', released)
  htr : tr.taken = ((candidates ops i op st.temps).zip taken).map (fun ct => (ct.1.1, ct.1.2)) ∧
      tr.byVal = byVal.map (fun p => p.1) ∧ tr.released = released ∧ tr.stored = stored

/-- Every completed step decomposes into its phases. -/
theorem step_parts {V : Type} {ops : Ops V} {r : Run V} {st st' : St V} {i : Nat}
    {tr : StepTrace} (h : step ops r st i = .ok (st', tr)) :
    Nonempty (StepParts ops r st st' i tr) := by
  unfold step at h
  cases hop : getOp r.g i with
  | none => simp [hop] at h
  | some op =>
    simp only [hop] at h
    split at h
    · simp at h
    · rename_i st1 taken htake
      generalize hbv : (if ops.isSubgraph i = true then takeByValue r st1 (capDeps r.g op)
        else (st1, [])) = bvp at h
      obtain ⟨st2, byVal⟩ := bvp
      simp only at h
      split at h
      · simp at h
      · rename_i ins hins
        split at h
        · simp at h
        · rename_i outs hrun
          split at h
          · simp at h
          · rename_i hlen
            generalize hso : storeOutputs r st2.temps op.outputs outs = sop at h
            obtain ⟨temps3, stored⟩ := sop
            simp only at h
            generalize hrl : releaseLoop r { st2 with temps := temps3 } (opDeps r.g op) = rlp at h
            obtain ⟨st4, released⟩ := rlp
            simp only [Except.ok.injEq, Prod.mk.injEq] at h
            obtain ⟨rfl, rfl⟩ := h
            exact ⟨{ op := op, st1 := st1, taken := taken, st2 := st2, byVal := byVal, ins := ins,
                     outs := outs, temps3 := temps3, stored := stored, released := released,
                     hop := hop, htake := htake, hbyval := hbv, hins := hins, hrun := hrun,
                     hlen := by omega, hstore := hso, hrel := hrl,
                     htr := ⟨rfl, rfl, rfl, rfl⟩ }⟩

/-! ## `take_value` -/

theorem takeValue_some {V : Type} {r : Run V} {st st' : St V} {id : Nat} {v : V}
    (hc : NoTake st) (h : takeValue r st id = (st', some v)) :
    st.rc id = 1 ∧ st.temps id = some v ∧ st' = { st with temps := upd st.temps id none } := by
  unfold takeValue at h
  split at h
  · rename_i hrc
    split at h
    · rename_i x hx
      simp only [Prod.mk.injEq, Option.some.injEq] at h
      obtain ⟨rfl, rfl⟩ := h
      exact ⟨hrc, hx, rfl⟩
    · split at h
      · split at h
        · rename_i w hw
          exact absurd (hc id w true hw) (by simp)
        · simp at h
      · simp at h
  · simp at h

theorem takeValue_none {V : Type} {r : Run V} {st st' : St V} {id : Nat}
    (hc : NoTake st) (h : takeValue r st id = (st', none)) :
    st' = st ∧ (st.rc id ≠ 1 ∨ st.temps id = none) := by
  unfold takeValue at h
  split at h
  · split at h
    · simp at h
    · rename_i hn
      split at h
      · split at h
        · simp at h
        · simp only [Prod.mk.injEq] at h
          exact ⟨h.1.symm, Or.inr hn⟩
      · simp only [Prod.mk.injEq] at h; exact ⟨h.1.symm, Or.inr hn⟩
  · rename_i hrc
    simp only [Prod.mk.injEq] at h; exact ⟨h.1.symm, Or.inl hrc⟩

/-- My own `Forall₂` (core has none). -/
inductive All₂ {α β : Type} (R : α → β → Prop) : List α → List β → Prop
  | nil : All₂ R [] []
  | cons {a b as bs} : R a b → All₂ R as bs → All₂ R (a :: as) (b :: bs)

/-- `takeAll` succeeded: every candidate id had count 1 and was in `temp_values`; the taken
values are the ones stored there; afterwards exactly the candidates are gone. -/
theorem takeAll_spec {V : Type} {r : Run V} {st st' : St V} {cs : List (Nat × Nat)}
    {tk : List (Nat × V)} (hc : NoTake st) (h : takeAll r st cs = some (st', tk)) :
    All₂ (fun c t => t.1 = c.1 ∧ st.rc c.2 = 1 ∧ st.temps c.2 = some t.2) cs tk ∧
      st'.caps = st.caps ∧ st'.rc = st.rc ∧
      (∀ x, st'.temps x = if x ∈ cs.map (fun c => c.2) then none else st.temps x) := by
  induction cs generalizing st tk with
  | nil =>
    simp only [takeAll, Option.some.injEq, Prod.mk.injEq] at h
    obtain ⟨rfl, rfl⟩ := h
    exact ⟨.nil, rfl, rfl, by simp⟩
  | cons c cs ih =>
    obtain ⟨pos, id⟩ := c
    simp only [takeAll] at h
    cases htv : takeValue r st id with
    | mk st1 ov =>
      rw [htv] at h
      cases ov with
      | none => simp at h
      | some v =>
        simp only at h
        obtain ⟨hrc, htemp, hst1⟩ := takeValue_some hc htv
        cases hta : takeAll r st1 cs with
        | none => simp [hta] at h
        | some p =>
          obtain ⟨st2, tk2⟩ := p
          simp only [hta, Option.some.injEq, Prod.mk.injEq] at h
          obtain ⟨rfl, rfl⟩ := h
          have hc1 : NoTake st1 := by subst hst1; exact hc
          obtain ⟨ha, hcaps, hrc2, htemps⟩ := ih hc1 hta
          subst hst1
          refine ⟨.cons ⟨rfl, hrc, htemp⟩ ?_, hcaps, hrc2, ?_⟩
          · clear hta htemps ih
            induction ha with
            | nil => exact .nil
            | cons hab _ ih2 =>
              refine .cons ⟨hab.1, hab.2.1, ?_⟩ ih2
              have := hab.2.2
              simp only [upd_apply] at this
              split at this
              · simp at this
              · exact this
          · intro x
            rw [htemps x]
            simp only [List.map_cons, List.mem_cons, upd_apply]
            by_cases hx : x = id
            · simp [hx]
            · simp only [hx, false_or, if_false]

/-- Ids removed by the by-value extraction had count 1 and are listed in `byVal`; all other
entries of `temp_values` are unchanged. -/
theorem takeByValue_spec {V : Type} {r : Run V} {st : St V} {ds : List Nat} (hc : NoTake st) :
    (takeByValue r st ds).1.caps = st.caps ∧
      (∀ x, (takeByValue r st ds).1.temps x = st.temps x ∨
        ((takeByValue r st ds).1.temps x = none ∧ x ∈ ds ∧ st.rc x = 1 ∧
          ∃ v, st.temps x = some v ∧ (x, v) ∈ (takeByValue r st ds).2)) ∧
      (∀ x v, (x, v) ∈ (takeByValue r st ds).2 → x ∈ ds ∧ st.temps x = some v ∧
        (takeByValue r st ds).1.temps x = none) := by
  induction ds generalizing st with
  | nil => exact ⟨rfl, fun x => Or.inl rfl, by simp [takeByValue]⟩
  | cons d ds ih =>
    simp only [takeByValue]
    cases htv : takeValue r st d with
    | mk st1 ov =>
      cases ov with
      | none =>
        obtain ⟨rfl, _⟩ := takeValue_none hc htv
        simp only
        obtain ⟨h1, h2, h3⟩ := ih hc
        refine ⟨h1, ?_, ?_⟩
        · intro x
          rcases h2 x with h | ⟨ha, hb, hc', hd⟩
          · exact Or.inl h
          · exact Or.inr ⟨ha, List.mem_cons_of_mem _ hb, hc', hd⟩
        · intro x v hxv
          obtain ⟨ha, hb, hc'⟩ := h3 x v hxv
          exact ⟨List.mem_cons_of_mem _ ha, hb, hc'⟩
      | some v =>
        obtain ⟨hrc, htemp, hst1⟩ := takeValue_some hc htv
        have hc1 : NoTake st1 := by subst hst1; exact hc
        obtain ⟨h1, h2, h3⟩ := ih hc1
        simp only
        have hnone : (takeByValue r st1 ds).1.temps d = none := by
          rcases h2 d with h | h
          · rw [h, hst1]; simp
          · exact h.1
        refine ⟨by rw [h1, hst1], ?_, ?_⟩
        · intro x
          by_cases hx : x = d
          · subst hx
            exact Or.inr ⟨hnone, List.mem_cons_self, hrc, v, htemp, List.mem_cons_self⟩
          · rcases h2 x with h | ⟨ha, hb, hc', w, hw, hmem⟩
            · left; rw [h, hst1]; simp [upd_apply, hx]
            · right
              refine ⟨ha, List.mem_cons_of_mem _ hb, by rw [hst1] at hc'; exact hc', w, ?_,
                List.mem_cons_of_mem _ hmem⟩
              rw [hst1] at hw; simpa [upd_apply, hx] using hw
        · intro x w hxw
          rcases List.mem_cons.mp hxw with heq | hmem
          · simp only [Prod.mk.injEq] at heq
            obtain ⟨rfl, rfl⟩ := heq
            exact ⟨List.mem_cons_self, htemp, hnone⟩
          · obtain ⟨ha, hb, hc'⟩ := h3 x w hmem
            refine ⟨List.mem_cons_of_mem _ ha, ?_, hc'⟩
            rw [hst1] at hb
            simp only [upd_apply] at hb
            split at hb
            · simp at hb
            · exact hb

/-! ## Output storage -/

/-- Values written by `naiveStore`, independent of the base map. -/
theorem naiveStore_apply {V : Type} (E : Nat → Option V) (ids : List (Option Nat)) (vs : List V)
    (x : Nat) :
    naiveStore E ids vs x =
      match naiveStore (fun _ => none) ids vs x with
      | some v => some v
      | none => E x := by
  induction ids generalizing E vs with
  | nil => simp [naiveStore]
  | cons oid ids ih =>
    cases vs with
    | nil => simp [naiveStore]
    | cons v vs =>
      cases oid with
      | none => simp only [naiveStore]; exact ih E vs
      | some id =>
        simp only [naiveStore]
        rw [ih (upd E id (some v)) vs, ih (upd (fun _ => none) id (some v)) vs]
        cases naiveStore (fun _ => none) ids vs x with
        | some w => rfl
        | none =>
          simp only [upd_apply]
          split <;> rfl

/-- The fixed executor stores exactly what the naive evaluation stores, except under ids
supplied as inputs, which it leaves alone. -/
theorem storeOutputs_apply {V : Type} (r : Run V) (hf : r.fixed = true) (temps : Nat → Option V)
    (ids : List (Option Nat)) (vs : List V) (x : Nat) :
    (storeOutputs r temps ids vs).1 x =
      if r.isInput x = true then temps x else naiveStore temps ids vs x := by
  induction ids generalizing temps vs with
  | nil => simp [storeOutputs, naiveStore]
  | cons oid ids ih =>
    cases vs with
    | nil => simp [storeOutputs, naiveStore]
    | cons v vs =>
      cases oid with
      | none => simp only [storeOutputs, naiveStore]; exact ih temps vs
      | some id =>
        simp only [storeOutputs, naiveStore, hf, Bool.true_and]
        by_cases hin : r.isInput id = true
        · simp only [hin, if_true]
          rw [ih temps vs]
          by_cases hx : r.isInput x = true
          · simp [hx]
          · simp only [hx]
            rw [naiveStore_apply temps, naiveStore_apply (upd temps id (some v))]
            have : x ≠ id := by rintro rfl; exact hx hin
            simp [upd_apply, this]
        · simp only [hin]
          have := ih (upd temps id (some v)) vs
          simp only [Bool.false_eq_true, if_false]
          rw [this]
          by_cases hx : r.isInput x = true
          · have : x ≠ id := by rintro rfl; exact hin hx
            simp [hx, upd_apply, this]
          · simp [hx]

/-! ## Release loop -/

/-- The release loop only removes entries, and only ids whose counter ends at 0. -/
theorem releaseLoop_temps {V : Type} (r : Run V) (st : St V) (ds : List Nat) (x : Nat)
    (hb : RcBounded st.rc) :
    (releaseLoop r st ds).1.temps x = st.temps x ∨
      ((releaseLoop r st ds).1.temps x = none ∧ (releaseLoop r st ds).1.rc x = 0 ∧ x ∈ ds) := by
  induction ds generalizing st with
  | nil => left; rfl
  | cons d ds ih =>
    have hb1 : RcBounded (upd st.rc d (rcDecCount (st.rc d))) := by
      intro v; simp only [upd_apply]; split
      · rw [rcDecCount_eq]; exact decN_le (hb d)
      · exact hb v
    simp only [releaseLoop]
    split
    · rename_i hcond
      split
      · rename_i w hw
        simp only
        rcases ih { st with rc := upd st.rc d (rcDecCount (st.rc d)), temps := upd st.temps d none } hb1
          with h | h
        · by_cases hx : x = d
          · subst hx
            right
            refine ⟨by rw [h]; simp, ?_, List.mem_cons_self⟩
            have hrc := releaseLoop_rc r
              { st with rc := upd st.rc x (rcDecCount (st.rc x)), temps := upd st.temps x none } ds x
              (hb1 x)
            rw [hrc]
            simp only [upd_same]
            simp only [Bool.and_eq_true, decide_eq_true_eq] at hcond
            have h0 := hcond.1
            unfold rcDecRet at h0
            unfold rcDecCount decN
            split at h0
            · simp at h0
            · split at h0
              · simp at h0
              · simp only [Option.some.injEq] at h0
                rename_i h255 _
                simp only [h255, if_false]
                have : st.rc x - 1 ≠ 255 := by omega
                simp only [this, if_false]; omega
          · left; rw [h]; simp [upd_apply, hx]
        · right; exact ⟨h.1, h.2.1, List.mem_cons_of_mem _ h.2.2⟩
      · rcases ih { st with rc := upd st.rc d (rcDecCount (st.rc d)) } hb1 with h | h
        · left; exact h
        · right; exact ⟨h.1, h.2.1, List.mem_cons_of_mem _ h.2.2⟩
    · rcases ih { st with rc := upd st.rc d (rcDecCount (st.rc d)) } hb1 with h | h
      · left; exact h
      · right; exact ⟨h.1, h.2.1, List.mem_cons_of_mem _ h.2.2⟩

theorem releaseLoop_caps {V : Type} (r : Run V) (st : St V) (ds : List Nat) :
    (releaseLoop r st ds).1.caps = st.caps := by
  induction ds generalizing st with
  | nil => rfl
  | cons d ds ih =>
    simp only [releaseLoop]
    split
    · split
      · simp only; rw [ih]
      · rw [ih]
    · rw [ih]

end RtenVerif.Executor
