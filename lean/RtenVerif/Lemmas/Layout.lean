import RtenVerif.Lemmas.NArr

/-! Helper lemmas for C09: offsets and index validity under list surgery. -/
namespace RtenVerif.Layout
open RtenVerif.Arr RtenVerif.Overlap

theorem offset_append (a b : Dims) (i j : List Nat) (h : a.length = i.length) :
    offset (a ++ b) (i ++ j) = offset a i + offset b j := by
  induction a generalizing i with
  | nil => cases i <;> simp_all [offset]
  | cons d ds ih =>
    cases i with
    | nil => simp at h
    | cons x xs =>
      obtain ⟨sz, st⟩ := d
      simp only [List.length_cons, Nat.add_right_cancel_iff] at h
      simp only [List.cons_append, offset, ih xs h]
      omega

theorem validIdx_append (a b i j : List Nat) (h : a.length = i.length) :
    validIdx (a ++ b) (i ++ j) = (validIdx a i && validIdx b j) := by
  induction a generalizing i with
  | nil => cases i <;> simp_all [validIdx]
  | cons d ds ih =>
    cases i with
    | nil => simp at h
    | cons x xs =>
      simp only [List.length_cons, Nat.add_right_cancel_iff] at h
      simp only [List.cons_append, validIdx, ih xs h, Bool.and_assoc]

theorem offset_single (d : Nat × Nat) (i : Nat) : offset [d] [i] = i * d.2 := by
  obtain ⟨a, b⟩ := d; simp [offset]

theorem validIdx_single (n i : Nat) : validIdx [n] [i] = decide (i < n) := by
  simp [validIdx]

theorem offset_reverse (d : Dims) (i : List Nat) (h : d.length = i.length) :
    offset d.reverse i.reverse = offset d i := by
  induction d generalizing i with
  | nil => cases i <;> simp_all [offset]
  | cons x xs ih =>
    cases i with
    | nil => simp at h
    | cons y ys =>
      simp only [List.length_cons, Nat.add_right_cancel_iff] at h
      rw [List.reverse_cons, List.reverse_cons, offset_append _ _ _ _ (by simp [h]), ih ys h,
        offset_single]
      obtain ⟨a, b⟩ := x
      simp [offset]; omega

theorem validIdx_reverse (s i : List Nat) (h : s.length = i.length) :
    validIdx s.reverse i.reverse = validIdx s i := by
  induction s generalizing i with
  | nil => cases i <;> simp_all [validIdx]
  | cons x xs ih =>
    cases i with
    | nil => simp at h
    | cons y ys =>
      simp only [List.length_cons, Nat.add_right_cancel_iff] at h
      rw [List.reverse_cons, List.reverse_cons, validIdx_append _ _ _ _ (by simp [h]), ih ys h,
        validIdx_single]
      simp [validIdx, Bool.and_comm]

/-! ### insertIdx / eraseIdx -/

theorem offset_insertIdx (k : Nat) (d : Dims) (i : List Nat) (p : Nat × Nat) (x : Nat)
    (hk : k ≤ d.length) (h : d.length = i.length) :
    offset (d.insertIdx k p) (i.insertIdx k x) = x * p.2 + offset d i := by
  induction k generalizing d i with
  | zero => obtain ⟨a, b⟩ := p; simp [offset]
  | succ k ih =>
    cases d with
    | nil => simp at hk
    | cons q qs =>
      cases i with
      | nil => simp at h
      | cons y ys =>
        obtain ⟨a, b⟩ := q
        simp only [List.length_cons, Nat.add_right_cancel_iff, Nat.add_le_add_iff_right] at h hk
        simp only [List.insertIdx_succ_cons, offset, ih qs ys hk h]
        omega

theorem validIdx_insertIdx (k : Nat) (s i : List Nat) (n x : Nat)
    (hk : k ≤ s.length) (h : s.length = i.length) :
    validIdx (s.insertIdx k n) (i.insertIdx k x) = (decide (x < n) && validIdx s i) := by
  induction k generalizing s i with
  | zero => simp [validIdx]
  | succ k ih =>
    cases s with
    | nil => simp at hk
    | cons q qs =>
      cases i with
      | nil => simp at h
      | cons y ys =>
        simp only [List.length_cons, Nat.add_right_cancel_iff, Nat.add_le_add_iff_right] at h hk
        simp only [List.insertIdx_succ_cons, validIdx, ih qs ys hk h]
        rw [← Bool.and_assoc, Bool.and_comm (decide (y < q)), Bool.and_assoc]

/-- Any list is its `k`-th element re-inserted into the list with that element erased. -/
theorem insertIdx_eraseIdx_getD {α : Type} (l : List α) (k : Nat) (dflt : α) (hk : k < l.length) :
    (l.eraseIdx k).insertIdx k (l.getD k dflt) = l := by
  induction k generalizing l with
  | zero => cases l with
    | nil => simp at hk
    | cons a as => simp
  | succ k ih =>
    cases l with
    | nil => simp at hk
    | cons a as =>
      simp only [List.length_cons, Nat.add_lt_add_iff_right] at hk
      simp only [List.eraseIdx_cons_succ, List.getD_cons_succ, List.insertIdx_succ_cons, ih as hk]

theorem sizes_insertIdx (d : Dims) (k : Nat) (p : Nat × Nat) :
    sizes (d.insertIdx k p) = (sizes d).insertIdx k p.1 := by
  induction k generalizing d with
  | zero => simp [sizes]
  | succ k ih =>
    cases d with
    | nil => simp [sizes]
    | cons q qs =>
      have := ih qs
      simp only [sizes] at this ⊢
      simp [this]

theorem sizes_eraseIdx (d : Dims) (k : Nat) : sizes (d.eraseIdx k) = (sizes d).eraseIdx k := by
  induction k generalizing d with
  | zero => cases d <;> simp [sizes]
  | succ k ih =>
    cases d with
    | nil => simp [sizes]
    | cons q qs =>
      have := ih qs
      simp only [sizes] at this ⊢
      simp [this]

theorem sizes_getD (d : Dims) (k : Nat) : (sizes d).getD k 0 = (d.getD k (0, 0)).1 := by
  induction k generalizing d with
  | zero => cases d <;> simp [sizes]
  | succ k ih =>
    cases d with
    | nil => simp [sizes]
    | cons q qs =>
      have := ih qs
      simp only [sizes] at this ⊢
      simp only [List.map_cons, List.getD_cons_succ, this]

@[simp] theorem sizes_length (d : Dims) : (sizes d).length = d.length := by simp [sizes]

/-! ### element counts, `min_data_len` and sub-views -/

theorem numel_pos_of_valid {shape idx : List Nat} (h : validIdx shape idx = true) :
    0 < numel shape := by
  induction shape generalizing idx with
  | nil => simp [numel]
  | cons n ns ih =>
    cases idx with
    | nil => simp [validIdx] at h
    | cons i is =>
      simp only [validIdx, Bool.and_eq_true, decide_eq_true_eq] at h
      have := ih h.2
      simp only [numel, List.foldr_cons] at this ⊢
      exact Nat.mul_pos (by omega) this

theorem anyZero_iff (shape : List Nat) : (shape.any (· == 0)) = true ↔ numel shape = 0 := by
  induction shape with
  | nil => simp [numel]
  | cons n ns ih =>
    simp only [List.any_cons, Bool.or_eq_true, beq_iff_eq, numel, List.foldr_cons, Nat.mul_eq_zero]
    simp only [numel] at ih
    rw [ih]

theorem sum_eraseIdx (l : List Nat) (k : Nat) (hk : k < l.length) :
    l.sum = l.getD k 0 + (l.eraseIdx k).sum := by
  induction k generalizing l with
  | zero => cases l with
    | nil => simp at hk
    | cons a as => simp
  | succ k ih =>
    cases l with
    | nil => simp at hk
    | cons a as =>
      simp only [List.length_cons, Nat.add_lt_add_iff_right] at hk
      simp only [List.eraseIdx_cons_succ, List.getD_cons_succ, List.sum_cons, ih as hk]
      omega

theorem numel_eraseIdx (l : List Nat) (k : Nat) (hk : k < l.length) :
    numel l = l.getD k 0 * numel (l.eraseIdx k) := by
  induction k generalizing l with
  | zero => cases l with
    | nil => simp at hk
    | cons a as => simp [numel]
  | succ k ih =>
    cases l with
    | nil => simp at hk
    | cons a as =>
      simp only [List.length_cons, Nat.add_lt_add_iff_right] at hk
      have := ih as hk
      simp only [numel] at this
      simp only [List.eraseIdx_cons_succ, List.getD_cons_succ, numel, List.foldr_cons, this]
      rw [Nat.mul_left_comm]

theorem map_eraseIdx {β γ : Type} (f : β → γ) (l : List β) (k : Nat) :
    (l.eraseIdx k).map f = (l.map f).eraseIdx k := by
  induction k generalizing l with
  | zero => cases l <;> simp
  | succ k ih => cases l with
    | nil => simp
    | cons a as => simp [ih as]

theorem map_getD {β γ : Type} (f : β → γ) (l : List β) (k : Nat) (b : β) (hk : k < l.length) :
    (l.map f).getD k (f b) = f (l.getD k b) := by
  induction k generalizing l with
  | zero => cases l with
    | nil => simp at hk
    | cons a as => simp
  | succ k ih => cases l with
    | nil => simp at hk
    | cons a as =>
      simp only [List.length_cons, Nat.add_lt_add_iff_right] at hk
      simp only [List.map_cons, List.getD_cons_succ, ih as hk]

/-- Storage needed by the sub-view at position `index` of axis `k`. -/
theorem minDataLen_eraseIdx (d : Dims) (k index : Nat) (hk : k < d.length)
    (hi : index < (d.getD k (0, 0)).1) (hne : numelD (d.eraseIdx k) ≠ 0) :
    (d.getD k (0, 0)).2 * index + minDataLen (d.eraseIdx k) ≤ minDataLen d := by
  have hnum : numelD d ≠ 0 := by
    unfold numelD at hne ⊢
    rw [numel_eraseIdx (sizes d) k (by simpa using hk), ← sizes_eraseIdx, sizes_getD]
    exact Nat.mul_ne_zero (by omega) hne
  have hz1 : ((sizes d).any (· == 0)) = false := by
    cases h : (sizes d).any (· == 0) with
    | false => rfl
    | true => exact absurd ((anyZero_iff _).mp h) hnum
  have hz2 : ((sizes (d.eraseIdx k)).any (· == 0)) = false := by
    cases h : (sizes (d.eraseIdx k)).any (· == 0) with
    | false => rfl
    | true => exact absurd ((anyZero_iff _).mp h) hne
  unfold minDataLen
  rw [hz1, hz2]
  simp only [Bool.false_eq_true, if_false]
  rw [sum_eraseIdx (d.map fun p => (p.1 - 1) * p.2) k (by simpa using hk), map_eraseIdx]
  have hg : (d.map fun p => (p.1 - 1) * p.2).getD k 0 =
      ((d.getD k (0, 0)).1 - 1) * (d.getD k (0, 0)).2 := by
    have := map_getD (fun p : Nat × Nat => (p.1 - 1) * p.2) d k (0, 0) hk
    simpa using this
  rw [hg]
  have : (d.getD k (0, 0)).2 * index ≤ ((d.getD k (0, 0)).1 - 1) * (d.getD k (0, 0)).2 := by
    rw [Nat.mul_comm]
    exact Nat.mul_le_mul_right _ (by omega)
  omega


end RtenVerif.Layout
