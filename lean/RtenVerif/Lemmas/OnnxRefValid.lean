import RtenVerif.Lemmas.OnnxRefIndex
/-! Pointwise characterisation of valid indices and list extensionality through `getN`. -/
namespace RtenVerif.OnnxRef

@[simp] theorem getN_cons_zero (x : Nat) (xs : List Nat) : getN (x :: xs) 0 = x := rfl
@[simp] theorem getN_cons_succ (x : Nat) (xs : List Nat) (k : Nat) : getN (x :: xs) (k + 1) = getN xs k := rfl
@[simp] theorem getN_nil (k : Nat) : getN [] k = 0 := by simp [getN]

theorem getN_eq_getElem (l : List Nat) (k : Nat) (h : k < l.length) : getN l k = l[k] := by
  simp [getN, List.getD_eq_getElem?_getD, h]

/-- Valid index = same rank and every coordinate below its extent. -/
theorem validIdx_iff : ∀ (s idx : List Nat),
    validIdx s idx = true ↔ idx.length = s.length ∧ ∀ k, k < s.length → getN idx k < getN s k
  | [], [] => by simp [validIdx]
  | [], _ :: _ => by simp [validIdx]
  | _ :: _, [] => by simp [validIdx]
  | d :: ds, i :: is => by
    have ih := validIdx_iff ds is
    simp only [validIdx, Bool.and_eq_true, decide_eq_true_eq, ih, List.length_cons]
    constructor
    · rintro ⟨h0, hl, hk⟩
      refine ⟨by omega, ?_⟩
      intro k hk'
      cases k with
      | zero => simpa using h0
      | succ k => simpa using hk k (by omega)
    · rintro ⟨hl, hk⟩
      refine ⟨by simpa using hk 0 (by omega), by omega, ?_⟩
      intro k hk'
      simpa using hk (k + 1) (by omega)

theorem list_ext_getN (a b : List Nat) (hl : a.length = b.length)
    (h : ∀ k, k < a.length → getN a k = getN b k) : a = b := by
  apply List.ext_getElem hl
  intro k h1 h2
  have := h k h1
  rwa [getN_eq_getElem a k h1, getN_eq_getElem b k h2] at this

theorem getN_set (l : List Nat) (k v j : Nat) :
    getN (l.set k v) j = if k = j ∧ k < l.length then v else getN l j := by
  simp only [getN, List.getD_eq_getElem?_getD, List.getElem?_set]
  by_cases h : k = j
  · subst h
    by_cases hk : k < l.length
    · simp [hk]
    · simp [hk]
  · simp [h]

theorem getN_withAt (l : List Nat) (k v j : Nat) :
    getN (withAt l k v) j = if k = j ∧ k < l.length then v else getN l j := getN_set l k v j

@[simp] theorem length_withAt (l : List Nat) (k v : Nat) : (withAt l k v).length = l.length := by
  simp [withAt]

theorem withAt_self (l : List Nat) (k : Nat) : withAt l k (getN l k) = l := by
  apply list_ext_getN _ _ (by simp)
  intro j _
  rw [getN_withAt]
  split
  · next h => rw [h.1]
  · rfl

end RtenVerif.OnnxRef
