import RtenVerif.Lemmas.Npy

/-! # Lemmas: npz entry names, header length bound -/
namespace RtenVerif.Npy

theorem stripNpy_append (base : List Nat) : stripNpy (base ++ npySuffix) = some base := by
  unfold stripNpy
  have hl : (base ++ npySuffix).length - 4 = base.length := by simp [npySuffix]
  have h4 : 4 ≤ (base ++ npySuffix).length := by simp [npySuffix]
  rw [hl, List.drop_left' rfl, List.take_left' rfl]
  simp [npySuffix]

theorem stripNpy_some {name b : List Nat} (h : stripNpy name = some b) : name = b ++ npySuffix := by
  unfold stripNpy at h
  split at h
  · rename_i hc
    injection h with h
    rw [← h, ← hc.2, List.take_append_drop]
  · cases h

/-- `npz_file_name` always produces `base.npy` with a non-empty base, where the given name is
either `base` or `base.npy`. -/
theorem npzFileName_some {name f : List Nat} (h : npzFileName name = some f) :
    ∃ base, base ≠ [] ∧ f = base ++ npySuffix ∧ (name = base ∨ name = base ++ npySuffix) := by
  unfold npzFileName at h
  simp only at h
  split at h
  · cases h
  · rename_i hne
    injection h with h
    cases hs : stripNpy name with
    | none =>
      simp only [hs, Option.getD_none] at h hne
      exact ⟨name, by intro e; simp [e] at hne, h.symm, Or.inl rfl⟩
    | some b =>
      simp only [hs, Option.getD_some] at h hne
      exact ⟨b, by intro e; simp [e] at hne, h.symm, Or.inr (stripNpy_some hs)⟩

theorem npzFileName_base (base : List Nat) (hne : base ≠ []) :
    npzFileName (base ++ npySuffix) = some (base ++ npySuffix) := by
  unfold npzFileName
  simp only [stripNpy_append, Option.getD_some]
  cases base with
  | nil => exact absurd rfl hne
  | cons a t => simp

/-! ## length of the generated header -/

theorem decRev_length (f n k : Nat) (h : n < 10 ^ (k + 1)) : (decRev f n).length ≤ k + 1 := by
  induction f generalizing n k with
  | zero => simp [decRev]
  | succ f ih =>
    unfold decRev
    by_cases h0 : n / 10 = 0
    · simp [h0]
    · simp only [h0, if_false, List.length_cons]
      cases k with
      | zero => simp at h; omega
      | succ k =>
        have : n / 10 < 10 ^ (k + 1) := by
          apply Nat.div_lt_of_lt_mul
          rw [Nat.pow_succ, Nat.mul_comm] at h; exact h
        have := ih (n / 10) k this
        omega

theorem natDigits_length_le (n : Nat) (h : n < usizeLimit) : (natDigits n).length ≤ 20 := by
  unfold natDigits
  rw [List.length_reverse]
  exact decRev_length _ n 19 (by simp [usizeLimit] at h; omega)

theorem joinDims_length_le (ds : List Nat) (h : ∀ d ∈ ds, d < usizeLimit) :
    (joinDims ds).length ≤ 22 * ds.length := by
  induction ds with
  | nil => simp [joinDims]
  | cons d ds ih =>
    have hd := natDigits_length_le d (h d (by simp))
    have := ih (fun x hx => h x (by simp [hx]))
    cases ds with
    | nil => simp [joinDims]; omega
    | cons d2 ds' => simp [joinDims] at this ⊢; omega

theorem paddedDict_length_le (dt : DataType) (shape : List Nat) (h : ∀ d ∈ shape, d < usizeLimit) :
    (paddedDict dt shape).length ≤ 22 * shape.length + 121 := by
  have hj := joinDims_length_le shape h
  have hdl : (dictText dt shape).length ≤ 22 * shape.length + 56 := by
    have : (dimsText shape).length ≤ 22 * shape.length + 1 := by
      unfold dimsText
      split <;> simp <;> omega
    cases dt <;> simp [dictText, pre1, pre2, post, DataType.descr] <;> omega
  unfold paddedDict
  simp only [List.length_append, List.length_replicate, List.length_singleton, padLen, nextMultipleOf,
    headerAlign]
  generalize (dictText dt shape).length = L at *
  by_cases hm : (10 + L + 1) % 64 = 0
  · simp only [hm, if_true]; omega
  · simp only [hm, if_false]; omega

/-- `build_header` succeeds for every shape of rank at most 2900 (any dims). -/
theorem buildHeader_ok_of_rank (dt : DataType) (shape : List Nat) (h : ∀ d ∈ shape, d < usizeLimit)
    (hr : shape.length ≤ 2900) : ∃ hdr, buildHeader dt shape = .ok hdr := by
  have := paddedDict_length_le dt shape h
  unfold buildHeader
  simp only
  split
  · exact ⟨_, rfl⟩
  · omega

theorem joinDims_length_ge (ds : List Nat) : 3 * ds.length ≤ (joinDims ds).length + 2 := by
  induction ds with
  | nil => simp
  | cons d ds ih =>
    obtain ⟨c, cs, hc, _⟩ := natDigits_cons d
    cases ds with
    | nil => simp [joinDims, hc]
    | cons d2 ds' => simp [joinDims, hc] at ih ⊢; omega

/-- The writer's only failure: a shape of rank ≥ 21846 (any dims) does not fit the `u16` header
length of format version 1.0. -/
theorem buildHeader_too_large (dt : DataType) (shape : List Nat) (hr : 21846 ≤ shape.length) :
    buildHeader dt shape = .error .headerTooLarge := by
  have h1 := joinDims_length_ge shape
  have h2 : (joinDims shape).length ≤ (paddedDict dt shape).length := by
    simp only [paddedDict, dictText, dimsText, List.length_append]
    omega
  unfold buildHeader
  simp only
  split
  · omega
  · rfl

theorem write_ok_of_rank (a : Array) (h : ∀ d ∈ a.shape, d < usizeLimit) (hr : a.shape.length ≤ 2900) :
    ∃ f, write a = .ok f := by
  obtain ⟨hdr, hb⟩ := buildHeader_ok_of_rank a.dtype a.shape h hr
  exact ⟨hdr ++ (a.vals.map (encodeElem a.dtype)).flatten, by simp [write, hb]⟩

/-- The header (prefix + dictionary) is padded to a multiple of 64 bytes. -/
theorem buildHeader_aligned (dt : DataType) (shape hdr : List Nat) (h : buildHeader dt shape = .ok hdr) :
    hdr.length % 64 = 0 := by
  unfold buildHeader at h
  simp only at h
  split at h
  · injection h with h
    subst h
    simp only [paddedDict, List.length_append, List.length_replicate, List.length_singleton, padLen,
      nextMultipleOf, headerAlign, magicBytes, List.length_cons, List.length_nil, toLE]
    generalize (dictText dt shape).length = L at *
    by_cases hm : (10 + L + 1) % 64 = 0
    · simp only [hm, if_true]; omega
    · simp only [hm, if_false]; omega
  · cases h

end RtenVerif.Npy
