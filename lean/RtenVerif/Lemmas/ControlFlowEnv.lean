import RtenVerif.Lemmas.ControlFlowOwn

/-!
# What a subgraph sees through its `CaptureEnv` (C24.T1, frame level)

`extractByVal_visible`: by-value extraction never hides a local value of the parent graph from the
child: afterwards the value is either still in `temp_values` (captured by reference) or in the
by-value map, with the same contents.  `getInput_frame_local`: hence `CaptureEnv::get_input`
on the environment built by `run_plan` returns, for every node the parent graph defines, exactly
what the parent itself would have read before the extraction.
-/
namespace RtenVerif.ControlFlow

variable {P V : Type}

theorem look_append (a b : Env V) (n : Nat) :
    look (a ++ b) n = match look a n with | some v => some v | none => look b n := by
  induction a with
  | nil => simp [look]
  | cons p rest ih =>
    obtain ⟨m, v⟩ := p
    by_cases h : m = n
    · simp [look, h]
    · simp [look, h, ih]

theorem look_erase_self (σ : Env V) (n : Nat) : look (erase σ n) n = none := by
  induction σ with
  | nil => rfl
  | cons p rest ih =>
    obtain ⟨a, v⟩ := p
    unfold erase at ih ⊢
    by_cases ha : a = n
    · subst ha; simp [List.filter, ih]
    · have hne : (a != n) = true := by simpa using ha
      simp [List.filter, hne, look, ha, ih]

theorem look_erase_none (σ : Env V) (n m : Nat) (h : look σ m = none) : look (erase σ n) m = none := by
  by_cases hm : m = n
  · subst hm; exact look_erase_self σ m
  · rw [look_erase_ne σ n m hm]; exact h

/-- `take_value` can only shrink `temp_values`. -/
theorem takeValue_temp_none (gc : List Nat) (st : St V) (m n : Nat) (h : look st.temp n = none) :
    look (takeValue gc st m).2.temp n = none := by
  unfold takeValue
  split
  · split
    · exact look_erase_none _ _ _ h
    · split <;> exact h
  · exact h

/-- A name that is neither in `temp_values` nor a capture node of the graph is never extracted. -/
theorem takeValue_none_of (gc : List Nat) (st : St V) (n : Nat) (h : look st.temp n = none)
    (hc : gc.contains n = false) : (takeValue gc st n).1 = none := by
  have hc' : n ∉ gc := by simpa using hc
  unfold takeValue
  split
  · simp [h, hc']
  · rfl

theorem extractByVal_temp_none (gc ins : List Nat) : ∀ (ds : List Nat) (st : St V) (n : Nat),
    look st.temp n = none → look (extractByVal gc ins st ds).1.temp n = none
  | [], _, _, h => h
  | m :: ms, st, n, h => by
    unfold extractByVal
    split
    · exact extractByVal_temp_none gc ins ms st n h
    · have h' := takeValue_temp_none gc st m n h
      split
      · rename_i v st' htv
        rw [htv] at h'
        exact extractByVal_temp_none gc ins ms st' n h'
      · rename_i st' htv
        rw [htv] at h'
        exact extractByVal_temp_none gc ins ms st' n h'

theorem extractByVal_not_key (gc ins : List Nat) : ∀ (ds : List Nat) (st : St V) (n : Nat),
    look st.temp n = none → gc.contains n = false → look (extractByVal gc ins st ds).2 n = none
  | [], _, _, _, _ => rfl
  | m :: ms, st, n, h, hc => by
    unfold extractByVal
    split
    · exact extractByVal_not_key gc ins ms st n h hc
    · have h' := takeValue_temp_none gc st m n h
      split
      · rename_i v st' htv
        rw [htv] at h'
        simp only []
        rw [look_append, extractByVal_not_key gc ins ms st' n h' hc]
        by_cases hmn : m = n
        · subst hmn
          have := takeValue_none_of gc st m h hc
          rw [htv] at this; simp at this
        · simp [look, hmn]
      · rename_i st' htv
        rw [htv] at h'
        exact extractByVal_not_key gc ins ms st' n h' hc

/-- By-value extraction keeps every owned local value of the parent visible to the child: it is
still in `temp_values` (by reference) or it sits, unchanged, in the by-value map. -/
theorem extractByVal_visible (gc ins : List Nat) : ∀ (ds : List Nat) (st : St V) (n : Nat) (v : V),
    look st.temp n = some v → gc.contains n = false →
    (look (extractByVal gc ins st ds).1.temp n = some v ∧ look (extractByVal gc ins st ds).2 n = none) ∨
    (look (extractByVal gc ins st ds).1.temp n = none ∧ look (extractByVal gc ins st ds).2 n = some v)
  | [], _, _, _, h, _ => Or.inl ⟨h, rfl⟩
  | m :: ms, st, n, v, h, hc => by
    unfold extractByVal
    split
    · exact extractByVal_visible gc ins ms st n v h hc
    · by_cases hmn : m = n
      · subst hmn
        -- the head is `n` itself
        unfold takeValue
        by_cases hrc : (st.rc m == 1) = true
        · simp only [hrc, if_true, h]
          right
          have hnone : look (erase st.temp m) m = none := look_erase_self _ _
          refine ⟨extractByVal_temp_none gc ins ms _ m hnone, ?_⟩
          rw [look_append, extractByVal_not_key gc ins ms _ m hnone hc]
          simp [look]
        · simp only [hrc]
          exact extractByVal_visible gc ins ms st m v h hc
      · -- another name: `temp_values[n]` is untouched by this take
        have hkeep : look (takeValue gc st m).2.temp n = some v := by
          unfold takeValue
          split
          · split
            · rw [look_erase_ne _ _ _ (Ne.symm hmn)]; exact h
            · split <;> exact h
          · exact h
        split
        · rename_i w st' htv
          rw [htv] at hkeep
          simp only []
          rw [look_append]
          rcases extractByVal_visible gc ins ms st' n v hkeep hc with ⟨h1, h2⟩ | ⟨h1, h2⟩
          · left; exact ⟨h1, by simp [h2, look, hmn]⟩
          · right; exact ⟨h1, by simp [h2]⟩
        · rename_i st' htv
          rw [htv] at hkeep
          exact extractByVal_visible gc ins ms st' n v hkeep hc

/-- Capture nodes are by definition not defined by the graph. -/
theorem caps_not_def (g : Graph P V) (n : Nat) (h : n ∈ g.defs) : g.caps.contains n = false := by
  unfold Graph.caps
  rw [Bool.eq_false_iff]
  intro hc
  have hmem : n ∈ ((g.ops.flatMap Op.directInputs).filter (fun n => !g.defs.contains n)).eraseDups := by
    simpa using hc
  rw [List.mem_eraseDups] at hmem
  have := (List.mem_filter.mp hmem).2
  simp [h] at this

/-- `CaptureEnv::get_input` on the environment `run_plan` builds for a subgraph operator, for a
name defined by the parent graph: owned values (by reference or just moved by value), then
constants / borrowed inputs. -/
theorem getInput_frame_local (g : Graph P V) (views tempRef byVal : Env V) (env : List (Frame V))
    (n : Nat) (h : n ∈ g.defs) :
    getInput ({ locals := g.defs, caps := g.caps, views := views, tempRef := tempRef,
                byVal := byVal } :: env) n =
      match look tempRef n with
      | some v => some v
      | none => match look byVal n with
        | some v => some v
        | none => look views n := by
  simp [getInput, h]
  cases look tempRef n <;> cases look byVal n <;> rfl

/-- …and for a name the parent graph does not define the lookup continues in the parent's own
environment (this includes the parent's capture nodes). -/
theorem getInput_frame_outer (g : Graph P V) (views tempRef byVal : Env V) (env : List (Frame V))
    (n : Nat) (h : n ∉ g.defs) :
    getInput ({ locals := g.defs, caps := g.caps, views := views, tempRef := tempRef,
                byVal := byVal } :: env) n = getInput env n := by
  simp [getInput, h]

end RtenVerif.ControlFlow
