import RtenVerif.Model.SimdLoop
import RtenVerif.Lemmas.SimdLoop

/-! Lemmas about `movemask8` and the emulated masked load/store loops (core Lean only). -/
namespace RtenVerif.SimdLoop

theorem movemask8_testBit : ∀ (m : List Bool) (j : Nat), (movemask8 m).testBit j = m.getD j false := by
  intro m
  induction m with
  | nil => intro j; simp [movemask8]
  | cons b bs ih =>
    intro j
    cases j with
    | zero =>
      simp only [movemask8, Nat.testBit_zero, List.getD_cons_zero]
      cases b <;> simp <;> omega
    | succ j =>
      rw [Nat.testBit_succ, List.getD_cons_succ, ← ih j]
      congr 1
      simp only [movemask8]
      cases b <;> simp <;> omega

theorem bytesOf16_getD : ∀ (m : List Bool) (i : Nat),
    (bytesOf16 m).getD (i * 2 + 1) false = m.getD i false ∧
    (bytesOf16 m).getD (i * 2) false = m.getD i false := by
  intro m
  induction m with
  | nil => intro i; simp [bytesOf16]
  | cons b bs ih =>
    intro i
    cases i with
    | zero => simp [bytesOf16]
    | succ i =>
      have e1 : (i + 1) * 2 + 1 = (i * 2 + 1) + 1 + 1 := by omega
      have e2 : (i + 1) * 2 = (i * 2) + 1 + 1 := by omega
      rw [e1, e2]
      simp only [bytesOf16, List.getD_cons_succ]
      exact ih i

/-- Whatever the ISA's encoding, the loop's test for lane `i` is the lane's mask value. -/
theorem emuBit_eq (k : EmuKind) (m : List Bool) (i : Nat) : emuBit k m i = m.getD i false := by
  cases k with
  | direct => rfl
  | avx2x8 => exact movemask8_testBit m i
  | avx2x16 => simp only [emuBit]; rw [movemask8_testBit, (bytesOf16_getD m i).1]

theorem emuAccess_getD : ∀ (m : List Bool) (off : Nat),
    emuAccess m.length (fun i => m.getD i false) off = maskIdx off m := by
  intro m
  induction m with
  | nil => intro off; simp [emuAccess, maskIdx]
  | cons b bs ih =>
    intro off
    have := ih (off + 1)
    unfold emuAccess at this ⊢
    rw [List.length_cons, List.range_succ_eq_map, List.filterMap_cons, List.filterMap_map]
    simp only [List.getD_cons_zero, Nat.add_zero, maskIdx]
    have hf : (fun i => if (b :: bs).getD i false = true then some (off + i) else none) ∘ Nat.succ
        = (fun i => if bs.getD i false = true then some (off + 1 + i) else none) := by
      funext i
      simp only [Function.comp, Nat.succ_eq_add_one, List.getD_cons_succ]
      have : off + (i + 1) = off + 1 + i := by omega
      rw [this]
    rw [hf, this]
    cases b <;> simp

theorem emuStore_spec {α : Type} (zero : α) (bit : Nat → Bool) (off : Nat) (xs : List α) :
    ∀ (lanes : Nat) (mem : Nat → α) (a : Nat),
    emuStore zero mem lanes bit off xs a =
      if off ≤ a ∧ a < off + lanes ∧ bit (a - off) = true then xs.getD (a - off) zero else mem a := by
  intro lanes
  induction lanes with
  | zero =>
    intro mem a
    have h : ¬ (off ≤ a ∧ a < off + 0 ∧ bit (a - off) = true) := by
      intro h; omega
    rw [if_neg h]
    simp [emuStore]
  | succ n ih =>
    intro mem a
    have hstep : emuStore zero mem (n + 1) bit off xs =
        (if bit n then (fun a => if a = off + n then xs.getD n zero else emuStore zero mem n bit off xs a)
         else emuStore zero mem n bit off xs) := by
      simp [emuStore, List.range_succ, List.foldl_append]
    rw [hstep]
    by_cases hb : bit n = true
    · simp only [hb, if_true]
      by_cases ha : a = off + n
      · subst ha
        have : off ≤ off + n ∧ off + n < off + (n + 1) ∧ bit (off + n - off) = true := by
          refine ⟨by omega, by omega, ?_⟩
          rw [Nat.add_sub_cancel_left]; exact hb
        rw [if_pos rfl, if_pos this, Nat.add_sub_cancel_left]
      · rw [if_neg ha, ih mem a]
        by_cases h1 : off ≤ a ∧ a < off + n ∧ bit (a - off) = true
        · have h2 : off ≤ a ∧ a < off + (n + 1) ∧ bit (a - off) = true := ⟨h1.1, by omega, h1.2.2⟩
          rw [if_pos h1, if_pos h2]
        · have h2 : ¬ (off ≤ a ∧ a < off + (n + 1) ∧ bit (a - off) = true) := by
            intro h; apply h1; exact ⟨h.1, by omega, h.2.2⟩
          rw [if_neg h1, if_neg h2]
    · have hb' : bit n = false := by cases h : bit n <;> simp_all
      simp only [hb', Bool.false_eq_true, if_false]
      rw [ih mem a]
      by_cases h1 : off ≤ a ∧ a < off + n ∧ bit (a - off) = true
      · have h2 : off ≤ a ∧ a < off + (n + 1) ∧ bit (a - off) = true := ⟨h1.1, by omega, h1.2.2⟩
        rw [if_pos h1, if_pos h2]
      · have h2 : ¬ (off ≤ a ∧ a < off + (n + 1) ∧ bit (a - off) = true) := by
          intro h; apply h1
          refine ⟨h.1, ?_, h.2.2⟩
          by_cases e : a = off + n
          · exfalso; rw [e, Nat.add_sub_cancel_left, hb'] at h; exact Bool.false_ne_true h.2.2
          · omega
        rw [if_neg h1, if_neg h2]

end RtenVerif.SimdLoop
