import RtenVerif.Lemmas.OnnxRefReduce
/-! Transpose: identity permutation, composition, involution. -/
namespace RtenVerif.OnnxRef

theorem getN_map (l : List Nat) (f : Nat → Nat) (c : Nat) (h : c < l.length) :
    getN (l.map f) c = f (getN l c) := by
  simp [getN, List.getD_eq_getElem?_getD, h]

theorem getN_mem (l : List Nat) (k : Nat) (h : k < l.length) : getN l k ∈ l := by
  rw [getN_eq_getElem l k h]; exact List.getElem_mem h

theorem idxOf_cons_ne' (c a : Nat) (t : List Nat) (h : c ≠ a) : (c :: t).idxOf a = t.idxOf a + 1 := by
  rw [List.idxOf_cons]
  have : (c == a) = false := by simpa using h
  rw [this]; rfl

theorem getN_idxOf : ∀ (l : List Nat) (a : Nat), a ∈ l → getN l (l.idxOf a) = a
  | [], a, h => by simp at h
  | c :: t, a, h => by
    by_cases hc : c = a
    · subst hc; simp [List.idxOf_cons_self]
    · have ht : a ∈ t := by
        rcases List.mem_cons.mp h with h | h
        · exact absurd h.symm hc
        · exact h
      rw [idxOf_cons_ne' _ _ _ hc]
      simpa using getN_idxOf t a ht

theorem idxOf_lt (l : List Nat) (a : Nat) (h : a ∈ l) : l.idxOf a < l.length :=
  List.idxOf_lt_length_of_mem h

theorem idxOf_first : ∀ (l : List Nat) (b j : Nat), j < l.idxOf b → getN l j ≠ b
  | [], b, j, h => by simp at h
  | c :: t, b, j, h => by
    by_cases hc : c = b
    · subst hc; simp [List.idxOf_cons_self] at h
    · rw [idxOf_cons_ne' _ _ _ hc] at h
      cases j with
      | zero => simpa using hc
      | succ j => simpa using idxOf_first t b j (by omega)

theorem idxOf_eq : ∀ (l : List Nat) (a i : Nat), i < l.length → getN l i = a →
    (∀ j, j < i → getN l j ≠ a) → l.idxOf a = i
  | [], a, i, hi, _, _ => by simp at hi
  | c :: t, a, i, hi, h, hf => by
    cases i with
    | zero =>
      have : c = a := by simpa using h
      subst this; simp [List.idxOf_cons_self]
    | succ i =>
      have hc : c ≠ a := by simpa using hf 0 (by omega)
      rw [idxOf_cons_ne' _ _ _ hc]
      have := idxOf_eq t a i (by simpa using hi) (by simpa using h)
        (fun j hj => by simpa using hf (j + 1) (by omega))
      omega

theorem nodup_getN_inj : ∀ (l : List Nat), l.Nodup → ∀ m m', m < l.length → m' < l.length →
    getN l m = getN l m' → m = m'
  | [], _, m, _, hm, _, _ => by simp at hm
  | c :: t, hn, m, m', hm, hm', h => by
    have hn' := List.nodup_cons.mp hn
    cases m with
    | zero =>
      cases m' with
      | zero => rfl
      | succ k =>
        exfalso; apply hn'.1
        have : getN t k = c := by simpa using h.symm
        rw [← this]; exact getN_mem t k (by simpa using hm')
    | succ k =>
      cases m' with
      | zero =>
        exfalso; apply hn'.1
        have : getN t k = c := by simpa using h
        rw [← this]; exact getN_mem t k (by simpa using hm)
      | succ k' =>
        have := nodup_getN_inj t hn'.2 k k' (by simpa using hm) (by simpa using hm') (by simpa using h)
        omega

theorem idxOf_range (r a : Nat) (h : a < r) : (List.range r).idxOf a = a := by
  apply idxOf_eq _ _ _ (by simpa using h)
  · simp [getN, List.getD_eq_getElem?_getD, h]
  · intro j hj
    have : j < r := by omega
    simp [getN, List.getD_eq_getElem?_getD, this]; omega

/-- T1. Transposing with the identity permutation is the identity. -/
theorem transposeP_id (x : Tensor) (hwf : x.data.length = prod x.shape) :
    transposeP x (List.range x.shape.length) = x := by
  unfold transposeP
  rw [map_range_getN]
  apply Eq.trans (build_congr x.shape _ x.get _) (build_get x hwf)
  intro idx hv
  have hl : idx.length = x.shape.length := ((validIdx_iff _ _).mp hv).1
  congr 1
  unfold unpermute
  apply list_ext_getN _ _ (by simp [hl])
  intro k hk
  have hk' : k < x.shape.length := by simpa using hk
  simp only [List.length_range]
  rw [getN_map_range _ _ _ hk', idxOf_range _ _ hk']

/-- Facts about a permutation of `0 … n-1`. -/
theorem perm_facts {p : List Nat} {n : Nat} (hp : p.Perm (List.range n)) :
    p.length = n ∧ (∀ a, a ∈ p ↔ a < n) ∧ p.Nodup :=
  ⟨by simpa using hp.length_eq, fun a => by simpa using hp.mem_iff (a := a),
    hp.nodup_iff.mpr List.nodup_range⟩

/-- T2. Composition: transposing by `p` and then by `q` is transposing by `k ↦ p[q[k]]`. -/
theorem transposeP_comp (x : Tensor) (p q : List Nat)
    (hp : p.Perm (List.range x.shape.length)) (hq : q.Perm (List.range x.shape.length)) :
    transposeP (transposeP x p) q = transposeP x (q.map (getN p)) := by
  obtain ⟨hpl, hpm, hpn⟩ := perm_facts hp
  obtain ⟨hql, hqm, hqn⟩ := perm_facts hq
  have hshape : q.map (getN (p.map (getN x.shape))) = (q.map (getN p)).map (getN x.shape) := by
    rw [List.map_map]
    apply List.map_congr_left
    intro c hc
    have : c < p.length := by rw [hpl]; exact (hqm c).mp hc
    simp [getN_map _ _ _ this]
  unfold transposeP
  simp only [build] at hshape ⊢
  have hs : (build (p.map (getN x.shape)) fun idx => x.get (unpermute p idx)).shape = p.map (getN x.shape) := rfl
  simp only [hshape]
  congr 1
  apply List.map_congr_left
  intro idx hm
  have hv := (mem_allIdx _ _).mp hm
  obtain ⟨hil, hib⟩ := (validIdx_iff _ _).mp hv
  have hil' : idx.length = x.shape.length := by simpa [hql] using hil
  -- the intermediate index is valid for the intermediate tensor
  have hmid : validIdx (p.map (getN x.shape)) (unpermute q idx) = true := by
    rw [validIdx_iff]
    refine ⟨by simp [unpermute, hql, hpl], ?_⟩
    intro j hj
    have hj' : j < x.shape.length := by simpa [hpl] using hj
    have hjq : j ∈ q := (hqm j).mpr hj'
    have hk : q.idxOf j < q.length := idxOf_lt q j hjq
    unfold unpermute
    rw [getN_map_range _ _ _ (by rw [hql]; exact hj')]
    have hb := hib (q.idxOf j) (by simpa using hk)
    rw [getN_map _ _ _ (by simpa using hk), getN_map _ _ _ hk, getN_idxOf q j hjq] at hb
    rw [getN_map _ _ _ (by rw [hpl]; exact hj')]
    exact hb
  have hget : (build (p.map (getN x.shape)) fun idx => x.get (unpermute p idx)).get (unpermute q idx)
      = x.get (unpermute p (unpermute q idx)) := get_build _ _ _ hmid
  show Tensor.get ⟨p.map (getN x.shape), _⟩ (unpermute q idx) = _
  have : (⟨p.map (getN x.shape), (allIdx (p.map (getN x.shape))).map fun idx => x.get (unpermute p idx)⟩ : Tensor)
      = build (p.map (getN x.shape)) fun idx => x.get (unpermute p idx) := rfl
  rw [this, hget]
  congr 1
  -- the two index computations agree coordinate by coordinate
  unfold unpermute
  simp only [List.length_map]
  rw [hpl, hql]
  apply List.map_congr_left
  intro a ha
  have ha' : a < x.shape.length := List.mem_range.mp ha
  have hap : a ∈ p := (hpm a).mpr ha'
  have hi0 : p.idxOf a < x.shape.length := by rw [← hpl]; exact idxOf_lt p a hap
  have hi0q : p.idxOf a ∈ q := (hqm _).mpr hi0
  rw [getN_map_range _ _ _ hi0]
  congr 1
  symm
  apply idxOf_eq
  · simpa using idxOf_lt q _ hi0q
  · rw [getN_map _ _ _ (idxOf_lt q _ hi0q), getN_idxOf q _ hi0q, getN_idxOf p a hap]
  · intro j hj hcontra
    have hjl : j < q.length := by have := idxOf_lt q _ hi0q; omega
    rw [getN_map _ _ _ hjl] at hcontra
    have hqj : getN q j < p.length := by rw [hpl]; exact (hqm _).mp (getN_mem q j hjl)
    have : getN q j = p.idxOf a := by
      apply nodup_getN_inj p hpn _ _ hqj (idxOf_lt p a hap)
      rw [hcontra, getN_idxOf p a hap]
    exact idxOf_first q _ j hj this

/-- T3. Involution: transposing by `p` and then by a `q` with `p[q[k]] = k` gives the tensor back. -/
theorem transposeP_inverse (x : Tensor) (p q : List Nat) (hwf : x.data.length = prod x.shape)
    (hp : p.Perm (List.range x.shape.length)) (hq : q.Perm (List.range x.shape.length))
    (hinv : q.map (getN p) = List.range x.shape.length) :
    transposeP (transposeP x p) q = x := by
  rw [transposeP_comp x p q hp hq, hinv, transposeP_id x hwf]

end RtenVerif.OnnxRef
