import RtenVerif.Lemmas.PlannerErr
/-!
# Completeness of the planner on unique-producer graphs (converse of C03.T2b)

If *some* `PlanOK` plan exists for a request on a graph where every value has at most one
producer, then none of the three traversal error causes can hold: every needed operator
is in that plan, `Edge`s point strictly backwards in it (so there is no cycle), and every
needed value has a producer.
-/
namespace RtenVerif.Planner
open RtenVerif.Graph

/-- A value that is available after running `l`, was not available initially and is not
excused by `allow_missing_inputs`, is an output of an operator in `l`. -/
theorem avail_producer {g : Graph} {am : Bool} {r0 l : List Nat} {d : Nat}
    (ha : Avail g am (availAfter g r0 l) d) (hr0 : rContains g r0 d = false)
    (hex : ¬(am = true ∧ getSource g d = none)) :
    ∃ i ∈ l, ∃ op, getOp g i = some op ∧ d ∈ opOutputs op := by
  rcases ha with ha | ha
  · rcases rContains_append_cases ha with h | h
    · rw [hr0] at h; cases h
    · obtain ⟨i, hi, hd⟩ := List.mem_flatMap.mp h
      refine ⟨i, hi, ?_⟩
      unfold outsOf at hd
      cases hop : getOp g i with
      | none => simp [hop] at hd
      | some op => exact ⟨op, rfl, by simpa [hop] using hd⟩
  · exact absurd ha hex

theorem idxOf_lt_of_mem_left {p : Nat} : ∀ (pre l : List Nat), p ∈ pre →
    (pre ++ l).idxOf p < pre.length := by
  intro pre
  induction pre with
  | nil => intro l h; cases h
  | cons a pre ih =>
    intro l h
    by_cases hap : a = p
    · subst hap; simp [List.idxOf_cons]
    · have hp : p ∈ pre := by
        rcases List.mem_cons.mp h with h | h
        · exact absurd h.symm hap
        · exact h
      have := ih l hp
      have hb : (a == p) = false := by simpa using hap
      simp only [List.cons_append, List.idxOf_cons, hb, cond_false, List.length_cons]
      omega

theorem idxOf_eq_of_not_mem_left {x : Nat} : ∀ (pre post : List Nat), x ∉ pre →
    (pre ++ x :: post).idxOf x = pre.length := by
  intro pre
  induction pre with
  | nil => intro post _; simp [List.idxOf_cons]
  | cons a pre ih =>
    intro post h
    have hax : a ≠ x := fun e => h (e ▸ List.mem_cons_self ..)
    have hx : x ∉ pre := fun hm => h (List.mem_cons_of_mem _ hm)
    have hb : (a == x) = false := by simpa using hax
    simp only [List.cons_append, List.idxOf_cons, hb, cond_false, List.length_cons, ih post hx]

section
variable {g : Graph} {am : Bool} {r0 outs Q : List Nat}

/-- In a valid plan on a unique-producer graph, the source of a not-initially-available
dependency of a planned operator is planned strictly earlier. -/
theorem edge_before (hu : UniqueProducer g) (hQ : PlanOK g am r0 outs Q) {x p : Nat}
    (hx : x ∈ Q) (he : Edge g r0 x p) : p ∈ Q ∧ Q.idxOf p < Q.idxOf x := by
  obtain ⟨xop, d, pop, hxop, hd, hr0, hs⟩ := he
  obtain ⟨pre, post, hsplit⟩ := List.append_of_mem hx
  obtain ⟨op, hop, hav⟩ := validIds_split hQ.valid hsplit
  rw [hxop] at hop
  injection hop with hop
  subst hop
  obtain ⟨i, hi, iop, hiop, hdi⟩ :=
    avail_producer (hav d hd) hr0 (by rintro ⟨_, h⟩; rw [hs] at h; cases h)
  have h1 := hu i iop d hiop hdi
  have h2 := (getSource_spec hs).1
  rw [h1] at h2
  injection h2 with h2
  subst h2
  have hnd : (pre ++ x :: post).Nodup := hsplit ▸ hQ.nodup
  have hxpre : x ∉ pre := by
    intro hm
    have := (List.nodup_append.mp hnd).2.2 x hm x (List.mem_cons_self ..)
    exact this rfl
  refine ⟨hsplit ▸ List.mem_append_left _ hi, ?_⟩
  rw [hsplit, idxOf_eq_of_not_mem_left pre post hxpre]
  exact idxOf_lt_of_mem_left pre _ hi

/-- Every needed operator is in every valid complete plan (unique-producer graphs). -/
theorem needed_mem (hu : UniqueProducer g) (hQ : PlanOK g am r0 outs Q) {x : Nat}
    (hn : Needed g r0 outs x) : x ∈ Q := by
  induction hn with
  | @root o p pop ho hr0 hs =>
    obtain ⟨i, hi, iop, hiop, hdi⟩ :=
      avail_producer (hQ.outputs o ho) hr0 (by rintro ⟨_, h⟩; rw [hs] at h; cases h)
    have h1 := hu i iop o hiop hdi
    have h2 := (getSource_spec hs).1
    rw [h1] at h2
    injection h2 with h2
    exact h2 ▸ hi
  | @step x d p xop pop _ hxop hd hr0 hs ih =>
    exact (edge_before hu hQ ih ⟨xop, d, pop, hxop, hd, hr0, hs⟩).1

theorem star_le (hu : UniqueProducer g) (hQ : PlanOK g am r0 outs Q) {p x : Nat}
    (hp : p ∈ Q) (hs : Star (Edge g r0) p x) : x ∈ Q ∧ Q.idxOf x ≤ Q.idxOf p := by
  induction hs with
  | refl => exact ⟨hp, Nat.le_refl _⟩
  | tail _ he ih =>
    obtain ⟨hb, hle⟩ := ih
    obtain ⟨hc, hlt⟩ := edge_before hu hQ hb he
    exact ⟨hc, by omega⟩

/-- **No error cause is compatible with the existence of a `PlanOK` plan.** -/
theorem no_errCause_of_planOK {opts : PlanOptions} (hu : UniqueProducer g)
    (hQ : PlanOK g opts.allowMissing r0 outs Q) {e : PlanError} :
    ¬ErrCause g opts r0 outs e := by
  intro hc
  cases hc with
  | cycle hx he hs =>
    have hxQ := needed_mem hu hQ hx
    obtain ⟨hpQ, hlt⟩ := edge_before hu hQ hxQ he
    obtain ⟨_, hle⟩ := star_le hu hQ hpQ hs
    omega
  | @missing x d xop ham hx hxop hd hr0 hs =>
    have hxQ := needed_mem hu hQ hx
    obtain ⟨pre, post, hsplit⟩ := List.append_of_mem hxQ
    obtain ⟨op, hop, hav⟩ := validIds_split hQ.valid hsplit
    rw [hxop] at hop
    injection hop with hop
    subst hop
    obtain ⟨i, _, iop, hiop, hdi⟩ :=
      avail_producer (hav d hd) hr0 (by rintro ⟨h, _⟩; rw [ham] at h; cases h)
    have h1 := hu i iop d hiop hdi
    rw [getSource_none_iff.mp hs] at h1
    cases h1
  | @noSource o ham ho hr0 hs =>
    obtain ⟨i, _, iop, hiop, hdi⟩ :=
      avail_producer (hQ.outputs o ho) hr0 (by rintro ⟨h, _⟩; rw [ham] at h; cases h)
    have h1 := hu i iop o hiop hdi
    rw [getSource_none_iff.mp hs] at h1
    cases h1

end
/-- Executable check of `UniqueProducer`. -/
def upCheck (g : Graph) : Bool :=
  (List.range g.nodes.length).all (fun p =>
    match getOp g p with
    | some op => (opOutputs op).all (fun v => sourceOf g v == some p)
    | none => true)

theorem uniqueProducer_of_upCheck {g : Graph} (h : upCheck g = true) : UniqueProducer g := by
  intro p op v hop hv
  unfold upCheck at h
  rw [List.all_eq_true] at h
  have := h p (List.mem_range.mpr (getOp_lt hop))
  simp only [hop, List.all_eq_true] at this
  simpa using this v hv

end RtenVerif.Planner
