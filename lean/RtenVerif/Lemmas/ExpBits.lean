import RtenVerif.Model.ExpBits

/-!
C19.T1 by complete enumeration in the kernel (core Lean only: with Mathlib imported the
`Decidable (∀ i : Fin n, …)` instance becomes the `Fintype` one, which the kernel evaluates
orders of magnitude slower).
-/
namespace RtenVerif.ExpBits

/-- Executable check for one `k`: both factors are normal powers of two, the first is the
constant `2^127` (`k > 0`) or `2^-123` (`k ≤ 0`), the second is `2^(k - first)`. -/
def reconOk (k : Int) : Bool :=
  decide (expFactorExps k = (some (firstExp k), some (k - firstExp k)))

def reducedOk (k : Int) : Bool := reducedReconExp k == some k

/-- Complete enumeration of `k = -249 … 254`, evaluated by the kernel. -/
theorem reconOk_all_list : (List.range 504).all (fun i => reconOk ((i : Int) - 249)) = true := by
  decide +kernel

theorem reconOk_all_fin : ∀ i : Fin 504, reconOk ((i.val : Int) - 249) = true := by
  intro i
  exact List.all_eq_true.mp reconOk_all_list i.val (List.mem_range.mpr i.isLt)

theorem reducedOk_all_list : (List.range 254).all (fun i => reducedOk ((i : Int) - 126)) = true := by
  decide +kernel

theorem reducedOk_all_fin : ∀ i : Fin 254, reducedOk ((i.val : Int) - 126) = true := by
  intro i
  exact List.all_eq_true.mp reducedOk_all_list i.val (List.mem_range.mpr i.isLt)

/-- **C19.T1a** for every `k ∈ [-249, 254]` the reconstruction is exact at the level of
exponents. -/
theorem c19_exp_recon_exact (k : Int) (lo : -249 ≤ k) (hi : k ≤ 254) : reconOk k = true := by
  have h : reconOk ((((k + 249).toNat : Nat) : Int) - 249) = true :=
    reconOk_all_fin ⟨(k + 249).toNat, by omega⟩
  have e : (((k + 249).toNat : Nat) : Int) - 249 = k := by omega
  rw [e] at h
  exact h

/-- **C19.T1b** `ReducedRangeExp`: `(k + 127) << 23` is the float `2^k` for every
`k ∈ [-126, 127]`. -/
theorem c19_reduced_recon_exact (k : Int) (lo : -126 ≤ k) (hi : k ≤ 127) :
    reducedReconExp k = some k := by
  have h : reducedOk ((((k + 126).toNat : Nat) : Int) - 126) = true :=
    reducedOk_all_fin ⟨(k + 126).toNat, by omega⟩
  have e : (((k + 126).toNat : Nat) : Int) - 126 = k := by omega
  rw [e] at h
  unfold reducedOk at h
  exact beq_iff_eq.mp h

/-- What the executable check means: both factors are recognised powers of two whose exponents
add up to `k`. -/
theorem reconOk_spec (k : Int) (h : reconOk k = true) :
    ∃ a b, pow2Exp (expRecon (BitVec.ofInt 32 k)).1.toNat = some a ∧
      pow2Exp (expRecon (BitVec.ofInt 32 k)).2.toNat = some b ∧ a + b = k := by
  have e : expFactorExps k = (some (firstExp k), some (k - firstExp k)) := of_decide_eq_true h
  exact ⟨firstExp k, k - firstExp k, congrArg Prod.fst e, congrArg Prod.snd e, by omega⟩

/-- The reachable range `|k| ≤ 150` (inputs with `|x| < 104`) lies inside the exact range. -/
example : -249 ≤ -kReach ∧ kReach ≤ 254 := by decide
example : reconOk 150 = true ∧ reconOk (-150) = true ∧ reconOk 0 = true ∧ reconOk 1 = true := by
  decide +kernel
/-- Concrete patterns: `k = 3` gives `is = 0x7f000000 = 2^127`, `it = 0x01800000 = 2^-124`. -/
example : expRecon (BitVec.ofInt 32 3) = (0x7f000000#32, 0x01800000#32) := by decide +kernel
example : expRecon (BitVec.ofInt 32 (-5)) = (0x02000000#32, 0x7a800000#32) := by decide +kernel

/-- The range is sharp — outside it the second factor is not a normal power of two:
`k = 255` gives the `+∞` pattern, `k = -250` gives `0.0`.  This is why the code needs the
`|x| ≥ 104` selects, and `ReducedRangeExp` its lower cutoff (`k = -127` gives `0.0`). -/
theorem c19_exp_recon_range_sharp :
    reconOk 255 = false ∧ reconOk (-250) = false ∧
    (expRecon (BitVec.ofInt 32 255)).2 = 0x7f800000#32 ∧
    (expRecon (BitVec.ofInt 32 (-250))).2 = 0#32 ∧
    reducedReconExp (-127) = none ∧ reducedRecon (BitVec.ofInt 32 (-127)) = 0#32 ∧
    reducedReconExp 128 = none := by
  decide +kernel

end RtenVerif.ExpBits
