/-
Lemmas for the reduce-dispatch model (C14 D4): row-major offsets of concatenated dims, chunking a
concatenation of equal blocks.
-/
import RtenVerif.Lemmas.BinaryDispatch
import RtenVerif.Model.ReduceDispatch

namespace RtenVerif.Layout
open RtenVerif.Overlap RtenVerif.Layout.Seq
open RtenVerif.Iter (rowMajor rowMajor_cons rowMajor_nil rowMajor_length)

theorem rowMajor_append : ∀ (A B : Dims),
    rowMajor (A ++ B) = (rowMajor A).flatMap (fun o => (rowMajor B).map (o + ·))
  | [], B => by simp [rowMajor_nil]
  | (sz, st) :: A, B => by
    rw [List.cons_append, rowMajor_cons, rowMajor_cons, rowMajor_append A B, List.flatMap_assoc]
    apply RtenVerif.FastBroadcast.flatMap_congr'
    intro i _
    rw [List.map_flatMap, List.flatMap_map]
    apply RtenVerif.FastBroadcast.flatMap_congr'
    intro o _
    rw [List.map_map]
    apply List.map_congr_left
    intro x _
    simp [Nat.add_assoc]

/-- Chunking a concatenation of equal-length non-empty blocks gives back the blocks. -/
theorem chunks_blocks {β γ : Type} (L : Nat) (hL : 0 < L) (B : γ → List β) :
    ∀ (l : List γ) (fuel : Nat), (∀ x ∈ l, (B x).length = L) → l.length * L ≤ fuel →
    chunks L fuel (l.flatMap B) = l.map B
  | [], fuel, _, _ => by cases fuel <;> simp [chunks]
  | a :: l, fuel, hB, hf => by
    have hB0 := hB a (by simp)
    rw [List.flatMap_cons, List.map_cons]
    simp only [List.length_cons, Nat.succ_mul] at hf
    cases fuel with
    | zero => omega
    | succ fuel =>
      cases hb : B a with
      | nil => rw [hb] at hB0; simp at hB0; omega
      | cons x xs =>
        have hx : (x :: xs).length = L := by rw [← hb]; exact hB0
        simp only [List.cons_append, chunks]
        rw [← List.cons_append, List.take_left' hx, List.drop_left' hx,
          chunks_blocks L hL B l fuel (fun y hy => hB y (by simp [hy])) (by omega)]

theorem numel_sizes_append (A B : Dims) :
    RtenVerif.Arr.numel (sizes (A ++ B)) = RtenVerif.Arr.numel (sizes A) * RtenVerif.Arr.numel (sizes B) := by
  induction A with
  | nil => simp [sizes, RtenVerif.Arr.numel]
  | cons p ps ih =>
    simp only [sizes, List.cons_append, List.map_cons, RtenVerif.Arr.numel, List.foldr_cons] at ih ⊢
    rw [ih, Nat.mul_assoc]

theorem rowMajor_len (d : Dims) : (rowMajor d).length = RtenVerif.Arr.numel (sizes d) := by
  rw [rowMajor_length, total_eq_numel]

end RtenVerif.Layout
