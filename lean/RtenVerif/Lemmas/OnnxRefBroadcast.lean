import RtenVerif.Model.OnnxRef
/-! Laws of multidirectional broadcasting on shapes (ONNX `Broadcasting in ONNX`). -/
namespace RtenVerif.OnnxRef

theorem bdim_comm (x y : Nat) : bdim x y = bdim y x := by
  unfold bdim
  by_cases h1 : x = y
  · subst h1; rfl
  · have h2 : ¬ y = x := fun h => h1 h.symm
    simp only [h1, h2, if_false]
    by_cases hx : x = 1 <;> by_cases hy : y = 1 <;> simp [hx, hy]

theorem bshapeRev_comm : ∀ (a b : List Nat), bshapeRev a b = bshapeRev b a
  | [], [] => rfl
  | [], _ :: _ => rfl
  | _ :: _, [] => rfl
  | x :: xs, y :: ys => by
    simp only [bshapeRev, bdim_comm x y, bshapeRev_comm xs ys]

/-- Broadcasting of shapes is commutative (including the incompatible case `none`). -/
theorem bshape_comm (a b : List Nat) : bshape a b = bshape b a := by
  simp only [bshape, bshapeRev_comm a.reverse b.reverse]

end RtenVerif.OnnxRef
