import RtenVerif.Model.OnnxRef
/-! Laws of multidirectional broadcasting on shapes (ONNX `Broadcasting in ONNX`). -/
namespace RtenVerif.OnnxRef

theorem bdim_comm (x y : Nat) : bdim x y = bdim y x := by
  unfold bdim
  by_cases h1 : x = y
  · subst h1; rfl
  · have h2 : ¬ y = x := fun h => h1 h.symm
    simp only [h1, h2, if_false]
    by_cases hx : x = 1 <;> by_cases hy : y = 1 <;> simp [hx, hy]

theorem bshapeRev_comm : ∀ (a b : List Nat), bshapeRev a b = bshapeRev b a
  | [], [] => rfl
  | [], _ :: _ => rfl
  | _ :: _, [] => rfl
  | x :: xs, y :: ys => by
    simp only [bshapeRev, bdim_comm x y, bshapeRev_comm xs ys]

/-- Broadcasting of shapes is commutative (including the incompatible case `none`). -/
theorem bshape_comm (a b : List Nat) : bshape a b = bshape b a := by
  simp only [bshape, bshapeRev_comm a.reverse b.reverse]

end RtenVerif.OnnxRef

namespace RtenVerif.OnnxRef

theorem bdim_assoc (x y z : Nat) :
    (bdim x y).bind (fun d => bdim d z) = (bdim y z).bind (fun d => bdim x d) := by
  unfold bdim
  by_cases h1 : x = 1 <;> by_cases h2 : y = 1 <;> by_cases h3 : z = 1 <;>
  by_cases h4 : x = y <;> by_cases h5 : y = z <;> by_cases h6 : x = z <;>
  simp_all <;> omega

theorem bshapeRev_nil_right (a : List Nat) : bshapeRev a [] = some a := by
  cases a <;> rfl

theorem bshapeRev_cons_cons (x y : Nat) (xs ys : List Nat) :
    bshapeRev (x :: xs) (y :: ys) =
      (bdim x y).bind (fun d => (bshapeRev xs ys).bind (fun r => some (d :: r))) := by
  simp only [bshapeRev]
  cases bdim x y <;> cases bshapeRev xs ys <;> rfl

theorem bshapeRev_assoc : ∀ (a b c : List Nat),
    (bshapeRev a b).bind (fun s => bshapeRev s c) = (bshapeRev b c).bind (fun s => bshapeRev a s)
  | [], b, c => by
    simp only [bshapeRev, Option.bind_some]
    cases h : bshapeRev b c <;> simp
  | x :: xs, [], c => by
    simp only [bshapeRev, Option.bind_some]
  | x :: xs, y :: ys, [] => by
    simp only [bshapeRev_nil_right, Option.bind_some]
    cases h : bshapeRev (x :: xs) (y :: ys) <;> simp
  | x :: xs, y :: ys, z :: zs => by
    have ih := bshapeRev_assoc xs ys zs
    have hd := bdim_assoc x y z
    simp only [bshapeRev_cons_cons]
    cases hxy : bdim x y <;> cases hyz : bdim y z <;>
      cases hxs : bshapeRev xs ys <;> cases hys : bshapeRev ys zs <;>
      simp only [hxy, hyz, hxs, hys, Option.bind_some, Option.bind_none, bshapeRev_cons_cons] at ih hd ⊢ <;>
      clear hxy hyz hxs hys <;>
      first
      | rfl
      | (rw [hd, ih]; done)
      | (rw [← hd]; rfl)
      | (rw [hd]; rfl)
      | (rw [← ih]; cases bdim _ _ <;> rfl)
      | (rw [ih]; cases bdim _ _ <;> rfl)
      | (rw [hd, ih]; rfl)
      | (rw [hd, ih]; cases bdim _ _ <;> rfl)

/-- Broadcasting of shapes is associative, including failure (`none`) propagation. -/
theorem bshape_assoc (a b c : List Nat) :
    (bshape a b).bind (fun s => bshape s c) = (bshape b c).bind (fun s => bshape a s) := by
  have h := bshapeRev_assoc a.reverse b.reverse c.reverse
  unfold bshape
  cases hab : bshapeRev a.reverse b.reverse <;> cases hbc : bshapeRev b.reverse c.reverse <;>
    simp only [hab, hbc, Option.bind_some, Option.bind_none, Option.map_some, Option.map_none,
      List.reverse_reverse] at h ⊢ <;>
    first
    | rfl
    | (rw [← h]; rfl)
    | (rw [h]; rfl)
    | (rw [h]; done)

end RtenVerif.OnnxRef
