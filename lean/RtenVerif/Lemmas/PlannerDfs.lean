import RtenVerif.Lemmas.PlannerSpec
/-!
# Invariants of the depth-first phase (`visit`, `depsLoop`, `planOutputs`)
-/
namespace RtenVerif.Planner
open RtenVerif.Graph

/-- Outputs of all entries of a plan (entries carry their operator node). -/
def pOuts (plan : List (Nat × OpNode)) : List Nat := plan.flatMap (fun e => opOutputs e.2)

theorem pOuts_append (p q : List (Nat × OpNode)) : pOuts (p ++ q) = pOuts p ++ pOuts q := by
  simp [pOuts, List.flatMap_append]

theorem mem_pOuts {plan : List (Nat × OpNode)} {v : Nat} :
    v ∈ pOuts plan ↔ ∃ e ∈ plan, v ∈ opOutputs e.2 := by
  simp [pOuts, List.mem_flatMap]

/-- Validity of a plan whose entries carry their operator node. -/
def ValidFrom (g : Graph) (am : Bool) : List Nat → List (Nat × OpNode) → Prop
  | _, [] => True
  | r, e :: es => (∀ d ∈ opDeps g e.2, Avail g am r d) ∧ ValidFrom g am (r ++ opOutputs e.2) es

theorem validFrom_snoc {g : Graph} {am : Bool} {r : List Nat} {p : List (Nat × OpNode)}
    {e : Nat × OpNode} :
    ValidFrom g am r (p ++ [e]) ↔
      ValidFrom g am r p ∧ ∀ d ∈ opDeps g e.2, Avail g am (r ++ pOuts p) d := by
  induction p generalizing r with
  | nil => simp [ValidFrom, pOuts]
  | cons a p ih =>
    simp only [List.cons_append, ValidFrom, ih, pOuts, List.flatMap_cons, List.append_assoc]
    constructor
    · rintro ⟨h1, h2, h3⟩; exact ⟨⟨h1, h2⟩, h3⟩
    · rintro ⟨⟨h1, h2⟩, h3⟩; exact ⟨h1, h2, h3⟩

theorem validIds_of_validFrom {g : Graph} {am : Bool} {r : List Nat} {P : List (Nat × OpNode)}
    (hv : ValidFrom g am r P) (hops : ∀ e ∈ P, getOp g e.1 = some e.2) :
    ValidIds g am r (P.map (fun e => e.1)) := by
  induction P generalizing r with
  | nil => trivial
  | cons e es ih =>
    have he := hops e (List.mem_cons_self ..)
    simp only [List.map_cons, ValidIds]
    refine ⟨⟨e.2, he, hv.1⟩, ?_⟩
    have : outsOf g e.1 = opOutputs e.2 := by simp [outsOf, he]
    rw [this]
    exact ih hv.2 (fun e' h' => hops e' (List.mem_cons_of_mem _ h'))

theorem flatMap_outsOf_map {g : Graph} {P : List (Nat × OpNode)}
    (hops : ∀ e ∈ P, getOp g e.1 = some e.2) :
    (P.map (fun e => e.1)).flatMap (outsOf g) = pOuts P := by
  induction P with
  | nil => rfl
  | cons e es ih =>
    have he := hops e (List.mem_cons_self ..)
    have : outsOf g e.1 = opOutputs e.2 := by simp [outsOf, he]
    simp only [List.map_cons, List.flatMap_cons, pOuts, this]
    congr 1
    exact ih (fun e' h' => hops e' (List.mem_cons_of_mem _ h'))

/-- Invariant of `PlanBuilder` during the traversal. -/
structure Inv (g : Graph) (am : Bool) (r0 outs : List Nat) (st : St) : Prop where
  res : st.resolved = r0 ++ pOuts st.plan
  valid : ValidFrom g am r0 st.plan
  nodup : (st.plan.map (fun e => e.1)).Nodup
  ops : ∀ e ∈ st.plan, getOp g e.1 = some e.2
  needed : ∀ e ∈ st.plan, Needed g r0 outs e.1

/-- Frame conditions of a successful `visit` / loop. -/
structure Post (g : Graph) (am : Bool) (r0 outs : List Nat) (st st' : St) : Prop where
  inv : Inv g am r0 outs st'
  active : st'.active = st.active
  ext : ∃ extra, st'.plan = st.plan ++ extra ∧ ∀ e ∈ extra, e.1 ∉ st.active

theorem Post.refl {g : Graph} {am : Bool} {r0 outs : List Nat} {st : St}
    (h : Inv g am r0 outs st) : Post g am r0 outs st st :=
  ⟨h, rfl, [], by simp, by simp⟩

theorem Post.trans {g : Graph} {am : Bool} {r0 outs : List Nat} {a b c : St}
    (h1 : Post g am r0 outs a b) (h2 : Post g am r0 outs b c) : Post g am r0 outs a c := by
  obtain ⟨e1, hp1, hn1⟩ := h1.ext
  obtain ⟨e2, hp2, hn2⟩ := h2.ext
  refine ⟨h2.inv, h2.active.trans h1.active, e1 ++ e2, ?_, ?_⟩
  · rw [hp2, hp1, List.append_assoc]
  · intro e he
    rcases List.mem_append.mp he with he | he
    · exact hn1 e he
    · have := hn2 e he
      rwa [h1.active] at this

theorem Post.mono {g : Graph} {am : Bool} {r0 outs : List Nat} {a b : St}
    (ha : Inv g am r0 outs a) (h : Post g am r0 outs a b) : ∀ v, v ∈ a.resolved → v ∈ b.resolved := by
  obtain ⟨e1, hp1, _⟩ := h.ext
  intro v hv
  rw [h.inv.res, hp1, pOuts_append]
  rw [ha.res] at hv
  rcases List.mem_append.mp hv with hv | hv
  · exact List.mem_append_left _ hv
  · exact List.mem_append_right _ (List.mem_append_left _ hv)

theorem Inv.r0_sub {g : Graph} {am : Bool} {r0 outs : List Nat} {st : St}
    (h : Inv g am r0 outs st) : ∀ v, v ∈ r0 → v ∈ st.resolved := by
  intro v hv; rw [h.res]; exact List.mem_append_left _ hv

/-- What the recursive call must guarantee. -/
def VisitSpec (g : Graph) (opts : PlanOptions) (r0 outs : List Nat)
    (rec : Nat → OpNode → St → Except PlanError St) : Prop :=
  ∀ p pop st st', Inv g opts.allowMissing r0 outs st → getOp g p = some pop →
    Needed g r0 outs p → (∃ v ∈ opOutputs pop, rContains g st.resolved v = false) →
    p ∉ st.active → rec p pop st = .ok st' →
    Post g opts.allowMissing r0 outs st st' ∧ ∀ v ∈ opOutputs pop, v ∈ st'.resolved

theorem rContains_false_r0 {g : Graph} {am : Bool} {r0 outs : List Nat} {st : St} {d : Nat}
    (h : Inv g am r0 outs st) (hd : rContains g st.resolved d = false) :
    rContains g r0 d = false := by
  cases hc : rContains g r0 d with
  | false => rfl
  | true =>
    have := rContains_mono h.r0_sub hc
    rw [hd] at this; cases this

theorem depsLoop_spec {g : Graph} {opts : PlanOptions} {r0 outs : List Nat}
    {rec : Nat → OpNode → St → Except PlanError St}
    (hrec : VisitSpec g opts r0 outs rec) {x : Nat} {xop : OpNode}
    (hx : Needed g r0 outs x) (hxop : getOp g x = some xop) :
    ∀ (ds : List Nat) (st st' : St), (∀ d ∈ ds, d ∈ opDeps g xop) →
      Inv g opts.allowMissing r0 outs st → depsLoop g opts rec ds st = .ok st' →
      Post g opts.allowMissing r0 outs st st' ∧
        ∀ d ∈ ds, Avail g opts.allowMissing st'.resolved d := by
  intro ds
  induction ds with
  | nil =>
    intro st st' _ hinv h
    simp only [depsLoop] at h
    injection h with h; subst h
    exact ⟨Post.refl hinv, by simp⟩
  | cons d ds ih =>
    intro st st' hsub hinv h
    have hsub' : ∀ d' ∈ ds, d' ∈ opDeps g xop := fun d' hd' => hsub d' (List.mem_cons_of_mem _ hd')
    simp only [depsLoop] at h
    by_cases hc : rContains g st.resolved d = true
    · simp only [hc, if_true] at h
      obtain ⟨hp, ha⟩ := ih st st' hsub' hinv h
      refine ⟨hp, ?_⟩
      intro d' hd'
      rcases List.mem_cons.mp hd' with rfl | hd'
      · exact Or.inl (rContains_mono (hp.mono hinv) hc)
      · exact ha d' hd'
    · have hc' : rContains g st.resolved d = false := by simpa using hc
      simp only [hc'] at h
      cases hs : getSource g d with
      | some pp =>
        obtain ⟨p, pop⟩ := pp
        simp only [hs] at h
        by_cases hact : p ∈ st.active
        · simp [hact] at h
        · simp only [List.contains_iff_mem, hact, if_false] at h
          cases hr : rec p pop st with
          | error e => simp [hr] at h
          | ok st1 =>
            simp only [hr] at h
            obtain ⟨_, hgp, hdo⟩ := getSource_spec hs
            have hnp : Needed g r0 outs p :=
              Needed.step hx hxop (hsub d (List.mem_cons_self ..)) (rContains_false_r0 hinv hc') hs
            have hna : p ∉ st.active := hact
            obtain ⟨hp1, hout1⟩ := hrec p pop st st1 hinv hgp hnp ⟨d, hdo, hc'⟩ hna hr
            obtain ⟨hp2, ha2⟩ := ih st1 st' hsub' hp1.inv h
            refine ⟨hp1.trans hp2, ?_⟩
            intro d' hd'
            rcases List.mem_cons.mp hd' with rfl | hd'
            · exact Or.inl (rContains_of_mem (hp2.mono hp1.inv _ (hout1 _ hdo)))
            · exact ha2 d' hd'
      | none =>
        simp only [hs] at h
        by_cases ham : opts.allowMissing = true
        · simp only [ham, if_true] at h
          obtain ⟨hp, ha⟩ := ih st st' hsub' hinv h
          refine ⟨hp, ?_⟩
          intro d' hd'
          rcases List.mem_cons.mp hd' with rfl | hd'
          · exact Or.inr ⟨ham, hs⟩
          · exact ha d' hd'
        · simp [ham] at h

theorem filter_ne_cons_self {p : Nat} {l : List Nat} (h : p ∉ l) :
    (p :: l).filter (fun a => a != p) = l := by
  simp only [List.filter_cons, bne_self_eq_false, Bool.false_eq_true, if_false]
  rw [List.filter_eq_self]
  intro a ha
  simp only [bne_iff_ne, ne_eq]
  rintro rfl
  exact h ha

theorem visit_spec (g : Graph) (opts : PlanOptions) (r0 outs : List Nat) :
    ∀ fuel, VisitSpec g opts r0 outs (visit g opts fuel) := by
  intro fuel
  induction fuel with
  | zero => intro p pop st st' _ _ _ _ _ h; simp [visit] at h
  | succ f ih =>
    intro p pop st st' hinv hgp hnp hun hna h
    simp only [visit] at h
    cases hl : depsLoop g opts (visit g opts f) (opDeps g pop) { st with active := p :: st.active } with
    | error e => simp [hl] at h
    | ok st1 =>
      simp only [hl] at h
      injection h with h
      have hinv0 : Inv g opts.allowMissing r0 outs { st with active := p :: st.active } :=
        ⟨hinv.res, hinv.valid, hinv.nodup, hinv.ops, hinv.needed⟩
      obtain ⟨hp1, hav⟩ := depsLoop_spec ih hnp hgp (opDeps g pop) _ st1 (fun _ hd => hd) hinv0 hl
      obtain ⟨extra, hext, hnew⟩ := hp1.ext
      have hact1 : st1.active = p :: st.active := hp1.active
      have hplan1 : st1.plan = st.plan ++ extra := hext
      -- p is not yet in the plan
      have hp_not_old : p ∉ st.plan.map (fun e => e.1) := by
        intro hm
        obtain ⟨e, he, hep⟩ := List.mem_map.mp hm
        have hop := hinv.ops e he
        rw [hep, hgp] at hop
        injection hop with hop
        obtain ⟨v, hv, hvr⟩ := hun
        have : v ∈ st.resolved := by
          rw [hinv.res]
          exact List.mem_append_right _ (mem_pOuts.mpr ⟨e, he, hop ▸ hv⟩)
        rw [rContains_of_mem this] at hvr; cases hvr
      have hp_not_new : p ∉ extra.map (fun e => e.1) := by
        intro hm
        obtain ⟨e, he, hep⟩ := List.mem_map.mp hm
        have := hnew e he
        simp only [hep] at this
        exact this (List.mem_cons_self ..)
      have hp_not : p ∉ st1.plan.map (fun e => e.1) := by
        rw [hplan1, List.map_append, List.mem_append]
        rintro (h' | h')
        · exact hp_not_old h'
        · exact hp_not_new h'
      subst h
      refine ⟨⟨⟨?_, ?_, ?_, ?_, ?_⟩, ?_, extra ++ [(p, pop)], ?_, ?_⟩, ?_⟩
      · simp only [pOuts_append, hp1.inv.res, List.append_assoc]
        simp [pOuts]
      · rw [validFrom_snoc]
        refine ⟨hp1.inv.valid, ?_⟩
        rw [← hp1.inv.res]
        exact hav
      · simp only [List.map_append, List.map_cons, List.map_nil]
        rw [List.nodup_append]
        refine ⟨hp1.inv.nodup, by simp, ?_⟩
        intro a ha b hb
        simp only [List.mem_singleton] at hb
        subst hb
        rintro rfl
        exact hp_not ha
      · intro e he
        rcases List.mem_append.mp he with he | he
        · exact hp1.inv.ops e he
        · simp only [List.mem_singleton] at he; subst he; exact hgp
      · intro e he
        rcases List.mem_append.mp he with he | he
        · exact hp1.inv.needed e he
        · simp only [List.mem_singleton] at he; subst he; exact hnp
      · simp only [hact1]
        exact filter_ne_cons_self hna
      · simp only [hplan1, List.append_assoc]
      · intro e he
        rcases List.mem_append.mp he with he | he
        · intro hm
          exact hnew e he (List.mem_cons_of_mem _ hm)
        · simp only [List.mem_singleton] at he; subst he; exact hna
      · intro v hv
        exact List.mem_append_right _ hv

/-- The loop over requested outputs. -/
theorem planOutputs_spec {g : Graph} {opts : PlanOptions} {r0 outs : List Nat} (fuel : Nat) :
    ∀ (os : List Nat) (st st' : St), (∀ o ∈ os, o ∈ outs) →
      Inv g opts.allowMissing r0 outs st → st.active = [] →
      planOutputs g opts fuel os st = .ok st' →
      Inv g opts.allowMissing r0 outs st' ∧ st'.active = [] ∧
        (∀ v, v ∈ st.resolved → v ∈ st'.resolved) ∧
        ∀ o ∈ os, Avail g opts.allowMissing st'.resolved o := by
  intro os
  induction os with
  | nil =>
    intro st st' _ hinv hact h
    simp only [planOutputs] at h
    injection h with h; subst h
    exact ⟨hinv, hact, fun _ h => h, by simp⟩
  | cons o os ih =>
    intro st st' hsub hinv hact h
    have hsub' : ∀ o' ∈ os, o' ∈ outs := fun o' ho' => hsub o' (List.mem_cons_of_mem _ ho')
    simp only [planOutputs] at h
    by_cases hc : rContains g st.resolved o = true
    · simp only [hc, if_true] at h
      obtain ⟨hi, ha, hm, hav⟩ := ih st st' hsub' hinv hact h
      refine ⟨hi, ha, hm, ?_⟩
      intro o' ho'
      rcases List.mem_cons.mp ho' with rfl | ho'
      · exact Or.inl (rContains_mono hm hc)
      · exact hav o' ho'
    · have hc' : rContains g st.resolved o = false := by simpa using hc
      simp only [hc'] at h
      cases hs : getSource g o with
      | some pp =>
        obtain ⟨p, pop⟩ := pp
        simp only [hs] at h
        cases hr : visit g opts fuel p pop st with
        | error e => simp [hr] at h
        | ok st1 =>
          simp only [hr] at h
          obtain ⟨_, hgp, hdo⟩ := getSource_spec hs
          have hnp : Needed g r0 outs p :=
            Needed.root (hsub o (List.mem_cons_self ..)) (rContains_false_r0 hinv hc') hs
          have hna : p ∉ st.active := by rw [hact]; simp
          obtain ⟨hp1, hout1⟩ :=
            visit_spec g opts r0 outs fuel p pop st st1 hinv hgp hnp ⟨o, hdo, hc'⟩ hna hr
          obtain ⟨hi, ha, hm, hav⟩ := ih st1 st' hsub' hp1.inv (hp1.active.trans hact) h
          refine ⟨hi, ha, fun v hv => hm v (hp1.mono hinv v hv), ?_⟩
          intro o' ho'
          rcases List.mem_cons.mp ho' with rfl | ho'
          · exact Or.inl (rContains_of_mem (hm _ (hout1 _ hdo)))
          · exact hav o' ho'
      | none =>
        simp only [hs] at h
        by_cases ham : opts.allowMissing = true
        · simp only [ham, if_true] at h
          obtain ⟨hi, ha, hm, hav⟩ := ih st st' hsub' hinv hact h
          refine ⟨hi, ha, hm, ?_⟩
          intro o' ho'
          rcases List.mem_cons.mp ho' with rfl | ho'
          · exact Or.inr ⟨ham, hs⟩
          · exact hav o' ho'
        · simp [ham] at h

/-- Outcome of the depth-first phase. -/
theorem dfsPlan_spec {g : Graph} {opts : PlanOptions} {ins outs : List Nat} {st : St}
    (h : dfsPlan g ins outs opts = .ok st) :
    Inv g opts.allowMissing (resolvedNew g ins opts.capturesAvailable) outs st ∧
      ∀ o ∈ outs, Avail g opts.allowMissing st.resolved o := by
  unfold dfsPlan at h
  have hinv0 : Inv g opts.allowMissing (resolvedNew g ins opts.capturesAvailable) outs
      { resolved := resolvedNew g ins opts.capturesAvailable, plan := [], active := [] } :=
    ⟨by simp [pOuts], trivial, by simp, by simp, by simp⟩
  obtain ⟨hi, _, _, hav⟩ := planOutputs_spec _ outs _ st (fun _ h => h) hinv0 rfl h
  exact ⟨hi, hav⟩

end RtenVerif.Planner
