import RtenVerif.Lemmas.TensorBounds

/-! C06: the `UInt64` (wrap-around) model agrees with the ideal model under the guards. -/
namespace RtenVerif.TensorBounds
open RtenVerif.Overlap

namespace M

theorem W_eq : (2 : Nat) ^ 64 = wordSize := by decide

theorem toNat_lt_W (a : U) : a.toNat < wordSize := by
  have := a.toNat_lt
  rw [W_eq] at this
  exact this

theorem mul_toNat (a b : U) : (a * b).toNat = a.toNat * b.toNat % wordSize := by
  rw [UInt64.toNat_mul, W_eq]

theorem add_toNat (a b : U) : (a + b).toNat = (a.toNat + b.toNat) % wordSize := by
  rw [UInt64.toNat_add, W_eq]

theorem eq_zero_iff (a : U) : a = 0 ↔ a.toNat = 0 := by
  rw [← UInt64.toNat_inj]; rfl

theorem eq_one_iff (a : U) : a = 1 ↔ a.toNat = 1 := by
  rw [← UInt64.toNat_inj]; rfl

theorem pred_toNat {a : U} (h : a ≠ 0) : (a - 1).toNat = a.toNat - 1 := by
  have h1 : (1 : U) ≤ a := by
    rw [UInt64.le_iff_toNat_le]
    have : a.toNat ≠ 0 := fun h' => h ((eq_zero_iff a).mpr h')
    show 1 ≤ a.toNat
    omega
  rw [UInt64.toNat_sub_of_le _ _ h1]
  rfl

theorem toNs_cons (x : U) (xs : List U) : toNs (x :: xs) = x.toNat :: toNs xs := rfl
theorem toN_cons (d : U × U) (ds : List (U × U)) : toN (d :: ds) = (d.1.toNat, d.2.toNat) :: toN ds := rfl

theorem shapeOf_toN (d : List (U × U)) : TensorBounds.shapeOf (toN d) = toNs (shapeOf d) := by
  simp [TensorBounds.shapeOf, toN, toNs, shapeOf, List.map_map, Function.comp_def]

theorem prod_toNat (l : List U) : (prod l).toNat = TensorBounds.prod (toNs l) % wordSize := by
  induction l with
  | nil => decide
  | cons s ss ih =>
    simp only [prod, toNs_cons, TensorBounds.prod]
    rw [mul_toNat, ih, Nat.mul_mod_mod]

theorem beq_zero_eq (a : U) : (a == 0) = (a.toNat == 0) := by
  by_cases h : a = 0
  · subst h; rfl
  · have h' : a.toNat ≠ 0 := fun h' => h ((eq_zero_iff _).mpr h')
    rw [beq_eq_false_iff_ne.mpr h, beq_eq_false_iff_ne.mpr h']

theorem hasZero_eq (d : List (U × U)) : hasZero d = TensorBounds.hasZero (toN d) := by
  induction d with
  | nil => rfl
  | cons x xs ih =>
    show (x.1 == 0 || hasZero xs) = (x.1.toNat == 0 || TensorBounds.hasZero (toN xs))
    rw [ih, beq_zero_eq]

/-- Wrap-around `Σ (size-1)·stride` is the ideal sum modulo `2^64` (no empty dimension). -/
theorem maxOffset_toNat (d : List (U × U)) (hz : hasZero d = false) :
    (maxOffset d).toNat = TensorBounds.maxOffset (toN d) % wordSize := by
  induction d with
  | nil => decide
  | cons x xs ih =>
    obtain ⟨size, stride⟩ := x
    simp only [hasZero, List.any_cons, Bool.or_eq_false_iff, beq_eq_false_iff_ne] at hz
    have ih := ih (by simpa [hasZero] using hz.2)
    simp only [maxOffset, toN_cons, TensorBounds.maxOffset]
    rw [add_toNat, mul_toNat, pred_toNat hz.1, ih, Nat.mod_add_mod, Nat.add_mod_mod]

theorem offset_toNat (d : List (U × U)) (idx : List U) :
    (offset d idx).toNat = Overlap.offset (toN d) (toNs idx) % wordSize := by
  induction d generalizing idx with
  | nil => cases idx <;> rfl
  | cons x xs ih =>
    obtain ⟨size, stride⟩ := x
    cases idx with
    | nil => rfl
    | cons i is =>
      simp only [offset, toN_cons, toNs_cons, Overlap.offset]
      rw [add_toNat, mul_toNat, ih, Nat.mod_add_mod, Nat.add_mod_mod]

theorem validIdx_eq (d : List (U × U)) (idx : List U) :
    validIdx d idx = TensorBounds.validIdx (toN d) (toNs idx) := by
  induction d generalizing idx with
  | nil => cases idx <;> rfl
  | cons x xs ih =>
    obtain ⟨size, stride⟩ := x
    cases idx with
    | nil => rfl
    | cons i is =>
      simp only [validIdx, toN_cons, toNs_cons, TensorBounds.validIdx]
      rw [ih]
      congr 1

theorem checkedShapeLenGo_eq (ss : List U) (len : U) (e : Bool) :
    (checkedShapeLenGo ss len e).map UInt64.toNat =
      TensorBounds.checkedShapeLenGo (toNs ss) len.toNat e := by
  induction ss generalizing len e with
  | nil =>
    simp only [checkedShapeLenGo, toNs, List.map_nil, TensorBounds.checkedShapeLenGo, Option.map_some]
    cases e <;> rfl
  | cons s ss ih =>
    simp only [checkedShapeLenGo, toNs_cons, TensorBounds.checkedShapeLenGo]
    by_cases hs : s = 0
    · have : s.toNat = 0 := (eq_zero_iff s).mp hs
      rw [if_pos hs, if_pos this]
      exact ih _ _
    · have hs' : s.toNat ≠ 0 := fun h' => hs ((eq_zero_iff _).mpr h')
      simp only [hs, hs', if_false]
      by_cases hle : len.toNat * s.toNat ≤ isizeMax
      · have hlt : len.toNat * s.toNat < wordSize := by
          have : isizeMax < wordSize := by decide
          omega
        have hm : (len * s).toNat = len.toNat * s.toNat := by
          rw [mul_toNat, Nat.mod_eq_of_lt hlt]
        have : len.toNat * s.toNat < wordSize ∧ (len * s).toNat ≤ isizeMax := ⟨hlt, by omega⟩
        simp only [this, hle, and_self, if_true]
        rw [ih, hm]
      · have : ¬ (len.toNat * s.toNat < wordSize ∧ (len * s).toNat ≤ isizeMax) := by
          rintro ⟨hlt, h2⟩
          rw [mul_toNat, Nat.mod_eq_of_lt hlt] at h2
          exact hle h2
        rw [if_neg this, if_neg hle]; rfl

theorem checkedShapeLen_eq (shape : List U) :
    (checkedShapeLen shape).map UInt64.toNat = TensorBounds.checkedShapeLen (toNs shape) := by
  unfold checkedShapeLen TensorBounds.checkedShapeLen
  exact checkedShapeLenGo_eq shape 1 false

theorem checkedMaxOffset_eq (d : List (U × U)) (acc : U) :
    (checkedMaxOffset d acc).map UInt64.toNat =
      if acc.toNat + TensorBounds.maxOffset (toN d) < wordSize then
        some (acc.toNat + TensorBounds.maxOffset (toN d)) else none := by
  induction d generalizing acc with
  | nil =>
    simp only [checkedMaxOffset, toN, List.map_nil, TensorBounds.maxOffset, Nat.add_zero,
      Option.map_some, toNat_lt_W, if_true]
  | cons x xs ih =>
    obtain ⟨size, stride⟩ := x
    simp only [checkedMaxOffset, toN_cons, TensorBounds.maxOffset]
    have hsm1 : (if size = 0 then (0 : U) else size - 1).toNat = size.toNat - 1 := by
      by_cases hs : size = 0
      · simp [hs]
      · simp only [hs, if_false]; exact pred_toNat hs
    generalize (if size = 0 then (0 : U) else size - 1) = sm1 at hsm1 ⊢
    by_cases h1 : sm1.toNat * stride.toNat < wordSize
    · have hm : (sm1 * stride).toNat = (size.toNat - 1) * stride.toNat := by
        rw [mul_toNat, Nat.mod_eq_of_lt h1, hsm1]
      by_cases h2 : acc.toNat + (sm1 * stride).toNat < wordSize
      · simp only [h1, h2, and_self, if_true]
        rw [ih, add_toNat, Nat.mod_eq_of_lt h2, hm, Nat.add_assoc]
      · have : ¬ acc.toNat + ((size.toNat - 1) * stride.toNat + TensorBounds.maxOffset (toN xs)) < wordSize := by
          rw [hm] at h2; omega
        have hc : ¬ (sm1.toNat * stride.toNat < wordSize ∧ acc.toNat + (sm1 * stride).toNat < wordSize) :=
          fun h => h2 h.2
        rw [if_neg hc, if_neg this]; rfl
    · have : ¬ acc.toNat + ((size.toNat - 1) * stride.toNat + TensorBounds.maxOffset (toN xs)) < wordSize := by
        rw [hsm1] at h1; omega
      have hc : ¬ (sm1.toNat * stride.toNat < wordSize ∧ acc.toNat + (sm1 * stride).toNat < wordSize) :=
        fun h => h1 h.1
      rw [if_neg hc, if_neg this]; rfl

theorem isizeMax_lt_W : isizeMax < wordSize := by decide

theorem checkedMinDataLen_eq (d : List (U × U)) :
    (checkedMinDataLen d).map UInt64.toNat = TensorBounds.checkedMinDataLen (toN d) := by
  unfold checkedMinDataLen TensorBounds.checkedMinDataLen
  have hsl := checkedShapeLen_eq (shapeOf d)
  rw [← shapeOf_toN] at hsl
  cases hc : checkedShapeLen (shapeOf d) with
  | none =>
    rw [hc] at hsl
    rw [← hsl]; rfl
  | some n =>
    rw [hc] at hsl
    rw [← hsl]
    simp only [Option.map_some]
    have hmo := checkedMaxOffset_eq d 0
    have h0 : (0 : U).toNat = 0 := rfl
    rw [h0, Nat.zero_add] at hmo
    cases hm : checkedMaxOffset d 0 with
    | none =>
      rw [hm] at hmo
      have : ¬ TensorBounds.maxOffset (toN d) < wordSize := by
        intro h; rw [if_pos h] at hmo; cases hmo
      have : TensorBounds.maxOffset (toN d) ≥ isizeMax := by
        have := isizeMax_lt_W; omega
      simp only [this, if_true]; rfl
    | some mo =>
      rw [hm] at hmo
      have hlt : TensorBounds.maxOffset (toN d) < wordSize := by
        by_cases h : TensorBounds.maxOffset (toN d) < wordSize
        · exact h
        · rw [if_neg h] at hmo; cases hmo
      rw [if_pos hlt] at hmo
      have hmo' : mo.toNat = TensorBounds.maxOffset (toN d) := by
        simpa using hmo
      simp only [hmo']
      by_cases hge : TensorBounds.maxOffset (toN d) ≥ isizeMax
      · simp only [hge, if_true]; rfl
      · simp only [hge, if_false, Option.map_some]
        congr 1
        by_cases hn : n = 0
        · have : n.toNat = 0 := (eq_zero_iff n).mp hn
          simp [hn]
        · have : n.toNat ≠ 0 := fun h' => hn ((eq_zero_iff _).mpr h')
          simp only [hn, this, if_false]
          rw [add_toNat, hmo']
          have : (1 : U).toNat = 1 := rfl
          rw [this, Nat.mod_eq_of_lt]
          have := isizeMax_lt_W; omega

theorem minDataLen_toNat (d : List (U × U)) (h : TensorBounds.maxOffset (toN d) + 1 < wordSize) :
    (minDataLen d).toNat = TensorBounds.minDataLen (toN d) := by
  unfold minDataLen TensorBounds.minDataLen
  rw [← hasZero_eq]
  cases hz : hasZero d
  · simp only [Bool.false_eq_true, if_false]
    rw [add_toNat, maxOffset_toNat d hz]
    have : (1 : U).toNat = 1 := rfl
    rw [this, Nat.mod_add_mod, Nat.mod_eq_of_lt h]
  · simp only [if_true]; rfl

theorem len_toNat (d : List (U × U)) (h : TensorBounds.len (toN d) < wordSize) :
    (len d).toNat = TensorBounds.len (toN d) := by
  unfold len TensorBounds.len at *
  rw [prod_toNat, ← shapeOf_toN, Nat.mod_eq_of_lt h]

theorem toN_zip (a b : List U) : toN (a.zip b) = (toNs a).zip (toNs b) := by
  induction a generalizing b with
  | nil => rfl
  | cons x xs ih =>
    cases b with
    | nil => rfl
    | cons y ys => simp only [List.zip_cons_cons, toN_cons, toNs_cons, ih]

theorem contigStrides_toNs (s : List U) (h : prodNZ (toNs s) ≤ isizeMax) :
    toNs (contigStrides s) = TensorBounds.contigStrides (toNs s) := by
  induction s with
  | nil => rfl
  | cons x xs ih =>
    have h' : prodNZ (toNs xs) ≤ isizeMax := Nat.le_trans (prodNZ_tail_le _ _) h
    simp only [contigStrides, toNs_cons, TensorBounds.contigStrides]
    rw [ih h', prod_toNat, Nat.mod_eq_of_lt]
    have := prod_le_prodNZ (toNs xs)
    have := isizeMax_lt_W
    omega

theorem contigDims_toN (s : List U) (h : prodNZ (toNs s) ≤ isizeMax) :
    toN (contigDims s) = TensorBounds.contigDims (toNs s) := by
  unfold contigDims TensorBounds.contigDims
  rw [toN_zip, contigStrides_toNs s h]

end M
end RtenVerif.TensorBounds
