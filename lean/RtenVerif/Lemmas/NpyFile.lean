import RtenVerif.Lemmas.Npy

/-!
# Lemmas for the npy model, part 2: whole files

Little-endian codecs, UTF-8 validity of the generated header, `read_header ∘ build_header`,
chunking, size guards and `read ∘ write`.
-/
namespace RtenVerif.Npy

/-! ## little-endian codecs -/

theorem toLE_length (w x : Nat) : (toLE w x).length = w := by
  induction w generalizing x with
  | zero => rfl
  | succ w ih => simp [toLE, ih]

theorem toLE_lt (w x : Nat) : ∀ b ∈ toLE w x, b < 256 := by
  induction w generalizing x with
  | zero => simp [toLE]
  | succ w ih =>
    intro b hb
    simp only [toLE, List.mem_cons] at hb
    rcases hb with rfl | hb
    · omega
    · exact ih _ b hb

theorem fromLE_toLE (w x : Nat) (h : x < 256 ^ w) : fromLE (toLE w x) = x := by
  induction w generalizing x with
  | zero => simp [toLE, fromLE] at *; omega
  | succ w ih =>
    have hx : x / 256 < 256 ^ w := by
      apply Nat.div_lt_of_lt_mul
      rw [Nat.pow_succ, Nat.mul_comm] at h; exact h
    simp only [toLE, fromLE, ih _ hx]; omega

theorem fromLE_lt (bs : List Nat) (h : ∀ b ∈ bs, b < 256) : fromLE bs < 256 ^ bs.length := by
  induction bs with
  | nil => simp [fromLE]
  | cons b bs ih =>
    have hb : b < 256 := h b (by simp)
    have := ih (fun x hx => h x (by simp [hx]))
    simp only [fromLE, List.length_cons, Nat.pow_succ]; omega

theorem toLE_fromLE (bs : List Nat) (h : ∀ b ∈ bs, b < 256) : toLE bs.length (fromLE bs) = bs := by
  induction bs with
  | nil => rfl
  | cons b bs ih =>
    have hb : b < 256 := h b (by simp)
    have := ih (fun x hx => h x (by simp [hx]))
    simp only [List.length_cons, toLE, fromLE]
    have h1 : (b + 256 * fromLE bs) % 256 = b := by omega
    have h2 : (b + 256 * fromLE bs) / 256 = fromLE bs := by omega
    rw [h1, h2, this]

/-! ## UTF-8 -/

theorem validUtf8_ascii (l : List Nat) (h : ∀ b ∈ l, b < 128) : validUtf8 l = true := by
  induction l with
  | nil => rfl
  | cons b l ih =>
    have hb : b < 128 := h b (by simp)
    unfold validUtf8
    simp [hb, ih (fun x hx => h x (by simp [hx]))]

theorem descr_ascii (dt : DataType) : ∀ b ∈ dt.descr, b < 128 := by
  cases dt <;> decide

theorem natDigits_ascii (n : Nat) : ∀ b ∈ natDigits n, b < 128 := by
  intro b hb
  have := natDigits_digits n b hb
  simp [isDigit] at this; omega

theorem joinDims_ascii (ds : List Nat) : ∀ b ∈ joinDims ds, b < 128 := by
  induction ds with
  | nil => simp [joinDims]
  | cons d ds ih =>
    cases ds with
    | nil => simpa [joinDims] using natDigits_ascii d
    | cons d2 ds' =>
      intro b hb
      simp only [joinDims, List.mem_append, List.mem_cons] at hb
      rcases hb with hb | rfl | rfl | hb
      · exact natDigits_ascii d b hb
      · omega
      · omega
      · exact ih b (by simpa [joinDims] using hb)

theorem ascii_append {a c : List Nat} (ha : ∀ b ∈ a, b < 128) (hc : ∀ b ∈ c, b < 128) :
    ∀ b ∈ a ++ c, b < 128 := by
  intro b hb
  rcases List.mem_append.mp hb with h | h
  · exact ha b h
  · exact hc b h

theorem pre1_ascii : ∀ b ∈ pre1, b < 128 := by decide
theorem pre2_ascii : ∀ b ∈ pre2, b < 128 := by decide
theorem post_ascii : ∀ b ∈ post, b < 128 := by decide

theorem dimsText_ascii (shape : List Nat) : ∀ b ∈ dimsText shape, b < 128 := by
  unfold dimsText
  apply ascii_append (joinDims_ascii shape)
  intro b hb
  split at hb <;> simp at hb
  omega

theorem paddedDict_ascii (dt : DataType) (shape : List Nat) : ∀ b ∈ paddedDict dt shape, b < 128 := by
  unfold paddedDict dictText
  apply ascii_append
  · apply ascii_append
    · exact ascii_append (ascii_append (ascii_append (ascii_append pre1_ascii (descr_ascii dt)) pre2_ascii)
        (dimsText_ascii shape)) post_ascii
    · intro b hb
      simp only [List.mem_replicate] at hb
      omega
  · intro b hb
    simp at hb; omega

/-! ## `read_header ∘ build_header` -/

theorem parseHeader_paddedDict (dt : DataType) (shape : List Nat)
    (hall : ∀ d ∈ shape, d < usizeLimit) :
    parseHeader (paddedDict dt shape) = .ok ⟨⟨false, dt.kind, dt.itemSize⟩, false, shape⟩ := by
  unfold parseHeader paddedDict
  simp only [List.append_assoc]
  rw [parseHeaderRest_dictText dt shape hall]

/-- **T1 (file level)**: reading the header of `build_header`'s output followed by any data
returns exactly the written element type, C order, the written shape, and leaves the data. -/
theorem readHeader_buildHeader (dt : DataType) (shape : List Nat) (data h : List Nat)
    (hall : ∀ d ∈ shape, d < usizeLimit) (hb : buildHeader dt shape = .ok h) :
    readHeader (h ++ data) = .ok (⟨⟨false, dt.kind, dt.itemSize⟩, false, shape⟩, data) := by
  unfold buildHeader at hb
  simp only at hb
  split at hb
  · rename_i hlen
    injection hb with hb
    subst hb
    have hle : fromLE (toLE 2 (paddedDict dt shape).length) = (paddedDict dt shape).length :=
      fromLE_toLE 2 _ (by omega)
    have hlen2 : (toLE 2 (paddedDict dt shape).length).length = 2 := toLE_length _ _
    obtain ⟨l0, l1, hl⟩ : ∃ a b, toLE 2 (paddedDict dt shape).length = [a, b] := by
      simp [toLE]
    rw [hl] at hle
    unfold readHeader readExact magicBytes
    simp only [hl, List.cons_append, List.nil_append, List.append_assoc, List.length_cons,
      List.length_append]
    simp [hle, validUtf8_ascii _ (paddedDict_ascii dt shape), parseHeader_paddedDict dt shape hall]
  · cases hb

/-! ## chunking -/

theorem length_flatten_uniform (w : Nat) (xs : List (List Nat)) (hx : ∀ x ∈ xs, x.length = w) :
    xs.flatten.length = xs.length * w := by
  induction xs with
  | nil => simp
  | cons x xs ih =>
    simp only [List.flatten_cons, List.length_append, List.length_cons,
      ih (fun y hy => hx y (by simp [hy])), hx x (by simp), Nat.succ_mul]
    omega

theorem chunks_flatten (w : Nat) (xs : List (List Nat)) (hx : ∀ x ∈ xs, x.length = w)
    (rest : List Nat) : chunks w xs.length (xs.flatten ++ rest) = xs := by
  induction xs with
  | nil => rfl
  | cons x xs ih =>
    have hxl : x.length = w := hx x (by simp)
    simp only [List.length_cons, chunks, List.flatten_cons, List.append_assoc]
    rw [List.take_left' hxl, List.drop_left' hxl, ih (fun y hy => hx y (by simp [hy]))]

theorem chunks_length (w n : Nat) (l : List Nat) : (chunks w n l).length = n := by
  induction n generalizing l with
  | zero => rfl
  | succ n ih => simp [chunks, ih]

/-! ## size guard -/

theorem prod_pos (l : List Nat) (h : ∀ d ∈ l, 1 ≤ d) : 1 ≤ prod l := by
  induction l with
  | nil => simp [prod]
  | cons d ds ih =>
    have h1 := h d (by simp)
    have h2 := ih (fun x hx => h x (by simp [hx]))
    simp only [prod]
    exact Nat.mul_le_mul h1 h2

theorem checkedProd_of_lt (l : List Nat) (acc : Nat) (h : ∀ d ∈ l, 1 ≤ d) (hacc : 1 ≤ acc)
    (hlt : acc * prod l < isizeLimit) : checkedProd l acc = some (acc * prod l) := by
  induction l generalizing acc with
  | nil => simp [checkedProd, prod]
  | cons d ds ih =>
    have h1 := h d (by simp)
    have h2 := prod_pos ds (fun x hx => h x (by simp [hx]))
    have hle : acc * d ≤ acc * d * prod ds := Nat.le_mul_of_pos_right _ h2
    have hassoc : acc * (d * prod ds) = acc * d * prod ds := (Nat.mul_assoc _ _ _).symm
    simp only [prod] at hlt ⊢
    have hlt' : acc * d < isizeLimit := by omega
    simp only [checkedProd, hlt', if_true]
    rw [ih (acc * d) (fun x hx => h x (by simp [hx])) (Nat.mul_le_mul hacc h1) (by omega), hassoc]

theorem checkedProd_some (l : List Nat) (acc p : Nat) (hacc : acc < isizeLimit)
    (h : checkedProd l acc = some p) : p = acc * prod l ∧ p < isizeLimit := by
  induction l generalizing acc with
  | nil => simp [checkedProd, prod] at h ⊢; omega
  | cons d ds ih =>
    simp only [checkedProd] at h
    split at h
    · rename_i hlt
      have := ih (acc * d) hlt h
      simp only [prod]
      rw [← Nat.mul_assoc]; exact this
    · cases h

theorem prod_le_prod_max (l : List Nat) : prod l ≤ prod (l.map (fun d => max d 1)) := by
  induction l with
  | nil => simp [prod]
  | cons d ds ih =>
    simp only [List.map_cons, prod]
    exact Nat.mul_le_mul (Nat.le_max_left d 1) ih

end RtenVerif.Npy
