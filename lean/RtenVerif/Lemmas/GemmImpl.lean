import RtenVerif.Lemmas.GemmGemv

/-! C16: branch selection of `gemm_impl` (`gemmPath`). -/
namespace RtenVerif.Gemm

/-- What `gemmPath` can answer with `ok`: the three branches with the guards that led there. -/
theorem gemmPath_ok {k : BlockConsts} {kern : KernelCfg} {p : Problem} {path : Path}
    (h : gemmPath k kern p = .ok path) :
    (p.Ka = p.Kb ∧ biasLenBad p.rowBiasLen p.N = false ∧ biasLenBad p.colBiasLen p.M = false ∧
      biasLenBad p.aQuantLen p.M = false ∧ biasLenBad p.bQuantLen p.N = false ∧
      p.outLen = p.M * p.N) ∧
    ((path = .none ∧ (p.M = 0 ∨ p.N = 0 ∨ p.Ka = 0)) ∨
     (path = .gemv (gemvSchedule k p.N p.Ka p.threads p.bRowStride1) ∧
        p.M = 1 ∧ p.N ≠ 0 ∧ p.Ka ≠ 0) ∨
     (path = .gemm (rowBlockSize k p.M kern.mr) (colBlockSize k p.N kern.nr p.threads)
          (depthBlockSize k kern.elemSize p.Ka none)
          (schedule p.M p.N p.Ka kern.mr kern.nr (rowBlockSize k p.M kern.mr)
            (colBlockSize k p.N kern.nr p.threads) (depthBlockSize k kern.elemSize p.Ka none)) ∧
        p.M ≠ 0 ∧ p.N ≠ 0 ∧ p.Ka ≠ 0)) := by
  simp only [gemmPath] at h
  split at h
  · cases h
  rename_i hk
  split at h
  · cases h
  rename_i hb1
  split at h
  · cases h
  rename_i hb2
  split at h
  · cases h
  rename_i hq1
  split at h
  · cases h
  rename_i hq2
  split at h
  · cases h
  rename_i hol
  have hpre : p.Ka = p.Kb ∧ biasLenBad p.rowBiasLen p.N = false ∧
      biasLenBad p.colBiasLen p.M = false ∧ biasLenBad p.aQuantLen p.M = false ∧
      biasLenBad p.bQuantLen p.N = false ∧ p.outLen = p.M * p.N := by
    refine ⟨by omega, by simpa using hb1, by simpa using hb2, by simpa using hq1,
      by simpa using hq2, by omega⟩
  refine ⟨hpre, ?_⟩
  split at h
  · rename_i hmn
    cases h
    left; exact ⟨rfl, by omega⟩
  rename_i hmn
  split at h
  · rename_i hka
    cases h
    left; exact ⟨rfl, by omega⟩
  rename_i hka
  split at h
  · rename_i hv
    cases h
    right; left
    exact ⟨rfl, hv.1, by omega, hka⟩
  · split at h
    · cases h
    · split at h
      · cases h
      · cases h
        right; right
        exact ⟨rfl, by omega, by omega, hka⟩

/-- A well-formed request (consistent sizes; inputs unpacked or prepacked with the same kernel)
is never rejected. -/
theorem gemmPath_valid {k : BlockConsts} {kern : KernelCfg} {p : Problem}
    (hK : p.Ka = p.Kb) (hb1 : biasLenBad p.rowBiasLen p.N = false)
    (hb2 : biasLenBad p.colBiasLen p.M = false) (hq1 : biasLenBad p.aQuantLen p.M = false)
    (hq2 : biasLenBad p.bQuantLen p.N = false) (hol : p.outLen = p.M * p.N)
    (ha : p.aPacked = none ∨ p.aPacked = some (prepackMeta k kern true p.Ka))
    (hb : p.bPacked = none ∨ p.bPacked = some (prepackMeta k kern false p.Kb)) :
    ∃ path, gemmPath k kern p = .ok path := by
  simp only [gemmPath, hK, hb1, hb2, hq1, hq2, hol, ne_eq, not_true_eq_false, if_false, Bool.false_eq_true]
  split
  · exact ⟨_, rfl⟩
  split
  · exact ⟨_, rfl⟩
  split
  · exact ⟨_, rfl⟩
  rcases ha with ha | ha <;> rcases hb with hb | hb <;>
    simp [ha, hb, validatePacked, prepackMeta, hK]

end RtenVerif.Gemm
