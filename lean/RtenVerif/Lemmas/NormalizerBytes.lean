import RtenVerif.Lemmas.Normalizer
import RtenVerif.Lemmas.Utf8

/-!
C30, byte level: the char-list notions of `Model/Normalizer.lean` (`blen`, `isBoundary`) coincide
with the byte-level ones on the UTF-8 encoding (`Utf8.encode`, `Utf8.isBoundary`), and `Replace`
is total for every ordered, non-overlapping list of char-boundary ranges.
-/
namespace RtenVerif.Normalizer
open RtenVerif

/-- The UTF-8 bytes of a text. -/
def utf8 (t : List Char) : List Nat := Utf8.encode (t.map Char.toNat)

theorem encCp_length (c : Char) : (Utf8.encCp c.toNat).length = usize c := by
  unfold Utf8.encCp usize
  repeat' split
  all_goals simp

theorem utf8_cons (c : Char) (cs : List Char) : utf8 (c :: cs) = Utf8.encCp c.toNat ++ utf8 cs := rfl

theorem utf8_length (t : List Char) : (utf8 t).length = blen t := by
  induction t with
  | nil => rfl
  | cons c cs ih => rw [utf8_cons, List.length_append, encCp_length, ih]; rfl

/-- `normalized`/`text` are valid UTF-8 (a `String` in the Rust code). -/
theorem utf8_valid (t : List Char) : Utf8.valid (utf8 t) = true := by
  apply Utf8.valid_encode
  intro c hc
  rw [List.mem_map] at hc
  obtain ⟨ch, _, rfl⟩ := hc
  exact Utf8.char_isScalar ch

/-- First byte of an encoding is not a continuation byte, all others are. -/
theorem encCp_shape (c : Nat) (hc : Utf8.isScalar c = true) :
    ∃ b tl, Utf8.encCp c = b :: tl ∧ Utf8.isCont b = false ∧ ∀ x ∈ tl, Utf8.isCont x = true := by
  simp only [Utf8.isScalar, Bool.or_eq_true, decide_eq_true_eq, Bool.and_eq_true] at hc
  unfold Utf8.encCp
  by_cases h1 : c < 0x80
  · exact ⟨c, [], by simp [h1], by simp [Utf8.isCont]; omega, by simp⟩
  · by_cases h2 : c < 0x800
    · refine ⟨_, _, by simp only [h1, h2, if_false, if_true]; rfl, by simp [Utf8.isCont]; omega, ?_⟩
      intro x hx; simp at hx; subst hx; simp [Utf8.isCont]; omega
    · by_cases h3 : c < 0x10000
      · refine ⟨_, _, by simp only [h1, h2, h3, if_false, if_true]; rfl,
          by simp [Utf8.isCont]; omega, ?_⟩
        intro x hx; simp at hx
        rcases hx with rfl | rfl <;> (simp [Utf8.isCont]; omega)
      · refine ⟨_, _, by simp only [h1, h2, h3, if_false]; rfl, by simp [Utf8.isCont]; omega, ?_⟩
        intro x hx; simp at hx
        rcases hx with rfl | rfl | rfl <;> (simp [Utf8.isCont]; omega)

theorem utf8_head_not_cont (t : List Char) (b : Nat) (h : (utf8 t)[0]? = some b) :
    Utf8.isCont b = false := by
  cases t with
  | nil => simp [utf8, Utf8.encode] at h
  | cons c cs =>
    obtain ⟨b0, tl, he, hb0, _⟩ := encCp_shape c.toNat (Utf8.char_isScalar c)
    rw [utf8_cons, he] at h
    simp at h; subst h; exact hb0

/-- **`is_char_boundary` on the UTF-8 bytes = `isBoundary` on the char list.** -/
theorem isBoundary_bytes : ∀ (t : List Char) (p : Nat),
    Utf8.isBoundary (utf8 t) p = isBoundary t p := by
  intro t
  induction t with
  | nil =>
    intro p
    cases p with
    | zero => rfl
    | succ p => simp [utf8, Utf8.encode, Utf8.isBoundary, isBoundary]
  | cons c cs ih =>
    intro p
    obtain ⟨b0, tl, he, hb0, htl⟩ := encCp_shape c.toNat (Utf8.char_isScalar c)
    have hlen : (b0 :: tl).length = usize c := by rw [← he, encCp_length]
    have hpos := usize_pos c
    by_cases h0 : p = 0
    · subst h0; simp [Utf8.isBoundary, isBoundary_zero]
    · by_cases hlt : p < usize c
      · rw [isBoundary_cons_lt c cs p (by omega) hlt]
        have htot : (utf8 (c :: cs)).length = usize c + blen cs := by rw [utf8_length]; rfl
        have hget : (utf8 (c :: cs))[p]? = (b0 :: tl)[p]? := by
          rw [utf8_cons, he, List.getElem?_append_left (by omega)]
        obtain ⟨q, rfl⟩ : ∃ q, p = q + 1 := ⟨p - 1, by omega⟩
        have hq : q < tl.length := by simp at hlen; omega
        simp only [Utf8.isBoundary, htot, hget, List.getElem?_cons_succ, List.getElem?_eq_getElem hq]
        have := htl _ (List.getElem_mem hq)
        simp [this]; omega
      · obtain ⟨q, rfl⟩ : ∃ q, p = usize c + q := ⟨p - usize c, by omega⟩
        rw [isBoundary_cons_add, ← ih q]
        have htot : (utf8 (c :: cs)).length = usize c + (utf8 cs).length := by
          rw [utf8_cons, List.length_append, encCp_length]
        have hget : (utf8 (c :: cs))[usize c + q]? = (utf8 cs)[q]? := by
          rw [utf8_cons, List.getElem?_append_right (by rw [encCp_length]; omega), encCp_length]
          congr 1; omega
        simp only [Utf8.isBoundary, htot, hget]
        by_cases hq : q = 0
        · subst hq
          cases hh : (utf8 cs)[0]? with
          | none =>
            have : utf8 cs = [] := by
              cases hu : utf8 cs with
              | nil => rfl
              | cons x xs => rw [hu] at hh; simp at hh
            simp [this]
          | some b => simp [utf8_head_not_cont cs b hh]
        · have e1 : (usize c + q == 0) = false := by simp; omega
          have e2 : (q == 0) = false := by simp [hq]
          have e3 : (usize c + q == usize c + (utf8 cs).length) = (q == (utf8 cs).length) := by
            by_cases hx : q = (utf8 cs).length
            · simp [hx]
            · have h1 : (q == (utf8 cs).length) = false := by simpa using hx
              have h2 : (usize c + q == usize c + (utf8 cs).length) = false := by
                simp only [beq_eq_false_iff_ne, ne_eq]; omega
              rw [h1, h2]
          rw [e1, e2, e3]

/-! ### `Replace` is total for well-formed match lists -/

/-- The regex contract `Replace` relies on: matches in order, non-overlapping, `start ≤ end`,
all on char boundaries of the text (`last` = end of the previous match). -/
def matchesOk (src : List Char) : List (Nat × Nat) → Nat → Bool
  | [], last => isBoundary src last
  | (s, e) :: ms, last =>
    decide (last ≤ s) && decide (s ≤ e) && isBoundary src last && isBoundary src s && matchesOk src ms e

theorem dropBytes_isSome : ∀ (t : List Char) (p : Nat), isBoundary t p = true →
    ∃ r, dropBytes t p = some r := by
  intro t
  induction t with
  | nil => intro p h; cases p with
    | zero => exact ⟨[], rfl⟩
    | succ p => simp [isBoundary] at h
  | cons c cs ih =>
    intro p h
    cases p with
    | zero => exact ⟨c :: cs, rfl⟩
    | succ p =>
      simp only [isBoundary] at h
      simp only [dropBytes]
      split
      · rename_i hlt; simp [hlt] at h
      · rename_i hlt; simp only [hlt, if_false] at h; exact ih _ h

theorem takeBytes_isSome : ∀ (t : List Char) (n : Nat), isBoundary t n = true →
    ∃ r, takeBytes t n = some r := by
  intro t
  induction t with
  | nil => intro n h; cases n with
    | zero => exact ⟨[], rfl⟩
    | succ n => simp [isBoundary] at h
  | cons c cs ih =>
    intro n h
    cases n with
    | zero => exact ⟨[], rfl⟩
    | succ n =>
      simp only [isBoundary] at h
      simp only [takeBytes]
      split
      · rename_i hlt; simp [hlt] at h
      · rename_i hlt
        simp only [hlt, if_false] at h
        obtain ⟨r, hr⟩ := ih _ h
        exact ⟨c :: r, by simp [hr]⟩

theorem slice_isSome (t : List Char) (a b : Nat) (hab : a ≤ b) (ha : isBoundary t a = true)
    (hb : isBoundary t b = true) : ∃ seg, slice t a b = some seg := by
  obtain ⟨r, hr⟩ := dropBytes_isSome t a ha
  obtain ⟨pre, hpre, hlen⟩ := dropBytes_spec t a r hr
  have hrb : isBoundary r (b - a) = true := by
    by_cases he : b = a
    · subst he; simp [isBoundary_zero]
    · rw [hpre, isBoundary_append, if_neg (by omega), hlen] at hb; exact hb
  obtain ⟨seg, hseg⟩ := takeBytes_isSome r (b - a) hrb
  exact ⟨seg, by simp [slice, hab, hr, hseg]⟩

theorem replaceFrom_isSome (src content : List Char) : ∀ (ms : List (Nat × Nat)) (last : Nat),
    matchesOk src ms last = true → ∃ r, replaceFrom src content ms last = some r := by
  intro ms
  induction ms with
  | nil =>
    intro last h
    simp only [matchesOk] at h
    obtain ⟨seg, hseg⟩ := slice_isSome src last (blen src) (isBoundary_le _ _ h) h (isBoundary_blen src)
    exact ⟨(seg, List.range' last (blen src - last)), by simp [replaceFrom, hseg]⟩
  | cons m ms ih =>
    intro last h
    obtain ⟨s, e⟩ := m
    simp only [matchesOk, Bool.and_eq_true, decide_eq_true_eq] at h
    obtain ⟨⟨⟨⟨h1, h2⟩, h3⟩, h4⟩, h5⟩ := h
    obtain ⟨seg, hseg⟩ := slice_isSome src last s h1 h3 h4
    obtain ⟨r, hr⟩ := ih e h5
    refine ⟨(seg ++ content ++ r.1, List.range' last (s - last) ++ List.replicate (blen content) s ++ r.2), ?_⟩
    simp [replaceFrom, h2, hseg, hr]

end RtenVerif.Normalizer
