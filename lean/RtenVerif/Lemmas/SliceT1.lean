import RtenVerif.Lemmas.Slice
import RtenVerif.Lemmas.Gather

/-! C09: `slice_layout` / `try_slice` with positive steps refines the reference `slice`. -/
namespace RtenVerif.Layout
open RtenVerif.Arr RtenVerif.Overlap

/-- The reference's acceptance condition for one item of a view slice. -/
def itemOk (n : Nat) : SliceItem → Prop
  | .index i => 0 ≤ (if i ≥ 0 then i else i + n) ∧ (if i ≥ 0 then i else i + n) < n
  | .range r => (NArr.inBounds r.start n && r.stop.all (NArr.inBounds · n)) = true ∧ 0 < r.step

/-- The layout-level selector an accepted item amounts to. -/
def itemSel (n : Nat) : SliceItem → ASel
  | .index i => .pick (if i ≥ 0 then i else i + n).toNat
  | .range r => .arith (pyBounds r.start r.stop r.step n).1.toNat
      (pyCount r.start r.stop r.step n) r.step.toNat

/-- `(offset_adjust, kept dim)` of a selector on a `(size, stride)` axis. -/
def selStep (st : Nat) : ASel → Nat × Option (Nat × Nat)
  | .pick i => (st * i, none)
  | .arith a c t => (st * a, some (c, st * t))

theorem pyBounds_pos (r : SliceRange) (n : Nat) (ht : r.step > 0) :
    0 ≤ (pyBounds r.start r.stop r.step n).1 ∧ (pyBounds r.start r.stop r.step n).1 ≤ n ∧
    0 ≤ (pyBounds r.start r.stop r.step n).2 ∧ (pyBounds r.start r.stop r.step n).2 ≤ n := by
  have hS := pyAdjust_range_pos r.start r.step n ht
  have hneg : ¬ r.step < 0 := by omega
  cases hst : r.stop with
  | none => simp only [pyBounds, hneg, if_false]; omega
  | some e =>
    have hE := pyAdjust_range_pos e r.step n ht
    simp only [pyBounds]; omega

theorem pyCount_step_one (r : SliceRange) (n : Nat) (h1 : r.step = 1) :
    pyCount r.start r.stop r.step n =
      (max (pyBounds r.start r.stop r.step n).2 (pyBounds r.start r.stop r.step n).1).toNat -
        (pyBounds r.start r.stop r.step n).1.toNat := by
  have hb := pyBounds_pos r n (by omega)
  unfold pyCount
  rcases hp : pyBounds r.start r.stop r.step n with ⟨S, E⟩
  rw [hp] at hb
  simp only at hb ⊢
  rw [h1]
  simp only [Int.ediv_one]
  split
  · omega
  · split <;> omega

/-- A positive-step range item on the code side. -/
theorem sliceDim_range_ok (n st : Nat) (r : SliceRange) (hok : itemOk n (.range r)) :
    sliceDim n st (.range r) = .ok (selStep st (itemSel n (.range r))) := by
  obtain ⟨hin, ht⟩ := hok
  have hres := resolve_pos r n ht
  rw [if_pos hin] at hres
  simp only [sliceDim, hres]
  rw [if_neg (by omega)]
  by_cases h1 : r.step.toNat = 1
  · rw [if_pos h1]
    have h1' : r.step = 1 := by omega
    simp only [selStep, itemSel, pyCount_step_one r n h1']
  · rw [if_neg h1]
    obtain ⟨ir, hir, _, hsteps, _⟩ := indexRange_pos r n ht
    rw [hir]
    simp only [selStep, itemSel, hsteps]

theorem toNat_lin (S step : Int) (j : Nat) (hS : 0 ≤ S) (ht : 0 ≤ step) :
    (S + (j : Int) * step).toNat = S.toNat + j * step.toNat := by
  have e1 : S = ((S.toNat : Nat) : Int) := (Int.toNat_of_nonneg hS).symm
  have e2 : step = ((step.toNat : Nat) : Int) := (Int.toNat_of_nonneg ht).symm
  rw [e1, e2, ← Int.natCast_mul, ← Int.natCast_add, Int.toNat_natCast, Int.toNat_natCast,
    Int.toNat_natCast]

/-- … and on the reference side: NumPy's index list is the arithmetic progression, all of whose
members are in range. -/
theorem range_ref_ok (n : Nat) (r : SliceRange) (hok : itemOk n (.range r)) :
    Sel.take (pyIndices r.start r.stop r.step n) = (itemSel n (.range r)).toSel ∧
    (pyCount r.start r.stop r.step n = 0 ∨
      (pyBounds r.start r.stop r.step n).1.toNat +
        (pyCount r.start r.stop r.step n - 1) * r.step.toNat < n) := by
  obtain ⟨_, ht⟩ := hok
  have hb := pyBounds_pos r n ht
  constructor
  · simp only [itemSel, ASel.toSel, pyIndices]
    congr 1
    apply List.map_congr_left
    intro j _
    exact toNat_lin _ _ j hb.1 (by omega)
  · by_cases hc : pyCount r.start r.stop r.step n = 0
    · exact Or.inl hc
    · right
      have hneg : ¬ r.step < 0 := by omega
      revert hc
      unfold pyCount
      rcases hp : pyBounds r.start r.stop r.step n with ⟨S, E⟩
      rw [hp] at hb
      simp only at hb ⊢
      simp only [hneg, if_false]
      split
      · intro _
        rename_i hSE
        have hq0 : 0 ≤ (E - S - 1) / r.step := Int.ediv_nonneg (by omega) (by omega)
        have hq := Int.ediv_mul_le (E - S - 1) (b := r.step) (by omega)
        generalize hqd : (E - S - 1) / r.step = q at hq0 hq
        have hc1 : (q + 1).toNat - 1 = q.toNat := by omega
        rw [hc1]
        have hcast : ((q.toNat * r.step.toNat : Nat) : Int) = q * r.step := by
          rw [Int.natCast_mul, Int.toNat_of_nonneg hq0, Int.toNat_of_nonneg (by omega)]
        omega
      · intro h; exact absurd rfl h

/-! ### per-item summary -/

theorem item_ok (n st : Nat) (it : SliceItem) (hok : itemOk n it) :
    sliceDim n st it = .ok (selStep st (itemSel n it)) ∧
    (match it with
      | .index i => pyIndex i n = some (if i ≥ 0 then i else i + n).toNat ∧
          (if i ≥ 0 then i else i + (n : Int)).toNat < n
      | .range r => Sel.take (pyIndices r.start r.stop r.step n) = (itemSel n (.range r)).toSel ∧
          (pyCount r.start r.stop r.step n = 0 ∨
            (pyBounds r.start r.stop r.step n).1.toNat +
              (pyCount r.start r.stop r.step n - 1) * r.step.toNat < n)) := by
  cases it with
  | index i =>
    simp only [itemOk] at hok
    refine ⟨?_, ?_, ?_⟩
    · simp only [sliceDim, selStep, itemSel]
      rw [if_neg (by omega)]
    · simp only [pyIndex]
      rw [if_pos hok]
    · omega
  | range r => exact ⟨sliceDim_range_ok n st r hok, range_ref_ok n r hok⟩

theorem item_err (n st : Nat) (it : SliceItem) (hbad : ¬ itemOk n it)
    (hstep : ∀ r, it = .range r → r.step ≠ 0) :
    sliceDim n st it = .error .err ∧
    (match it with
      | .index i => pyIndex i n = none
      | .range r => (NArr.inBounds r.start n && r.stop.all (NArr.inBounds · n) &&
          decide (0 < r.step)) = false) := by
  cases it with
  | index i =>
    simp only [itemOk] at hbad
    refine ⟨?_, ?_⟩
    · simp only [sliceDim]
      rw [if_pos (by omega)]
    · simp only [pyIndex]
      rw [if_neg hbad]
  | range r =>
    have h0 := hstep r rfl
    simp only [itemOk, not_and] at hbad
    by_cases ht : r.step > 0
    · have hcond : (NArr.inBounds r.start n && r.stop.all (NArr.inBounds · n)) = false := by
        cases hc : (NArr.inBounds r.start n && r.stop.all (NArr.inBounds · n)) with
        | false => rfl
        | true => exact absurd ht (hbad hc)
      refine ⟨?_, by simp [hcond]⟩
      have hres := resolve_pos r n ht
      rw [hcond] at hres
      simp only [Bool.false_eq_true, if_false] at hres
      simp only [sliceDim, hres]
    · have hn : r.step < 0 := by omega
      refine ⟨?_, ?_⟩
      · simp only [sliceDim]
        cases r.resolve n with
        | none => rfl
        | some p => simp only []; rw [if_pos hn]
      · have : decide (0 < r.step) = false := by simp; omega
        show (_ && _ && decide (0 < r.step)) = false
        rw [this]; simp

theorem sliceLoop_nil (d : Dims) : sliceLoop d [] = .ok (0, d) := by
  induction d with
  | nil => rfl
  | cons p ds ih =>
    obtain ⟨n, st⟩ := p
    simp only [sliceLoop, ih, bind, Except.bind, pure, Except.pure]

/-- **The `slice_layout` loop against the reference selection.**  Either both accept, and the
code's `(offset, dims)` are those of the admissible selection the reference chose, or both
report an error. -/
theorem sliceLoop_spec (d : Dims) (items : List SliceItem) (hlen : items.length ≤ d.length)
    (hsteps : ∀ r, SliceItem.range r ∈ items → r.step ≠ 0) :
    (∃ ss, aOk (sizes d) ss ∧ sliceLoop d items = .ok (aOff d ss, aDims d ss) ∧
      NArr.sliceSels (items.map toRefItem) (sizes d) = .ok (ss.map ASel.toSel)) ∨
    (sliceLoop d items = .error .err ∧
      NArr.sliceSels (items.map toRefItem) (sizes d) = .error .err) := by
  induction d generalizing items with
  | nil =>
    cases items with
    | nil => exact Or.inl ⟨[], trivial, rfl, rfl⟩
    | cons it its => simp at hlen
  | cons p ds ih =>
    obtain ⟨n, st⟩ := p
    cases items with
    | nil =>
      refine Or.inl ⟨[], trivial, ?_, rfl⟩
      rw [sliceLoop_nil]; rfl
    | cons it its =>
      have hlen' : its.length ≤ ds.length := by simpa using hlen
      have hsteps' : ∀ r, SliceItem.range r ∈ its → r.step ≠ 0 :=
        fun r hr => hsteps r (List.mem_cons_of_mem _ hr)
      by_cases hok : itemOk n it
      · obtain ⟨hcode, href⟩ := item_ok n st it hok
        rcases ih its hlen' hsteps' with ⟨ss, haok, hloop, hsel⟩ | ⟨hloop, hsel⟩
        · left
          refine ⟨itemSel n it :: ss, ?_, ?_, ?_⟩
          · cases it with
            | index i => exact ⟨href.2, haok⟩
            | range r => exact ⟨href.2, haok⟩
          · simp only [sliceLoop, hcode, hloop, bind, Except.bind, pure, Except.pure]
            cases it with
            | index i => simp only [itemSel, selStep, aOff, aDims]
            | range r => simp only [itemSel, selStep, aOff, aDims]
          · cases it with
            | index i =>
              simp only [List.map_cons, toRefItem, sizes, NArr.sliceSels, href.1]
              simp only [sizes] at hsel
              rw [hsel]; rfl
            | range r =>
              have hcond : (NArr.inBounds r.start n && r.stop.all (NArr.inBounds · n) &&
                  decide (0 < r.step)) = true := by
                simp only [itemOk] at hok
                simp [hok.1, hok.2]
              simp only [List.map_cons, toRefItem, sizes, NArr.sliceSels, hcond, if_true]
              simp only [sizes] at hsel
              rw [hsel, href.1]; rfl
        · right
          refine ⟨?_, ?_⟩
          · simp only [sliceLoop, hcode, hloop, bind, Except.bind]
          · cases it with
            | index i =>
              simp only [List.map_cons, toRefItem, sizes, NArr.sliceSels, href.1]
              simp only [sizes] at hsel
              rw [hsel]; rfl
            | range r =>
              have hcond : (NArr.inBounds r.start n && r.stop.all (NArr.inBounds · n) &&
                  decide (0 < r.step)) = true := by
                simp only [itemOk] at hok
                simp [hok.1, hok.2]
              simp only [List.map_cons, toRefItem, sizes, NArr.sliceSels, hcond, if_true]
              simp only [sizes] at hsel
              rw [hsel]; rfl
      · obtain ⟨hcode, href⟩ := item_err n st it hok
          (fun r hr => hsteps r (hr ▸ List.mem_cons_self))
        right
        refine ⟨?_, ?_⟩
        · simp only [sliceLoop, hcode, bind, Except.bind]
        · cases it with
          | index i =>
            simp only [List.map_cons, toRefItem, sizes, NArr.sliceSels]
            simp only at href
            rw [href]
          | range r =>
            simp only [List.map_cons, toRefItem, sizes, NArr.sliceSels]
            simp only at href
            rw [href]
            simp

end RtenVerif.Layout
