import RtenVerif.Model.Executor
/-!
# C02 — reference counts (`NodeRefCount`) of the executor model

`rc v` after the counting phase is `min 255 (uses of v)`; a step only changes `rc` in its
post-step loop, where every dependency occurrence decrements once unless the counter is
stuck at 255.
-/
namespace RtenVerif.Executor
open RtenVerif.Graph

@[simp] theorem upd_same {β : Type} (f : Nat → β) (k : Nat) (b : β) : upd f k b k = b := by
  simp [upd]

theorem upd_ne {β : Type} (f : Nat → β) {k x : Nat} (b : β) (h : x ≠ k) : upd f k b x = f x := by
  simp [upd, h]

theorem upd_apply {β : Type} (f : Nat → β) (k x : Nat) (b : β) :
    upd f k b x = if x = k then b else f x := rfl

/-- All dependencies (with repetitions) of the plan entries `ids`. -/
def depsOf (g : Graph) (ids : List Nat) : List Nat :=
  ids.flatMap (fun i => match getOp g i with
    | some op => opDeps g op
    | none => [])

/-- Number of remaining uses of `v`: occurrences among the dependencies of the plan
entries still to run (counted only for value nodes, as `run_plan` does) plus occurrences
among the requested outputs. -/
def uses (g : Graph) (rest outs : List Nat) (v : Nat) : Nat :=
  (if isValue g v then (depsOf g rest).count v else 0) + outs.count v

theorem rcInc_eq (c : Nat) : rcInc c = min (c + 1) 255 := by
  unfold rcInc; split <;> omega

theorem incDeps_apply (g : Graph) (rc : Nat → Nat) (ds : List Nat) (v : Nat) :
    incDeps g rc ds v = min (rc v + (if isValue g v then ds.count v else 0)) 255 ∨
      (rc v > 255 ∧ ds.count v = 0 ∧ incDeps g rc ds v = rc v) ∨
      (rc v > 255 ∧ isValue g v = false ∧ incDeps g rc ds v = rc v) := by
  induction ds generalizing rc with
  | nil => by_cases h : rc v ≤ 255
           · left; simp [incDeps]; omega
           · right; left; simp [incDeps]; omega
  | cons d ds ih =>
    simp only [incDeps]
    by_cases hd : isValue g d = true
    · simp only [hd, if_true]
      rcases ih (upd rc d (rcInc (rc d))) with h | h | h
      · by_cases hv : v = d
        · subst hv
          simp only [upd_same, hd, if_true, List.count_cons_self] at h ⊢
          left; rw [h, rcInc_eq]; omega
        · have : (d == v) = false := by simp [Ne.symm hv]
          simp only [upd_ne _ _ hv, List.count_cons, this] at h ⊢
          left; simpa using h
      · by_cases hv : v = d
        · subst hv
          simp only [upd_same, rcInc_eq] at h; omega
        · have : (d == v) = false := by simp [Ne.symm hv]
          simp only [upd_ne _ _ hv] at h
          right; left
          simp only [List.count_cons, this]
          simpa using h
      · by_cases hv : v = d
        · subst hv; simp [hd] at h
        · simp only [upd_ne _ _ hv] at h
          right; right; exact h
    · have hd' : isValue g d = false := by simpa using hd
      simp only [hd', Bool.false_eq_true, if_false]
      rcases ih rc with h | h | h
      · left
        by_cases hv : v = d
        · subst hv; simpa [hd'] using h
        · have : (d == v) = false := by simp [Ne.symm hv]
          simpa [List.count_cons, this] using h
      · by_cases hv : v = d
        · subst hv; right; right; exact ⟨h.1, hd', h.2.2⟩
        · have : (d == v) = false := by simp [Ne.symm hv]
          right; left; simpa [List.count_cons, this] using h
      · right; right; exact h

/-- With counters that fit a `u8`, `incDeps` adds the occurrence count, saturating. -/
theorem incDeps_eq (g : Graph) (rc : Nat → Nat) (ds : List Nat) (v : Nat) (h : rc v ≤ 255) :
    incDeps g rc ds v = min (rc v + (if isValue g v then ds.count v else 0)) 255 := by
  rcases incDeps_apply g rc ds v with h' | h' | h' <;> omega

theorem incPlan_eq (g : Graph) (rc rc' : Nat → Nat) (plan : List Nat)
    (h : incPlan g rc plan = some rc') (v : Nat) (hv : rc v ≤ 255) :
    rc' v = min (rc v + (if isValue g v then (depsOf g plan).count v else 0)) 255 := by
  induction plan generalizing rc with
  | nil => simp [incPlan] at h; subst h; simp [depsOf]; omega
  | cons i is ih =>
    simp only [incPlan] at h
    cases hop : getOp g i with
    | none => simp [hop] at h
    | some op =>
      simp only [hop] at h
      have h1 := incDeps_eq g rc (opDeps g op) v hv
      have h2 := ih _ h (by rw [h1]; omega)
      rw [h2, h1]
      simp only [depsOf, List.flatMap_cons, hop, List.count_append]
      by_cases hval : isValue g v = true
      · simp only [hval, if_true]
        have : (List.flatMap (fun i => match getOp g i with | some op => opDeps g op | none => []) is)
            = depsOf g is := rfl
        omega
      · simp [hval]

theorem incPlan_ops (g : Graph) (rc rc' : Nat → Nat) (plan : List Nat)
    (h : incPlan g rc plan = some rc') : ∀ i ∈ plan, ∃ op, getOp g i = some op := by
  induction plan generalizing rc with
  | nil => simp
  | cons i is ih =>
    simp only [incPlan] at h
    cases hop : getOp g i with
    | none => simp [hop] at h
    | some op =>
      simp only [hop] at h
      intro j hj
      rcases List.mem_cons.mp hj with rfl | hj
      · exact ⟨op, hop⟩
      · exact ih _ h j hj

theorem incOuts_eq (rc : Nat → Nat) (outs : List Nat) (v : Nat) (hv : rc v ≤ 255) :
    incOuts rc outs v = min (rc v + outs.count v) 255 := by
  induction outs generalizing rc with
  | nil => simp [incOuts]; omega
  | cons o os ih =>
    simp only [incOuts]
    by_cases h : v = o
    · subst h
      rw [ih _ (by simp [rcInc_eq]; omega)]
      simp only [upd_same, rcInc_eq, List.count_cons_self]; omega
    · have : (o == v) = false := by simp [Ne.symm h]
      rw [ih _ (by simpa [upd_ne _ _ h] using hv)]
      simp [upd_ne _ _ h, List.count_cons, this]

theorem incDepsB_f (g : Graph) (b : RcBox) (ds : List Nat) :
    (incDepsB g b ds).f = incDeps g b.f ds := by
  induction ds generalizing b with
  | nil => rfl
  | cons d ds ih =>
    simp only [incDepsB, incDeps]
    rw [ih]
    split <;> rfl

theorem incPlanB_f (g : Graph) (b : RcBox) (plan : List Nat) :
    (incPlanB g b plan).map (fun x => x.f) = incPlan g b.f plan := by
  induction plan generalizing b with
  | nil => rfl
  | cons i is ih =>
    simp only [incPlanB, incPlan]
    cases getOp g i with
    | none => rfl
    | some op => simp only; rw [ih, incDepsB_f]

theorem incOutsB_f (b : RcBox) (outs : List Nat) : (incOutsB b outs).f = incOuts b.f outs := by
  induction outs generalizing b with
  | nil => rfl
  | cons o os ih => simp only [incOutsB, incOuts]; rw [ih]

/-- The boxed counting phase computes the specification. -/
theorem initRc_spec (g : Graph) (plan outs : List Nat) :
    initRc g plan outs = initRcSpec g plan outs := by
  unfold initRc initRcSpec
  have h := incPlanB_f g ⟨fun _ => 0⟩ plan
  cases hb : incPlanB g ⟨fun _ => 0⟩ plan with
  | none => rw [hb] at h; simp only [Option.map_none] at h; rw [← h]
  | some b =>
    rw [hb] at h; simp only [Option.map_some] at h
    rw [← h]; simp only [incOutsB_f]

/-- **Counting phase.** The initial counter of every id is its number of uses, saturated
at 255. -/
theorem initRc_eq {g : Graph} {plan outs : List Nat} {rc : Nat → Nat}
    (h : initRc g plan outs = some rc) (v : Nat) : rc v = min (uses g plan outs v) 255 := by
  rw [initRc_spec] at h
  unfold initRcSpec at h
  cases hp : incPlan g (fun _ => 0) plan with
  | none => simp [hp] at h
  | some rc1 =>
    simp only [hp, Option.some.injEq] at h
    subst h
    have h1 := incPlan_eq g _ rc1 plan hp v (by simp)
    rw [incOuts_eq _ _ _ (by rw [h1]; omega), h1]
    unfold uses
    omega

theorem initRc_ops {g : Graph} {plan outs : List Nat} {rc : Nat → Nat}
    (h : initRc g plan outs = some rc) : ∀ i ∈ plan, ∃ op, getOp g i = some op := by
  rw [initRc_spec] at h
  unfold initRcSpec at h
  cases hp : incPlan g (fun _ => 0) plan with
  | none => simp [hp] at h
  | some rc1 => exact incPlan_ops g _ rc1 plan hp

/-! ## Decrements -/

/-- `k` decrements of a counter: stuck at 255, floored at 0. -/
def decN (k c : Nat) : Nat := if c = 255 then 255 else c - k

theorem rcDecCount_eq (c : Nat) : rcDecCount c = decN 1 c := rfl

theorem decN_decN (a b c : Nat) (h : c ≤ 255) : decN a (decN b c) = decN (a + b) c := by
  unfold decN
  by_cases hc : c = 255
  · simp [hc]
  · simp only [hc, if_false]
    have : c - b ≠ 255 := by omega
    simp only [this, if_false]; omega

/-- Counters as `u8`. -/
def RcBounded (rc : Nat → Nat) : Prop := ∀ v, rc v ≤ 255

theorem decN_le {k c : Nat} (h : c ≤ 255) : decN k c ≤ 255 := by
  unfold decN; split <;> omega

theorem takeValue_rc {V : Type} (r : Run V) (st : St V) (id : Nat) :
    (takeValue r st id).1.rc = st.rc := by
  unfold takeValue
  split
  · split
    · rfl
    · split
      · split <;> rfl
      · rfl
  · rfl

theorem takeAll_rc {V : Type} (r : Run V) (st st' : St V) (cs : List (Nat × Nat))
    (tk : List (Nat × V)) (h : takeAll r st cs = some (st', tk)) : st'.rc = st.rc := by
  induction cs generalizing st tk with
  | nil => simp [takeAll] at h; rw [← h.1]
  | cons c cs ih =>
    obtain ⟨pos, id⟩ := c
    simp only [takeAll] at h
    have hrc := takeValue_rc r st id
    cases htv : takeValue r st id with
    | mk st1 ov =>
      rw [htv] at h hrc
      cases ov with
      | none => simp at h
      | some v =>
        simp only at h
        cases hta : takeAll r st1 cs with
        | none => simp [hta] at h
        | some p =>
          obtain ⟨st2, tk2⟩ := p
          simp only [hta, Option.some.injEq, Prod.mk.injEq] at h
          obtain ⟨rfl, _⟩ := h
          rw [ih st1 tk2 hta]; exact hrc

theorem takeByValue_rc {V : Type} (r : Run V) (st : St V) (ds : List Nat) :
    (takeByValue r st ds).1.rc = st.rc := by
  induction ds generalizing st with
  | nil => rfl
  | cons d ds ih =>
    simp only [takeByValue]
    have hrc := takeValue_rc r st d
    cases htv : takeValue r st d with
    | mk st1 ov =>
      rw [htv] at hrc
      cases ov with
      | none => simp only; rw [ih st1]; exact hrc
      | some v => simp only; rw [ih st1]; exact hrc

theorem releaseLoop_rc {V : Type} (r : Run V) (st : St V) (ds : List Nat) (v : Nat)
    (hb : st.rc v ≤ 255) : (releaseLoop r st ds).1.rc v = decN (ds.count v) (st.rc v) := by
  induction ds generalizing st with
  | nil => simp [releaseLoop, decN]
  | cons d ds ih =>
    have key : ∀ st1 : St V, st1.rc = upd st.rc d (rcDecCount (st.rc d)) →
        (releaseLoop r st1 ds).1.rc v = decN ((d :: ds).count v) (st.rc v) := by
      intro st1 h1
      by_cases hv : v = d
      · subst hv
        rw [ih st1 (by rw [h1, upd_same, rcDecCount_eq]; exact decN_le hb), h1, upd_same,
          rcDecCount_eq, decN_decN _ _ _ hb, List.count_cons_self]
      · have : (d == v) = false := by simp [Ne.symm hv]
        rw [ih st1 (by rw [h1, upd_ne _ _ hv]; exact hb), h1, upd_ne _ _ hv]
        simp [List.count_cons, this]
    simp only [releaseLoop]
    split
    · split
      · exact key _ rfl
      · exact key _ rfl
    · exact key _ rfl

/-- A completed step leaves every counter decremented once per occurrence of the id among
the operator's dependencies (unless stuck at 255). -/
theorem step_rc {V : Type} (ops : Ops V) (r : Run V) (st st' : St V) (i : Nat) (tr : StepTrace)
    (h : step ops r st i = .ok (st', tr)) (hb : RcBounded st.rc) :
    ∃ op, getOp r.g i = some op ∧
      ∀ v, st'.rc v = decN ((opDeps r.g op).count v) (st.rc v) := by
  unfold step at h
  cases hop : getOp r.g i with
  | none => simp [hop] at h
  | some op =>
    refine ⟨op, rfl, ?_⟩
    simp only [hop] at h
    split at h
    · simp at h
    · rename_i st1 taken htake
      have hrc1 : st1.rc = st.rc := by
        split at htake
        · exact takeAll_rc r st st1 _ taken htake
        · simp only [Option.some.injEq, Prod.mk.injEq] at htake; rw [← htake.1]
      generalize hbv : (if ops.isSubgraph i = true then takeByValue r st1 (capDeps r.g op)
        else (st1, [])) = bvp at h
      obtain ⟨st2, byVal⟩ := bvp
      have hrc2 : st2.rc = st.rc := by
        split at hbv
        · have := takeByValue_rc r st1 (capDeps r.g op)
          rw [hbv] at this; rw [this, hrc1]
        · simp only [Prod.mk.injEq] at hbv; rw [← hbv.1, hrc1]
      simp only at h
      split at h
      · simp at h
      · split at h
        · simp at h
        · split at h
          · simp at h
          · generalize hso : storeOutputs r st2.temps op.outputs _ = sop at h
            obtain ⟨temps3, stored⟩ := sop
            simp only at h
            generalize hrl : releaseLoop r { st2 with temps := temps3 } (opDeps r.g op) = rlp at h
            obtain ⟨st4, released⟩ := rlp
            simp only [Except.ok.injEq, Prod.mk.injEq] at h
            intro v
            have := releaseLoop_rc r { st2 with temps := temps3 } (opDeps r.g op) v
              (by simpa [hrc2] using hb v)
            rw [hrl] at this
            rw [← h.1, this, hrc2]

theorem step_rcBounded {V : Type} (ops : Ops V) (r : Run V) (st st' : St V) (i : Nat)
    (tr : StepTrace) (h : step ops r st i = .ok (st', tr)) (hb : RcBounded st.rc) :
    RcBounded st'.rc := by
  obtain ⟨op, _, hrc⟩ := step_rc ops r st st' i tr h hb
  intro v; rw [hrc v]; exact decN_le (hb v)

/-! ## T1 — the reference-count invariant -/

/-- `rc v` = remaining uses of `v`, unless the total number of uses reached 255, in which
case the counter is stuck at 255 for the whole run. -/
def RcInv (g : Graph) (total : Nat → Nat) (rest outs : List Nat) (rc : Nat → Nat) : Prop :=
  ∀ v, isValue g v = true →
    (rc v = if 255 ≤ total v then 255 else uses g rest outs v) ∧ uses g rest outs v ≤ total v

theorem uses_cons {g : Graph} {i : Nat} {op : OpNode} (hop : getOp g i = some op)
    (rest outs : List Nat) (v : Nat) (hv : isValue g v = true) :
    uses g (i :: rest) outs v = (opDeps g op).count v + uses g rest outs v := by
  simp only [uses, hv, if_true, depsOf, List.flatMap_cons, hop, List.count_append]
  omega

theorem RcInv.step {V : Type} {ops : Ops V} {r : Run V} {st st' : St V} {i : Nat}
    {tr : StepTrace} {total : Nat → Nat} {rest outs : List Nat}
    (h : step ops r st i = .ok (st', tr)) (hb : RcBounded st.rc)
    (hinv : RcInv r.g total (i :: rest) outs st.rc) : RcInv r.g total rest outs st'.rc := by
  obtain ⟨op, hop, hrc⟩ := step_rc ops r st st' i tr h hb
  intro v hv
  obtain ⟨h1, h2⟩ := hinv v hv
  rw [uses_cons hop rest outs v hv] at h1 h2
  refine ⟨?_, by omega⟩
  rw [hrc v, h1]
  by_cases ht : 255 ≤ total v
  · simp [ht, decN]
  · simp only [ht, if_false, decN]
    split <;> omega

end RtenVerif.Executor
