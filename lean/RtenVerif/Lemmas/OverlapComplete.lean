import RtenVerif.Lemmas.Overlap

/-!
Completeness side of C08 (part 1): the sorted "steps over" check is a *dominance chain*
test that does not depend on the sort.

* `Passes m L`     – the `stepsOver` loop started at `max_offset = m` does not report overlap.
* `passes_iff_dominates` – `Passes m L` iff every stride in `L` exceeds `m` plus the total span
  `Σ (size_j - 1) * stride_j` of the entries before it.
* `passes_isort_of_perm` – exchange argument: if ANY ordering of the non-unit, non-empty
  `(stride, size)` pairs passes, the sorted ordering is that same list, hence passes.
* `DomChain dims`  – some ordering of the non-unit dims passes; invariant under `List.Perm`.
-/
namespace RtenVerif.Overlap

/-- `(stride, size)` pairs of the dimensions whose size is not 1, in the original order
(what the code collects before `sort_unstable`). -/
def keys (dims : List (Nat × Nat)) : List (Nat × Nat) :=
  (dims.filter (fun d => d.1 != 1)).map (fun d => (d.2, d.1))

theorem sortedStrideShape_eq (dims : List (Nat × Nat)) :
    sortedStrideShape dims = isort pairLe (keys dims) := rfl

/-- Largest offset reachable along one `(stride, size)` entry. -/
def span (x : Nat × Nat) : Nat := (x.2 - 1) * x.1

def spanSum (L : List (Nat × Nat)) : Nat := (L.map span).sum

@[simp] theorem spanSum_nil : spanSum [] = 0 := rfl
@[simp] theorem spanSum_cons (x : Nat × Nat) (L : List (Nat × Nat)) :
    spanSum (x :: L) = span x + spanSum L := by simp [spanSum]
theorem spanSum_append (A B : List (Nat × Nat)) :
    spanSum (A ++ B) = spanSum A + spanSum B := by simp [spanSum]
theorem spanSum_perm {A B : List (Nat × Nat)} (h : A.Perm B) : spanSum A = spanSum B :=
  (h.map _).sum_nat

/-- The loop over `L` started at `max_offset = m` returns `false` (no overlap reported). -/
def Passes (m : Nat) (L : List (Nat × Nat)) : Prop := (stepsOver m L).isSome = true

theorem passes_nil (m : Nat) : Passes m [] := rfl

theorem passes_cons (m : Nat) (x : Nat × Nat) (L : List (Nat × Nat)) :
    Passes m (x :: L) ↔ m < x.1 ∧ Passes (m + span x) L := by
  obtain ⟨s, n⟩ := x
  simp only [Passes, stepsOver, span]
  by_cases h : s ≤ m
  · simp only [h, if_true, Option.isSome_none]
    constructor
    · intro h'; cases h'
    · intro h'; omega
  · simp only [h, if_false]
    constructor
    · intro h'; exact ⟨by omega, h'⟩
    · intro h'; exact h'.2

/-- Value returned by a passing loop: the start value plus the total span. -/
theorem stepsOver_value : ∀ (L : List (Nat × Nat)) (m r : Nat),
    stepsOver m L = some r → r = m + spanSum L := by
  intro L
  induction L with
  | nil => intro m r h; simp [stepsOver] at h; simp [h]
  | cons x L ih =>
    intro m r h
    obtain ⟨s, n⟩ := x
    simp only [stepsOver] at h
    by_cases hle : s ≤ m
    · simp [hle] at h
    · simp only [hle, if_false] at h
      have := ih _ _ h
      simp only [spanSum_cons, span]
      omega

theorem passes_append (A B : List (Nat × Nat)) (m : Nat) :
    Passes m (A ++ B) ↔ Passes m A ∧ Passes (m + spanSum A) B := by
  induction A generalizing m with
  | nil => simp [passes_nil]
  | cons x A ih =>
    simp only [List.cons_append, passes_cons, ih, spanSum_cons, Nat.add_assoc, and_assoc]

/-- **Dominance-chain reading of the loop**: it passes iff each stride is larger than the
start value plus the total span `Σ (size_j - 1) * stride_j` of all entries before it. -/
theorem passes_iff_dominates (L : List (Nat × Nat)) (m : Nat) :
    Passes m L ↔ ∀ L1 x L2, L = L1 ++ x :: L2 → m + spanSum L1 < x.1 := by
  induction L generalizing m with
  | nil =>
    constructor
    · intro _ L1 x L2 h; cases L1 <;> simp at h
    · intro _; exact passes_nil m
  | cons y L ih =>
    rw [passes_cons, ih]
    constructor
    · rintro ⟨h1, h2⟩ L1 x L2 h
      cases L1 with
      | nil =>
        simp only [List.nil_append, List.cons.injEq] at h
        rw [← h.1]; simpa using h1
      | cons z L1 =>
        simp only [List.cons_append, List.cons.injEq] at h
        have := h2 L1 x L2 h.2
        rw [← h.1, spanSum_cons]; omega
    · intro h
      refine ⟨by simpa using h [] y L rfl, ?_⟩
      intro L1 x L2 hL
      have := h (y :: L1) x L2 (by simp [hL])
      rw [spanSum_cons] at this; omega

/-! ### Domination between entry lists (used for slicing / dropping dimensions) -/

/-- `Dom L L'`: `L'` is obtained from `L` by dropping entries and replacing kept entries by
ones with a stride at least as large and a span at most as large. -/
inductive Dom : List (Nat × Nat) → List (Nat × Nat) → Prop
  | nil : Dom [] []
  | drop {x : Nat × Nat} {L L' : List (Nat × Nat)} : Dom L L' → Dom (x :: L) L'
  | keep {x y : Nat × Nat} {L L' : List (Nat × Nat)} :
      Dom L L' → x.1 ≤ y.1 → span y ≤ span x → Dom (x :: L) (y :: L')

theorem Dom.refl : ∀ (L : List (Nat × Nat)), Dom L L
  | [] => .nil
  | _ :: L => .keep (Dom.refl L) (Nat.le_refl _) (Nat.le_refl _)

theorem Dom.append {A A' B B' : List (Nat × Nat)} (hA : Dom A A') (hB : Dom B B') :
    Dom (A ++ B) (A' ++ B') := by
  induction hA with
  | nil => exact hB
  | drop _ ih => exact .drop ih
  | keep _ h1 h2 ih => exact .keep ih h1 h2

theorem Dom.passes {L L' : List (Nat × Nat)} (h : Dom L L') :
    ∀ {m m' : Nat}, m' ≤ m → Passes m L → Passes m' L' := by
  induction h with
  | nil => intro m m' _ _; exact passes_nil _
  | @drop x L L' _ ih =>
    intro m m' hm hp
    rw [passes_cons] at hp
    exact ih (by omega) hp.2
  | @keep x y L L' _ h1 h2 ih =>
    intro m m' hm hp
    rw [passes_cons] at hp ⊢
    exact ⟨by omega, ih (by omega) hp.2⟩

theorem passes_mono {L : List (Nat × Nat)} {m m' : Nat} (hm : m' ≤ m) (h : Passes m L) :
    Passes m' L := (Dom.refl L).passes hm h

/-! ### A passing list of non-unit, non-empty entries is strictly sorted by stride -/

theorem passes_strict : ∀ (L : List (Nat × Nat)) (m : Nat),
    Passes m L → (∀ x ∈ L, 2 ≤ x.2) →
    (∀ x ∈ L, m < x.1) ∧ L.Pairwise (fun a b => a.1 < b.1) := by
  intro L
  induction L with
  | nil => intro m _ _; exact ⟨by simp, List.Pairwise.nil⟩
  | cons x L ih =>
    intro m hp hs
    rw [passes_cons] at hp
    obtain ⟨h1, h2⟩ := ih _ hp.2 (fun y hy => hs y (List.mem_cons_of_mem _ hy))
    have hx : 2 ≤ x.2 := hs x List.mem_cons_self
    have hspan : x.1 ≤ span x := by
      unfold span
      calc x.1 = 1 * x.1 := (Nat.one_mul _).symm
        _ ≤ (x.2 - 1) * x.1 := Nat.mul_le_mul_right _ (by omega)
    refine ⟨?_, List.pairwise_cons.mpr ⟨?_, h2⟩⟩
    · intro y hy
      rcases List.mem_cons.mp hy with rfl | hy
      · exact hp.1
      · have := h1 y hy; omega
    · intro y hy
      have := h1 y hy; omega

/-! ### `pairLe` is a total order; insertion sort produces the unique sorted permutation -/

theorem pairLe_total (a b : Nat × Nat) : pairLe a b = true ∨ pairLe b a = true := by
  simp only [pairLe, Bool.or_eq_true, Bool.and_eq_true, decide_eq_true_eq, beq_iff_eq]
  omega

theorem pairLe_trans {a b c : Nat × Nat} (h1 : pairLe a b = true) (h2 : pairLe b c = true) :
    pairLe a c = true := by
  simp only [pairLe, Bool.or_eq_true, Bool.and_eq_true, decide_eq_true_eq, beq_iff_eq] at *
  omega

theorem pairLe_antisymm {a b : Nat × Nat} (h1 : pairLe a b = true) (h2 : pairLe b a = true) :
    a = b := by
  simp only [pairLe, Bool.or_eq_true, Bool.and_eq_true, decide_eq_true_eq, beq_iff_eq] at *
  apply Prod.ext <;> omega

theorem pairLe_of_stride_lt {a b : Nat × Nat} (h : a.1 < b.1) : pairLe a b = true := by
  simp [pairLe, h]

theorem insertBy_sorted (x : Nat × Nat) (L : List (Nat × Nat))
    (h : L.Pairwise (fun a b => pairLe a b = true)) :
    (insertBy pairLe x L).Pairwise (fun a b => pairLe a b = true) := by
  induction L with
  | nil => simp [insertBy]
  | cons y ys ih =>
    obtain ⟨hy, hys⟩ := List.pairwise_cons.mp h
    simp only [insertBy]
    split
    · rename_i hxy
      refine List.pairwise_cons.mpr ⟨?_, h⟩
      intro a ha
      rcases List.mem_cons.mp ha with rfl | ha
      · exact hxy
      · exact pairLe_trans hxy (hy a ha)
    · rename_i hxy
      refine List.pairwise_cons.mpr ⟨?_, ih hys⟩
      intro a ha
      have ha' : a ∈ x :: ys := (insertBy_perm pairLe x ys).mem_iff.mp ha
      rcases List.mem_cons.mp ha' with rfl | ha'
      · rcases pairLe_total a y with h' | h'
        · exact absurd h' hxy
        · exact h'
      · exact hy a ha'

theorem isort_sorted (L : List (Nat × Nat)) :
    (isort pairLe L).Pairwise (fun a b => pairLe a b = true) := by
  induction L with
  | nil => exact List.Pairwise.nil
  | cons x xs ih => exact insertBy_sorted x _ ih

/-- **Exchange argument.**  If some ordering `L` of the entries `K` (all sizes ≥ 2) passes the
loop from 0, then `L` is strictly increasing in stride, so it is *the* sorted permutation
of `K`: the code's sort produces exactly `L`. -/
theorem isort_eq_of_passes {L K : List (Nat × Nat)} (hperm : L.Perm K)
    (hs : ∀ x ∈ K, 2 ≤ x.2) (hp : Passes 0 L) : isort pairLe K = L := by
  have hsL : ∀ x ∈ L, 2 ≤ x.2 := fun x hx => hs x (hperm.mem_iff.mp hx)
  have hstrict := (passes_strict L 0 hp hsL).2
  have hsortedL : L.Pairwise (fun a b => pairLe a b = true) :=
    hstrict.imp (fun h => pairLe_of_stride_lt h)
  exact List.Perm.eq_of_pairwise (le := fun a b => pairLe a b = true)
    (fun a b _ _ h1 h2 => pairLe_antisymm h1 h2)
    (isort_sorted K) hsortedL ((isort_perm pairLe K).trans hperm.symm)

theorem passes_isort_of_perm {L K : List (Nat × Nat)} (hperm : L.Perm K)
    (hs : ∀ x ∈ K, 2 ≤ x.2) (hp : Passes 0 L) : Passes 0 (isort pairLe K) := by
  rw [isort_eq_of_passes hperm hs hp]; exact hp

/-! ### Dominance chains of a layout -/

/-- No dimension is empty. -/
def NoZero (dims : List (Nat × Nat)) : Prop := dims.any (fun d => d.1 == 0) = false

instance (dims : List (Nat × Nat)) : Decidable (NoZero dims) := by unfold NoZero; infer_instance

theorem noZero_iff (dims : List (Nat × Nat)) : NoZero dims ↔ ∀ d ∈ dims, d.1 ≠ 0 := by
  simp [NoZero]

/-- The sorted check of the code passes. -/
def StepsOverSorted (dims : List (Nat × Nat)) : Prop := Passes 0 (sortedStrideShape dims)

/-- Some ordering of the non-unit `(stride, size)` pairs passes the loop, i.e. each stride
exceeds the total span of the entries before it (see `passes_iff_dominates`). -/
def DomChain (dims : List (Nat × Nat)) : Prop := ∃ L, L.Perm (keys dims) ∧ Passes 0 L

theorem keys_size_ge_two {dims : List (Nat × Nat)} (hz : NoZero dims) :
    ∀ x ∈ keys dims, 2 ≤ x.2 := by
  intro x hx
  simp only [keys, List.mem_map, List.mem_filter] at hx
  obtain ⟨d, ⟨hd, hne⟩, rfl⟩ := hx
  have h0 := (noZero_iff dims).mp hz d hd
  have h1 : d.1 ≠ 1 := by simpa using hne
  show 2 ≤ d.1
  omega

/-- The code's sorted check passes iff *some* ordering is a dominance chain. -/
theorem stepsOverSorted_iff_domChain {dims : List (Nat × Nat)} (hz : NoZero dims) :
    StepsOverSorted dims ↔ DomChain dims := by
  constructor
  · intro h
    exact ⟨_, isort_perm pairLe (keys dims), h⟩
  · rintro ⟨L, hperm, hp⟩
    exact passes_isort_of_perm hperm (keys_size_ge_two hz) hp

theorem keys_perm {dims dims' : List (Nat × Nat)} (h : dims.Perm dims') :
    (keys dims).Perm (keys dims') := (h.filter _).map _

theorem noZero_perm {dims dims' : List (Nat × Nat)} (h : dims.Perm dims') :
    NoZero dims ↔ NoZero dims' := by
  unfold NoZero; rw [h.any_eq]

theorem domChain_perm {dims dims' : List (Nat × Nat)} (h : dims.Perm dims') :
    DomChain dims ↔ DomChain dims' := by
  constructor
  · rintro ⟨L, hp, hpass⟩; exact ⟨L, hp.trans (keys_perm h), hpass⟩
  · rintro ⟨L, hp, hpass⟩; exact ⟨L, hp.trans (keys_perm h.symm), hpass⟩

end RtenVerif.Overlap
