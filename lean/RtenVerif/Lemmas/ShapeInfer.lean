import RtenVerif.Model.ShapeExec

/-! Helper definitions and lemmas for C10: concrete reference semantics (`exec`) and the
agreement relation between an inferred symbolic tensor and an executed tensor. -/
namespace RtenVerif.ShapeInfer

def evalList (σ : Env) (es : List Sym) : Option (List Int) := mapO (Sym.eval σ) es

/-- "Inference does not contradict execution": an inferred scalar / vector claims rank and every
element, an inferred shape claims rank and every dimension, `unknown` claims nothing. -/
def Agrees (σ : Env) : STn → CT → Prop
  | .unknown, _ => True
  | .scalar e, c => ∃ v, c = .scalar v ∧ e.eval σ = some v
  | .vector es, c => ∃ vs, c = .vector vs ∧ evalList σ es = some vs
  | .shape ds, c => evalList σ ds = some c.dims

/-! ### Reference semantics of element-wise binary operators on rank ≤ 1 integer tensors
(NumPy broadcasting: equal lengths, or one side of length 1). -/

/-- The symbolic element rule `op` is a homomorphism for the concrete element function `f`. -/
def OpHom (σ : Env) (op : Sym → Sym → Option Sym) (f : Int → Int → Option Int) : Prop :=
  ∀ x y r vx vy w, op x y = some r → x.eval σ = some vx → y.eval σ = some vy →
    f vx vy = some w → r.eval σ = some w

/-- `op` is a homomorphism for `f` on operands satisfying `S`. -/
def OpHomOn (σ : Env) (S : Sym → Prop) (op : Sym → Sym → Option Sym) (f : Int → Int → Option Int) : Prop :=
  ∀ x y r vx vy w, S x → S y → op x y = some r → x.eval σ = some vx → y.eval σ = some vy →
    f vx vy = some w → r.eval σ = some w

theorem mapO_left (σ : Env) (op) (f) (h : OpHom σ op f) (x : Sym) (vx : Int) (hx : x.eval σ = some vx) :
    ∀ (rs : List Sym) (vrs : List Int) (out : List Sym) (w : List Int),
      evalList σ rs = some vrs → mapO (fun y => op x y) rs = some out →
      mapO (fun y => f vx y) vrs = some w → evalList σ out = some w := by
  intro rs
  induction rs with
  | nil =>
    intro vrs out w h1 h2 h3
    simp only [evalList, mapO] at h1 h2
    cases h1; cases h2
    simp only [mapO] at h3; cases h3
    rfl
  | cons r rs ih =>
    intro vrs out w h1 h2 h3
    simp only [evalList, mapO] at h1 h2
    cases hr : r.eval σ with
    | none => simp [hr] at h1
    | some vr =>
      simp only [hr] at h1
      cases hrs : mapO (Sym.eval σ) rs with
      | none => simp [hrs] at h1
      | some vrs' =>
        simp only [hrs] at h1; cases h1
        cases ho : op x r with
        | none => simp [ho] at h2
        | some o =>
          simp only [ho] at h2
          cases hos : mapO (fun y => op x y) rs with
          | none => simp [hos] at h2
          | some os =>
            simp only [hos] at h2; cases h2
            simp only [mapO] at h3
            cases hf : f vx vr with
            | none => simp [hf] at h3
            | some fv =>
              simp only [hf] at h3
              cases hfs : mapO (fun y => f vx y) vrs' with
              | none => simp [hfs] at h3
              | some ws =>
                simp only [hfs] at h3; cases h3
                have e1 := h x r o vx vr fv ho hx hr hf
                have e2 := ih vrs' os ws hrs hos hfs
                simp only [evalList] at e2
                simp [evalList, mapO, e1, e2]

theorem evalList_length (σ : Env) : ∀ (es : List Sym) (vs : List Int), evalList σ es = some vs → es.length = vs.length := by
  intro es
  induction es with
  | nil => intro vs h; simp only [evalList, mapO] at h; cases h; rfl
  | cons e es ih =>
    intro vs h
    simp only [evalList, mapO] at h
    cases he : e.eval σ with
    | none => simp [he] at h
    | some v =>
      simp only [he] at h
      cases hes : mapO (Sym.eval σ) es with
      | none => simp [hes] at h
      | some vs' =>
        simp only [hes] at h; cases h
        simp [ih vs' hes]

end RtenVerif.ShapeInfer
