import RtenVerif.Model.LoaderConst
import RtenVerif.Props.C06

/-!
Helper lemmas for C05: the machine arithmetic of the loaders (`checked_mul` folds, `checked_add`,
`/`, `%` on `UInt64`) related to `Nat`, and what an accepted `try_from_data` means (C06).
-/
namespace RtenVerif.LoaderConst
open RtenVerif.TensorBounds RtenVerif.Overlap

/-- What the property asks of a constant a loader accepted: its ideal (unbounded) element count
equals the number of elements of the storage it is paired with, that count fits `isize`, and the
layout/storage pair satisfies C06's `Accepted` invariant (hence every valid index is in bounds). -/
structure WellFormed (shape : List Nat) (len : Nat) : Prop where
  len_eq : prod shape = len
  fits : len ≤ isizeMax
  accepted : Accepted (contigDims shape) len true

/-- Every in-bounds index of a well-formed constant addresses an element of its data. -/
theorem WellFormed.in_bounds {shape : List Nat} {len : Nat} (w : WellFormed shape len)
    {idx : List Nat} (h : ValidIdx (contigDims shape) idx) : offset (contigDims shape) idx < len :=
  c06_T2_in_bounds w.accepted h

/-! ### `try_from_data` -/

theorem M_tryFromData_ok {shape : List U} {len : U} {l : List (U × U)}
    (h : M.tryFromData shape len = .ok l) : WellFormed (M.toNs shape) len.toNat := by
  have h3 := c06_T3_tryFromData shape len
  rw [h] at h3
  have h2 := c06_T2_tryFromData (shape := M.toNs shape) (n := len.toNat) (l := M.toN l) h3.symm
  obtain ⟨hl, hacc, hlen, _⟩ := h2
  rw [hl] at hacc hlen
  rw [len_contig] at hlen
  refine ⟨hlen, ?_, hacc⟩
  have := (c06_T3_accepted_fits hacc).1
  rw [len_contig, hlen] at this
  exact this

theorem tryFromData_ok {shape : List U} {len : U} {s : List Nat} {n : Nat}
    (h : tryFromData shape len = .ok s n) :
    s = M.toNs shape ∧ n = len.toNat ∧ WellFormed s n := by
  unfold tryFromData at h
  split at h
  · next l hl =>
    cases h
    exact ⟨rfl, rfl, M_tryFromData_ok hl⟩
  · cases h

theorem fromData_ok {shape : List U} {len : U} {s : List Nat} {n : Nat}
    (h : fromData shape len = .ok s n) :
    s = M.toNs shape ∧ n = len.toNat ∧ WellFormed s n := by
  unfold fromData at h
  split at h
  · next l hl =>
    cases h
    exact ⟨rfl, rfl, M_tryFromData_ok hl⟩
  · cases h

theorem tryFromData_ne_panic (shape : List U) (len : U) : tryFromData shape len ≠ .panic := by
  unfold tryFromData
  split <;> simp

/-! ### Checked arithmetic -/

theorem checkedMul_some {a b r : U} (h : checkedMul a b = some r) :
    r.toNat = a.toNat * b.toNat := by
  unfold checkedMul at h
  split at h
  · next hlt =>
    cases h
    rw [M.mul_toNat, Nat.mod_eq_of_lt hlt]
  · cases h

theorem checkedAdd_some {a b r : U} (h : checkedAdd a b = some r) :
    r.toNat = a.toNat + b.toNat := by
  unfold checkedAdd at h
  split at h
  · next hlt =>
    cases h
    rw [M.add_toNat, Nat.mod_eq_of_lt hlt]
  · cases h

/-- A successful `try_fold(checked_mul)` computed the ideal product. -/
theorem checkedProd_some {ds : List U} {acc r : U} (h : checkedProd ds acc = some r) :
    r.toNat = acc.toNat * prod (M.toNs ds) := by
  induction ds generalizing acc with
  | nil =>
    simp only [checkedProd] at h
    cases h
    simp [M.toNs, prod]
  | cons d ds ih =>
    simp only [checkedProd] at h
    split at h
    · cases h
    · next a ha =>
      rw [ih h, checkedMul_some ha, M.toNs_cons]
      simp only [prod]
      rw [Nat.mul_assoc]

/-- `iter().product()` in a release build is the wrapping product. -/
theorem prodMode_false (ds : List U) (acc : U) :
    prodMode false ds acc = some (acc * M.prod ds) := by
  induction ds generalizing acc with
  | nil => simp [prodMode, M.prod]
  | cons d ds ih =>
    simp only [prodMode, mulMode]
    simp only [Bool.false_eq_true, false_and, if_false]
    rw [ih]
    simp only [M.prod]
    congr 1
    exact UInt64.mul_assoc acc d (M.prod ds)

/-- If the product of the non-zero dims (times the start value) fits, no prefix product
overflows and the checked fold succeeds. -/
theorem checkedProd_of_prodNZ (ds : List U) (acc : U)
    (h : acc.toNat * prodNZ (M.toNs ds) < wordSize) :
    ∃ r, checkedProd ds acc = some r := by
  induction ds generalizing acc with
  | nil => exact ⟨acc, rfl⟩
  | cons d ds ih =>
    simp only [checkedProd]
    rw [M.toNs_cons] at h
    unfold prodNZ at h
    have hpos := prodNZ_pos (M.toNs ds)
    by_cases hd : d.toNat = 0
    · have hm : checkedMul acc d = some (acc * d) := by
        unfold checkedMul
        rw [hd]; simp; decide
      rw [hm]
      apply ih
      rw [M.mul_toNat, hd]
      simp
      decide
    · simp only [hd, if_false] at h
      have h1 : acc.toNat * d.toNat < wordSize := by
        calc acc.toNat * d.toNat ≤ acc.toNat * (d.toNat * prodNZ (M.toNs ds)) :=
              Nat.mul_le_mul_left _ (Nat.le_mul_of_pos_right _ hpos)
          _ < wordSize := h
      have hm : checkedMul acc d = some (acc * d) := by
        unfold checkedMul; simp [h1]
      rw [hm]
      apply ih
      rw [M.mul_toNat, Nat.mod_eq_of_lt h1, Nat.mul_assoc]
      exact h

/-- A successful checked product from `1` is both the ideal and the wrapping product. -/
theorem checkedProd_one_eq {shape : List U} {n : U} (h : checkedProd shape 1 = some n) :
    n = M.prod shape ∧ n.toNat = prod (M.toNs shape) := by
  have p := checkedProd_some h
  have one : (1 : U).toNat = 1 := rfl
  rw [one, Nat.one_mul] at p
  refine ⟨?_, p⟩
  apply UInt64.toNat_inj.mp
  rw [p, M.prod_toNat, Nat.mod_eq_of_lt]
  rw [← p]; exact M.toNat_lt_W n

theorem div_mul_le_toNat (b s : U) : (b / s).toNat * s.toNat ≤ b.toNat := by
  rw [UInt64.toNat_div]
  exact Nat.div_mul_le_self _ _

/-! ### ONNX shape conversion -/

theorem onnxShape_some {dims : List Int} {s : List U} (h : onnxShape dims = some s)
    (hi : ∀ d ∈ dims, d < 2 ^ 63) :
    (∀ d ∈ dims, 0 ≤ d) ∧ M.toNs s = dims.map Int.toNat := by
  induction dims generalizing s with
  | nil =>
    simp only [onnxShape] at h
    cases h
    exact ⟨by simp, rfl⟩
  | cons d ds ih =>
    simp only [onnxShape] at h
    split at h
    · cases h
    · next hd =>
      split at h
      · cases h
      · next s' hs' =>
        cases h
        have hi' : ∀ d ∈ ds, d < 2 ^ 63 := fun x hx => hi x (List.mem_cons_of_mem _ hx)
        obtain ⟨h1, h2⟩ := ih hs' hi'
        have hd63 : d < 2 ^ 63 := hi d (List.mem_cons_self ..)
        refine ⟨?_, ?_⟩
        · intro x hx
          rcases List.mem_cons.mp hx with rfl | hx
          · omega
          · exact h1 x hx
        · rw [M.toNs_cons, h2, List.map_cons]
          congr 1
          apply UInt64.toNat_ofNat_of_lt'
          show d.toNat < 2 ^ 64
          omega

theorem onnxShape_none_iff_neg {dims : List Int} : onnxShape dims = none ↔ ∃ d ∈ dims, d < 0 := by
  induction dims with
  | nil => simp [onnxShape]
  | cons d ds ih =>
    simp only [onnxShape]
    split
    · next hd => simp; exact Or.inl hd
    · next hd =>
      split
      · next hn =>
        simp only [true_iff]
        obtain ⟨x, hx, hneg⟩ := ih.mp hn
        exact ⟨x, List.mem_cons_of_mem _ hx, hneg⟩
      · next s hs =>
        simp only [false_iff, reduceCtorEq]
        rintro ⟨x, hx, hneg⟩
        rcases List.mem_cons.mp hx with rfl | hx
        · exact hd hneg
        · have := ih.mpr ⟨x, hx, hneg⟩
          rw [hs] at this
          cases this

end RtenVerif.LoaderConst
