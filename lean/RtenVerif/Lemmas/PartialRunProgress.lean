import RtenVerif.Lemmas.PartialRunNoErr
import RtenVerif.Lemmas.PartialRunExec
import RtenVerif.Props.C03
/-!
# Completeness of `run`: if every requested output has a naive value, `run` succeeds

Planning cannot fail (`no_errCause` + `c03_error_cause`), the plan it returns is valid
(`c03_plan_ok`), and on a valid plan the executor finds every dependency, every operator
succeeds (the naive evaluation ran it on the same arguments) and every output can be collected.
-/
namespace RtenVerif.PartialRun
open RtenVerif.Graph RtenVerif.Planner

/-- Every id an operator lists as an output is a value node (true of graphs built from model
files; `Graph::add_op` itself checks nothing). -/
def OutputsAreValues (g : Graph) : Prop :=
  ∀ p op, getOp g p = some op → ∀ o ∈ opOutputs op, getNode g o = some .value

section
variable {V : Type}

theorem gather_total {lk : Nat → Option V} {ds : List Nat} (h : ∀ d ∈ ds, ∃ v, lk d = some v) :
    ∃ args, gather lk ds = some args := by
  induction ds with
  | nil => exact ⟨[], rfl⟩
  | cons d ds ih =>
    obtain ⟨v, hv⟩ := h d List.mem_cons_self
    obtain ⟨vs, hvs⟩ := ih (fun d' hd' => h d' (List.mem_cons_of_mem _ hd'))
    exact ⟨v :: vs, by simp [gather, hv, hvs]⟩

theorem gather_eq {lk lk' : Nat → Option V} :
    ∀ (ds : List Nat) (a a' : List V), gather lk ds = some a → gather lk' ds = some a' →
      (∀ d ∈ ds, ∀ v v', lk d = some v → lk' d = some v' → v = v') → a = a'
  | [], a, a', h, h', _ => by
    simp only [gather] at h h'
    injection h with h; injection h' with h'
    rw [← h, ← h']
  | d :: ds, a, a', h, h', hu => by
    simp only [gather] at h h'
    cases hd : lk d with
    | none => simp [hd] at h
    | some v =>
      cases hg : gather lk ds with
      | none => simp [hd, hg] at h
      | some vs =>
        cases hd' : lk' d with
        | none => simp [hd'] at h'
        | some v' =>
          cases hg' : gather lk' ds with
          | none => simp [hd', hg'] at h'
          | some vs' =>
            simp only [hd, hg] at h
            simp only [hd', hg'] at h'
            injection h with h; injection h' with h'
            rw [← h, ← h', hu d List.mem_cons_self v v' hd hd',
              gather_eq ds vs vs' hg hg' (fun d' hm => hu d' (List.mem_cons_of_mem _ hm))]

theorem zipOuts_key {os : List (Option Nat)} {vs : List V} {k : Nat} (hk : some k ∈ os)
    (hlen : ¬ vs.length < os.length) : k ∈ (zipOuts os vs).map (fun p => p.1) := by
  induction os generalizing vs with
  | nil => cases hk
  | cons o os ih =>
    cases vs with
    | nil => simp at hlen
    | cons w ws =>
      have hlen' : ¬ ws.length < os.length := by simp at hlen ⊢; omega
      cases o with
      | none =>
        simp only [zipOuts]
        rcases List.mem_cons.mp hk with h | h
        · cases h
        · exact ih h hlen'
      | some o =>
        simp only [zipOuts, List.map_cons, List.mem_cons]
        rcases List.mem_cons.mp hk with h | h
        · injection h with h; exact Or.inl h
        · exact Or.inr (ih h hlen')

theorem lookup_filter_ne_eq {l : List (Nat × V)} {o k : Nat} (hk : k ≠ o) :
    (l.filter (fun p => p.1 != o)).lookup k = l.lookup k := by
  induction l with
  | nil => rfl
  | cons a l ih =>
    obtain ⟨k', v'⟩ := a
    by_cases ho : k' = o
    · have hf : List.filter (fun p => p.1 != o) ((k', v') :: l) = l.filter (fun p => p.1 != o) := by
        simp [ho]
      have hkk : (k == k') = false := by
        have : k ≠ k' := by rw [ho]; exact hk
        simpa using this
      rw [hf, ih, List.lookup_cons, hkk]
    · have hf : List.filter (fun p => p.1 != o) ((k', v') :: l) =
          (k', v') :: l.filter (fun p => p.1 != o) := by
        simp [ho]
      rw [hf, List.lookup_cons, List.lookup_cons, ih]

end

section
variable {Ω V : Type}
variable {g : Graph} {sem : Sem Ω V} {ω : Ω} {cv : Nat → V} {W : List (Nat × V)}

/-- `id` can be read by the executor. -/
def Readable (g : Graph) (cv : Nat → V) (W temps : List (Nat × V)) (id : Nat) : Prop :=
  ∃ v, lookupVal g cv W temps id = some v

/-- Everything available after running `pre` is readable. -/
def AvailReadable (g : Graph) (cv : Nat → V) (W temps : List (Nat × V)) (pre : List Nat) : Prop :=
  ∀ d, rContains g (availAfter g (W.map (fun p => p.1)) pre) d = true → Readable g cv W temps d

theorem readable_of_key (hin : ∀ i ∈ W.map (fun p => p.1), isValueOrConstant g i = true)
    {temps : List (Nat × V)} {d : Nat} (hd : d ∈ W.map (fun p => p.1)) : Readable g cv W temps d := by
  have := hin d hd
  unfold isValueOrConstant at this
  unfold Readable lookupVal
  cases hn : getNode g d with
  | none => simp [hn] at this
  | some n =>
    cases n with
    | operator op => simp [hn] at this
    | constant => exact ⟨cv d, rfl⟩
    | value =>
      obtain ⟨v, hv⟩ := lookup_some_of_key hd
      exact ⟨v, by simp [hv]⟩

theorem readable_const {temps : List (Nat × V)} {d : Nat} (h : isConstant g d = true) :
    Readable g cv W temps d := by
  unfold isConstant at h
  unfold Readable lookupVal
  cases hn : getNode g d with
  | none => simp [hn] at h
  | some n => cases n <;> simp [hn] at h ⊢

/-- The executor runs a valid plan to the end when the naive evaluation has a value for every
needed operator. -/
theorem execPlan_progress (hu : UniqueProducer g) (hov : OutputsAreValues g)
    (hin : ∀ i ∈ W.map (fun p => p.1), isValueOrConstant g i = true) :
    ∀ (post pre : List Nat) (temps : List (Nat × V)),
      ValidIds g false (availAfter g (W.map (fun p => p.1)) pre) post →
      (∀ p ∈ post, ∃ f, OpEval g sem ω cv W f p) →
      TempsOK g sem ω cv W W temps → AvailReadable g cv W temps pre →
      ∃ temps', execPlan g sem ω cv (W.map (fun p => p.1)) W post temps = .ok temps' ∧
        TempsOK g sem ω cv W W temps' ∧ AvailReadable g cv W temps' (pre ++ post) := by
  intro post
  induction post with
  | nil =>
    intro pre temps _ _ ht ha
    exact ⟨temps, rfl, ht, by simpa using ha⟩
  | cons i post ih =>
    intro pre temps hvalid hevs ht ha
    obtain ⟨⟨op, hop, hdeps⟩, hvalid'⟩ := hvalid
    -- all dependencies are readable
    have hread : ∀ d ∈ opDeps g op, ∃ v, lookupVal g cv W temps d = some v := by
      intro d hd
      rcases hdeps d hd with h | ⟨h, _⟩
      · exact ha d h
      · cases h
    obtain ⟨args, hargs⟩ := gather_total hread
    -- the naive evaluation ran the operator on the same arguments
    obtain ⟨f, op', args', outs', hop', hg', hsem', hlen'⟩ := hevs i List.mem_cons_self
    rw [hop] at hop'
    injection hop' with hop'
    subst hop'
    have hview : ∀ id v, W.lookup id = some v → W.lookup id = some v := fun _ _ h => h
    have heq : args = args' :=
      gather_eq _ _ _ hargs hg' (fun d _ v v' h1 h2 =>
        (lookupVal_den hview ht h1).unique g sem ω cv W ⟨f, h2⟩)
    subst heq
    have hstep : stepOp g sem ω cv (W.map (fun p => p.1)) W temps i =
        .ok ((zipOuts op.outputs outs').reverse.filter
          (fun p => !(W.map (fun p => p.1)).contains p.1) ++ temps) := by
      simp [stepOp, hop, hargs, hsem', hlen']
    have tie : Tie g sem ω ω W W [i] :=
      ⟨hu, hview, fun _ _ _ _ h => h, fun _ _ _ => rfl⟩
    have ht' := stepOp_sound tie List.mem_cons_self ht hstep
    -- readability after the step
    have ha' : AvailReadable g cv W
        ((zipOuts op.outputs outs').reverse.filter
          (fun p => !(W.map (fun p => p.1)).contains p.1) ++ temps) (pre ++ [i]) := by
      intro d hd
      have hd' : rContains g (availAfter g (W.map (fun p => p.1)) pre) d = true ∨ d ∈ outsOf g i := by
        simp only [rContains, Bool.or_eq_true, List.contains_iff_mem, availAfter, List.mem_append,
          List.flatMap_append, List.flatMap_cons, List.flatMap_nil, List.append_nil] at hd ⊢
        rcases hd with (h | h | h) | h
        · exact Or.inl (Or.inl (Or.inl h))
        · exact Or.inl (Or.inl (Or.inr h))
        · exact Or.inr h
        · exact Or.inl (Or.inr h)
      by_cases hkey : d ∈ W.map (fun p => p.1)
      · exact readable_of_key hin hkey
      · by_cases hc : isConstant g d = true
        · exact readable_const hc
        · have hWl : W.lookup d = none := by
            cases hl : W.lookup d with
            | none => rfl
            | some x => exact absurd (key_of_lookup_some hl) hkey
          rcases hd' with h | h
          · -- readable before: still readable (temps only grow in front for other keys, or same key)
            obtain ⟨v, hv⟩ := ha d h
            unfold Readable
            unfold lookupVal at hv ⊢
            cases hn : getNode g d with
            | none => simp [hn] at hv
            | some n =>
              cases n with
              | operator op => simp [hn] at hv
              | constant => exact ⟨cv d, rfl⟩
              | value =>
                simp only [hn, hWl] at hv ⊢
                rw [lookup_append']
                cases hz : ((zipOuts op.outputs outs').reverse.filter
                    (fun p => !(W.map (fun p => p.1)).contains p.1)).lookup d with
                | some x => exact ⟨x, rfl⟩
                | none => exact ⟨v, hv⟩
          · -- an output of the operator just run
            have hmem : d ∈ opOutputs op := by simpa [outsOf, hop] using h
            have hn : getNode g d = some .value := hov i op hop d hmem
            have hsome : some d ∈ op.outputs := by
              simp only [opOutputs, List.mem_filterMap] at hmem
              obtain ⟨x, hx, hxe⟩ := hmem
              cases x with
              | none => cases hxe
              | some y =>
                have : y = d := by simpa using hxe
                rw [this] at hx; exact hx
            have hk := zipOuts_key (vs := outs') hsome hlen'
            have hk' : d ∈ ((zipOuts op.outputs outs').reverse.filter
                (fun p => !(W.map (fun p => p.1)).contains p.1)).map (fun p => p.1) := by
              obtain ⟨pr, hpr, hpe⟩ := List.mem_map.mp hk
              refine List.mem_map.mpr ⟨pr, List.mem_filter.mpr ⟨List.mem_reverse.mpr hpr, ?_⟩, hpe⟩
              have : ¬ (W.map (fun p => p.1)).contains pr.1 = true := by
                rw [hpe]; intro hcon; exact hkey (List.contains_iff_mem.mp hcon)
              simpa using this
            obtain ⟨x, hx⟩ := lookup_some_of_key hk'
            unfold Readable lookupVal
            simp only [hn, hWl]
            rw [lookup_append', hx]
            exact ⟨x, rfl⟩
    have hvalid'' : ValidIds g false (availAfter g (W.map (fun p => p.1)) (pre ++ [i])) post := by
      simpa [availAfter, List.append_assoc] using hvalid'
    obtain ⟨temps', he, ht'', ha''⟩ := ih (pre ++ [i]) _ hvalid''
      (fun p hp => hevs p (List.mem_cons_of_mem _ hp)) ht' ha'
    refine ⟨temps', ?_, ht'', by simpa [List.append_assoc] using ha''⟩
    simp only [execPlan, hstep]
    exact he

/-- Collecting distinct readable outputs succeeds. -/
theorem collect_progress : ∀ (outs : List Nat) (temps : List (Nat × V)), outs.Nodup →
    (∀ o ∈ outs, Readable g cv W temps o) → ∃ vals, collect g cv W outs temps = .ok vals
  | [], _, _, _ => ⟨[], rfl⟩
  | o :: os, temps, hnd, hr => by
    obtain ⟨hno, hnd'⟩ := List.nodup_cons.mp hnd
    obtain ⟨v, hv⟩ := hr o List.mem_cons_self
    unfold lookupVal at hv
    simp only [collect]
    cases hn : getNode g o with
    | none => simp [hn] at hv
    | some n =>
      cases n with
      | operator op => simp [hn] at hv
      | constant =>
        obtain ⟨vs, hvs⟩ := collect_progress os temps hnd' (fun o' ho' => hr o' (List.mem_cons_of_mem _ ho'))
        exact ⟨cv o :: vs, by simp [hvs]⟩
      | value =>
        simp only [hn] at hv
        cases hl : W.lookup o with
        | some w =>
          obtain ⟨vs, hvs⟩ := collect_progress os temps hnd' (fun o' ho' => hr o' (List.mem_cons_of_mem _ ho'))
          exact ⟨w :: vs, by simp [hvs]⟩
        | none =>
          simp only [hl] at hv
          have hr' : ∀ o' ∈ os, Readable g cv W (temps.filter (fun p => p.1 != o)) o' := by
            intro o' ho'
            have hne : o' ≠ o := fun h => hno (h ▸ ho')
            obtain ⟨v', hv'⟩ := hr o' (List.mem_cons_of_mem _ ho')
            refine ⟨v', ?_⟩
            unfold lookupVal at hv' ⊢
            rw [lookup_filter_ne_eq hne]
            exact hv'
          obtain ⟨vs, hvs⟩ := collect_progress os _ hnd' hr'
          exact ⟨v :: vs, by simp [hv, hvs]⟩

/-- **Completeness of `run`** (no owned inputs): on a well-formed request for which every
requested output has a naive value, `run` succeeds. -/
theorem run_complete (hu : UniqueProducer g) (hov : OutputsAreValues g) {outs : List Nat}
    (hargs : ArgsOK g (W.map (fun p => p.1)) outs)
    (hden : ∀ o ∈ outs, ∃ v, Den g sem ω cv W o v) :
    ∃ vals, run g sem ω cv W [] outs = .ok vals := by
  unfold run
  simp only [List.append_nil]
  cases hc : createPlan g (W.map (fun p => p.1)) outs runOpts with
  | error e =>
    exfalso
    have := c03_error_cause hargs hc
    simp only [runOpts, resolvedNew, Bool.false_eq_true, if_false, List.append_nil] at this
    exact no_errCause hden this
  | ok plan =>
    have hok := c03_plan_ok hargs hc
    simp only [runOpts, resolvedNew, Bool.false_eq_true, if_false, List.append_nil] at hok
    have hevs : ∀ p ∈ plan, ∃ f, OpEval g sem ω cv W f p :=
      fun p hp => needed_opEval hden (hok.minimal p hp)
    have ht0 : TempsOK g sem ω cv W W [] := by intro id v h; simp at h
    have ha0 : AvailReadable g cv W [] [] := by
      intro d hd
      simp only [rContains, availAfter, List.flatMap_nil, List.append_nil, Bool.or_eq_true,
        List.contains_iff_mem] at hd
      rcases hd with h | h
      · exact readable_of_key hargs.2.2.2 h
      · exact readable_const h
    obtain ⟨temps, he, _, ha⟩ := execPlan_progress hu hov hargs.2.2.2
      plan [] [] (by simpa [availAfter] using hok.valid) hevs ht0 ha0
    have hrd : ∀ o ∈ outs, Readable g cv W temps o := by
      intro o ho
      rcases hok.outputs o ho with h | ⟨h, _⟩
      · exact ha o (by simpa using h)
      · cases h
    obtain ⟨vals, hv⟩ := collect_progress outs temps hargs.1 hrd
    refine ⟨vals, ?_⟩
    simp only [runPlan, List.append_nil, List.filter_nil, he]
    exact hv

end

end RtenVerif.PartialRun
