import RtenVerif.Model.Iter

/-!
Generic refinement (simulation) machinery for C07: an iterator implementation
`ops : IterOps σ ι` refines the deque specification `listOps ι` under an abstraction
function `abs : σ → List ι` and an invariant `Inv`.
-/
namespace RtenVerif.Iter

/-- Per-operation commutation of an implementation with the deque specification. -/
structure Refines {σ ι : Type} (ops : IterOps σ ι) (Inv : σ → Prop) (abs : σ → List ι) : Prop where
  next : ∀ s, Inv s → (ops.next s).1 = (abs s).head? ∧ abs (ops.next s).2 = (abs s).tail ∧
    Inv (ops.next s).2
  nextBack : ∀ s, Inv s → (ops.nextBack s).1 = (abs s).getLast? ∧
    abs (ops.nextBack s).2 = (abs s).dropLast ∧ Inv (ops.nextBack s).2
  nth : ∀ s n, Inv s → (ops.nth s n).1 = ((abs s).drop n).head? ∧
    abs (ops.nth s n).2 = (abs s).drop (n + 1) ∧ Inv (ops.nth s n).2
  len : ∀ s, Inv s → ops.len s = (abs s).length
  fold : ∀ s, Inv s → ops.fold s = abs s
  rev : ∀ s, Inv s → ops.rev s = (abs s).reverse
  splitOk : ∀ s k, Inv s → k ≤ (abs s).length →
    ∃ a b, ops.splitAt s k = some (a, b) ∧ abs a = (abs s).take k ∧ abs b = (abs s).drop k ∧
      Inv a ∧ Inv b
  splitPanic : ∀ s k, Inv s → (abs s).length < k → ops.splitAt s k = none

/-- **Simulation theorem**: every history (any interleaving of `next`, `next_back`, `nth`,
`len`, `split_at` with both halves continued, terminated by `fold`, reverse draining or
dropping) observes on the implementation exactly what it observes on the deque. -/
theorem run_refines {σ ι : Type} {ops : IterOps σ ι} {Inv : σ → Prop} {abs : σ → List ι}
    (R : Refines ops Inv abs) : ∀ (h : Hist) (s : σ), Inv s →
    run ops h s = run (listOps ι) h (abs s) := by
  intro h
  induction h with
  | drop => intro s _; rfl
  | fold => intro s hs; simp [run, R.fold s hs, listOps]
  | rev => intro s hs; simp [run, R.rev s hs, listOps]
  | next h ih =>
    intro s hs
    obtain ⟨h1, h2, h3⟩ := R.next s hs
    simp only [run]
    rw [h1, ih _ h3, h2]
    rfl
  | back h ih =>
    intro s hs
    obtain ⟨h1, h2, h3⟩ := R.nextBack s hs
    simp only [run]
    rw [h1, ih _ h3, h2]
    rfl
  | len h ih =>
    intro s hs
    simp only [run]
    rw [R.len s hs, ih _ hs]
    rfl
  | nth k h ih =>
    intro s hs
    obtain ⟨h1, h2, h3⟩ := R.nth s k hs
    simp only [run]
    rw [h1, ih _ h3, h2]
    rfl
  | split k l r ihl ihr =>
    intro s hs
    by_cases hk : k ≤ (abs s).length
    · obtain ⟨a, b, hsp, ha, hb, hia, hib⟩ := R.splitOk s k hs hk
      have hl : (listOps ι).splitAt (abs s) k = some ((abs s).take k, (abs s).drop k) := by
        simp [listOps, hk]
      simp only [run, hsp, hl]
      rw [ihl _ hia, ihr _ hib, ha, hb]
    · have := R.splitPanic s k hs (by omega)
      have hl : (listOps ι).splitAt (abs s) k = none := by
        simp [listOps, hk]
      simp only [run, this, hl]

/-! ### Derived operations (`default nth`, draining) -/

/-- The part of `Refines` that concerns `next` only. -/
def NextOk {σ ι : Type} (next : σ → Option ι × σ) (Inv : σ → Prop) (abs : σ → List ι) : Prop :=
  ∀ s, Inv s → (next s).1 = (abs s).head? ∧ abs (next s).2 = (abs s).tail ∧ Inv (next s).2

theorem drainFront_spec {σ ι : Type} {next : σ → Option ι × σ} {Inv : σ → Prop}
    {abs : σ → List ι} (H : NextOk next Inv abs) :
    ∀ (fuel : Nat) (s : σ), Inv s → (abs s).length ≤ fuel → drainFront next fuel s = abs s := by
  intro fuel
  induction fuel with
  | zero =>
    intro s _ hl
    have : abs s = [] := List.length_eq_zero_iff.mp (by omega)
    simp [drainFront, this]
  | succ f ih =>
    intro s hs hl
    obtain ⟨h1, h2, h3⟩ := H s hs
    cases hab : abs s with
    | nil =>
      rw [hab] at h1
      simp only [List.head?_nil] at h1
      unfold drainFront
      cases hn : next s with
      | mk o s' => rw [hn] at h1; simp only at h1; subst h1; rfl
    | cons x xs =>
      rw [hab] at h1 h2
      simp only [List.head?_cons, List.tail_cons] at h1 h2
      unfold drainFront
      cases hn : next s with
      | mk o s' =>
        rw [hn] at h1 h2 h3
        simp only at h1 h2 h3
        subst h1
        simp only
        rw [ih s' h3 (by rw [h2]; rw [hab] at hl; simp at hl; omega), h2]

/-- `next_back`-only part of `Refines`. -/
def BackOk {σ ι : Type} (nextBack : σ → Option ι × σ) (Inv : σ → Prop) (abs : σ → List ι) : Prop :=
  ∀ s, Inv s → (nextBack s).1 = (abs s).getLast? ∧ abs (nextBack s).2 = (abs s).dropLast ∧
    Inv (nextBack s).2

theorem drainBack_spec {σ ι : Type} {nextBack : σ → Option ι × σ} {Inv : σ → Prop}
    {abs : σ → List ι} (H : BackOk nextBack Inv abs) :
    ∀ (fuel : Nat) (s : σ), Inv s → (abs s).length ≤ fuel →
      drainBack nextBack fuel s = (abs s).reverse := by
  intro fuel s hs hl
  -- view `next_back` as `next` of the reversed abstraction
  have H' : NextOk nextBack Inv (fun s => (abs s).reverse) := by
    intro s hs
    obtain ⟨h1, h2, h3⟩ := H s hs
    refine ⟨by rw [h1, List.head?_reverse], ?_, h3⟩
    simp only
    rw [h2, List.tail_reverse]
  exact drainFront_spec H' fuel s hs (by simpa using hl)

theorem defaultNth_spec {σ ι : Type} {next : σ → Option ι × σ} {Inv : σ → Prop}
    {abs : σ → List ι} (H : NextOk next Inv abs) :
    ∀ (n : Nat) (s : σ), Inv s → (defaultNth next s n).1 = ((abs s).drop n).head? ∧
      abs (defaultNth next s n).2 = (abs s).drop (n + 1) ∧ Inv (defaultNth next s n).2 := by
  intro n
  induction n with
  | zero =>
    intro s hs
    obtain ⟨h1, h2, h3⟩ := H s hs
    refine ⟨by simpa [defaultNth] using h1, ?_, by simpa [defaultNth] using h3⟩
    simp [defaultNth, h2]
  | succ n ih =>
    intro s hs
    obtain ⟨h1, h2, h3⟩ := H s hs
    unfold defaultNth
    cases hn : next s with
    | mk o s' =>
      rw [hn] at h1 h2 h3
      simp only at h1 h2 h3
      cases o with
      | none =>
        have hnil : abs s = [] := by
          cases hab : abs s with
          | nil => rfl
          | cons x xs => rw [hab] at h1; simp at h1
        simp only [hnil, List.drop_nil, List.head?_nil, true_and]
        refine ⟨?_, h3⟩
        rw [h2, hnil]; rfl
      | some x =>
        obtain ⟨i1, i2, i3⟩ := ih s' h3
        simp only
        refine ⟨?_, ?_, i3⟩
        · rw [i1, h2, List.drop_tail]
        · rw [i2, h2, List.drop_tail]

/-! ### Iterators that are not `SplitIterator`s (`Lane`, `LaneMut`) -/

/-- `Refines` without the `split_at` clauses. -/
structure RefinesNS {σ ι : Type} (ops : IterOps σ ι) (Inv : σ → Prop) (abs : σ → List ι) : Prop where
  next : NextOk ops.next Inv abs
  nextBack : BackOk ops.nextBack Inv abs
  nth : ∀ s n, Inv s → (ops.nth s n).1 = ((abs s).drop n).head? ∧
    abs (ops.nth s n).2 = (abs s).drop (n + 1) ∧ Inv (ops.nth s n).2
  len : ∀ s, Inv s → ops.len s = (abs s).length
  fold : ∀ s, Inv s → ops.fold s = abs s
  rev : ∀ s, Inv s → ops.rev s = (abs s).reverse

/-- Simulation for split-free histories. -/
theorem run_refines_ns {σ ι : Type} {ops : IterOps σ ι} {Inv : σ → Prop} {abs : σ → List ι}
    (R : RefinesNS ops Inv abs) : ∀ (h : Hist), h.noSplit = true → ∀ s : σ, Inv s →
    run ops h s = run (listOps ι) h (abs s) := by
  intro h
  induction h with
  | drop => intro _ s _; rfl
  | fold => intro _ s hs; simp [run, R.fold s hs, listOps]
  | rev => intro _ s hs; simp [run, R.rev s hs, listOps]
  | next h ih =>
    intro hn s hs
    obtain ⟨h1, h2, h3⟩ := R.next s hs
    simp only [run]
    rw [h1, ih hn _ h3, h2]
    rfl
  | back h ih =>
    intro hn s hs
    obtain ⟨h1, h2, h3⟩ := R.nextBack s hs
    simp only [run]
    rw [h1, ih hn _ h3, h2]
    rfl
  | len h ih =>
    intro hn s hs
    simp only [run]
    rw [R.len s hs, ih hn _ hs]
    rfl
  | nth k h ih =>
    intro hn s hs
    obtain ⟨h1, h2, h3⟩ := R.nth s k hs
    simp only [run]
    rw [h1, ih hn _ h3, h2]
    rfl
  | split k l r _ _ => intro hn; simp [Hist.noSplit] at hn

end RtenVerif.Iter
