import RtenVerif.Lemmas.ExecutorOrder
/-!
# C02 — order independence of the naive evaluation, and which operators a valid plan holds
-/
namespace RtenVerif.Executor
open RtenVerif.Graph RtenVerif.Planner

theorem naiveStore_same_written {V : Type} (A B : Nat → Option V) (ids : List (Option Nat))
    (vs : List V) (v : Nat) (hlen : ids.length ≤ vs.length) (h : v ∈ ids.filterMap id) :
    naiveStore A ids vs v = naiveStore B ids vs v := by
  obtain ⟨w, hw⟩ := naiveStore_written ids vs v hlen h
  rw [naiveStore_apply A, naiveStore_apply B, hw]

theorem naiveOutputs_congr' {V : Type} {f g : Nat → Option V} (h : ∀ v, f v = g v)
    (l : List Nat) : naiveOutputs f l = naiveOutputs g l := by
  induction l with
  | nil => rfl
  | cons x xs ih => simp only [naiveOutputs, h x, ih]

/-- Running any valid sequence `todo` of entries of `P` after `done`: it succeeds, and the
environment is `EP` restricted to what has been written so far. -/
theorem order_main {V : Type} {ops : Ops V} {r : Run V} {P r0 : List Nat} {EP : Nat → Option V}
    (hP : naiveSteps ops r nocap (fun _ => none) P = .ok EP) (hnd : P.Nodup) (hdisj : Disj r.g P)
    (hvP : ValidIds r.g false r0 P) (hin : ∀ d ∈ r0, r.isInput d = true) :
    ∀ (todo done : List Nat) (E : Nat → Option V), (∀ i ∈ todo, i ∈ P) →
      (∀ v, E v = if v ∈ done.flatMap (outsOf r.g) then EP v else none) →
      ValidIds r.g false (r0 ++ done.flatMap (outsOf r.g)) todo →
      ∃ EQ, naiveSteps ops r nocap E todo = .ok EQ ∧
        ∀ v, EQ v = if v ∈ (done ++ todo).flatMap (outsOf r.g) then EP v else none := by
  intro todo
  induction todo with
  | nil => intro done E _ hinv _; exact ⟨E, rfl, by simpa using hinv⟩
  | cons i is ih =>
    intro done E hmem hinv hvalid
    obtain ⟨⟨op', hop', hav⟩, hvrest⟩ := hvalid
    obtain ⟨Ei, op, vs, hop, hlen, htr, hout⟩ :=
      plan_at hP hnd hdisj hvP hin (hmem i List.mem_cons_self)
    rw [hop] at hop'
    cases hop'
    have hdeps : ∀ d ∈ opDeps r.g op', val r EP d = val r E d := by
      intro d hd
      apply val_of_avail r hin (hav d hd)
      intro v hv
      rw [hinv v, if_pos hv]
    have hstep := htr E hdeps
    simp only [naiveSteps, hstep]
    have hinv' : ∀ v, naiveStore E op'.outputs vs v =
        if v ∈ (done ++ [i]).flatMap (outsOf r.g) then EP v else none := by
      intro v
      by_cases hv : v ∈ outsOf r.g i
      · have hv' : v ∈ op'.outputs.filterMap id := by rw [outsOf_eq hop] at hv; exact hv
        rw [if_pos (by simp [hv]), hout v hv]
        exact naiveStore_same_written E Ei op'.outputs vs v hlen hv'
      · have hv' : v ∉ op'.outputs.filterMap id := by rw [outsOf_eq hop] at hv; exact hv
        rw [naiveStore_other E op'.outputs vs hv', hinv v]
        simp [hv]
    have := ih (done ++ [i]) (naiveStore E op'.outputs vs)
      (fun j hj => hmem j (List.mem_cons_of_mem _ hj)) hinv'
      (by simpa [List.flatMap_append, List.append_assoc] using hvrest)
    simpa [List.append_assoc] using this

/-- **Order independence of the naive evaluation.** -/
theorem evalNaive_order {V : Type} {ops : Ops V} {r : Run V} {P Q r0 outs : List Nat} {vals : List V}
    (hnd : P.Nodup) (hdisj : Disj r.g P) (hvP : ValidIds r.g false r0 P)
    (hvQ : ValidIds r.g false r0 Q) (hin : ∀ d ∈ r0, r.isInput d = true)
    (hsame : ∀ i, i ∈ P ↔ i ∈ Q)
    (h : evalNaive ops r nocap P outs = .ok vals) : evalNaive ops r nocap Q outs = .ok vals := by
  unfold evalNaive at h ⊢
  cases hP : naiveSteps ops r nocap (fun _ => none) P with
  | error e => simp [hP] at h
  | ok EP =>
    simp only [hP] at h
    obtain ⟨EQ, hQ, hEQ⟩ := order_main hP hnd hdisj hvP hin Q [] (fun _ => none)
      (fun i hi => (hsame i).mpr hi) (by simp) (by simpa using hvQ)
    simp only [hQ]
    rw [← h]
    apply naiveOutputs_congr'
    intro v
    show val r EQ v = val r EP v
    have hEP : ∀ v, v ∉ P.flatMap (outsOf r.g) → EP v = none :=
      fun v hv => naiveSteps_other P hP hv
    apply val_congr
    rw [hEQ v]
    simp only [List.nil_append]
    by_cases hv : v ∈ Q.flatMap (outsOf r.g)
    · rw [if_pos hv]
    · rw [if_neg hv]
      symm
      apply hEP
      intro hv'
      apply hv
      rw [List.mem_flatMap] at hv' ⊢
      obtain ⟨j, hj, hvj⟩ := hv'
      exact ⟨j, (hsame j).mp hj, hvj⟩

/-! ## Which operators a `PlanOK` plan contains -/

/-- On a graph with unique producers, a valid complete minimal plan contains exactly the
needed operators; so any two such plans for one request have the same entries. -/
theorem planOK_mem_iff_needed {g : Graph} {r0 outs plan : List Nat} (hu : UniqueProducer g)
    (h : PlanOK g false r0 outs plan) (i : Nat) : i ∈ plan ↔ Needed g r0 outs i := by
  constructor
  · exact h.minimal i
  · intro hn
    -- an available value that is not initially available is written by a plan entry
    have key : ∀ (w : List Nat) (d : Nat), Avail g false (r0 ++ w.flatMap (outsOf g)) d →
        (∀ j ∈ w, j ∈ plan) → rContains g r0 d = false → ∀ p pop, getSource g d = some (p, pop) →
        p ∈ plan := by
      intro w d hav hw hnot p pop hsrc
      rcases hav with hav | hav
      · unfold rContains at hav hnot
        rw [Bool.or_eq_true] at hav
        rw [Bool.or_eq_false_iff] at hnot
        rcases hav with hav | hav
        · rw [List.contains_eq_mem, decide_eq_true_eq, List.mem_append] at hav
          rcases hav with hav | hav
          · have := hnot.1
            rw [List.contains_eq_mem, decide_eq_false_iff_not] at this
            exact absurd hav this
          · rw [List.mem_flatMap] at hav
            obtain ⟨j, hj, hdj⟩ := hav
            unfold outsOf at hdj
            cases hjop : getOp g j with
            | none => rw [hjop] at hdj; simp at hdj
            | some jop =>
              rw [hjop] at hdj
              have hs := hu j jop d hjop hdj
              unfold getSource at hsrc
              rw [hs] at hsrc
              simp only [hjop, Option.some.injEq, Prod.mk.injEq] at hsrc
              rw [← hsrc.1]; exact hw j hj
        · rw [hnot.2] at hav; simp at hav
      · simp at hav
    induction hn with
    | root ho hnot hsrc =>
      exact key plan _ (h.outputs _ ho) (fun j hj => hj) hnot _ _ hsrc
    | step _ hxop hd hnot hsrc ih =>
      obtain ⟨pre, post, hsplit⟩ := List.append_of_mem ih
      obtain ⟨op', hop', hav⟩ := validIds_split h.valid hsplit
      rw [hxop] at hop'
      cases hop'
      refine key pre _ (hav _ hd) ?_ hnot _ _ hsrc
      intro j hj
      rw [hsplit]; exact List.mem_append_left _ hj

end RtenVerif.Executor
