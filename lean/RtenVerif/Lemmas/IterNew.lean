import RtenVerif.Lemmas.IterLayout
import RtenVerif.Lemmas.IterOffsets

/-!
C07 lemmas, part 6: `Offsets::new(layout)` establishes the invariant and its abstraction is
exactly the row-major offset list of the layout (both the `Range` fast path and the
`Indexing` path, which goes through `merge_axes`).
-/
namespace RtenVerif.Iter
open OffsetsBase
open RtenVerif.Overlap (isContiguous contigR isContiguous_eq)

def fss (d : Nat × Nat) : IterPos := IterPos.fromSizeStride d.1 d.2

/-- The innermost-first dims `OffsetsBase::new` iterates over: the reversed merged dims,
padded with `(1, 0)` up to `INNER_NDIM = 2` entries. -/
def pad : List (Nat × Nat) → List (Nat × Nat)
  | [] => [(1, 0), (1, 0)]
  | [a] => [a, (1, 0)]
  | a :: b :: r => a :: b :: r

theorem new_allPos (dims : List (Nat × Nat)) :
    (OffsetsBase.new dims).allPos = (pad (mergeAxes dims).reverse).map fss := by
  simp only [OffsetsBase.new, allPos]
  cases h : (mergeAxes dims).reverse with
  | nil => simp [pad, fss]
  | cons a r =>
    cases r with
    | nil => simp [pad, fss]
    | cons b r => simp [pad, fss]

theorem fss_wf (d : Nat × Nat) : WF (fss d) := by
  simp [WF, fss, IterPos.fromSizeStride, IterPos.index]

theorem enc_fss : ∀ L : List (Nat × Nat), enc (L.map fss) = 0
  | [] => rfl
  | d :: L => by
    simp only [List.map_cons, enc, enc_fss L, Nat.mul_zero, Nat.add_zero]
    simp [fss, IterPos.fromSizeStride, IterPos.index]

theorem sumOff_fss : ∀ L : List (Nat × Nat), sumOff (L.map fss) = 0
  | [] => rfl
  | d :: L => by
    simp only [List.map_cons, sumOff, sumOff_fss L]
    rfl

theorem dimsR_fss : ∀ L : List (Nat × Nat), (∀ d ∈ L, 1 ≤ d.1) → dimsR (L.map fss) = L
  | [], _ => rfl
  | d :: L, h => by
    have h1 := h d (List.mem_cons_self ..)
    have ih := dimsR_fss L (fun x hx => h x (List.mem_cons_of_mem _ hx))
    simp only [dimsR, List.map_cons, List.cons.injEq] at ih ⊢
    refine ⟨?_, ih⟩
    obtain ⟨a, b⟩ := d
    simp only [fss, IterPos.fromSizeStride, IterPos.size, Prod.mk.injEq, and_true]
    simp only at h1
    omega

theorem tot_eq_totD : ∀ ps : List IterPos, tot ps = totD (dimsR ps)
  | [] => rfl
  | p :: ps => by simp only [tot, dimsR, List.map_cons, totD, tot_eq_totD ps]

theorem total_pos_sizes : ∀ L : List (Nat × Nat), total L ≠ 0 → ∀ d ∈ L, 1 ≤ d.1
  | [], _ => by simp
  | x :: L, h => by
    simp only [total] at h
    have hx : x.1 ≠ 0 := fun h0 => h (by rw [h0, Nat.zero_mul])
    have hL : total L ≠ 0 := fun h0 => h (by rw [h0, Nat.mul_zero])
    intro d hd
    rcases List.mem_cons.mp hd with rfl | hd
    · omega
    · exact total_pos_sizes L hL d hd

theorem pad_reverse_rowMajor (M : List (Nat × Nat)) :
    rowMajor (pad M.reverse).reverse = rowMajor M := by
  cases h : M.reverse with
  | nil =>
    have : M = [] := by simpa using h
    subst this
    simp only [pad, List.reverse_cons, List.reverse_nil, List.nil_append, List.cons_append]
    rw [rowMajor_one, rowMajor_one]
  | cons a r =>
    cases r with
    | nil =>
      have : M = [a] := by
        have := congrArg List.reverse h
        simpa using this
      subst this
      simp only [pad, List.reverse_cons, List.reverse_nil, List.nil_append, List.cons_append]
      rw [rowMajor_one]
    | cons b r =>
      simp only [pad]
      rw [← h, List.reverse_reverse]

theorem mem_pad {M : List (Nat × Nat)} (h : ∀ d ∈ M, 1 ≤ d.1) : ∀ d ∈ pad M, 1 ≤ d.1 := by
  intro d hd
  match M, h, hd with
  | [], _, hd => simp [pad] at hd; rcases hd with rfl | rfl <;> simp
  | [a], h, hd =>
    simp [pad] at hd
    rcases hd with rfl | rfl
    · exact h _ (List.mem_cons_self ..)
    · simp
  | a :: b :: r, h, hd => exact h d hd

/-- `OffsetsBase::new` establishes the invariant and abstracts to `rowMajor`. -/
theorem base_new (dims : List (Nat × Nat)) :
    Inv (OffsetsBase.new dims) ∧ absB (OffsetsBase.new dims) = rowMajor dims := by
  have hall := new_allPos dims
  have hlen : (OffsetsBase.new dims).len = total (mergeAxes dims) := rfl
  have hwf : ∀ p ∈ (OffsetsBase.new dims).allPos, WF p := by
    rw [hall]
    intro p hp
    obtain ⟨d, _, rfl⟩ := List.mem_map.mp hp
    exact fss_wf d
  have hinner : (OffsetsBase.new dims).innerOffset =
      (OffsetsBase.new dims).inner0.offset + (OffsetsBase.new dims).inner1.offset := by
    unfold OffsetsBase.new
    simp only
    split <;> split <;> rfl
  have houter : (OffsetsBase.new dims).outerOffset = sumOff (OffsetsBase.new dims).outerRev := by
    show 0 = sumOff (((mergeAxes dims).reverse.drop 2).map fss)
    rw [sumOff_fss]
  have hrm : (rowMajor dims).length = total (mergeAxes dims) := by
    rw [← mergeAxes_rowMajor, rowMajor_length]
  by_cases hz : total (mergeAxes dims) = 0
  · refine ⟨⟨hwf, hinner, houter, fun h => absurd (hlen.trans hz) h⟩, ?_⟩
    unfold absB
    rw [hlen, hz]
    have : rowMajor dims = [] := List.length_eq_zero_iff.mp (by rw [hrm, hz])
    rw [this]; rfl
  · have hsz := total_pos_sizes _ hz
    have hsz' : ∀ d ∈ pad (mergeAxes dims).reverse, 1 ≤ d.1 :=
      mem_pad (fun d hd => hsz d (List.mem_reverse.mp hd))
    have hdims : dimsR (OffsetsBase.new dims).allPos = pad (mergeAxes dims).reverse := by
      rw [hall, dimsR_fss _ hsz']
    have htot : tot (OffsetsBase.new dims).allPos = total (mergeAxes dims) := by
      rw [tot_eq_totD, hdims]
      have := congrArg List.length (map_offR_eq_rowMajor (pad (mergeAxes dims).reverse))
      rw [List.length_map, List.length_range, pad_reverse_rowMajor, rowMajor_length] at this
      exact this
    have henc : enc (OffsetsBase.new dims).allPos = 0 := by rw [hall, enc_fss]
    refine ⟨⟨hwf, hinner, houter, fun _ => by rw [henc, htot, hlen]; omega⟩, ?_⟩
    unfold absB
    rw [henc, hdims, hlen, ← htot, tot_eq_totD, hdims, ← List.range_eq_range',
      map_offR_eq_rowMajor, pad_reverse_rowMajor, mergeAxes_rowMajor]

/-- **`Offsets::new`**: invariant holds and the abstraction is the row-major offset list. -/
theorem offsets_new (dims : List (Nat × Nat)) :
    OffInv (Offsets.new dims) ∧ absO (Offsets.new dims) = rowMajor dims := by
  unfold Offsets.new
  by_cases hc : isContiguous dims = true
  · rw [isContiguous_eq] at hc
    obtain ⟨p, hp⟩ := Option.isSome_iff_exists.mp hc
    obtain ⟨h1, h2⟩ := contig_rowMajor dims p hp
    have hc' : isContiguous dims = true := by rw [isContiguous_eq, hp]; rfl
    simp only [hc', if_true, OffInv, absO, true_and, h2, Nat.sub_zero]
    rw [h1, List.range_eq_range']
  · simp only [hc, Bool.false_eq_true, if_false, OffInv, absO]
    exact base_new dims

end RtenVerif.Iter
