import RtenVerif.Lemmas.IterLayout

/-!
C07 lemmas, part 8: the inner views of `inner_iter(n)` partition the tensor's elements:
concatenating the items' element offsets gives the row-major offset list of the whole layout.
-/
namespace RtenVerif.Iter

theorem rowMajor_append (inner : List (Nat × Nat)) : ∀ outer : List (Nat × Nat),
    rowMajor (outer ++ inner) =
      (rowMajor outer).flatMap (fun o => (rowMajor inner).map (· + o))
  | [] => by
    rw [List.nil_append, rowMajor_nil, List.flatMap_singleton]
    simp
  | (a, b) :: ds => by
    rw [List.cons_append, rowMajor_cons, rowMajor_cons, List.flatMap_assoc]
    apply flatMap_congr'
    intro j _
    rw [rowMajor_append inner ds, List.map_flatMap, List.flatMap_map]
    apply flatMap_congr'
    intro o _
    rw [List.map_map]
    apply List.map_congr_left
    intro x _
    simp only [Function.comp]
    omega

end RtenVerif.Iter
