import RtenVerif.Lemmas.CtcPos

/-! C39 (S4): over `natOps`, as long as no extension with non-zero probability is ever
dropped (`noPrune`), every beam state carries the *exact* prefix-recursion values and the
beam contains every label sequence of positive probability. Core Lean only. -/
namespace RtenVerif.Ctc

/-! ## Selection is complete when nothing has to be dropped -/

theorem foldl_pushExt_complete {α} (ops : Ops α) (B : Nat) (cands : List (Ext α)) :
    ∀ topk : List (Ext α),
      topk.length + (cands.filter (fun e => !ops.isZero e.prob)).length ≤ B →
      ∀ e, (e ∈ topk ∨ (e ∈ cands ∧ ops.isZero e.prob = false)) →
        e ∈ cands.foldl (pushExt ops B) topk := by
  induction cands with
  | nil =>
    intro topk _ e he
    rcases he with h | ⟨h, _⟩
    · exact h
    · cases h
  | cons c cs ih =>
    intro topk hlen e he
    simp only [List.foldl_cons]
    by_cases hz : ops.isZero c.prob = true
    · have hp : pushExt ops B topk c = topk := by unfold pushExt; rw [if_pos hz]
      rw [hp]
      apply ih topk
      · rw [List.filter_cons_of_neg (by simp [hz])] at hlen; exact hlen
      · rcases he with h | ⟨h, hnz⟩
        · exact Or.inl h
        · rcases List.mem_cons.mp h with rfl | h
          · rw [hz] at hnz; cases hnz
          · exact Or.inr ⟨h, hnz⟩
    · have hz' : ops.isZero c.prob = false := by simpa using hz
      rw [List.filter_cons_of_pos (by simp [hz'])] at hlen
      simp only [List.length_cons] at hlen
      have hlt : topk.length < B := by omega
      have hp : pushExt ops B topk c = sortDesc ops (topk ++ [c]) := by
        unfold pushExt
        rw [if_neg hz]
        have : (decide (topk.length < B) || ops.gt c.prob
            ((topk.getLast?.map (·.prob)).getD ops.zero)) = true := by simp [hlt]
        rw [if_pos this]
        apply List.take_of_length_le
        rw [sortDesc_length]; simp; omega
      rw [hp]
      apply ih
      · rw [sortDesc_length]; simp; omega
      · have hmem : ∀ x, x ∈ topk ++ [c] → x ∈ sortDesc ops (topk ++ [c]) :=
          fun x hx => (sortDesc_perm ops (topk ++ [c])).symm.subset hx
        rcases he with h | ⟨h, hnz⟩
        · exact Or.inl (hmem e (by simp [h]))
        · rcases List.mem_cons.mp h with rfl | h
          · exact Or.inl (hmem e (by simp))
          · exact Or.inr ⟨h, hnz⟩

/-! ## The exactness invariant -/

def okSeq (L : Nat) (s : List Nat) : Prop := ∀ m ∈ s, m ≠ 0 ∧ m < L

def tot (d : List (List Nat)) (s : List Nat) : Nat := (dpRev d s).1 + (dpRev d s).2

structure Exact (L : Nat) (d : List (List Nat)) (beam : List (BState Nat)) : Prop where
  ne : beam ≠ []
  dist : Distinct beam
  lr : ∀ st ∈ beam, okSeq L (labels st.pre)
  eq : ∀ st ∈ beam, st.pb = (dpRev d (labels st.pre)).1 ∧ st.pnb = (dpRev d (labels st.pre)).2
  complete : ∀ s, okSeq L s → 0 < tot d s → ∃ st ∈ beam, labels st.pre = s

theorem Exact.inv {L d beam} (h : Exact L d beam) : Inv d beam := by
  intro st hst
  have := h.eq st hst
  exact ⟨Nat.le_of_eq this.1, Nat.le_of_eq this.2⟩

theorem Exact.absent {L d beam} (h : Exact L d beam) (s : List Nat) (hs : okSeq L s)
    (hno : ¬ ∃ st ∈ beam, labels st.pre = s) : (dpRev d s).1 = 0 ∧ (dpRev d s).2 = 0 := by
  have : ¬ 0 < tot d s := fun hp => hno (h.complete s hs hp)
  unfold tot at this
  omega

theorem mem_idx {α : Type} (beam : List α) (st : α) (h : st ∈ beam) : ∃ i : Nat, beam[i]? = some st := by
  obtain ⟨i, hi, he⟩ := List.mem_iff_getElem.mp h
  exact ⟨i, by rw [List.getElem?_eq_getElem hi, he]⟩

theorem ext_value_eq (s : BState Nat) (l p : Nat) :
    (if some l != (s.pre.getLast?).map (·.label) then s.pb * p + s.pnb * p else s.pb * p) =
      p * (s.pb + (if (labels s.pre).getLast? = some l then 0 else s.pnb)) := by
  rw [prev_eq]
  by_cases hc : (labels s.pre).getLast? = some l
  · rw [hc]
    have : (some l != some l) = false := by simp
    rw [this, if_neg (by simp), if_pos rfl, Nat.add_zero, Nat.mul_comm]
  · have : (some l != (labels s.pre).getLast?) = true := by
      simp only [bne_iff_ne, ne_eq]; exact fun h => hc h.symm
    rw [this, if_pos rfl, if_neg hc, ← Nat.add_mul, Nat.mul_comm]

theorem mergeTarget_eq (beam : List (BState Nat)) (hdist : Distinct beam) (p1 : List Step)
    (l i : Nat) (s : BState Nat) (hs : beam[i]? = some s) (he : labels s.pre = labels p1 ++ [l]) :
    mergeTarget beam p1 l = some i := by
  have hsome := mergeTarget_isSome beam p1 l s (List.mem_of_getElem? hs) he
  cases hmt : mergeTarget beam p1 l with
  | none => rw [hmt] at hsome; cases hsome
  | some i' =>
    obtain ⟨s2, hs2, hl2⟩ := mergeTarget_sound beam p1 l i' hmt
    have := distinct_idx beam hdist i' i s2 s hs2 hs (hl2.trans he.symm)
    rw [this]

/-! ## Exact cell values -/

theorem nb_exact (L : Nat) (d : List (List Nat)) (beam : List (BState Nat)) (row : List Nat)
    (hE : Exact L d beam) (i : Nat) (s : BState Nat) (hs : beam[i]? = some s) :
    (extendAll natOps L beam row).nb i 0 = (dpRev (row :: d) (labels s.pre)).1 := by
  apply Nat.le_antisymm (nb_bound L d beam row hE.inv i s hs)
  have h1 := nb_ge L beam row i s hs
  have he := hE.eq s (List.mem_of_getElem? hs)
  rw [dpRev_cons_fst, ← he.1, ← he.2, Nat.mul_comm, Nat.add_mul]
  exact h1

/-- Non-merged extension cell. -/
theorem nnb_ext_exact (L : Nat) (d : List (List Nat)) (beam : List (BState Nat))
    (row : List Nat) (hE : Exact L d beam) (i l : Nat) (hl0 : l ≠ 0) (hlL : l < L)
    (s : BState Nat) (hs : beam[i]? = some s) (hmt : mergeTarget beam s.pre l = none) :
    (extendAll natOps L beam row).nnb i l = (dpRev (row :: d) (labels s.pre ++ [l])).2 ∧
      (dpRev (row :: d) (labels s.pre ++ [l])).1 = 0 := by
  have hmem := List.mem_of_getElem? hs
  have hok : okSeq L (labels s.pre ++ [l]) := by
    intro m hm
    rcases List.mem_append.mp hm with h | h
    · exact hE.lr s hmem m h
    · simp only [List.mem_singleton] at h; subst h; exact ⟨hl0, hlL⟩
  have habs : ¬ ∃ st ∈ beam, labels st.pre = labels s.pre ++ [l] := by
    rintro ⟨st, hst, hlab⟩
    have := mergeTarget_isSome beam s.pre l st hst hlab
    rw [hmt] at this; cases this
  obtain ⟨z1, z2⟩ := hE.absent _ hok habs
  refine ⟨?_, by rw [dpRev_cons_fst, z1, z2]; simp⟩
  apply Nat.le_antisymm (nnb_ext_bound L d beam row hE.inv i l hl0 s hs)
  have hm : (s, i) ∈ beam.zipIdx := List.mem_zipIdx_iff_getElem?.mpr hs
  have hge := cL_le_nnb L beam row i l (s, i) hm l (mem_range'_of (by omega) hlL)
  have hval : cL beam row i s l i l =
      row.getD l 0 * (s.pb + (if (labels s.pre).getLast? = some l then 0 else s.pnb)) := by
    rw [← ext_value_eq s l (row.getD l 0)]
    simp [cL, hmt, hl0]
  have he := hE.eq s hmem
  rw [dpRev_cons_snd_snoc, z2, Nat.zero_add, ← he.1, ← he.2, ← hval]
  exact hge

/-- The "stay" cell. -/
theorem nnb_stay_exact (L : Nat) (d : List (List Nat)) (beam : List (BState Nat))
    (row : List Nat) (hE : Exact L d beam) (i : Nat) (s : BState Nat) (hs : beam[i]? = some s) :
    (extendAll natOps L beam row).nnb i 0 = (dpRev (row :: d) (labels s.pre)).2 := by
  apply Nat.le_antisymm (nnb_stay_bound L d beam row hE.inv hE.dist i s hs)
  have hmem := List.mem_of_getElem? hs
  have hmi : (s, i) ∈ beam.zipIdx := List.mem_zipIdx_iff_getElem?.mpr hs
  rcases List.eq_nil_or_concat (labels s.pre) with hnil | ⟨S', m, hS⟩
  · rw [hnil, dpRev_cons_snd_nil]; exact Nat.zero_le _
  · rw [List.concat_eq_append] at hS
    have hokS := hE.lr s hmem
    have hm : m ≠ 0 ∧ m < L := hokS m (by rw [hS]; simp)
    have hokS' : okSeq L S' := fun x hx => hokS x (by rw [hS]; simp [hx])
    have hmr : m ∈ List.range' 1 (L - 1) := mem_range'_of (by omega) hm.2
    have he := hE.eq s hmem
    -- the repeat contribution of `s` itself
    have hself : cLs row i s m i 0 = row.getD m 0 * (dpRev d (S' ++ [m])).2 := by
      have hb : (some m != (s.pre.getLast?).map (·.label)) = false := by
        rw [prev_eq, hS, List.getLast?_concat]; simp
      have hc : (some m != (s.pre.getLast?).map (·.label)) = false ∧ i = i ∧ (0 : Nat) = 0 :=
        ⟨hb, rfl, rfl⟩
      unfold cLs
      refine (if_pos hc).trans ?_
      rw [he.2, hS, Nat.mul_comm]
    rw [hS, dpRev_cons_snd_snoc]
    by_cases hpar : ∃ st ∈ beam, labels st.pre = S'
    · obtain ⟨sj, hsj, hlj⟩ := hpar
      obtain ⟨j, hj⟩ := mem_idx beam sj hsj
      have hmj : (sj, j) ∈ beam.zipIdx := List.mem_zipIdx_iff_getElem?.mpr hj
      have hmt : mergeTarget beam sj.pre m = some i :=
        mergeTarget_eq beam hE.dist sj.pre m i s hs (by rw [hS, hlj])
      have hej := hE.eq sj hsj
      have hmerge : cLm beam row j sj m i 0 = row.getD m 0 * ((dpRev d S').1 +
          (if S'.getLast? = some m then 0 else (dpRev d S').2)) := by
        have h0 : cLm beam row j sj m i 0 =
            (if some m != (sj.pre.getLast?).map (·.label) then
              sj.pb * row.getD m 0 + sj.pnb * row.getD m 0 else sj.pb * row.getD m 0) := by
          simp [cLm, hmt]
        rw [h0, ext_value_eq sj m _, hlj, hej.1, hej.2, hlj]
      have := parts_le_nnb L beam row i 0 (sj, j) hmj m hmr (s, i) hmi m hmr
      simp only at this
      rw [hmerge, hself] at this
      have harr : row.getD m 0 * ((dpRev d (S' ++ [m])).2 + (dpRev d S').1 +
          (if S'.getLast? = some m then 0 else (dpRev d S').2)) =
          row.getD m 0 * ((dpRev d S').1 + (if S'.getLast? = some m then 0 else (dpRev d S').2)) +
            row.getD m 0 * (dpRev d (S' ++ [m])).2 := by
        simp only [Nat.mul_add]; omega
      rw [harr]; exact this
    · obtain ⟨z1, z2⟩ := hE.absent S' hokS' hpar
      have := parts_le_nnb L beam row i 0 (s, i) hmi m hmr (s, i) hmi m hmr
      simp only at this
      rw [hself] at this
      rw [z1, z2]
      have harr : row.getD m 0 * ((dpRev d (S' ++ [m])).2 + 0 +
          (if S'.getLast? = some m then 0 else 0)) = row.getD m 0 * (dpRev d (S' ++ [m])).2 := by
        simp
      rw [harr]
      omega

/-! ## One step, the loop -/

theorem selectTopk_cases {α} (ops : Ops α) (B : Nat) (cands : List (Ext α)) (e : Ext α)
    (he : e ∈ selectTopk ops B cands) :
    (e.index = 0 ∧ e.label = 0) ∨ e ∈ cands.foldl (pushExt ops B) [] := by
  unfold selectTopk at he
  simp only at he
  split at he
  · simp only [List.mem_singleton] at he
    subst he; exact Or.inl ⟨rfl, rfl⟩
  · exact Or.inr he

theorem mem_selectTopk_of_mem {α} (ops : Ops α) (B : Nat) (cands : List (Ext α)) (e : Ext α)
    (he : e ∈ cands.foldl (pushExt ops B) []) : e ∈ selectTopk ops B cands := by
  unfold selectTopk
  simp only
  split
  · rename_i h
    have := List.isEmpty_iff.mp h
    rw [this] at he; cases he
  · exact he

theorem selectTopk_ne_nil {α} (ops : Ops α) (B : Nat) (cands : List (Ext α)) :
    selectTopk ops B cands ≠ [] := by
  unfold selectTopk
  simp only
  split
  · simp
  · rename_i h
    intro hc; rw [hc] at h; simp at h

theorem beamStep_lr (B L : Nat) (beam : List (BState Nat)) (pos : Nat) (row : List Nat)
    (h : ∀ st ∈ beam, okSeq L (labels st.pre)) :
    ∀ st ∈ beamStep natOps B L beam pos row, okSeq L (labels st.pre) := by
  intro st hst m hm
  unfold beamStep at hst
  simp only [List.mem_map] at hst
  obtain ⟨e, he, rfl⟩ := hst
  have hsel := selectTopk_mem natOps B L beam.length _ e he
  have hold : ∀ m ∈ labels (beam.getD e.index (emptyState natOps)).pre, m ≠ 0 ∧ m < L := by
    intro m hm
    rw [List.getD_eq_getElem?_getD] at hm
    cases hget : beam[e.index]? with
    | some s => rw [hget] at hm; exact h s (List.mem_of_getElem? hget) m hm
    | none => rw [hget] at hm; simp [emptyState, labels] at hm
  unfold mkState at hm
  simp only at hm
  split at hm
  · exact hold m hm
  · rename_i hl
    simp only [labels, List.map_append, List.map_cons, List.map_nil, List.mem_append,
      List.mem_singleton] at hm
    rcases hm with hm | hm
    · exact hold m hm
    · rw [hm]
      rcases hsel with ⟨_, h0⟩ | ⟨_, hlt⟩
      · exact absurd h0 hl
      · exact ⟨hl, hlt⟩

theorem pos_of_mul_pos {a b : Nat} (h : 0 < a * b) : 0 < b := by
  rcases Nat.eq_zero_or_pos b with hb | hb
  · rw [hb, Nat.mul_zero] at h; omega
  · exact hb

theorem beamStep_exact (B L : Nat) (hL : 0 < L) (d : List (List Nat)) (beam : List (BState Nat))
    (pos : Nat) (row : List Nat) (hE : Exact L d beam)
    (hnp : noPruneStep natOps B L beam row = true) :
    Exact L (row :: d) (beamStep natOps B L beam pos row) := by
  have hinv := extendAll_inv natOps L beam row
  -- every candidate with non-zero probability is selected
  have hsel : ∀ e ∈ candidates natOps L beam.length (extendAll natOps L beam row),
      natOps.isZero e.prob = false →
      e ∈ selectTopk natOps B (candidates natOps L beam.length (extendAll natOps L beam row)) := by
    intro e he hz
    apply mem_selectTopk_of_mem
    apply foldl_pushExt_complete natOps B _ []
    · unfold noPruneStep at hnp
      simpa using hnp
    · exact Or.inr ⟨he, hz⟩
  have hhead : ∃ s0, beam[0]? = some s0 := by
    cases hb : beam with
    | nil => exact absurd hb hE.ne
    | cons a l => exact ⟨a, rfl⟩
  refine ⟨?_, beamStep_distinct natOps rfl B L beam pos row hE.dist,
    beamStep_lr B L beam pos row hE.lr, ?_, ?_⟩
  · -- non-empty
    unfold beamStep
    intro hc
    exact selectTopk_ne_nil natOps B _ (List.map_eq_nil_iff.mp hc)
  · -- exact values
    intro st hst
    unfold beamStep at hst
    simp only [List.mem_map] at hst
    obtain ⟨e, he, rfl⟩ := hst
    have hget : ∃ s, beam[e.index]? = some s := by
      rcases selectTopk_mem natOps B L beam.length _ e he with ⟨h0, _⟩ | ⟨h1, _⟩
      · rw [h0]; exact hhead
      · exact ⟨beam[e.index], List.getElem?_eq_getElem h1⟩
    obtain ⟨s, hs⟩ := hget
    rw [mkState_labels natOps beam pos _ e s hs]
    by_cases hl : e.label = 0
    · rw [if_pos hl]
      simp only [mkState, hl]
      exact ⟨nb_exact L d beam row hE e.index s hs, nnb_stay_exact L d beam row hE e.index s hs⟩
    · rw [if_neg hl]
      simp only [mkState]
      rcases selectTopk_cases natOps B _ e he with ⟨_, h0⟩ | hF
      · exact absurd h0 hl
      · obtain ⟨_, q2⟩ := foldl_pushExt_spec natOps B
          (candidates natOps L beam.length (extendAll natOps L beam row)) []
          (by simp) (by simp) (candidates_keys_nodup natOps L beam.length _)
        rcases q2 e hF with hnil | ⟨hc, hnz⟩
        · cases hnil
        · obtain ⟨_, hlt, hprob⟩ := mem_candidates natOps L beam.length _ e hc
          have hnb : (extendAll natOps L beam row).nb e.index e.label = 0 := hinv.1 _ _ hl
          have hmt : mergeTarget beam s.pre e.label = none := by
            cases hm : mergeTarget beam s.pre e.label with
            | none => rfl
            | some ti =>
              exfalso
              have hz := hinv.2 e.index e.label hl ⟨s, hs, by rw [hm]; rfl⟩
              rw [hprob, hnb, hz] at hnz
              simp [natOps] at hnz
          obtain ⟨h1, h2⟩ := nnb_ext_exact L d beam row hE e.index e.label hl hlt s hs hmt
          exact ⟨by rw [hnb, h2], h1⟩
  · -- completeness
    intro s' hok hpos
    by_cases hin : ∃ st ∈ beam, labels st.pre = s'
    · obtain ⟨st, hst, hlab⟩ := hin
      obtain ⟨i, hi⟩ := mem_idx beam st hst
      have hilt : i < beam.length := (List.getElem?_eq_some_iff.mp hi).1
      have hc := mem_candidates_of natOps L beam.length (extendAll natOps L beam row) i 0 hilt hL
      have hv1 := nb_exact L d beam row hE i st hi
      have hv2 := nnb_stay_exact L d beam row hE i st hi
      have hz : natOps.isZero (natOps.add ((extendAll natOps L beam row).nb i 0)
          ((extendAll natOps L beam row).nnb i 0)) = false := by
        rw [hv1, hv2, hlab]
        unfold tot at hpos
        simp only [natOps, beq_eq_false_iff_ne, ne_eq]
        omega
      have hmem := hsel _ hc hz
      refine ⟨_, List.mem_map_of_mem (f := mkState natOps beam pos (extendAll natOps L beam row)) hmem, ?_⟩
      rw [mkState_labels natOps beam pos _ _ st hi]
      simp [hlab]
    · obtain ⟨z1, z2⟩ := hE.absent s' hok hin
      have h1 : (dpRev (row :: d) s').1 = 0 := by rw [dpRev_cons_fst, z1, z2]; simp
      have h2 : 0 < (dpRev (row :: d) s').2 := by unfold tot at hpos; omega
      rcases List.eq_nil_or_concat s' with hnil | ⟨S', m, hS⟩
      · rw [hnil, dpRev_cons_snd_nil] at h2; omega
      · rw [List.concat_eq_append] at hS
        subst hS
        have hm : m ≠ 0 ∧ m < L := hok m (by simp)
        have hokS' : okSeq L S' := fun x hx => hok x (by simp [hx])
        rw [dpRev_cons_snd_snoc, z2, Nat.zero_add] at h2
        have hpar : 0 < tot d S' := by
          have := pos_of_mul_pos h2
          unfold tot
          split at this <;> omega
        obtain ⟨sj, hsj, hlj⟩ := hE.complete S' hokS' hpar
        obtain ⟨j, hj⟩ := mem_idx beam sj hsj
        have hjlt : j < beam.length := (List.getElem?_eq_some_iff.mp hj).1
        have hmt : mergeTarget beam sj.pre m = none := by
          cases hmm : mergeTarget beam sj.pre m with
          | none => rfl
          | some ti =>
            exfalso
            obtain ⟨s2, hs2, hl2⟩ := mergeTarget_sound beam sj.pre m ti hmm
            exact hin ⟨s2, List.mem_of_getElem? hs2, by rw [hl2, hlj]⟩
        obtain ⟨e1, _⟩ := nnb_ext_exact L d beam row hE j m hm.1 hm.2 sj hj hmt
        have hc := mem_candidates_of natOps L beam.length (extendAll natOps L beam row) j m hjlt hm.2
        have hz : natOps.isZero (natOps.add ((extendAll natOps L beam row).nb j m)
            ((extendAll natOps L beam row).nnb j m)) = false := by
          rw [e1, hlj, dpRev_cons_snd_snoc, z2, Nat.zero_add]
          simp only [natOps, beq_eq_false_iff_ne, ne_eq]
          omega
        have hmem := hsel _ hc hz
        refine ⟨_, List.mem_map_of_mem (f := mkState natOps beam pos (extendAll natOps L beam row)) hmem, ?_⟩
        rw [mkState_labels natOps beam pos _ _ sj hj]
        simp [hm.1, hlj]

theorem initBeam_exact (L : Nat) : Exact L [] (initBeam natOps) := by
  refine ⟨by simp [initBeam], initBeam_distinct natOps, ?_, ?_, ?_⟩
  · intro st hst m hm
    simp [initBeam] at hst; subst hst; simp [labels] at hm
  · intro st hst
    simp [initBeam] at hst; subst hst; simp [dpRev, labels, natOps]
  · intro s _ hp
    refine ⟨⟨[], 1, 0⟩, by simp [initBeam, natOps], ?_⟩
    unfold tot dpRev at hp
    by_cases hs : s = []
    · simp [labels, hs]
    · simp [hs] at hp

theorem beamLoop_exact (B L : Nat) (hL : 0 < L) (rows : List (List Nat)) :
    ∀ (beam : List (BState Nat)) (pos : Nat) (d : List (List Nat)),
      Exact L d beam → noPrune natOps B L beam pos rows = true →
      Exact L (rows.reverse ++ d) (beamLoop natOps B L beam pos rows) := by
  induction rows with
  | nil => intro beam pos d h _; simpa [beamLoop] using h
  | cons row rows ih =>
    intro beam pos d h hnp
    simp only [noPrune, Bool.and_eq_true] at hnp
    have := ih (beamStep natOps B L beam pos row) (pos + 1) (row :: d)
      (beamStep_exact B L hL d beam pos row h hnp.1) hnp.2
    simpa [beamLoop, List.reverse_cons, List.append_assoc] using this

end RtenVerif.Ctc
