import RtenVerif.Model.Filter

/-!
Helper lemmas for C31 (model `RtenVerif.Model.Filter`): insertion sort, the top-K update
loop with an explicit list of evicted/skipped candidates, chunk skipping, NaN behaviour,
the `TopP` prefix loop and `Chain`.  Core Lean only.
-/
namespace RtenVerif.Filter

/-! ## Bit-pattern order facts -/

theorem tkey_inj {a b : Nat} (ha : a < 2 ^ 32) (hb : b < 2 ^ 32) (h : tkey a = tkey b) : a = b := by
  unfold tkey at h
  split at h <;> split at h <;> omega

theorem nkey_mono {a b : Nat} (h : tkey a ≤ tkey b) : nkey a ≤ nkey b := by
  unfold tkey at h
  unfold nkey
  split at h <;> split at h <;> simp_all <;> omega

theorem fgt_iff_nkey {a b : Nat} (ha : isNaN a = false) (hb : isNaN b = false) :
    fgt a b = true ↔ nkey b < nkey a := by
  simp [fgt, ha, hb]

/-- Without `-0.0` the IEEE `>` on non-NaN values is the strict total order. -/
theorem fgt_iff_tkey_noNegZero {a b : Nat} (ha : isNaN a = false) (hb : isNaN b = false)
    (za : a ≠ 2 ^ 31) (zb : b ≠ 2 ^ 31) : fgt a b = true ↔ tkey b < tkey a := by
  rw [fgt_iff_nkey ha hb]
  unfold nkey tkey
  split <;> split <;> omega

/-- Without `+0.0` likewise. -/
theorem fgt_iff_tkey_noPosZero {a b : Nat} (ha : isNaN a = false) (hb : isNaN b = false)
    (za : a ≠ 0) (zb : b ≠ 0) : fgt a b = true ↔ tkey b < tkey a := by
  rw [fgt_iff_nkey ha hb]
  unfold nkey tkey
  split <;> split <;> omega

theorem fgt_nan_left {a b : Nat} (h : isNaN a = true) : fgt a b = false := by simp [fgt, h]
theorem fgt_nan_right {a b : Nat} (h : isNaN b = true) : fgt a b = false := by simp [fgt, h]

/-! ## std's `total_cmp` formula on `BitVec 32` -/

theorem xor_two_pow_of_lt {a n : Nat} (h : a < 2 ^ n) : a ^^^ 2 ^ n = 2 ^ n + a := by
  apply Nat.eq_of_testBit_eq
  intro i
  rw [Nat.testBit_xor, Nat.testBit_two_pow]
  rcases Nat.lt_trichotomy i n with hi | hi | hi
  · rw [Nat.testBit_two_pow_add_gt hi]
    have : (n = i) = False := by simp; omega
    simp [this]
  · subst hi
    rw [Nat.testBit_two_pow_add_eq, Nat.testBit_lt_two_pow h]
    simp
  · have h1 : a < 2 ^ i := Nat.lt_trans h (Nat.pow_lt_pow_right (by omega) hi)
    have h2 : 2 ^ n + a < 2 ^ i := by
      have : 2 ^ (n + 1) ≤ 2 ^ i := Nat.pow_le_pow_right (by omega) hi
      rw [Nat.pow_succ] at this
      omega
    rw [Nat.testBit_lt_two_pow h1, Nat.testBit_lt_two_pow h2]
    have : (n = i) = False := by simp; omega
    simp [this]

/-- The key std's `f32::total_cmp` compares (library/core/src/num/f32.rs):
`let mut left = self.to_bits() as i32; left ^= (((left >> 31) as u32) >> 1) as i32;`
— `>>` on `i32` is the arithmetic shift (`sshiftRight`), on `u32` the logical one, the casts
are bit-preserving, and the result is compared as `i32` (`toInt`). -/
def stdKey (x : BitVec 32) : Int := (x ^^^ ((x.sshiftRight 31) >>> 1)).toInt

theorem stdKey_eq_tkey (x : BitVec 32) : stdKey x = tkey x.toNat := by
  have hx := x.isLt
  unfold stdKey tkey
  cases hm : x.msb with
  | false =>
    have hlt : x.toNat < 2 ^ 31 := by
      rw [BitVec.msb_eq_decide] at hm; simpa using hm
    have h0 : x >>> 31 = 0#32 := by
      apply BitVec.eq_of_toNat_eq
      rw [BitVec.toNat_ushiftRight, Nat.shiftRight_eq_div_pow]
      simp; omega
    rw [BitVec.sshiftRight_eq_of_msb_false hm, h0]
    have : (0#32 >>> 1) = 0#32 := by decide
    rw [this, BitVec.xor_zero, BitVec.toInt_eq_msb_cond, hm, if_pos hlt]
    simp
  | true =>
    have hge : 2 ^ 31 ≤ x.toNat := by
      rw [BitVec.msb_eq_decide] at hm; simpa using hm
    have hn : (~~~x).toNat = 2 ^ 32 - 1 - x.toNat := BitVec.toNat_not
    have h0 : (~~~x) >>> 31 = 0#32 := by
      apply BitVec.eq_of_toNat_eq
      rw [BitVec.toNat_ushiftRight, Nat.shiftRight_eq_div_pow, hn]
      simp; omega
    rw [BitVec.sshiftRight_eq_of_msb_true hm, h0]
    have hc : (~~~(0#32) >>> 1) = BitVec.allOnes 32 ^^^ 0x80000000#32 := by decide
    rw [hc, ← BitVec.xor_assoc, BitVec.xor_allOnes]
    have hmsb : (~~~x ^^^ 0x80000000#32).msb = true := by
      rw [BitVec.msb_xor, BitVec.msb_not, hm]; decide
    have hnat : (~~~x ^^^ 0x80000000#32).toNat = 2 ^ 31 + (2 ^ 32 - 1 - x.toNat) := by
      rw [BitVec.toNat_xor, hn]
      have : (0x80000000#32).toNat = 2 ^ 31 := by decide
      rw [this]
      exact xor_two_pow_of_lt (by omega)
    have hnl : ¬ x.toNat < 2 ^ 31 := by omega
    rw [BitVec.toInt_eq_msb_cond, hmsb, hnat, if_pos rfl, if_neg hnl]
    omega

section Generic
variable {α : Type} (key : α → Int) (gt : α → α → Bool) (val : α → Ext)

/-- Sorted descending by `key`. -/
def Desc (l : List α) : Prop := l.Pairwise (fun a b => key b ≤ key a)

/-! ## Insertion sort -/

theorem insDesc_perm (x : α) (l : List α) : (insDesc key x l).Perm (x :: l) := by
  induction l with
  | nil => exact List.Perm.refl _
  | cons y ys ih =>
    unfold insDesc
    split
    · exact ((List.Perm.cons y ih).trans (List.Perm.swap x y ys))
    · exact List.Perm.refl _

theorem sortDesc_perm (l : List α) : (sortDesc key l).Perm l := by
  induction l with
  | nil => exact List.Perm.refl _
  | cons x xs ih =>
    unfold sortDesc
    exact (insDesc_perm key x _).trans (List.Perm.cons x ih)

theorem sortDesc_length (l : List α) : (sortDesc key l).length = l.length :=
  (sortDesc_perm key l).length_eq

theorem mem_sortDesc {a : α} {l : List α} : a ∈ sortDesc key l ↔ a ∈ l :=
  (sortDesc_perm key l).mem_iff

theorem insDesc_desc (x : α) (l : List α) (h : Desc key l) : Desc key (insDesc key x l) := by
  induction l with
  | nil => simp [insDesc, Desc]
  | cons y ys ih =>
    unfold insDesc
    unfold Desc at h ih ⊢
    rw [List.pairwise_cons] at h
    split
    · rename_i hxy
      rw [List.pairwise_cons]
      refine ⟨?_, ih h.2⟩
      intro a ha
      rcases List.mem_cons.mp ((insDesc_perm key x ys).mem_iff.mp ha) with ha' | ha'
      · subst ha'; omega
      · exact h.1 a ha'
    · rename_i hxy
      rw [List.pairwise_cons]
      refine ⟨?_, List.pairwise_cons.mpr h⟩
      intro a ha
      rcases List.mem_cons.mp ha with ha | ha
      · cases ha; omega
      · have := h.1 a ha; omega

theorem sortDesc_desc (l : List α) : Desc key (sortDesc key l) := by
  induction l with
  | nil => simp [sortDesc, Desc]
  | cons x xs ih => exact insDesc_desc key x _ ih

/-- In a descending list the last entry has the least key. -/
theorem desc_last_le {l : List α} {kth : α} (h : Desc key l) (hl : l.getLast? = some kth) :
    ∀ t ∈ l, key kth ≤ key t := by
  obtain ⟨ys, rfl⟩ := List.getLast?_eq_some_iff.mp hl
  unfold Desc at h
  rw [List.pairwise_append] at h
  intro t ht
  rcases List.mem_append.mp ht with ht | ht
  · exact h.2.2 t ht kth (by simp)
  · simp at ht; cases ht; omega

/-! ## `update_topk` -/

theorem updateTopK_length (topk : List α) (x : α) :
    (updateTopK key gt topk x).length = topk.length := by
  unfold updateTopK
  split
  · rfl
  · rename_i kth hl
    split
    · obtain ⟨ys, rfl⟩ := List.getLast?_eq_some_iff.mp hl
      simp [sortDesc_length]
    · rfl

theorem updateTopK_desc (topk : List α) (x : α) (h : Desc key topk) :
    Desc key (updateTopK key gt topk x) := by
  unfold updateTopK
  split
  · exact h
  · split
    · exact sortDesc_desc key _
    · exact h

theorem seqLoop_length (topk rest : List α) :
    (seqLoop key gt topk rest).length = topk.length := by
  induction rest generalizing topk with
  | nil => rfl
  | cons x xs ih =>
    simp only [seqLoop, List.foldl_cons] at ih ⊢
    rw [ih, updateTopK_length]

theorem seqLoop_desc (topk rest : List α) (h : Desc key topk) :
    Desc key (seqLoop key gt topk rest) := by
  induction rest generalizing topk with
  | nil => exact h
  | cons x xs ih =>
    simp only [seqLoop, List.foldl_cons] at ih ⊢
    exact ih _ (updateTopK_desc key gt topk x h)

theorem seqLoop_append (topk a b : List α) :
    seqLoop key gt topk (a ++ b) = seqLoop key gt (seqLoop key gt topk a) b := by
  simp [seqLoop, List.foldl_append]

/-! ## The loop with an explicit record of what was left out -/

/-- `update_topk` on a state `(topk, excluded)`: the candidate that does not make it (the
new one, or the evicted k-th entry) is pushed on `excluded`. -/
def stepX (s : List α × List α) (x : α) : List α × List α :=
  match s.1.getLast? with
  | none => (s.1, x :: s.2)
  | some kth =>
    if gt x kth then (sortDesc key (s.1.dropLast ++ [x]), kth :: s.2) else (s.1, x :: s.2)

def loopX (s : List α × List α) (rest : List α) : List α × List α := rest.foldl (stepX key gt) s

theorem stepX_fst (s : List α × List α) (x : α) : (stepX key gt s x).1 = updateTopK key gt s.1 x := by
  unfold stepX updateTopK
  cases s.1.getLast? with
  | none => rfl
  | some kth => simp only []; split <;> rfl

theorem loopX_fst (s : List α × List α) (rest : List α) :
    (loopX key gt s rest).1 = seqLoop key gt s.1 rest := by
  induction rest generalizing s with
  | nil => rfl
  | cons x xs ih =>
    simp only [loopX, seqLoop, List.foldl_cons] at ih ⊢
    rw [ih, stepX_fst]

theorem stepX_perm (s : List α × List α) (x : α) :
    ((stepX key gt s x).1 ++ (stepX key gt s x).2).Perm (x :: (s.1 ++ s.2)) := by
  unfold stepX
  split
  · exact List.perm_middle
  · rename_i kth hl
    split
    · obtain ⟨ys, hys⟩ := List.getLast?_eq_some_iff.mp hl
      simp only [hys, List.dropLast_concat]
      -- sortDesc (ys ++ [x]) ++ kth :: s.2  ~  x :: ((ys ++ [kth]) ++ s.2)
      refine ((sortDesc_perm key (ys ++ [x])).append (List.Perm.refl _)).trans ?_
      have h1 : (ys ++ [x] ++ kth :: s.2).Perm (x :: (ys ++ kth :: s.2)) := by
        rw [List.append_assoc]
        exact List.perm_middle
      refine h1.trans ?_
      simp
    · exact List.perm_middle

theorem loopX_perm (s : List α × List α) (rest : List α) :
    ((loopX key gt s rest).1 ++ (loopX key gt s rest).2).Perm (s.1 ++ s.2 ++ rest) := by
  induction rest generalizing s with
  | nil => simp [loopX]
  | cons x xs ih =>
    have h := ih (stepX key gt s x)
    simp only [loopX, List.foldl_cons] at h ⊢
    refine h.trans ?_
    refine ((stepX_perm key gt s x).append (List.Perm.refl xs)).trans ?_
    have : (x :: (s.1 ++ s.2) ++ xs) = x :: ((s.1 ++ s.2) ++ xs) := rfl
    rw [this]
    exact List.perm_middle.symm

/-- The invariant of the loop w.r.t. a "numeric" key `nk` on which `gt` is exact for the
candidates satisfying `P`. -/
def Inv (nk : α → Int) (P : α → Prop) (s : List α × List α) : Prop :=
  Desc key s.1 ∧ (∀ t ∈ s.1, P t) ∧ ∀ e ∈ s.2, ∀ t ∈ s.1, nk e ≤ nk t

theorem stepX_inv (nk : α → Int) (P : α → Prop)
    (mono : ∀ a b, key a ≤ key b → nk a ≤ nk b)
    (hgt : ∀ a b, P a → P b → (gt a b = true ↔ nk b < nk a))
    (s : List α × List α) (x : α) (hx : P x) (h : Inv key nk P s) :
    Inv key nk P (stepX key gt s x) := by
  obtain ⟨hd, hP, hle⟩ := h
  unfold stepX
  split
  · rename_i hl
    have : s.1 = [] := List.getLast?_eq_none_iff.mp hl
    refine ⟨hd, hP, ?_⟩
    intro e _ t ht
    simp [this] at ht
  · rename_i kth hl
    have hk : kth ∈ s.1 := List.mem_of_getLast? hl
    have hmin := desc_last_le key hd hl
    split
    · rename_i hg
      have hlt : nk kth < nk x := (hgt x kth hx (hP kth hk)).mp hg
      obtain ⟨ys, hys⟩ := List.getLast?_eq_some_iff.mp hl
      have hsub : ∀ t ∈ ys, t ∈ s.1 := by
        intro t ht; rw [hys]; exact List.mem_append_left _ ht
      simp only [hys, List.dropLast_concat]
      refine ⟨sortDesc_desc key _, ?_, ?_⟩
      · intro t ht
        rcases List.mem_append.mp ((mem_sortDesc key).mp ht) with ht | ht
        · exact hP t (hsub t ht)
        · simp at ht; cases ht; exact hx
      · intro e he t ht
        have ht' := List.mem_append.mp ((mem_sortDesc key).mp ht)
        rcases List.mem_cons.mp he with he | he
        · cases he
          rcases ht' with ht' | ht'
          · exact mono _ _ (hmin t (hsub t ht'))
          · simp at ht'; cases ht'; omega
        · rcases ht' with ht' | ht'
          · exact hle e he t (hsub t ht')
          · simp at ht'; cases ht'
            have := hle e he kth hk
            omega
    · rename_i hg
      have hnlt : ¬ nk kth < nk x := fun h => hg ((hgt x kth hx (hP kth hk)).mpr h)
      refine ⟨hd, hP, ?_⟩
      intro e he t ht
      rcases List.mem_cons.mp he with he | he
      · cases he
        have := mono _ _ (hmin t ht)
        omega
      · exact hle e he t ht

theorem loopX_inv (nk : α → Int) (P : α → Prop)
    (mono : ∀ a b, key a ≤ key b → nk a ≤ nk b)
    (hgt : ∀ a b, P a → P b → (gt a b = true ↔ nk b < nk a))
    (s : List α × List α) (rest : List α) (hr : ∀ x ∈ rest, P x) (h : Inv key nk P s) :
    Inv key nk P (loopX key gt s rest) := by
  induction rest generalizing s with
  | nil => exact h
  | cons x xs ih =>
    simp only [loopX, List.foldl_cons] at ih ⊢
    exact ih _ (fun y hy => hr y (List.mem_cons_of_mem _ hy))
      (stepX_inv key gt nk P mono hgt s x (hr x (List.mem_cons_self)) h)

/-! ## Chunk skipping -/

theorem seqLoop_noGt (topk chunk : List α) (h : anyGt gt topk chunk = false) :
    seqLoop key gt topk chunk = topk := by
  induction chunk with
  | nil => rfl
  | cons x xs ih =>
    unfold anyGt at h ih
    simp only [seqLoop, List.foldl_cons] at ih ⊢
    cases hl : topk.getLast? with
    | none =>
      have hu : updateTopK key gt topk x = topk := by simp [updateTopK, hl]
      rw [hu]; exact ih (by simp [hl])
    | some kth =>
      simp only [hl, List.any_cons, Bool.or_eq_false_iff] at h
      have hu : updateTopK key gt topk x = topk := by simp [updateTopK, hl, h.1]
      rw [hu]; exact ih (by simp [hl, h.2])

theorem chunkLoop_eq (lanes : Nat) (hl : 1 ≤ lanes) (fuel : Nat) (topk rest : List α)
    (hf : rest.length ≤ fuel) : chunkLoop key gt lanes fuel topk rest = seqLoop key gt topk rest := by
  induction fuel generalizing topk rest with
  | zero =>
    have : rest = [] := List.length_eq_zero_iff.mp (by omega)
    subst this; rfl
  | succ n ih =>
    unfold chunkLoop
    split
    · rfl
    · rename_i hlen
      have hdrop : (rest.drop lanes).length ≤ n := by rw [List.length_drop]; omega
      simp only []
      rw [ih _ _ hdrop]
      have hsplit : seqLoop key gt topk rest =
          seqLoop key gt (seqLoop key gt topk (rest.take lanes)) (rest.drop lanes) := by
        rw [← seqLoop_append, List.take_append_drop]
      rw [hsplit]
      by_cases hg : anyGt gt topk (rest.take lanes) = true
      · simp only [hg, if_true]
      · have hg' : anyGt gt topk (rest.take lanes) = false := by simpa using hg
        simp only [hg', Bool.false_eq_true, if_false]
        rw [seqLoop_noGt key gt topk _ hg']

/-! ## `topK` = scalar specification -/

theorem sortDesc_take_nonempty (k : Nat) (xs : List α) (hk : 0 < k) (hn : 0 < xs.length) :
    (sortDesc key (xs.take k)).isEmpty = false := by
  rw [List.isEmpty_eq_false_iff]
  intro h
  have := congrArg List.length h
  rw [sortDesc_length, List.length_take, List.length_nil] at this
  omega

theorem topK_eq_seq (lanes : Nat) (hl : 1 ≤ lanes) (k : Nat) (xs : List α) :
    topK key gt true lanes k xs = some (topKSeq key gt k xs) := by
  unfold topK topKSeq
  by_cases he : xs = []
  · subst he; simp [sortDesc]
  · have hemp : xs.isEmpty = false := by simpa using he
    have hn : 0 < xs.length := List.length_pos_iff.mpr he
    have htake : xs.take (min k xs.length) = xs.take k := by
      rcases Nat.le_total k xs.length with h | h
      · rw [Nat.min_eq_left h]
      · rw [Nat.min_eq_right h, List.take_of_length_le (Nat.le_refl _), List.take_of_length_le h]
    simp only [hemp, Bool.false_eq_true, ↓reduceIte, htake]
    by_cases h1 : k = 0 ∨ xs.length ≤ k
    · have h2 : min k xs.length = 0 ∨ xs.length = min k xs.length := by omega
      rw [if_pos h2, if_pos h1]
    · have hk : min k xs.length = k := by omega
      have h2 : ¬ (k = 0 ∨ xs.length = k) := by omega
      have h3 : ¬ xs.length < k := by omega
      rw [hk, if_neg h2, if_neg h1]
      simp only [sortDesc_take_nonempty key k xs (by omega) hn, Bool.false_eq_true, ↓reduceIte, h3]
      rw [chunkLoop_eq key gt lanes hl _ _ _ (by rw [List.length_drop]; omega)]

/-- The code before the clamp fix: panics exactly when there are fewer than `k` candidates
(and at least one). -/
theorem topK_unclamped_none_iff (lanes k : Nat) (xs : List α) :
    topK key gt false lanes k xs = none ↔ xs ≠ [] ∧ xs.length < k := by
  unfold topK
  by_cases he : xs = []
  · subst he; simp
  · have hemp : xs.isEmpty = false := by simpa using he
    have hn : 0 < xs.length := List.length_pos_iff.mpr he
    simp only [hemp, Bool.false_eq_true, ↓reduceIte]
    by_cases h1 : k = 0 ∨ xs.length = k
    · rw [if_pos h1]
      constructor
      · intro h; cases h
      · intro h; omega
    · rw [if_neg h1]
      simp only [sortDesc_take_nonempty key k xs (by omega) hn, Bool.false_eq_true, ↓reduceIte]
      by_cases h3 : xs.length < k
      · simp [h3, he]
      · simp [h3]

/-- With at least `k` candidates the clamp changes nothing. -/
theorem topK_unclamped_eq (lanes k : Nat) (xs : List α) (h : k ≤ xs.length) :
    topK key gt false lanes k xs = topK key gt true lanes k xs := by
  unfold topK
  simp only [Bool.false_eq_true, ↓reduceIte, Nat.min_eq_left h]

/-! ## NaN behaviour of the loop (`nan` = operands on which `gt` is always false) -/

theorem updateTopK_nan (nan : α → Bool) (hn : ∀ a b, nan a = true → gt a b = false)
    (topk : List α) (x : α) (hx : nan x = true) : updateTopK key gt topk x = topk := by
  unfold updateTopK
  split
  · rfl
  · simp [hn x _ hx]

theorem seqLoop_filter_nan (nan : α → Bool) (hn : ∀ a b, nan a = true → gt a b = false)
    (topk rest : List α) :
    seqLoop key gt topk rest = seqLoop key gt topk (rest.filter (fun x => !nan x)) := by
  induction rest generalizing topk with
  | nil => rfl
  | cons x xs ih =>
    simp only [seqLoop, List.foldl_cons, List.filter_cons] at ih ⊢
    cases hx : nan x with
    | true => simp only [Bool.not_true, Bool.false_eq_true, if_false]
              rw [updateTopK_nan key gt nan hn topk x hx]; exact ih topk
    | false => simp only [Bool.not_false, if_true, List.foldl_cons]; exact ih _

theorem seqLoop_frozen (nan : α → Bool) (hn : ∀ a b, nan b = true → gt a b = false)
    (topk rest : List α) (kth : α) (hl : topk.getLast? = some kth) (hk : nan kth = true) :
    seqLoop key gt topk rest = topk := by
  apply seqLoop_noGt
  unfold anyGt
  simp only [hl]
  rw [List.any_eq_false]
  intro x _
  simp [hn x kth hk]

/-! ## Contract of the scalar specification -/

/-- The candidates `topKSeq` leaves out (ghost definition used to state the contract). -/
def topKExcl (k : Nat) (xs : List α) : List α :=
  if k = 0 ∨ xs.length ≤ k then xs.drop k
  else (loopX key gt (sortDesc key (xs.take k), []) (xs.drop k)).2

theorem topKSeq_length (k : Nat) (xs : List α) :
    (topKSeq key gt k xs).length = min k xs.length := by
  unfold topKSeq
  split
  · rw [sortDesc_length, List.length_take]
  · rw [seqLoop_length, sortDesc_length, List.length_take]

theorem topKSeq_desc (k : Nat) (xs : List α) : Desc key (topKSeq key gt k xs) := by
  unfold topKSeq
  split
  · exact sortDesc_desc key _
  · exact seqLoop_desc key gt _ _ (sortDesc_desc key _)

theorem topKSeq_perm (k : Nat) (xs : List α) :
    (topKSeq key gt k xs ++ topKExcl key gt k xs).Perm xs := by
  unfold topKSeq topKExcl
  split
  · refine ((sortDesc_perm key _).append (List.Perm.refl _)).trans ?_
    rw [List.take_append_drop]
  · have h := loopX_perm key gt (sortDesc key (xs.take k), []) (xs.drop k)
    rw [loopX_fst] at h
    refine h.trans ?_
    simp only [List.append_nil]
    refine ((sortDesc_perm key _).append (List.Perm.refl _)).trans ?_
    rw [List.take_append_drop]

/-- Every left-out candidate is `≤` every kept one w.r.t. any key `nk` that is monotone in
the sort key and on which the float test `gt` is exact for the candidates at hand. -/
theorem topKSeq_largest (nk : α → Int) (P : α → Prop)
    (mono : ∀ a b, key a ≤ key b → nk a ≤ nk b)
    (hgt : ∀ a b, P a → P b → (gt a b = true ↔ nk b < nk a))
    (k : Nat) (xs : List α) (hP : ∀ x ∈ xs, P x) :
    ∀ e ∈ topKExcl key gt k xs, ∀ t ∈ topKSeq key gt k xs, nk e ≤ nk t := by
  unfold topKSeq topKExcl
  split
  · rename_i h
    intro e he t ht
    rcases h with h | h
    · subst h; simp [sortDesc] at ht
    · rw [List.drop_of_length_le h] at he; simp at he
  · have hinv : Inv key nk P (sortDesc key (xs.take k), []) := by
      refine ⟨sortDesc_desc key _, ?_, ?_⟩
      · intro t ht
        exact hP t (List.mem_of_mem_take ((mem_sortDesc key).mp ht))
      · intro e he; simp at he
    have h := loopX_inv key gt nk P mono hgt _ (xs.drop k)
      (fun x hx => hP x (List.mem_of_mem_drop hx)) hinv
    rw [← loopX_fst key gt (sortDesc key (xs.take k), []) (xs.drop k)]
    exact h.2.2

/-- Two descending integer lists with the same elements are equal. -/
theorem desc_perm_eq : ∀ (l₁ l₂ : List Int), l₁.Pairwise (fun a b => b ≤ a) →
    l₂.Pairwise (fun a b => b ≤ a) → l₁.Perm l₂ → l₁ = l₂
  | [], l₂, _, _, hp => (List.Perm.nil_eq hp)
  | a :: l₁, [], _, _, hp => absurd hp.symm.nil_eq (by simp)
  | a :: l₁, b :: l₂, h₁, h₂, hp => by
    rw [List.pairwise_cons] at h₁ h₂
    have hab : a = b := by
      have ha : a ∈ b :: l₂ := hp.mem_iff.mp (List.mem_cons_self)
      have hb : b ∈ a :: l₁ := hp.mem_iff.mpr (List.mem_cons_self)
      rcases List.mem_cons.mp ha with ha | ha
      · exact ha
      · rcases List.mem_cons.mp hb with hb | hb
        · exact hb.symm
        · have := h₁.1 b hb; have := h₂.1 a ha; omega
    subst hab
    rw [desc_perm_eq l₁ l₂ h₁.2 h₂.2 (List.Perm.cons_inv hp)]

/-- A sorted list that is kept + excluded with every excluded key `≤` every kept key has the
keys of the first entries of the fully sorted input. -/
theorem keys_eq_sorted_prefix (out excl xs : List α) (hd : Desc key out)
    (hp : (out ++ excl).Perm xs) (hle : ∀ e ∈ excl, ∀ t ∈ out, key e ≤ key t) :
    out.map key = ((sortDesc key xs).take out.length).map key := by
  have h1 : Desc key (out ++ sortDesc key excl) := by
    unfold Desc
    rw [List.pairwise_append]
    refine ⟨hd, sortDesc_desc key excl, ?_⟩
    intro a ha b hb
    exact hle b ((mem_sortDesc key).mp hb) a ha
  have hp' : (out ++ sortDesc key excl).Perm (sortDesc key xs) :=
    ((List.Perm.refl out).append (sortDesc_perm key excl)).trans (hp.trans (sortDesc_perm key xs).symm)
  have hmap : ∀ l : List α, Desc key l → (l.map key).Pairwise (fun a b => b ≤ a) := by
    intro l hl
    rw [List.pairwise_map]; exact hl
  have heq := desc_perm_eq _ _ (hmap _ h1) (hmap _ (sortDesc_desc key xs)) (hp'.map key)
  have h2 : ((out ++ sortDesc key excl).map key).take out.length = out.map key := by
    rw [List.map_append, List.take_append_of_le_length (by simp)]
    rw [List.take_of_length_le (by simp)]
  rw [List.map_take, ← heq, h2]

/-- Candidates after position `k` on which `gt` is never true (NaNs) are ignored. -/
theorem topKSeq_late_nan (nan : α → Bool) (hn : ∀ a b, nan a = true → gt a b = false)
    (k : Nat) (xs : List α) :
    topKSeq key gt k xs =
      topKSeq key gt k (xs.take k ++ (xs.drop k).filter (fun x => !nan x)) := by
  by_cases h1 : k = 0 ∨ xs.length ≤ k
  · rcases h1 with h | h
    · subst h; simp [topKSeq]
    · rw [List.take_of_length_le h, List.drop_of_length_le h]; simp
  · have hk : (xs.take k).length = k := by rw [List.length_take]; omega
    have htake : (xs.take k ++ (xs.drop k).filter (fun x => !nan x)).take k = xs.take k := by
      rw [List.take_append_of_le_length (by omega), List.take_of_length_le (by omega)]
    have hdrop : (xs.take k ++ (xs.drop k).filter (fun x => !nan x)).drop k =
        (xs.drop k).filter (fun x => !nan x) := by
      rw [List.drop_append_of_le_length (by omega), List.drop_of_length_le (by omega)]
      simp
    unfold topKSeq
    rw [if_neg h1, htake, hdrop, seqLoop_filter_nan key gt nan hn]
    split
    · rename_i h2
      have hnil : (xs.drop k).filter (fun x => !nan x) = [] := by
        apply List.eq_nil_of_length_eq_zero
        rw [List.length_append, hk] at h2
        omega
      rw [hnil]; rfl
    · rfl

/-- If the k-th entry of the initial sorted prefix is a NaN the result is that prefix. -/
theorem topKSeq_frozen (nan : α → Bool) (hn : ∀ a b, nan b = true → gt a b = false)
    (k : Nat) (xs : List α) (kth : α)
    (hl : (sortDesc key (xs.take k)).getLast? = some kth) (hk : nan kth = true) :
    topKSeq key gt k xs = sortDesc key (xs.take k) := by
  unfold topKSeq
  split
  · rfl
  · exact seqLoop_frozen key gt nan hn _ _ kth hl hk

/-! ## `TopP` prefix loop -/

/-- The f32 running sum `((c + v₁) + v₂) + …` in `Ext`. -/
def sumE (c : Ext) (l : List α) : Ext := l.foldl (fun a x => a.add (val x)) c

theorem takeUntil_prefix (thr : Option Int) (c : Ext) (l : List α) :
    takeUntil val thr c l <+: l := by
  induction l generalizing c with
  | nil => simp [takeUntil]
  | cons x xs ih =>
    unfold takeUntil
    split
    · exact (List.prefix_cons_inj x).mpr (ih _)
    · exact List.nil_prefix

theorem takeUntil_ne_nil (thr : Option Int) (c : Ext) (l : List α) (hc : c.lt thr = true)
    (hl : l ≠ []) : takeUntil val thr c l ≠ [] := by
  cases l with
  | nil => exact absurd rfl hl
  | cons x xs => simp [takeUntil, hc]

/-- If the loop stops before the end, `cum < threshold` is false for the kept prefix's sum
(it reached the threshold, or became NaN). -/
theorem takeUntil_reaches (thr : Option Int) (c : Ext) (l : List α)
    (h : (takeUntil val thr c l).length < l.length) :
    (sumE val c (takeUntil val thr c l)).lt thr = false := by
  induction l generalizing c with
  | nil => simp at h
  | cons x xs ih =>
    unfold takeUntil at h ⊢
    cases hc : c.lt thr with
    | true =>
      simp only [hc, if_true, List.length_cons] at h ⊢
      have := ih (c.add (val x)) (by omega)
      simpa [sumE] using this
    | false => simpa [sumE] using hc

/-- For every strictly shorter prefix `cum < threshold` still holds. -/
theorem takeUntil_minimal (thr : Option Int) (c : Ext) (l : List α) (m : Nat)
    (h : m < (takeUntil val thr c l).length) : (sumE val c (l.take m)).lt thr = true := by
  induction l generalizing c m with
  | nil => simp [takeUntil] at h
  | cons x xs ih =>
    unfold takeUntil at h
    cases hc : c.lt thr with
    | true =>
      simp only [hc, if_true, List.length_cons] at h
      cases m with
      | zero => simpa [sumE] using hc
      | succ m' =>
        have := ih (c.add (val x)) m' (by omega)
        simpa [sumE] using this
    | false => simp [hc] at h

/-- On finite values the `Ext` sum is the exact integer sum. -/
theorem sumE_fin (iv : α → Int) (l : List α) (h : ∀ x ∈ l, val x = .fin (iv x)) (c : Int) :
    sumE val (.fin c) l = .fin (c + (l.map iv).sum) := by
  induction l generalizing c with
  | nil => simp [sumE]
  | cons x xs ih =>
    have hx := h x (List.mem_cons_self)
    have := ih (fun y hy => h y (List.mem_cons_of_mem _ hy)) (c + iv x)
    simp only [sumE, List.foldl_cons, hx, Ext.add, List.map_cons, List.sum_cons] at this ⊢
    rw [this]; congr 1; omega

/-! ## `Chain` -/

theorem chain_nil {β : Type} (x : β) : chain ([] : List (β → Option β)) x = some x := rfl

theorem chain_cons {β : Type} (f : β → Option β) (fs : List (β → Option β)) (x : β) :
    chain (f :: fs) x = (f x).bind (chain fs) := by
  simp [chain, List.foldlM_cons]
  rfl

theorem chain_append {β : Type} (fs gs : List (β → Option β)) (x : β) :
    chain (fs ++ gs) x = (chain fs x).bind (chain gs) := by
  induction fs generalizing x with
  | nil => simp [chain_nil]
  | cons f fs ih =>
    rw [List.cons_append, chain_cons, chain_cons]
    cases f x with
    | none => rfl
    | some y => simp [ih]

/-- A chain of total filters is the left fold of the filters. -/
theorem chain_total {β : Type} (gs : List (β → β)) (x : β) :
    chain (gs.map (fun g => fun y => some (g y))) x = some (gs.foldl (fun acc g => g acc) x) := by
  induction gs generalizing x with
  | nil => rfl
  | cons g gs ih => rw [List.map_cons, chain_cons]; simp [ih]

end Generic

end RtenVerif.Filter
