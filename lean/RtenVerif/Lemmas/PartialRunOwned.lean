import RtenVerif.Lemmas.PartialRunProgress
import RtenVerif.Lemmas.PartialRunPlan
/-!
# Owned inputs behave like borrowed ones

`run_plan` moves inputs passed as owned `Value`s into `temp_values` and finds borrowed ones
through `inputs_by_id`.  Since operator outputs are never stored under a supplied id, both are
read back unchanged: `run` / `partial_run` with an owned/borrowed split of the inputs equal the
same call with every input borrowed.  (All theorems of `Props/C04.lean` stated for `owned = []`
therefore hold for every split.)
-/
namespace RtenVerif.PartialRun
open RtenVerif.Graph RtenVerif.Planner

section
variable {V : Type}

theorem lookup_filter_key_eq {l : List (Nat × V)} {q : Nat → Bool} {k : Nat} (hq : q k = true) :
    (l.filter (fun p => q p.1)).lookup k = l.lookup k := by
  induction l with
  | nil => rfl
  | cons a l ih =>
    obtain ⟨k', v'⟩ := a
    by_cases hq' : q k' = true
    · have hf : List.filter (fun p => q p.1) ((k', v') :: l) = (k', v') :: l.filter (fun p => q p.1) := by
        simp [hq']
      rw [hf, List.lookup_cons, List.lookup_cons, ih]
    · have hf : List.filter (fun p => q p.1) ((k', v') :: l) = l.filter (fun p => q p.1) := by
        simp [hq']
      have hk : (k == k') = false := by
        have : k ≠ k' := by intro h; subst h; exact hq' hq
        simpa using this
      rw [hf, ih, List.lookup_cons, hk]

/-- Under distinct requested outputs, output collection is a `gather` of the lookups. -/
theorem collect_eq_gather {g : Graph} {cv : Nat → V} {views : List (Nat × V)} :
    ∀ (outs : List Nat) (temps : List (Nat × V)), outs.Nodup →
      collect g cv views outs temps =
        match gather (lookupVal g cv views temps) outs with
        | some vs => .ok vs
        | none => .error .panic
  | [], _, _ => rfl
  | o :: os, temps, hnd => by
    obtain ⟨hno, hnd'⟩ := List.nodup_cons.mp hnd
    have ih := collect_eq_gather (g := g) (cv := cv) (views := views) os temps hnd'
    simp only [gather]
    cases hn : getNode g o with
    | none =>
      have hlv : lookupVal g cv views temps o = none := by simp [lookupVal, hn]
      simp [collect, hn, hlv]
    | some n =>
      cases n with
      | operator op =>
        have hlv : lookupVal g cv views temps o = none := by simp [lookupVal, hn]
        simp [collect, hn, hlv]
      | constant =>
        have hlv : lookupVal g cv views temps o = some (cv o) := by simp [lookupVal, hn]
        simp only [collect, hn, hlv, ih]
        cases gather (lookupVal g cv views temps) os <;> rfl
      | value =>
        cases hl : views.lookup o with
        | some w =>
          have hlv : lookupVal g cv views temps o = some w := by simp [lookupVal, hn, hl]
          simp only [collect, hn, hl, hlv, ih]
          cases gather (lookupVal g cv views temps) os <;> rfl
        | none =>
          cases ht : temps.lookup o with
          | none =>
            have hlv : lookupVal g cv views temps o = none := by simp [lookupVal, hn, hl, ht]
            simp [collect, hn, hl, ht, hlv]
          | some w =>
            have hlv : lookupVal g cv views temps o = some w := by simp [lookupVal, hn, hl, ht]
            have hcongr : gather (lookupVal g cv views (temps.filter (fun p => p.1 != o))) os =
                gather (lookupVal g cv views temps) os := by
              apply gather_congr
              intro d hd
              have hne : d ≠ o := fun h => hno (h ▸ hd)
              unfold lookupVal
              rw [lookup_filter_ne_eq hne]
            simp only [collect, hn, hl, ht, hlv, collect_eq_gather os _ hnd', hcongr]
            cases gather (lookupVal g cv views temps) os <;> rfl

end

section
variable {Ω V : Type}
variable {g : Graph} {sem : Sem Ω V} {ω : Ω} {cv : Nat → V} {views owned : List (Nat × V)}

/-- The two executions read the same value for every id. -/
def SameReads (g : Graph) (cv : Nat → V) (views owned T₁ T₂ : List (Nat × V)) : Prop :=
  ∀ id, lookupVal g cv views T₁ id = lookupVal g cv (views ++ owned) T₂ id

theorem sameReads_init : SameReads g cv views owned (owned.filter (fun p => !isConstant g p.1)) [] := by
  intro id
  unfold lookupVal
  cases hn : getNode g id with
  | none => rfl
  | some n =>
    cases n with
    | operator op => rfl
    | constant => rfl
    | value =>
      simp only []
      rw [lookup_append']
      cases views.lookup id with
      | some w => rfl
      | none =>
        simp only []
        have hq : (fun k => !isConstant g k) id = true := by simp [isConstant, hn]
        rw [lookup_filter_key_eq (q := fun k => !isConstant g k) hq]
        cases owned.lookup id <;> rfl

theorem sameReads_step {T₁ T₂ new : List (Nat × V)}
    (h : SameReads g cv views owned T₁ T₂)
    (hnew : ∀ k v, new.lookup k = some v → k ∉ (views ++ owned).map (fun p => p.1)) :
    SameReads g cv views owned (new ++ T₁) (new ++ T₂) := by
  intro id
  have := h id
  unfold lookupVal at this ⊢
  cases hn : getNode g id with
  | none => rfl
  | some n =>
    cases n with
    | operator op => rfl
    | constant => rfl
    | value =>
      simp only [hn] at this ⊢
      rw [lookup_append'] at this ⊢
      rw [lookup_append', lookup_append']
      cases hv : views.lookup id with
      | some w => rfl
      | none =>
        simp only [hv] at this ⊢
        cases ho : owned.lookup id with
        | some w =>
          simp only [ho] at this ⊢
          have hkey : id ∈ (views ++ owned).map (fun p => p.1) := by
            rw [List.map_append]
            exact List.mem_append_right _ (key_of_lookup_some ho)
          have : new.lookup id = none := by
            cases hl : new.lookup id with
            | none => rfl
            | some x => exact absurd hkey (hnew id x hl)
          rw [this]
          simpa using ‹T₁.lookup id = some w›
        | none =>
          simp only [ho] at this ⊢
          rw [this]

theorem stepOp_sim {T₁ T₂ : List (Nat × V)} (h : SameReads g cv views owned T₁ T₂) (p : Nat) :
    (∃ e, stepOp g sem ω cv ((views ++ owned).map (fun p => p.1)) views T₁ p = .error e ∧
        stepOp g sem ω cv ((views ++ owned).map (fun p => p.1)) (views ++ owned) T₂ p = .error e) ∨
    (∃ new, (∀ k v, new.lookup k = some v → k ∉ (views ++ owned).map (fun p => p.1)) ∧
        stepOp g sem ω cv ((views ++ owned).map (fun p => p.1)) views T₁ p = .ok (new ++ T₁) ∧
        stepOp g sem ω cv ((views ++ owned).map (fun p => p.1)) (views ++ owned) T₂ p = .ok (new ++ T₂)) := by
  unfold stepOp
  cases hop : getOp g p with
  | none => exact Or.inl ⟨_, rfl, rfl⟩
  | some op =>
    simp only []
    have hg : gather (lookupVal g cv views T₁) (opDeps g op) =
        gather (lookupVal g cv (views ++ owned) T₂) (opDeps g op) :=
      gather_congr (fun d _ => h d)
    rw [← hg]
    cases gather (lookupVal g cv views T₁) (opDeps g op) with
    | none => exact Or.inl ⟨_, rfl, rfl⟩
    | some args =>
      simp only []
      cases sem ω p args with
      | none => exact Or.inl ⟨_, rfl, rfl⟩
      | some outs =>
        simp only []
        by_cases hlen : outs.length < op.outputs.length
        · simp only [hlen, if_true]; exact Or.inl ⟨_, rfl, rfl⟩
        · simp only [hlen, if_false]
          refine Or.inr ⟨_, ?_, rfl, rfl⟩
          intro k v hl hk
          have hm := lookup_mem hl
          simp only [List.mem_filter] at hm
          have h2 := hm.2
          have : ((views ++ owned).map (fun p => p.1)).contains k = true :=
            List.contains_iff_mem.mpr hk
          rw [this] at h2
          cases h2

theorem execPlan_sim : ∀ (plan : List Nat) (T₁ T₂ : List (Nat × V)),
    SameReads g cv views owned T₁ T₂ →
    (∃ e, execPlan g sem ω cv ((views ++ owned).map (fun p => p.1)) views plan T₁ = .error e ∧
        execPlan g sem ω cv ((views ++ owned).map (fun p => p.1)) (views ++ owned) plan T₂ = .error e) ∨
    (∃ T₁' T₂', SameReads g cv views owned T₁' T₂' ∧
        execPlan g sem ω cv ((views ++ owned).map (fun p => p.1)) views plan T₁ = .ok T₁' ∧
        execPlan g sem ω cv ((views ++ owned).map (fun p => p.1)) (views ++ owned) plan T₂ = .ok T₂')
  | [], T₁, T₂, h => Or.inr ⟨T₁, T₂, h, rfl, rfl⟩
  | p :: rest, T₁, T₂, h => by
    simp only [execPlan]
    rcases stepOp_sim (sem := sem) (ω := ω) h p with ⟨e, h1, h2⟩ | ⟨new, hnew, h1, h2⟩
    · rw [h1, h2]; exact Or.inl ⟨e, rfl, rfl⟩
    · rw [h1, h2]
      exact execPlan_sim rest _ _ (sameReads_step h hnew)

/-- **`run_plan` does not distinguish owned from borrowed inputs** (distinct requested outputs). -/
theorem runPlan_owned_eq {plan outs : List Nat} (houts : outs.Nodup) :
    runPlan g sem ω cv views owned plan outs = runPlan g sem ω cv (views ++ owned) [] plan outs := by
  unfold runPlan
  simp only [List.append_nil, List.filter_nil]
  rcases execPlan_sim (sem := sem) (ω := ω) plan _ _ (sameReads_init (g := g) (cv := cv)
      (views := views) (owned := owned)) with ⟨e, h1, h2⟩ | ⟨T₁, T₂, hs, h1, h2⟩
  · rw [h1, h2]
  · rw [h1, h2]
    simp only []
    rw [collect_eq_gather outs T₁ houts, collect_eq_gather outs T₂ houts,
      gather_congr (fun d _ => hs d)]

/-- **`Graph::run`**: any owned/borrowed split of the inputs gives the result of the all-borrowed call. -/
theorem run_owned_eq (outs : List Nat) :
    run g sem ω cv views owned outs = run g sem ω cv (views ++ owned) [] outs := by
  unfold run
  simp only [List.append_nil]
  cases hc : createPlan g ((views ++ owned).map (fun p => p.1)) outs runOpts with
  | error e => rfl
  | ok plan =>
    simp only []
    exact runPlan_owned_eq (argsOK_of_createPlan_ok hc).1

/-- **`Graph::partial_run`**: likewise. -/
theorem partialRun_owned_eq (outs : List Nat) :
    partialRun g sem ω cv views owned outs = partialRun g sem ω cv (views ++ owned) [] outs := by
  unfold partialRun
  simp only [List.append_nil]
  cases hp : partialPlan g ((views ++ owned).map (fun p => p.1)) outs with
  | error e => rfl
  | ok pr =>
    obtain ⟨kept, newOuts⟩ := pr
    simp only []
    have hnd : newOuts.Nodup := by
      obtain ⟨plan, hc, _, rfl⟩ := partialPlan_ok hp
      exact (pruneFold_cand_nodup g plan _ (argsOK_of_createPlan_ok hc).2.2.1).sublist
        List.filter_sublist
    rw [runPlan_owned_eq hnd]

end

end RtenVerif.PartialRun
