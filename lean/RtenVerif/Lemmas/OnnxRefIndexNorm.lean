import RtenVerif.Lemmas.OnnxRefReduce
/-! Index / axis normalisation (Gather family, axes attributes), NonZero order, reduce with explicit axes. -/
namespace RtenVerif.OnnxRef

/-- IN1. `normIndex dim i` accepts exactly `-dim ≤ i < dim` and returns `i` or `i + dim` — the unique
`k < dim` with `k ≡ i (mod dim)`; this is the index rule of Gather / GatherElements / GatherND /
Scatter*. -/
theorem normIndex_spec (dim : Nat) (i : Int) (k : Nat) :
    normIndex dim i = some k ↔
      (-(dim : Int) ≤ i ∧ i < dim ∧ (k : Int) = if i < 0 then i + dim else i) := by
  unfold normIndex
  constructor
  · intro h
    split at h
    · next h0 =>
      split at h
      · injection h with h; refine ⟨by omega, by omega, ?_⟩; rw [if_pos h0]; omega
      · cases h
    · next h0 =>
      split at h
      · injection h with h; refine ⟨by omega, by omega, ?_⟩; rw [if_neg h0]; omega
      · cases h
  · rintro ⟨h1, h2, h3⟩
    by_cases h0 : i < 0
    · rw [if_pos h0] at h3; rw [if_pos h0, if_pos (by omega)]; congr 1; omega
    · rw [if_neg h0] at h3; rw [if_neg h0, if_pos h2]; congr 1; omega

theorem normIndex_lt (dim : Nat) (i : Int) (k : Nat) (h : normIndex dim i = some k) : k < dim := by
  have := (normIndex_spec dim i k).mp h
  split at this <;> omega

/-- IN2. Axis attributes: `normAxis rank a` accepts exactly `-rank ≤ a < rank`, returning `a` or `a + rank`. -/
theorem normAxis_spec (rank : Nat) (a : Int) (k : Nat) :
    normAxis rank a = .ok k ↔
      (-(rank : Int) ≤ a ∧ a < rank ∧ (k : Int) = if a < 0 then a + rank else a) := by
  unfold normAxis
  constructor
  · intro h
    split at h
    · next h0 =>
      split at h
      · injection h with h; refine ⟨by omega, by omega, ?_⟩; rw [if_pos h0]; omega
      · cases h
    · next h0 =>
      split at h
      · injection h with h; refine ⟨by omega, by omega, ?_⟩; rw [if_neg h0]; omega
      · cases h
  · rintro ⟨h1, h2, h3⟩
    by_cases h0 : a < 0
    · rw [if_pos h0] at h3; rw [if_pos h0, if_pos (by omega)]; show Except.ok _ = _; congr 1; omega
    · rw [if_neg h0] at h3; rw [if_neg h0, if_pos h2]; show Except.ok _ = _; congr 1; omega

/-- NZ1. `NonZero` lists the non-zero positions in row-major order: their linear offsets are strictly
increasing, each is a valid index, and its element is non-zero. -/
theorem nonZero_order (x : Tensor) :
    let hits := (allIdx x.shape).filter (fun idx => x.get idx != 0)
    (hits.map (ravel x.shape)).Pairwise (· < ·) ∧
    (∀ idx ∈ hits, validIdx x.shape idx = true ∧ x.get idx ≠ 0) ∧
    (∀ idx, validIdx x.shape idx = true → x.get idx ≠ 0 → idx ∈ hits) := by
  intro hits
  refine ⟨?_, ?_, ?_⟩
  · have hsub : (hits.map (ravel x.shape)).Sublist ((allIdx x.shape).map (ravel x.shape)) :=
      (List.filter_sublist).map _
    rw [map_ravel_allIdx] at hsub
    exact List.Pairwise.sublist hsub List.pairwise_lt_range
  · intro idx h
    have := List.mem_filter.mp h
    exact ⟨(mem_allIdx _ _).mp this.1, by simpa using this.2⟩
  · intro idx hv hne
    exact List.mem_filter.mpr ⟨(mem_allIdx _ _).mpr hv, by simpa using hne⟩

theorem map_range_all (r : Nat) (ax : List Nat) (A B : Nat → Nat) (hall : ∀ k, k < r → ax.contains k = true) :
    (List.range r).map (fun k => if ax.contains k then A k else B k) = (List.range r).map A := by
  apply List.map_congr_left
  intro k hk
  simp only [hall k (List.mem_range.mp hk), if_true]

theorem removeAxes_cover (s ax : List Nat) (hall : ∀ k, k < s.length → ax.contains k = true) :
    removeAxes s ax = [] := by
  unfold removeAxes
  have : (List.range s.length).filter (fun k => !ax.contains k) = [] := by
    rw [List.filter_eq_nil_iff]
    intro k hk
    simp only [hall k (List.mem_range.mp hk), Bool.not_true, Bool.false_eq_true, not_false_eq_true]
  rw [this]; rfl

/-- RD1. Reduce with EXPLICIT axes (given in any order, in positive or negative form) that cover every
axis gives the same single-cell result as omitting `axes`: the fold of the row-major data, shape `[]`
or `[1,…,1]` with keepdims — also when `noop_with_empty_axes` is set (the list is not empty). -/
theorem reduce_explicit_full (f : List Int → Option Int) (x : Tensor) (axes : List Int) (ax : List Nat)
    (v : Int) (keepdims noop : Bool)
    (hwf : x.data.length = prod x.shape) (hf : f x.data = some v)
    (hnorm : normAxes x.rank axes = .ok ax) (hne : ax ≠ [])
    (hall : ∀ k, k < x.rank → ax.contains k = true) :
    reduce f x (some axes) keepdims noop = .ok ⟨if keepdims then List.replicate x.rank 1 else [], [v]⟩ := by
  unfold reduce
  have hemp : ax.isEmpty = false := by
    cases ax with
    | nil => exact absurd rfl hne
    | cons _ _ => rfl
  simp only [hnorm, bind, Except.bind, hemp, Bool.false_and, Bool.false_eq_true, if_false]
  have hk : (List.range x.rank).map (fun k => if ax.contains k then 1 else getN x.shape k)
      = List.replicate x.rank 1 := by
    rw [map_range_all _ _ _ _ hall]
    apply List.ext_getElem (by simp)
    intro i h1 h2
    simp
  have hvals : reduceVals x ax (List.replicate x.rank 0) = x.data := by
    have := reduceVals_all x hwf
    unfold reduceVals at this ⊢
    rw [map_range_all _ _ _ _ hall]
    rw [map_range_contains] at this
    exact this
  simp only [hk, allIdx_ones, List.map_cons, List.map_nil, hvals, hf]
  simp only [List.any_cons, List.any_nil, Option.isNone_some, Bool.or_false, Bool.false_eq_true, if_false,
    Option.getD_some, pure, Except.pure]
  have : removeAxes x.shape ax = [] := removeAxes_cover _ _ (by simpa [Tensor.rank] using hall)
  rw [this]

end RtenVerif.OnnxRef
