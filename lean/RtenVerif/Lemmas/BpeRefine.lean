import RtenVerif.Lemmas.Bpe

/-! Data-refinement lemmas for C28.T3: id-level merging simulates string-level reference BPE. -/
namespace RtenVerif.Bpe

set_option linter.unusedSectionVars false
variable {σ : Type} [DecidableEq σ]

theorem filterMap_congr' {β γ : Type} {f g : β → Option γ} {l : List β}
    (h : ∀ x ∈ l, f x = g x) : l.filterMap f = l.filterMap g := by
  induction l with
  | nil => rfl
  | cons a t ih =>
    simp only [List.filterMap_cons]
    rw [h a (by simp), ih (fun x hx => h x (List.mem_cons_of_mem _ hx))]

theorem replacePairs_mem {a b c x : σ} {l : List σ} (h : x ∈ replacePairs a b c l) :
    x = c ∨ x ∈ l := by
  induction l using replacePairs_induct a b with
  | nil => exact Or.inr h
  | single y => exact Or.inr h
  | hit x' y rest hc ih =>
    rw [replacePairs_cons_cons, if_pos hc] at h
    simp only [List.mem_cons] at h ⊢
    rcases h with h | h
    · exact Or.inl h
    · rcases ih h with h | h
      · exact Or.inl h
      · exact Or.inr (Or.inr (Or.inr h))
  | miss x' y rest hc ih =>
    rw [replacePairs_cons_cons, if_neg hc] at h
    simp only [List.mem_cons] at h ih ⊢
    rcases h with h | h
    · exact Or.inr (Or.inl h)
    · rcases ih h with h | h
      · exact Or.inl h
      · exact Or.inr (Or.inr h)

/-- Replacement commutes with an id map that is injective on the strings involved. -/
theorem replacePairs_map (v : σ → Nat) (D : σ → Prop)
    (hinj : ∀ x y, D x → D y → v x = v y → x = y)
    (a b c : σ) (ha : D a) (hb : D b) (l : List σ) (hl : ∀ x ∈ l, D x) :
    replacePairs (v a) (v b) (v c) (l.map v) = (replacePairs a b c l).map v := by
  induction l using replacePairs_induct a b with
  | nil => rfl
  | single x => rfl
  | hit x y rest hc ih =>
    have hrest : ∀ z ∈ rest, D z := fun z hz => hl z (by simp [hz])
    simp only [List.map_cons]
    rw [replacePairs_cons_cons, if_pos ⟨by rw [hc.1], by rw [hc.2]⟩, ih hrest,
      replacePairs_cons_cons, if_pos hc]
    rfl
  | miss x y rest hc ih =>
    have ht : ∀ z ∈ y :: rest, D z := fun z hz =>
      hl z (by simp only [List.mem_cons] at hz ⊢; exact Or.inr hz)
    have hx : D x := hl x (by simp)
    have hy : D y := hl y (by simp)
    have hc' : ¬ (v x = v a ∧ v y = v b) := fun h =>
      hc ⟨hinj x a hx ha h.1, hinj y b hy hb h.2⟩
    simp only [List.map_cons] at ih ⊢
    rw [replacePairs_cons_cons, if_neg hc', ih ht, replacePairs_cons_cons, if_neg hc]
    rfl

section sim
variable (v : σ → Nat) (D : σ → Prop) (hinj : ∀ x y, D x → D y → v x = v y → x = y)
  (cat : σ → σ → σ) (rank : σ × σ → Option Nat) (M : MergeMap Nat)
  (hlk : ∀ a b, D a → D b → lookup M (v a, v b) = (rank (a, b)).map (fun r => (r, v (cat a b))))
  (hclosed : ∀ a b r, rank (a, b) = some r → D (cat a b))

/-- Image of a string-level candidate at the id level. -/
def candImg (v : σ → Nat) (cat : σ → σ → σ) (c : (σ × σ) × Nat) : (Nat × Nat) × (Nat × Nat) :=
  ((v c.1.1, v c.1.2), (c.2, v (cat c.1.1 c.1.2)))

include hlk in
theorem candidates_map (pieces : List σ) (hD : ∀ x ∈ pieces, D x) :
    candidates M (pieces.map v) = (refCandidatesBy rank pieces).map (candImg v cat) := by
  unfold candidates refCandidatesBy
  rw [windows2_map, List.filterMap_map, List.map_filterMap]
  apply filterMap_congr'
  intro p hp
  obtain ⟨h1, h2⟩ := windows2_mem hp
  simp only [Function.comp]
  rw [hlk p.1 p.2 (hD _ h1) (hD _ h2)]
  cases hr : rank (p.1, p.2) with
  | none => simp
  | some r => simp [candImg]

include hinj hlk in
theorem round_sim (pieces : List σ) (hD : ∀ x ∈ pieces, D x) :
    mergeRound M (pieces.map v) = (refStepBy cat rank pieces).map (List.map v) := by
  rw [mergeRound_eq]
  unfold findMinPair refStepBy refBestBy
  rw [candidates_map v D cat rank M hlk pieces hD]
  rw [minByKey_map (fun c : (σ × σ) × Nat => c.2) (fun c => c.2.1) (candImg v cat) (fun _ => rfl)]
  cases hm : minByKey (fun c : (σ × σ) × Nat => c.2) (refCandidatesBy rank pieces) with
  | none => rfl
  | some c =>
    have hmem := minByKey_mem _ hm
    simp only [refCandidatesBy, List.mem_filterMap, Option.map_eq_some_iff] at hmem
    obtain ⟨p, hp, r, _, rfl⟩ := hmem
    obtain ⟨h1, h2⟩ := windows2_mem hp
    simp only [Option.map_some, candImg]
    rw [replacePairs_map v D hinj p.1 p.2 (cat p.1 p.2) (hD _ h1) (hD _ h2) pieces hD]

include hclosed in
theorem refStepBy_dom {pieces ps' : List σ} (hD : ∀ x ∈ pieces, D x)
    (h : refStepBy cat rank pieces = some ps') : ∀ x ∈ ps', D x := by
  unfold refStepBy refBestBy at h
  cases hm : minByKey (fun c : (σ × σ) × Nat => c.2) (refCandidatesBy rank pieces) with
  | none => simp [hm] at h
  | some c =>
    simp only [hm, Option.map_some, Option.some.injEq] at h
    have hmem := minByKey_mem _ hm
    simp only [refCandidatesBy, List.mem_filterMap, Option.map_eq_some_iff] at hmem
    obtain ⟨p, hp, r, hr, rfl⟩ := hmem
    subst h
    intro x hx
    rcases replacePairs_mem hx with rfl | hx
    · exact hclosed p.1 p.2 r hr
    · exact hD x hx

include hclosed in
/-- Every piece of the reference result is in the domain (so mapping it through a total id
function loses nothing). -/
theorem refBpeFuelBy_dom : ∀ (n : Nat) (pieces : List σ), (∀ x ∈ pieces, D x) →
    ∀ x ∈ refBpeFuelBy cat rank n pieces, D x := by
  intro n
  induction n with
  | zero => intro pieces hD; exact hD
  | succ n ih =>
    intro pieces hD
    simp only [refBpeFuelBy]
    cases hs : refStepBy cat rank pieces with
    | none => exact hD
    | some ps' => exact ih ps' (refStepBy_dom D cat rank hclosed hD hs)

include hinj hlk hclosed in
theorem fuel_sim : ∀ (n : Nat) (pieces : List σ), (∀ x ∈ pieces, D x) →
    bpeMergeFuel M n (pieces.map v) = (refBpeFuelBy cat rank n pieces).map v := by
  intro n
  induction n with
  | zero => intro pieces _; rfl
  | succ n ih =>
    intro pieces hD
    simp only [bpeMergeFuel, refBpeFuelBy]
    rw [round_sim v D hinj cat rank M hlk pieces hD]
    cases hs : refStepBy cat rank pieces with
    | none => rfl
    | some ps' =>
      simp only [Option.map_some]
      exact ih ps' (refStepBy_dom D cat rank hclosed hD hs)

include hinj hlk hclosed in
/-- Generic simulation: id-level `bpe_merge` on the ids of `pieces` = ids of the reference result. -/
theorem bpeMerge_sim (pieces : List σ) (hD : ∀ x ∈ pieces, D x) :
    bpeMerge M (pieces.map v) = (refBpeBy cat rank pieces).map v := by
  unfold bpeMerge refBpeBy
  rw [List.length_map]
  exact fuel_sim v D hinj cat rank M hlk hclosed _ pieces hD

end sim

/-! ### `build_merge_map` yields the rank function of the reference -/

theorem refRankLast_mem {ms : List (σ × σ)} {p : σ × σ} {r : Nat}
    (h : refRankLast ms p = some r) : p ∈ ms := by
  induction ms generalizing r with
  | nil => simp [refRankLast] at h
  | cons q rest ih =>
    simp only [refRankLast] at h
    cases hr : refRankLast rest p with
    | some r' => exact List.mem_cons_of_mem _ (ih hr)
    | none =>
      simp only [hr] at h
      by_cases hq : q = p
      · subst hq; simp
      · simp [hq] at h

theorem refRankLast_none {ms : List (σ × σ)} {p : σ × σ} (h : p ∉ ms) :
    refRankLast ms p = none := by
  cases hr : refRankLast ms p with
  | none => rfl
  | some r => exact absurd (refRankLast_mem hr) h

theorem refRankLast_eq_refRank {ms : List (σ × σ)} (hnd : ms.Nodup) (p : σ × σ) :
    refRankLast ms p = refRank ms p := by
  induction ms with
  | nil => rfl
  | cons q rest ih =>
    have hnd' := List.nodup_cons.mp hnd
    simp only [refRankLast, refRank]
    by_cases hq : q = p
    · subst hq
      rw [refRankLast_none hnd'.1]; simp
    · rw [ih hnd'.2, if_neg hq]
      cases refRank rest p <;> simp [hq]

theorem build_dom (dom : σ → Bool) (v : σ → Nat) (cat : σ → σ → σ) :
    ∀ (ms : List (σ × σ)) (i : Nat) (acc M : MergeMap Nat),
      buildMergeMapFrom dom v cat i ms acc = .ok M →
      ∀ p ∈ ms, dom p.1 = true ∧ dom p.2 = true ∧ dom (cat p.1 p.2) = true := by
  intro ms
  induction ms with
  | nil => intro _ _ _ _ p hp; simp at hp
  | cons q rest ih =>
    intro i acc M h p hp
    obtain ⟨a, b⟩ := q
    simp only [buildMergeMapFrom] at h
    by_cases hc : (dom a && dom b && dom (cat a b)) = true
    · rw [if_pos hc] at h
      simp only [List.mem_cons] at hp
      rcases hp with rfl | hp
      · simpa [Bool.and_eq_true, and_assoc] using hc
      · exact ih _ _ _ h p hp
    · rw [if_neg hc] at h; cases h

theorem build_lookup (dom : σ → Bool) (v : σ → Nat) (cat : σ → σ → σ)
    (hinj : ∀ x y, dom x = true → dom y = true → v x = v y → x = y) :
    ∀ (ms : List (σ × σ)) (i : Nat) (acc M : MergeMap Nat),
      buildMergeMapFrom dom v cat i ms acc = .ok M →
      ∀ a b, dom a = true → dom b = true →
        lookup M (v a, v b) =
          match refRankLast ms (a, b) with
          | some r => some (i + r, v (cat a b))
          | none => lookup acc (v a, v b) := by
  intro ms
  induction ms with
  | nil =>
    intro i acc M h a b _ _
    simp only [buildMergeMapFrom, Except.ok.injEq] at h
    subst h; simp [refRankLast]
  | cons q rest ih =>
    intro i acc M h a b ha hb
    obtain ⟨a', b'⟩ := q
    simp only [buildMergeMapFrom] at h
    by_cases hc : (dom a' && dom b' && dom (cat a' b')) = true
    · rw [if_pos hc] at h
      have hc' : dom a' = true ∧ dom b' = true ∧ dom (cat a' b') = true := by
        simpa [Bool.and_eq_true, and_assoc] using hc
      rw [ih _ _ _ h a b ha hb]
      simp only [refRankLast]
      cases hr : refRankLast rest (a, b) with
      | some r => simp only; congr 2; omega
      | none =>
        simp only [lookup]
        by_cases hq : (a', b') = (a, b)
        · have h1 : a' = a := (Prod.mk.inj hq).1
          have h2 : b' = b := (Prod.mk.inj hq).2
          subst h1 h2
          simp
        · have hk : ¬ ((v a', v b') = (v a, v b)) := by
            intro hk
            have h1 := hinj a' a hc'.1 ha (Prod.mk.inj hk).1
            have h2 := hinj b' b hc'.2.1 hb (Prod.mk.inj hk).2
            exact hq (by rw [h1, h2])
          rw [if_neg hk, if_neg hq]
    · rw [if_neg hc] at h; cases h

end RtenVerif.Bpe
