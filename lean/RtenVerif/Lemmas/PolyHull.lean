import RtenVerif.Model.Poly

/-!
Helper lemmas for the convex-hull part of C35: insertion sort, `dedup_by_key`, the stack scan.
-/
namespace RtenVerif.Poly

variable {α : Type}

theorem mem_insertBy (le : α → α → Bool) (x y : α) (l : List α) :
    y ∈ insertBy le x l ↔ y = x ∨ y ∈ l := by
  induction l with
  | nil => simp [insertBy]
  | cons z zs ih =>
    simp only [insertBy]
    split
    · simp
    · simp only [List.mem_cons, ih]
      constructor
      · rintro (h | h | h) <;> simp [h]
      · rintro (h | h | h) <;> simp [h]

theorem mem_isort (le : α → α → Bool) (y : α) (l : List α) : y ∈ isort le l ↔ y ∈ l := by
  induction l with
  | nil => simp [isort]
  | cons x xs ih => simp [isort, mem_insertBy, ih]

theorem dedupGo_sublist (pt : α → Pt) (prev : Pt) (l : List α) :
    (dedupGo pt prev l).Sublist l := by
  induction l generalizing prev with
  | nil => exact List.Sublist.refl _
  | cons y ys ih =>
    simp only [dedupGo]
    split
    · exact (ih prev).cons y
    · exact (ih (pt y)).cons_cons y

theorem dedupKey_sublist (pt : α → Pt) (l : List α) : (dedupKey pt l).Sublist l := by
  cases l with
  | nil => exact List.Sublist.refl _
  | cons x xs => exact (dedupGo_sublist pt (pt x) xs).cons_cons x

theorem dedupKey_head? (pt : α → Pt) (l : List α) : (dedupKey pt l).head? = l.head? := by
  cases l <;> rfl

/-! ### The stack scan -/

theorem popWhile_cons_cons (p prev prev2 : Pt) (rest : List Pt) :
    popWhile p (prev :: prev2 :: rest) =
      if cross prev2 prev p > 0 then prev :: prev2 :: rest else popWhile p (prev2 :: rest) := by
  rw [popWhile]

/-- `popWhile` returns a suffix of the stack. -/
theorem popWhile_suffix (p : Pt) (st : List Pt) : ∃ pre, st = pre ++ popWhile p st := by
  induction st with
  | nil => exact ⟨[], rfl⟩
  | cons prev tl ih =>
    cases tl with
    | nil => exact ⟨[], rfl⟩
    | cons prev2 rest =>
      rw [popWhile_cons_cons]
      split
      · exact ⟨[], rfl⟩
      · obtain ⟨pre, hpre⟩ := ih
        exact ⟨prev :: pre, by rw [List.cons_append, ← hpre]⟩

/-- After `popWhile`, the two top entries (if there are two) make a strict left turn with `p`. -/
theorem popWhile_top (p : Pt) (st : List Pt) (prev prev2 : Pt) (rest : List Pt)
    (h : popWhile p st = prev :: prev2 :: rest) : cross prev2 prev p > 0 := by
  induction st with
  | nil => simp [popWhile] at h
  | cons a tl ih =>
    cases tl with
    | nil => simp [popWhile] at h
    | cons a2 rest' =>
      rw [popWhile_cons_cons] at h
      split at h
      · rename_i hc
        simp only [List.cons.injEq] at h
        obtain ⟨rfl, rfl, _⟩ := h
        exact hc
      · exact ih h

/-- The bottom of the stack is never popped. -/
theorem popWhile_getLast? (p : Pt) (st : List Pt) : (popWhile p st).getLast? = st.getLast? := by
  induction st with
  | nil => rfl
  | cons a tl ih =>
    cases tl with
    | nil => rfl
    | cons a2 rest =>
      rw [popWhile_cons_cons]
      split
      · rfl
      · rw [ih, List.getLast?_cons_cons]

/-- Stack invariant (top first): every three consecutive entries `c, b, a` (pushed in the
order `a, b, c`) make a strict left turn. -/
def TurnsR (st : List Pt) : Prop :=
  ∀ pre c b a post, st = pre ++ c :: b :: a :: post → cross a b c > 0

theorem TurnsR.suffix {pre st : List Pt} (h : TurnsR (pre ++ st)) : TurnsR st := by
  intro pre' c b a post he
  exact h (pre ++ pre') c b a post (by rw [he, List.append_assoc])

theorem TurnsR.push {p : Pt} {st : List Pt} (h : TurnsR st) : TurnsR (p :: popWhile p st) := by
  obtain ⟨pre0, hpre0⟩ := popWhile_suffix p st
  have hs : TurnsR (popWhile p st) := by rw [hpre0] at h; exact h.suffix
  intro pre c b a post he
  cases pre with
  | nil =>
    simp only [List.nil_append, List.cons.injEq] at he
    obtain ⟨rfl, he⟩ := he
    exact popWhile_top p st b a post he
  | cons x pre' =>
    simp only [List.cons_append, List.cons.injEq] at he
    exact hs pre' c b a post he.2

theorem scan_turns (ps st : List Pt) (h : TurnsR st) : TurnsR (scan ps st) := by
  induction ps generalizing st with
  | nil => exact h
  | cons p ps ih => exact ih _ h.push

theorem mem_popWhile {p q : Pt} {st : List Pt} (h : q ∈ popWhile p st) : q ∈ st := by
  obtain ⟨pre, hpre⟩ := popWhile_suffix p st
  rw [hpre]; exact List.mem_append_right _ h

theorem mem_scan {q : Pt} (ps st : List Pt) (h : q ∈ scan ps st) : q ∈ ps ∨ q ∈ st := by
  induction ps generalizing st with
  | nil => exact Or.inr h
  | cons p ps ih =>
    rcases ih _ h with h1 | h1
    · exact Or.inl (List.mem_cons_of_mem _ h1)
    · rcases List.mem_cons.mp h1 with rfl | h2
      · exact Or.inl List.mem_cons_self
      · exact Or.inr (mem_popWhile h2)

/-- The first point scanned stays at the bottom of the stack. -/
theorem scan_getLast? (ps st : List Pt) :
    (scan ps st).getLast? = if st = [] then ps.head? else st.getLast? := by
  induction ps generalizing st with
  | nil => cases st <;> simp [scan]
  | cons p ps ih =>
    simp only [scan]
    rw [ih]
    simp only [List.cons_ne_nil, if_false, List.head?_cons]
    cases st with
    | nil => simp [popWhile]
    | cons a tl =>
      simp only [List.cons_ne_nil, if_false]
      have h1 := popWhile_getLast? p (a :: tl)
      have hne : popWhile p (a :: tl) ≠ [] := by
        intro h0; rw [h0] at h1; simp at h1
        exact absurd h1.symm (by simp)
      rw [List.getLast?_cons_of_ne_nil hne] at *
      exact h1

/-- The scan emits each scanned point at most as often as it is scanned: the stack is a
subsequence of the reversed input. -/
theorem scan_sublist (ps st : List Pt) : (scan ps st).Sublist (ps.reverse ++ st) := by
  induction ps generalizing st with
  | nil => simp [scan]
  | cons p ps ih =>
    simp only [scan, List.reverse_cons, List.append_assoc, List.singleton_append]
    refine (ih _).trans (List.Sublist.append (List.Sublist.refl _) ?_)
    obtain ⟨pre, hpre⟩ := popWhile_suffix p st
    refine List.Sublist.cons_cons p ?_
    conv => rhs; rw [hpre]
    exact List.sublist_append_right _ _

/-! ### `min_by` -/

theorem foldl_min_mem (f : Pt → Pt → Bool) (ps : List Pt) (p : Pt) :
    ps.foldl (fun best q => if f q best then q else best) p ∈ p :: ps := by
  induction ps generalizing p with
  | nil => simp
  | cons q qs ih =>
    simp only [List.foldl_cons]
    have := ih (if f q p then q else p)
    rcases List.mem_cons.mp this with h | h
    · rw [h]; split <;> simp
    · exact List.mem_cons_of_mem _ (List.mem_cons_of_mem _ h)

theorem minLt_irrefl (p : Pt) : minLt p p = false := by simp [minLt]

theorem minLt_trans {p q r : Pt} (h1 : minLt p q = true) (h2 : minLt q r = true) :
    minLt p r = true := by
  simp only [minLt] at *
  split at h1 <;> split at h2 <;> split <;> simp_all <;> omega

/-- `¬ minLt` is transitive too (`minLt` is a strict total order on points). -/
theorem not_minLt_trans {p q r : Pt} (h1 : minLt q p = false) (h2 : minLt r q = false) :
    minLt r p = false := by
  simp only [minLt] at *
  split at h1 <;> split at h2 <;> split <;> simp_all <;> omega

theorem foldl_min_le (ps : List Pt) (p : Pt) :
    minLt p (ps.foldl (fun best q => if minLt q best then q else best) p) = false ∧
    ∀ q ∈ ps, minLt q (ps.foldl (fun best q => if minLt q best then q else best) p) = false := by
  induction ps generalizing p with
  | nil => simp [minLt_irrefl]
  | cons q qs ih =>
    simp only [List.foldl_cons]
    obtain ⟨h1, h2⟩ := ih (if minLt q p then q else p)
    by_cases hq : minLt q p = true
    · simp only [hq, if_true] at h1 h2 ⊢
      refine ⟨?_, ?_⟩
      · -- p is not below the final minimum m: ¬ (m < q) … and q < p
        cases hm : minLt p (qs.foldl (fun best q => if minLt q best then q else best) q) with
        | false => rfl
        | true => have := minLt_trans hq hm; rw [h1] at this; cases this
      · intro r hr
        rcases List.mem_cons.mp hr with rfl | hr
        · exact h1
        · exact h2 r hr
    · have hq' : minLt q p = false := by simpa using hq
      simp only [hq', Bool.false_eq_true, if_false] at h1 h2 ⊢
      refine ⟨h1, ?_⟩
      intro r hr
      rcases List.mem_cons.mp hr with rfl | hr
      · exact not_minLt_trans h1 hq'
      · exact h2 r hr

end RtenVerif.Poly
