import RtenVerif.Lemmas.SymCanon
import RtenVerif.Lemmas.SymRcf

/-! `simplify_canonical` / `simplify` preserve evaluation; `is_positive` (C11). -/
set_option linter.unusedSimpArgs false
namespace RtenVerif.Sym

/-- Side conditions of the two rewrite arms that are not valid for all integers, stated at
the node where `simplify_canonical` applies them (`e` is the canonicalised expression):

* `Broadcast(a, b)`: the operands' values are inside the constructor's domain — equal, or
  one of them `1`;
* `DivCeil(a, b)` whose simplified dividend is again a `DivCeil(_, c1)`: both divisors are
  positive — the condition in the code comment ("if b > 0 and c > 0"), which the code only
  tests when both divisors are constants. -/
def Guards (A : Arith) (σ : Env) : SymExpr → Prop
  | .bin o a b =>
    Guards A σ a ∧ Guards A σ b ∧
    (o = .broadcast → ∀ x y, ev σ a = .ok x → ev σ b = .ok y → (x = y ∨ x = 1 ∨ y = 1)) ∧
    (o = .divCeil → ∀ l' c1 r, simpC A a = some (.bin .divCeil l' c1) → simpC A b = some r →
      ∀ v1 v2, ev σ c1 = .ok v1 → ev σ r = .ok v2 → 0 < v1 ∧ 0 < v2)
  | .neg a => Guards A σ a
  | _ => True

theorem simpC_sound {A : Arith} (hA : Exact A) (σ : Env) :
    ∀ (e e' : SymExpr) (v : Int), Guards A σ e → simpC A e = some e' → ev σ e = .ok v →
      ev σ e' = .ok v := by
  intro e
  induction e with
  | value x => intro e' v _ h hv; simp [simpC] at h; subst h; exact hv
  | var n p => intro e' v _ h hv; simp [simpC] at h; subst h; exact hv
  | neg a ih =>
    intro e' v hg h hv
    simp only [simpC] at h
    split at h
    · rename_i l hl
      rw [ev_neg_ok] at hv
      obtain ⟨x, hx, rfl⟩ := hv
      have := ih l x hg hl hx
      exact stepNeg_sound hA h (ev_neg_ok.mpr ⟨x, this, rfl⟩)
    · simp at h
  | bin o a b iha ihb =>
    intro e' v hg h hv
    obtain ⟨hga, hgb, hgB, hgC⟩ := hg
    simp only [simpC] at h
    split at h
    · simp at h
    · rename_i l hl
      split at h
      · simp at h
      · rename_i r hr
        rw [ev_bin_ok'] at hv
        obtain ⟨x, y, hx, hy, h0, rfl⟩ := hv
        have hl' := iha l x hga hl hx
        have hr' := ihb r y hgb hr hy
        have hv' : ev σ (.bin o l r) = .ok (opF o x y) :=
          ev_bin_ok'.mpr ⟨x, y, hl', hr', h0, rfl⟩
        cases o <;> simp only [stepBin] at h
        · exact stepAdd_sound hA h hv'
        · exact stepSub_sound hA h hv'
        · exact stepMul_sound hA h hv'
        · exact stepDiv_sound hA h (rcf_sound hv')
        · refine stepDivCeil_sound hA h ?_ hv'
          intro l' c1 hleq v1 v2 hc1 hv2
          subst hleq
          exact hgC rfl l' c1 r hl hr v1 v2 hc1 hv2
        · exact stepMax_sound h hv'
        · exact stepMin_sound h hv'
        · refine stepBroadcast_sound h ?_ hv'
          intro x' y' hx' hy'
          rw [hl'] at hx'; rw [hr'] at hy'
          simp at hx' hy'; subst hx' hy'
          exact hgB rfl x y hx hy

/-- Domain of a symbolic expression under an assignment: symbols flagged positive are
`≥ 0`, every constant and symbol value is an `i32`, `Broadcast` operands are `≥ 0`. -/
def Dom (σ : Env) : SymExpr → Prop
  | .value x => I32MIN ≤ x ∧ x ≤ I32MAX
  | .var n p => ∀ v, σ n = some v → I32MIN ≤ v ∧ v ≤ I32MAX ∧ (p = true → 0 ≤ v)
  | .neg a => Dom σ a
  | .bin o a b =>
    Dom σ a ∧ Dom σ b ∧
    (o = .broadcast → ∀ x y, ev σ a = .ok x → ev σ b = .ok y → 0 ≤ x ∧ 0 ≤ y)

theorem divCeilI_nonneg {x y : Int} (hx : 0 ≤ x) (hy : 0 < y) : 0 ≤ divCeilI x y := by
  rw [divCeilI_pos hy]
  have := Int.ediv_nonpos_of_nonpos_of_neg (n := -x) (s := y) (by omega) hy
  omega

theorem isPositive_sound (σ : Env) :
    ∀ (e : SymExpr) (v : Int), Dom σ e → isPositive e = true → ev σ e = .ok v → 0 ≤ v := by
  intro e
  induction e with
  | value x => intro v _ hp hv; rw [ev_value] at hv; subst hv; simpa [isPositive] using hp
  | var n p =>
    intro v hd hp hv
    simp only [isPositive] at hp
    simp only [ev, eval] at hv
    split at hv
    · rename_i w hw; simp at hv; subst hv; exact (hd w hw).2.2 hp
    · simp at hv
  | neg a _ => intro v _ hp; simp [isPositive] at hp
  | bin o a b iha ihb =>
    intro v hd hp hv
    obtain ⟨hda, hdb, hdB⟩ := hd
    rw [ev_bin_ok'] at hv
    obtain ⟨x, y, hx, hy, h0, rfl⟩ := hv
    cases o <;> simp only [isPositive, Bool.and_eq_true, Bool.or_eq_true] at hp <;> simp only [opF, bcastI]
    · exact Int.add_nonneg (iha x hda hp.1 hx) (ihb y hdb hp.2 hy)
    · simp at hp
    · exact Int.mul_nonneg (iha x hda hp.1 hx) (ihb y hdb hp.2 hy)
    · exact Int.tdiv_nonneg (iha x hda hp.1 hx) (ihb y hdb hp.2 hy)
    · have hy0 := h0 (.inr rfl)
      have := ihb y hdb hp.2 hy
      exact divCeilI_nonneg (iha x hda hp.1 hx) (by omega)
    · rcases hp with hp | hp
      · have := iha x hda hp hx; split <;> omega
      · have := ihb y hdb hp hy; split <;> omega
    · have := iha x hda hp.1 hx; have := ihb y hdb hp.2 hy; split <;> omega
    · have := hdB rfl x y hx hy; split <;> omega

/-- Decidable form of `Dom`. -/
def domB (σ : Env) : SymExpr → Bool
  | .value x => inI32 x
  | .var n p =>
    match σ n with
    | some v => inI32 v && (!p || decide (0 ≤ v))
    | none => true
  | .neg a => domB σ a
  | .bin o a b =>
    domB σ a && domB σ b &&
      (o != .broadcast ||
        match ev σ a, ev σ b with
        | .ok x, .ok y => decide (0 ≤ x) && decide (0 ≤ y)
        | _, _ => true)

theorem inI32_iff {x : Int} : inI32 x = true ↔ I32MIN ≤ x ∧ x ≤ I32MAX := by
  simp [inI32]

theorem domB_sound (σ : Env) : ∀ e : SymExpr, domB σ e = true → Dom σ e := by
  intro e
  induction e with
  | value x => intro h; exact inI32_iff.mp h
  | var n p =>
    intro h v hv
    simp only [domB, hv, Bool.and_eq_true, Bool.or_eq_true, Bool.not_eq_true',
      decide_eq_true_eq] at h
    obtain ⟨h1, h2⟩ := h
    have := inI32_iff.mp h1
    refine ⟨this.1, this.2, fun hp => ?_⟩
    rcases h2 with h2 | h2
    · rw [hp] at h2; cases h2
    · exact h2
  | neg a ih => intro h; exact ih h
  | bin o a b iha ihb =>
    intro h
    simp only [domB, Bool.and_eq_true, Bool.or_eq_true] at h
    obtain ⟨⟨ha, hb⟩, hc⟩ := h
    refine ⟨iha ha, ihb hb, ?_⟩
    intro ho x y hx hy
    subst ho
    rcases hc with hc | hc
    · simp at hc
    · rw [hx, hy] at hc
      simpa using hc

/-- Decidable form of `Guards`. -/
def guardsB (A : Arith) (σ : Env) : SymExpr → Bool
  | .bin o a b =>
    guardsB A σ a && guardsB A σ b &&
      (o != .broadcast ||
        match ev σ a, ev σ b with
        | .ok x, .ok y => (x == y || x == 1 || y == 1)
        | _, _ => true) &&
      (o != .divCeil ||
        match simpC A a, simpC A b with
        | some (.bin .divCeil _ c1), some r =>
          (match ev σ c1, ev σ r with
           | .ok v1, .ok v2 => decide (0 < v1) && decide (0 < v2)
           | _, _ => true)
        | _, _ => true)
  | .neg a => guardsB A σ a
  | _ => true

theorem guardsB_sound (A : Arith) (σ : Env) : ∀ e : SymExpr, guardsB A σ e = true → Guards A σ e := by
  intro e
  induction e with
  | value x => intro _; trivial
  | var n p => intro _; trivial
  | neg a ih => intro h; exact ih h
  | bin o a b iha ihb =>
    intro h
    simp only [guardsB, Bool.and_eq_true, Bool.or_eq_true] at h
    obtain ⟨⟨⟨ha, hb⟩, hB⟩, hC⟩ := h
    refine ⟨iha ha, ihb hb, ?_, ?_⟩
    · intro ho x y hx hy
      subst ho
      rcases hB with hB | hB
      · simp at hB
      · rw [hx, hy] at hB
        simp only [Bool.or_eq_true, beq_iff_eq] at hB
        rcases hB with (h | h) | h <;> simp [h]
    · intro ho l' c1 r hl hr v1 v2 hv1 hv2
      subst ho
      rcases hC with hC | hC
      · simp at hC
      · rw [hl, hr] at hC
        simp only [hv1, hv2, Bool.and_eq_true, decide_eq_true_eq] at hC
        exact hC

end RtenVerif.Sym
