import RtenVerif.Model.OnnxRef
/-! Foundation of the index-form operators: `allIdx` enumerates exactly the valid indices in
row-major order, so `build`/`get` are inverse to each other. -/
namespace RtenVerif.OnnxRef

theorem range_blocks (d m : Nat) :
    (List.range d).flatMap (fun i => (List.range m).map (fun j => i * m + j)) = List.range (d * m) := by
  induction d with
  | zero => simp
  | succ d ih =>
    rw [List.range_succ, List.flatMap_append, ih, Nat.succ_mul, List.range_add]
    simp

theorem map_ravel_allIdx : ∀ s : List Nat, (allIdx s).map (ravel s) = List.range (prod s)
  | [] => by simp [allIdx, ravel, prod, List.range_succ]
  | d :: ds => by
    have ih := map_ravel_allIdx ds
    have h : ∀ i : Nat, ((allIdx ds).map (fun r => i :: r)).map (ravel (d :: ds))
        = (List.range (prod ds)).map (fun j => i * prod ds + j) := by
      intro i
      rw [← ih, List.map_map, List.map_map]
      rfl
    simp only [allIdx, List.map_flatMap, h, prod]
    exact range_blocks d (prod ds)

theorem length_allIdx (s : List Nat) : (allIdx s).length = prod s := by
  have h := congrArg List.length (map_ravel_allIdx s)
  simpa using h

theorem mem_allIdx : ∀ (s idx : List Nat), idx ∈ allIdx s ↔ validIdx s idx = true
  | [], [] => by simp [allIdx, validIdx]
  | [], _ :: _ => by simp [allIdx, validIdx]
  | _ :: _, [] => by simp [allIdx, validIdx]
  | d :: ds, i :: is => by
    have ih := mem_allIdx ds is
    simp only [allIdx, validIdx, List.mem_flatMap, List.mem_map, List.mem_range, Bool.and_eq_true,
      decide_eq_true_eq]
    constructor
    · rintro ⟨a, ha, r, hr, heq⟩
      injection heq with h1 h2
      subst h1; subst h2
      exact ⟨ha, ih.mp hr⟩
    · rintro ⟨hi, hv⟩
      exact ⟨i, hi, is, ih.mpr hv, rfl⟩

/-- The valid index `idx` sits at position `ravel s idx` of the enumeration. -/
theorem allIdx_getElem?_ravel (s idx : List Nat) (h : validIdx s idx = true) :
    (allIdx s)[ravel s idx]? = some idx := by
  have hm := (mem_allIdx s idx).mpr h
  obtain ⟨k, hk⟩ := List.mem_iff_getElem?.mp hm
  have h2 : ((allIdx s).map (ravel s))[k]? = some (ravel s idx) := by
    rw [List.getElem?_map, hk]; rfl
  rw [map_ravel_allIdx] at h2
  have hk' : k = ravel s idx := by
    rcases List.getElem?_eq_some_iff.mp h2 with ⟨_, he⟩
    simpa using he
  rw [← hk']; exact hk

/-- G1. Reading back an element of `build`. -/
theorem get_build (s : List Nat) (f : List Nat → Int) (idx : List Nat) (h : validIdx s idx = true) :
    (build s f).get idx = f idx := by
  simp only [Tensor.get, build, List.getD_eq_getElem?_getD, List.getElem?_map,
    allIdx_getElem?_ravel s idx h]
  rfl

/-- G2. Two index-form tensors are equal when the element formulas agree on valid indices. -/
theorem build_congr (s : List Nat) (f g : List Nat → Int)
    (h : ∀ idx, validIdx s idx = true → f idx = g idx) : build s f = build s g := by
  simp only [build]
  congr 1
  apply List.map_congr_left
  intro idx hm
  exact h idx ((mem_allIdx s idx).mp hm)

/-- G3. A well-formed tensor is the index-form tensor of its own `get`. -/
theorem build_get (t : Tensor) (h : t.data.length = prod t.shape) : build t.shape t.get = t := by
  cases t with
  | mk s d =>
    simp only [build, Tensor.mk.injEq, true_and]
    have : (allIdx s).map (Tensor.get ⟨s, d⟩) = ((allIdx s).map (ravel s)).map (fun k => d.getD k 0) := by
      rw [List.map_map]; rfl
    rw [this, map_ravel_allIdx]
    simp only at h
    apply List.ext_getElem
    · simp [h]
    · intro i h1 h2
      simp [List.getD_eq_getElem?_getD, h2]

theorem build_wf (s : List Nat) (f : List Nat → Int) : (build s f).data.length = prod (build s f).shape := by
  simp [build, length_allIdx]

end RtenVerif.OnnxRef
