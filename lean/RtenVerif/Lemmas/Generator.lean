import RtenVerif.Model.Generator

/-!
Helper lemmas for C32: the refinement invariant between the generator model
(`State`, rule `.tracked`), the bookkeeping-free specification (`Spec`) and the model's
call log, and its preservation by every operation.
-/
namespace RtenVerif.Generator

theorem fed_append (l : List Call) (c : Call) : fed (l ++ [c]) = fed l ++ c.toks := by
  simp [fed, List.flatMap_append]

theorem logRun_append (st : LogSt) (l : List Call) (c : Call) :
    logRun st (l ++ [c]) = logStep (logRun st l) c := by
  simp [logRun, List.foldl_append]

theorem logStep_good (st : LogSt) (c : Call) (h : (logStep st c).good = true) :
    st.good = true ∧ c.start = st.pos ∧ c.cacheIn = some st.held ∧
    c.attn = st.pos + c.toks.length ∧ c.flag = (st.pos != 0) ∧ c.encIn = st.enc := by
  unfold logStep at h
  cases hok : c.ok <;> simp only [hok, Bool.false_eq_true, ↓reduceIte, Bool.and_eq_true,
    beq_iff_eq] at h <;> obtain ⟨⟨⟨⟨⟨h1, h2⟩, h3⟩, h4⟩, h5⟩, h6⟩ := h <;>
    exact ⟨h1, h2, h3, h4, h5, h6⟩

theorem logRun_good_mono (l : List Call) (st : LogSt) (h : (logRun st l).good = true) :
    st.good = true := by
  induction l generalizing st with
  | nil => exact h
  | cons c cs ih =>
    have := ih (logStep st c) (by simpa [logRun] using h)
    exact (logStep_good st c this).1

theorem logRun_idx (l : List Call) (st : LogSt) : (logRun st l).idx = st.idx + l.length := by
  induction l generalizing st with
  | nil => simp [logRun]
  | cons c cs ih =>
    have h := ih (logStep st c)
    simp only [logRun, List.foldl_cons, List.length_cons] at h ⊢
    rw [h]; unfold logStep; cases c.ok <;> simp <;> omega

/-- Per-call reading of a well-formed log: call `k` meets the expectation computed from the
calls before it. -/
theorem logRun_get (l : List Call) (st : LogSt) (h : (logRun st l).good = true) (k : Nat)
    (hk : k < l.length) :
    l[k].start = (logRun st (l.take k)).pos ∧ l[k].cacheIn = some (logRun st (l.take k)).held ∧
    l[k].attn = (logRun st (l.take k)).pos + l[k].toks.length ∧
    l[k].flag = ((logRun st (l.take k)).pos != 0) ∧ l[k].encIn = (logRun st (l.take k)).enc := by
  induction l generalizing st k with
  | nil => simp at hk
  | cons c cs ih =>
    have hrest : (logRun (logStep st c) cs).good = true := by simpa [logRun] using h
    cases k with
    | zero =>
      have := logStep_good st c (logRun_good_mono cs _ hrest)
      simpa [logRun] using this.2
    | succ k =>
      have := ih (logStep st c) hrest k (by simpa using hk)
      simpa [logRun] using this

/-- A log without failed calls: the expectation is the plain one. -/
theorem logRun_all_ok (l : List Call) (st : LogSt) (hall : ∀ c ∈ l, c.ok = true)
    (len : Nat) (hheld : st.held = some (st.idx, len)) :
    (logRun st l).held = some (st.idx + l.length, len + (fed l).length) ∧
    (logRun st l).pos = st.pos + (fed l).length := by
  induction l generalizing st len with
  | nil => simp [logRun, fed, hheld]
  | cons c cs ih =>
    have hc := hall c List.mem_cons_self
    have hstep : (logStep st c).held = some ((logStep st c).idx, len + c.toks.length) ∧
        (logStep st c).idx = st.idx + 1 ∧ (logStep st c).pos = st.pos + c.toks.length := by
      simp [logStep, hc, hheld]
    have := ih (logStep st c) (fun d hd => hall d (List.mem_cons_of_mem _ hd)) _ hstep.1
    simp only [logRun, List.foldl_cons, List.length_cons, fed, List.flatMap_cons,
      List.length_append] at this ⊢
    rw [this.1, this.2, hstep.2.1, hstep.2.2]
    constructor
    · congr 1; ext <;> simp <;> omega
    · omega

/-- Positions seen by the successful calls of a well-formed log are consecutive. -/
theorem positions_okCalls (l : List Call) (st : LogSt) (h : (logRun st l).good = true) :
    positions (okCalls l) = List.range' st.pos (fed (okCalls l)).length := by
  induction l generalizing st with
  | nil => simp [positions, fed, okCalls]
  | cons c cs ih =>
    have hrest : (logRun (logStep st c) cs).good = true := by simpa [logRun] using h
    have hc := logStep_good st c (logRun_good_mono cs _ hrest)
    have := ih (logStep st c) hrest
    cases hok : c.ok with
    | false =>
      have hp : (logStep st c).pos = st.pos := by simp [logStep, hok]
      simpa [okCalls, List.filter_cons, hok, hp] using this
    | true =>
      have hp : (logStep st c).pos = st.pos + c.toks.length := by simp [logStep, hok]
      simp only [okCalls, List.filter_cons, hok, ↓reduceIte, positions, fed, List.flatMap_cons,
        List.length_append] at this ⊢
      rw [this, hp, hc.2.1, List.range'_append_1]

theorem logOkNoKv_append (l : List Call) (c : Call) :
    logOkNoKv (l ++ [c]) = (logOkNoKv l && (c.start == 0 && c.cacheIn == none &&
      c.attn == c.toks.length && c.flag == false)) := by
  induction l with
  | nil => simp [logOkNoKv]
  | cons d ds ih => simp only [List.cons_append, logOkNoKv, ih, Bool.and_assoc]

/-- Flags of the pending tokens: the first `k` are already in the history, the rest fresh. -/
def flagged (xs : List Nat) (k : Nat) : List (Nat × Bool) :=
  (xs.take k).map (·, false) ++ (xs.drop k).map (·, true)

theorem flagged_toks (xs : List Nat) (k : Nat) : (flagged xs k).map (·.1) = xs := by
  simp [flagged, List.map_append, List.map_map, Function.comp_def]

theorem filter_old (l : List Nat) : (l.map (fun x => (x, false))).filter (·.2) = [] := by
  induction l with
  | nil => rfl
  | cons x xs ih => simp [ih]

theorem filter_fresh (l : List Nat) :
    (l.map (fun x => (x, true))).filter (·.2) = l.map (fun x => (x, true)) := by
  induction l with
  | nil => rfl
  | cons x xs ih => simp [ih]

theorem flagged_fresh (xs : List Nat) (k : Nat) :
    ((flagged xs k).filter (·.2)).map (·.1) = xs.drop k := by
  unfold flagged
  rw [List.filter_append, filter_old, filter_fresh]
  simp [List.map_map, Function.comp_def]

theorem flagged_zero (xs : List Nat) : flagged xs 0 = xs.map (·, true) := by
  simp [flagged]

theorem flagged_all (xs : List Nat) : flagged xs xs.length = xs.map (·, false) := by
  simp [flagged]

theorem flagged_append (xs ys : List Nat) (k : Nat) (h : k ≤ xs.length) :
    flagged (xs ++ ys) k = flagged xs k ++ ys.map (·, true) := by
  simp [flagged, List.take_append_of_le_length h, List.drop_append_of_le_length h]

theorem flagged_snoc_all (xs : List Nat) (t : Nat) :
    flagged (xs ++ [t]) (xs.length + 1) = xs.map (·, false) ++ [(t, false)] := by
  have : xs.length + 1 = (xs ++ [t]).length := by simp
  rw [this, flagged_all]; simp

theorem flagged_isEmpty (xs : List Nat) (k : Nat) : (flagged xs k).isEmpty = xs.isEmpty := by
  cases xs with
  | nil => simp [flagged]
  | cons x xs =>
    cases k with
    | zero => simp [flagged]
    | succ k => simp [flagged]

theorem flagged_clear (xs : List Nat) (k : Nat) :
    (flagged xs k).map (fun x => (x.1, false)) = xs.map (·, false) := by
  have h := congrArg (List.map (·, false)) (flagged_toks xs k)
  simpa [List.map_map, Function.comp_def] using h

/-- The refinement invariant. -/
structure Inv (hasKv : Bool) (s : State) (sp : Spec) (log : List Call) : Prop where
  rec_le : s.recorded ≤ s.inputIds.length
  pend : sp.pend = flagged s.inputIds s.recorded
  prev : s.prev = sp.hist
  calls : log.map (fun c => (c.toks, c.ok)) = sp.calls
  ncalls : s.calls = log.length
  kvOn : hasKv = true →
    s.kv = some (logRun LogSt.init log).held ∧ s.offset = (logRun LogSt.init log).pos ∧
    s.enc = (logRun LogSt.init log).enc ∧ (logRun LogSt.init log).good = true
  kvOff : hasKv = false → s.kv = none ∧ s.offset = 0 ∧ logOkNoKv log = true

theorem inv_init (hasKv : Bool) : Inv hasKv (State.init hasKv) Spec.init [] := by
  constructor <;> simp [State.init, Spec.init, flagged, logRun, LogSt.init, logOkNoKv]

theorem logRun_init_idx (log : List Call) : (logRun LogSt.init log).idx = log.length := by
  rw [logRun_idx]; simp [LogSt.init]

/-- `generate_impl` (successful run) preserves the invariant (against `Spec.feed`). -/
theorem inv_generateImpl (hasKv : Bool) (s : State) (sp : Spec) (log : List Call) (lg : Bool)
    (h : Inv hasKv s sp log) :
    Inv hasKv (generateImpl .tracked s lg).1 (sp.feed hasKv)
      (log ++ [(generateImpl .tracked s lg).2]) ∧
    (hasKv = true → (generateImpl .tracked s lg).1.inputIds = [] ∧
        (generateImpl .tracked s lg).1.recorded = 0) ∧
    (hasKv = false → (generateImpl .tracked s lg).1.inputIds = s.inputIds ∧
        (generateImpl .tracked s lg).1.recorded = s.inputIds.length) := by
  obtain ⟨hrec, hpend, hprev, hcalls, hn, hon, hoff⟩ := h
  cases hasKv with
  | true =>
    obtain ⟨hkv, hoffs, henc, hgood⟩ := hon rfl
    have hidx := logRun_init_idx log
    simp only [generateImpl, hkv]
    refine ⟨⟨?_, ?_, ?_, ?_, ?_, ?_, ?_⟩, ?_, ?_⟩
    · simp
    · simp [Spec.feed, flagged]
    · simp [Spec.feed, hpend, flagged_fresh, hprev]
    · simp [Spec.feed, hpend, flagged_toks, hcalls, callOf]
    · simp [hn]
    · intro _
      rw [logRun_append]
      simp only [logStep, callOf, hkv, hoffs, henc, hgood, hidx, hn, beq_self_eq_true,
        Bool.and_self, ↓reduceIte]
      cases (logRun LogSt.init log).held with
      | none => simp
      | some pr => simp
    · intro hc; cases hc
    · intro _; simp
    · intro hc; cases hc
  | false =>
    obtain ⟨hkv, hoffs, hlog⟩ := hoff rfl
    simp only [generateImpl, hkv]
    refine ⟨⟨?_, ?_, ?_, ?_, ?_, ?_, ?_⟩, ?_, ?_⟩
    · simp
    · simp [Spec.feed, hpend, flagged_clear, flagged_all]
    · simp [Spec.feed, hpend, flagged_fresh, hprev]
    · simp [Spec.feed, hpend, flagged_toks, hcalls, callOf]
    · simp [hn]
    · intro hc; cases hc
    · intro _
      refine ⟨rfl, hoffs, ?_⟩
      rw [logOkNoKv_append]; simp [hlog, hoffs, hkv, callOf]
    · intro hc; cases hc
    · intro _; simp

/-- A failed run preserves the invariant (against `Spec.feedFail`). -/
theorem inv_generateFail (hasKv : Bool) (s : State) (sp : Spec) (log : List Call) (lg : Bool)
    (h : Inv hasKv s sp log) :
    Inv hasKv (generateFail s lg).1 sp.feedFail (log ++ [(generateFail s lg).2]) := by
  obtain ⟨hrec, hpend, hprev, hcalls, hn, hon, hoff⟩ := h
  simp only [generateFail]
  refine ⟨hrec, by simpa [Spec.feedFail] using hpend, by simpa [Spec.feedFail] using hprev, ?_, ?_, ?_, ?_⟩
  · simp [Spec.feedFail, hpend, flagged_toks, hcalls, callOf]
  · simp [hn]
  · intro hk
    obtain ⟨hkv, hoffs, henc, hgood⟩ := hon hk
    rw [logRun_append]
    simp [logStep, callOf, hkv, hoffs, henc, hgood]
  · intro hk
    obtain ⟨hkv, hoffs, hlog⟩ := hoff hk
    refine ⟨by simp [hkv], hoffs, ?_⟩
    rw [logOkNoKv_append]; simp [hlog, hoffs, hkv, callOf]

/-- Every operation preserves the invariant. -/
theorem inv_step (hasKv : Bool) (s : State) (sp : Spec) (log : List Call) (op : Op)
    (h : Inv hasKv s sp log) :
    Inv hasKv (step .tracked s op).st (sp.step hasKv op)
      (log ++ (step .tracked s op).call.toList) := by
  cases op with
  | withPrompt p =>
    obtain ⟨hrec, hpend, hprev, hcalls, hn, hon, hoff⟩ := h
    simp only [step, Spec.step, Option.toList, List.append_nil]
    exact ⟨by simp, by simp [flagged_zero], hprev, hcalls, hn, hon, hoff⟩
  | append p =>
    obtain ⟨hrec, hpend, hprev, hcalls, hn, hon, hoff⟩ := h
    simp only [step, Spec.step, Option.toList, List.append_nil]
    exact ⟨by simp; omega, by simp [hpend, flagged_append _ _ _ hrec], hprev, hcalls, hn, hon, hoff⟩
  | clear =>
    obtain ⟨hrec, hpend, hprev, hcalls, hn, hon, hoff⟩ := h
    simp only [step, Spec.step, Option.toList, List.append_nil]
    exact ⟨by simp, by simp [flagged], hprev, hcalls, hn, hon, hoff⟩
  | process =>
    have hg := (inv_generateImpl hasKv s sp log false h).1
    simpa [step, Spec.step, Option.toList] using hg
  | processFail =>
    have hg := inv_generateFail hasKv s sp log false h
    simpa [step, Spec.step, Option.toList] using hg
  | nextFail =>
    have hg := inv_generateFail hasKv s sp log true h
    simpa [step, Spec.step, Option.toList] using hg
  | nextBadLogits =>
    have hg := (inv_generateImpl hasKv s sp log true h).1
    simpa [step, Spec.step, Option.toList] using hg
  | nextEmpty =>
    have hg := (inv_generateImpl hasKv s sp log true h).1
    by_cases he : s.inputIds.isEmpty = true <;>
      simpa [step, Spec.step, Option.toList, he] using hg
  | next t =>
    obtain ⟨hg, hk1, hk0⟩ := inv_generateImpl hasKv s sp log true h
    have hpe : sp.pend.isEmpty = s.inputIds.isEmpty := by rw [h.pend, flagged_isEmpty]
    by_cases he : s.inputIds.isEmpty = true
    · simpa [step, Spec.step, Option.toList, he, hpe] using hg
    · simp only [step, Spec.step, he, hpe, Option.toList, Bool.false_eq_true, ↓reduceIte]
      obtain ⟨grec, gpend, gprev, gcalls, gn, gon, goff⟩ := hg
      refine ⟨?_, ?_, ?_, gcalls, gn, gon, goff⟩
      · simp; exact grec
      · cases hasKv with
        | true =>
          obtain ⟨hi, hr⟩ := hk1 rfl
          simp [Spec.feed, hi, hr, flagged]
        | false =>
          obtain ⟨hi, hr⟩ := hk0 rfl
          simp only [hi, hr, flagged_snoc_all]
          simp [Spec.feed, h.pend, flagged_clear]
      · simp [gprev]

/-- The invariant holds along every history. -/
theorem inv_runFrom (hasKv : Bool) (ops : List Op) (s : State) (sp : Spec) (log : List Call)
    (h : Inv hasKv s sp log) :
    Inv hasKv (runFrom .tracked s ops).1 (Spec.runFrom hasKv sp ops)
      (log ++ (runFrom .tracked s ops).2) := by
  induction ops generalizing s sp log with
  | nil => simpa [runFrom, Spec.runFrom] using h
  | cons op ops ih =>
    have h1 := inv_step hasKv s sp log op h
    have h2 := ih _ _ _ h1
    simpa [runFrom, Spec.runFrom, List.append_assoc] using h2

theorem inv_run (hasKv : Bool) (ops : List Op) :
    Inv hasKv (run .tracked hasKv ops).1 (Spec.run hasKv ops) (run .tracked hasKv ops).2 := by
  have h := inv_runFrom hasKv ops _ _ _ (inv_init hasKv)
  simpa [run, Spec.run] using h

theorem generateImpl_call (r : Rule) (s : State) (lg : Bool) :
    (generateImpl r s lg).2 = callOf s lg true := by
  unfold generateImpl; cases s.kv <;> rfl

theorem step_call_ok (r : Rule) (s : State) (op : Op) (hf : op.isFail = false) :
    ∀ c, (step r s op).call = some c → c.ok = true := by
  intro c hc
  cases op with
  | withPrompt p => simp [step] at hc
  | append p => simp [step] at hc
  | clear => simp [step] at hc
  | processFail => simp [Op.isFail] at hf
  | nextFail => simp [Op.isFail] at hf
  | process =>
    have : (step r s .process).call = some (generateImpl r s false).2 := rfl
    rw [this, generateImpl_call] at hc; cases hc; rfl
  | nextBadLogits =>
    have : (step r s .nextBadLogits).call = some (generateImpl r s true).2 := rfl
    rw [this, generateImpl_call] at hc; cases hc; rfl
  | nextEmpty =>
    have : (step r s .nextEmpty).call = some (generateImpl r s true).2 := by
      simp only [step]; split <;> rfl
    rw [this, generateImpl_call] at hc; cases hc; rfl
  | next t =>
    have : (step r s (.next t)).call = some (generateImpl r s true).2 := by
      simp only [step]; split <;> rfl
    rw [this, generateImpl_call] at hc; cases hc; rfl

/-- Without failing operations every logged call succeeded. -/
theorem runFrom_all_ok (r : Rule) (ops : List Op) (s : State)
    (hops : ∀ op ∈ ops, op.isFail = false) : ∀ c ∈ (runFrom r s ops).2, c.ok = true := by
  induction ops generalizing s with
  | nil => simp [runFrom]
  | cons op ops ih =>
    intro c hc
    simp only [runFrom, List.mem_append] at hc
    rcases hc with hc | hc
    · have hf := hops op List.mem_cons_self
      cases hcall : (step r s op).call with
      | none => simp [hcall] at hc
      | some d =>
        simp only [hcall, Option.toList, List.mem_singleton] at hc
        subst hc
        exact step_call_ok r s op hf c hcall
    · exact ih _ (fun o ho => hops o (List.mem_cons_of_mem _ ho)) c hc

theorem logOkNoKv_get (log : List Call) (h : logOkNoKv log = true) (k : Nat)
    (hk : k < log.length) :
    log[k].start = 0 ∧ log[k].cacheIn = none ∧ log[k].attn = log[k].toks.length ∧
    log[k].flag = false := by
  induction log generalizing k with
  | nil => simp at hk
  | cons c cs ih =>
    simp only [logOkNoKv, Bool.and_eq_true, beq_iff_eq] at h
    obtain ⟨⟨⟨⟨hs, hc⟩, ha⟩, hf⟩, hrest⟩ := h
    cases k with
    | zero => simp [hs, hc, ha, hf]
    | succ k => simpa using ih hrest k (by simpa using hk)

/-! ## Models without KV cache: the whole recorded history is fed again -/

/-- `prev_tokens` is the already-recorded prefix of the pending tokens. -/
def Refeed (s : State) : Prop :=
  s.kv = none ∧ s.recorded ≤ s.inputIds.length ∧ s.prev = s.inputIds.take s.recorded

theorem refeed_step (s : State) (op : Op) (h : Refeed s) (hd : op.discards = false) :
    Refeed (step .tracked s op).st := by
  obtain ⟨hkv, hrec, hprev⟩ := h
  cases op with
  | withPrompt p => simp [Op.discards] at hd
  | clear => simp [Op.discards] at hd
  | append p =>
    refine ⟨hkv, by simp [step]; omega, ?_⟩
    simp [step, hprev, List.take_append_of_le_length hrec]
  | process => simp [step, generateImpl, hkv, Refeed, hprev]
  | nextBadLogits => simp [step, generateImpl, hkv, Refeed, hprev]
  | processFail => simp [step, generateFail, hkv, Refeed, hprev, hrec]
  | nextFail => simp [step, generateFail, hkv, Refeed, hprev, hrec]
  | nextEmpty =>
    by_cases he : s.inputIds.isEmpty = true <;>
      simp [step, generateImpl, hkv, Refeed, hprev, he]
  | next t =>
    by_cases he : s.inputIds.isEmpty = true
    · simp [step, generateImpl, hkv, Refeed, hprev, he]
    · have ht : List.take (s.inputIds.length + 1) (s.inputIds ++ [t]) = s.inputIds ++ [t] := by
        apply List.take_of_length_le; simp
      simp [step, generateImpl, hkv, Refeed, hprev, he, ht]

theorem refeed_runFrom (ops : List Op) (s : State) (h : Refeed s)
    (hd : ∀ op ∈ ops, op.discards = false) : Refeed (runFrom .tracked s ops).1 := by
  induction ops generalizing s with
  | nil => simpa [runFrom] using h
  | cons op ops ih =>
    simp only [runFrom]
    exact ih _ (refeed_step s op h (hd op List.mem_cons_self))
      (fun o ho => hd o (List.mem_cons_of_mem _ ho))

/-! ## Every submitted token is fed exactly once (KV cache) -/

theorem fed_okCalls_append (l : List Call) (c : Call) :
    fed (okCalls (l ++ [c])) = fed (okCalls l) ++ (if c.ok then c.toks else []) := by
  cases h : c.ok <;> simp [fed, okCalls, List.filter_append, h]

theorem take_sub_append (acc xs : List Nat) :
    (acc ++ xs).take ((acc ++ xs).length - xs.length) = acc := by
  simp

theorem step_kv_isSome (s : State) (op : Op) (h : s.kv.isSome = true) :
    (step .tracked s op).st.kv.isSome = true := by
  obtain ⟨held, hk⟩ := Option.isSome_iff_exists.mp h
  cases op <;> simp [step, generateImpl, generateFail, hk] <;> (try split) <;> simp [hk]

/-- One operation: the `Sub` bookkeeping follows `acc ++ (tokens fed successfully) ++ pending`. -/
theorem sub_step (s : State) (op : Op) (acc : List Nat) (h : s.kv.isSome = true) :
    Sub.step ⟨acc ++ s.inputIds, s.inputIds.length⟩ op =
      ⟨acc ++ fed (okCalls (step .tracked s op).call.toList) ++ (step .tracked s op).st.inputIds,
       (step .tracked s op).st.inputIds.length⟩ := by
  obtain ⟨held, hk⟩ := Option.isSome_iff_exists.mp h
  cases op with
  | withPrompt p => simp [Sub.step, step, fed, okCalls]
  | append p => simp [Sub.step, step, fed, okCalls]
  | clear => simp [Sub.step, step, fed, okCalls]
  | process => simp [Sub.step, step, generateImpl, hk, callOf, fed, okCalls]
  | nextBadLogits => simp [Sub.step, step, generateImpl, hk, callOf, fed, okCalls]
  | processFail => simp [Sub.step, step, generateFail, callOf, fed, okCalls]
  | nextFail => simp [Sub.step, step, generateFail, callOf, fed, okCalls]
  | nextEmpty =>
    by_cases he : s.inputIds = [] <;>
      simp [Sub.step, step, generateImpl, hk, callOf, fed, okCalls, he]
  | next t =>
    by_cases he : s.inputIds = []
    · simp [Sub.step, step, generateImpl, hk, callOf, fed, okCalls, he]
    · have hl : s.inputIds.length ≠ 0 := by
        intro h0; exact he (List.length_eq_zero_iff.mp h0)
      simp [Sub.step, step, generateImpl, hk, callOf, fed, okCalls, he, hl]

theorem sub_runFrom (ops : List Op) (s : State) (acc : List Nat) (h : s.kv.isSome = true) :
    ops.foldl Sub.step ⟨acc ++ s.inputIds, s.inputIds.length⟩ =
      ⟨acc ++ fed (okCalls (runFrom .tracked s ops).2) ++ (runFrom .tracked s ops).1.inputIds,
       (runFrom .tracked s ops).1.inputIds.length⟩ := by
  induction ops generalizing s acc with
  | nil => simp [runFrom, fed, okCalls]
  | cons op ops ih =>
    simp only [List.foldl_cons, runFrom]
    rw [sub_step s op acc h, ih _ _ (step_kv_isSome s op h)]
    simp [fed, okCalls, List.filter_append, List.flatMap_append, List.append_assoc]

/-- Appending prompts only extends the pending tokens and calls nothing. -/
theorem runFrom_appends (r : Rule) (s : State) (ps : List (List Nat)) (rest : List Op) :
    runFrom r s (ps.map Op.append ++ rest) =
      runFrom r { s with inputIds := s.inputIds ++ ps.flatten } rest := by
  induction ps generalizing s with
  | nil => simp
  | cons p ps ih =>
    simp only [List.map_cons, List.cons_append, runFrom, step, Option.toList, List.nil_append]
    rw [ih]
    simp [List.append_assoc]

end RtenVerif.Generator
