import RtenVerif.Model.Generator

/-!
Helper lemmas for C32: the refinement invariant between the generator model
(`State`, rule `.tracked`), the bookkeeping-free specification (`Spec`) and the model's
call log, and its preservation by every operation.
-/
namespace RtenVerif.Generator

theorem fed_append (l : List Call) (c : Call) : fed (l ++ [c]) = fed l ++ c.toks := by
  simp [fed, List.flatMap_append]

theorem fed_nil : fed [] = [] := rfl

theorem logOk_append (l : List Call) (c : Call) (i p : Nat) :
    logOk i p (l ++ [c]) =
      (logOk i p l && (c.start == p + (fed l).length &&
        c.cacheIn == some (i + l.length, p + (fed l).length))) := by
  induction l generalizing i p with
  | nil => simp [logOk, fed]
  | cons d ds ih =>
    simp only [List.cons_append, logOk, ih, fed, List.flatMap_cons, List.length_append,
      List.length_cons]
    have h1 : p + d.toks.length + (List.flatMap (fun x => x.toks) ds).length
        = p + (d.toks.length + (List.flatMap (fun x => x.toks) ds).length) := by omega
    have h2 : i + 1 + ds.length = i + (ds.length + 1) := by omega
    rw [h1, h2]
    simp only [Bool.and_assoc]

theorem logOkNoKv_append (l : List Call) (c : Call) :
    logOkNoKv (l ++ [c]) = (logOkNoKv l && (c.start == 0 && c.cacheIn == none)) := by
  induction l with
  | nil => simp [logOkNoKv]
  | cons d ds ih => simp only [List.cons_append, logOkNoKv, ih, Bool.and_assoc]

/-- Flags of the pending tokens: the first `k` are already in the history, the rest fresh. -/
def flagged (xs : List Nat) (k : Nat) : List (Nat × Bool) :=
  (xs.take k).map (·, false) ++ (xs.drop k).map (·, true)

theorem flagged_toks (xs : List Nat) (k : Nat) : (flagged xs k).map (·.1) = xs := by
  simp [flagged, List.map_append, List.map_map, Function.comp_def]

theorem filter_old (l : List Nat) : (l.map (fun x => (x, false))).filter (·.2) = [] := by
  induction l with
  | nil => rfl
  | cons x xs ih => simp [ih]

theorem filter_fresh (l : List Nat) :
    (l.map (fun x => (x, true))).filter (·.2) = l.map (fun x => (x, true)) := by
  induction l with
  | nil => rfl
  | cons x xs ih => simp [ih]

theorem flagged_fresh (xs : List Nat) (k : Nat) :
    ((flagged xs k).filter (·.2)).map (·.1) = xs.drop k := by
  unfold flagged
  rw [List.filter_append, filter_old, filter_fresh]
  simp [List.map_map, Function.comp_def]

theorem flagged_zero (xs : List Nat) : flagged xs 0 = xs.map (·, true) := by
  simp [flagged]

theorem flagged_all (xs : List Nat) : flagged xs xs.length = xs.map (·, false) := by
  simp [flagged]

theorem flagged_append (xs ys : List Nat) (k : Nat) (h : k ≤ xs.length) :
    flagged (xs ++ ys) k = flagged xs k ++ ys.map (·, true) := by
  simp [flagged, List.take_append_of_le_length h, List.drop_append_of_le_length h]

theorem flagged_snoc_all (xs : List Nat) (t : Nat) :
    flagged (xs ++ [t]) (xs.length + 1) = xs.map (·, false) ++ [(t, false)] := by
  have : xs.length + 1 = (xs ++ [t]).length := by simp
  rw [this, flagged_all]; simp

theorem flagged_isEmpty (xs : List Nat) (k : Nat) : (flagged xs k).isEmpty = xs.isEmpty := by
  cases xs with
  | nil => simp [flagged]
  | cons x xs =>
    cases k with
    | zero => simp [flagged]
    | succ k => simp [flagged]

theorem flagged_clear (xs : List Nat) (k : Nat) :
    (flagged xs k).map (fun x => (x.1, false)) = xs.map (·, false) := by
  have h := congrArg (List.map (·, false)) (flagged_toks xs k)
  simpa [List.map_map, Function.comp_def] using h

/-- The refinement invariant. -/
structure Inv (hasKv : Bool) (s : State) (sp : Spec) (log : List Call) : Prop where
  rec_le : s.recorded ≤ s.inputIds.length
  pend : sp.pend = flagged s.inputIds s.recorded
  prev : s.prev = sp.hist
  calls : log.map (·.toks) = sp.calls
  ncalls : s.calls = log.length
  kvOn : hasKv = true →
    s.kv = some (log.length, (fed log).length) ∧ s.offset = (fed log).length ∧ logOk 0 0 log = true
  kvOff : hasKv = false → s.kv = none ∧ s.offset = 0 ∧ logOkNoKv log = true

theorem inv_init (hasKv : Bool) : Inv hasKv (State.init hasKv) Spec.init [] := by
  constructor <;> simp [State.init, Spec.init, flagged, fed, logOk, logOkNoKv]

/-- `generate_impl` preserves the invariant (against `Spec.feed`). -/
theorem inv_generateImpl (hasKv : Bool) (s : State) (sp : Spec) (log : List Call) (lg : Bool)
    (h : Inv hasKv s sp log) :
    Inv hasKv (generateImpl .tracked s lg).1 (sp.feed hasKv)
      (log ++ [(generateImpl .tracked s lg).2]) ∧
    (hasKv = true → (generateImpl .tracked s lg).1.inputIds = [] ∧
        (generateImpl .tracked s lg).1.recorded = 0) ∧
    (hasKv = false → (generateImpl .tracked s lg).1.inputIds = s.inputIds ∧
        (generateImpl .tracked s lg).1.recorded = s.inputIds.length) := by
  obtain ⟨hrec, hpend, hprev, hcalls, hn, hon, hoff⟩ := h
  cases hasKv with
  | true =>
    obtain ⟨hkv, hoffs, hlog⟩ := hon rfl
    simp only [generateImpl, hkv]
    refine ⟨⟨?_, ?_, ?_, ?_, ?_, ?_, ?_⟩, ?_, ?_⟩
    · simp
    · simp [Spec.feed, flagged]
    · simp [Spec.feed, hpend, flagged_fresh, hprev]
    · simp [Spec.feed, hpend, flagged_toks, hcalls]
    · simp [hn]
    · intro _
      refine ⟨?_, ?_, ?_⟩
      · simp [fed_append, hn]
      · simp [fed_append, hoffs]
      · rw [logOk_append]; simp [hlog, hoffs]
    · intro hc; cases hc
    · intro _; simp
    · intro hc; cases hc
  | false =>
    obtain ⟨hkv, hoffs, hlog⟩ := hoff rfl
    simp only [generateImpl, hkv]
    refine ⟨⟨?_, ?_, ?_, ?_, ?_, ?_, ?_⟩, ?_, ?_⟩
    · simp
    · simp [Spec.feed, hpend, flagged_clear, flagged_all]
    · simp [Spec.feed, hpend, flagged_fresh, hprev]
    · simp [Spec.feed, hpend, flagged_toks, hcalls]
    · simp [hn]
    · intro hc; cases hc
    · intro _
      refine ⟨rfl, hoffs, ?_⟩
      rw [logOkNoKv_append]; simp [hlog, hoffs]
    · intro hc; cases hc
    · intro _; simp

/-- Every operation preserves the invariant. -/
theorem inv_step (hasKv : Bool) (s : State) (sp : Spec) (log : List Call) (op : Op)
    (h : Inv hasKv s sp log) :
    Inv hasKv (step .tracked s op).st (sp.step hasKv op)
      (log ++ (step .tracked s op).call.toList) := by
  cases op with
  | withPrompt p =>
    obtain ⟨hrec, hpend, hprev, hcalls, hn, hon, hoff⟩ := h
    simp only [step, Spec.step, Option.toList, List.append_nil]
    exact ⟨by simp, by simp [flagged_zero], hprev, hcalls, hn, hon, hoff⟩
  | append p =>
    obtain ⟨hrec, hpend, hprev, hcalls, hn, hon, hoff⟩ := h
    simp only [step, Spec.step, Option.toList, List.append_nil]
    exact ⟨by simp; omega, by simp [hpend, flagged_append _ _ _ hrec], hprev, hcalls, hn, hon, hoff⟩
  | clear =>
    obtain ⟨hrec, hpend, hprev, hcalls, hn, hon, hoff⟩ := h
    simp only [step, Spec.step, Option.toList, List.append_nil]
    exact ⟨by simp, by simp [flagged], hprev, hcalls, hn, hon, hoff⟩
  | process =>
    have hg := (inv_generateImpl hasKv s sp log false h).1
    simpa [step, Spec.step, Option.toList] using hg
  | nextEmpty =>
    have hg := (inv_generateImpl hasKv s sp log true h).1
    by_cases he : s.inputIds.isEmpty = true <;>
      simpa [step, Spec.step, Option.toList, he] using hg
  | next t =>
    obtain ⟨hg, hk1, hk0⟩ := inv_generateImpl hasKv s sp log true h
    have hpe : sp.pend.isEmpty = s.inputIds.isEmpty := by rw [h.pend, flagged_isEmpty]
    by_cases he : s.inputIds.isEmpty = true
    · simpa [step, Spec.step, Option.toList, he, hpe] using hg
    · simp only [step, Spec.step, he, hpe, Option.toList, Bool.false_eq_true, ↓reduceIte]
      obtain ⟨grec, gpend, gprev, gcalls, gn, gon, goff⟩ := hg
      refine ⟨?_, ?_, ?_, gcalls, gn, gon, goff⟩
      · simp; exact grec
      · cases hasKv with
        | true =>
          obtain ⟨hi, hr⟩ := hk1 rfl
          simp [Spec.feed, hi, hr, flagged]
        | false =>
          obtain ⟨hi, hr⟩ := hk0 rfl
          simp only [hi, hr, flagged_snoc_all]
          simp [Spec.feed, h.pend, flagged_clear]
      · simp [gprev]

/-- The invariant holds along every history. -/
theorem inv_runFrom (hasKv : Bool) (ops : List Op) (s : State) (sp : Spec) (log : List Call)
    (h : Inv hasKv s sp log) :
    Inv hasKv (runFrom .tracked s ops).1 (Spec.runFrom hasKv sp ops)
      (log ++ (runFrom .tracked s ops).2) := by
  induction ops generalizing s sp log with
  | nil => simpa [runFrom, Spec.runFrom] using h
  | cons op ops ih =>
    have h1 := inv_step hasKv s sp log op h
    have h2 := ih _ _ _ h1
    simpa [runFrom, Spec.runFrom, List.append_assoc] using h2

theorem inv_run (hasKv : Bool) (ops : List Op) :
    Inv hasKv (run .tracked hasKv ops).1 (Spec.run hasKv ops) (run .tracked hasKv ops).2 := by
  have h := inv_runFrom hasKv ops _ _ _ (inv_init hasKv)
  simpa [run, Spec.run] using h

/-- `logOk` implies the flattened position list is `0, 1, 2, …`. -/
theorem positions_of_logOk (log : List Call) (i p : Nat) (h : logOk i p log = true) :
    positions log = List.range' p (fed log).length := by
  induction log generalizing i p with
  | nil => simp [positions, fed]
  | cons c cs ih =>
    simp only [logOk, Bool.and_eq_true, beq_iff_eq] at h
    obtain ⟨⟨hs, _⟩, hrest⟩ := h
    have := ih _ _ hrest
    simp only [positions, fed, List.flatMap_cons, List.length_append] at this ⊢
    rw [this, hs, List.range'_append_1]

/-- Per-call reading of `logOk`. -/
theorem logOk_get (log : List Call) (i p : Nat) (h : logOk i p log = true) (k : Nat)
    (hk : k < log.length) :
    log[k].start = p + (fed (log.take k)).length ∧
    log[k].cacheIn = some (i + k, p + (fed (log.take k)).length) := by
  induction log generalizing i p k with
  | nil => simp at hk
  | cons c cs ih =>
    simp only [logOk, Bool.and_eq_true, beq_iff_eq] at h
    obtain ⟨⟨hs, hc⟩, hrest⟩ := h
    cases k with
    | zero => simp [fed, hs, hc]
    | succ k =>
      have hk' : k < cs.length := by simpa using hk
      have := ih _ _ hrest k hk'
      simp only [List.getElem_cons_succ, List.take_succ_cons, fed, List.flatMap_cons,
        List.length_append] at this ⊢
      constructor
      · rw [this.1]; omega
      · rw [this.2]; congr 1; ext <;> simp <;> omega

theorem logOkNoKv_get (log : List Call) (h : logOkNoKv log = true) (k : Nat)
    (hk : k < log.length) : log[k].start = 0 ∧ log[k].cacheIn = none := by
  induction log generalizing k with
  | nil => simp at hk
  | cons c cs ih =>
    simp only [logOkNoKv, Bool.and_eq_true, beq_iff_eq] at h
    obtain ⟨⟨hs, hc⟩, hrest⟩ := h
    cases k with
    | zero => simp [hs, hc]
    | succ k => simpa using ih hrest k (by simpa using hk)

end RtenVerif.Generator
