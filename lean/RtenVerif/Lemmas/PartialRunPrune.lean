import RtenVerif.Model.PartialRun
import RtenVerif.Lemmas.PlannerSpec
/-!
# `prune_plan`: loop invariants (C04 T3, T4)
-/
namespace RtenVerif.PartialRun
open RtenVerif.Graph RtenVerif.Planner

theorem prunedAt_false {g : Graph} {r : List Nat} {op : OpNode} (h : prunedAt g r op = false) :
    op.deterministic = true ∧ depsResolved g r op = true ∧ hasUnresolvedCaptures g op = false := by
  unfold prunedAt at h
  cases h1 : op.deterministic <;> cases h2 : depsResolved g r op <;>
    cases h3 : hasUnresolvedCaptures g op <;> simp [h1, h2, h3] at h ⊢

theorem mem_addNew {c os : List Nat} {v : Nat} : v ∈ addNew c os ↔ v ∈ c ∨ v ∈ os := by
  induction os generalizing c with
  | nil => simp [addNew]
  | cons o os ih =>
    simp only [addNew]
    by_cases h : c.contains o = true
    · simp only [h, if_true, ih, List.mem_cons]
      have : o ∈ c := List.contains_iff_mem.mp h
      constructor
      · rintro (h1 | h1)
        · exact Or.inl h1
        · exact Or.inr (Or.inr h1)
      · rintro (h1 | rfl | h1)
        · exact Or.inl h1
        · exact Or.inl this
        · exact Or.inr h1
    · rw [if_neg h, ih]
      simp only [List.mem_append, List.mem_cons, List.not_mem_nil, or_false]
      constructor
      · rintro ((h1 | h1) | h1)
        · exact Or.inl h1
        · exact Or.inr (Or.inl h1)
        · exact Or.inr (Or.inr h1)
      · rintro (h1 | h1 | h1)
        · exact Or.inl (Or.inl h1)
        · exact Or.inl (Or.inr h1)
        · exact Or.inr h1

theorem addNew_nodup {c os : List Nat} (h : c.Nodup) : (addNew c os).Nodup := by
  induction os generalizing c with
  | nil => simpa [addNew] using h
  | cons o os ih =>
    simp only [addNew]
    by_cases hc : c.contains o = true
    · simp only [hc, if_true]; exact ih h
    · simp only [hc]
      apply ih
      have : o ∉ c := fun hm => hc (List.contains_iff_mem.mpr hm)
      rw [List.nodup_append]
      refine ⟨h, by simp, ?_⟩
      intro a ha b hb
      simp only [List.mem_singleton] at hb
      subst hb
      intro hab; subst hab; exact this ha

theorem pruneStep_none {g : Graph} {st : PruneSt} {id : Nat} (h : getOp g id = none) :
    pruneStep g st id = st := by
  simp [pruneStep, h]

theorem pruneStep_pruned {g : Graph} {st : PruneSt} {id : Nat} {op : OpNode}
    (h : getOp g id = some op) (hp : prunedAt g st.resolved op = true) :
    pruneStep g st id =
      { st with prIn := st.prIn ++ (opDeps g op).filter (rContains g st.resolved) } := by
  simp [pruneStep, h, hp]

theorem pruneStep_kept {g : Graph} {st : PruneSt} {id : Nat} {op : OpNode}
    (h : getOp g id = some op) (hp : prunedAt g st.resolved op = false) :
    pruneStep g st id =
      { resolved := st.resolved ++ opOutputs op, kept := st.kept ++ [id],
        cand := addNew st.cand (opOutputs op), prIn := st.prIn } := by
  simp [pruneStep, h, hp]

/-- Case analysis of one step. -/
theorem pruneStep_cases (g : Graph) (st : PruneSt) (id : Nat) :
    (getOp g id = none ∧ pruneStep g st id = st) ∨
    (∃ op, getOp g id = some op ∧ prunedAt g st.resolved op = true ∧
      pruneStep g st id =
        { st with prIn := st.prIn ++ (opDeps g op).filter (rContains g st.resolved) }) ∨
    (∃ op, getOp g id = some op ∧ prunedAt g st.resolved op = false ∧
      pruneStep g st id =
        { resolved := st.resolved ++ opOutputs op, kept := st.kept ++ [id],
          cand := addNew st.cand (opOutputs op), prIn := st.prIn }) := by
  cases h : getOp g id with
  | none => exact Or.inl ⟨rfl, pruneStep_none h⟩
  | some op =>
    cases hp : prunedAt g st.resolved op with
    | true => exact Or.inr (Or.inl ⟨op, rfl, hp, pruneStep_pruned h hp⟩)
    | false => exact Or.inr (Or.inr ⟨op, rfl, hp, pruneStep_kept h hp⟩)

/-- Invariant rule for the loop. -/
theorem foldl_pruneStep_inv {g : Graph} (P : PruneSt → Prop)
    (hstep : ∀ st id, P st → P (pruneStep g st id)) :
    ∀ (plan : List Nat) (st : PruneSt), P st → P (plan.foldl (pruneStep g) st) := by
  intro plan
  induction plan with
  | nil => intro st h; exact h
  | cons a rest ih => intro st h; exact ih _ (hstep st a h)

/-- Everything only grows. -/
structure Grows (a b : PruneSt) : Prop where
  resolved : ∀ v ∈ a.resolved, v ∈ b.resolved
  kept : ∀ v ∈ a.kept, v ∈ b.kept
  cand : ∀ v ∈ a.cand, v ∈ b.cand
  prIn : ∀ v ∈ a.prIn, v ∈ b.prIn

theorem Grows.refl (a : PruneSt) : Grows a a := ⟨fun _ h => h, fun _ h => h, fun _ h => h, fun _ h => h⟩

theorem Grows.trans {a b c : PruneSt} (h1 : Grows a b) (h2 : Grows b c) : Grows a c :=
  ⟨fun v h => h2.resolved v (h1.resolved v h), fun v h => h2.kept v (h1.kept v h),
   fun v h => h2.cand v (h1.cand v h), fun v h => h2.prIn v (h1.prIn v h)⟩

theorem pruneStep_grows (g : Graph) (st : PruneSt) (id : Nat) : Grows st (pruneStep g st id) := by
  rcases pruneStep_cases g st id with ⟨_, h⟩ | ⟨op, _, _, h⟩ | ⟨op, _, _, h⟩
  · rw [h]; exact Grows.refl _
  · rw [h]
    exact ⟨fun _ h => h, fun _ h => h, fun _ h => h, fun _ h => List.mem_append_left _ h⟩
  · rw [h]
    exact ⟨fun _ h => List.mem_append_left _ h, fun _ h => List.mem_append_left _ h,
      fun _ h => mem_addNew.mpr (Or.inl h), fun _ h => h⟩

theorem foldl_grows (g : Graph) (plan : List Nat) (st : PruneSt) :
    Grows st (plan.foldl (pruneStep g) st) := by
  induction plan generalizing st with
  | nil => exact Grows.refl _
  | cons a rest ih => exact (pruneStep_grows g st a).trans (ih _)

/-- `candidate_outputs` and `resolved_values` hold the same ids. -/
theorem pruneFold_resolved_iff_cand (g : Graph) (plan ins : List Nat) :
    ∀ v, v ∈ (pruneFold g plan ins).resolved ↔ v ∈ (pruneFold g plan ins).cand := by
  unfold pruneFold
  apply foldl_pruneStep_inv (fun st => ∀ v, v ∈ st.resolved ↔ v ∈ st.cand)
  · intro st id h
    rcases pruneStep_cases g st id with ⟨_, h'⟩ | ⟨op, _, _, h'⟩ | ⟨op, _, _, h'⟩ <;> rw [h']
    · exact h
    · exact h
    · intro v
      show v ∈ st.resolved ++ _ ↔ v ∈ addNew st.cand _
      rw [mem_addNew, List.mem_append, h v]
  · intro v; exact Iff.rfl

/-- The candidate list has no duplicates (the supplied ids are distinct). -/
theorem pruneFold_cand_nodup (g : Graph) (plan ins : List Nat) (h : ins.Nodup) :
    (pruneFold g plan ins).cand.Nodup := by
  unfold pruneFold
  apply foldl_pruneStep_inv (fun st => st.cand.Nodup)
  · intro st id h
    rcases pruneStep_cases g st id with ⟨_, h'⟩ | ⟨op, _, _, h'⟩ | ⟨op, _, _, h'⟩ <;> rw [h']
    · exact h
    · exact h
    · exact addNew_nodup h
  · exact h

/-! ## T3 — kept operators are deterministic operators of the plan -/

theorem kept_spec (g : Graph) (plan ins : List Nat) :
    ∀ k ∈ (pruneFold g plan ins).kept,
      k ∈ plan ∧ ∃ op, getOp g k = some op ∧ op.deterministic = true := by
  have key : ∀ (plan : List Nat) (st : PruneSt),
      (∀ k ∈ st.kept, ∃ op, getOp g k = some op ∧ op.deterministic = true) →
      ∀ k ∈ (plan.foldl (pruneStep g) st).kept,
        (k ∈ st.kept ∨ k ∈ plan) ∧ ∃ op, getOp g k = some op ∧ op.deterministic = true := by
    intro plan
    induction plan with
    | nil => intro st h k hk; exact ⟨Or.inl hk, h k hk⟩
    | cons a rest ih =>
      intro st h k hk
      have hst : ∀ k ∈ (pruneStep g st a).kept,
          (k ∈ st.kept ∨ k = a) ∧ ∃ op, getOp g k = some op ∧ op.deterministic = true := by
        intro k hk
        rcases pruneStep_cases g st a with ⟨_, h'⟩ | ⟨op, _, _, h'⟩ | ⟨op, hop, hp, h'⟩
        · rw [h'] at hk; exact ⟨Or.inl hk, h k hk⟩
        · rw [h'] at hk; exact ⟨Or.inl hk, h k hk⟩
        · rw [h'] at hk
          rcases List.mem_append.mp hk with hk | hk
          · exact ⟨Or.inl hk, h k hk⟩
          · have : k = a := by simpa using hk
            subst this
            exact ⟨Or.inr rfl, op, hop, (prunedAt_false hp).1⟩
      obtain ⟨hmem, hop⟩ := ih (pruneStep g st a) (fun k hk => (hst k hk).2) k hk
      refine ⟨?_, hop⟩
      rcases hmem with hmem | hmem
      · rcases (hst k hmem).1 with h1 | h1
        · exact Or.inl h1
        · exact Or.inr (by rw [h1]; exact List.mem_cons_self)
      · exact Or.inr (List.mem_cons_of_mem _ hmem)
  intro k hk
  obtain ⟨h1, h2⟩ := key plan (pruneInit ins) (by intro k hk; simp [pruneInit] at hk) k hk
  refine ⟨?_, h2⟩
  rcases h1 with h1 | h1
  · simp [pruneInit] at h1
  · exact h1

/-! ## T4 — what is resolved is computable from the supplied values -/

/-- `v` can be computed from the supplied values `S` and constants by deterministic
operators alone (that capture nothing from outside the graph): it does not (transitively)
depend on a missing input nor on a non-deterministic operator. -/
inductive Computable (g : Graph) (S : List Nat) : Nat → Prop
  | supplied {v : Nat} : v ∈ S → Computable g S v
  | const {v : Nat} : isConstant g v = true → Computable g S v
  | op {v p : Nat} {op : OpNode} : getOp g p = some op → op.deterministic = true →
      hasUnresolvedCaptures g op = false →
      (∀ d ∈ opDeps g op, Computable g S d) → v ∈ opOutputs op → Computable g S v

theorem computable_of_rContains {g : Graph} {S r : List Nat}
    (h : ∀ v ∈ r, Computable g S v) {d : Nat} (hd : rContains g r d = true) :
    Computable g S d := by
  simp only [rContains, Bool.or_eq_true, List.contains_iff_mem] at hd
  rcases hd with hd | hd
  · exact h d hd
  · exact .const hd

theorem resolved_computable (g : Graph) (plan ins : List Nat) :
    ∀ v ∈ (pruneFold g plan ins).resolved, Computable g ins v := by
  unfold pruneFold
  apply foldl_pruneStep_inv (fun st => ∀ v ∈ st.resolved, Computable g ins v)
  · intro st id h
    rcases pruneStep_cases g st id with ⟨_, h'⟩ | ⟨op, _, _, h'⟩ | ⟨op, hop, hp, h'⟩ <;> rw [h']
    · exact h
    · exact h
    · intro v hv
      rcases List.mem_append.mp hv with hv | hv
      · exact h v hv
      · obtain ⟨hdet, hres, hcap⟩ := prunedAt_false hp
        rw [depsResolved_iff] at hres
        exact .op hop hdet hcap (fun d hd => computable_of_rContains h (hres d hd)) hv
  · intro v hv
    exact .supplied (by simpa [pruneInit] using hv)

/-- Membership in `new_outputs`. -/
theorem mem_newOutputs {st : PruneSt} {outs : List Nat} {v : Nat} :
    v ∈ newOutputs st outs ↔ v ∈ st.cand ∧ (v ∈ outs ∨ v ∈ st.prIn) := by
  simp [newOutputs, List.mem_filter]

/-- Decomposition of the fold at an entry of the plan. -/
theorem pruneFold_split (g : Graph) (pre post ins : List Nat) (b : Nat) :
    pruneFold g (pre ++ b :: post) ins =
      post.foldl (pruneStep g) (pruneStep g (pruneFold g pre ins) b) := by
  simp [pruneFold, List.foldl_append]

/-- **T4b (loop level)** a dependency of a pruned operator that is resolved when the loop
reaches the operator, and is not a constant, is among the returned ids. -/
theorem pruned_input_returned {g : Graph} {pre post ins outs : List Nat} {b d : Nat} {op : OpNode}
    (hop : getOp g b = some op)
    (hp : prunedAt g (pruneFold g pre ins).resolved op = true)
    (hd : d ∈ opDeps g op) (hr : rContains g (pruneFold g pre ins).resolved d = true)
    (hc : isConstant g d = false) :
    d ∈ newOutputs (pruneFold g (pre ++ b :: post) ins) outs := by
  rw [mem_newOutputs, pruneFold_split]
  have hstep := pruneStep_pruned (st := pruneFold g pre ins) hop hp
  have hgrow := foldl_grows g post (pruneStep g (pruneFold g pre ins) b)
  have hdres : d ∈ (pruneFold g pre ins).resolved := by
    simp only [rContains, Bool.or_eq_true, List.contains_iff_mem, hc] at hr
    simpa using hr
  constructor
  · apply hgrow.cand
    rw [hstep]
    show d ∈ (pruneFold g pre ins).cand
    exact (pruneFold_resolved_iff_cand g pre ins d).mp hdres
  · right
    apply hgrow.prIn
    rw [hstep]
    show d ∈ (pruneFold g pre ins).prIn ++ _
    exact List.mem_append_right _ (List.mem_filter.mpr ⟨hd, hr⟩)

/-- An operator kept when the loop reaches it is in the final kept list, and its outputs are
final candidates. -/
theorem kept_at_step {g : Graph} {pre post ins : List Nat} {b : Nat} {op : OpNode}
    (hop : getOp g b = some op)
    (hp : prunedAt g (pruneFold g pre ins).resolved op = false) :
    b ∈ (pruneFold g (pre ++ b :: post) ins).kept ∧
      ∀ v ∈ opOutputs op, v ∈ (pruneFold g (pre ++ b :: post) ins).cand := by
  rw [pruneFold_split]
  have hstep := pruneStep_kept (st := pruneFold g pre ins) hop hp
  have hgrow := foldl_grows g post (pruneStep g (pruneFold g pre ins) b)
  constructor
  · apply hgrow.kept; rw [hstep]; exact List.mem_append_right _ (by simp)
  · intro v hv; apply hgrow.cand; rw [hstep]; exact mem_addNew.mpr (Or.inr hv)

/-- Candidates are the supplied ids and outputs of kept operators. -/
theorem cand_spec (g : Graph) (plan ins : List Nat) :
    ∀ v ∈ (pruneFold g plan ins).cand,
      v ∈ ins ∨ ∃ k ∈ (pruneFold g plan ins).kept, v ∈ outsOf g k := by
  unfold pruneFold
  apply foldl_pruneStep_inv (fun st => ∀ v ∈ st.cand, v ∈ ins ∨ ∃ k ∈ st.kept, v ∈ outsOf g k)
  · intro st id h
    rcases pruneStep_cases g st id with ⟨_, h'⟩ | ⟨op, _, _, h'⟩ | ⟨op, hop, hp, h'⟩ <;> rw [h']
    · exact h
    · exact h
    · intro v hv
      rcases mem_addNew.mp hv with hv | hv
      · rcases h v hv with h1 | ⟨k, hk, hv'⟩
        · exact Or.inl h1
        · exact Or.inr ⟨k, List.mem_append_left _ hk, hv'⟩
      · exact Or.inr ⟨id, List.mem_append_right _ (by simp), by simp [outsOf, hop, hv]⟩
  · intro v hv
    exact Or.inl (by simpa [pruneInit] using hv)

end RtenVerif.PartialRun
