import RtenVerif.Lemmas.PlannerBasic
/-!
# Termination of the depth-first traversal (C03.T1)

`visit` recurses only into operators that are not in the active set, and pushes
itself onto the active set first.  The active set is therefore a duplicate-free
list of operator ids `< g.nodes.length` that grows by one per recursion level, so
the recursion depth never exceeds the number of nodes: a fuel budget of
`g.nodes.length` is never exhausted, for any graph (cyclic or not), any options and
any request.
-/
namespace RtenVerif.Planner
open RtenVerif.Graph

/-- A successful call leaves the active set as it found it. -/
def ActiveFrame (rec : Nat → OpNode → St → Except PlanError St) : Prop :=
  ∀ p pop st st', p ∉ st.active → rec p pop st = .ok st' → st'.active = st.active

theorem depsLoop_active {g : Graph} {opts : PlanOptions}
    {rec : Nat → OpNode → St → Except PlanError St} (hrec : ActiveFrame rec) :
    ∀ (ds : List Nat) (st st' : St), depsLoop g opts rec ds st = .ok st' → st'.active = st.active := by
  intro ds
  induction ds with
  | nil => intro st st' h; simp only [depsLoop] at h; injection h with h; subst h; rfl
  | cons d ds ih =>
    intro st st' h
    simp only [depsLoop] at h
    split at h
    · exact ih _ _ h
    · split at h
      · split at h
        · cases h
        · split at h
          · rename_i hact _ st1 hr
            have hna : _ ∉ st.active := fun hm => hact (List.contains_iff_mem.mpr hm)
            rw [ih _ _ h]
            exact hrec _ _ _ _ hna hr
          · cases h
      · split at h
        · exact ih _ _ h
        · cases h

theorem visit_active (g : Graph) (opts : PlanOptions) : ∀ fuel, ActiveFrame (visit g opts fuel) := by
  intro fuel
  induction fuel with
  | zero => intro p pop st st' _ h; simp [visit] at h
  | succ f ih =>
    intro p pop st st' hna h
    simp only [visit] at h
    split at h
    · rename_i st1 hl
      injection h with h; subst h
      have := depsLoop_active ih _ _ _ hl
      simp only [this]
      simp only [List.filter_cons, bne_self_eq_false, Bool.false_eq_true, if_false]
      rw [List.filter_eq_self]
      intro a ha
      simp only [bne_iff_ne, ne_eq]
      rintro rfl
      exact hna ha
    · cases h

/-- A duplicate-free list of numbers below `N` has at most `N` elements. -/
theorem nodup_lt_length_le {l : List Nat} {N : Nat} (hn : l.Nodup) (hlt : ∀ a ∈ l, a < N) :
    l.length ≤ N := by
  have hsub : l ⊆ List.range N := fun a ha => List.mem_range.mpr (hlt a ha)
  have := List.Nodup.length_le_of_subset hn hsub
  simpa using this

/-- With active set `A`, budget `K` suffices as soon as `N ≤ K + |A|`. -/
def NoFuelErr (N K : Nat) (rec : Nat → OpNode → St → Except PlanError St) : Prop :=
  ∀ p pop st, p < N → p ∉ st.active → st.active.Nodup → (∀ a ∈ st.active, a < N) →
    N ≤ K + st.active.length → rec p pop st ≠ .error .outOfFuel

theorem depsLoop_fuel {g : Graph} {opts : PlanOptions} {K : Nat}
    {rec : Nat → OpNode → St → Except PlanError St}
    (hrec : NoFuelErr g.nodes.length K rec) (hfr : ActiveFrame rec) :
    ∀ (ds : List Nat) (st : St), st.active.Nodup → (∀ a ∈ st.active, a < g.nodes.length) →
      g.nodes.length ≤ K + st.active.length → depsLoop g opts rec ds st ≠ .error .outOfFuel := by
  intro ds
  induction ds with
  | nil => intro st _ _ _ h; simp [depsLoop] at h
  | cons d ds ih =>
    intro st hnd hlt hK h
    simp only [depsLoop] at h
    split at h
    · exact ih _ hnd hlt hK h
    · split at h
      · rename_i p pop hs
        split at h
        · cases h
        · rename_i hact
          have hna : p ∉ st.active := fun hm => hact (List.contains_iff_mem.mpr hm)
          have hp : p < g.nodes.length := getOp_lt (getSource_spec hs).2.1
          split at h
          · rename_i st1 hr
            have ha := hfr _ _ _ _ hna hr
            exact ih st1 (ha ▸ hnd) (ha ▸ hlt) (ha ▸ hK) h
          · rename_i e hr
            injection h with h; subst h
            exact hrec p pop st hp hna hnd hlt hK hr
      · split at h
        · exact ih _ hnd hlt hK h
        · cases h

theorem visit_fuel (g : Graph) (opts : PlanOptions) :
    ∀ K, NoFuelErr g.nodes.length K (visit g opts K) := by
  intro K
  induction K with
  | zero =>
    intro p pop st hp hna hnd hlt hK _
    have h1 : (p :: st.active).Nodup := List.nodup_cons.mpr ⟨hna, hnd⟩
    have h2 : ∀ a ∈ p :: st.active, a < g.nodes.length := by
      intro a ha
      rcases List.mem_cons.mp ha with rfl | ha
      · exact hp
      · exact hlt a ha
    have := nodup_lt_length_le h1 h2
    simp only [List.length_cons] at this
    omega
  | succ K ih =>
    intro p pop st hp hna hnd hlt hK h
    simp only [visit] at h
    split at h
    · cases h
    · rename_i e hl
      injection h with h; subst h
      refine depsLoop_fuel ih (visit_active g opts K) (opDeps g pop)
        { st with active := p :: st.active } ?_ ?_ ?_ hl
      · exact List.nodup_cons.mpr ⟨hna, hnd⟩
      · intro a ha
        rcases List.mem_cons.mp ha with rfl | ha
        · exact hp
        · exact hlt a ha
      · simp only [List.length_cons]; omega

theorem planOutputs_fuel (g : Graph) (opts : PlanOptions) :
    ∀ (os : List Nat) (st : St), st.active = [] →
      planOutputs g opts g.nodes.length os st ≠ .error .outOfFuel := by
  intro os
  induction os with
  | nil => intro st _ h; simp [planOutputs] at h
  | cons o os ih =>
    intro st hact h
    simp only [planOutputs] at h
    split at h
    · exact ih _ hact h
    · split at h
      · rename_i p pop hs
        have hna : p ∉ st.active := by rw [hact]; simp
        have hp : p < g.nodes.length := getOp_lt (getSource_spec hs).2.1
        split at h
        · rename_i st1 hr
          have ha := visit_active g opts _ _ _ _ _ hna hr
          exact ih st1 (ha.trans hact) h
        · rename_i e hr
          injection h with h; subst h
          exact visit_fuel g opts g.nodes.length p pop st hp hna (by rw [hact]; simp)
            (by rw [hact]; simp) (by omega) hr
      · split at h
        · exact ih _ hact h
        · cases h

/-- The depth-first phase never runs out of its `g.nodes.length` budget. -/
theorem dfsPlan_ne_outOfFuel (g : Graph) (ins outs : List Nat) (opts : PlanOptions) :
    dfsPlan g ins outs opts ≠ .error .outOfFuel :=
  planOutputs_fuel g opts outs _ rfl

end RtenVerif.Planner
