import RtenVerif.Lemmas.ExecutorInv
/-!
# C02 — one completed step preserves the simulation invariant

If the executor completes a step storing the operator outputs `P.outs`, and the naive
evaluation stores the same outputs, `Sim` carries over to the remaining plan.
-/
namespace RtenVerif.Executor
open RtenVerif.Graph

theorem naiveStore_none_mem {V : Type} (ids : List (Option Nat)) (vs : List V) (x : Nat) (y : V)
    (h : naiveStore (fun _ => none) ids vs x = some y) : x ∈ ids.filterMap id := by
  induction ids generalizing vs y with
  | nil => simp [naiveStore] at h
  | cons oid ids ih =>
    cases vs with
    | nil => simp [naiveStore] at h
    | cons v vs =>
      cases oid with
      | none => simp only [naiveStore] at h; simpa using ih vs y h
      | some k =>
        simp only [naiveStore] at h
        rw [naiveStore_apply] at h
        cases hw : naiveStore (fun _ => none) ids vs x with
        | some w => simp only [List.filterMap_cons, id]; exact List.mem_cons_of_mem _ (ih vs w hw)
        | none =>
          rw [hw] at h
          simp only [upd_apply] at h
          split at h
          · rename_i hx; subst hx; simp
          · simp at h

theorem isInput_false {V : Type} {r : Run V} {x : Nat} (h : r.isInput x = false) :
    r.borrowed x = none ∧ r.owned x = none := by
  unfold Run.isInput at h
  simp only [Bool.or_eq_false_iff, Option.isSome_eq_false_iff, Option.isNone_iff_eq_none] at h
  exact h

theorem isInput_true_owned {V : Type} {r : Run V} {x : Nat} (h : r.isInput x = true)
    (hb : r.borrowed x = none) : ∃ o, r.owned x = some o := by
  unfold Run.isInput at h
  simp only [hb, Option.isSome_none, Bool.false_or, Option.isSome_iff_exists] at h
  exact h

/-- **Preservation.** -/
theorem Sim.step' {V : Type} {ops : Ops V} {r : Run V} {st st' : St V} {i : Nat} {tr : StepTrace}
    {caps0 : Nat → Option (V × Bool)}
    {total : Nat → Nat} {rest outs : List Nat} {E : Nat → Option V} (hwf : WF r)
    (hcw : CapsWF r caps0)
    (h : step ops r st i = .ok (st', tr)) (hs : Sim r caps0 total (i :: rest) outs st E)
    {op : OpNode} {taken : List (Nat × V)} {st2 : St V} {byVal : List (Nat × V)} {vs : List V}
    {temps3 : Nat → Option V} {stored released : List Nat}
    (hop : getOp r.g i = some op) (T : TakeFacts ops r st i op taken st2 byVal)
    (hstore : storeOutputs r st2.temps op.outputs vs = (temps3, stored))
    (hrel : releaseLoop r { st2 with temps := temps3 } (opDeps r.g op) = (st', released)) :
    Sim r caps0 total rest outs st' (naiveStore E op.outputs vs) := by
  have hrc' : RcInv r.g total rest outs st'.rc := RcInv.step h hs.rcb hs.rc
  have hb2 : RcBounded st2.rc := by rw [T.rc]; exact hs.rcb
  have hst' : (releaseLoop r { st2 with temps := temps3 } (opDeps r.g op)).1 = st' := by
    rw [hrel]
  have F2 : ∀ x, st'.temps x = temps3 x ∨ (st'.temps x = none ∧ st'.rc x = 0) := by
    intro x
    have := releaseLoop_temps r { st2 with temps := temps3 } (opDeps r.g op) x hb2
    rw [hst'] at this
    rcases this with h | h
    · left; exact h
    · right; exact ⟨h.1, h.2.1⟩
  have F3 : ∀ x, temps3 x =
      if r.isInput x = true then st2.temps x else naiveStore st2.temps op.outputs vs x := by
    intro x
    have := storeOutputs_apply r hwf.fixed st2.temps op.outputs vs x
    rw [hstore] at this
    exact this
  -- values with a use that the naive evaluation knows survive the take phase
  have S : ∀ x, isValue r.g x = true → r.borrowed x = none → 0 < uses r.g rest outs x →
      val r E x ≠ none → st2.temps x ≠ none := by
    intro x hv hb hu hval
    have hu' : 0 < uses r.g (i :: rest) outs x := by
      rw [uses_cons hop rest outs x hv]; omega
    have hl := hs.live x hv hb hu' hval
    rcases T.htemps x with h | ⟨_, hr1, hmem, _⟩
    · rw [h]; exact hl
    · exfalso
      obtain ⟨h1, _⟩ := hs.rc x hv
      rw [hr1, uses_cons hop rest outs x hv] at h1
      have := List.count_pos_iff.mpr hmem
      split at h1 <;> omega
  refine ⟨step_rcBounded ops r st st' i tr h hs.rcb, hrc', ?_, ?_, ?_, ?_⟩
  · have := releaseLoop_caps r { st2 with temps := temps3 } (opDeps r.g op)
    rw [hst'] at this
    rw [this]
    show st2.caps = caps0
    rw [T.caps]; exact hs.caps
  · intro v hv
    have hnot : v ∉ op.outputs.filterMap id := (hcw.kind v hv).2.2 i op hop
    rw [naiveStore_apply]
    cases hw : naiveStore (fun _ => none) op.outputs vs v with
    | some w => exact absurd (naiveStore_none_mem _ _ _ _ hw) hnot
    | none => exact hs.capE v hv
  · -- agree
    intro x y hx
    have h3 : temps3 x = some y := by
      rcases F2 x with h | h
      · rw [← h]; exact hx
      · rw [h.1] at hx; simp at hx
    rw [F3 x] at h3
    have back : st2.temps x = some y → st.temps x = some y := by
      intro h2
      rcases T.htemps x with h | h
      · rw [← h]; exact h2
      · rw [h.1] at h2; simp at h2
    by_cases hin : r.isInput x = true
    · simp only [hin, if_true] at h3
      obtain ⟨hv, hb, hval⟩ := hs.agree x y (back h3)
      refine ⟨hv, hb, ?_⟩
      obtain ⟨o, ho⟩ := isInput_true_owned hin hb
      rw [val_value hv hb, ho] at hval ⊢
      exact hval
    · have hin' : r.isInput x = false := by simpa using hin
      simp only [hin', Bool.false_eq_true, if_false] at h3
      obtain ⟨hb, ho⟩ := isInput_false hin'
      rw [naiveStore_apply] at h3
      cases hw : naiveStore (fun _ => none) op.outputs vs x with
      | some w =>
        rw [hw] at h3
        simp only [Option.some.injEq] at h3
        subst h3
        have hv : isValue r.g x = true :=
          hwf.outsValue i op hop x (naiveStore_none_mem _ _ _ _ hw)
        refine ⟨hv, hb, ?_⟩
        rw [val_value hv hb, ho]
        simp only
        rw [naiveStore_apply, hw]
      | none =>
        rw [hw] at h3
        simp only at h3
        obtain ⟨hv, _, hval⟩ := hs.agree x y (back h3)
        refine ⟨hv, hb, ?_⟩
        rw [val_value hv hb, ho] at hval ⊢
        simp only at hval ⊢
        rw [naiveStore_apply, hw]
        exact hval
  · -- live
    intro x hv hb hu hval
    rcases F2 x with h | ⟨_, h0⟩
    · rw [h, F3 x]
      by_cases hin : r.isInput x = true
      · simp only [hin, if_true]
        apply S x hv hb hu
        obtain ⟨o, ho⟩ := isInput_true_owned hin hb
        rw [val_value hv hb, ho] at hval ⊢
        exact hval
      · have hin' : r.isInput x = false := by simpa using hin
        simp only [hin', Bool.false_eq_true, if_false]
        obtain ⟨_, ho⟩ := isInput_false hin'
        rw [naiveStore_apply]
        cases hw : naiveStore (fun _ => none) op.outputs vs x with
        | some w => simp
        | none =>
          simp only
          apply S x hv hb hu
          rw [val_value hv hb, ho] at hval ⊢
          simp only at hval ⊢
          rw [naiveStore_apply, hw] at hval
          exact hval
    · exfalso
      obtain ⟨h1, _⟩ := hrc' x hv
      rw [h0] at h1
      split at h1 <;> omega

theorem Sim.step {V : Type} {ops : Ops V} {r : Run V} {st st' : St V} {i : Nat} {tr : StepTrace}
    {caps0 : Nat → Option (V × Bool)}
    {total : Nat → Nat} {rest outs : List Nat} {E : Nat → Option V} (hwf : WF r)
    (hcw : CapsWF r caps0)
    (h : step ops r st i = .ok (st', tr)) (P : StepParts ops r st st' i tr)
    (hs : Sim r caps0 total (i :: rest) outs st E) :
    Sim r caps0 total rest outs st' (naiveStore E P.op.outputs P.outs) :=
  Sim.step' hwf hcw h hs P.hop (takeFacts P (hs.noTake hcw)) P.hstore P.hrel

end RtenVerif.Executor
