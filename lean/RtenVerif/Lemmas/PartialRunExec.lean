import RtenVerif.Lemmas.PartialRunEval
import RtenVerif.Lemmas.PlannerSpec
/-!
# Soundness of the executor model w.r.t. the naive evaluation

Whatever list of operators `run_plan` is given, if it finishes, every value it returns is the
value the naive evaluation `Den` assigns to that id (no plan validity needed: an unavailable
dependency is a panic, not a wrong value).
-/
namespace RtenVerif.PartialRun
open RtenVerif.Graph RtenVerif.Planner

section
variable {V : Type}

theorem lookup_mem {l : List (Nat × V)} {k : Nat} {v : V} (h : l.lookup k = some v) :
    (k, v) ∈ l := by
  induction l with
  | nil => simp at h
  | cons a l ih =>
    obtain ⟨k', v'⟩ := a
    simp only [List.lookup_cons] at h
    by_cases hk : k = k'
    · subst hk
      simp at h
      subst h
      exact List.mem_cons_self
    · have : (k == k') = false := by simpa using hk
      simp only [this] at h
      exact List.mem_cons_of_mem _ (ih h)

theorem lookup_none_of_not_key {l : List (Nat × V)} {k : Nat} (h : ∀ v, (k, v) ∉ l) :
    l.lookup k = none := by
  cases hl : l.lookup k with
  | none => rfl
  | some v => exact absurd (lookup_mem hl) (h v)

theorem lookup_append' (l1 l2 : List (Nat × V)) (k : Nat) :
    (l1 ++ l2).lookup k = match l1.lookup k with
      | some v => some v
      | none => l2.lookup k := by
  induction l1 with
  | nil => simp
  | cons a l1 ih =>
    obtain ⟨k', v'⟩ := a
    simp only [List.cons_append, List.lookup_cons]
    cases (k == k') <;> simp [ih]

theorem lookup_filter_ne {l : List (Nat × V)} {o k : Nat} {v : V}
    (h : (l.filter (fun p => p.1 != o)).lookup k = some v) : l.lookup k = some v := by
  induction l with
  | nil => simp at h
  | cons a l ih =>
    obtain ⟨k', v'⟩ := a
    by_cases ho : k' = o
    · have hf : (List.filter (fun p => p.1 != o) ((k', v') :: l)) = l.filter (fun p => p.1 != o) := by
        simp [List.filter_cons, ho]
      rw [hf] at h
      have := ih h
      have hk : k ≠ k' := by
        intro hkk
        subst hkk; subst ho
        have hm := lookup_mem h
        simp [List.mem_filter] at hm
      simp only [List.lookup_cons]
      have : (k == k') = false := by simpa using hk
      simp [this, ih h]
    · have hf : (List.filter (fun p => p.1 != o) ((k', v') :: l)) =
          (k', v') :: l.filter (fun p => p.1 != o) := by
        simp [List.filter_cons, ho]
      rw [hf] at h
      simp only [List.lookup_cons] at h ⊢
      cases hkk : (k == k') with
      | true => simpa [hkk] using h
      | false => simp only [hkk] at h ⊢; exact ih h

theorem lookup_filter_key {l : List (Nat × V)} {q : Nat → Bool} {k : Nat} {v : V}
    (h : (l.filter (fun p => q p.1)).lookup k = some v) : l.lookup k = some v := by
  induction l with
  | nil => simp at h
  | cons a l ih =>
    obtain ⟨k', v'⟩ := a
    by_cases hq : q k' = true
    · have hf : List.filter (fun p => q p.1) ((k', v') :: l) = (k', v') :: l.filter (fun p => q p.1) := by
        simp [hq]
      rw [hf] at h
      simp only [List.lookup_cons] at h ⊢
      cases hkk : (k == k') with
      | true => simpa [hkk] using h
      | false => simp only [hkk] at h ⊢; exact ih h
    · have hf : List.filter (fun p => q p.1) ((k', v') :: l) = l.filter (fun p => q p.1) := by
        simp [hq]
      rw [hf] at h
      have hk : k ≠ k' := by
        intro hkk
        subst hkk
        have hm := lookup_mem h
        simp only [List.mem_filter] at hm
        exact hq hm.2
      have : (k == k') = false := by simpa using hk
      simp only [List.lookup_cons, this]
      exact ih h

theorem mem_zipOuts {os : List (Option Nat)} {vs : List V} {k : Nat} {v : V}
    (h : (k, v) ∈ zipOuts os vs) : some k ∈ os := by
  induction os generalizing vs with
  | nil => simp [zipOuts] at h
  | cons o os ih =>
    cases vs with
    | nil => cases o <;> simp [zipOuts] at h
    | cons w ws =>
      cases o with
      | none =>
        simp only [zipOuts] at h
        exact List.mem_cons_of_mem _ (ih h)
      | some o =>
        simp only [zipOuts, List.mem_cons, Prod.mk.injEq] at h
        rcases h with ⟨rfl, _⟩ | h
        · exact List.mem_cons_self
        · exact List.mem_cons_of_mem _ (ih h)

theorem mem_opOutputs_of_some {op : OpNode} {k : Nat} (h : some k ∈ op.outputs) :
    k ∈ opOutputs op := by
  simp only [opOutputs, List.mem_filterMap]
  exact ⟨some k, h, rfl⟩

end

section
variable {Ω V : Type}

/-- Hypotheses tying an execution (oracle `ω`, borrowed inputs `vs`, operator list `plan`) to
the naive evaluation with oracle `ω'` on the supplied values `vI`. -/
structure Tie (g : Graph) (sem : Sem Ω V) (ω ω' : Ω) (vs vI : List (Nat × V))
    (plan : List Nat) : Prop where
  /-- every value has at most one producer -/
  up : UniqueProducer g
  /-- `vI` extends `vs` -/
  views : ∀ id v, vs.lookup id = some v → vI.lookup id = some v
  /-- an id computed by the execution (and not shadowed by a borrowed input) is not supplied in `vI` -/
  fresh : ∀ p ∈ plan, ∀ o ∈ outsOf g p, vs.lookup o = none → vI.lookup o = none
  /-- the executed operators do not look at the oracle -/
  det : ∀ p ∈ plan, ∀ args, sem ω p args = sem ω' p args

theorem Tie.tail {g : Graph} {sem : Sem Ω V} {ω ω' : Ω} {vs vI : List (Nat × V)} {p : Nat}
    {plan : List Nat} (h : Tie g sem ω ω' vs vI (p :: plan)) : Tie g sem ω ω' vs vI plan :=
  ⟨h.up, h.views, fun q hq => h.fresh q (List.mem_cons_of_mem _ hq),
    fun q hq => h.det q (List.mem_cons_of_mem _ hq)⟩

/-- Every temp that can be read is the naive evaluation's value. -/
def TempsOK (g : Graph) (sem : Sem Ω V) (ω' : Ω) (cv : Nat → V) (vs vI temps : List (Nat × V)) :
    Prop :=
  ∀ id v, temps.lookup id = some v → getNode g id = some .value → vs.lookup id = none →
    Den g sem ω' cv vI id v

variable {g : Graph} {sem : Sem Ω V} {ω ω' : Ω} {cv : Nat → V} {vs vI : List (Nat × V)}

theorem lookupVal_den {temps : List (Nat × V)}
    (hv : ∀ id v, vs.lookup id = some v → vI.lookup id = some v)
    (ht : TempsOK g sem ω' cv vs vI temps) {id : Nat} {v : V}
    (h : lookupVal g cv vs temps id = some v) : Den g sem ω' cv vI id v := by
  unfold lookupVal at h
  cases hn : getNode g id with
  | none => simp [hn] at h
  | some n =>
    cases n with
    | operator op => simp [hn] at h
    | constant =>
      simp only [hn] at h
      injection h with h
      subst h
      exact den_const g sem ω' cv vI (by simp [isConstant, hn])
    | value =>
      simp only [hn] at h
      cases hl : vs.lookup id with
      | some w =>
        simp only [hl] at h
        injection h with h
        subst h
        exact den_view g sem ω' cv vI hn (hv id w hl)
      | none =>
        simp only [hl] at h
        exact ht id v h hn hl

theorem stepOp_sound {plan sup : List Nat} {p : Nat} {temps temps' : List (Nat × V)}
    (tie : Tie g sem ω ω' vs vI plan) (hp : p ∈ plan)
    (ht : TempsOK g sem ω' cv vs vI temps)
    (h : stepOp g sem ω cv sup vs temps p = .ok temps') : TempsOK g sem ω' cv vs vI temps' := by
  unfold stepOp at h
  cases hop : getOp g p with
  | none => simp [hop] at h
  | some op =>
    simp only [hop] at h
    cases hg : gather (lookupVal g cv vs temps) (opDeps g op) with
    | none => simp [hg] at h
    | some args =>
      simp only [hg] at h
      cases hs : sem ω p args with
      | none => simp [hs] at h
      | some outs =>
        simp only [hs] at h
        by_cases hlen : outs.length < op.outputs.length
        · simp [hlen] at h
        · simp only [hlen, if_false] at h
          injection h with h
          subst h
          obtain ⟨F, hF⟩ := gather_den g sem ω' cv vI (opDeps g op) args
            (fun d _ v hv => lookupVal_den tie.views ht hv) hg
          intro id v hlk hn hl
          rw [lookup_append'] at hlk
          cases hz' : ((zipOuts op.outputs outs).reverse.filter
              (fun p => !sup.contains p.1)).lookup id with
          | none =>
            simp only [hz'] at hlk
            exact ht id v hlk hn hl
          | some w =>
            simp only [hz'] at hlk
            injection hlk with hlk
            subst hlk
            have hz := lookup_filter_key (q := fun k => !sup.contains k) hz'
            have hmem : id ∈ opOutputs op :=
              mem_opOutputs_of_some (mem_zipOuts (List.mem_reverse.mp (lookup_mem hz)))
            have hsrc : getSource g id = some (p, op) := by
              have := tie.up p op id hop hmem
              simp [getSource, this, hop]
            have hfresh : vI.lookup id = none :=
              tie.fresh p hp id (by simp [outsOf, hop, hmem]) hl
            have hs' : sem ω' p args = some outs := by rw [← tie.det p hp]; exact hs
            exact den_op g sem ω' cv vI hn hfresh hsrc hF hs' hlen hz

theorem execPlan_sound {sup : List Nat} : ∀ (plan : List Nat) (temps temps' : List (Nat × V)),
    Tie g sem ω ω' vs vI plan → TempsOK g sem ω' cv vs vI temps →
    execPlan g sem ω cv sup vs plan temps = .ok temps' → TempsOK g sem ω' cv vs vI temps'
  | [], temps, temps', _, ht, h => by
    simp only [execPlan] at h
    injection h with h
    subst h
    exact ht
  | p :: rest, temps, temps', tie, ht, h => by
    simp only [execPlan] at h
    cases hs : stepOp g sem ω cv sup vs temps p with
    | error e => simp [hs] at h
    | ok t1 =>
      simp only [hs] at h
      exact execPlan_sound rest t1 temps' tie.tail (stepOp_sound tie List.mem_cons_self ht hs) h

theorem tempsOK_filter {temps : List (Nat × V)} (o : Nat)
    (ht : TempsOK g sem ω' cv vs vI temps) :
    TempsOK g sem ω' cv vs vI (temps.filter (fun p => p.1 != o)) :=
  fun id v h hn hl => ht id v (lookup_filter_ne h) hn hl

theorem collect_sound (hv : ∀ id v, vs.lookup id = some v → vI.lookup id = some v) :
    ∀ (outs : List Nat) (temps : List (Nat × V)) (vals : List V),
    TempsOK g sem ω' cv vs vI temps → collect g cv vs outs temps = .ok vals →
    vals.length = outs.length ∧ ∀ pr ∈ outs.zip vals, Den g sem ω' cv vI pr.1 pr.2
  | [], temps, vals, _, h => by
    simp only [collect] at h
    injection h with h
    subst h
    simp
  | o :: os, temps, vals, ht, h => by
    simp only [collect] at h
    cases hn : getNode g o with
    | none => simp [hn] at h
    | some n =>
      cases n with
      | operator op => simp [hn] at h
      | constant =>
        simp only [hn] at h
        cases hc : collect g cv vs os temps with
        | error e => simp [hc] at h
        | ok vs' =>
          simp only [hc] at h
          injection h with h
          subst h
          obtain ⟨h1, h2⟩ := collect_sound hv os temps vs' ht hc
          refine ⟨by simp [h1], ?_⟩
          intro pr hpr
          simp only [List.zip_cons_cons, List.mem_cons] at hpr
          rcases hpr with rfl | hpr
          · exact den_const g sem ω' cv vI (by simp [isConstant, hn])
          · exact h2 pr hpr
      | value =>
        simp only [hn] at h
        cases hl : vs.lookup o with
        | some w =>
          simp only [hl] at h
          cases hc : collect g cv vs os temps with
          | error e => simp [hc] at h
          | ok vs' =>
            simp only [hc] at h
            injection h with h
            subst h
            obtain ⟨h1, h2⟩ := collect_sound hv os temps vs' ht hc
            refine ⟨by simp [h1], ?_⟩
            intro pr hpr
            simp only [List.zip_cons_cons, List.mem_cons] at hpr
            rcases hpr with rfl | hpr
            · exact den_view g sem ω' cv vI hn (hv o w hl)
            · exact h2 pr hpr
        | none =>
          simp only [hl] at h
          cases ht' : temps.lookup o with
          | none => simp [ht'] at h
          | some w =>
            simp only [ht'] at h
            cases hc : collect g cv vs os (temps.filter (fun p => p.1 != o)) with
            | error e => simp [hc] at h
            | ok vs' =>
              simp only [hc] at h
              injection h with h
              subst h
              obtain ⟨h1, h2⟩ := collect_sound hv os _ vs' (tempsOK_filter o ht) hc
              refine ⟨by simp [h1], ?_⟩
              intro pr hpr
              simp only [List.zip_cons_cons, List.mem_cons] at hpr
              rcases hpr with rfl | hpr
              · exact ht o w ht' hn hl
              · exact h2 pr hpr

/-- **Executor soundness**: if `run_plan` (no owned inputs) finishes, every returned value is
the naive evaluation's value of the requested id. -/
theorem runPlan_sound {plan outs : List Nat} {vals : List V}
    (tie : Tie g sem ω ω' vs vI plan)
    (h : runPlan g sem ω cv vs [] plan outs = .ok vals) :
    vals.length = outs.length ∧ ∀ pr ∈ outs.zip vals, Den g sem ω' cv vI pr.1 pr.2 := by
  unfold runPlan at h
  simp only [List.filter_nil, List.append_nil] at h
  cases he : execPlan g sem ω cv (vs.map (fun p => p.1)) vs plan [] with
  | error e => simp [he] at h
  | ok temps =>
    simp only [he] at h
    have h0 : TempsOK g sem ω' cv vs vI [] := by
      intro id v hlk; simp at hlk
    exact collect_sound tie.views outs temps vals (execPlan_sound plan [] temps tie h0 he) h

end

end RtenVerif.PartialRun
