/-
Lemmas for the blocked copy model (C14 D6): `range_chunks` / `range_chunks_exact` partition their
range; the loop nest of `copy_blocked` visits every index pair of the matrix and only those;
sequential writes whose value is a function of the slot fill a buffer once every slot is visited.
-/
import RtenVerif.Model.BlockedCopy
namespace RtenVerif.BlockedCopy

theorem mem_rangeList (p : Nat × Nat) (i : Nat) : i ∈ rangeList p ↔ p.1 ≤ i ∧ i < p.2 := by
  unfold rangeList
  simp only [List.mem_map, List.mem_range]
  constructor
  · rintro ⟨k, hk, rfl⟩; omega
  · intro h; exact ⟨i - p.1, by omega, by omega⟩

/-- Every index of `[s, e)` lies in some chunk, and chunks stay inside `[s, e)`. -/
theorem rangeChunks_cover (c : Nat) (hc : 0 < c) : ∀ (fuel s e i : Nat), e - s ≤ fuel → s ≤ i → i < e →
    ∃ ch ∈ rangeChunks c fuel s e, ch.1 ≤ i ∧ i < ch.2
  | 0, s, e, i, hf, h1, h2 => by omega
  | fuel + 1, s, e, i, hf, h1, h2 => by
    unfold rangeChunks
    have hse : s < e := by omega
    rw [if_pos hse]
    by_cases hi : i < min (s + c) e
    · exact ⟨(s, min (s + c) e), by simp, h1, hi⟩
    · have hge : min (s + c) e ≤ i := Nat.le_of_not_lt hi
      obtain ⟨ch, hch, h⟩ := rangeChunks_cover c hc fuel (min (s + c) e) e i
        (by have : s < min (s + c) e := by omega
            omega) hge h2
      exact ⟨ch, by simp [hch], h⟩

theorem rangeChunks_bounds (c : Nat) (hc : 0 < c) : ∀ (fuel s e : Nat), ∀ ch ∈ rangeChunks c fuel s e,
    s ≤ ch.1 ∧ ch.1 < ch.2 ∧ ch.2 ≤ e
  | 0, _, _, ch, h => by simp [rangeChunks] at h
  | fuel + 1, s, e, ch, h => by
    unfold rangeChunks at h
    split at h
    · rename_i hse
      rcases List.mem_cons.mp h with rfl | h
      · simp only; omega
      · have := rangeChunks_bounds c hc fuel (min (s + c) e) e ch h
        omega
    · cases h

/-- Exact chunks plus the remainder partition `[s, e)`. -/
theorem rangeChunksExact_cover (c : Nat) (hc : 0 < c) : ∀ (fuel s e i : Nat), e - s ≤ fuel →
    s ≤ i → i < e →
    (∃ t ∈ (rangeChunksExact c fuel s e).1, t.1 ≤ i ∧ i < t.1 + c) ∨
      ((rangeChunksExact c fuel s e).2.1 ≤ i ∧ i < (rangeChunksExact c fuel s e).2.2)
  | 0, s, e, i, hf, h1, h2 => by omega
  | fuel + 1, s, e, i, hf, h1, h2 => by
    unfold rangeChunksExact
    split
    · rename_i hge
      simp only
      by_cases hi : i < s + c
      · left; exact ⟨(s, s + c), by simp, h1, hi⟩
      · rcases rangeChunksExact_cover c hc fuel (s + c) e i (by omega) (by omega) h2 with ⟨t, ht, h⟩ | h
        · left; exact ⟨t, by simp [ht], h⟩
        · right; exact h
    · right; simp only; exact ⟨h1, h2⟩

theorem rangeChunksExact_bounds (c : Nat) : ∀ (fuel s e : Nat), s ≤ e →
    (∀ t ∈ (rangeChunksExact c fuel s e).1, s ≤ t.1 ∧ t.1 + c ≤ e) ∧
      s ≤ (rangeChunksExact c fuel s e).2.1 ∧ (rangeChunksExact c fuel s e).2.2 = e
  | 0, s, e, h => by simp [rangeChunksExact]
  | fuel + 1, s, e, h => by
    unfold rangeChunksExact
    split
    · rename_i hge
      have ih := rangeChunksExact_bounds c fuel (s + c) e (by omega)
      simp only
      refine ⟨?_, by omega, ih.2.2⟩
      intro t ht
      rcases List.mem_cons.mp ht with rfl | ht
      · simp only; omega
      · have := ih.1 t ht; omega
    · simp

/-- One block pair visits every index pair of the block. -/
theorem blockVisits_cover (T : Nat) (hT : 0 < T) (rb cb : Nat × Nat) (y x : Nat)
    (hy : rb.1 ≤ y ∧ y < rb.2) (hx : cb.1 ≤ x ∧ x < cb.2) : (y, x) ∈ blockVisits T rb cb := by
  unfold blockVisits
  simp only [List.mem_append, List.mem_flatMap, List.mem_map, List.mem_range]
  rcases rangeChunksExact_cover T hT (rb.2 - rb.1) rb.1 rb.2 y (Nat.le_refl _) hy.1 hy.2 with
    ⟨rt, hrt, hy1, hy2⟩ | hrem
  · left
    refine ⟨rt, hrt, ?_⟩
    rcases rangeChunksExact_cover T hT (cb.2 - cb.1) cb.1 cb.2 x (Nat.le_refl _) hx.1 hx.2 with
      ⟨ct, hct, hx1, hx2⟩ | hxr
    · left
      exact ⟨ct, hct, y - rt.1, by omega, x - ct.1, by omega, by
        rw [Nat.add_sub_cancel' hy1, Nat.add_sub_cancel' hx1]⟩
    · right
      exact ⟨y - rt.1, by omega, x, (mem_rangeList _ _).mpr hxr, by rw [Nat.add_sub_cancel' hy1]⟩
  · right
    exact ⟨y, (mem_rangeList _ _).mpr hrem, x, (mem_rangeList _ _).mpr hx, rfl⟩

/-- … and only index pairs of the block. -/
theorem blockVisits_bounds (T : Nat) (rb cb : Nat × Nat) (hrb : rb.1 ≤ rb.2) (hcb : cb.1 ≤ cb.2) :
    ∀ v ∈ blockVisits T rb cb, rb.1 ≤ v.1 ∧ v.1 < rb.2 ∧ cb.1 ≤ v.2 ∧ v.2 < cb.2 := by
  intro v hv
  unfold blockVisits at hv
  have hR := rangeChunksExact_bounds T (rb.2 - rb.1) rb.1 rb.2 hrb
  have hC := rangeChunksExact_bounds T (cb.2 - cb.1) cb.1 cb.2 hcb
  simp only [List.mem_append, List.mem_flatMap, List.mem_map, List.mem_range] at hv
  rcases hv with ⟨rt, hrt, h⟩ | ⟨y, hy, x, hx, rfl⟩
  · have hrt' := hR.1 rt hrt
    rcases h with ⟨ct, hct, y, hy, x, hx, rfl⟩ | ⟨y, hy, x, hx, rfl⟩
    · have hct' := hC.1 ct hct
      simp only; omega
    · have := (mem_rangeList _ _).mp hx
      simp only; omega
  · have h1 := (mem_rangeList _ _).mp hy
    have h2 := (mem_rangeList _ _).mp hx
    simp only; omega

theorem blockedVisits_cover (rows cols B T : Nat) (hB : 0 < B) (hT : 0 < T) (y x : Nat)
    (hy : y < rows) (hx : x < cols) : (y, x) ∈ blockedVisits rows cols B T := by
  unfold blockedVisits
  obtain ⟨rb, hrb, hy'⟩ := rangeChunks_cover B hB rows 0 rows y (by omega) (Nat.zero_le _) hy
  obtain ⟨cb, hcb, hx'⟩ := rangeChunks_cover B hB cols 0 cols x (by omega) (Nat.zero_le _) hx
  exact List.mem_flatMap.mpr ⟨rb, hrb, List.mem_flatMap.mpr ⟨cb, hcb, blockVisits_cover T hT rb cb y x hy' hx'⟩⟩

theorem blockedVisits_bounds (rows cols B T : Nat) (hB : 0 < B) :
    ∀ v ∈ blockedVisits rows cols B T, v.1 < rows ∧ v.2 < cols := by
  intro v hv
  unfold blockedVisits at hv
  obtain ⟨rb, hrb, hv⟩ := List.mem_flatMap.mp hv
  obtain ⟨cb, hcb, hv⟩ := List.mem_flatMap.mp hv
  have h1 := rangeChunks_bounds B hB rows 0 rows rb hrb
  have h2 := rangeChunks_bounds B hB cols 0 cols cb hcb
  have := blockVisits_bounds T rb cb (by omega) (by omega) v hv
  omega

section Writes
variable {α β : Type} (pos : β → Nat) (val : β → α)

theorem foldl_set_length : ∀ (vs : List β) (d : List α),
    (vs.foldl (fun d v => d.set (pos v) (val v)) d).length = d.length
  | [], d => rfl
  | v :: vs, d => by rw [List.foldl_cons, foldl_set_length vs, List.length_set]

/-- A slot already holding `g i` keeps it, because every write to slot `i` writes `g i`. -/
theorem foldl_set_keep (g : Nat → α) : ∀ (vs : List β) (d : List α) (i : Nat),
    (∀ v ∈ vs, val v = g (pos v)) → d[i]? = some (g i) →
    (vs.foldl (fun d v => d.set (pos v) (val v)) d)[i]? = some (g i)
  | [], d, i, _, h => h
  | v :: vs, d, i, hv, h => by
    rw [List.foldl_cons]
    apply foldl_set_keep g vs _ i (fun w hw => hv w (by simp [hw]))
    by_cases hp : pos v = i
    · have hlt : i < d.length := by
        cases hd : d[i]? with
        | none => rw [hd] at h; cases h
        | some _ => exact (List.getElem?_eq_some_iff.mp hd).1
      rw [hp, List.getElem?_set_self hlt, ← hp, hv v (by simp)]
    · rw [List.getElem?_set_ne hp]; exact h

/-- A visited slot ends up holding `g i`. -/
theorem foldl_set_visited (g : Nat → α) : ∀ (vs : List β) (d : List α) (i : Nat),
    (∀ v ∈ vs, val v = g (pos v)) → i < d.length → (∃ v ∈ vs, pos v = i) →
    (vs.foldl (fun d v => d.set (pos v) (val v)) d)[i]? = some (g i)
  | [], _, _, _, _, h => by obtain ⟨v, hv, _⟩ := h; cases hv
  | v :: vs, d, i, hv, hi, hex => by
    rw [List.foldl_cons]
    by_cases hp : pos v = i
    · apply foldl_set_keep pos val g vs _ i (fun w hw => hv w (by simp [hw]))
      rw [hp, List.getElem?_set_self hi, ← hp, hv v (by simp)]
    · obtain ⟨w, hw, hwi⟩ := hex
      have hw' : w ∈ vs := by
        rcases List.mem_cons.mp hw with rfl | h
        · exact absurd hwi hp
        · exact h
      exact foldl_set_visited g vs _ i (fun u hu => hv u (by simp [hu])) (by rw [List.length_set]; exact hi)
        ⟨w, hw', hwi⟩

end Writes

end RtenVerif.BlockedCopy
