import RtenVerif.Lemmas.TensorBoundsSplit

/-! C06: index embeddings for `slice_axis` / `clip_dim`, bounds of `broadcast` layouts. -/
namespace RtenVerif.TensorBounds
open RtenVerif.Overlap

theorem strideAt_setSize : ∀ (dims : List (Nat × Nat)) (axis n : Nat),
    strideAt (setSize dims axis n) axis = strideAt dims axis := by
  intro dims
  induction dims with
  | nil => intro axis n; rfl
  | cons d ds ih =>
    obtain ⟨size, stride⟩ := d
    intro axis n
    cases axis with
    | zero => simp [setSize, strideAt]
    | succ a =>
      have := ih a n
      simp only [setSize, strideAt, List.getD_cons_succ] at *
      exact this

/-- Valid indices of `dims` with dimension `axis` cut down to `n` entries starting at `start`
are valid indices of `dims` after shifting, and the offsets differ by `start · stride`. -/
theorem embedShift : ∀ (dims : List (Nat × Nat)) (axis start n : Nat) (j : List Nat),
    axis < dims.length → start + n ≤ sizeAt dims axis →
    ValidIdx (setSize dims axis n) j →
    ValidIdx dims (addAt j axis start) ∧
    offset dims (addAt j axis start) =
      start * strideAt dims axis + offset (setSize dims axis n) j := by
  intro dims
  induction dims with
  | nil => intro axis start n j h; simp at h
  | cons d ds ih =>
    obtain ⟨size, stride⟩ := d
    intro axis start n j hlt hle hv
    cases axis with
    | zero =>
      simp only [sizeAt, List.getD_cons_zero] at hle
      simp only [setSize] at hv
      cases hv with
      | @cons _ _ j0 _ js h1 h2 =>
        refine ⟨.cons (by omega) h2, ?_⟩
        simp only [addAt, offset, setSize, strideAt, List.getD_cons_zero, Nat.add_mul]
        omega
    | succ a =>
      simp only [sizeAt, List.getD_cons_succ] at hle
      simp only [setSize] at hv
      simp only [List.length_cons, Nat.add_lt_add_iff_right] at hlt
      cases hv with
      | @cons _ _ j0 _ js h1 h2 =>
        obtain ⟨v, o⟩ := ih a start n _ hlt hle h2
        refine ⟨.cons h1 v, ?_⟩
        simp only [addAt, offset, setSize, strideAt, sizeAt, List.getD_cons_succ] at *
        rw [o]; omega

theorem addAt_inj : ∀ (j j' : List Nat) (a k : Nat), addAt j a k = addAt j' a k → j = j' := by
  intro j
  induction j with
  | nil =>
    intro j' a k h
    cases j' with
    | nil => rfl
    | cons x xs => cases a <;> simp [addAt] at h
  | cons i is ih =>
    intro j' a k h
    cases j' with
    | nil => cases a <;> simp [addAt] at h
    | cons x xs =>
      cases a with
      | zero =>
        simp only [addAt, List.cons.injEq] at h
        obtain ⟨h1, h2⟩ := h
        have : i = x := by omega
        rw [this, h2]
      | succ a =>
        simp only [addAt, List.cons.injEq] at h
        obtain ⟨h1, h2⟩ := h
        rw [h1, ih xs a k h2]

/-- A sub-block of an injective layout is injective. -/
theorem setSize_injective (dims : List (Nat × Nat)) (axis start n : Nat)
    (hax : axis < dims.length) (hle : start + n ≤ sizeAt dims axis)
    (hinj : ∀ i j, ValidIdx dims i → ValidIdx dims j → offset dims i = offset dims j → i = j)
    (j j' : List Nat) (hj : ValidIdx (setSize dims axis n) j)
    (hj' : ValidIdx (setSize dims axis n) j')
    (heq : offset (setSize dims axis n) j = offset (setSize dims axis n) j') : j = j' := by
  obtain ⟨v, o⟩ := embedShift dims axis start n j hax hle hj
  obtain ⟨v', o'⟩ := embedShift dims axis start n j' hax hle hj'
  exact addAt_inj _ _ _ _ (hinj _ _ v v' (by rw [o, o', heq]))

/-! ### `broadcast` -/

theorem maxOffset_append (a b : List (Nat × Nat)) :
    maxOffset (a ++ b) = maxOffset a + maxOffset b := by
  induction a with
  | nil => simp [maxOffset]
  | cons x xs ih => obtain ⟨s, t⟩ := x; simp only [List.cons_append, maxOffset, ih]; omega

theorem maxOffset_pad (p : List Nat) : maxOffset (p.map (fun s => (s, 0))) = 0 := by
  induction p with
  | nil => rfl
  | cons x xs ih => simp [maxOffset, ih]

/-- The stride choice of `broadcast_strides` on dimensions satisfying `can_broadcast_to`. -/
def bcDim (p : (Nat × Nat) × Nat) : Nat × Nat :=
  (p.2, if p.1.1 == 1 && decide (p.2 > 1) then 0 else p.1.2)

theorem bc_zip (zl : List ((Nat × Nat) × Nat))
    (hok : zl.all (fun p => p.1.1 == p.2 || p.1.1 == 1) = true) :
    maxOffset (zl.map bcDim) ≤ maxOffset (zl.map Prod.fst) ∧
    (hasZero (zl.map Prod.fst) = true → hasZero (zl.map bcDim) = true) := by
  induction zl with
  | nil => simp [maxOffset, hasZero]
  | cons x xs ih =>
    obtain ⟨⟨size, stride⟩, t⟩ := x
    simp only [List.all_cons, Bool.and_eq_true, Bool.or_eq_true, beq_iff_eq] at hok
    obtain ⟨hx, hrest⟩ := hok
    obtain ⟨ih1, ih2⟩ := ih hrest
    simp only [List.map_cons, bcDim, maxOffset, hasZero, List.any_cons, Bool.or_eq_true,
      beq_iff_eq] at *
    constructor
    · rcases hx with h | h
      · subst h
        by_cases h1 : size = 1
        · subst h1; simp; exact ih1
        · simp [h1]; exact ih1
      · subst h
        by_cases ht : t > 1
        · simp [ht]; exact ih1
        · have : (t - 1) = 0 := by omega
          simp [ht, this]; exact ih1
    · rintro (h | h)
      · rcases hx with h' | h'
        · left; omega
        · omega
      · right; exact ih2 h

theorem broadcast_spec {dims b : List (Nat × Nat)} {target : List Nat}
    (h : broadcast dims target = some b) :
    maxOffset b ≤ maxOffset dims ∧ (hasZero dims = true → hasZero b = true) := by
  unfold broadcast at h
  dsimp only at h
  split at h
  · next hlen =>
    split at h
    · next hok =>
      simp only [Bool.and_eq_true] at hok
      cases h
      have hz := bc_zip (dims.zip (target.drop (target.length - dims.length))) hok.1
      have hfst : (dims.zip (target.drop (target.length - dims.length))).map Prod.fst = dims :=
        List.map_fst_zip (by rw [List.length_drop]; omega)
      rw [hfst] at hz
      have hmap : (dims.zip (target.drop (target.length - dims.length))).map
          (fun p => (p.2, if p.1.1 == 1 && decide (p.2 > 1) then 0 else p.1.2)) =
          (dims.zip (target.drop (target.length - dims.length))).map bcDim := rfl
      rw [hmap]
      constructor
      · rw [maxOffset_append, maxOffset_pad]; omega
      · intro hzero
        have := hz.2 hzero
        unfold hasZero at *
        rw [List.any_append, this, Bool.or_true]
    · cases h
  · cases h

/-! ### Mutable tensors are not broadcast -/

theorem zeros_unit : ∀ (dims : List (Nat × Nat)) (k : Nat), hasZero dims = false →
    k < dims.length → 1 < sizeAt dims k →
    ValidIdx dims (List.replicate dims.length 0) ∧
    ValidIdx dims (addAt (List.replicate dims.length 0) k 1) ∧
    offset dims (List.replicate dims.length 0) = 0 ∧
    offset dims (addAt (List.replicate dims.length 0) k 1) = strideAt dims k ∧
    List.replicate dims.length 0 ≠ addAt (List.replicate dims.length 0) k 1 := by
  intro dims
  induction dims with
  | nil => intro k _ h; simp at h
  | cons d ds ih =>
    obtain ⟨size, stride⟩ := d
    intro k hz hk hs
    simp only [hasZero, List.any_cons, Bool.or_eq_false_iff, beq_eq_false_iff_ne] at hz
    have hzeros : ∀ (l : List (Nat × Nat)), hasZero l = false →
        ValidIdx l (List.replicate l.length 0) ∧ offset l (List.replicate l.length 0) = 0 := by
      intro l
      induction l with
      | nil => intro _; exact ⟨.nil, rfl⟩
      | cons e es ihl =>
        obtain ⟨s, t⟩ := e
        intro hl
        simp only [hasZero, List.any_cons, Bool.or_eq_false_iff, beq_eq_false_iff_ne] at hl
        obtain ⟨v, o⟩ := ihl (by simpa [hasZero] using hl.2)
        exact ⟨by simp only [List.length_cons, List.replicate_succ]; exact .cons (by omega) v,
          by simp only [List.length_cons, List.replicate_succ, offset, o, Nat.zero_mul]⟩
    obtain ⟨vz, oz⟩ := hzeros ds (by simpa [hasZero] using hz.2)
    cases k with
    | zero =>
      simp only [sizeAt, List.getD_cons_zero] at hs
      simp only [List.length_cons, List.replicate_succ, addAt, offset, strideAt,
        List.getD_cons_zero, oz]
      refine ⟨.cons (by omega) vz, .cons (by omega) vz, by omega, by omega, by simp⟩
    | succ a =>
      simp only [sizeAt, List.getD_cons_succ] at hs
      simp only [List.length_cons, Nat.add_lt_add_iff_right] at hk
      obtain ⟨v0, v1, o0, o1, hne⟩ := ih a (by simpa [hasZero] using hz.2) hk hs
      simp only [List.length_cons, List.replicate_succ, addAt, offset, strideAt,
        List.getD_cons_succ]
      refine ⟨.cons (by omega) v0, .cons (by omega) v1, by omega, ?_, ?_⟩
      · simp only [strideAt] at o1; omega
      · intro h; simp only [List.cons.injEq, true_and] at h; exact hne h

theorem valid_last : ∀ (dims : List (Nat × Nat)), hasZero dims = false →
    ValidIdx dims (dims.map (fun d => d.1 - 1)) ∧
    offset dims (dims.map (fun d => d.1 - 1)) = maxOffset dims := by
  intro dims
  induction dims with
  | nil => intro _; exact ⟨.nil, rfl⟩
  | cons d ds ih =>
    obtain ⟨size, stride⟩ := d
    intro hz
    simp only [hasZero, List.any_cons, Bool.or_eq_false_iff, beq_eq_false_iff_ne] at hz
    obtain ⟨v, o⟩ := ih (by simpa [hasZero] using hz.2)
    refine ⟨?_, by simp only [List.map_cons, offset, maxOffset, o]⟩
    show ValidIdx ((size, stride) :: ds) ((size - 1) :: ds.map (fun d => d.1 - 1))
    exact .cons (by omega) v

/-- A layout all of whose valid indices map below `n` needs at most `n` elements. -/
theorem minDataLen_le_of_bounded {dims : List (Nat × Nat)} {n : Nat}
    (h : ∀ j, ValidIdx dims j → offset dims j < n) : minDataLen dims ≤ n := by
  unfold minDataLen
  cases hz : hasZero dims
  · obtain ⟨v, o⟩ := valid_last dims hz
    have := h _ v
    simp only [Bool.false_eq_true, if_false]
    omega
  · simp

/-! ### Shrinking a dimension keeps the size guards; contiguous layouts -/

theorem prodNZ_setSize_le : ∀ (dims : List (Nat × Nat)) (axis n : Nat),
    n ≤ sizeAt dims axis → prodNZ (shapeOf (setSize dims axis n)) ≤ prodNZ (shapeOf dims) := by
  intro dims
  induction dims with
  | nil => intro axis n _; exact Nat.le_refl _
  | cons d ds ih =>
    obtain ⟨size, stride⟩ := d
    intro axis n hn
    cases axis with
    | zero =>
      simp only [sizeAt, List.getD_cons_zero] at hn
      simp only [setSize, shapeOf, List.map_cons, prodNZ]
      have hp := prodNZ_pos (List.map (fun d => d.1) ds)
      by_cases h0 : n = 0
      · subst h0
        simp only [if_true]
        split
        · exact Nat.le_refl _
        · exact Nat.le_mul_of_pos_left _ (by omega)
      · have hs : size ≠ 0 := by omega
        simp only [h0, hs, if_false]
        exact Nat.mul_le_mul_right _ hn
    | succ a =>
      simp only [sizeAt, List.getD_cons_succ] at hn
      have := ih a n hn
      simp only [setSize, shapeOf, List.map_cons, prodNZ] at *
      split
      · exact this
      · exact Nat.mul_le_mul_left _ this

theorem maxOffset_setSize_le : ∀ (dims : List (Nat × Nat)) (axis n : Nat),
    n ≤ sizeAt dims axis → maxOffset (setSize dims axis n) ≤ maxOffset dims := by
  intro dims
  induction dims with
  | nil => intro axis n _; exact Nat.le_refl _
  | cons d ds ih =>
    obtain ⟨size, stride⟩ := d
    intro axis n hn
    cases axis with
    | zero =>
      simp only [sizeAt, List.getD_cons_zero] at hn
      simp only [setSize, maxOffset]
      have : (n - 1) * stride ≤ (size - 1) * stride := Nat.mul_le_mul_right _ (by omega)
      omega
    | succ a =>
      simp only [sizeAt, List.getD_cons_succ] at hn
      have := ih a n hn
      simp only [setSize, maxOffset]
      omega

end RtenVerif.TensorBounds
