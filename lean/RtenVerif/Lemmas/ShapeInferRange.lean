import RtenVerif.Lemmas.ShapeInferZip
import RtenVerif.Lemmas.SymRange

/-!
`Sym.range` is sound for expressions that evaluate inside `i32` at every node (C10, audit H1).

`Sym.eval` is over unbounded `Int` while `Sym.range` saturates, so `RangeSound σ e` is FALSE for
some `e` under every `σ` (`(2147483647 + 1)`).  It holds for every expression that is `good`:
every node's value is an `i32` (what the real `i32` evaluation produces without overflow),
non-negative symbols are instantiated non-negatively, `Broadcast` operands are non-negative.
The pure `Int` lemmas on truncating / ceiling division are reused from C11's `Lemmas/SymRange`
(imported read-only).
-/
namespace RtenVerif.ShapeInfer

def inI32 (v : Int) : Bool := decide (i32Min ≤ v) && decide (v ≤ i32Max)

def okVal : Option Int → Bool
  | none => true
  | some v => inI32 v

def nonnegVal : Option Int → Bool
  | none => true
  | some v => decide (0 ≤ v)

/-- Decidable "no node leaves `i32`" predicate (relative to `σ`). -/
def good (σ : Env) : Sym → Bool
  | .val n => inI32 n
  | .var x p => match σ x with
    | none => true
    | some v => inI32 v && (!p || decide (0 ≤ v))
  | .neg a => good σ a && okVal ((Sym.neg a).eval σ)
  | .add a b => good σ a && good σ b && okVal ((Sym.add a b).eval σ)
  | .sub a b => good σ a && good σ b && okVal ((Sym.sub a b).eval σ)
  | .mul a b => good σ a && good σ b && okVal ((Sym.mul a b).eval σ)
  | .div a b => good σ a && good σ b && okVal ((Sym.div a b).eval σ)
  | .divCeil a b => good σ a && good σ b && okVal ((Sym.divCeil a b).eval σ)
  | .max a b => good σ a && good σ b && okVal ((Sym.max a b).eval σ)
  | .min a b => good σ a && good σ b && okVal ((Sym.min a b).eval σ)
  | .bcast a b => good σ a && good σ b && okVal ((Sym.bcast a b).eval σ) &&
      nonnegVal (a.eval σ) && nonnegVal (b.eval σ)

/-- `range` is sound for `e` under `σ`. -/
def RangeSound (σ : Env) (e : Sym) : Prop := ∀ v, e.eval σ = some v → e.range.1 ≤ v ∧ v ≤ e.range.2

theorem sat_lo' {b v : Int} (h : b ≤ v) (hv : i32Min ≤ v ∧ v ≤ i32Max) : sat b ≤ v := by
  unfold sat i32Min i32Max at *; (repeat' split) <;> omega

theorem sat_hi' {b v : Int} (h : v ≤ b) (hv : i32Min ≤ v ∧ v ≤ i32Max) : v ≤ sat b := by
  unfold sat i32Min i32Max at *; (repeat' split) <;> omega

theorem cdiv_eq (x y : Int) : cdiv x y = RtenVerif.Sym.divCeilI x y := by
  unfold cdiv RtenVerif.Sym.divCeilI
  by_cases hr : x.tmod y = 0
  · simp [hr]
  · by_cases hx : x < 0 <;> by_cases hy : y < 0 <;> simp [hr, hx, hy]

theorem inI32_iff (v : Int) : inI32 v = true ↔ i32Min ≤ v ∧ v ≤ i32Max := by
  simp [inI32]

/-- Evaluation of a binary node. -/
theorem eval_bin {σ : Env} {a b : Sym} {g : Int → Int → Option Int} {v : Int}
    (h : (do let x ← a.eval σ; let y ← b.eval σ; g x y) = some v) :
    ∃ x y, a.eval σ = some x ∧ b.eval σ = some y ∧ g x y = some v := by
  cases ha : a.eval σ with
  | none => simp [ha] at h
  | some x =>
    cases hb : b.eval σ with
    | none => simp [ha, hb] at h
    | some y => exact ⟨x, y, rfl, rfl, by simpa [ha, hb] using h⟩

/-- **range_sound**: for a `good` expression the value lies in `range` (and is an `i32`). -/
theorem range_sound (σ : Env) : ∀ (e : Sym), good σ e = true →
    ∀ v, e.eval σ = some v → (e.range.1 ≤ v ∧ v ≤ e.range.2) ∧ (i32Min ≤ v ∧ v ≤ i32Max) := by
  intro e
  induction e with
  | val n =>
    intro hg v hv
    simp only [Sym.eval] at hv; cases hv
    exact ⟨by simp [Sym.range], (inI32_iff _).mp (by simpa [good] using hg)⟩
  | var x p =>
    intro hg v hv
    simp only [Sym.eval] at hv
    simp only [good, hv, Bool.and_eq_true, Bool.or_eq_true, Bool.not_eq_true', decide_eq_true_eq] at hg
    have hi := (inI32_iff v).mp hg.1
    refine ⟨?_, hi⟩
    cases p with
    | true =>
      have : 0 ≤ v := by
        rcases hg.2 with h | h
        · cases h
        · exact h
      simp only [Sym.range, if_true]; exact ⟨this, hi.2⟩
    | false => simp only [Sym.range, Bool.false_eq_true, if_false]; exact hi
  | neg a ih =>
    intro hg v hv
    simp only [good, Bool.and_eq_true] at hg
    have hok : i32Min ≤ v ∧ v ≤ i32Max := (inI32_iff v).mp (by simpa [okVal, hv] using hg.2)
    simp only [Sym.eval, Option.map_eq_some_iff] at hv
    obtain ⟨x, hx, rfl⟩ := hv
    obtain ⟨⟨hlo, hhi⟩, _⟩ := ih hg.1 x hx
    refine ⟨?_, hok⟩
    simp only [Sym.range]
    exact ⟨sat_lo' (by omega) hok, sat_hi' (by omega) hok⟩
  | add a b iha ihb =>
    intro hg v hv
    simp only [good, Bool.and_eq_true] at hg
    have hok : i32Min ≤ v ∧ v ≤ i32Max := (inI32_iff v).mp (by simpa [okVal, hv] using hg.2)
    obtain ⟨x, y, hx, hy, hxy⟩ := eval_bin (g := fun x y => some (x + y)) (by simpa [Sym.eval] using hv)
    cases hxy
    obtain ⟨⟨hxl, hxh⟩, _⟩ := iha hg.1.1 x hx
    obtain ⟨⟨hyl, hyh⟩, _⟩ := ihb hg.1.2 y hy
    refine ⟨?_, hok⟩
    simp only [Sym.range]
    exact ⟨sat_lo' (by omega) hok, sat_hi' (by omega) hok⟩
  | sub a b _ _ =>
    intro hg v hv
    simp only [good, Bool.and_eq_true] at hg
    have hok : i32Min ≤ v ∧ v ≤ i32Max := (inI32_iff v).mp (by simpa [okVal, hv] using hg.2)
    exact ⟨by simpa [Sym.range] using hok, hok⟩
  | mul a b iha ihb =>
    intro hg v hv
    simp only [good, Bool.and_eq_true] at hg
    have hok : i32Min ≤ v ∧ v ≤ i32Max := (inI32_iff v).mp (by simpa [okVal, hv] using hg.2)
    obtain ⟨x, y, hx, hy, hxy⟩ := eval_bin (g := fun x y => some (x * y)) (by simpa [Sym.eval] using hv)
    cases hxy
    obtain ⟨⟨hxl, hxh⟩, _⟩ := iha hg.1.1 x hx
    obtain ⟨⟨hyl, hyh⟩, _⟩ := ihb hg.1.2 y hy
    refine ⟨?_, hok⟩
    simp only [Sym.range]
    split
    · rename_i hpos
      simp only [ge_iff_le, Bool.and_eq_true, decide_eq_true_eq] at hpos
      have hx0 : 0 ≤ x := by omega
      have hy0 : 0 ≤ y := by omega
      have l1 : a.range.1 * b.range.1 ≤ x * y := Int.mul_le_mul hxl hyl hpos.2 hx0
      have l2 : x * y ≤ a.range.2 * b.range.2 := Int.mul_le_mul hxh hyh hy0 (by omega)
      exact ⟨sat_lo' l1 hok, sat_hi' l2 hok⟩
    · exact hok
  | div a b iha ihb =>
    intro hg v hv
    simp only [good, Bool.and_eq_true] at hg
    have hok : i32Min ≤ v ∧ v ≤ i32Max := (inI32_iff v).mp (by simpa [okVal, hv] using hg.2)
    obtain ⟨x, y, hx, hy, hxy⟩ := eval_bin (g := fun x y => if y = 0 then none else some (tdiv x y))
      (by simpa [Sym.eval] using hv)
    by_cases hy0 : y = 0
    · simp [hy0] at hxy
    · simp only [hy0, if_false, Option.some.injEq] at hxy; subst hxy
      obtain ⟨⟨hxl, hxh⟩, hxi⟩ := iha hg.1.1 x hx
      obtain ⟨⟨hyl, hyh⟩, _⟩ := ihb hg.1.2 y hy
      refine ⟨?_, hok⟩
      simp only [Sym.range, tdiv] at hok ⊢
      split
      · rename_i hb
        simp only [ge_iff_le, decide_eq_true_eq] at hb
        have := RtenVerif.Sym.tdiv_bounds_pos (x := x) (y := y) (by omega)
        unfold RtenVerif.Sym.imin RtenVerif.Sym.imax at this
        revert this
        (repeat' split) <;> omega
      · have := RtenVerif.Sym.tdiv_bounds_abs x y
        unfold RtenVerif.Sym.imin RtenVerif.Sym.imax at this
        revert this
        by_cases hxm : x = i32Min
        · subst hxm
          unfold sat i32Min i32Max at *
          (repeat' split) <;> omega
        · have hnx : i32Min ≤ -x ∧ -x ≤ i32Max := by unfold i32Min i32Max at *; omega
          have s1 := sat_lo' (b := -a.range.2) (v := -x) (by omega) hnx
          have s2 := sat_hi' (b := -a.range.1) (v := -x) (by omega) hnx
          (repeat' split) <;> omega
  | divCeil a b iha ihb =>
    intro hg v hv
    simp only [good, Bool.and_eq_true] at hg
    have hok : i32Min ≤ v ∧ v ≤ i32Max := (inI32_iff v).mp (by simpa [okVal, hv] using hg.2)
    obtain ⟨x, y, hx, hy, hxy⟩ := eval_bin (g := fun x y => if y = 0 then none else some (cdiv x y))
      (by simpa [Sym.eval] using hv)
    by_cases hy0 : y = 0
    · simp [hy0] at hxy
    · simp only [hy0, if_false, Option.some.injEq] at hxy; subst hxy
      obtain ⟨⟨hxl, hxh⟩, hxi⟩ := iha hg.1.1 x hx
      obtain ⟨⟨hyl, hyh⟩, _⟩ := ihb hg.1.2 y hy
      refine ⟨?_, hok⟩
      rw [cdiv_eq] at hok ⊢
      simp only [Sym.range]
      split
      · rename_i hb
        simp only [ge_iff_le, decide_eq_true_eq] at hb
        have := RtenVerif.Sym.divCeilI_bounds_pos (x := x) (y := y) (by omega)
        unfold RtenVerif.Sym.imin RtenVerif.Sym.imax at this
        revert this
        (repeat' split) <;> omega
      · have := RtenVerif.Sym.divCeilI_bounds_abs (x := x) hy0
        unfold RtenVerif.Sym.imin RtenVerif.Sym.imax at this
        revert this
        by_cases hxm : x = i32Min
        · subst hxm
          unfold sat i32Min i32Max at *
          (repeat' split) <;> omega
        · have hnx : i32Min ≤ -x ∧ -x ≤ i32Max := by unfold i32Min i32Max at *; omega
          have s1 := sat_lo' (b := -a.range.2) (v := -x) (by omega) hnx
          have s2 := sat_hi' (b := -a.range.1) (v := -x) (by omega) hnx
          (repeat' split) <;> omega
  | max a b iha ihb =>
    intro hg v hv
    simp only [good, Bool.and_eq_true] at hg
    have hok : i32Min ≤ v ∧ v ≤ i32Max := (inI32_iff v).mp (by simpa [okVal, hv] using hg.2)
    obtain ⟨x, y, hx, hy, hxy⟩ := eval_bin (g := fun x y => some (Max.max x y)) (by simpa [Sym.eval] using hv)
    cases hxy
    obtain ⟨⟨hxl, hxh⟩, _⟩ := iha hg.1.1 x hx
    obtain ⟨⟨hyl, hyh⟩, _⟩ := ihb hg.1.2 y hy
    refine ⟨?_, hok⟩
    simp only [Sym.range]
    omega
  | min a b iha ihb =>
    intro hg v hv
    simp only [good, Bool.and_eq_true] at hg
    have hok : i32Min ≤ v ∧ v ≤ i32Max := (inI32_iff v).mp (by simpa [okVal, hv] using hg.2)
    obtain ⟨x, y, hx, hy, hxy⟩ := eval_bin (g := fun x y => some (Min.min x y)) (by simpa [Sym.eval] using hv)
    cases hxy
    obtain ⟨⟨hxl, hxh⟩, _⟩ := iha hg.1.1 x hx
    obtain ⟨⟨hyl, hyh⟩, _⟩ := ihb hg.1.2 y hy
    refine ⟨?_, hok⟩
    simp only [Sym.range]
    omega
  | bcast a b iha ihb =>
    intro hg v hv
    simp only [good, Bool.and_eq_true] at hg
    have hok : i32Min ≤ v ∧ v ≤ i32Max := (inI32_iff v).mp (by simpa [okVal, hv] using hg.1.1.2)
    obtain ⟨x, y, hx, hy, hxy⟩ := eval_bin (g := fun x y => some (bcastI x y)) (by simpa [Sym.eval] using hv)
    cases hxy
    obtain ⟨⟨hxl, hxh⟩, _⟩ := iha hg.1.1.1.1 x hx
    obtain ⟨⟨hyl, hyh⟩, _⟩ := ihb hg.1.1.1.2 y hy
    have hx0 : 0 ≤ x := by simpa [nonnegVal, hx] using hg.1.2
    have hy0 : 0 ≤ y := by simpa [nonnegVal, hy] using hg.2
    refine ⟨?_, hok⟩
    simp only [Sym.range, bcastI]
    (repeat' split) <;> omega

/-- `RangeSound` holds for every `good` expression — the hypothesis of the `Equal` theorems is
dischargeable. -/
theorem rangeSound_of_good (σ : Env) (e : Sym) (h : good σ e = true) : RangeSound σ e :=
  fun v hv => (range_sound σ e h v hv).1

/-- … and it is NOT true of all expressions (so it must stay a local hypothesis): `2147483647 + 1`. -/
theorem rangeSound_not_universal (σ : Env) : ¬ ∀ e : Sym, RangeSound σ e := by
  intro h
  have := h (.add (.val 2147483647) (.val 1)) 2147483648 (by simp [Sym.eval])
  revert this
  decide

end RtenVerif.ShapeInfer
