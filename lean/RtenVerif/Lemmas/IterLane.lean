import RtenVerif.Lemmas.IterSim

/-!
C07 lemmas, part 11: the element iterators over one lane, `Lane` and `LaneMut`
(`index`/`end` cursors, `LaneMut::nth` override), refine the deque over the lane's offsets.
-/
namespace RtenVerif.Iter

/-- Offsets still to be yielded by a lane iterator. -/
def absL (s : LaneIt) : List Nat :=
  (List.range' s.index (s.stop - s.index)).map (fun i => s.start + i * s.stride)

theorem lane_nextOk : NextOk LaneIt.next (fun _ => True) absL := by
  intro s _
  unfold LaneIt.next absL
  by_cases h : s.index < s.stop
  · obtain ⟨k, hk⟩ : ∃ k, s.stop - s.index = k + 1 := ⟨s.stop - s.index - 1, by omega⟩
    have hk' : s.stop - (s.index + 1) = k := by omega
    simp [h, hk, hk', List.range'_succ]
  · have : s.stop - s.index = 0 := by omega
    simp [h, this]

theorem lane_backOk : BackOk LaneIt.nextBack (fun _ => True) absL := by
  intro s _
  unfold LaneIt.nextBack absL
  by_cases h : s.index < s.stop
  · obtain ⟨k, hk⟩ : ∃ k, s.stop - s.index = k + 1 := ⟨s.stop - s.index - 1, by omega⟩
    have hk' : s.stop - 1 - s.index = k := by omega
    have hk'' : s.index + k = s.stop - 1 := by omega
    simp [h, hk, hk', hk'', List.range'_1_concat]
  · have : s.stop - s.index = 0 := by omega
    simp [h, this]

theorem lane_len (s : LaneIt) : LaneIt.len s = (absL s).length := by simp [LaneIt.len, absL]

/-- `LaneMut::nth` (cursor jump, clamped to `end`) agrees with the deque's `nth`. -/
theorem lane_nthMut (s : LaneIt) (n : Nat) :
    (LaneIt.nthMut s n).1 = ((absL s).drop n).head? ∧
      absL (LaneIt.nthMut s n).2 = (absL s).drop (n + 1) ∧ True := by
  obtain ⟨h1, h2, _⟩ := lane_nextOk { s with index := min (s.index + n) s.stop } trivial
  unfold LaneIt.nthMut
  have habs : absL { s with index := min (s.index + n) s.stop } = (absL s).drop n := by
    simp only [absL, ← List.map_drop, List.drop_range', Nat.mul_one]
    by_cases hlt : s.index + n ≤ s.stop
    · rw [Nat.min_eq_left hlt]
      congr 2
      omega
    · have e1 : s.stop - min (s.index + n) s.stop = 0 := by omega
      have e2 : s.stop - s.index - n = 0 := by omega
      rw [e1, e2]; rfl
  refine ⟨by rw [h1, habs], ?_, trivial⟩
  rw [h2, habs, List.tail_drop]

theorem lane_refines : RefinesNS LaneIt.ops (fun _ => True) absL where
  next := lane_nextOk
  nextBack := lane_backOk
  nth := fun s n hs => defaultNth_spec lane_nextOk n s hs
  len := fun s _ => lane_len s
  fold := fun s hs => drainFront_spec lane_nextOk _ s hs (by rw [lane_len]; exact Nat.le_refl _)
  rev := fun s hs => drainBack_spec lane_backOk _ s hs (by rw [lane_len]; exact Nat.le_refl _)

theorem laneMut_refines : RefinesNS LaneIt.opsMut (fun _ => True) absL where
  next := lane_nextOk
  nextBack := lane_backOk
  nth := fun s n _ => lane_nthMut s n
  len := fun s _ => lane_len s
  fold := fun s hs => drainFront_spec lane_nextOk _ s hs (by rw [lane_len]; exact Nat.le_refl _)
  rev := fun s hs => drainBack_spec lane_backOk _ s hs (by rw [lane_len]; exact Nat.le_refl _)

theorem lane_new (size stride start : Nat) :
    absL (LaneIt.new size stride start) = (laneItem size stride start).2 := by
  simp [absL, LaneIt.new, laneItem, List.range_eq_range']

end RtenVerif.Iter
