import RtenVerif.Lemmas.OverlapCompleteOps

/-!
Completeness side of C08 (part 3): `merge_axes` keeps a dominance chain.

Merging an outer dimension `(n, t*m)` with the dimension `(m, t)` directly inside it gives
`(m*n, t)`.  In any passing ordering the two entries are neighbours (an entry strictly
between them would make the outer stride too small), and the merged entry has the inner
stride and exactly the sum of the two spans, so the ordering with the pair replaced by the
merged entry passes as well.
-/
namespace RtenVerif.Overlap

theorem span_merge (t m n : Nat) (hm : 1 ≤ m) (hn : 1 ≤ n) :
    (m * n - 1) * t = (m - 1) * t + (n - 1) * (t * m) := by
  obtain ⟨a, rfl⟩ : ∃ a, m = a + 1 := ⟨m - 1, by omega⟩
  obtain ⟨b, rfl⟩ : ∃ b, n = b + 1 := ⟨n - 1, by omega⟩
  have h : (a + 1) * (b + 1) - 1 = a * b + a + b := by
    have : (a + 1) * (b + 1) = a * b + a + b + 1 := by grind
    omega
  rw [h, Nat.add_sub_cancel, Nat.add_sub_cancel]
  grind

theorem span_plus_stride (t m : Nat) (hm : 1 ≤ m) : (m - 1) * t + t = t * m := by
  obtain ⟨a, rfl⟩ : ∃ a, m = a + 1 := ⟨m - 1, by omega⟩
  rw [Nat.add_sub_cancel]
  grind

theorem stride_le_span (b : Nat × Nat) (h : 2 ≤ b.2) : b.1 ≤ span b := by
  unfold span
  calc b.1 = 1 * b.1 := (Nat.one_mul _).symm
    _ ≤ (b.2 - 1) * b.1 := Nat.mul_le_mul_right _ (by omega)

/-- Key-level merge: from a passing ordering containing `(t*m, n)` and `(t, m)` build a
passing ordering with the two replaced by `(t, m*n)`. -/
theorem chain_merge {L K : List (Nat × Nat)} {t m n : Nat} (hm : 2 ≤ m) (hn : 2 ≤ n)
    (hperm : L.Perm ((t * m, n) :: (t, m) :: K)) (hs : ∀ x ∈ K, 2 ≤ x.2) (hp : Passes 0 L) :
    ∃ L', L'.Perm ((t, m * n) :: K) ∧ Passes 0 L' := by
  have hsL : ∀ x ∈ L, 2 ≤ x.2 := by
    intro x hx
    have := hperm.mem_iff.mp hx
    simp only [List.mem_cons] at this
    rcases this with rfl | rfl | h
    · exact hn
    · exact hm
    · exact hs x h
  obtain ⟨hpos, hsorted⟩ := passes_strict L 0 hp hsL
  have hy : (t, m) ∈ L := hperm.mem_iff.mpr (by simp)
  have ht : 0 < t := hpos _ hy
  have hlt : t < t * m := by
    have := span_plus_stride t m (by omega)
    have h1 : t ≤ (m - 1) * t := stride_le_span (t, m) hm
    omega
  obtain ⟨A, R, rfl⟩ := List.append_of_mem hy
  have hx : (t * m, n) ∈ A ++ (t, m) :: R := hperm.mem_iff.mpr (by simp)
  rw [List.pairwise_append] at hsorted
  obtain ⟨_, hR, hAR⟩ := hsorted
  have hxR : (t * m, n) ∈ R := by
    rcases List.mem_append.mp hx with h | h
    · have := hAR _ h (t, m) List.mem_cons_self
      simp only at this
      omega
    · rcases List.mem_cons.mp h with h | h
      · have := congrArg Prod.fst h
        simp only at this
        omega
      · exact h
  obtain ⟨B, C, rfl⟩ := List.append_of_mem hxR
  rw [passes_append, passes_cons, passes_append, passes_cons] at hp
  obtain ⟨hA, hty, hB, hxgt, hC⟩ := hp
  have hspy : span (t, m) = (m - 1) * t := rfl
  have hspx : span (t * m, n) = (n - 1) * (t * m) := rfl
  -- nothing can sit between the two entries
  have hB0 : B = [] := by
    cases B with
    | nil => rfl
    | cons b B' =>
      exfalso
      have hb : t < b.1 := (List.pairwise_cons.mp hR).1 b (by simp)
      have hb2 : 2 ≤ b.2 := hsL b (by simp)
      have hb3 := stride_le_span b hb2
      have := span_plus_stride t m (by omega)
      simp only [spanSum_cons, hspy] at hxgt
      change _ < t * m at hxgt
      omega
  subst hB0
  simp only [List.nil_append, spanSum_nil, Nat.add_zero] at hC hxgt hperm
  refine ⟨A ++ (t, m * n) :: C, ?_, ?_⟩
  · have h1 : (A ++ (t, m) :: (t * m, n) :: C).Perm ((t * m, n) :: (t, m) :: (A ++ C)) :=
      List.perm_middle.trans ((List.Perm.cons _ List.perm_middle).trans (List.Perm.swap _ _ _))
    have hK : (A ++ C).Perm K := ((h1.symm.trans hperm).cons_inv).cons_inv
    exact List.perm_middle.trans (hK.cons _)
  · rw [passes_append, passes_cons]
    refine ⟨hA, hty, ?_⟩
    have hsp : span (t, m * n) = span (t, m) + span (t * m, n) := by
      rw [hspy, hspx]; exact span_merge t m n (by omega) (by omega)
    rw [hsp, ← Nat.add_assoc]
    exact hC

/-- `merge_axes` step with the two dimensions in front: `(n, t*m)` outside `(m, t)` becomes
`(m*n, t)`.  No side condition. -/
theorem accept_merge_head {t m n : Nat} {rest : List (Nat × Nat)}
    (h : mayOverlap ((n, t * m) :: (m, t) :: rest) = false) :
    mayOverlap ((m * n, t) :: rest) = false := by
  by_cases hz : NoZero ((n, t * m) :: (m, t) :: rest)
  · rw [accepted_iff] at h ⊢
    rcases h with h | ⟨L, hperm, hp⟩
    · exact absurd hz h
    right
    rw [noZero_cons, noZero_cons] at hz
    obtain ⟨hn0, hm0, hzr⟩ := hz
    simp only at hn0 hm0
    by_cases hn1 : n = 1
    · subst hn1
      refine ⟨L, ?_, hp⟩
      simpa [keys_cons] using hperm
    by_cases hm1 : m = 1
    · subst hm1
      refine ⟨L, ?_, hp⟩
      simpa [keys_cons, hn1] using hperm
    have hmn : m * n ≠ 1 := by
      intro h1
      have := Nat.eq_one_of_mul_eq_one_right h1
      omega
    have hk : keys ((n, t * m) :: (m, t) :: rest) = (t * m, n) :: (t, m) :: keys rest := by
      simp [keys_cons, hn1, hm1]
    rw [hk] at hperm
    obtain ⟨L', hperm', hp'⟩ :=
      chain_merge (by omega) (by omega) hperm (keys_size_ge_two hzr) hp
    refine ⟨L', ?_, hp'⟩
    simpa [keys_cons, hmn] using hperm'
  · -- the source is empty, so is the result
    rw [accepted_iff]
    left
    intro hz'
    apply hz
    rw [noZero_cons] at hz'
    rw [noZero_cons, noZero_cons]
    simp only at hz' ⊢
    have := hz'.1
    refine ⟨?_, ?_, hz'.2⟩
    · intro h0; subst h0; simp at this
    · intro h0; subst h0; simp at this

/-- General position: adjacent dimensions `(n, t*m)`, `(m, t)` anywhere in the layout. -/
theorem accept_merge {pre post : List (Nat × Nat)} {t m n : Nat}
    (h : mayOverlap (pre ++ (n, t * m) :: (m, t) :: post) = false) :
    mayOverlap (pre ++ (m * n, t) :: post) = false := by
  have h1 : (pre ++ (n, t * m) :: (m, t) :: post).Perm ((n, t * m) :: (m, t) :: (pre ++ post)) :=
    List.perm_middle.trans ((List.Perm.cons _ List.perm_middle))
  rw [accept_perm h1] at h
  rw [accept_perm List.perm_middle]
  exact accept_merge_head h

end RtenVerif.Overlap
