import RtenVerif.Model.Protobuf

/-! Helper lemmas for C38: `UInt64` ↔ `Nat` facts about the reader arithmetic, and per-operation
specifications (new position, bounds, "never wraps") used by `Props/C38.lean`. -/
namespace RtenVerif.Protobuf

/-- An error outcome that a real decoder run can produce (not a model pseudo-outcome). -/
def Err.real (e : Err) : Prop := e ≠ .wrap ∧ e ≠ .fuel

theorem size_eq : UInt64.size = 18446744073709551616 := rfl

/-! ### arithmetic -/

theorem toNat_add_of_lt {a b : UInt64} (h : a.toNat + b.toNat < UInt64.size) :
    (a + b).toNat = a.toNat + b.toNat := by
  rw [UInt64.toNat_add]; exact Nat.mod_eq_of_lt h

theorem addU_ok {a b c : UInt64} (h : addU a b = .ok c) :
    c.toNat = a.toNat + b.toNat := by
  unfold addU at h
  split at h
  · rename_i hlt
    cases h
    exact toNat_add_of_lt hlt
  · cases h

theorem addU_of_lt {a b : UInt64} (h : a.toNat + b.toNat < UInt64.size) :
    addU a b = .ok (a + b) := by
  unfold addU; rw [if_pos h]

theorem addU_error {a b : UInt64} {e : Err} (h : addU a b = .error e) :
    UInt64.size ≤ a.toNat + b.toNat ∧ e = .wrap := by
  unfold addU at h
  split at h
  · cases h
  · rename_i hn; cases h; exact ⟨by omega, rfl⟩

theorem satSub_toNat (a b : UInt64) : (satSub a b).toNat = a.toNat - b.toNat := by
  unfold satSub; split
  · rename_i h; rw [UInt64.toNat_sub_of_le _ _ h]
  · rename_i h; simp [UInt64.le_iff_toNat_le] at h; simp; omega

theorem sizeU_toNat {d : Bytes} (h : d.size < UInt64.size) : (sizeU d).toNat = d.size := by
  unfold sizeU; exact UInt64.toNat_ofNat_of_lt' h

theorem lrCheck_iff (pos end_ len : UInt64) :
    lrCheck pos end_ len = true ↔ len.toNat ≤ end_.toNat - pos.toNat := by
  unfold lrCheck lrRemaining
  rw [decide_eq_true_iff, UInt64.le_iff_toNat_le, satSub_toNat]

theorem vrRem_toNat {d : Bytes} (h : d.size < UInt64.size) (pos : UInt64) :
    (vrRemaining d pos).toNat = d.size - pos.toNat := by
  unfold vrRemaining; rw [satSub_toNat, sizeU_toNat h]


/-! ### position-returning reader operations -/

/-- On success the position advances by exactly `len` and stays within `end_`; failures are real
errors (never the `wrap` / `fuel` pseudo-outcomes). -/
structure StepSpec (r : Except Err UInt64) (pos end_ len : UInt64) : Prop where
  ok : ∀ p, r = .ok p → p.toNat = pos.toNat + len.toNat ∧ p.toNat ≤ end_.toNat
  err : ∀ e, r = .error e → e.real

theorem real_eof : Err.real .eof := ⟨by decide, by decide⟩
theorem real_io : Err.real .io := ⟨by decide, by decide⟩
theorem real_invalidVarint : Err.real .invalidVarint := ⟨by decide, by decide⟩
theorem real_typeMismatch : Err.real .typeMismatch := ⟨by decide, by decide⟩
theorem real_invalidWireType : Err.real .invalidWireType := ⟨by decide, by decide⟩
theorem real_invalidUtf8 : Err.real .invalidUtf8 := ⟨by decide, by decide⟩
theorem real_tooDeep : Err.real .tooDeep := ⟨by decide, by decide⟩

section
variable {d : Bytes} (hsz : d.size < UInt64.size) {pos end_ : UInt64}
  (hpe : pos.toNat ≤ end_.toNat) (hes : end_.toNat ≤ d.size)
include hsz hpe hes

theorem lrSub_spec (len : UInt64) : StepSpec (lrSub pos end_ len) pos end_ len := by
  have := size_eq
  unfold lrSub
  by_cases hc : lrCheck pos end_ len = true
  · rw [if_pos hc]
    rw [lrCheck_iff] at hc
    have hlt : pos.toNat + len.toNat < UInt64.size := by omega
    rw [addU_of_lt hlt]
    constructor
    · intro p hp; cases hp; rw [toNat_add_of_lt hlt]; omega
    · intro e he; cases he
  · rw [if_neg hc]
    constructor
    · intro p hp; cases hp
    · intro e he; cases he; exact real_eof

theorem vrReadExact_eq {n : UInt64} (hn : n.toNat ≤ end_.toNat - pos.toNat) :
    vrReadExact d pos n = .ok (pos + n) := by
  have := size_eq
  unfold vrReadExact
  have h1 : n ≤ vrRemaining d pos := by
    rw [UInt64.le_iff_toNat_le, vrRem_toNat hsz]; omega
  rw [if_pos h1]
  exact addU_of_lt (by omega)

theorem lrReadFixed_spec (n : UInt64) : StepSpec (lrReadFixed d pos end_ n) pos end_ n := by
  have := size_eq
  unfold lrReadFixed
  by_cases hc : lrCheck pos end_ n = true
  · rw [if_pos hc]
    rw [lrCheck_iff] at hc
    rw [vrReadExact_eq hsz hpe hes hc]
    have hlt : pos.toNat + n.toNat < UInt64.size := by omega
    constructor
    · intro p hp; cases hp; rw [toNat_add_of_lt hlt]; omega
    · intro e he; cases he
  · rw [if_neg hc]
    constructor
    · intro p hp; cases hp
    · intro e he; cases he; exact real_eof

theorem lrReadBytes_spec (len : UInt64) : StepSpec (lrReadBytes d pos end_ len) pos end_ len := by
  have := size_eq
  unfold lrReadBytes
  by_cases hc : lrCheck pos end_ len = true
  · rw [if_pos hc]
    rw [lrCheck_iff] at hc
    unfold vrReadBytes
    have h1 : len ≤ vrRemaining d pos := by
      rw [UInt64.le_iff_toNat_le, vrRem_toNat hsz]; omega
    rw [if_pos h1, vrReadExact_eq hsz hpe hes hc]
    have hlt : pos.toNat + len.toNat < UInt64.size := by omega
    constructor
    · intro p hp; cases hp; rw [toNat_add_of_lt hlt]; omega
    · intro e he; cases he
  · rw [if_neg hc]
    constructor
    · intro p hp; cases hp
    · intro e he; cases he; exact real_eof

theorem lrSkip_spec (len : UInt64) : StepSpec (lrSkip d pos end_ len) pos end_ len := by
  have := size_eq
  unfold lrSkip
  by_cases hc : lrCheck pos end_ len = true
  · rw [if_pos hc]
    rw [lrCheck_iff] at hc
    unfold vrSkip
    have h1 : len ≤ vrRemaining d pos := by
      rw [UInt64.le_iff_toNat_le, vrRem_toNat hsz]; omega
    rw [if_pos h1]
    have hlt : pos.toNat + len.toNat < UInt64.size := by omega
    by_cases h63 : len.toNat < 2 ^ 63
    · rw [if_pos h63, addU_of_lt hlt]
      constructor
      · intro p hp; cases hp; rw [toNat_add_of_lt hlt]; omega
      · intro e he; cases he
    · rw [if_neg h63]
      constructor
      · intro p hp; cases hp
      · intro e he; cases he; exact real_eof
  · rw [if_neg hc]
    constructor
    · intro p hp; cases hp
    · intro e he; cases he; exact real_eof

end


/-! ### varints -/

theorem readVarintAux_spec {d : Bytes} (hsz : d.size < UInt64.size) :
    ∀ (k idx : Nat) (v pos : UInt64),
      (∀ x p, readVarintAux d k idx v pos = .ok x p →
          pos.toNat < p.toNat ∧ p.toNat ≤ pos.toNat + k ∧ p.toNat ≤ d.size) ∧
      (∀ p, readVarintAux d k idx v pos = .eof p →
          pos.toNat ≤ p.toNat ∧ d.size ≤ p.toNat ∧ (p.toNat ≤ d.size ∨ p = pos)) := by
  have := size_eq
  intro k
  induction k with
  | zero =>
    intro idx v pos
    constructor
    · intro x p h; simp [readVarintAux] at h
    · intro p h; simp [readVarintAux] at h
  | succ k ih =>
    intro idx v pos
    unfold readVarintAux
    cases hb : d[pos.toNat]? with
    | none =>
      have hge : d.size ≤ pos.toNat := by
        rcases Nat.lt_or_ge pos.toNat d.size with h | h
        · have : d[pos.toNat]? = some d[pos.toNat] := Array.getElem?_eq_getElem h
          rw [this] at hb; cases hb
        · exact h
      constructor
      · intro x p h; simp at h
      · intro p h
        simp at h
        subst h
        exact ⟨Nat.le_refl _, hge, Or.inr rfl⟩
    | some b =>
      have hlt : pos.toNat < d.size := by
        rcases Nat.lt_or_ge pos.toNat d.size with h | h
        · exact h
        · have : d[pos.toNat]? = none := Array.getElem?_eq_none h
          rw [this] at hb; cases hb
      have h1 : (pos + 1).toNat = pos.toNat + 1 := by
        have : pos.toNat + (1 : UInt64).toNat < UInt64.size := by
          show pos.toNat + 1 < UInt64.size; omega
        exact toNat_add_of_lt this
      simp only []
      split
      · split
        · constructor
          · intro x p h; cases h
          · intro p h; cases h
        · constructor
          · intro x p h
            cases h
            rw [h1]; omega
          · intro p h; cases h
      · have ih' := ih (idx + 1)
          (v ||| ((b &&& 0x7f).toUInt64 <<< (UInt64.ofNat (idx * 7)))) (pos + 1)
        constructor
        · intro x p h
          have := ih'.1 x p h
          omega
        · intro p h
          have := ih'.2 p h
          rcases this with ⟨a1, a2, a3⟩
          refine ⟨by omega, a2, Or.inl ?_⟩
          rcases a3 with a3 | a3
          · exact a3
          · rw [a3, h1]; omega

section
variable {d : Bytes} (hsz : d.size < UInt64.size) {pos end_ : UInt64}
  (hpe : pos.toNat ≤ end_.toNat) (hes : end_.toNat ≤ d.size)
include hsz hpe hes

theorem lrReadVarint_ok {v p : UInt64} (h : lrReadVarint d pos end_ = .ok v p) :
    pos.toNat < p.toNat ∧ p.toNat ≤ end_.toNat ∧ p.toNat ≤ pos.toNat + 10 := by
  unfold lrReadVarint at h
  split at h
  · split at h
    · rename_i x q hq
      split at h
      · cases h
      · rename_i hgt
        cases h
        have := (readVarintAux_spec hsz 10 0 0 pos).1 _ _ hq
        simp [UInt64.lt_iff_toNat_lt] at hgt
        omega
    · split at h <;> cases h
    · cases h
  · cases h

theorem lrReadVarint_eof {p : UInt64} (h : lrReadVarint d pos end_ = .eof p) :
    p.toNat = end_.toNat ∧ pos.toNat ≤ p.toNat := by
  unfold lrReadVarint at h
  split at h
  · split at h
    · split at h <;> cases h
    · rename_i q hq
      split at h
      · cases h
      · rename_i hgt
        cases h
        have := (readVarintAux_spec hsz 10 0 0 pos).2 _ hq
        simp [UInt64.lt_iff_toNat_lt] at hgt
        omega
    · cases h
  · rename_i hc
    cases h
    have hc' : ¬ ((1 : UInt64).toNat ≤ end_.toNat - pos.toNat) := by
      rw [← lrCheck_iff]; exact hc
    have : (1 : UInt64).toNat = 1 := rfl
    omega

end


/-! ### `Fields::next` -/

section
variable {d : Bytes} (hsz : d.size < UInt64.size) {pos end_ : UInt64}
  (hpe : pos.toNat ≤ end_.toNat) (hes : end_.toNat ≤ d.size)
include hsz hpe hes

theorem readValue_ok {wt : UInt64} {fv : FieldValue} {p2 len : UInt64}
    (h : readValue d wt pos end_ = .ok (fv, p2, len)) :
    pos.toNat ≤ p2.toNat ∧ p2.toNat ≤ end_.toNat ∧
      (fv = .len len ∨ (len = 0 ∧ ∀ l, fv ≠ .len l)) := by
  unfold readValue at h
  split at h
  · split at h
    · rename_i hv
      cases h
      have := lrReadVarint_ok hsz hpe hes hv
      exact ⟨by omega, by omega, Or.inr ⟨rfl, by intro l hl; cases hl⟩⟩
    · cases h
    · cases h
  · split at h
    · split at h
      · rename_i hv
        cases h
        have := (lrReadFixed_spec hsz hpe hes 8).ok _ hv
        exact ⟨by omega, by omega, Or.inr ⟨rfl, by intro l hl; cases hl⟩⟩
      · cases h
    · split at h
      · split at h
        · rename_i hv
          cases h
          have := lrReadVarint_ok hsz hpe hes hv
          exact ⟨by omega, by omega, Or.inl rfl⟩
        · cases h
        · cases h
      · split at h
        · cases h
          exact ⟨Nat.le_refl _, hpe, Or.inr ⟨rfl, by intro l hl; cases hl⟩⟩
        · split at h
          · cases h
            exact ⟨Nat.le_refl _, hpe, Or.inr ⟨rfl, by intro l hl; cases hl⟩⟩
          · split at h
            · split at h
              · rename_i hv
                cases h
                have := (lrReadFixed_spec hsz hpe hes 4).ok _ hv
                exact ⟨by omega, by omega, Or.inr ⟨rfl, by intro l hl; cases hl⟩⟩
              · cases h
            · cases h

theorem readValue_err {wt : UInt64} {e : Err} (h : readValue d wt pos end_ = .error e) :
    e.real := by
  unfold readValue at h
  split at h
  · split at h
    · cases h
    · cases h; exact real_eof
    · cases h; exact real_invalidVarint
  · split at h
    · split at h
      · cases h
      · rename_i hv
        cases h
        exact (lrReadFixed_spec hsz hpe hes 8).err _ hv
    · split at h
      · split at h
        · cases h
        · cases h; exact real_eof
        · cases h; exact real_invalidVarint
      · split at h
        · cases h
        · split at h
          · cases h
          · split at h
            · split at h
              · cases h
              · rename_i hv
                cases h
                exact (lrReadFixed_spec hsz hpe hes 4).err _ hv
            · cases h; exact real_invalidWireType

theorem nextField_field {num : UInt64} {fv : FieldValue} {p fend : UInt64}
    (h : nextField d pos end_ = .field num fv p fend) :
    pos.toNat < p.toNat ∧ p.toNat ≤ fend.toNat ∧ fend.toNat ≤ end_.toNat ∧
      (∀ l, fv = .len l → fend.toNat = p.toNat + l.toNat) := by
  unfold nextField at h
  split at h
  · cases h
  · cases h
  · rename_i tag p1 htag
    have ht := lrReadVarint_ok hsz hpe hes htag
    split at h
    · cases h
    · rename_i fv' p2 len hval
      have hv := readValue_ok hsz (pos := p1) (by omega) hes hval
      split at h
      · rename_i fend' hsub
        cases h
        have hs := (lrSub_spec hsz (pos := p) (end_ := end_) (by omega) hes len).ok _ hsub
        refine ⟨by omega, by omega, by omega, ?_⟩
        intro l hl
        rcases hv.2.2 with h1 | ⟨_, h2⟩
        · rw [hl] at h1; cases h1; omega
        · exact absurd hl (h2 l)
      · cases h

theorem nextField_done {p : UInt64} (h : nextField d pos end_ = .done p) :
    p.toNat = end_.toNat ∧ pos.toNat ≤ p.toNat := by
  unfold nextField at h
  split at h
  · rename_i q hq
    cases h
    exact lrReadVarint_eof hsz hpe hes hq
  · cases h
  · split at h
    · cases h
    · split at h <;> cases h

theorem nextField_err {e : Err} (h : nextField d pos end_ = .err e) : e.real := by
  unfold nextField at h
  split at h
  · cases h
  · cases h; exact real_invalidVarint
  · rename_i tag p1 htag
    have ht := lrReadVarint_ok hsz hpe hes htag
    split at h
    · rename_i e' hval
      cases h
      exact readValue_err hsz (pos := p1) (by omega) hes hval
    · rename_i fv' p2 len hval
      have hv := readValue_ok hsz (pos := p1) (by omega) hes hval
      split at h
      · cases h
      · rename_i e' hsub
        cases h
        exact (lrSub_spec hsz (pos := p2) (end_ := end_) (by omega) hes len).err _ hsub

end

end RtenVerif.Protobuf
