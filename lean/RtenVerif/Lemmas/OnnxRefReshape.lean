import RtenVerif.Model.OnnxRef
/-! Reshape keeps the row-major element sequence and the element count (for `0` and `-1`). -/
namespace RtenVerif.OnnxRef

theorem prod_map_resolve (q : Nat) : ∀ dims : List Int,
    prod (dims.map (fun d => if d == -1 then q else d.toNat)) =
      q ^ (dims.filter (· == -1)).length * prod ((dims.filter (· != -1)).map Int.toNat)
  | [] => by simp [prod]
  | d :: ds => by
    have ih := prod_map_resolve q ds
    by_cases h : d = -1
    · subst h
      simp only [List.map_cons, prod, ih, List.filter_cons]
      simp [Nat.pow_succ, Nat.mul_comm, Nat.mul_left_comm]
    · have h1 : (d == -1) = false := by simpa using h
      have h2 : (d != -1) = true := by simpa using h
      simp only [List.map_cons, prod, ih, List.filter_cons, h1, h2]
      simp [prod, Nat.mul_left_comm]

theorem filter_ne_of_not_contains (dims : List Int) (h : dims.contains (-1) = false) :
    dims.filter (· != -1) = dims := by
  rw [List.filter_eq_self]
  intro a ha
  have : a ≠ -1 := by
    intro he; subst he
    have : dims.contains (-1) = true := by simpa using ha
    rw [h] at this; exact Bool.noConfusion this
  simpa using this

/-- RS1. Whatever shape `reshapeResolve` returns has exactly `n` elements. -/
theorem reshapeResolve_prod (n : Nat) (dims : List Int) (out : List Nat)
    (h : reshapeResolve n dims = .ok out) : prod out = n := by
  unfold reshapeResolve at h
  split at h
  · first | cases h | (simp [fail, ambig] at h)
  · next hcnt =>
    simp only at h
    split at h
    · next hc =>
      split at h
      · first | cases h | (simp [fail, ambig] at h)
      · split at h
        · first | cases h | (simp [fail, ambig] at h)
        · next hk hm =>
          have hout : out = dims.map (fun d => if d == -1 then
              n / prod ((dims.filter (· != -1)).map Int.toNat) else d.toNat) := by
            injection h with h; exact h.symm
          rw [hout, prod_map_resolve]
          have hone : (dims.filter (· == -1)).length = 1 := by
            have hpos : 0 < (dims.filter (· == -1)).length := by
              apply List.length_pos_of_mem (a := -1)
              simp only [List.mem_filter, beq_self_eq_true, and_true]
              simpa using hc
            omega
          rw [hone, Nat.pow_one]
          have hdiv : n % prod ((dims.filter (· != -1)).map Int.toNat) = 0 := by simpa using hm
          exact Nat.div_mul_cancel (Nat.dvd_of_mod_eq_zero hdiv)
    · next hc =>
      split at h
      · next hk =>
        have hout : out = dims.map Int.toNat := by injection h with h; exact h.symm
        have hc' : dims.contains (-1) = false := by simpa using hc
        rw [filter_ne_of_not_contains dims hc'] at hk
        rw [hout]; simpa using hk
      · first | cases h | (simp [fail, ambig] at h)

/-- RS2. The target shape computed by `Reshape` (with `0` = copy, `-1` = infer, `allowzero`) always
has the element count of the input shape. -/
theorem reshapeDims_prod (inShape : List Nat) (spec : List Int) (allowzero : Bool) (out : List Nat)
    (h : reshapeDims inShape spec allowzero = .ok out) : prod out = prod inShape := by
  unfold reshapeDims at h
  simp only [bind, Except.bind] at h
  split at h
  · first | cases h | (simp [fail, ambig] at h)
  · split at h
    · first | cases h | (simp [fail, ambig] at h)
    · split at h
      · first | cases h | (simp [fail, ambig] at h)
      · exact reshapeResolve_prod _ _ _ h

/-- RS3. `Reshape` preserves the row-major element sequence and the element count. -/
theorem reshape_spec (x y : Tensor) (spec : List Int) (allowzero : Bool)
    (h : reshape x spec allowzero = .ok y) : y.data = x.data ∧ prod y.shape = prod x.shape := by
  unfold reshape at h
  simp only [bind, Except.bind] at h
  split at h
  · first | cases h | (simp [fail, ambig] at h)
  · next s hs =>
    have : y = ⟨s, x.data⟩ := by
      have h' : (Except.ok ⟨s, x.data⟩ : R Tensor) = .ok y := h
      injection h' with h'; exact h'.symm
    subst this
    exact ⟨rfl, reshapeDims_prod _ _ _ _ hs⟩

end RtenVerif.OnnxRef
