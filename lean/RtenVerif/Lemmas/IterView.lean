import RtenVerif.Lemmas.IterLayout
import RtenVerif.Lemmas.IterFold

/-!
C07 lemmas, part 9: views (`set size`, `index_axis`, `split_at`) and the refinement of
`AxisIter`/`AxisIterMut` (current, fixed `split_at`).
-/
namespace RtenVerif.Iter

/-! ### `setSize`, `eraseIdx`, `total` -/

theorem setSize_length (dims : List (Nat × Nat)) (a n : Nat) :
    (View.setSize dims a n).length = dims.length := by
  simp [View.setSize]

theorem setSize_setSize : ∀ (dims : List (Nat × Nat)) (a m n : Nat),
    View.setSize (View.setSize dims a m) a n = View.setSize dims a n
  | [], _, _, _ => by simp [View.setSize]
  | d :: ds, 0, m, n => by simp [View.setSize]
  | d :: ds, a + 1, m, n => by
    have := setSize_setSize ds a m n
    simp only [View.setSize, List.modify_succ_cons, List.cons.injEq, true_and] at this ⊢
    exact this

theorem setSize_getD : ∀ (dims : List (Nat × Nat)) (a n : Nat), a < dims.length →
    (View.setSize dims a n).getD a (0, 0) = (n, (dims.getD a (0, 0)).2)
  | [], _, _, h => by simp at h
  | d :: ds, 0, n, _ => by simp [View.setSize]
  | d :: ds, a + 1, n, h => by
    have := setSize_getD ds a n (by simpa using h)
    simp only [View.setSize, List.modify_succ_cons, List.getD_cons_succ] at this ⊢
    exact this

theorem setSize_eraseIdx : ∀ (dims : List (Nat × Nat)) (a n : Nat),
    (View.setSize dims a n).eraseIdx a = dims.eraseIdx a
  | [], _, _ => by simp [View.setSize]
  | d :: ds, 0, n => by simp [View.setSize]
  | d :: ds, a + 1, n => by
    have := setSize_eraseIdx ds a n
    simp only [View.setSize, List.modify_succ_cons, List.eraseIdx_cons_succ, List.cons.injEq,
      true_and] at this ⊢
    exact this

theorem total_setSize : ∀ (dims : List (Nat × Nat)) (a n : Nat), a < dims.length →
    total (View.setSize dims a n) = n * total (dims.eraseIdx a)
  | [], _, _, h => by simp at h
  | d :: ds, 0, n, _ => by simp [View.setSize, total]
  | d :: ds, a + 1, n, h => by
    have := total_setSize ds a n (by simpa using h)
    simp only [View.setSize, List.modify_succ_cons, List.eraseIdx_cons_succ, total] at this ⊢
    rw [this]; ac_rfl

/-- A view's item does not depend on its base when it has no elements. -/
theorem item_congr (b1 b2 : Nat) (dims : List (Nat × Nat)) (h : total dims ≠ 0 → b1 = b2) :
    View.item ⟨b1, dims⟩ = View.item ⟨b2, dims⟩ := by
  by_cases hz : total dims = 0
  · have : rowMajor dims = [] := List.length_eq_zero_iff.mp (by rw [rowMajor_length, hz])
    simp [View.item, this]
  · rw [h hz]

theorem take_range'_le' {a n k : Nat} (h : k ≤ n) : (List.range' a n).take k = List.range' a k := by
  have : n = k + (n - k) := by omega
  rw [this, ← List.range'_append, List.take_left' (by simp)]

/-! ### `AxisIter` -/

/-- The `i`-th logical item of `axis_iter(axis)` on `v`. -/
def axisItem (v : View) (axis i : Nat) : Item := (v.indexAxis axis i).item

/-- Logical item list of `axis_iter(axis)`. -/
def axisSpec (v : View) (axis : Nat) : List Item :=
  (List.range (v.size axis)).map (axisItem v axis)

structure AxisInv (s : AxisIter) : Prop where
  axis : s.axis < s.view.dims.length
  le : s.index ≤ s.stop
  stop : s.stop ≤ s.view.size s.axis

def absA (s : AxisIter) : List Item :=
  (List.range' s.index (s.stop - s.index)).map (axisItem s.view s.axis)

theorem axisItem_left (v : View) (axis mid i : Nat) :
    axisItem ⟨v.base, View.setSize v.dims axis mid⟩ axis i = axisItem v axis i := by
  by_cases ha : axis < v.dims.length
  · simp only [axisItem, View.indexAxis, View.stride, setSize_eraseIdx, setSize_getD _ _ _ ha]
  · have : View.setSize v.dims axis mid = v.dims := by
      simp only [View.setSize]
      exact List.modify_eq_self (by omega)
    rw [this]

theorem axisItem_right (v : View) (axis mid j b' : Nat) (ha : axis < v.dims.length)
    (hb : total (View.setSize v.dims axis (v.size axis - mid)) ≠ 0 → b' = v.base + mid * v.stride axis)
    (hj : j < v.size axis - mid) :
    axisItem ⟨b', View.setSize v.dims axis (v.size axis - mid)⟩ axis j = axisItem v axis (j + mid) := by
  simp only [axisItem, View.indexAxis, View.stride, setSize_eraseIdx, setSize_getD _ _ _ ha]
  by_cases hE : total (v.dims.eraseIdx axis) = 0
  · simp only [hE, if_true]
    exact item_congr _ _ _ (fun h => absurd hE h)
  · simp only [hE, if_false]
    have : total (View.setSize v.dims axis (v.size axis - mid)) ≠ 0 := by
      rw [total_setSize _ _ _ ha]
      intro h0
      rcases Nat.mul_eq_zero.mp h0 with h | h
      · omega
      · exact hE h
    have hb' := hb this
    simp only [View.stride] at hb'
    apply item_congr
    intro _
    rw [hb', Nat.mul_add, Nat.mul_comm mid]
    omega

theorem axis_nextOk : NextOk AxisIter.next AxisInv absA := by
  intro s hs
  unfold AxisIter.next absA
  by_cases h : s.index ≥ s.stop
  · have : s.stop - s.index = 0 := by omega
    simp [h, this, hs]
  · obtain ⟨k, hk⟩ : ∃ k, s.stop - s.index = k + 1 := ⟨s.stop - s.index - 1, by omega⟩
    have hk' : s.stop - (s.index + 1) = k := by omega
    simp only [h, if_false, hk, hk', List.range'_succ, List.map_cons, List.head?_cons,
      List.tail_cons, axisItem, true_and]
    exact ⟨hs.axis, by have := hs.le; simp only; omega, hs.stop⟩

theorem axis_backOk : BackOk AxisIter.nextBack AxisInv absA := by
  intro s hs
  unfold AxisIter.nextBack absA
  by_cases h : s.index ≥ s.stop
  · have : s.stop - s.index = 0 := by omega
    simp [h, this, hs]
  · obtain ⟨k, hk⟩ : ∃ k, s.stop - s.index = k + 1 := ⟨s.stop - s.index - 1, by omega⟩
    have hk' : s.stop - 1 - s.index = k := by omega
    have hk'' : s.index + k = s.stop - 1 := by omega
    simp only [h, if_false, hk, hk', List.range'_1_concat, List.map_append, List.map_cons,
      List.map_nil, List.getLast?_concat, List.dropLast_concat, axisItem, hk'', true_and]
    exact ⟨hs.axis, by simp only; omega, by have := hs.stop; simp only; omega⟩

theorem axis_len (s : AxisIter) : AxisIter.len s = (absA s).length := by
  simp [AxisIter.len, absA]

theorem view_splitAt_some (v : View) (axis mid : Nat) (ha : axis < v.dims.length)
    (hm : mid ≤ v.size axis) :
    v.splitAt axis mid = some
      (⟨v.base, View.setSize v.dims axis mid⟩,
       ⟨if total (View.setSize v.dims axis (v.size axis - mid)) = 0 then v.base + minDataLen v.dims
          else v.base + mid * v.stride axis, View.setSize v.dims axis (v.size axis - mid)⟩) := by
  simp [View.splitAt, ha, hm]

theorem view_size_setSize (b : Nat) (dims : List (Nat × Nat)) (axis n : Nat) (ha : axis < dims.length) :
    View.size ⟨b, View.setSize dims axis n⟩ axis = n := by
  simp only [View.size]
  rw [setSize_getD _ _ _ ha]

theorem axis_split (s : AxisIter) (k : Nat) (hs : AxisInv s) (hk : k ≤ (absA s).length) :
    ∃ a b, AxisIter.splitAt s k = some (a, b) ∧ absA a = (absA s).take k ∧
      absA b = (absA s).drop k ∧ AxisInv a ∧ AxisInv b := by
  obtain ⟨hax, hle, hstop⟩ := hs
  simp only [absA, List.length_map, List.length_range'] at hk
  have hmid : s.index + k ≤ s.view.size s.axis := by omega
  have hlen : k ≤ s.len := by simp only [AxisIter.len]; exact hk
  have hsp : AxisIter.splitAt s k = some
      ({ view := ⟨s.view.base, View.setSize s.view.dims s.axis (s.index + k)⟩, axis := s.axis,
         index := s.index, stop := s.index + k },
       { view := ⟨if total (View.setSize s.view.dims s.axis (s.view.size s.axis - (s.index + k))) = 0
                    then s.view.base + minDataLen s.view.dims
                    else s.view.base + (s.index + k) * s.view.stride s.axis,
                  View.setSize s.view.dims s.axis (s.view.size s.axis - (s.index + k))⟩,
         axis := s.axis, index := 0, stop := s.stop - (s.index + k) }) := by
    simp only [AxisIter.splitAt, hlen, if_true, view_splitAt_some _ _ _ hax hmid, Option.map_some,
      AxisIter.new, view_size_setSize _ _ _ _ hax]
  refine ⟨_, _, hsp, ?_, ?_, ?_, ?_⟩
  · -- left half
    simp only [absA, Nat.add_sub_cancel_left, ← List.map_take, take_range'_le' hk]
    apply List.map_congr_left
    intro i _
    exact axisItem_left _ _ _ _
  · -- right half
    simp only [absA, Nat.sub_zero, ← List.map_drop, List.drop_range', Nat.mul_one]
    have e : s.stop - s.index - k = s.stop - (s.index + k) := by omega
    rw [e, ← Nat.zero_add (s.index + k), map_range'_shift, Nat.zero_add]
    apply List.map_congr_left
    intro j hj
    rw [List.mem_range'_1] at hj
    exact axisItem_right _ _ _ _ _ hax (fun h => by simp [h]) (by omega)
  · exact ⟨by simp only [setSize_length]; exact hax, by simp only; omega,
      by simp only [view_size_setSize _ _ _ _ hax]; omega⟩
  · exact ⟨by simp only [setSize_length]; exact hax, by simp only; omega,
      by simp only [view_size_setSize _ _ _ _ hax]; omega⟩

/-- **`AxisIter` refines the deque** over its remaining logical items. -/
theorem axis_refines : Refines AxisIter.ops AxisInv absA where
  next := axis_nextOk
  nextBack := axis_backOk
  nth := fun s n hs => defaultNth_spec axis_nextOk n s hs
  len := fun s _ => axis_len s
  fold := fun s hs => drainFront_spec axis_nextOk _ s hs (by rw [axis_len]; exact Nat.le_refl _)
  rev := fun s hs => drainBack_spec axis_backOk _ s hs (by rw [axis_len]; exact Nat.le_refl _)
  splitOk := axis_split
  splitPanic := fun s k _ hk => by
    simp only [absA, List.length_map, List.length_range'] at hk
    show AxisIter.splitAt s k = none
    have : ¬ k ≤ s.len := by simp only [AxisIter.len]; omega
    simp only [AxisIter.splitAt, this, if_false]

theorem axis_new (v : View) (axis : Nat) (ha : axis < v.dims.length) :
    AxisInv (AxisIter.new v axis) ∧ absA (AxisIter.new v axis) = axisSpec v axis := by
  refine ⟨⟨ha, Nat.zero_le _, Nat.le_refl _⟩, ?_⟩
  show (List.range' 0 (v.size axis - 0)).map _ = (List.range (v.size axis)).map _
  rw [Nat.sub_zero, List.range_eq_range']
  rfl

end RtenVerif.Iter
