import RtenVerif.Model.OutputTypes

/-! Helper lemmas for C12: soundness of one propagation step. -/
namespace RtenVerif.OutputTypes

/-- Run-time typing of one execution: the value type each value node carries (`none` = the
value is never produced in this execution). -/
abbrev RtTyping := NodeId → Option VType

/-- Every inferred label is the run-time type. -/
def Sound (rt : RtTyping) (types : TypeMap) : Prop :=
  ∀ id t, types.get id = some t → rt id = some t

/-- The static metadata (declared value types, constant element types) is right about this execution. -/
def StaticSound (rt : RtTyping) (static : NodeId → Option VType) : Prop :=
  ∀ id t, static id = some t → rt id = some t

/-- Run-time type of input slot `i` of an operator node. -/
def rtInput (rt : RtTyping) (op : OpNode) (i : Nat) : Option VType :=
  match op.inputs[i]? with
  | some (some id) => rt id
  | _ => none

/-- `H_o` for a list of outputs and the rules zipped with them. -/
def OutsSound (rt : RtTyping) (op : OpNode) (outs : List (Option NodeId)) (rs : List Rule) : Prop :=
  ∀ (j : Nat) (id : NodeId) (r : Rule), outs[j]? = some (some id) → rs[j]? = some r →
    ∀ t, r.eval (rtInput rt op) = some t → rt id = some t

/-- **Hypothesis `H_o`**: the operator's declared rules, evaluated on the run-time types of its
inputs, give the run-time type of each produced output. -/
def RuleSound (rt : RtTyping) (op : OpNode) : Prop :=
  ∀ rs, op.rules = some rs → OutsSound rt op op.outputs rs

theorem eval_mono (r : Rule) (g g' : Nat → Option VType)
    (h : ∀ i t, g i = some t → g' i = some t) (t : VType) (hr : r.eval g = some t) :
    r.eval g' = some t := by
  cases r with
  | fixed t' => simpa [Rule.eval] using hr
  | copyFromInput i => exact h i t (by simpa [Rule.eval] using hr)
  | elementTypeOfInputSequence i =>
    simp only [Rule.eval, Option.map_eq_some_iff] at hr ⊢
    obtain ⟨a, ha, rfl⟩ := hr
    exact ⟨a, h i a ha, rfl⟩
  | sequenceWithElementTypeOfInput i =>
    simp only [Rule.eval, Option.map_eq_some_iff] at hr ⊢
    obtain ⟨a, ha, rfl⟩ := hr
    exact ⟨a, h i a ha, rfl⟩
  | fixedAttr n s => simp [Rule.eval] at hr
  | attrOr n s f => simp [Rule.eval] at hr

theorem getInputType_sound (rt : RtTyping) (static) (types : TypeMap) (op : OpNode)
    (hs : StaticSound rt static) (ht : Sound rt types) (i : Nat) (t : VType)
    (h : getInputType static types op i = some t) : rtInput rt op i = some t := by
  unfold getInputType at h
  unfold rtInput
  cases hin : op.inputs[i]? with
  | none => simp [hin] at h
  | some o =>
    cases o with
    | none => simp [hin] at h
    | some id =>
      simp only [hin] at h ⊢
      cases hget : types.get id with
      | some t' =>
        simp only [hget] at h
        cases h
        exact ht id _ hget
      | none =>
        simp only [hget] at h
        exact hs id t h

theorem sound_cons (rt : RtTyping) (types : TypeMap) (id : NodeId) (t : VType)
    (ht : Sound rt types) (h : rt id = some t) : Sound rt ((id, t) :: types) := by
  intro id' t' hget
  unfold TypeMap.get at hget
  simp only [List.lookup_cons] at hget
  split at hget
  · rename_i heq
    have : id' = id := by simpa using heq
    cases hget
    rw [this]; exact h
  · exact ht id' t' hget

theorem stepOutputs_sound (rt : RtTyping) (strict : Bool) (static) (op : OpNode)
    (hs : StaticSound rt static) :
    ∀ (outs : List (Option NodeId)) (rs : List Rule) (types types' : TypeMap),
      Sound rt types → OutsSound rt op outs rs →
      stepOutputs strict static op outs rs types = some types' → Sound rt types' := by
  intro outs
  induction outs with
  | nil =>
    intro rs types types' ht _ h
    cases rs <;> (simp [stepOutputs] at h; cases h; exact ht)
  | cons o outs ih =>
    intro rs types types' ht ho h
    cases rs with
    | nil =>
      cases o <;> (simp [stepOutputs] at h; cases h; exact ht)
    | cons r rs =>
      have ho' : ∀ (j : Nat) (id : NodeId) (r' : Rule), (o :: outs)[j]? = some (some id) → (r :: rs)[j]? = some r' →
          ∀ t, r'.eval (rtInput rt op) = some t → rt id = some t := ho
      have htail : OutsSound rt op outs rs := fun j id r' h1 h2 => ho' (j + 1) id r' (by simpa using h1) (by simpa using h2)
      cases o with
      | none =>
        simp only [stepOutputs] at h
        exact ih rs types types' ht htail h
      | some id =>
        simp only [stepOutputs] at h
        split at h
        · rename_i t hev
          have hrt : rt id = some t :=
            ho' 0 id r (by simp) (by simp) t
              (eval_mono r _ _ (fun i t' => getInputType_sound rt static types op hs ht i t') t hev)
          exact ih rs _ types' (sound_cons rt types id t ht hrt) htail h
        · cases strict
          · simp only [Bool.false_eq_true, if_false] at h
            exact ih rs types types' ht htail h
          · simp at h

theorem stepOp_sound (rt : RtTyping) (strict : Bool) (static) (op : OpNode) (types types' : TypeMap)
    (hs : StaticSound rt static) (ht : Sound rt types) (ho : RuleSound rt op)
    (h : stepOp strict static types op = some types') : Sound rt types' := by
  unfold stepOp at h
  split at h
  · rename_i rs hr
    exact stepOutputs_sound rt strict static op hs op.outputs rs types types' ht (ho rs hr) h
  · cases strict
    · simp only [Bool.false_eq_true, if_false] at h
      cases h; exact ht
    · simp at h

end RtenVerif.OutputTypes
