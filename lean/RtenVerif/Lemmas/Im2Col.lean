/-
Lemmas for the im2col offset-table model (C14 D7): indexing into block-structured lists.
-/
import RtenVerif.Model.Im2Col
namespace RtenVerif.Im2Col

theorem length_flatMap_blocks {β : Type} (L : Nat) (G : Nat → List β) (hG : ∀ a, (G a).length = L) :
    ∀ A, ((List.range A).flatMap G).length = A * L
  | 0 => by simp
  | A + 1 => by
    rw [List.range_succ, List.flatMap_append, List.length_append, length_flatMap_blocks L G hG A]
    simp [hG, Nat.succ_mul]

/-- Element `a·L + j` of a concatenation of `A` blocks of length `L` is element `j` of block `a`. -/
theorem getElem?_flatMap_blocks {β : Type} (L : Nat) (G : Nat → List β) (hG : ∀ a, (G a).length = L) :
    ∀ (A a j : Nat), a < A → j < L → ((List.range A).flatMap G)[a * L + j]? = (G a)[j]?
  | 0, a, j, h, _ => by omega
  | A + 1, a, j, ha, hj => by
    rw [List.range_succ, List.flatMap_append, List.getElem?_append, length_flatMap_blocks L G hG A]
    by_cases h : a < A
    · have : a * L + j < A * L := by
        calc a * L + j < a * L + L := by omega
          _ = (a + 1) * L := by rw [Nat.succ_mul]
          _ ≤ A * L := Nat.mul_le_mul_right _ h
      rw [if_pos this]
      exact getElem?_flatMap_blocks L G hG A a j h hj
    · have ha' : a = A := by omega
      subst ha'
      have : ¬ a * L + j < a * L := by omega
      rw [if_neg this]
      simp

theorem getElem?_range_map {β : Type} (f : Nat → β) (n j : Nat) (h : j < n) :
    ((List.range n).map f)[j]? = some (f j) := by
  simp [h]

theorem rowChan_get (p : Params) (c ky kx : Nat) (hc : c < p.chans) (hky : ky < p.kh) (hkx : kx < p.kw) :
    (rowChanMain p)[(c * p.kh + ky) * p.kw + kx]? = some ((c : Int) * p.sc) := by
  unfold rowChanMain
  have hidx : (c * p.kh + ky) * p.kw + kx = c * (p.kh * p.kw) + (ky * p.kw + kx) := by
    rw [Nat.add_mul, Nat.mul_assoc, Nat.add_assoc]
  have hj : ky * p.kw + kx < p.kh * p.kw := by
    calc ky * p.kw + kx < ky * p.kw + p.kw := by omega
      _ = (ky + 1) * p.kw := by rw [Nat.succ_mul]
      _ ≤ p.kh * p.kw := Nat.mul_le_mul_right _ hky
  rw [hidx, getElem?_flatMap_blocks (p.kh * p.kw) _ (by intro a; simp) p.chans c _ hc hj,
    getElem?_range_map _ _ _ hj]

theorem rowY_get (p : Params) (c ky kx : Nat) (hc : c < p.chans) (hky : ky < p.kh) (hkx : kx < p.kw) :
    (rowYMain p)[(c * p.kh + ky) * p.kw + kx]? = some ((p.sth : Int) * ky * p.dilY) := by
  unfold rowYMain
  have hidx : (c * p.kh + ky) * p.kw + kx = c * (p.kh * p.kw) + (ky * p.kw + kx) := by
    rw [Nat.add_mul, Nat.mul_assoc, Nat.add_assoc]
  have hj : ky * p.kw + kx < p.kh * p.kw := by
    calc ky * p.kw + kx < ky * p.kw + p.kw := by omega
      _ = (ky + 1) * p.kw := by rw [Nat.succ_mul]
      _ ≤ p.kh * p.kw := Nat.mul_le_mul_right _ hky
  have hinner : ∀ a : Nat, ((List.range p.kh).flatMap fun (ky : Nat) =>
      (List.range p.kw).map fun _ => (p.sth : Int) * (ky : Int) * p.dilY).length = p.kh * p.kw := by
    intro _; exact length_flatMap_blocks p.kw _ (by intro a; simp) p.kh
  rw [hidx, getElem?_flatMap_blocks (p.kh * p.kw) _ hinner p.chans c _ hc hj,
    getElem?_flatMap_blocks p.kw _ (by intro a; simp) p.kh ky kx hky hkx,
    getElem?_range_map _ _ _ hkx]

theorem rowX_get (p : Params) (c ky kx : Nat) (hc : c < p.chans) (hky : ky < p.kh) (hkx : kx < p.kw) :
    (rowXMain p)[(c * p.kh + ky) * p.kw + kx]? = some ((p.stw : Int) * kx * p.dilX) := by
  unfold rowXMain
  have hidx : (c * p.kh + ky) * p.kw + kx = c * (p.kh * p.kw) + (ky * p.kw + kx) := by
    rw [Nat.add_mul, Nat.mul_assoc, Nat.add_assoc]
  have hj : ky * p.kw + kx < p.kh * p.kw := by
    calc ky * p.kw + kx < ky * p.kw + p.kw := by omega
      _ = (ky + 1) * p.kw := by rw [Nat.succ_mul]
      _ ≤ p.kh * p.kw := Nat.mul_le_mul_right _ hky
  have hinner : ∀ a : Nat, ((List.range p.kh).flatMap fun (_ : Nat) =>
      (List.range p.kw).map fun (kx : Nat) => (p.stw : Int) * (kx : Int) * p.dilX).length = p.kh * p.kw := by
    intro _; exact length_flatMap_blocks p.kw _ (by intro a; simp) p.kh
  rw [hidx, getElem?_flatMap_blocks (p.kh * p.kw) _ hinner p.chans c _ hc hj,
    getElem?_flatMap_blocks p.kw _ (by intro a; simp) p.kh ky kx hky hkx,
    getElem?_range_map _ _ _ hkx]

theorem colY_get (p : Params) (yP xP py px : Nat) (hy : py < yP) (hx : px < xP) :
    (colYMain p yP xP)[py * xP + px]? = some (((py : Int) * p.strideH - p.padTop) * p.sth) := by
  unfold colYMain
  rw [getElem?_flatMap_blocks xP _ (by intro a; simp) yP py px hy hx, getElem?_range_map _ _ _ hx]

theorem colX_get (p : Params) (yP xP py px : Nat) (hy : py < yP) (hx : px < xP) :
    (colXMain p yP xP)[py * xP + px]? = some (((px : Int) * p.strideW - p.padLeft) * p.stw) := by
  unfold colXMain
  rw [getElem?_flatMap_blocks xP _ (by intro a; simp) yP py px hy hx, getElem?_range_map _ _ _ hx]

end RtenVerif.Im2Col
