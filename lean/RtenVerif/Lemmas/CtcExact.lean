import RtenVerif.Model.Ctc

/-!
# The CTC prefix recursion `dpRev` computes `exactTotal`

`dpRev_eq_exactTotal`: for a `T × L` matrix `rows` and a blank-free label sequence `s`,
the sum of the two components of the textbook prefix recursion `dpRev` (run over the rows in
reverse order) equals the brute-force sum `exactTotal` of the weights of all alignments that
collapse to `s`.
-/
namespace RtenVerif.Ctc

/-! ## Generic list helpers -/

theorem snoc_induction {α} {P : List α → Prop} (nil : P [])
    (snoc : ∀ a l, P a → P (a ++ [l])) : ∀ a, P a := by
  have h : ∀ r : List α, P r.reverse := by
    intro r
    induction r with
    | nil => exact nil
    | cons x r ih => rw [List.reverse_cons]; exact snoc _ _ ih
  intro a
  have := h a.reverse
  rwa [List.reverse_reverse] at this

theorem sum_map_flatMap {α β} (l : List α) (f : α → List β) (g : β → Nat) :
    ((l.flatMap f).map g).sum = (l.map (fun a => ((f a).map g).sum)).sum := by
  induction l with
  | nil => rfl
  | cons x l ih => simp [List.flatMap_cons, List.sum_append, ih]

theorem sum_map_add {α} (l : List α) (f g : α → Nat) :
    (l.map (fun a => f a + g a)).sum = (l.map f).sum + (l.map g).sum := by
  induction l with
  | nil => rfl
  | cons x l ih => simp [ih]; omega

theorem sum_map_mul_const {α} (l : List α) (f : α → Nat) (k : Nat) :
    (l.map (fun a => f a * k)).sum = (l.map f).sum * k := by
  induction l with
  | nil => simp
  | cons x l ih => simp [ih, Nat.add_mul]

theorem sum_map_zero {α} (l : List α) : (l.map (fun _ => (0 : Nat))).sum = 0 := by
  induction l with
  | nil => rfl
  | cons x l ih => simp [ih]

theorem sum_filter_map {α} (l : List α) (p : α → Bool) (g : α → Nat) :
    ((l.filter p).map g).sum = (l.map (fun a => if p a then g a else 0)).sum := by
  induction l with
  | nil => rfl
  | cons x l ih =>
    by_cases hp : p x = true <;> simp [hp, ih]

theorem sum_range_ite (L k v : Nat) :
    ((List.range L).map (fun l => if l = k then v else 0)).sum = if k < L then v else 0 := by
  induction L with
  | zero => simp
  | succ L ih =>
    rw [List.range_succ, List.map_append, List.sum_append, ih]
    by_cases h1 : k < L
    · have : L ≠ k := by omega
      simp [h1, this]; omega
    · by_cases h2 : L = k
      · subst h2; simp
      · have : ¬ k < L + 1 := by omega
        simp [h1, h2, this]

/-! ## `dedupAdj`, `collapse` under snoc -/

theorem dedupAdj_snoc (a : List Nat) (l : Nat) :
    dedupAdj (a ++ [l]) = if a.getLast? = some l then dedupAdj a else dedupAdj a ++ [l] := by
  induction a using dedupAdj.induct with
  | case1 => simp [dedupAdj]
  | case2 x =>
    by_cases h : x = l
    · subst h; simp [dedupAdj]
    · simp [dedupAdj, h]
  | case3 x r ih =>
    have : (x :: x :: r) ++ [l] = x :: x :: (r ++ [l]) := rfl
    rw [this, dedupAdj, if_pos rfl, List.getLast?_cons_cons, dedupAdj, if_pos rfl]
    exact ih
  | case4 x y r hxy ih =>
    have : (x :: y :: r) ++ [l] = x :: y :: (r ++ [l]) := rfl
    rw [this, dedupAdj, if_neg hxy, List.getLast?_cons_cons]
    have ih' : dedupAdj (y :: (r ++ [l])) = _ := ih
    rw [ih', dedupAdj, if_neg hxy]
    split <;> simp

theorem dedupAdj_getLast? (a : List Nat) : (dedupAdj a).getLast? = a.getLast? := by
  induction a using snoc_induction with
  | nil => simp [dedupAdj]
  | snoc a l ih =>
    rw [dedupAdj_snoc]
    split
    · next h => rw [ih, h]; simp
    · simp

theorem collapse_nil : collapse [] = [] := by simp [collapse, dedupAdj]

theorem collapse_snoc_zero (a : List Nat) : collapse (a ++ [0]) = collapse a := by
  unfold collapse
  rw [dedupAdj_snoc]
  split <;> simp [List.filter_append]

theorem collapse_snoc (a : List Nat) (l : Nat) (hl : l ≠ 0) :
    collapse (a ++ [l]) = if a.getLast? = some l then collapse a else collapse a ++ [l] := by
  unfold collapse
  rw [dedupAdj_snoc]
  split <;> simp [List.filter_append, hl]

theorem collapse_getLast? (a : List Nat) (l : Nat) (h : a.getLast? = some l) (hl : l ≠ 0) :
    (collapse a).getLast? = some l := by
  rw [← dedupAdj_getLast?, List.getLast?_eq_some_iff] at h
  obtain ⟨ys, hys⟩ := h
  unfold collapse
  rw [hys]
  simp [List.filter_append, hl]

/-! ## Alignments, weights, and guarded sums -/

theorem allAligns_length (L : Nat) : ∀ t, ∀ a ∈ allAligns L t, a.length = t := by
  intro t
  induction t with
  | zero => intro a ha; simp [allAligns] at ha; simp [ha]
  | succ t ih =>
    intro a ha
    simp only [allAligns, List.mem_flatMap, List.mem_map] at ha
    obtain ⟨b, hb, l, _, rfl⟩ := ha
    simp [ih b hb]

theorem weight_snoc (rows : List (List Nat)) (row : List Nat) (a : List Nat) (l : Nat)
    (h : a.length = rows.length) :
    weight (rows ++ [row]) (a ++ [l]) = weight rows a * row.getD l 0 := by
  unfold weight
  rw [List.zip_append h.symm, List.foldl_append]
  simp

/-- Sum of the weights of all alignments of length `rows.length` satisfying `P`. -/
def gsum (L : Nat) (rows : List (List Nat)) (P : List Nat → Bool) : Nat :=
  ((allAligns L rows.length).map (fun a => if P a then weight rows a else 0)).sum

theorem gsum_congr (L : Nat) (rows : List (List Nat)) (P Q : List Nat → Bool)
    (h : ∀ a, P a = Q a) : gsum L rows P = gsum L rows Q := by
  have : P = Q := funext h
  rw [this]

theorem gsum_false (L : Nat) (rows : List (List Nat)) : gsum L rows (fun _ => false) = 0 := by
  simp [gsum, sum_map_zero]

theorem gsum_or (L : Nat) (rows : List (List Nat)) (P Q : List Nat → Bool)
    (hd : ∀ a, (P a && Q a) = false) :
    gsum L rows (fun a => P a || Q a) = gsum L rows P + gsum L rows Q := by
  unfold gsum
  rw [← sum_map_add]
  congr 1
  apply List.map_congr_left
  intro a _
  have := hd a
  cases hP : P a <;> cases hQ : Q a <;> simp_all

theorem gsum_snoc_sel (L : Nat) (rows : List (List Nat)) (row : List Nat) (hrow : row.length = L)
    (P Q : List Nat → Bool) (k : Nat)
    (h : ∀ a l, P (a ++ [l]) = (decide (l = k) && Q a)) :
    gsum L (rows ++ [row]) P = row.getD k 0 * gsum L rows Q := by
  unfold gsum
  rw [List.length_append, List.length_singleton, allAligns, sum_map_flatMap, Nat.mul_comm,
    ← sum_map_mul_const]
  congr 1
  apply List.map_congr_left
  intro a ha
  have hlen := allAligns_length L _ a ha
  rw [List.map_map]
  have : ((fun b => if P b = true then weight (rows ++ [row]) b else 0) ∘ fun l => a ++ [l])
      = fun l => if l = k then (if Q a = true then weight rows a else 0) * row.getD k 0 else 0 := by
    funext l
    simp only [Function.comp, h a l, weight_snoc rows row a l hlen]
    by_cases hlk : l = k
    · subst hlk; cases Q a <;> simp
    · simp [hlk]
  rw [this, sum_range_ite]
  split
  · rfl
  · next hk =>
    have : row.getD k 0 = 0 := by
      rw [List.getD_eq_getElem?_getD, List.getElem?_eq_none (by omega)]; rfl
    rw [this, Nat.mul_zero]

/-! ## The two classes of alignments -/

/-- The alignment is non-empty and its last label is not the blank. -/
def endsNB (a : List Nat) : Bool :=
  match a.getLast? with
  | some l => l != 0
  | none => false

theorem endsNB_snoc (a : List Nat) (l : Nat) : endsNB (a ++ [l]) = (l != 0) := by
  simp [endsNB]

theorem endsNB_of_getLast? (a : List Nat) (l : Nat) (h : a.getLast? = some l) :
    endsNB a = (l != 0) := by
  simp [endsNB, h]

theorem endsNB_none (a : List Nat) (h : a.getLast? = none) : endsNB a = false := by
  simp [endsNB, h]

/-- Collapses to `s`. -/
def PAll (s a : List Nat) : Bool := collapse a == s
/-- Collapses to `s` and ends in a blank (or is empty). -/
def PB (s a : List Nat) : Bool := collapse a == s && !endsNB a
/-- Collapses to `s` and ends in a non-blank. -/
def PNB (s a : List Nat) : Bool := collapse a == s && endsNB a

/-- The predecessors of an alignment in `PNB (s' ++ [m])` after its last label `m` is removed. -/
def QNB (s' : List Nat) (m : Nat) (a : List Nat) : Bool :=
  (PNB (s' ++ [m]) a || PB s' a) || (!(s'.getLast? == some m) && PNB s' a)

theorem PB_snoc (s a : List Nat) (l : Nat) :
    PB s (a ++ [l]) = (decide (l = 0) && PAll s a) := by
  by_cases hl : l = 0
  · subst hl; simp [PB, PAll, endsNB_snoc, collapse_snoc_zero]
  · simp [PB, endsNB_snoc, hl]

theorem PNB_nil_snoc (a : List Nat) (l : Nat) :
    PNB [] (a ++ [l]) = (decide (l = 0) && (fun _ => false) a) := by
  by_cases hl : l = 0
  · subst hl; simp [PNB, endsNB_snoc]
  · simp only [PNB, endsNB_snoc, collapse_snoc a l hl]
    split
    · next h =>
      have := collapse_getLast? a l h hl
      cases hc : collapse a with
      | nil => rw [hc] at this; simp at this
      | cons x r => simp
    · simp

theorem PNB_snoc (s' : List Nat) (m : Nat) (hm : m ≠ 0) (a : List Nat) (l : Nat) :
    PNB (s' ++ [m]) (a ++ [l]) = (decide (l = m) && QNB s' m a) := by
  by_cases hl : l = 0
  · subst hl
    have : ¬ (0 = m) := fun h => hm h.symm
    simp [PNB, endsNB_snoc, this]
  · have hcl := collapse_snoc a l hl
    cases hga : a.getLast? with
    | none =>
      have he := endsNB_none a hga
      rw [hga] at hcl
      simp only [PNB, QNB, PB, endsNB_snoc, he, hcl]
      simp
      grind
    | some l' =>
      have he := endsNB_of_getLast? a l' hga
      rw [hga] at hcl
      by_cases hl' : l' = 0
      · subst hl'
        have : ¬ (0 = l) := fun h => hl h.symm
        simp only [PNB, QNB, PB, endsNB_snoc, he, hcl]
        simp [this]
        grind
      · have hgc := collapse_getLast? a l' hga hl'
        simp only [PNB, QNB, PB, endsNB_snoc, he, hcl]
        by_cases hll : l' = l
        · subst hll
          simp
          grind [List.getLast?_concat]
        · simp [hll]
          grind [List.getLast?_concat]

/-! ## Recurrences and the main theorem -/

theorem gsum_PAll (L : Nat) (rows : List (List Nat)) (s : List Nat) :
    gsum L rows (PAll s) = gsum L rows (PB s) + gsum L rows (PNB s) := by
  rw [← gsum_or]
  · apply gsum_congr
    intro a
    simp only [PAll, PB, PNB]
    cases collapse a == s <;> cases endsNB a <;> rfl
  · intro a
    simp only [PB, PNB]
    cases collapse a == s <;> cases endsNB a <;> rfl

theorem gsum_QNB (L : Nat) (rows : List (List Nat)) (s' : List Nat) (m : Nat) :
    gsum L rows (QNB s' m) = gsum L rows (PNB (s' ++ [m])) + gsum L rows (PB s') +
      (if s'.getLast? = some m then 0 else gsum L rows (PNB s')) := by
  have h1 : gsum L rows (QNB s' m) =
      gsum L rows (fun a => PNB (s' ++ [m]) a || PB s' a) +
        gsum L rows (fun a => !(s'.getLast? == some m) && PNB s' a) := by
    rw [← gsum_or]
    · rfl
    · intro a
      simp only [PB, PNB]
      have : (collapse a == s' ++ [m] && collapse a == s') = false := by
        cases h : collapse a == s' <;> simp_all
      cases h1 : collapse a == s' ++ [m] <;> cases h2 : collapse a == s' <;>
        cases endsNB a <;> simp_all
  have h2 : gsum L rows (fun a => PNB (s' ++ [m]) a || PB s' a) =
      gsum L rows (PNB (s' ++ [m])) + gsum L rows (PB s') := by
    apply gsum_or
    intro a
    simp only [PB, PNB]
    cases endsNB a <;> simp
  rw [h1, h2]
  congr 1
  split
  · next h => simp [h, gsum_false]
  · next h =>
    apply gsum_congr
    intro a
    simp [h]

theorem gsum_PB_snoc (L : Nat) (rows : List (List Nat)) (row : List Nat) (hrow : row.length = L)
    (s : List Nat) :
    gsum L (rows ++ [row]) (PB s) =
      row.getD 0 0 * (gsum L rows (PB s) + gsum L rows (PNB s)) := by
  rw [gsum_snoc_sel L rows row hrow (PB s) (PAll s) 0 (PB_snoc s), gsum_PAll]

theorem gsum_PNB_nil_snoc (L : Nat) (rows : List (List Nat)) (row : List Nat)
    (hrow : row.length = L) : gsum L (rows ++ [row]) (PNB []) = 0 := by
  rw [gsum_snoc_sel L rows row hrow (PNB []) (fun _ => false) 0 PNB_nil_snoc, gsum_false,
    Nat.mul_zero]

theorem gsum_PNB_snoc (L : Nat) (rows : List (List Nat)) (row : List Nat) (hrow : row.length = L)
    (s' : List Nat) (m : Nat) (hm : m ≠ 0) :
    gsum L (rows ++ [row]) (PNB (s' ++ [m])) =
      row.getD m 0 * (gsum L rows (PNB (s' ++ [m])) + gsum L rows (PB s') +
        (if s'.getLast? = some m then 0 else gsum L rows (PNB s'))) := by
  rw [gsum_snoc_sel L rows row hrow (PNB (s' ++ [m])) (QNB s' m) m (PNB_snoc s' m hm), gsum_QNB]

theorem dpRev_eq_gsum (L : Nat) (rr : List (List Nat)) (hw : ∀ r ∈ rr, r.length = L) :
    ∀ s : List Nat, (∀ m ∈ s, m ≠ 0) →
      (dpRev rr s).1 = gsum L rr.reverse (PB s) ∧ (dpRev rr s).2 = gsum L rr.reverse (PNB s) := by
  induction rr with
  | nil =>
    intro s _
    simp only [dpRev, gsum, List.reverse_nil, List.length_nil, allAligns, PB, PNB, endsNB, weight]
    cases s <;> simp [collapse_nil]
  | cons row before ih =>
    intro s hs
    have hrow : row.length = L := hw row (by simp)
    have ih' := ih (fun r hr => hw r (by simp [hr]))
    rw [List.reverse_cons]
    rcases List.eq_nil_or_concat s with rfl | ⟨s', m, rfl⟩
    · have := ih' [] (by simp)
      rw [gsum_PB_snoc L _ row hrow, gsum_PNB_nil_snoc L _ row hrow]
      simp [dpRev, this.1, this.2]
    · rw [List.concat_eq_append] at hs ⊢
      have hm : m ≠ 0 := hs m (by simp)
      have h1 := ih' (s' ++ [m]) hs
      have h2 := ih' s' (fun x hx => hs x (by simp [hx]))
      rw [gsum_PB_snoc L _ row hrow, gsum_PNB_snoc L _ row hrow s' m hm]
      simp [dpRev, h1.1, h1.2, h2.1, h2.2]

/-- **The CTC prefix recursion is exact**: on a `T × L` matrix and a blank-free label
sequence, `dpRev` (run over the reversed rows) sums to the brute-force total over all
alignments collapsing to `s`. -/
theorem dpRev_eq_exactTotal (L : Nat) (rows : List (List Nat))
    (hw : ∀ r ∈ rows, r.length = L) (s : List Nat) (hs : ∀ m ∈ s, m ≠ 0) :
    (dpRev rows.reverse s).1 + (dpRev rows.reverse s).2 = exactTotal L rows s := by
  have h := dpRev_eq_gsum L rows.reverse (fun r hr => hw r (by simpa using hr)) s hs
  rw [h.1, h.2, List.reverse_reverse, ← gsum_PAll]
  unfold exactTotal gsum
  rw [sum_filter_map]
  rfl

end RtenVerif.Ctc
