import RtenVerif.Lemmas.NpyFile

/-!
# Lemmas for the npy model, part 3: `read ∘ write` and what an accepted file guarantees
-/
namespace RtenVerif.Npy

/-- Bit patterns that are values of the element type: `bool` is 0/1 (`bool as u8`), every other
type is any `8 * ITEM_SIZE`-bit pattern. -/
def ValidElem (dt : DataType) (x : Nat) : Prop :=
  if dt = .bool then x < 2 else x < 256 ^ dt.itemSize

instance (dt : DataType) (x : Nat) : Decidable (ValidElem dt x) := by
  unfold ValidElem; exact inferInstance

theorem encodeElem_length (dt : DataType) (x : Nat) : (encodeElem dt x).length = dt.itemSize :=
  toLE_length _ _

theorem decode_encode (dt : DataType) (x : Nat) (h : ValidElem dt x) :
    decodeElem dt (encodeElem dt x) = x := by
  cases dt
  case bool =>
    simp [ValidElem] at h
    simp only [decodeElem, encodeElem, DataType.itemSize, toLE, List.headD_cons]
    split <;> omega
  all_goals
    simp [ValidElem] at h
    simp only [decodeElem, encodeElem]
    exact fromLE_toLE _ _ h

theorem dataTypeOf_descr (dt : DataType) : dataTypeOf ⟨false, dt.kind, dt.itemSize⟩ = some dt := by
  cases dt <;> rfl

theorem mem_le_prod (l : List Nat) (h : ∀ x ∈ l, 1 ≤ x) : ∀ d ∈ l, d ≤ prod l := by
  induction l with
  | nil => simp
  | cons x xs ih =>
    intro d hd
    have hx := h x (by simp)
    have hp := prod_pos xs (fun y hy => h y (by simp [hy]))
    simp only [prod]
    rcases List.mem_cons.mp hd with rfl | hd
    · exact Nat.le_mul_of_pos_right _ hp
    · have := ih (fun y hy => h y (by simp [hy])) d hd
      exact Nat.le_trans this (Nat.le_mul_of_pos_left _ hx)

theorem dims_lt_of_prod (shape : List Nat)
    (h : prod (shape.map (fun d => max d 1)) < isizeLimit) : ∀ d ∈ shape, d < usizeLimit := by
  intro d hd
  have hm : max d 1 ∈ shape.map (fun d => max d 1) := List.mem_map.mpr ⟨d, hd, rfl⟩
  have := mem_le_prod _ (by
    intro x hx
    obtain ⟨y, _, rfl⟩ := List.mem_map.mp hx
    exact Nat.le_max_right y 1) _ hm
  have h1 : d ≤ max d 1 := Nat.le_max_left d 1
  simp only [isizeLimit] at h
  simp only [usizeLimit]
  omega

theorem guard_of_prod (shape : List Nat)
    (h : prod (shape.map (fun d => max d 1)) < isizeLimit) :
    checkedProd (shape.map (fun d => max d 1)) 1 = some (prod (shape.map (fun d => max d 1))) := by
  have := checkedProd_of_lt (shape.map (fun d => max d 1)) 1 (by
    intro x hx
    obtain ⟨y, _, rfl⟩ := List.mem_map.mp hx
    exact Nat.le_max_right y 1) (Nat.le_refl 1) (by simpa using h)
  simpa using this

theorem fortranToRowMajor_length (shape vals : List Nat) :
    (fortranToRowMajor shape vals).length = vals.length := by
  unfold fortranToRowMajor
  split <;> simp

/-- **T2**: `read (write a) = a`. -/
theorem read_write (a : Array) (file : List Nat)
    (hshape : prod (a.shape.map (fun d => max d 1)) < isizeLimit)
    (hbytes : prod a.shape * a.dtype.itemSize < usizeLimit)
    (hlen : a.vals.length = prod a.shape)
    (hvals : ∀ x ∈ a.vals, ValidElem a.dtype x)
    (hw : write a = .ok file) : read file = .ok a := by
  obtain ⟨dt, shape, vals⟩ := a
  simp only at hshape hbytes hlen hvals
  unfold write at hw
  simp only at hw
  cases hb : buildHeader dt shape with
  | error e => simp [hb] at hw
  | ok h =>
    simp only [hb] at hw
    injection hw with hw
    subst hw
    have hdims := dims_lt_of_prod shape hshape
    have hxs : ∀ x ∈ vals.map (encodeElem dt), x.length = dt.itemSize := by
      intro x hx
      obtain ⟨y, _, rfl⟩ := List.mem_map.mp hx
      exact encodeElem_length dt y
    have hflen : ((vals.map (encodeElem dt)).flatten).length = prod shape * dt.itemSize := by
      rw [length_flatten_uniform dt.itemSize _ hxs, List.length_map, hlen]
    have hchunks : chunks dt.itemSize (prod shape) ((vals.map (encodeElem dt)).flatten) =
        vals.map (encodeElem dt) := by
      have := chunks_flatten dt.itemSize (vals.map (encodeElem dt)) hxs []
      simpa [hlen] using this
    have hdec : (vals.map (encodeElem dt)).map (decodeElem dt) = vals := by
      rw [List.map_map]
      conv => rhs; rw [← List.map_id vals]
      apply List.map_congr_left
      intro x hx
      exact decode_encode dt x (hvals x hx)
    unfold read
    rw [readHeader_buildHeader dt shape _ h hdims hb]
    simp only [dataTypeOf_descr]
    unfold readTyped
    simp only [guard_of_prod shape hshape, hflen]
    have h1 : ¬ usizeLimit ≤ prod shape * dt.itemSize := by omega
    simp only [h1, if_false, Nat.lt_irrefl, Bool.false_and, Bool.false_eq_true]
    rw [List.take_of_length_le (Nat.le_of_eq hflen), hchunks, hdec]

/-- **T4**: what an accepted file guarantees. -/
theorem read_ok_sizes (file : List Nat) (a : Array) (h : read file = .ok a) :
    ∃ hd data, readHeader file = .ok (hd, data) ∧ dataTypeOf hd.dtype = some a.dtype ∧
      a.shape = hd.shape ∧
      prod (a.shape.map (fun d => max d 1)) < isizeLimit ∧
      prod a.shape * a.dtype.itemSize < usizeLimit ∧
      prod a.shape * a.dtype.itemSize ≤ data.length ∧
      a.vals.length = prod a.shape := by
  unfold read at h
  cases hr : readHeader file with
  | error e => simp [hr] at h
  | ok p =>
    obtain ⟨hd, data⟩ := p
    simp only [hr] at h
    cases hdt : dataTypeOf hd.dtype with
    | none => simp [hdt] at h
    | some dt =>
      simp only [hdt] at h
      unfold readTyped at h
      cases hc : checkedProd (hd.shape.map (fun d => max d 1)) 1 with
      | none => simp [hc] at h
      | some p =>
        have hp := checkedProd_some _ 1 p (by simp [isizeLimit]) hc
        simp only [hc] at h
        split at h
        · cases h
        · rename_i hnb
          split at h
          · cases h
          · rename_i htr
            injection h with h
            subst h
            refine ⟨hd, data, rfl, hdt, rfl, ?_, ?_, ?_, ?_⟩
            · simp only [] ; omega
            · simp only []; omega
            · simp only []; omega
            · simp only []
              split <;> split <;> simp [fortranToRowMajor_length, chunks_length]

end RtenVerif.Npy
