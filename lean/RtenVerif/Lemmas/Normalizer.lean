import RtenVerif.Model.Normalizer

/-!
Helper lemmas for C30 (`Props/C30.lean`): byte lengths, char boundaries, the invariant `Good`
kept by every normalizer and by the `Sequence` composition.
-/
namespace RtenVerif.Normalizer

theorem usize_pos (c : Char) : 0 < usize c := by
  unfold usize; repeat' split
  all_goals omega

theorem blen_append (a b : List Char) : blen (a ++ b) = blen a + blen b := by
  induction a with
  | nil => simp [blen]
  | cons c cs ih => simp [blen, ih]; omega

theorem isBoundary_zero (t : List Char) : isBoundary t 0 = true := by
  cases t <;> rfl

/-- Past the first char, `is_char_boundary` looks at the rest. -/
theorem isBoundary_cons_add (c : Char) (cs : List Char) (q : Nat) :
    isBoundary (c :: cs) (usize c + q) = isBoundary cs q := by
  have hp := usize_pos c
  match h : usize c + q with
  | 0 => omega
  | p + 1 =>
    have : ¬ (p + 1 < usize c) := by omega
    simp only [isBoundary, this, if_false]
    congr 1; omega

theorem isBoundary_cons_lt (c : Char) (cs : List Char) (p : Nat) (h0 : 0 < p) (h : p < usize c) :
    isBoundary (c :: cs) p = false := by
  match p with
  | 0 => omega
  | p + 1 => simp [isBoundary, h]

theorem isBoundary_le : ∀ (t : List Char) (p : Nat), isBoundary t p = true → p ≤ blen t := by
  intro t
  induction t with
  | nil => intro p h; cases p with
    | zero => simp [blen]
    | succ p => simp [isBoundary] at h
  | cons c cs ih =>
    intro p h
    cases p with
    | zero => omega
    | succ p =>
      simp only [isBoundary] at h
      split at h
      · simp at h
      · have := ih _ h; simp [blen]; omega

theorem isBoundary_blen (t : List Char) : isBoundary t (blen t) = true := by
  induction t with
  | nil => rfl
  | cons c cs ih =>
    have := isBoundary_cons_add c cs (blen cs)
    simpa [blen, ih] using this

/-- Boundaries of a concatenation. -/
theorem isBoundary_append (a b : List Char) (p : Nat) :
    isBoundary (a ++ b) p = if p ≤ blen a then isBoundary a p else isBoundary b (p - blen a) := by
  induction a generalizing p with
  | nil =>
    cases p with
    | zero => simp [blen, isBoundary_zero]
    | succ p => simp [blen]
  | cons c cs ih =>
    by_cases h0 : p = 0
    · subst h0; simp [isBoundary_zero]
    · by_cases hlt : p < usize c
      · have hp : 0 < p := by omega
        have h1 : p ≤ blen (c :: cs) := by simp [blen]; omega
        rw [List.cons_append, isBoundary_cons_lt c _ p hp hlt, if_pos h1,
          isBoundary_cons_lt c _ p hp hlt]
      · obtain ⟨q, rfl⟩ : ∃ q, p = usize c + q := ⟨p - usize c, by omega⟩
        rw [List.cons_append, isBoundary_cons_add, ih, isBoundary_cons_add]
        have hb : blen (c :: cs) = usize c + blen cs := rfl
        by_cases hq : q ≤ blen cs
        · rw [if_pos hq, if_pos (by rw [hb]; omega)]
        · rw [if_neg hq, if_neg (by rw [hb]; omega)]; congr 1; rw [hb]; omega

/-- A boundary of a middle segment is a boundary of the whole text. -/
theorem isBoundary_mid (pre seg post : List Char) (q : Nat) (h : isBoundary seg q = true) :
    isBoundary (pre ++ (seg ++ post)) (blen pre + q) = true := by
  have hq := isBoundary_le _ _ h
  rw [isBoundary_append]
  by_cases h0 : q = 0
  · subst h0; simp [isBoundary_blen]
  · rw [if_neg (by omega)]
    have : blen pre + q - blen pre = q := by omega
    rw [this, isBoundary_append, if_pos hq, h]

/-! ### Slices -/

theorem dropBytes_spec : ∀ (t : List Char) (p : Nat) (r : List Char), dropBytes t p = some r →
    ∃ pre, t = pre ++ r ∧ blen pre = p := by
  intro t
  induction t with
  | nil =>
    intro p r h
    cases p with
    | zero => simp [dropBytes] at h; exact ⟨[], by simp [h], rfl⟩
    | succ p => simp [dropBytes] at h
  | cons c cs ih =>
    intro p r h
    cases p with
    | zero => simp [dropBytes] at h; exact ⟨[], by simp [h], rfl⟩
    | succ p =>
      simp only [dropBytes] at h
      split at h
      · simp at h
      · obtain ⟨pre, h1, h2⟩ := ih _ _ h
        exact ⟨c :: pre, by simp [h1], by simp [blen, h2]; omega⟩

theorem takeBytes_spec : ∀ (t : List Char) (n : Nat) (r : List Char), takeBytes t n = some r →
    ∃ post, t = r ++ post ∧ blen r = n := by
  intro t
  induction t with
  | nil =>
    intro n r h
    cases n with
    | zero => simp [takeBytes] at h; subst h; exact ⟨[], rfl, rfl⟩
    | succ n => simp [takeBytes] at h
  | cons c cs ih =>
    intro n r h
    cases n with
    | zero => simp [takeBytes] at h; subst h; exact ⟨c :: cs, rfl, rfl⟩
    | succ n =>
      simp only [takeBytes] at h
      split at h
      · simp at h
      · simp only [Option.map_eq_some_iff] at h
        obtain ⟨r', hr', rfl⟩ := h
        obtain ⟨post, h1, h2⟩ := ih _ _ hr'
        exact ⟨post, by simp [h1], by simp [blen, h2]; omega⟩

/-- `&t[a..b]` succeeded: `t = pre ++ seg ++ post` with the expected byte lengths. -/
theorem slice_spec (t : List Char) (a b : Nat) (seg : List Char) (h : slice t a b = some seg) :
    a ≤ b ∧ ∃ pre post, t = pre ++ (seg ++ post) ∧ blen pre = a ∧ blen seg = b - a := by
  unfold slice at h
  split at h
  · rename_i hab
    refine ⟨hab, ?_⟩
    simp only [Option.bind_eq_some_iff] at h
    obtain ⟨r, hr, hs⟩ := h
    obtain ⟨pre, h1, h2⟩ := dropBytes_spec _ _ _ hr
    obtain ⟨post, h3, h4⟩ := takeBytes_spec _ _ _ hs
    exact ⟨pre, post, by rw [h1, h3], h2, h4⟩
  · simp at h

/-! ### The invariant -/

/-- `Bnd S norm offs`: the offset stored at every char-boundary position of `norm` satisfies `S`. -/
def Bnd (S : Nat → Prop) (norm : List Char) (offs : List Nat) : Prop :=
  ∀ p o, offs[p]? = some o → isBoundary norm p = true → S o

/-- What every normalizer guarantees about `(norm, offs)` relative to its input `src`. -/
structure Good (src norm : List Char) (offs : List Nat) : Prop where
  /-- T1: one offset per byte of the normalized text -/
  len : offs.length = blen norm
  /-- T2: non-decreasing -/
  mono : offs.Pairwise (· ≤ ·)
  /-- offsets are positions in (or the end of) the source -/
  le : ∀ o ∈ offs, o ≤ blen src
  /-- T3: char boundaries map to char boundaries -/
  bnd : Bnd (fun o => isBoundary src o = true) norm offs

theorem bnd_append {S : Nat → Prop} (a b : List Char) (oa ob : List Nat)
    (hl : oa.length = blen a) (ha : Bnd S a oa) (hb : Bnd S b ob) : Bnd S (a ++ b) (oa ++ ob) := by
  intro p o h hp
  by_cases hlt : p < oa.length
  · rw [List.getElem?_append_left hlt] at h
    rw [isBoundary_append, if_pos (by omega)] at hp
    exact ha p o h hp
  · rw [List.getElem?_append_right (by omega)] at h
    by_cases he : p = oa.length
    · subst he
      exact hb _ o h (by simp [isBoundary_zero])
    · rw [isBoundary_append, if_neg (by omega)] at hp
      rw [hl] at h
      exact hb _ o h hp

theorem bnd_range' {S : Nat → Prop} (seg : List Char) (a : Nat)
    (h : ∀ q, isBoundary seg q = true → S (a + q)) : Bnd S seg (List.range' a (blen seg)) := by
  intro p o hp hb
  obtain ⟨hlt, he⟩ := List.getElem?_eq_some_iff.mp hp
  simp at he
  subst he; exact h p hb

theorem bnd_replicate {S : Nat → Prop} (seg : List Char) (n s : Nat) (h : S s) :
    Bnd S seg (List.replicate n s) := by
  intro p o hp _
  obtain ⟨hlt, he⟩ := List.getElem?_eq_some_iff.mp hp
  simp at he
  subst he; exact h

theorem pairwise_range' (a n : Nat) : (List.range' a n).Pairwise (· ≤ ·) := by
  induction n generalizing a with
  | zero => simp
  | succ n ih =>
    rw [List.range'_succ, List.pairwise_cons]
    refine ⟨?_, ih _⟩
    intro b hb
    rw [List.mem_range'_1] at hb
    omega

/-- The identity byte map (`Bert` no-op, initial state of `Sequence`). -/
theorem identity_good (src : List Char) : Good src src (List.range' 0 (blen src)) where
  len := by simp
  mono := pairwise_range' _ _
  le := by intro o ho; rw [List.mem_range'_1] at ho; omega
  bnd := bnd_range' src 0 (by intro q hq; simpa using hq)

/-! ### `expand` (char-wise normalizers) -/

theorem expand_snd_length (buf : List (Char × Nat)) : (expand buf).2.length = blen (expand buf).1 := by
  induction buf with
  | nil => rfl
  | cons p ps ih =>
    simp only [expand, List.flatMap_cons, List.length_append, List.length_replicate, List.map_cons,
      blen] at ih ⊢
    omega

theorem mem_expand_snd (buf : List (Char × Nat)) (o : Nat) (h : o ∈ (expand buf).2) :
    o ∈ buf.map (·.2) := by
  simp only [expand, List.mem_flatMap, List.mem_replicate] at h
  obtain ⟨p, hp, _, rfl⟩ := h
  exact List.mem_map_of_mem hp

theorem expand_pairwise (buf : List (Char × Nat)) (h : (buf.map (·.2)).Pairwise (· ≤ ·)) :
    (expand buf).2.Pairwise (· ≤ ·) := by
  induction buf with
  | nil => simp [expand]
  | cons p ps ih =>
    rw [List.map_cons, List.pairwise_cons] at h
    have hrest := ih h.2
    simp only [expand, List.flatMap_cons] at hrest ⊢
    rw [List.pairwise_append]
    refine ⟨?_, hrest, ?_⟩
    · rw [List.pairwise_replicate]; right; exact Nat.le_refl _
    · intro a ha b hb
      rw [List.mem_replicate] at ha
      have := mem_expand_snd ps b (by simpa [expand] using hb)
      rw [ha.2]; exact h.1 b this

/-- A buffer whose offsets are non-decreasing source char boundaries expands to a `Good` pair in
which *every* offset is a source char boundary. -/
theorem expand_good (src : List Char) (buf : List (Char × Nat))
    (hm : (buf.map (·.2)).Pairwise (· ≤ ·))
    (hb : ∀ o ∈ buf.map (·.2), isBoundary src o = true) :
    Good src (expand buf).1 (expand buf).2 ∧ ∀ o ∈ (expand buf).2, isBoundary src o = true := by
  have hall : ∀ o ∈ (expand buf).2, isBoundary src o = true :=
    fun o ho => hb o (mem_expand_snd buf o ho)
  refine ⟨⟨expand_snd_length buf, expand_pairwise buf hm, ?_, ?_⟩, hall⟩
  · intro o ho; exact isBoundary_le _ _ (hall o ho)
  · intro p o hp _; exact hall o (List.mem_of_getElem? hp)

/-! ### `char_indices` -/

theorem charIndices_mem : ∀ (rest : List Char) (start : Nat) (oc : Nat × Char),
    oc ∈ charIndices rest start →
    start ≤ oc.1 ∧ isBoundary rest (oc.1 - start) = true := by
  intro rest
  induction rest with
  | nil => intro start oc h; simp [charIndices] at h
  | cons c cs ih =>
    intro start oc h
    simp only [charIndices, List.mem_cons] at h
    rcases h with rfl | h
    · simp [isBoundary_zero]
    · obtain ⟨h1, h2⟩ := ih _ _ h
      refine ⟨by omega, ?_⟩
      have : oc.1 - start = usize c + (oc.1 - (start + usize c)) := by omega
      rw [this, isBoundary_cons_add]; exact h2

theorem charIndices_zero_boundary (src : List Char) (oc : Nat × Char) (h : oc ∈ charIndices src 0) :
    isBoundary src oc.1 = true := by
  simpa using (charIndices_mem src 0 oc h).2

theorem charIndices_fst_pairwise : ∀ (rest : List Char) (start : Nat),
    ((charIndices rest start).map (·.1)).Pairwise (· ≤ ·) := by
  intro rest
  induction rest with
  | nil => intro start; simp [charIndices]
  | cons c cs ih =>
    intro start
    simp only [charIndices, List.map_cons, List.pairwise_cons]
    refine ⟨?_, ih _⟩
    intro o ho
    rw [List.mem_map] at ho
    obtain ⟨oc, hoc, rfl⟩ := ho
    have := (charIndices_mem cs _ oc hoc).1
    omega

/-! ### `Bert` -/

theorem map_snd_tag (l : List Char) (o : Nat) :
    (l.map (·, o)).map (·.2) = List.replicate l.length o := by
  induction l with
  | nil => rfl
  | cons c cs ih => simp only [List.map_cons, List.length_cons, List.replicate_succ, ih]

theorem flatMap_tag_pairwise (g : Char → List Char) : ∀ (ocs : List (Nat × Char)),
    (ocs.map (·.1)).Pairwise (· ≤ ·) →
    ((ocs.flatMap fun oc => (g oc.2).map (·, oc.1)).map (·.2)).Pairwise (· ≤ ·) := by
  intro ocs
  induction ocs with
  | nil => intro _; simp
  | cons oc ocs ih =>
    intro h
    rw [List.map_cons, List.pairwise_cons] at h
    rw [List.flatMap_cons, List.map_append, List.pairwise_append]
    refine ⟨?_, ih h.2, ?_⟩
    · rw [map_snd_tag, List.pairwise_replicate]; right; exact Nat.le_refl _
    · intro a ha b hb
      simp only [List.mem_map, List.mem_flatMap] at ha hb
      obtain ⟨_, ⟨_, _, rfl⟩, rfl⟩ := ha
      obtain ⟨_, ⟨oc', hoc', _, _, rfl⟩, rfl⟩ := hb
      exact h.1 _ (List.mem_map_of_mem hoc')

theorem bert_good (u : Uni) (lower strip : Bool) (src : List Char) :
    Good src (bert u lower strip src).1 (bert u lower strip src).2 := by
  unfold bert
  split
  · exact identity_good src
  · refine (expand_good src _ (flatMap_tag_pairwise _ _ (charIndices_fst_pairwise src 0)) ?_).1
    intro o ho
    simp only [List.mem_map, List.mem_flatMap] at ho
    obtain ⟨_, ⟨oc, hoc, _, _, rfl⟩, rfl⟩ := ho
    exact charIndices_zero_boundary src oc hoc

/-- For a `Bert` that lower-cases or strips accents, *every* offset is a source char boundary. -/
theorem bert_allBoundaries (u : Uni) (lower strip : Bool) (src : List Char)
    (h : (lower || strip) = true) : ∀ o ∈ (bert u lower strip src).2, isBoundary src o = true := by
  unfold bert
  have : (!lower && !strip) = false := by cases lower <;> cases strip <;> simp_all
  rw [this]
  simp only [Bool.false_eq_true, if_false]
  refine (expand_good src _ (flatMap_tag_pairwise _ _ (charIndices_fst_pairwise src 0)) ?_).2
  intro o ho
  simp only [List.mem_map, List.mem_flatMap] at ho
  obtain ⟨_, ⟨oc, hoc, _, _, rfl⟩, rfl⟩ := ho
  exact charIndices_zero_boundary src oc hoc

/-! ### `Unicode` -/

/-- Invariant of the (most-recent-first) `UnicodeBuf`: offsets non-increasing towards the past,
all at most `hi`, all satisfying `P`. -/
def Inv (P : Nat → Prop) (hi : Nat) (rb : List (Char × Nat)) : Prop :=
  (rb.map (·.2)).Pairwise (· ≥ ·) ∧ ∀ o ∈ rb.map (·.2), o ≤ hi ∧ P o

theorem Inv.weaken {P : Nat → Prop} {hi hi' : Nat} {rb : List (Char × Nat)} (h : Inv P hi rb)
    (hle : hi ≤ hi') : Inv P hi' rb :=
  ⟨h.1, fun o ho => ⟨Nat.le_trans (h.2 o ho).1 hle, (h.2 o ho).2⟩⟩

theorem Inv.push {P : Nat → Prop} {hi off : Nat} {rb : List (Char × Nat)} (h : Inv P hi rb)
    (hle : hi ≤ off) (hP : P off) (d : Char) : Inv P off ((d, off) :: rb) := by
  refine ⟨?_, ?_⟩
  · rw [List.map_cons, List.pairwise_cons]
    exact ⟨fun o ho => Nat.le_trans (h.2 o ho).1 hle, h.1⟩
  · intro o ho
    rw [List.map_cons, List.mem_cons] at ho
    rcases ho with rfl | ho
    · exact ⟨Nat.le_refl _, hP⟩
    · exact ⟨Nat.le_trans (h.2 o ho).1 hle, (h.2 o ho).2⟩

theorem Inv.pushCompose {P : Nat → Prop} {hi off : Nat} {rb : List (Char × Nat)} (u : Uni)
    (h : Inv P hi rb) (hle : hi ≤ off) (hP : P off) (d : Char) :
    Inv P off (pushCompose u rb d off) := by
  unfold RtenVerif.Normalizer.pushCompose
  match rb, h with
  | [], h => exact h.push hle hP d
  | (p, po) :: rest, h =>
    simp only
    split
    · exact Inv.weaken (hi := hi) ⟨by simpa using h.1, by simpa using h.2⟩ hle
    · exact h.push hle hP d

theorem Inv.foldPush {P : Nat → Prop} {off : Nat} (hP : P off) : ∀ (l : List Char)
    (rb : List (Char × Nat)), Inv P off rb →
    Inv P off (l.foldl (fun rb d => (d, off) :: rb) rb) := by
  intro l
  induction l with
  | nil => intro rb h; exact h
  | cons d l ih => intro rb h; exact ih _ (h.push (Nat.le_refl _) hP d)

theorem Inv.foldPushCompose {P : Nat → Prop} {off : Nat} (u : Uni) (hP : P off) : ∀ (l : List Char)
    (rb : List (Char × Nat)), Inv P off rb →
    Inv P off (l.foldl (fun rb d => RtenVerif.Normalizer.pushCompose u rb d off) rb) := by
  intro l
  induction l with
  | nil => intro rb h; exact h
  | cons d l ih => intro rb h; exact ih _ (h.pushCompose u (Nat.le_refl _) hP d)

theorem Inv.step {P : Nat → Prop} {hi off : Nat} {rb : List (Char × Nat)} (u : Uni) (f : Form)
    (h : Inv P hi rb) (hle : hi ≤ off) (hP : P off) (c : Char) :
    Inv P off (unicodeStep u f rb (off, c)) := by
  cases f
  · exact h.pushCompose u hle hP c
  · exact Inv.foldPush hP _ _ (h.weaken hle)
  · exact Inv.foldPushCompose u hP _ _ (h.weaken hle)
  · exact Inv.foldPush hP _ _ (h.weaken hle)

theorem Inv.fold {P : Nat → Prop} (u : Uni) (f : Form) : ∀ (rest : List Char) (start : Nat)
    (rb : List (Char × Nat)), Inv P start rb → (∀ oc ∈ charIndices rest start, P oc.1) →
    ∃ hi, Inv P hi ((charIndices rest start).foldl (unicodeStep u f) rb) := by
  intro rest
  induction rest with
  | nil => intro start rb h _; exact ⟨start, h⟩
  | cons c cs ih =>
    intro start rb h hP
    simp only [charIndices, List.foldl_cons]
    refine ih _ _ ?_ ?_
    · have := h.step u f (Nat.le_refl start) (hP (start, c) (by simp [charIndices])) c
      exact this.weaken (by omega)
    · intro oc hoc; exact hP oc (by simp [charIndices, hoc])

theorem unicode_good' (u : Uni) (f : Form) (src : List Char) :
    Good src (unicode u f src).1 (unicode u f src).2 ∧
      ∀ o ∈ (unicode u f src).2, isBoundary src o = true := by
  unfold unicode
  obtain ⟨hi, h1, h2⟩ := Inv.fold (P := fun o => isBoundary src o = true) u f src 0 []
    ⟨by simp, by simp⟩ (fun oc hoc => charIndices_zero_boundary src oc hoc)
  refine expand_good src _ ?_ ?_
  · rw [List.map_reverse, List.pairwise_reverse]; exact h1
  · intro o ho
    rw [List.map_reverse, List.mem_reverse] at ho
    exact (h2 o ho).2

/-! ### `Replace` -/

theorem replaceFrom_good (src content : List Char) : ∀ (ms : List (Nat × Nat)) (last : Nat)
    (r : List Char × List Nat), replaceFrom src content ms last = some r →
    r.2.length = blen r.1 ∧ r.2.Pairwise (· ≤ ·) ∧ (∀ x ∈ r.2, last ≤ x ∧ x ≤ blen src) ∧
      Bnd (fun o => isBoundary src o = true) r.1 r.2 := by
  intro ms
  induction ms with
  | nil =>
    intro last r h
    simp only [replaceFrom, Option.map_eq_some_iff] at h
    obtain ⟨tail, ht, rfl⟩ := h
    obtain ⟨hle, pre, post, hsrc, hpre, htail⟩ := slice_spec _ _ _ _ ht
    refine ⟨by simp [htail], pairwise_range' _ _, ?_, ?_⟩
    · intro x hx; rw [List.mem_range'_1] at hx; omega
    · show Bnd _ tail (List.range' last (blen src - last))
      rw [← htail]
      refine bnd_range' tail last ?_
      intro q hq
      have := isBoundary_mid pre tail post q hq
      rw [← hsrc, hpre] at this; exact this
  | cons m ms ih =>
    intro last r h
    obtain ⟨s, e⟩ := m
    simp only [replaceFrom] at h
    split at h
    · rename_i hse
      simp only [Option.bind_eq_some_iff, Option.map_eq_some_iff] at h
      obtain ⟨before, hb, rest, hrest, rfl⟩ := h
      obtain ⟨hls, pre, post, hsrc, hpre, hbef⟩ := slice_spec _ _ _ _ hb
      obtain ⟨lenR, pwR, memR, bndR⟩ := ih e rest hrest
      have hsB : isBoundary src s = true := by
        have := isBoundary_mid pre before post (blen before) (isBoundary_blen before)
        rw [← hsrc, hpre, hbef] at this
        have e2 : last + (s - last) = s := by omega
        rw [e2] at this; exact this
      have hsle := isBoundary_le _ _ hsB
      refine ⟨?_, ?_, ?_, ?_⟩
      · simp only [List.length_append, List.length_range', List.length_replicate, blen_append,
          lenR, hbef]
      · rw [List.pairwise_append]
        refine ⟨?_, pwR, ?_⟩
        · rw [List.pairwise_append]
          refine ⟨pairwise_range' _ _, ?_, ?_⟩
          · rw [List.pairwise_replicate]; right; exact Nat.le_refl _
          · intro a ha b hb'
            rw [List.mem_range'_1] at ha
            rw [List.mem_replicate] at hb'
            omega
        · intro a ha b hb'
          have hb2 := (memR b hb').1
          rw [List.mem_append] at ha
          rcases ha with ha | ha
          · rw [List.mem_range'_1] at ha; omega
          · rw [List.mem_replicate] at ha; omega
      · intro x hx
        simp only [List.mem_append] at hx
        rcases hx with (hx | hx) | hx
        · rw [List.mem_range'_1] at hx; omega
        · rw [List.mem_replicate] at hx; omega
        · have := memR x hx; omega
      · refine bnd_append (before ++ content) rest.1 _ _ ?_ (bnd_append before content _ _ ?_ ?_ ?_) bndR
        · simp [blen_append, hbef]
        · simp [hbef]
        · rw [← hbef]
          refine bnd_range' before last ?_
          intro q hq
          have := isBoundary_mid pre before post q hq
          rw [← hsrc, hpre] at this; exact this
        · exact bnd_replicate _ _ _ hsB
    · simp at h

theorem replace_good (src content : List Char) (ms : List (Nat × Nat)) (r : List Char × List Nat)
    (h : replace src content ms = some r) : Good src r.1 r.2 := by
  obtain ⟨h1, h2, h3, h4⟩ := replaceFrom_good src content ms 0 r h
  exact ⟨h1, h2, fun o ho => (h3 o ho).2, h4⟩

/-! ### `Sequence` -/

/-- Composing a stage's map with the accumulated map keeps the invariant, and no lookup is
out of range except for the end-of-input position `cur.len()`. -/
theorem compose_good (src cur nx : List Char) (offs no : List Nat)
    (h1 : Good src cur offs) (h2 : Good cur nx no) :
    Good src nx (composeMap (blen src) offs no) := by
  have hget : ∀ x, offs.getD x (blen src) ≤ blen src := by
    intro x
    rw [List.getD_eq_getElem?_getD]
    cases hx : offs[x]? with
    | none => simp
    | some v => simpa using h1.le v (List.mem_of_getElem? hx)
  refine ⟨?_, ?_, ?_, ?_⟩
  · simp [composeMap, h2.len]
  · unfold composeMap
    refine List.Pairwise.map _ ?_ h2.mono
    intro a b hab
    rw [List.getD_eq_getElem?_getD, List.getD_eq_getElem?_getD]
    by_cases hb : b < offs.length
    · have ha : a < offs.length := by omega
      rw [List.getElem?_eq_getElem ha, List.getElem?_eq_getElem hb]
      simp only [Option.getD_some]
      rcases Nat.lt_or_eq_of_le hab with hlt | rfl
      · exact List.pairwise_iff_getElem.mp h1.mono a b ha hb hlt
      · exact Nat.le_refl _
    · rw [List.getElem?_eq_none (by omega : offs.length ≤ b)]
      simp only [Option.getD_none]
      have := hget a
      rw [List.getD_eq_getElem?_getD] at this; exact this
  · intro o ho
    simp only [composeMap, List.mem_map] at ho
    obtain ⟨x, _, rfl⟩ := ho
    exact hget x
  · intro p o hp hb
    simp only [composeMap, List.getElem?_map, Option.map_eq_some_iff] at hp
    obtain ⟨x, hx, rfl⟩ := hp
    have hxb : isBoundary cur x = true := h2.bnd p x hx hb
    have hxle := isBoundary_le _ _ hxb
    rw [List.getD_eq_getElem?_getD]
    by_cases hlt : x < offs.length
    · rw [List.getElem?_eq_getElem hlt]
      exact h1.bnd x _ (List.getElem?_eq_getElem hlt) hxb
    · rw [List.getElem?_eq_none (by omega : offs.length ≤ x)]
      exact isBoundary_blen src

end RtenVerif.Normalizer
