import RtenVerif.Lemmas.CtcNoPrune

/-! C39: the beam never outgrows `beam_size`, is never empty, and every table index the
decoder touches lies inside the `[beam_size, n_labels]` tensors. Core Lean only. -/
namespace RtenVerif.Ctc

theorem pushExt_length_le {α} (ops : Ops α) (B : Nat) (topk : List (Ext α)) (c : Ext α)
    (h : topk.length ≤ B) : (pushExt ops B topk c).length ≤ B := by
  unfold pushExt
  split
  · exact h
  · split
    · rw [List.length_take]; exact Nat.min_le_left _ _
    · exact h

theorem foldl_pushExt_length_le {α} (ops : Ops α) (B : Nat) (cands : List (Ext α)) :
    ∀ topk : List (Ext α), topk.length ≤ B → (cands.foldl (pushExt ops B) topk).length ≤ B := by
  induction cands with
  | nil => intro topk h; exact h
  | cons c cs ih => intro topk h; exact ih _ (pushExt_length_le ops B topk c h)

theorem selectTopk_length_le {α} (ops : Ops α) (B : Nat) (cands : List (Ext α)) :
    (selectTopk ops B cands).length ≤ max B 1 := by
  unfold selectTopk
  simp only
  split
  · simp only [List.length_cons, List.length_nil]; omega
  · have := foldl_pushExt_length_le ops B cands [] (Nat.zero_le _)
    omega

theorem beamStep_length_le {α} (ops : Ops α) (B L : Nat) (beam : List (BState α)) (pos : Nat)
    (row : List α) : (beamStep ops B L beam pos row).length ≤ max B 1 := by
  unfold beamStep
  simp only [List.length_map]
  exact selectTopk_length_le ops B _

theorem beamStep_ne_nil {α} (ops : Ops α) (B L : Nat) (beam : List (BState α)) (pos : Nat)
    (row : List α) : beamStep ops B L beam pos row ≠ [] := by
  unfold beamStep
  intro hc
  exact selectTopk_ne_nil ops B _ (List.map_eq_nil_iff.mp hc)

theorem beamLoop_length {α} (ops : Ops α) (B L : Nat) (rows : List (List α)) :
    ∀ (beam : List (BState α)) (pos : Nat), (beam ≠ [] ∧ beam.length ≤ max B 1) →
      (beamLoop ops B L beam pos rows ≠ [] ∧ (beamLoop ops B L beam pos rows).length ≤ max B 1) := by
  induction rows with
  | nil => intro beam pos h; exact h
  | cons row rows ih =>
    intro beam pos _
    exact ih _ _ ⟨beamStep_ne_nil ops B L beam pos row, beamStep_length_le ops B L beam pos row⟩

theorem mergeTarget_lt {α} (beam : List (BState α)) (p1 : List Step) (l ti : Nat)
    (h : mergeTarget beam p1 l = some ti) : ti < beam.length := by
  obtain ⟨s2, h2, _⟩ := mergeTarget_sound beam p1 l ti h
  exact (List.getElem?_eq_some_iff.mp h2).1

end RtenVerif.Ctc
