import RtenVerif.Model.PartialRun
import RtenVerif.Lemmas.PlannerBasic
/-!
# Naive evaluation (`evalAt`): monotone in the budget, hence a partial function `Den`
-/
namespace RtenVerif.PartialRun
open RtenVerif.Graph RtenVerif.Planner

section
variable {Ω V : Type}

theorem gather_mono {lk lk' : Nat → Option V} :
    ∀ (ds : List Nat) (args : List V), (∀ d ∈ ds, ∀ v, lk d = some v → lk' d = some v) →
      gather lk ds = some args → gather lk' ds = some args
  | [], args, _, h => by simpa [gather] using h
  | d :: ds, args, hm, h => by
    simp only [gather] at h ⊢
    cases hd : lk d with
    | none => simp [hd] at h
    | some v =>
      cases hg : gather lk ds with
      | none => simp [hd, hg] at h
      | some vs =>
        simp only [hd, hg] at h
        have h1 := hm d List.mem_cons_self v hd
        have h2 := gather_mono ds vs (fun d' hd' => hm d' (List.mem_cons_of_mem _ hd')) hg
        simp only [h1, h2]
        exact h

theorem gather_lookup_some {lk : Nat → Option V} {ds : List Nat} {args : List V}
    (h : gather lk ds = some args) : ∀ d ∈ ds, ∃ v, lk d = some v := by
  induction ds generalizing args with
  | nil => intro d hd; cases hd
  | cons a ds ih =>
    intro d hd
    simp only [gather] at h
    cases ha : lk a with
    | none => simp [ha] at h
    | some v =>
      cases hg : gather lk ds with
      | none => simp [ha, hg] at h
      | some vs =>
        rcases List.mem_cons.mp hd with rfl | hd
        · exact ⟨v, ha⟩
        · exact ih hg d hd

theorem gather_congr {lk lk' : Nat → Option V} {ds : List Nat}
    (h : ∀ d ∈ ds, lk d = lk' d) : gather lk ds = gather lk' ds := by
  induction ds with
  | nil => rfl
  | cons a ds ih =>
    simp only [gather]
    rw [h a List.mem_cons_self, ih (fun d hd => h d (List.mem_cons_of_mem _ hd))]

variable (g : Graph) (sem : Sem Ω V) (ω : Ω) (cv : Nat → V) (views : List (Nat × V))

theorem evalAt_succ : ∀ (f id : Nat) (v : V),
    evalAt g sem ω cv views f id = some v → evalAt g sem ω cv views (f + 1) id = some v := by
  intro f
  induction f with
  | zero => intro id v h; simp [evalAt] at h
  | succ f ih =>
    intro id v h
    rw [evalAt] at h ⊢
    cases hn : getNode g id with
    | none => simp [hn] at h
    | some n =>
      cases n with
      | operator op => simp [hn] at h
      | constant => simpa [hn] using h
      | value =>
        simp only [hn] at h ⊢
        cases hl : views.lookup id with
        | some w => simpa [hl] using h
        | none =>
          simp only [hl] at h ⊢
          cases hs : getSource g id with
          | none => simp [hs] at h
          | some pr =>
            obtain ⟨p, op⟩ := pr
            simp only [hs] at h ⊢
            cases hg : gather (evalAt g sem ω cv views f) (opDeps g op) with
            | none => simp [hg] at h
            | some args =>
              have hg' := gather_mono (lk' := evalAt g sem ω cv views (f + 1)) _ _
                (fun d _ v hv => ih d v hv) hg
              simp only [hg] at h
              simp only [hg']
              exact h

theorem evalAt_le {f f' : Nat} (hle : f ≤ f') {id : Nat} {v : V}
    (h : evalAt g sem ω cv views f id = some v) : evalAt g sem ω cv views f' id = some v := by
  induction hle with
  | refl => exact h
  | step _ ih => exact evalAt_succ g sem ω cv views _ _ _ ih

/-- `v` is the value of `id` in the naive full evaluation of the graph on the supplied
values `views` (for a budget large enough). -/
def Den (id : Nat) (v : V) : Prop := ∃ f, evalAt g sem ω cv views f id = some v

/-- The naive evaluation assigns at most one value to an id. -/
theorem Den.unique {id : Nat} {v w : V} (h1 : Den g sem ω cv views id v)
    (h2 : Den g sem ω cv views id w) : v = w := by
  obtain ⟨f1, h1⟩ := h1
  obtain ⟨f2, h2⟩ := h2
  have a := evalAt_le g sem ω cv views (Nat.le_max_left f1 f2) h1
  have b := evalAt_le g sem ω cv views (Nat.le_max_right f1 f2) h2
  rw [a] at b
  injection b

theorem den_const {id : Nat} (h : isConstant g id = true) : Den g sem ω cv views id (cv id) := by
  refine ⟨1, ?_⟩
  unfold isConstant at h
  rw [evalAt]
  cases hn : getNode g id with
  | none => simp [hn] at h
  | some n => cases n <;> simp [hn] at h ⊢

theorem den_view {id : Nat} {v : V} (hn : getNode g id = some .value)
    (h : views.lookup id = some v) : Den g sem ω cv views id v := by
  refine ⟨1, ?_⟩
  rw [evalAt]
  simp [hn, h]

/-- If every lookup that succeeds is a denotation, a successful `gather` is the `gather` of
the naive evaluation at some budget. -/
theorem gather_den {lk : Nat → Option V} :
    ∀ (ds : List Nat) (args : List V), (∀ d ∈ ds, ∀ v, lk d = some v → Den g sem ω cv views d v) →
      gather lk ds = some args → ∃ F, gather (evalAt g sem ω cv views F) ds = some args
  | [], args, _, h => ⟨0, by simpa [gather] using h⟩
  | d :: ds, args, hm, h => by
    simp only [gather] at h
    cases hd : lk d with
    | none => simp [hd] at h
    | some v =>
      cases hg : gather lk ds with
      | none => simp [hd, hg] at h
      | some vs =>
        simp only [hd, hg] at h
        obtain ⟨f1, h1⟩ := hm d List.mem_cons_self v hd
        obtain ⟨f2, h2⟩ := gather_den ds vs (fun d' hd' => hm d' (List.mem_cons_of_mem _ hd')) hg
        refine ⟨max f1 f2, ?_⟩
        have a := evalAt_le g sem ω cv views (Nat.le_max_left f1 f2) h1
        have b := gather_mono (lk' := evalAt g sem ω cv views (max f1 f2)) ds vs
          (fun d' _ v' hv' => evalAt_le g sem ω cv views (Nat.le_max_right f1 f2) hv') h2
        simp only [gather, a, b]
        exact h

/-- One unfolding of the naive evaluation at an operator output. -/
theorem den_op {id p : Nat} {op : OpNode} {F : Nat} {args outs : List V} {v : V}
    (hn : getNode g id = some .value) (hl : views.lookup id = none)
    (hs : getSource g id = some (p, op))
    (hg : gather (evalAt g sem ω cv views F) (opDeps g op) = some args)
    (hsem : sem ω p args = some outs) (hlen : ¬ outs.length < op.outputs.length)
    (hv : (zipOuts op.outputs outs).reverse.lookup id = some v) :
    Den g sem ω cv views id v := by
  refine ⟨F + 1, ?_⟩
  rw [evalAt]
  simp [hn, hl, hs, hg, hsem, hlen, hv]

end

end RtenVerif.PartialRun
