import RtenVerif.Model.SimdLoop

/-! Lemmas for the fold skeletons of C18 (core Lean only). -/
namespace RtenVerif.SimdLoop
section
variable {α β : Type}

theorem nextLane_lt (v p : Nat) (hp : p < v) : nextLane v p < v := by
  unfold nextLane; split <;> omega

theorem advance_eq (v : Nat) : ∀ (k p : Nat), p < v → p + k ≤ v →
    advance v p k = if p + k = v then 0 else p + k := by
  intro k
  induction k with
  | zero => intro p hp _; simp [advance]; omega
  | succ k ih =>
    intro p hp hk
    unfold advance nextLane
    by_cases h : p + 1 = v
    · have : k = 0 := by omega
      subst this
      simp [h, advance]
    · rw [if_neg h, ih (p + 1) (by omega) (by omega)]
      have : p + 1 + k = p + (k + 1) := by omega
      rw [this]

theorem advance_add (v : Nat) : ∀ (a p b : Nat), advance v p (a + b) = advance v (advance v p a) b := by
  intro a
  induction a with
  | zero => intro p b; simp [advance]
  | succ a ih =>
    intro p b
    have : a + 1 + b = (a + b) + 1 := by omega
    rw [this]
    simp only [advance]
    exact ih _ _

theorem sFold_append (v : Nat) (f : β → α → β) : ∀ (c : List α) (p : Nat) (r : List α) (acc : Nat → β),
    sFold v f p (c ++ r) acc = sFold v f (advance v p c.length) r (sFold v f p c acc) := by
  intro c
  induction c with
  | nil => intro p r acc; simp [sFold, advance]
  | cons x c ih => intro p r acc; simp only [List.cons_append, sFold, List.length_cons, advance]; exact ih _ _ _

/-- `sFold` only looks at / changes lanes `< v`. -/
theorem sFold_congr (v : Nat) (f : β → α → β) : ∀ (c : List α) (p : Nat) (a b : Nat → β),
    p < v → (∀ j, j < v → a j = b j) → ∀ j, j < v → sFold v f p c a j = sFold v f p c b j := by
  intro c
  induction c with
  | nil => intro p a b _ h j hj; simpa [sFold] using h j hj
  | cons x c ih =>
    intro p a b hp h j hj
    simp only [sFold]
    apply ih _ _ _ (nextLane_lt v p hp) _ j hj
    intro i hi
    unfold updLane
    by_cases e : i = p
    · simp [e, h p hp]
    · simp [e, h i hi]

/-- Effect of folding a run `c` that fits into the register from lane `p` on: lanes
`p … p+|c|-1` receive exactly one element each, all other lanes are untouched. -/
theorem sFold_run (v : Nat) (f : β → α → β) (pad : α) : ∀ (c : List α) (p : Nat) (acc : Nat → β),
    p < v → p + c.length ≤ v → ∀ j,
    sFold v f p c acc j =
      if p ≤ j ∧ j < p + c.length then f (acc j) (c.getD (j - p) pad) else acc j := by
  intro c
  induction c with
  | nil =>
    intro p acc _ _ j
    have : ¬ (p ≤ j ∧ j < p + ([] : List α).length) := by simp only [List.length_nil]; omega
    rw [if_neg this]; rfl
  | cons x c ih =>
    intro p acc hp hk j
    simp only [sFold, List.length_cons] at hk ⊢
    by_cases hc : c = []
    · subst hc
      simp only [sFold, updLane, List.length_nil]
      by_cases e : j = p
      · subst e; simp
      · have : ¬ (p ≤ j ∧ j < p + (0 + 1)) := by omega
        simp [e, this]
    · have hlen : 0 < c.length := List.length_pos_iff.mpr hc
      have hn : nextLane v p = p + 1 := by unfold nextLane; rw [if_neg (by omega)]
      rw [hn, ih (p + 1) _ (by omega) (by omega) j]
      unfold updLane
      by_cases h1 : p + 1 ≤ j ∧ j < p + 1 + c.length
      · have h2 : p ≤ j ∧ j < p + (c.length + 1) := by omega
        have e : ¬ j = p := by omega
        have e3 : j - p = (j - (p + 1)) + 1 := by omega
        rw [if_pos h1, if_pos h2, if_neg e, e3, List.getD_cons_succ]
      · rw [if_neg h1]
        by_cases e : j = p
        · subst e
          have h2 : j ≤ j ∧ j < j + (c.length + 1) := by omega
          simp [h2]
        · have h2 : ¬ (p ≤ j ∧ j < p + (c.length + 1)) := by omega
          rw [if_neg e, if_neg h2]

/-- The main loop consumes whole `W`-chunks only; its accumulator is the scalar lane fold of the
consumed prefix, and fewer than `W` elements are left. -/
theorem mainLoop_spec (f : β → α → β) (pad : α) (W : Nat) (hW : 0 < W) :
    ∀ (fuel : Nat) (rest : List α) (acc : Nat → β), rest.length ≤ fuel →
    ∃ consumed, rest = consumed ++ (mainLoop f pad W fuel rest acc).1 ∧
      (mainLoop f pad W fuel rest acc).1.length < W ∧
      advance W 0 consumed.length = 0 ∧
      ∀ j, j < W → (mainLoop f pad W fuel rest acc).2 j = sFold W f 0 consumed acc j := by
  intro fuel
  induction fuel with
  | zero =>
    intro rest acc h
    have : rest = [] := List.length_eq_zero_iff.mp (by omega)
    subst this
    exact ⟨[], by simp [mainLoop], by simpa [mainLoop] using hW, by simp [advance], by intro j _; simp [mainLoop, sFold]⟩
  | succ fuel ih =>
    intro rest acc h
    unfold mainLoop
    by_cases hge : W ≤ rest.length
    · rw [if_pos hge]
      have hl : (rest.drop W).length ≤ fuel := by simp only [List.length_drop]; omega
      obtain ⟨c', e1, e2, e3, e4⟩ := ih (rest.drop W) (vfold f acc (loadVec pad (rest.take W))) hl
      have htl : (rest.take W).length = W := by simp only [List.length_take]; omega
      have hadv : advance W 0 (rest.take W).length = 0 := by
        rw [htl, advance_eq W W 0 hW (by omega)]; simp
      refine ⟨rest.take W ++ c', ?_, e2, ?_, ?_⟩
      · rw [List.append_assoc, ← e1, List.take_append_drop]
      · rw [List.length_append, advance_add, hadv, e3]
      · intro j hj
        rw [e4 j hj, sFold_append, hadv]
        apply sFold_congr W f c' 0 _ _ hW _ j hj
        intro i hi
        rw [sFold_run W f pad (rest.take W) 0 acc hW (by omega) i]
        have : 0 ≤ i ∧ i < 0 + (rest.take W).length := by omega
        rw [if_pos this]
        simp [vfold, loadVec]
    · rw [if_neg hge]
      exact ⟨[], by simp, by simpa using Nat.lt_of_not_le hge, by simp [advance], by intro j _; simp [sFold]⟩

end
end RtenVerif.SimdLoop
