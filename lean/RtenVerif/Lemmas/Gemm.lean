import RtenVerif.Model.Gemm

/-! Helper lemmas for C16: `div_ceil` arithmetic, `range_chunks`, tile/block index facts and the
list lemmas used to localise a fold over the schedule to one output element.  Core Lean only. -/
namespace RtenVerif.Gemm

/-! ### `divCeil` / `nextMultipleOf` -/

theorem divCeil_mul_ge {n t : Nat} (ht : 0 < t) : n ≤ divCeil n t * t := by
  unfold divCeil
  have h1 := Nat.div_add_mod n t
  have h2 := Nat.mod_lt n ht
  have h3 : n / t * t = t * (n / t) := Nat.mul_comm _ _
  split
  · rw [Nat.add_mul, Nat.one_mul]; omega
  · omega

theorem divCeil_le_iff {e t d : Nat} (ht : 0 < t) : divCeil e t ≤ d ↔ e ≤ d * t := by
  constructor
  · intro h
    exact Nat.le_trans (divCeil_mul_ge ht) (Nat.mul_le_mul_right t h)
  · intro h
    unfold divCeil
    split
    · rename_i hm
      have hne : e ≠ d * t := by
        intro he; rw [he, Nat.mul_mod_left] at hm; omega
      have hlt : e < d * t := by omega
      have := (Nat.div_lt_iff_lt_mul ht).mpr hlt
      omega
    · exact (Nat.div_le_iff_le_mul_add_pred ht).mpr (by
        have : d * t ≤ t * d + (t - 1) := by rw [Nat.mul_comm]; omega
        omega)

theorem divCeil_mono {e n t : Nat} (ht : 0 < t) (h : e ≤ n) : divCeil e t ≤ divCeil n t :=
  (divCeil_le_iff ht).mpr (Nat.le_trans h (divCeil_mul_ge ht))

theorem div_lt_divCeil {x n t : Nat} (ht : 0 < t) (h : x < n) : x / t < divCeil n t := by
  have h1 : x / t * t ≤ x := Nat.div_mul_le_self x t
  have h2 := divCeil_mul_ge (n := n) ht
  exact Nat.lt_of_mul_lt_mul_right (a := t) (by omega)

theorem divCeil_mul_self {q t : Nat} (ht : 0 < t) : divCeil (q * t) t = q := by
  unfold divCeil
  rw [Nat.mul_mod_left, Nat.mul_div_cancel _ ht]
  simp

theorem divCeil_pos {n t : Nat} (ht : 0 < t) (hn : 0 < n) : 0 < divCeil n t :=
  Nat.lt_of_le_of_lt (Nat.zero_le _) (div_lt_divCeil ht hn)

theorem nextMultipleOf_dvd {x n : Nat} (hn : 0 < n) : n ∣ nextMultipleOf x n := by
  unfold nextMultipleOf
  split
  · rename_i h; exact Nat.dvd_of_mod_eq_zero h
  · apply Nat.dvd_of_mod_eq_zero
    have h1 := Nat.div_add_mod x n
    have h2 := Nat.mod_lt x hn
    have : x + (n - x % n) = n * (x / n + 1) := by rw [Nat.mul_add, Nat.mul_one]; omega
    rw [this, Nat.mul_mod_right]

theorem nextMultipleOf_ge (x n : Nat) : x ≤ nextMultipleOf x n := by
  unfold nextMultipleOf; split <;> omega

/-! ### `rangeChunks` -/

/-- The chunks of `rangeChunks` tile `[s, e)`: each `k` lies in exactly one chunk iff `s ≤ k < e`. -/
theorem rangeChunks_countP (c : Nat) (hc : 0 < c) (k : Nat) :
    ∀ (fuel s e : Nat), e - s ≤ fuel →
      (rangeChunks fuel s e c).countP (fun d => decide (d.1 ≤ k) && decide (k < d.2)) =
        if s ≤ k ∧ k < e then 1 else 0 := by
  intro fuel
  induction fuel with
  | zero =>
    intro s e h
    simp only [rangeChunks, List.countP_nil]
    split <;> omega
  | succ f ih =>
    intro s e h
    unfold rangeChunks
    by_cases hse : s < e
    · simp only [hse, if_true]
      have hs' : s + (min (s + c) e - s) = min (s + c) e := by omega
      rw [hs', List.countP_cons, ih (min (s + c) e) e (by omega)]
      by_cases h1 : s ≤ k ∧ k < min (s + c) e
      · have h2 : ¬ (min (s + c) e ≤ k ∧ k < e) := by omega
        have h3 : s ≤ k ∧ k < e := by omega
        simp [h1.1, h1.2, h2, h3]
      · by_cases h4 : min (s + c) e ≤ k ∧ k < e
        · have h3 : s ≤ k ∧ k < e := by omega
          have h5 : ¬ (s ≤ k ∧ k < min (s + c) e) := h1
          have : (decide (s ≤ k) && decide (k < min (s + c) e)) = false := by
            simp only [Bool.and_eq_false_iff, decide_eq_false_iff_not]; omega
          simp [this, h4, h3]
        · have h3 : ¬ (s ≤ k ∧ k < e) := by omega
          have : (decide (s ≤ k) && decide (k < min (s + c) e)) = false := by
            simp only [Bool.and_eq_false_iff, decide_eq_false_iff_not]; omega
          simp [this, h4, h3]
    · simp only [hse, if_false, List.countP_nil]
      split <;> omega

/-- Every chunk is a non-empty sub-range of `[s, e)` of length at most `c`. -/
theorem rangeChunks_mem (c : Nat) (hc : 0 < c) :
    ∀ (fuel s e : Nat) (d : Nat × Nat), d ∈ rangeChunks fuel s e c →
      s ≤ d.1 ∧ d.1 < d.2 ∧ d.2 ≤ e ∧ d.2 ≤ d.1 + c := by
  intro fuel
  induction fuel with
  | zero => intro s e d h; simp [rangeChunks] at h
  | succ f ih =>
    intro s e d h
    unfold rangeChunks at h
    by_cases hse : s < e
    · simp only [hse, if_true, List.mem_cons] at h
      rcases h with h | h
      · subst h; simp only; omega
      · have := ih _ _ _ h; omega
    · simp [hse] at h

/-! ### tile indices inside a block -/

theorem mem_tileRange {s e t j : Nat} : j ∈ tileRange s e t ↔ s / t ≤ j ∧ j < divCeil e t := by
  unfold tileRange
  rw [List.mem_range'_1]
  omega

theorem nodup_tileRange (s e t : Nat) : (tileRange s e t).Nodup := by
  unfold tileRange; exact List.nodup_range' (step := 1) (by omega)

/-- With block size `bs = q·t` a multiple of the tile size, the tile containing `x < n` is among
the tiles `start/t .. ceil(end/t)` of block `i` exactly when `x` lies in block `i`. -/
theorem tile_mem_block_iff {t bs n x i q : Nat} (ht : 0 < t) (hq : 0 < q) (hbs : bs = q * t)
    (hx : x < n) :
    x / t ∈ tileRange (blockRange n bs i).1 (blockRange n bs i).2 t ↔ x / bs = i := by
  have hbspos : 0 < bs := by rw [hbs]; exact Nat.mul_pos hq ht
  rw [mem_tileRange]
  simp only [blockRange]
  have hstart : i * bs / t = i * q := by
    rw [hbs, ← Nat.mul_assoc, Nat.mul_div_cancel _ ht]
  rw [hstart]
  constructor
  · rintro ⟨h1, h2⟩
    have hlo : i * bs ≤ x := by
      have := (Nat.le_div_iff_mul_le ht).mp h1
      rw [hbs, ← Nat.mul_assoc]; exact this
    have hhi : x < (i + 1) * bs := by
      rcases Nat.le_total (i * bs + bs) n with hle | hle
      · rw [Nat.min_eq_left hle] at h2
        have he : i * bs + bs = ((i + 1) * q) * t := by
          rw [hbs, Nat.add_mul, Nat.one_mul, Nat.add_mul, Nat.mul_assoc]
        rw [he, divCeil_mul_self ht] at h2
        have := (Nat.div_lt_iff_lt_mul ht).mp h2
        rw [Nat.succ_mul, he]; exact this
      · rw [Nat.succ_mul]; omega
    exact Nat.div_eq_of_lt_le hlo hhi
  · intro h
    have hlo : i * bs ≤ x := by rw [← h]; exact Nat.div_mul_le_self x bs
    have hhi : x < i * bs + bs := by
      have := Nat.lt_div_mul_add (a := x) hbspos
      rw [h] at this; exact this
    constructor
    · apply (Nat.le_div_iff_mul_le ht).mpr
      rw [Nat.mul_assoc, ← hbs]; exact hlo
    · exact div_lt_divCeil ht (by omega)

/-! ### list lemmas -/

theorem filter_flatMap_unique {ι β : Type} (l : List ι) (g : ι → List β) (p : β → Bool) (j : ι)
    (hnd : l.Nodup) (hj : j ∈ l) (hne : ∀ i ∈ l, i ≠ j → (g i).filter p = []) :
    (l.flatMap g).filter p = (g j).filter p := by
  induction l with
  | nil => cases hj
  | cons a t ih =>
    rw [List.flatMap_cons, List.filter_append]
    rw [List.nodup_cons] at hnd
    by_cases haj : a = j
    · subst haj
      have : (t.flatMap g).filter p = [] := by
        rw [List.filter_flatMap]
        apply List.flatMap_eq_nil_iff.mpr
        intro i hi
        apply hne i (List.mem_cons_of_mem _ hi)
        intro h; subst h; exact hnd.1 hi
      rw [this, List.append_nil]
    · have hjt : j ∈ t := by
        cases hj with
        | head => exact absurd rfl haj
        | tail _ h => exact h
      rw [hne a List.mem_cons_self haj, List.nil_append]
      exact ih hnd.2 hjt (fun i hi => hne i (List.mem_cons_of_mem _ hi))

theorem flatMap_eq_map_of_singleton {ι β : Type} (l : List ι) (f : ι → List β) (g : ι → β)
    (h : ∀ d ∈ l, f d = [g d]) : l.flatMap f = l.map g := by
  induction l with
  | nil => rfl
  | cons a t ih =>
    rw [List.flatMap_cons, List.map_cons, h a List.mem_cons_self,
      ih (fun d hd => h d (List.mem_cons_of_mem _ hd))]
    rfl

/-! ### coverage of one element by one call -/

theorem covers_iff (mr nr : Nat) (cl : Call) (r c : Nat) :
    cl.covers mr nr r c = true ↔
      cl.rowTile * mr ≤ r ∧ r < cl.rowTile * mr + cl.usedRows ∧
      cl.colTile * nr ≤ c ∧ c < cl.colTile * nr + cl.usedCols := by
  unfold Call.covers
  simp [Bool.and_eq_true, decide_eq_true_eq, and_assoc]

theorem covers_mkCall_iff {M N mr nr : Nat} (hmr : 0 < mr) (hnr : 0 < nr) {r c : Nat}
    (hr : r < M) (hc : c < N) (d : Nat × Nat) (rt ct : Nat) :
    (mkCall M N mr nr d rt ct).covers mr nr r c = true ↔ rt = r / mr ∧ ct = c / nr := by
  rw [covers_iff]
  show rt * mr ≤ r ∧ r < rt * mr + min (M - rt * mr) mr ∧
    ct * nr ≤ c ∧ c < ct * nr + min (N - ct * nr) nr ↔ _
  constructor
  · rintro ⟨h1, h2, h3, h4⟩
    constructor
    · symm; apply Nat.div_eq_of_lt_le h1; rw [Nat.succ_mul]
      have := Nat.min_le_right (M - rt * mr) mr; omega
    · symm; apply Nat.div_eq_of_lt_le h3; rw [Nat.succ_mul]
      have := Nat.min_le_right (N - ct * nr) nr; omega
  · rintro ⟨h1, h2⟩
    subst h1 h2
    have a1 := Nat.div_mul_le_self r mr
    have a2 := Nat.lt_div_mul_add (a := r) hmr
    have b1 := Nat.div_mul_le_self c nr
    have b2 := Nat.lt_div_mul_add (a := c) hnr
    refine ⟨a1, ?_, b1, ?_⟩
    · rcases Nat.le_total (M - r / mr * mr) mr with h | h
      · rw [Nat.min_eq_left h]; omega
      · rw [Nat.min_eq_right h]; exact a2
    · rcases Nat.le_total (N - c / nr * nr) nr with h | h
      · rw [Nat.min_eq_left h]; omega
      · rw [Nat.min_eq_right h]; exact b2

/-- A call covers only elements inside the `M × N` output. -/
theorem covers_mkCall_in_range {M N mr nr : Nat} {r c : Nat} (d : Nat × Nat) (rt ct : Nat)
    (h : (mkCall M N mr nr d rt ct).covers mr nr r c = true) : r < M ∧ c < N := by
  rw [covers_iff] at h
  have h : rt * mr ≤ r ∧ r < rt * mr + min (M - rt * mr) mr ∧
    ct * nr ≤ c ∧ c < ct * nr + min (N - ct * nr) nr := h
  obtain ⟨h1, h2, h3, h4⟩ := h
  have := Nat.min_le_left (M - rt * mr) mr
  have := Nat.min_le_left (N - ct * nr) nr
  omega

end RtenVerif.Gemm
