import RtenVerif.Lemmas.OnnxRefConcat
/-! Tile along one axis = Concat of copies: one more repeat appends one more copy of `x`. -/
namespace RtenVerif.OnnxRef

theorem getN_zipWith (f : Nat → Nat → Nat) (a b : List Nat) (j : Nat) (ha : j < a.length) (hb : j < b.length) :
    getN (List.zipWith f a b) j = f (getN a j) (getN b j) := by
  simp [getN, List.getD_eq_getElem?_getD, List.getElem?_zipWith, ha, hb]

theorem tile_shape_get (shape reps : List Nat) (ax k j : Nat) (hl : reps.length = shape.length)
    (hj : j < shape.length) :
    getN (List.zipWith (fun d r => d * r) shape (reps.set ax k)) j
      = getN shape j * (if ax = j then k else getN reps j) := by
  rw [getN_zipWith _ _ _ _ hj (by simp [hl, hj])]
  congr 1
  have := getN_set reps ax k j
  rw [this]
  by_cases h : ax = j
  · subst h; simp [hl, hj]
  · simp [h]

/-- TI1. Tiling `k+1` times along `ax` (once along the other axes) is the concatenation, along `ax`, of
the `k`-fold tiling with one more copy of `x`. -/
theorem tile_succ (x : Tensor) (reps : List Nat) (ax k : Nat)
    (hl : reps.length = x.shape.length) (hax : ax < x.shape.length)
    (hone : ∀ j, j < x.shape.length → j ≠ ax → getN reps j = 1) :
    tileCore x (reps.set ax (k + 1)) = concat2 ax (tileCore x (reps.set ax k)) x := by
  have hlen : ∀ m, (List.zipWith (fun d r => d * r) x.shape (reps.set ax m)).length = x.shape.length := by
    intro m; simp [hl]
  have hshape : withAt (List.zipWith (fun d r => d * r) x.shape (reps.set ax k)) ax
      (getN (List.zipWith (fun d r => d * r) x.shape (reps.set ax k)) ax + getN x.shape ax)
      = List.zipWith (fun d r => d * r) x.shape (reps.set ax (k + 1)) := by
    apply list_ext_getN _ _ (by simp [hl])
    intro j hj
    have hj' : j < x.shape.length := by simpa [hl] using hj
    rw [getN_withAt, tile_shape_get _ _ _ _ _ hl hax, tile_shape_get _ _ _ _ _ hl hj']
    by_cases h : ax = j
    · subst h
      simp only [hlen, hax, and_self, if_true]
      rw [tile_shape_get _ _ _ _ _ hl hax]
      simp [Nat.mul_succ]
    · simp only [h, false_and, if_false]
      rw [tile_shape_get _ _ _ _ _ hl hj']
      simp [h]
  unfold concat2
  have hts : ∀ m, (tileCore x (reps.set ax m)).shape = List.zipWith (fun d r => d * r) x.shape (reps.set ax m) :=
    fun _ => rfl
  simp only [hts, hshape]
  show build _ _ = build _ _
  apply build_congr
  intro idx hv
  obtain ⟨hil, hib⟩ := (validIdx_iff _ _).mp hv
  have hil' : idx.length = x.shape.length := by rw [hil]; exact hlen _
  have hb : ∀ j, j < x.shape.length → getN idx j < getN x.shape j * (if ax = j then k + 1 else getN reps j) := by
    intro j hj
    have := hib j (by rw [hlen]; exact hj)
    rwa [tile_shape_get _ _ _ _ _ hl hj] at this
  have hda : getN (List.zipWith (fun d r => d * r) x.shape (reps.set ax k)) ax = getN x.shape ax * k := by
    rw [tile_shape_get _ _ _ _ _ hl hax]; simp
  rw [hda]
  by_cases hlt : getN idx ax < getN x.shape ax * k
  · simp only [hlt, if_true]
    have hv' : validIdx (List.zipWith (fun d r => d * r) x.shape (reps.set ax k)) idx = true := by
      rw [validIdx_iff]
      refine ⟨by rw [hlen]; exact hil', ?_⟩
      intro j hj
      have hj' : j < x.shape.length := by rwa [hlen] at hj
      rw [tile_shape_get _ _ _ _ _ hl hj']
      by_cases h : ax = j
      · subst h; simpa using hlt
      · have := hb j hj'; simpa [h] using this
    unfold tileCore
    rw [get_build _ _ _ hv']
  · simp only [hlt, if_false]
    congr 1
    apply list_ext_getN _ _ (by simp [hil'])
    intro j hj
    have hj' : j < x.shape.length := by simpa [hil'] using hj
    rw [getN_zipWith _ _ _ _ (by rw [hil']; exact hj') hj', getN_withAt]
    have hbj := hb j hj'
    by_cases h : ax = j
    · subst h
      simp only [hil', hax, and_self, if_true] at hbj ⊢
      have hge : getN x.shape ax * k ≤ getN idx ax := by omega
      have hm : getN idx ax = getN x.shape ax * k + (getN idx ax - getN x.shape ax * k) := by omega
      have hlt2 : getN idx ax - getN x.shape ax * k < getN x.shape ax := by
        rw [Nat.mul_succ] at hbj; omega
      rw [hm, Nat.mul_add_mod, Nat.mod_eq_of_lt hlt2]
      omega
    · simp only [h, false_and, if_false] at hbj ⊢
      rw [hone j hj' (fun e => h e.symm), Nat.mul_one] at hbj
      exact Nat.mod_eq_of_lt hbj

end RtenVerif.OnnxRef
