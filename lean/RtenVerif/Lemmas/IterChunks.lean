import RtenVerif.Lemmas.IterView

/-!
C07 lemmas, part 10: `AxisChunks`/`AxisChunksMut` (current, fixed `next_back`/`split_at`)
refine the deque over the logical chunk list.
-/
namespace RtenVerif.Iter

/-- Number of chunks: `size.div_ceil(chunk)`. -/
def nChunks (size c : Nat) : Nat := (size + c - 1) / c

/-- The `k`-th logical chunk of `axis_chunks(axis, c)` on `v`: indices `[k*c, min((k+1)*c, size))`
of the axis. -/
def chunkItem (v : View) (axis c k : Nat) : Item :=
  (View.mk (v.base + k * c * v.stride axis)
    (View.setSize v.dims axis (min ((k + 1) * c) (v.size axis) - k * c))).item

/-- Logical chunk list of `axis_chunks(axis, c)`. -/
def chunksSpec (v : View) (axis c : Nat) : List Item :=
  (List.range (nChunks (v.size axis) c)).map (chunkItem v axis c)

theorem lt_nChunks {size c : Nat} (hc : 0 < c) (k : Nat) : k < nChunks size c ↔ k * c < size := by
  unfold nChunks
  rw [Nat.lt_iff_add_one_le, Nat.le_div_iff_mul_le hc, Nat.succ_mul]
  omega

theorem nat_eq_of_lt_iff {a b : Nat} (h : ∀ k, k < a ↔ k < b) : a = b := by
  have := h a; have := h b; omega

theorem chunksSpec_length (v : View) (axis c : Nat) :
    (chunksSpec v axis c).length = nChunks (v.size axis) c := by simp [chunksSpec]

/-- The two halves of `split_at(axis, min(c*k0, size))`. -/
def leftView (v : View) (axis mid : Nat) : View := ⟨v.base, View.setSize v.dims axis mid⟩
def rightView (v : View) (axis mid : Nat) : View :=
  ⟨if total (View.setSize v.dims axis (v.size axis - mid)) = 0 then v.base + minDataLen v.dims
    else v.base + mid * v.stride axis, View.setSize v.dims axis (v.size axis - mid)⟩

theorem view_splitAt_eq (v : View) (axis mid : Nat) (ha : axis < v.dims.length)
    (hm : mid ≤ v.size axis) : v.splitAt axis mid = some (leftView v axis mid, rightView v axis mid) :=
  view_splitAt_some v axis mid ha hm

theorem view_stride_setSize (b : Nat) (dims : List (Nat × Nat)) (axis n : Nat) (ha : axis < dims.length) :
    View.stride ⟨b, View.setSize dims axis n⟩ axis = (dims.getD axis (0, 0)).2 := by
  simp only [View.stride]
  rw [setSize_getD _ _ _ ha]

theorem chunks_left (v : View) (axis c k0 : Nat) (ha : axis < v.dims.length) (hc : 0 < c)
    (hk : k0 ≤ nChunks (v.size axis) c) :
    chunksSpec (leftView v axis (min (c * k0) (v.size axis))) axis c = (chunksSpec v axis c).take k0 := by
  have hn : nChunks (min (c * k0) (v.size axis)) c = k0 := by
    apply nat_eq_of_lt_iff
    intro k
    rw [lt_nChunks hc]
    constructor
    · intro h
      have : k * c < k0 * c := by rw [Nat.mul_comm k0]; omega
      exact (Nat.mul_lt_mul_right hc).mp this
    · intro h
      have h1 : k * c < k0 * c := (Nat.mul_lt_mul_right hc).mpr h
      have h2 : k * c < v.size axis := (lt_nChunks hc k).mp (by omega)
      rw [Nat.mul_comm c k0]; omega
  simp only [chunksSpec, leftView, view_size_setSize _ _ _ _ ha, hn, ← List.map_take, List.take_range,
    Nat.min_eq_left hk]
  apply List.map_congr_left
  intro k hk'
  rw [List.mem_range] at hk'
  have h1 : (k + 1) * c ≤ k0 * c := Nat.mul_le_mul_right c hk'
  have h2 : k * c < v.size axis := (lt_nChunks hc k).mp (by omega)
  simp only [chunkItem, view_size_setSize _ _ _ _ ha, view_stride_setSize _ _ _ _ ha,
    setSize_setSize]
  simp only [View.stride]
  have e : min ((k + 1) * c) (min (c * k0) (v.size axis)) - k * c =
      min ((k + 1) * c) (v.size axis) - k * c := by
    rw [Nat.mul_comm c k0]; omega
  rw [e]

theorem chunks_right (v : View) (axis c k0 : Nat) (ha : axis < v.dims.length) (hc : 0 < c) :
    chunksSpec (rightView v axis (min (c * k0) (v.size axis))) axis c = (chunksSpec v axis c).drop k0 := by
  have hn : nChunks (v.size axis - min (c * k0) (v.size axis)) c = nChunks (v.size axis) c - k0 := by
    apply nat_eq_of_lt_iff
    intro k
    have h1 : k < nChunks (v.size axis) c - k0 ↔ k + k0 < nChunks (v.size axis) c := by omega
    rw [lt_nChunks hc, h1, lt_nChunks hc, Nat.add_mul, Nat.mul_comm c k0]
    omega
  simp only [chunksSpec, rightView, view_size_setSize _ _ _ _ ha, hn, ← List.map_drop,
    List.range_eq_range', List.drop_range', Nat.mul_one, Nat.zero_add]
  rw [← Nat.zero_add k0, map_range'_shift, Nat.zero_add]
  apply List.map_congr_left
  intro k hk'
  rw [List.mem_range'_1] at hk'
  have h2 : (k + k0) * c < v.size axis := (lt_nChunks hc _).mp (by omega)
  rw [Nat.add_mul] at h2
  have hmid : min (c * k0) (v.size axis) = k0 * c := by rw [Nat.mul_comm c k0]; omega
  simp only [chunkItem, view_size_setSize _ _ _ _ ha, view_stride_setSize _ _ _ _ ha,
    setSize_setSize, hmid]
  simp only [View.stride]
  have e : min ((k + 1) * c) (v.size axis - k0 * c) - k * c =
      min ((k + k0 + 1) * c) (v.size axis) - (k + k0) * c := by
    rw [Nat.add_mul, Nat.add_mul, Nat.add_mul]; omega
  rw [e]
  apply item_congr
  intro hne
  rw [total_setSize _ _ _ ha] at hne
  have hE : total (v.dims.eraseIdx axis) ≠ 0 := fun h0 => hne (by rw [h0, Nat.mul_zero])
  have hw : total (View.setSize v.dims axis (v.size axis - k0 * c)) ≠ 0 := by
    rw [total_setSize _ _ _ ha]
    intro h0
    rcases Nat.mul_eq_zero.mp h0 with h | h
    · omega
    · exact hE h
  simp only [hw, if_false, View.stride]
  rw [Nat.add_mul k k0 c, Nat.add_mul]
  omega

/-! ### Invariant and abstraction -/

structure ChunksInv (s : AxisChunks) : Prop where
  chunk : 0 < s.chunk
  rem : ∀ r, s.remainder = some r → s.axis < r.dims.length ∧ 0 < r.size s.axis

def absC (s : AxisChunks) : List Item :=
  match s.remainder with
  | none => []
  | some r => chunksSpec r s.axis s.chunk

theorem nChunks_zero {c : Nat} (hc : 0 < c) : nChunks 0 c = 0 := by
  unfold nChunks
  exact Nat.div_eq_of_lt (by omega)

/-- Storing a possibly empty remainder (`non_empty` filter) keeps invariant and abstraction. -/
theorem nonEmpty_spec (x : View) (axis c : Nat) (ha : axis < x.dims.length) (hc : 0 < c) :
    ChunksInv { remainder := AxisChunks.nonEmpty axis x, axis := axis, chunk := c } ∧
    absC { remainder := AxisChunks.nonEmpty axis x, axis := axis, chunk := c } = chunksSpec x axis c := by
  unfold AxisChunks.nonEmpty
  by_cases hz : x.size axis > 0
  · simp only [hz, if_true]
    refine ⟨⟨hc, ?_⟩, rfl⟩
    intro r hr
    simp only [Option.some.injEq] at hr
    subst hr
    exact ⟨ha, hz⟩
  · have h0 : x.size axis = 0 := by omega
    simp only [hz, if_false]
    refine ⟨⟨hc, fun r hr => by simp at hr⟩, ?_⟩
    simp [absC, chunksSpec, h0, nChunks_zero hc]

theorem leftView_len (v : View) (axis mid : Nat) : (leftView v axis mid).dims.length = v.dims.length :=
  setSize_length _ _ _
theorem rightView_len (v : View) (axis mid : Nat) : (rightView v axis mid).dims.length = v.dims.length :=
  setSize_length _ _ _

theorem chunks_len (s : AxisChunks) : AxisChunks.len s = (absC s).length := by
  unfold AxisChunks.len absC
  cases s.remainder with
  | none => rfl
  | some r => simp [chunksSpec_length, nChunks]

theorem chunks_nextOk : NextOk AxisChunks.next ChunksInv absC := by
  intro s hs
  cases hr : s.remainder with
  | none => simp [AxisChunks.next, absC, hr, hs]
  | some r =>
    obtain ⟨ha, hpos⟩ := hs.rem r hr
    have hc := hs.chunk
    have hmid : min s.chunk (r.size s.axis) = min (s.chunk * 1) (r.size s.axis) := by rw [Nat.mul_one]
    have hn : 0 < nChunks (r.size s.axis) s.chunk := (lt_nChunks hc 0).mpr (by omega)
    obtain ⟨hI, hA⟩ := nonEmpty_spec (rightView r s.axis (min s.chunk (r.size s.axis))) s.axis s.chunk
      (by rw [rightView_len]; exact ha) hc
    have hsplit := view_splitAt_eq r s.axis (min s.chunk (r.size s.axis)) ha (Nat.min_le_right _ _)
    simp only [AxisChunks.next, hr, hsplit]
    refine ⟨?_, ?_, hI⟩
    · simp only [absC, hr, chunksSpec]
      obtain ⟨m, hm⟩ : ∃ m, nChunks (r.size s.axis) s.chunk = m + 1 := ⟨_, (Nat.succ_pred_eq_of_pos hn).symm⟩
      rw [hm, List.range_succ_eq_map]
      simp only [List.map_cons, List.head?_cons, Option.some.injEq, chunkItem, leftView, Nat.zero_mul,
        Nat.add_zero, Nat.zero_add, Nat.one_mul, Nat.sub_zero]
    · rw [hA]
      simp only [absC, hr]
      rw [hmid, chunks_right r s.axis s.chunk 1 ha hc, List.drop_one]

/-- `last_chunk_len` is what remains after `n - 1` full chunks. -/
theorem lastChunk_spec {size c : Nat} (hc : 0 < c) (hs : 0 < size) :
    size - AxisChunks.lastChunkLen size c = (nChunks size c - 1) * c ∧
    0 < AxisChunks.lastChunkLen size c ∧ AxisChunks.lastChunkLen size c ≤ c ∧
    AxisChunks.lastChunkLen size c ≤ size := by
  have hn : 0 < nChunks size c := (lt_nChunks hc 0).mpr (by omega)
  have h1 : (nChunks size c - 1) * c < size := (lt_nChunks hc _).mp (by omega)
  have h2 : ¬ (nChunks size c * c < size) := fun h => by
    have := (lt_nChunks hc _).mpr h; omega
  have h3 : nChunks size c * c = (nChunks size c - 1) * c + c := by
    obtain ⟨m, hm⟩ : ∃ m, nChunks size c = m + 1 := ⟨_, (Nat.succ_pred_eq_of_pos hn).symm⟩
    rw [hm, Nat.add_sub_cancel, Nat.succ_mul]
  obtain ⟨t, ht⟩ : ∃ t, size = (nChunks size c - 1) * c + t := ⟨size - (nChunks size c - 1) * c, by omega⟩
  have ht1 : 0 < t := by omega
  have ht2 : t ≤ c := by omega
  have hmod : size % c = t % c := by
    rw [ht, Nat.add_comm, Nat.add_mul_mod_self_right]
  unfold AxisChunks.lastChunkLen
  by_cases htc : t = c
  · have : size % c = 0 := by rw [hmod, htc, Nat.mod_self]
    simp only [this, if_true]
    omega
  · have : size % c = t := by rw [hmod, Nat.mod_eq_of_lt (by omega)]
    have hne : ¬ (size % c = 0) := by omega
    rw [if_neg hne, this]
    omega

theorem chunks_backOk : BackOk AxisChunks.nextBack ChunksInv absC := by
  intro s hs
  cases hr : s.remainder with
  | none => simp [AxisChunks.nextBack, absC, hr, hs]
  | some r =>
    obtain ⟨ha, hpos⟩ := hs.rem r hr
    have hc := hs.chunk
    obtain ⟨l1, l2, l3, l4⟩ := lastChunk_spec hc hpos
    have hn : 0 < nChunks (r.size s.axis) s.chunk := (lt_nChunks hc 0).mpr (by omega)
    -- the split point is `c * (n - 1)`
    have hmid : r.size s.axis - AxisChunks.lastChunkLen (r.size s.axis) s.chunk =
        min (s.chunk * (nChunks (r.size s.axis) s.chunk - 1)) (r.size s.axis) := by
      rw [Nat.mul_comm s.chunk]; omega
    obtain ⟨hI, hA⟩ := nonEmpty_spec
      (leftView r s.axis (r.size s.axis - AxisChunks.lastChunkLen (r.size s.axis) s.chunk)) s.axis s.chunk
      (by rw [leftView_len]; exact ha) hc
    have hsplit := view_splitAt_eq r s.axis
      (r.size s.axis - AxisChunks.lastChunkLen (r.size s.axis) s.chunk) ha (Nat.sub_le _ _)
    simp only [AxisChunks.nextBack, hr, hsplit]
    -- decompose the chunk list of `r`
    have hL := chunks_left r s.axis s.chunk (nChunks (r.size s.axis) s.chunk - 1) ha hc (by omega)
    have hR := chunks_right r s.axis s.chunk (nChunks (r.size s.axis) s.chunk - 1) ha hc
    rw [← hmid] at hL hR
    have hcur : chunksSpec (rightView r s.axis
          (r.size s.axis - AxisChunks.lastChunkLen (r.size s.axis) s.chunk)) s.axis s.chunk =
        [(rightView r s.axis
          (r.size s.axis - AxisChunks.lastChunkLen (r.size s.axis) s.chunk)).item] := by
      have hsz : (rightView r s.axis
          (r.size s.axis - AxisChunks.lastChunkLen (r.size s.axis) s.chunk)).size s.axis =
          AxisChunks.lastChunkLen (r.size s.axis) s.chunk := by
        simp only [rightView, view_size_setSize _ _ _ _ ha]; omega
      have hn1 : nChunks (AxisChunks.lastChunkLen (r.size s.axis) s.chunk) s.chunk = 1 := by
        apply nat_eq_of_lt_iff
        intro k
        rw [lt_nChunks hc]
        constructor
        · intro h
          rcases Nat.eq_zero_or_pos k with h0 | h0
          · omega
          · have : 1 * s.chunk ≤ k * s.chunk := Nat.mul_le_mul_right _ h0
            omega
        · intro h
          have : k = 0 := by omega
          subst this; omega
      simp only [chunksSpec, hsz, hn1, List.range_one, List.map_cons, List.map_nil, List.cons.injEq,
        and_true, chunkItem, Nat.zero_mul, Nat.add_zero, Nat.zero_add, Nat.one_mul, Nat.sub_zero,
        Nat.min_eq_right l3]
      simp only [rightView, setSize_setSize]
      have : r.size s.axis - (r.size s.axis - AxisChunks.lastChunkLen (r.size s.axis) s.chunk) =
          AxisChunks.lastChunkLen (r.size s.axis) s.chunk := by omega
      rw [this]
    have hdecomp : chunksSpec r s.axis s.chunk =
        chunksSpec (leftView r s.axis
          (r.size s.axis - AxisChunks.lastChunkLen (r.size s.axis) s.chunk)) s.axis s.chunk ++
        [(rightView r s.axis
          (r.size s.axis - AxisChunks.lastChunkLen (r.size s.axis) s.chunk)).item] := by
      rw [hL, ← hcur, hR, List.take_append_drop]
    refine ⟨?_, ?_, hI⟩
    · simp only [absC, hr]
      rw [hdecomp, List.getLast?_concat]
    · rw [hA]
      simp only [absC, hr]
      rw [hdecomp, List.dropLast_concat]

theorem chunks_split (s : AxisChunks) (k : Nat) (hs : ChunksInv s) (hk : k ≤ (absC s).length) :
    ∃ a b, AxisChunks.splitAt s k = some (a, b) ∧ absC a = (absC s).take k ∧
      absC b = (absC s).drop k ∧ ChunksInv a ∧ ChunksInv b := by
  have hlen : k ≤ s.len := by rw [chunks_len]; exact hk
  cases hr : s.remainder with
  | none =>
    have hnone : ChunksInv { s with remainder := none } := ⟨hs.chunk, fun r h => by simp at h⟩
    refine ⟨{ s with remainder := none }, { s with remainder := none }, ?_, ?_, ?_, hnone, hnone⟩
    · simp only [AxisChunks.splitAt, hlen, if_true, hr]
    · simp [absC, hr]
    · simp [absC, hr]
  | some r =>
    obtain ⟨ha, hpos⟩ := hs.rem r hr
    have hc := hs.chunk
    have hk' : k ≤ nChunks (r.size s.axis) s.chunk := by
      simpa [absC, hr, chunksSpec_length] using hk
    have hsplit := view_splitAt_eq r s.axis (min (s.chunk * k) (r.size s.axis)) ha (Nat.min_le_right _ _)
    obtain ⟨hIl, hAl⟩ := nonEmpty_spec (leftView r s.axis (min (s.chunk * k) (r.size s.axis))) s.axis
      s.chunk (by rw [leftView_len]; exact ha) hc
    obtain ⟨hIr, hAr⟩ := nonEmpty_spec (rightView r s.axis (min (s.chunk * k) (r.size s.axis))) s.axis
      s.chunk (by rw [rightView_len]; exact ha) hc
    refine ⟨_, _, by simp only [AxisChunks.splitAt, hlen, if_true, hr, hsplit, Option.map_some],
      ?_, ?_, hIl, hIr⟩
    · rw [hAl]; simp only [absC, hr]; exact chunks_left r s.axis s.chunk k ha hc hk'
    · rw [hAr]; simp only [absC, hr]; exact chunks_right r s.axis s.chunk k ha hc

/-- **`AxisChunks` refines the deque** over the logical chunks of its remainder. -/
theorem chunks_refines : Refines AxisChunks.ops ChunksInv absC where
  next := chunks_nextOk
  nextBack := chunks_backOk
  nth := fun s n hs => defaultNth_spec chunks_nextOk n s hs
  len := fun s _ => chunks_len s
  fold := fun s hs => drainFront_spec chunks_nextOk _ s hs (by rw [chunks_len]; exact Nat.le_refl _)
  rev := fun s hs => drainBack_spec chunks_backOk _ s hs (by rw [chunks_len]; exact Nat.le_refl _)
  splitOk := chunks_split
  splitPanic := fun s k _ hk => by
    show AxisChunks.splitAt s k = none
    have : ¬ k ≤ s.len := by rw [chunks_len]; omega
    simp only [AxisChunks.splitAt, this, if_false]

theorem chunks_new (v : View) (axis c : Nat) (ha : axis < v.dims.length) (hc : 0 < c) :
    ChunksInv (AxisChunks.new v axis c) ∧ absC (AxisChunks.new v axis c) = chunksSpec v axis c :=
  nonEmpty_spec v axis c ha hc

end RtenVerif.Iter

namespace RtenVerif.Iter

/-- Axis index range `[k*c, min((k+1)*c, size))` covered by chunk `k`. -/
def chunkRange (size c k : Nat) : List Nat :=
  List.range' (k * c) (min ((k + 1) * c) size - k * c)

theorem full_chunks_cover (size c : Nat) : ∀ m : Nat, m * c ≤ size →
    (List.range m).flatMap (chunkRange size c) = List.range' 0 (m * c)
  | 0, _ => by simp
  | m + 1, h => by
    have hm : m * c ≤ size := by rw [Nat.succ_mul] at h; omega
    rw [List.range_succ, List.flatMap_append, full_chunks_cover size c m hm, List.flatMap_singleton]
    unfold chunkRange
    have e : min ((m + 1) * c) size - m * c = c := by rw [Nat.succ_mul] at h ⊢; omega
    rw [e, Nat.succ_mul]
    have := @List.range'_append 0 (m * c) c 1
    simpa using this

/-- **Chunks partition the axis**: the index ranges of the logical chunks, concatenated in
order, are exactly `0 .. size` (every index of the axis in exactly one chunk). -/
theorem chunks_cover (size c : Nat) (hc : 0 < c) :
    (List.range (nChunks size c)).flatMap (chunkRange size c) = List.range size := by
  rcases Nat.eq_zero_or_pos size with h0 | hpos
  · subst h0; simp [nChunks_zero hc]
  · have hn : 0 < nChunks size c := (lt_nChunks hc 0).mpr (by omega)
    obtain ⟨m, hm⟩ : ∃ m, nChunks size c = m + 1 := ⟨_, (Nat.succ_pred_eq_of_pos hn).symm⟩
    have h1 : m * c < size := (lt_nChunks hc m).mp (by omega)
    have h2 : ¬ ((m + 1) * c < size) := fun h => by
      have := (lt_nChunks hc (m + 1)).mpr h; omega
    rw [hm, List.range_succ, List.flatMap_append, full_chunks_cover size c m (by omega),
      List.flatMap_singleton, List.range_eq_range']
    unfold chunkRange
    have e : min ((m + 1) * c) size - m * c = size - m * c := by omega
    rw [e]
    have := @List.range'_append 0 (m * c) (size - m * c) 1
    rw [Nat.one_mul, Nat.zero_add] at this
    rw [this]
    congr 1
    omega

end RtenVerif.Iter
