import RtenVerif.Model.Planner
/-!
# Basic facts about the graph IR and the planner model (core Lean only)
-/
namespace RtenVerif.Planner
open RtenVerif.Graph

/-! ## Graph IR -/

theorem sourceFrom_spec (v : Nat) (nodes : List Node) (i : Nat) (acc : Option Nat) (p : Nat)
    (h : sourceFrom v nodes i acc = some p) :
    acc = some p ∨ (i ≤ p ∧ ∃ op, nodes[p - i]? = some (.operator op) ∧ some v ∈ op.outputs) := by
  induction nodes generalizing i acc with
  | nil => left; simpa [sourceFrom] using h
  | cons n rest ih =>
    cases n with
    | value =>
      simp only [sourceFrom] at h
      rcases ih _ _ h with h1 | ⟨h1, op, h2, h3⟩
      · left; exact h1
      · right; refine ⟨by omega, op, ?_, h3⟩
        have : p - i = (p - (i + 1)) + 1 := by omega
        rw [this]; simpa using h2
    | constant =>
      simp only [sourceFrom] at h
      rcases ih _ _ h with h1 | ⟨h1, op, h2, h3⟩
      · left; exact h1
      · right; refine ⟨by omega, op, ?_, h3⟩
        have : p - i = (p - (i + 1)) + 1 := by omega
        rw [this]; simpa using h2
    | operator op0 =>
      simp only [sourceFrom] at h
      rcases ih _ _ h with h1 | ⟨h1, op, h2, h3⟩
      · by_cases hc : op0.outputs.contains (some v) = true
        · simp only [hc, if_true] at h1
          right
          have : p = i := by injection h1 with h1; exact h1.symm
          subst this
          refine ⟨Nat.le_refl _, op0, by simp, ?_⟩
          exact List.contains_iff_mem.mp hc
        · simp only [hc] at h1
          left; simpa using h1
      · right; refine ⟨by omega, op, ?_, h3⟩
        have : p - i = (p - (i + 1)) + 1 := by omega
        rw [this]; simpa using h2

/-- `source_ids` only ever maps a value to an operator node that lists it as an output. -/
theorem sourceOf_spec {g : Graph} {v p : Nat} (h : sourceOf g v = some p) :
    ∃ op, getOp g p = some op ∧ v ∈ opOutputs op := by
  unfold sourceOf at h
  rcases sourceFrom_spec v g.nodes 0 none p h with h1 | ⟨_, op, h2, h3⟩
  · cases h1
  · refine ⟨op, ?_, ?_⟩
    · simp only [Nat.sub_zero] at h2
      simp [getOp, getNode, h2]
    · simp only [opOutputs, List.mem_filterMap]
      exact ⟨some v, h3, rfl⟩

/-- `get_source_node` returns the registered source, which is an operator node producing the value. -/
theorem getSource_spec {g : Graph} {v p : Nat} {op : OpNode} (h : getSource g v = some (p, op)) :
    sourceOf g v = some p ∧ getOp g p = some op ∧ v ∈ opOutputs op := by
  unfold getSource at h
  cases hs : sourceOf g v with
  | none => simp [hs] at h
  | some q =>
    obtain ⟨op', h1, h2⟩ := sourceOf_spec hs
    simp only [hs, h1] at h
    injection h with h
    injection h with ha hb
    subst ha; subst hb
    exact ⟨rfl, h1, h2⟩

theorem getSource_none_iff {g : Graph} {v : Nat} : getSource g v = none ↔ sourceOf g v = none := by
  unfold getSource
  cases hs : sourceOf g v with
  | none => simp
  | some q =>
    obtain ⟨op', h1, _⟩ := sourceOf_spec hs
    simp [h1]

theorem getOp_lt {g : Graph} {p : Nat} {op : OpNode} (h : getOp g p = some op) :
    p < g.nodes.length := by
  unfold getOp getNode at h
  by_cases hp : p < g.nodes.length
  · exact hp
  · have : g.nodes[p]? = none := by simp; omega
    simp [this] at h

/-! ## `first_duplicate_by` -/

theorem firstDup_none_iff (xs : List Nat) : firstDup xs = none ↔ xs.Nodup := by
  induction xs with
  | nil => simp [firstDup]
  | cons x xs ih =>
    simp only [firstDup, List.nodup_cons]
    by_cases h : xs.contains x = true
    · simp only [h, if_true]
      have : x ∈ xs := List.contains_iff_mem.mp h
      simp [this]
    · simp only [h]
      have : x ∉ xs := fun hm => h (List.contains_iff_mem.mpr hm)
      simp [this, ih]

/-! ## Resolved sets -/

theorem rContains_mono {g : Graph} {r r' : List Nat} {d : Nat}
    (hsub : ∀ v, v ∈ r → v ∈ r') (h : rContains g r d = true) : rContains g r' d = true := by
  simp only [rContains, Bool.or_eq_true, List.contains_iff_mem] at h ⊢
  rcases h with h | h
  · exact Or.inl (hsub _ h)
  · exact Or.inr h

theorem rContains_append_left {g : Graph} {r x : List Nat} {d : Nat}
    (h : rContains g r d = true) : rContains g (r ++ x) d = true :=
  rContains_mono (fun _ hv => List.mem_append_left _ hv) h

theorem rContains_of_mem {g : Graph} {r : List Nat} {d : Nat} (h : d ∈ r) :
    rContains g r d = true := by
  simp [rContains, h]

theorem rContains_append_cases {g : Graph} {r x : List Nat} {d : Nat}
    (h : rContains g (r ++ x) d = true) : rContains g r d = true ∨ d ∈ x := by
  simp only [rContains, Bool.or_eq_true, List.contains_iff_mem, List.mem_append] at h ⊢
  rcases h with (h | h) | h
  · exact Or.inl (Or.inl h)
  · exact Or.inr h
  · exact Or.inl (Or.inr h)

theorem depsResolved_iff {g : Graph} {r : List Nat} {op : OpNode} :
    depsResolved g r op = true ↔ ∀ d ∈ opDeps g op, rContains g r d = true := by
  simp [depsResolved, List.all_eq_true]

theorem depsResolved_mono {g : Graph} {r r' : List Nat} {op : OpNode}
    (hsub : ∀ v, v ∈ r → v ∈ r') (h : depsResolved g r op = true) :
    depsResolved g r' op = true := by
  rw [depsResolved_iff] at h ⊢
  exact fun d hd => rContains_mono hsub (h d hd)

end RtenVerif.Planner
