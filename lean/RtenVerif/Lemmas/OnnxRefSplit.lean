import RtenVerif.Lemmas.OnnxRefConcat
/-! Split by sizes followed by Concat along the same axis is the identity (any number of pieces). -/
namespace RtenVerif.OnnxRef

theorem valid_withAt_both (s idx : List Nat) (ax n m v : Nat) (hax : ax < s.length)
    (hv : validIdx (withAt s ax n) idx = true) (hlt : v < m) :
    validIdx (withAt s ax m) (withAt idx ax v) = true := by
  obtain ⟨hl, hb⟩ := (validIdx_iff _ _).mp hv
  rw [validIdx_iff]
  have hl' : idx.length = s.length := by simpa using hl
  refine ⟨by simp [hl'], ?_⟩
  intro k hk
  have hk' : k < s.length := by simpa using hk
  rw [getN_withAt, getN_withAt]
  by_cases h : ax = k
  · subst h; simp [hax, hl']; exact hlt
  · simp only [h, false_and, if_false]
    have := hb k (by simpa using hk')
    rwa [getN_withAt_ne _ _ _ _ h] at this

/-- Adjacent pieces concatenate to the piece covering both. -/
theorem concat2_narrow_adj (x : Tensor) (ax a b : Nat) (hax : ax < x.shape.length) :
    concat2 ax (narrow x ax 0 a) (narrow x ax a b) = narrow x ax 0 (a + b) := by
  unfold concat2
  have hsa : (narrow x ax 0 a).shape = withAt x.shape ax a := rfl
  have hsb : (narrow x ax a b).shape = withAt x.shape ax b := rfl
  rw [hsa, hsb, getN_withAt_same _ _ _ hax, getN_withAt_same _ _ _ hax]
  simp only [withAt_withAt]
  show build _ _ = build _ _
  unfold narrow
  apply build_congr
  intro idx hv
  obtain ⟨hl, _⟩ := (validIdx_iff _ _).mp hv
  have hl' : idx.length = x.shape.length := by simpa using hl
  have haxi : ax < idx.length := by rw [hl']; exact hax
  by_cases hlt : getN idx ax < a
  · simp only [hlt, if_true]
    have hv' := valid_withAt_both x.shape idx ax (a + b) a (getN idx ax) hax hv hlt
    rw [withAt_self] at hv'
    rw [get_build _ _ _ hv']
  · simp only [hlt, if_false]
    have hib : getN idx ax < a + b := by
      have := ((validIdx_iff _ _).mp hv).2 ax (by simpa using hax)
      rwa [getN_withAt_same _ _ _ hax] at this
    have hv' := valid_withAt_both x.shape idx ax (a + b) b (getN idx ax - a) hax hv (by omega)
    rw [get_build _ _ _ hv', getN_withAt_same _ _ _ haxi, withAt_withAt]
    have : getN idx ax - a + a = getN idx ax + 0 := by omega
    rw [this]

theorem sumN_def (l : List Nat) : l.foldl (· + ·) 0 = l.foldr (· + ·) 0 := by
  induction l with
  | nil => rfl
  | cons a l ih =>
    simp only [List.foldl_cons, List.foldr_cons, Nat.zero_add]
    have : ∀ (l : List Nat) (acc : Nat), l.foldl (· + ·) acc = acc + l.foldl (· + ·) 0 := by
      intro l
      induction l with
      | nil => intro acc; simp
      | cons b l ih2 => intro acc; simp only [List.foldl_cons]; rw [ih2 (acc + b), ih2 (0 + b)]; omega
    rw [this l a, ih]

/-- Folding `Concat` over the pieces produced from offset `off` extends the prefix `[0, off)` to
`[0, off + Σ sizes)`. -/
theorem foldl_concat_split (x : Tensor) (ax : Nat) (hax : ax < x.shape.length) :
    ∀ (ns : List Nat) (off : Nat),
      (splitSizes x ax ns off).foldl (concat2 ax) (narrow x ax 0 off) = narrow x ax 0 (off + ns.foldr (· + ·) 0)
  | [], off => by simp [splitSizes]
  | n :: ns, off => by
    simp only [splitSizes, List.foldl_cons, List.foldr_cons]
    rw [concat2_narrow_adj x ax off n hax, foldl_concat_split x ax hax ns (off + n)]
    congr 1; omega

theorem narrow_full (x : Tensor) (ax : Nat) (hwf : x.data.length = prod x.shape) :
    narrow x ax 0 (getN x.shape ax) = x := by
  unfold narrow
  rw [withAt_self]
  apply Eq.trans (build_congr x.shape _ x.get _) (build_get x hwf)
  intro idx _
  rw [Nat.add_zero, withAt_self]

/-- SP1. `Concat(Split(x, sizes))` = `x` for any list of split sizes summing to the axis extent: folding
the two-input concatenation over all pieces (what `concat` does) rebuilds `x`. -/
theorem concat_splitSizes (x : Tensor) (ax n : Nat) (ns : List Nat) (hwf : x.data.length = prod x.shape)
    (hax : ax < x.shape.length) (hsum : n + ns.foldr (· + ·) 0 = getN x.shape ax) :
    (splitSizes x ax ns n).foldl (concat2 ax) (narrow x ax 0 n) = x := by
  rw [foldl_concat_split x ax hax ns n, hsum, narrow_full x ax hwf]

end RtenVerif.OnnxRef
