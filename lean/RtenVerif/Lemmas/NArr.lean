import RtenVerif.Model.Layout

/-! Helper lemmas for C09: the reference array (`NArr`) and the refinement skeleton. -/
namespace RtenVerif.Arr

theorem mem_idxs {shape idx : List Nat} : idx ∈ idxs shape ↔ validIdx shape idx = true := by
  induction shape generalizing idx with
  | nil => cases idx <;> simp [idxs, validIdx]
  | cons n ns ih =>
    cases idx with
    | nil => simp [idxs, validIdx]
    | cons i is =>
      simp only [idxs, validIdx, List.mem_flatMap, List.mem_range, List.mem_map,
        Bool.and_eq_true, decide_eq_true_eq]
      constructor
      · rintro ⟨a, ha, b, hb, hab⟩
        injection hab with h1 h2
        subst h1; subst h2
        exact ⟨ha, ih.mp hb⟩
      · rintro ⟨h1, h2⟩
        exact ⟨i, h1, is, ih.mpr h2, rfl⟩

theorem assoc_map {α : Type} (g : List Nat → α) (idx : List Nat) (ks : List (List Nat))
    (h : idx ∈ ks) : assoc idx ks (ks.map g) = some (g idx) := by
  induction ks with
  | nil => cases h
  | cons k ks ih =>
    simp only [List.map_cons, assoc]
    by_cases hk : k = idx
    · simp [hk]
    · simp only [hk, if_false]
      rcases List.mem_cons.mp h with h | h
      · exact absurd h.symm hk
      · exact ih h

namespace NArr
variable {α : Type}

@[simp] theorem ofFn_shape (shape : List Nat) (g : List Nat → α) : (ofFn shape g).shape = shape := rfl

theorem get_ofFn [Inhabited α] (shape : List Nat) (g : List Nat → α) (idx : List Nat)
    (h : validIdx shape idx = true) : (ofFn shape g).get idx = g idx := by
  simp only [get, ofFn]
  rw [assoc_map g idx _ (mem_idxs.mpr h)]
  rfl

theorem ofFn_congr (shape : List Nat) (g g' : List Nat → α)
    (h : ∀ idx, validIdx shape idx = true → g idx = g' idx) : ofFn shape g = ofFn shape g' := by
  simp only [ofFn]
  congr 1
  exact List.map_congr_left (fun idx hidx => h idx (mem_idxs.mp hidx))

end NArr

theorem validIdx_length {shape idx : List Nat} (h : validIdx shape idx = true) :
    idx.length = shape.length := by
  induction shape generalizing idx with
  | nil => cases idx <;> simp_all [validIdx]
  | cons n ns ih =>
    cases idx with
    | nil => simp [validIdx] at h
    | cons i is =>
      simp only [validIdx, Bool.and_eq_true] at h
      simp [ih h.2]

end RtenVerif.Arr

namespace RtenVerif.Layout
open RtenVerif.Arr RtenVerif.Overlap

/-- Refinement skeleton: a layout transformation `v ↦ v'` implements the reference operation
"element `idx` of the result is element `f idx` of the source" as soon as shapes agree, `f` maps
valid indices to valid indices and the offsets agree. -/
theorem denote_refines {α : Type} [Inhabited α] (v v' : View) (s : Nat → α)
    (f : List Nat → List Nat) (shape' : List Nat)
    (hshape : sizes v'.dims = shape')
    (hvalid : ∀ idx, validIdx shape' idx = true → validIdx (sizes v.dims) (f idx) = true)
    (hoff : ∀ idx, validIdx shape' idx = true →
      v'.base + offset v'.dims idx = v.base + offset v.dims (f idx)) :
    denote v' s = NArr.ofFn shape' (fun idx => (denote v s).get (f idx)) := by
  unfold denote
  rw [hshape]
  apply NArr.ofFn_congr
  intro idx hidx
  rw [NArr.get_ofFn _ _ _ (hvalid idx hidx), hoff idx hidx]

end RtenVerif.Layout
