import RtenVerif.Lemmas.PlannerDfs
/-!
# Every traversal error has a genuine cause in the graph (C03.T2b)
-/
namespace RtenVerif.Planner
open RtenVerif.Graph

/-- Static "needs" edge: operator `x` has a dependency that is not initially available
and whose registered source is operator `p`. -/
def Edge (g : Graph) (r0 : List Nat) (x p : Nat) : Prop :=
  ∃ xop d pop, getOp g x = some xop ∧ d ∈ opDeps g xop ∧ rContains g r0 d = false ∧
    getSource g d = some (p, pop)

/-- Reflexive-transitive closure. -/
inductive Star (R : Nat → Nat → Prop) : Nat → Nat → Prop
  | refl (a : Nat) : Star R a a
  | tail {a b c : Nat} : Star R a b → R b c → Star R a c

/-- What a traversal error reports, stated on the graph alone:
* `cycle`: a needed operator `x` needs `p`, and `p` (transitively) needs `x`
  — a dependency cycle through values that were not supplied;
* `missingInput`: a needed operator depends on a value that is not available initially
  and that no operator produces (and missing inputs are not allowed);
* `noSource`: the same for a requested output. -/
inductive ErrCause (g : Graph) (opts : PlanOptions) (r0 outs : List Nat) : PlanError → Prop
  | cycle {x p : Nat} : Needed g r0 outs x → Edge g r0 x p → Star (Edge g r0) p x →
      ErrCause g opts r0 outs .cycle
  | missing {x d : Nat} {xop : OpNode} : opts.allowMissing = false → Needed g r0 outs x →
      getOp g x = some xop → d ∈ opDeps g xop → rContains g r0 d = false →
      getSource g d = none → ErrCause g opts r0 outs .missingInput
  | noSource {o : Nat} : opts.allowMissing = false → o ∈ outs → rContains g r0 o = false →
      getSource g o = none → ErrCause g opts r0 outs .noSource

/-- The active set, most recent first, is a path of `Edge`s. -/
def Chain (g : Graph) (r0 : List Nat) : List Nat → Prop
  | [] => True
  | [_] => True
  | a :: b :: rest => Edge g r0 b a ∧ Chain g r0 (b :: rest)

theorem Chain.star {g : Graph} {r0 : List Nat} :
    ∀ (rest : List Nat) (x p : Nat), Chain g r0 (x :: rest) → p ∈ x :: rest →
      Star (Edge g r0) p x := by
  intro rest
  induction rest with
  | nil =>
    intro x p _ hp
    simp only [List.mem_singleton] at hp
    subst hp; exact Star.refl _
  | cons b rest ih =>
    intro x p hc hp
    rcases List.mem_cons.mp hp with rfl | hp
    · exact Star.refl _
    · exact Star.tail (ih b p hc.2 hp) hc.1

def ErrSpec (g : Graph) (opts : PlanOptions) (r0 outs : List Nat)
    (rec : Nat → OpNode → St → Except PlanError St) : Prop :=
  ∀ p pop st e, Inv g opts.allowMissing r0 outs st → getOp g p = some pop →
    Needed g r0 outs p → (∃ v ∈ opOutputs pop, rContains g st.resolved v = false) →
    p ∉ st.active → Chain g r0 (p :: st.active) → rec p pop st = .error e →
    e = .outOfFuel ∨ ErrCause g opts r0 outs e

theorem depsLoop_err {g : Graph} {opts : PlanOptions} {r0 outs : List Nat}
    {rec : Nat → OpNode → St → Except PlanError St}
    (hok : VisitSpec g opts r0 outs rec) (herr : ErrSpec g opts r0 outs rec)
    {x : Nat} {xop : OpNode} (hx : Needed g r0 outs x) (hxop : getOp g x = some xop) :
    ∀ (ds : List Nat) (st : St) (e : PlanError), (∀ d ∈ ds, d ∈ opDeps g xop) →
      Inv g opts.allowMissing r0 outs st → (∃ A, st.active = x :: A) → Chain g r0 st.active →
      depsLoop g opts rec ds st = .error e → e = .outOfFuel ∨ ErrCause g opts r0 outs e := by
  intro ds
  induction ds with
  | nil => intro st e _ _ _ _ h; simp [depsLoop] at h
  | cons d ds ih =>
    intro st e hsub hinv hhead hchain h
    have hsub' : ∀ d' ∈ ds, d' ∈ opDeps g xop := fun d' hd' => hsub d' (List.mem_cons_of_mem _ hd')
    simp only [depsLoop] at h
    by_cases hc : rContains g st.resolved d = true
    · simp only [hc, if_true] at h
      exact ih st e hsub' hinv hhead hchain h
    · have hc' : rContains g st.resolved d = false := by simpa using hc
      simp only [hc'] at h
      have hd_deps := hsub d (List.mem_cons_self ..)
      have hr0 := rContains_false_r0 hinv hc'
      cases hs : getSource g d with
      | some pp =>
        obtain ⟨p, pop⟩ := pp
        simp only [hs] at h
        have hedge : Edge g r0 x p := ⟨xop, d, pop, hxop, hd_deps, hr0, hs⟩
        by_cases hact : p ∈ st.active
        · simp only [List.contains_iff_mem, hact, if_true] at h
          injection h with h; subst h
          right
          obtain ⟨A, hA⟩ := hhead
          rw [hA] at hact hchain
          exact ErrCause.cycle hx hedge (Chain.star A x p hchain hact)
        · simp only [List.contains_iff_mem, hact, if_false] at h
          obtain ⟨_, hgp, hdo⟩ := getSource_spec hs
          have hnp : Needed g r0 outs p := Needed.step hx hxop hd_deps hr0 hs
          cases hr : rec p pop st with
          | error e' =>
            simp only [hr] at h
            injection h with h; subst h
            apply herr p pop st e' hinv hgp hnp ⟨d, hdo, hc'⟩ hact _ hr
            obtain ⟨A, hA⟩ := hhead
            rw [hA] at hchain ⊢
            exact ⟨hedge, hchain⟩
          | ok st1 =>
            simp only [hr] at h
            obtain ⟨hp1, _⟩ := hok p pop st st1 hinv hgp hnp ⟨d, hdo, hc'⟩ hact hr
            exact ih st1 e hsub' hp1.inv (hp1.active ▸ hhead) (hp1.active ▸ hchain) h
      | none =>
        simp only [hs] at h
        by_cases ham : opts.allowMissing = true
        · simp only [ham, if_true] at h
          exact ih st e hsub' hinv hhead hchain h
        · simp only [ham] at h
          injection h with h; subst h
          right
          exact ErrCause.missing (by simpa using ham) hx hxop hd_deps hr0 hs

theorem visit_err (g : Graph) (opts : PlanOptions) (r0 outs : List Nat) :
    ∀ fuel, ErrSpec g opts r0 outs (visit g opts fuel) := by
  intro fuel
  induction fuel with
  | zero =>
    intro p pop st e _ _ _ _ _ _ h
    simp only [visit] at h
    injection h with h
    exact Or.inl h.symm
  | succ f ih =>
    intro p pop st e hinv hgp hnp _ _ hchain h
    simp only [visit] at h
    cases hl : depsLoop g opts (visit g opts f) (opDeps g pop) { st with active := p :: st.active } with
    | ok st1 => simp [hl] at h
    | error e' =>
      simp only [hl] at h
      injection h with h; subst h
      have hinv0 : Inv g opts.allowMissing r0 outs { st with active := p :: st.active } :=
        ⟨hinv.res, hinv.valid, hinv.nodup, hinv.ops, hinv.needed⟩
      exact depsLoop_err (visit_spec g opts r0 outs f) ih hnp hgp (opDeps g pop) _ e'
        (fun _ hd => hd) hinv0 ⟨st.active, rfl⟩ hchain hl

theorem planOutputs_err {g : Graph} {opts : PlanOptions} {r0 outs : List Nat} (fuel : Nat) :
    ∀ (os : List Nat) (st : St) (e : PlanError), (∀ o ∈ os, o ∈ outs) →
      Inv g opts.allowMissing r0 outs st → st.active = [] →
      planOutputs g opts fuel os st = .error e → e = .outOfFuel ∨ ErrCause g opts r0 outs e := by
  intro os
  induction os with
  | nil => intro st e _ _ _ h; simp [planOutputs] at h
  | cons o os ih =>
    intro st e hsub hinv hact h
    have hsub' : ∀ o' ∈ os, o' ∈ outs := fun o' ho' => hsub o' (List.mem_cons_of_mem _ ho')
    simp only [planOutputs] at h
    by_cases hc : rContains g st.resolved o = true
    · simp only [hc, if_true] at h
      exact ih st e hsub' hinv hact h
    · have hc' : rContains g st.resolved o = false := by simpa using hc
      simp only [hc'] at h
      have hr0 := rContains_false_r0 hinv hc'
      cases hs : getSource g o with
      | some pp =>
        obtain ⟨p, pop⟩ := pp
        simp only [hs] at h
        obtain ⟨_, hgp, hdo⟩ := getSource_spec hs
        have hnp : Needed g r0 outs p := Needed.root (hsub o (List.mem_cons_self ..)) hr0 hs
        have hna : p ∉ st.active := by rw [hact]; simp
        cases hr : visit g opts fuel p pop st with
        | error e' =>
          simp only [hr] at h
          injection h with h; subst h
          exact visit_err g opts r0 outs fuel p pop st e' hinv hgp hnp ⟨o, hdo, hc'⟩ hna
            (by rw [hact]; trivial) hr
        | ok st1 =>
          simp only [hr] at h
          obtain ⟨hp1, _⟩ :=
            visit_spec g opts r0 outs fuel p pop st st1 hinv hgp hnp ⟨o, hdo, hc'⟩ hna hr
          exact ih st1 e hsub' hp1.inv (hp1.active.trans hact) h
      | none =>
        simp only [hs] at h
        by_cases ham : opts.allowMissing = true
        · simp only [ham, if_true] at h
          exact ih st e hsub' hinv hact h
        · simp only [ham] at h
          injection h with h; subst h
          right
          exact ErrCause.noSource (by simpa using ham) (hsub o (List.mem_cons_self ..)) hr0 hs

theorem dfsPlan_err {g : Graph} {opts : PlanOptions} {ins outs : List Nat} {e : PlanError}
    (h : dfsPlan g ins outs opts = .error e) :
    e = .outOfFuel ∨ ErrCause g opts (resolvedNew g ins opts.capturesAvailable) outs e := by
  unfold dfsPlan at h
  have hinv0 : Inv g opts.allowMissing (resolvedNew g ins opts.capturesAvailable) outs
      { resolved := resolvedNew g ins opts.capturesAvailable, plan := [], active := [] } :=
    ⟨by simp [pOuts], trivial, by simp, by simp, by simp⟩
  exact planOutputs_err _ outs _ e (fun _ h => h) hinv0 rfl h

end RtenVerif.Planner
