import RtenVerif.Lemmas.Layout

/-! C09: arithmetic-progression selections on a layout (`slice`, `slice_axis`, `split`, …)
refine the reference `gather`. -/
namespace RtenVerif.Layout
open RtenVerif.Arr RtenVerif.Overlap

/-- Layout-level selector of one axis: pick position `i` (axis dropped), or take the `c`
positions `a, a+t, a+2t, …` (axis kept with size `c`, stride multiplied by `t`). -/
inductive ASel
  | pick (i : Nat)
  | arith (a c t : Nat)

def ASel.toSel : ASel → Sel
  | .pick i => .pick i
  | .arith a c t => .take ((List.range c).map (fun j => a + j * t))

/-- Storage offset added by a selection. -/
def aOff : Dims → List ASel → Nat
  | (_, st) :: ds, .pick i :: ss => st * i + aOff ds ss
  | (_, st) :: ds, .arith a _ _ :: ss => st * a + aOff ds ss
  | _, _ => 0

/-- Dims after a selection (axes beyond the selectors are kept). -/
def aDims : Dims → List ASel → Dims
  | _ :: ds, .pick _ :: ss => aDims ds ss
  | (_, st) :: ds, .arith _ c t :: ss => (c, st * t) :: aDims ds ss
  | ds, _ => ds

/-- Admissible: no more selectors than axes, every selected position in range. -/
def aOk : List Nat → List ASel → Prop
  | _, [] => True
  | [], _ :: _ => False
  | n :: ns, .pick i :: ss => i < n ∧ aOk ns ss
  | n :: ns, .arith a c t :: ss => (c = 0 ∨ a + (c - 1) * t < n) ∧ aOk ns ss

theorem lin_identity (a j t st r : Nat) : st * a + (j * (st * t) + r) = (a + j * t) * st + r := by
  rw [Nat.add_mul, Nat.mul_comm st a, Nat.mul_comm st t, Nat.mul_assoc]
  omega

theorem getD_arith (a c t j : Nat) (hj : j < c) :
    ((List.range c).map (fun j => a + j * t)).getD j 0 = a + j * t := by
  simp [List.getD_eq_getElem?_getD, List.getElem?_eq_getElem, hj]

/-- Core refinement lemma for selections. -/
theorem gather_core (d : Dims) (ss : List ASel) (hok : aOk (sizes d) ss) :
    sizes (aDims d ss) = selShape (ss.map ASel.toSel) (sizes d) ∧
    ∀ idx, validIdx (sizes (aDims d ss)) idx = true →
      validIdx (sizes d) (selSrc (ss.map ASel.toSel) idx) = true ∧
      aOff d ss + offset (aDims d ss) idx = offset d (selSrc (ss.map ASel.toSel) idx) := by
  induction d generalizing ss with
  | nil =>
    cases ss with
    | nil => exact ⟨rfl, fun idx h => ⟨h, by simp [aOff, aDims, selSrc]⟩⟩
    | cons s ss => simp [sizes, aOk] at hok
  | cons p ds ih =>
    obtain ⟨n, st⟩ := p
    cases ss with
    | nil =>
      refine ⟨rfl, fun idx h => ⟨h, ?_⟩⟩
      simp [aOff, aDims, selSrc]
    | cons s ss =>
      cases s with
      | pick i =>
        simp only [sizes, List.map_cons, aOk] at hok
        obtain ⟨hi, hrest⟩ := hok
        obtain ⟨h1, h2⟩ := ih ss hrest
        refine ⟨?_, ?_⟩
        · simpa [aDims, selShape, ASel.toSel, sizes] using h1
        · intro idx h
          simp only [aDims] at h
          obtain ⟨hv, ho⟩ := h2 idx h
          refine ⟨?_, ?_⟩
          · simp only [List.map_cons, ASel.toSel, selSrc, sizes, validIdx, Bool.and_eq_true,
              decide_eq_true_eq]
            exact ⟨hi, hv⟩
          · simp only [List.map_cons, ASel.toSel, selSrc, aOff, aDims, offset]
            rw [← ho, Nat.mul_comm i st]
            omega
      | arith a c t =>
        simp only [sizes, List.map_cons, aOk] at hok
        obtain ⟨hb, hrest⟩ := hok
        obtain ⟨h1, h2⟩ := ih ss hrest
        refine ⟨?_, ?_⟩
        · simp only [aDims, sizes, List.map_cons, ASel.toSel, selShape, List.length_map,
            List.length_range]
          congr 1
        · intro idx h
          cases idx with
          | nil => simp [aDims, sizes, validIdx] at h
          | cons j js =>
            simp only [aDims, sizes, List.map_cons, validIdx, Bool.and_eq_true,
              decide_eq_true_eq] at h
            obtain ⟨hj, hjs⟩ := h
            obtain ⟨hv, ho⟩ := h2 js hjs
            have hbound : a + j * t < n := by
              rcases hb with hc0 | hb
              · omega
              · have : j * t ≤ (c - 1) * t := Nat.mul_le_mul_right t (by omega)
                omega
            refine ⟨?_, ?_⟩
            · simp only [List.map_cons, ASel.toSel, selSrc, sizes, validIdx, Bool.and_eq_true,
                decide_eq_true_eq, getD_arith a c t j hj]
              exact ⟨hbound, hv⟩
            · simp only [List.map_cons, ASel.toSel, selSrc, aOff, aDims, offset,
                getD_arith a c t j hj]
              rw [← ho]
              have := lin_identity a j t st (aOff ds ss + offset (aDims ds ss) js)
              omega

/-! ### storage needed by a selection -/

theorem numelD_cons (n st : Nat) (ds : Dims) : numelD ((n, st) :: ds) = n * numelD ds := by
  simp [numelD, sizes, numel]

theorem minDataLen_empty (d : Dims) (h : numelD d = 0) : minDataLen d = 0 := by
  unfold minDataLen
  rw [(anyZero_iff _).mpr h]
  simp

theorem minDataLen_nonempty (d : Dims) (h : numelD d ≠ 0) :
    minDataLen d = (d.map (fun p => (p.1 - 1) * p.2)).sum + 1 := by
  unfold minDataLen
  have : ((sizes d).any (· == 0)) = false := by
    cases hz : (sizes d).any (· == 0) with
    | false => rfl
    | true => exact absurd ((anyZero_iff _).mp hz) h
  rw [this]
  simp

theorem numelD_ne_zero_of_minDataLen_pos (d : Dims) (h : 0 < minDataLen d) : numelD d ≠ 0 := by
  intro h0
  rw [minDataLen_empty d h0] at h
  omega

theorem minDataLen_cons (n st : Nat) (ds : Dims) (hn : n ≠ 0) (hds : numelD ds ≠ 0) :
    minDataLen ((n, st) :: ds) = (n - 1) * st + minDataLen ds := by
  have h : numelD ((n, st) :: ds) ≠ 0 := by
    rw [numelD_cons]; exact Nat.mul_ne_zero hn hds
  rw [minDataLen_nonempty _ h, minDataLen_nonempty _ hds]
  simp only [List.map_cons, List.sum_cons]
  omega

/-- A non-empty admissible selection stays inside the storage the source layout needs. -/
theorem aOff_minDataLen (d : Dims) (ss : List ASel) (hok : aOk (sizes d) ss)
    (hne : numelD (aDims d ss) ≠ 0) :
    aOff d ss + minDataLen (aDims d ss) ≤ minDataLen d := by
  induction d generalizing ss with
  | nil =>
    cases ss with
    | nil => simp [aOff, aDims]
    | cons s ss => simp [sizes, aOk] at hok
  | cons p ds ih =>
    obtain ⟨n, st⟩ := p
    cases ss with
    | nil => simp [aOff, aDims]
    | cons s ss =>
      cases s with
      | pick i =>
        simp only [sizes, List.map_cons, aOk] at hok
        obtain ⟨hi, hrest⟩ := hok
        simp only [aDims] at hne ⊢
        have h1 := ih ss hrest hne
        have hpos : 0 < minDataLen (aDims ds ss) := by
          rw [minDataLen_nonempty _ hne]; omega
        have hds : numelD ds ≠ 0 := numelD_ne_zero_of_minDataLen_pos ds (by omega)
        rw [minDataLen_cons n st ds (by omega) hds]
        simp only [aOff]
        have : st * i ≤ (n - 1) * st := by
          rw [Nat.mul_comm]; exact Nat.mul_le_mul_right st (by omega)
        omega
      | arith a c t =>
        simp only [sizes, List.map_cons, aOk] at hok
        obtain ⟨hb, hrest⟩ := hok
        simp only [aDims] at hne ⊢
        rw [numelD_cons] at hne
        have hc : c ≠ 0 := fun h => hne (by simp [h])
        have hne' : numelD (aDims ds ss) ≠ 0 := fun h => hne (by simp [h])
        have h1 := ih ss hrest hne'
        have hpos : 0 < minDataLen (aDims ds ss) := by
          rw [minDataLen_nonempty _ hne']; omega
        have hds : numelD ds ≠ 0 := numelD_ne_zero_of_minDataLen_pos ds (by omega)
        have hbn : a + (c - 1) * t < n := by
          rcases hb with h | h
          · exact absurd h hc
          · exact h
        rw [minDataLen_cons n st ds (by omega) hds, minDataLen_cons c (st * t) _ hc hne']
        simp only [aOff]
        have hl := lin_identity a (c - 1) t st 0
        have : (a + (c - 1) * t) * st ≤ (n - 1) * st := Nat.mul_le_mul_right st (by omega)
        omega

/-! ### view level -/

/-- The storage window of a view is long enough for its layout (`from_storage_and_layout`'s
invariant). -/
def WF (v : View) : Prop := minDataLen v.dims ≤ v.len

/-- A selection applied the way every slicing routine of `layout.rs` does it — offset reset to 0
for an empty result, storage window `off .. off + min_data_len` — yields, on a view that covers
its layout, a view that denotes the reference `gather` and again covers its layout. -/
theorem select_refines {α : Type} [Inhabited α] (v : View) (ss : List ASel) (s : Nat → α)
    (hok : aOk (sizes v.dims) ss) (hwf : WF v) (off : Nat)
    (hoff : off = if numelD (aDims v.dims ss) = 0 then 0 else aOff v.dims ss) :
    ∃ v', v.window off (off + minDataLen (aDims v.dims ss)) (aDims v.dims ss) = .ok v' ∧
      denote v' s = NArr.gather (ss.map ASel.toSel) (denote v s) ∧ WF v' := by
  obtain ⟨hshape, hcore⟩ := gather_core v.dims ss hok
  unfold WF at hwf
  by_cases he : numelD (aDims v.dims ss) = 0
  · rw [if_pos he] at hoff
    subst hoff
    rw [minDataLen_empty _ he]
    refine ⟨⟨v.base + 0, 0 + 0 - 0, aDims v.dims ss⟩, ?_, ?_, ?_⟩
    · unfold View.window; rw [if_pos ⟨by omega, by omega⟩]
    · unfold NArr.gather
      apply denote_refines v _ s (selSrc (ss.map ASel.toSel))
      · exact hshape
      · intro idx h
        exact (hcore idx (hshape ▸ h)).1
      · intro idx h
        exfalso
        have := numel_pos_of_valid (hshape ▸ h : validIdx (sizes (aDims v.dims ss)) idx = true)
        unfold numelD at he
        omega
    · unfold WF
      simp only []
      rw [minDataLen_empty _ he]
      omega
  · rw [if_neg he] at hoff
    subst hoff
    have hm := aOff_minDataLen v.dims ss hok he
    refine ⟨⟨v.base + aOff v.dims ss, aOff v.dims ss + minDataLen (aDims v.dims ss) - aOff v.dims ss,
      aDims v.dims ss⟩, ?_, ?_, ?_⟩
    · unfold View.window; rw [if_pos ⟨by omega, by omega⟩]
    · unfold NArr.gather
      apply denote_refines v _ s (selSrc (ss.map ASel.toSel))
      · exact hshape
      · intro idx h
        exact (hcore idx (hshape ▸ h)).1
      · intro idx h
        show v.base + aOff v.dims ss + _ = _
        rw [Nat.add_assoc, (hcore idx (hshape ▸ h)).2]
    · unfold WF
      simp only []
      omega

end RtenVerif.Layout
