import RtenVerif.Lemmas.OnnxRefPad
/-! Reducing over all axes is the fold of the row-major data (ReduceSum/Prod/Min/Max …). -/
namespace RtenVerif.OnnxRef

theorem allIdx_ones : ∀ r : Nat, allIdx (List.replicate r 1) = [List.replicate r 0]
  | 0 => rfl
  | r + 1 => by
    simp [List.replicate_succ, allIdx, allIdx_ones r, List.range_succ]

theorem zipWith_add_zeros : ∀ (idx : List Nat), List.zipWith (· + ·) (List.replicate idx.length 0) idx = idx
  | [] => rfl
  | i :: is => by simp [List.replicate_succ, zipWith_add_zeros is]

theorem map_range_contains (r : Nat) (A B : Nat → Nat) :
    (List.range r).map (fun k => if (List.range r).contains k then A k else B k) = (List.range r).map A := by
  apply List.map_congr_left
  intro k hk
  have hk' : k < r := List.mem_range.mp hk
  simp only [List.contains_eq_mem, List.mem_range, hk', decide_true, if_true]

theorem map_range_getN (s : List Nat) : (List.range s.length).map (getN s) = s := by
  apply list_ext_getN _ _ (by simp)
  intro k hk
  have hk' : k < s.length := by simpa using hk
  rw [getN_map_range _ _ _ hk']

theorem removeAxes_all (s : List Nat) : removeAxes s (List.range s.length) = [] := by
  unfold removeAxes
  have : (List.range s.length).filter (fun k => !(List.range s.length).contains k) = [] := by
    rw [List.filter_eq_nil_iff]
    intro k hk
    have hk' : k < s.length := List.mem_range.mp hk
    simp [hk']
  rw [this]; rfl

/-- All values reduced into the single output cell, in row-major order, are the tensor's data. -/
theorem reduceVals_all (x : Tensor) (hwf : x.data.length = prod x.shape) :
    reduceVals x (List.range x.rank) (List.replicate x.rank 0) = x.data := by
  unfold reduceVals Tensor.rank
  rw [map_range_contains, map_range_getN]
  have h : (allIdx x.shape).map (fun r => x.get (List.zipWith (· + ·) (List.replicate x.shape.length 0) r))
      = (allIdx x.shape).map x.get := by
    apply List.map_congr_left
    intro idx hm
    have hl : idx.length = x.shape.length := ((validIdx_iff _ _).mp ((mem_allIdx _ _).mp hm)).1
    rw [← hl, zipWith_add_zeros]
  rw [h]
  have := build_get x hwf
  simp only [build] at this
  exact congrArg Tensor.data this

/-- R1. Reduce over all axes (axes omitted) = the fold `f` of the row-major element sequence; the
result has shape `[]`, or `[1, …, 1]` (rank preserved) with `keepdims`. -/
theorem reduce_all (f : List Int → Option Int) (x : Tensor) (v : Int) (keepdims : Bool)
    (hwf : x.data.length = prod x.shape) (hf : f x.data = some v) :
    reduce f x none keepdims false =
      .ok ⟨if keepdims then List.replicate x.rank 1 else [], [v]⟩ := by
  unfold reduce
  simp only [pure_bind, List.isEmpty_nil, Bool.and_false, Bool.false_eq_true, if_false, if_true]
  have hk : (List.range x.rank).map (fun k => if (List.range x.rank).contains k then 1 else getN x.shape k)
      = List.replicate x.rank 1 := by
    rw [map_range_contains]
    apply List.ext_getElem (by simp)
    intro i h1 h2
    simp
  simp only [hk, allIdx_ones, List.map_cons, List.map_nil, reduceVals_all x hwf, hf]
  simp only [List.any_cons, List.any_nil, Option.isNone_some, Bool.or_false, Bool.false_eq_true, if_false,
    Option.getD_some]
  unfold Tensor.rank
  rw [removeAxes_all]
  rfl

end RtenVerif.OnnxRef
