import RtenVerif.Lemmas.ExecutorSim
/-!
# C02 — one executor step refines one naive step

Under the per-operator contract (`run_in_place` = `run` on the re-assembled inputs), a step
of the executor from a state satisfying `Sim` has exactly the outcome of the naive step:
same error class, or the same operator outputs.
-/
namespace RtenVerif.Executor
open RtenVerif.Graph

/-- `full` is `ins` with every taken value put back at its position (`ins` has `none`
there). -/
inductive FillsFrom {V : Type} (taken : List (Nat × V)) :
    Nat → List (Option V) → List (Option V) → Prop
  | nil (pos : Nat) : FillsFrom taken pos [] []
  | keep {pos : Nat} {x : Option V} {xs ys : List (Option V)} :
      (∀ v, (pos, v) ∉ taken) → FillsFrom taken (pos + 1) xs ys →
      FillsFrom taken pos (x :: xs) (x :: ys)
  | put {pos : Nat} {v : V} {xs ys : List (Option V)} :
      (pos, v) ∈ taken → FillsFrom taken (pos + 1) xs ys →
      FillsFrom taken pos (none :: xs) (some v :: ys)

/-- The per-operator contract the executor relies on (discharged operator by operator by
the differential check of C13: `run_in_place` on an owned copy of the designated input, and
for commutative operators on either operand, is bit-identical to `run`). -/
structure Contract {V : Type} (ops : Ops V) (g : Graph) : Prop where
  /-- `in_place_inputs()` is a bit set: no position twice -/
  idxNodup : ∀ i, (ops.inPlaceIdx i).Nodup
  /-- operators with subgraphs (`If`, `Loop`) do not run in place -/
  notSub : ∀ i, ops.inPlaceIdx i ≠ [] → ops.isSubgraph i = false
  /-- `run_in_place` on the taken `(pos, value)`s — distinct positions, each of them a `None`
  placeholder of `ins`, exactly one of them for a commutative operator (the real commutative
  operators call `InPlaceInputs::into_single`) — equals `run` on the list with the values put
  back. -/
  inPlace : ∀ i op, getOp g i = some op → ∀ taken ins full, taken ≠ [] →
    (taken.map (fun t => t.1)).Nodup →
    (∀ p v, (p, v) ∈ taken → ins[p]? = some none) →
    (op.commutative = true → taken.length = 1) →
    (∀ p ∈ taken.map (fun t => t.1), p ∈ ops.inPlaceIdx i ∨ op.commutative = true) →
    FillsFrom taken 0 ins full → ops.runInPlace i taken ins = ops.run i full []

theorem FillsFrom.nil_taken {V : Type} {pos : Nat} {ins full : List (Option V)}
    (h : FillsFrom ([] : List (Nat × V)) pos ins full) : ins = full := by
  induction h with
  | nil => rfl
  | keep _ _ ih => rw [ih]
  | put hm _ _ => simp at hm

/-- Taken positions inside the list are `None` placeholders. -/
theorem FillsFrom.none_at {V : Type} {taken : List (Nat × V)} {pos : Nat} {ins full : List (Option V)}
    (h : FillsFrom taken pos ins full) :
    ∀ k v, (pos + k, v) ∈ taken → k < ins.length → ins[k]? = some none := by
  induction h with
  | nil => intro k v _ hk; simp at hk
  | @keep p0 _ _ _ hkeep _ ih =>
    intro k v hm hk
    cases k with
    | zero => exact absurd hm (hkeep v)
    | succ k =>
      simp only [List.getElem?_cons_succ]
      apply ih k v
      · have : p0 + 1 + k = p0 + (k + 1) := by omega
        rw [this]; exact hm
      · simpa using hk
  | @put p0 _ _ _ _ _ ih =>
    intro k v hm hk
    cases k with
    | zero => rfl
    | succ k =>
      simp only [List.getElem?_cons_succ]
      apply ih k v
      · have : p0 + 1 + k = p0 + (k + 1) := by omega
        rw [this]; exact hm
      · simpa using hk

theorem collectInputs_length {V : Type} (r : Run V) (st : St V) (tp : List Nat) :
    ∀ (l : List (Option Nat)) (pos : Nat) (ins : List (Option V)),
      collectInputs r st tp l pos = some ins → ins.length = l.length := by
  intro l
  induction l with
  | nil => intro pos ins h; simp only [collectInputs, Option.some.injEq] at h; rw [← h]; rfl
  | cons oid rest ih =>
    intro pos ins h
    simp only [collectInputs] at h
    have key : ∀ (x : Option V), Option.map (fun l => x :: l) (collectInputs r st tp rest (pos + 1)) = some ins →
        ins.length = (oid :: rest).length := by
      intro x hx
      cases hc : collectInputs r st tp rest (pos + 1) with
      | none => rw [hc] at hx; simp at hx
      | some tl =>
        rw [hc] at hx
        simp only [Option.map_some, Option.some.injEq] at hx
        rw [← hx]; simp [ih (pos + 1) tl hc]
    split at h
    · exact key none h
    · split at h
      · exact key none h
      · split at h
        · simp at h
        · exact key _ h

/-- The executor's input collection against the naive one. -/
theorem inputs_sim {V : Type} (r : Run V) (lk : Nat → Option V) (st2 : St V)
    (taken : List (Nat × V)) (op : OpNode)
    (HT : ∀ p v, (p, v) ∈ taken → ∃ id, op.inputs[p]? = some (some id) ∧ lk id = some v)
    (HN : ∀ p id, p ∉ taken.map (fun t => t.1) → op.inputs[p]? = some (some id) →
      lookupInput r st2 id = lk id) :
    ∀ (l : List (Option Nat)) (pos : Nat), (∀ k, l[k]? = op.inputs[pos + k]?) →
      match collectInputs r st2 (taken.map (fun t => t.1)) l pos with
      | none => naiveInputs (lk) l = none
      | some ins => ∃ full, naiveInputs (lk) l = some full ∧ FillsFrom taken pos ins full := by
  intro l
  induction l with
  | nil => intro pos _; exact ⟨[], rfl, .nil pos⟩
  | cons oid rest ih =>
    intro pos hl
    have h0 : op.inputs[pos]? = some oid := by have := hl 0; simpa using this.symm
    have hrest : ∀ k, rest[k]? = op.inputs[pos + 1 + k]? := by
      intro k
      have := hl (k + 1)
      simp only [List.getElem?_cons_succ] at this
      rw [this]; congr 1; omega
    have IH := ih (pos + 1) hrest
    simp only [collectInputs]
    by_cases hc : (taken.map (fun t => t.1)).contains pos = true
    · simp only [hc, if_true]
      rw [List.contains_eq_mem, decide_eq_true_eq, List.mem_map] at hc
      obtain ⟨⟨p, v⟩, hm, hp⟩ := hc
      simp only at hp
      subst hp
      obtain ⟨id, hid, hval⟩ := HT p v hm
      rw [h0] at hid
      simp only [Option.some.injEq] at hid
      subst hid
      cases hci : collectInputs r st2 (taken.map (fun t => t.1)) rest (p + 1) with
      | none =>
        rw [hci] at IH
        simp only [Option.map_none]
        simp only [naiveInputs, hval, IH, Option.map_none]
      | some ins =>
        rw [hci] at IH
        obtain ⟨full, hf, hfill⟩ := IH
        simp only [Option.map_some]
        exact ⟨some v :: full, by simp only [naiveInputs, hval, hf, Option.map_some], .put hm hfill⟩
    · simp only [hc, Bool.false_eq_true, if_false]
      have hnot : pos ∉ taken.map (fun t => t.1) := by
        intro hm
        exact hc (by rw [List.contains_eq_mem, decide_eq_true_eq]; exact hm)
      have hkeep : ∀ v, (pos, v) ∉ taken := by
        intro v hm
        exact hnot (List.mem_map.mpr ⟨(pos, v), hm, rfl⟩)
      cases oid with
      | none =>
        cases hci : collectInputs r st2 (taken.map (fun t => t.1)) rest (pos + 1) with
        | none =>
          rw [hci] at IH
          simp only [Option.map_none, naiveInputs, IH]
        | some ins =>
          rw [hci] at IH
          obtain ⟨full, hf, hfill⟩ := IH
          simp only [Option.map_some]
          exact ⟨none :: full, by simp only [naiveInputs, hf, Option.map_some], .keep hkeep hfill⟩
      | some id =>
        have hlk := HN pos id hnot h0
        simp only
        cases hv : lk id with
        | none =>
          rw [hv] at hlk
          simp only [hlk, naiveInputs, hv]
        | some v =>
          rw [hv] at hlk
          simp only [hlk]
          cases hci : collectInputs r st2 (taken.map (fun t => t.1)) rest (pos + 1) with
          | none =>
            rw [hci] at IH
            simp only [Option.map_none, naiveInputs, hv, IH]
          | some ins =>
            rw [hci] at IH
            obtain ⟨full, hf, hfill⟩ := IH
            simp only [Option.map_some]
            exact ⟨some v :: full, by simp only [naiveInputs, hv, hf, Option.map_some],
              .keep hkeep hfill⟩

/-! ## Taking the candidates never fails -/

theorem takeAll_succeeds {V : Type} (r : Run V) (st : St V) (cs : List (Nat × Nat))
    (h : ∀ c ∈ cs, st.rc c.2 = 1 ∧ st.temps c.2 ≠ none) (hnd : (cs.map (fun c => c.2)).Nodup) :
    takeAll r st cs ≠ none := by
  induction cs generalizing st with
  | nil => simp [takeAll]
  | cons c cs ih =>
    obtain ⟨pos, id⟩ := c
    obtain ⟨hrc, hne⟩ := h (pos, id) List.mem_cons_self
    simp only at hrc hne
    cases ht : st.temps id with
    | none => exact absurd ht hne
    | some v =>
      have htv : takeValue r st id = ({ st with temps := upd st.temps id none }, some v) := by
        simp [takeValue, hrc, ht]
      simp only [takeAll, htv]
      simp only [List.map_cons, List.nodup_cons] at hnd
      have := ih { st with temps := upd st.temps id none } (by
        intro c hc
        obtain ⟨h1, h2⟩ := h c (List.mem_cons_of_mem _ hc)
        refine ⟨h1, ?_⟩
        have hne' : c.2 ≠ id := by
          rintro heq
          exact hnd.1 (List.mem_map.mpr ⟨c, hc, heq⟩)
        simpa [upd_apply, hne'] using h2) hnd.2
      cases hta : takeAll r { st with temps := upd st.temps id none } cs with
      | none => exact absurd hta this
      | some p => simp

theorem nodup_snd_of_fst {l : List (Nat × Nat)} (h1 : (l.map (fun c => c.1)).Nodup)
    (h2 : ∀ a ∈ l, ∀ b ∈ l, a.2 = b.2 → a.1 = b.1) : (l.map (fun c => c.2)).Nodup := by
  induction l with
  | nil => simp
  | cons a l ih =>
    simp only [List.map_cons, List.nodup_cons] at h1 ⊢
    refine ⟨?_, ih h1.2 (fun x hx y hy => h2 x (List.mem_cons_of_mem _ hx) y (List.mem_cons_of_mem _ hy))⟩
    intro hm
    rw [List.mem_map] at hm
    obtain ⟨b, hb, hbe⟩ := hm
    have := h2 a List.mem_cons_self b (List.mem_cons_of_mem _ hb) hbe.symm
    exact h1.1 (List.mem_map.mpr ⟨b, hb, this.symm⟩)

theorem filterMap_fst_nodup {idx : List Nat} (f : Nat → Option (Nat × Nat))
    (hf : ∀ pos c, f pos = some c → c.1 = pos) (h : idx.Nodup) :
    ((idx.filterMap f).map (fun c => c.1)).Nodup := by
  induction idx with
  | nil => simp
  | cons p idx ih =>
    simp only [List.nodup_cons] at h
    simp only [List.filterMap_cons]
    cases hp : f p with
    | none => exact ih h.2
    | some c =>
      simp only [List.map_cons, List.nodup_cons]
      refine ⟨?_, ih h.2⟩
      intro hm
      rw [List.mem_map] at hm
      obtain ⟨d, hd, hde⟩ := hm
      rw [List.mem_filterMap] at hd
      obtain ⟨q, hq, hfq⟩ := hd
      have := hf q d hfq
      have h2 := hf p c hp
      rw [h2] at hde
      rw [← this, hde] at hq
      exact h.1 hq

theorem candidates_comm_length {V : Type} {ops : Ops V} (i : Nat) (op : OpNode) (temps : Nat → Option V)
    (h : op.commutative = true) : (candidates ops i op temps).length ≤ 1 := by
  unfold candidates
  split
  · simp
  · split <;> simp

theorem candidates_fst_nodup {V : Type} {ops : Ops V} (i : Nat) (op : OpNode) (temps : Nat → Option V)
    (h : (ops.inPlaceIdx i).Nodup) : ((candidates ops i op temps).map (fun c => c.1)).Nodup := by
  unfold candidates
  split
  · simp
  · split
    · split <;> simp
    · apply filterMap_fst_nodup _ _ h
      intro pos c hc
      split at hc
      · simp only [Option.some.injEq] at hc; rw [← hc]
      · simp at hc

/-- Counts are exact: an id with count 1 that sits in `temp_values` occurs at most once among
the dependencies of the operator about to run. -/
theorem Sim.count_le_one {V : Type} {r : Run V} {caps0 : Nat → Option (V × Bool)} {total : Nat → Nat}
    {i : Nat} {rest outs : List Nat}
    {st : St V} {E : Nat → Option V} (hs : Sim r caps0 total (i :: rest) outs st E) {op : OpNode}
    (hop : getOp r.g i = some op) {d : Nat} (hrc : st.rc d = 1) (hne : st.temps d ≠ none) :
    (opDeps r.g op).count d ≤ 1 := by
  cases ht : st.temps d with
  | none => exact absurd ht hne
  | some x =>
    have hv := (hs.agree d x ht).1
    obtain ⟨h1, _⟩ := hs.rc d hv
    rw [hrc, uses_cons hop rest outs d hv] at h1
    split at h1 <;> omega

end RtenVerif.Executor
