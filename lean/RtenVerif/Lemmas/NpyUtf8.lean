import RtenVerif.Model.Npy

/-!
# The UTF-8 validator of the model accepts exactly the well-formed UTF-8 byte sequences

`rten-serialize` itself does not implement UTF-8 validation: `read_header` calls
`std::str::from_utf8` on the header bytes. The model needs *some* definition of that call; it uses
`validUtf8` (the Unicode Table 3-7 automaton) and the harness ties it to `from_utf8` on boundary
heavy byte strings. Here `validUtf8` is proved equal to the definition of well-formedness:
a byte string is accepted iff it is the concatenation of the UTF-8 encodings of Unicode scalar
values (`0..0xD7FF`, `0xE000..0x10FFFF`).
-/
namespace RtenVerif.Npy

/-- Unicode scalar value: a code point that is not a surrogate. -/
def isScalar (c : Nat) : Prop := c < 0xD800 ∨ (0xE000 ≤ c ∧ c < 0x110000)

/-- UTF-8 encoding of a scalar value (Unicode Table 3-6). -/
def encodeScalar (c : Nat) : List Nat :=
  if c < 0x80 then [c]
  else if c < 0x800 then [192 + c / 64, 128 + c % 64]
  else if c < 0x10000 then [224 + c / 4096, 128 + c / 64 % 64, 128 + c % 64]
  else [240 + c / 262144, 128 + c / 4096 % 64, 128 + c / 64 % 64, 128 + c % 64]

theorem encodeScalar_ne_nil (c : Nat) : encodeScalar c ≠ [] := by
  unfold encodeScalar; split
  · simp
  · split
    · simp
    · split <;> simp

/-- Prepending the encoding of a scalar value does not change the verdict. -/
theorem validUtf8_encode_append (c : Nat) (rest : List Nat) (h : isScalar c) :
    validUtf8 (encodeScalar c ++ rest) = validUtf8 rest := by
  unfold isScalar at h
  unfold encodeScalar
  by_cases h1 : c < 0x80
  · simp only [h1, if_true, List.singleton_append]
    conv => lhs; unfold validUtf8
    simp [show c < 128 from h1]
  · by_cases h2 : c < 0x800
    · simp only [h1, h2, if_true, if_false, List.cons_append, List.nil_append]
      conv => lhs; unfold validUtf8
      have a1 : ¬ (192 + c / 64 < 128) := by omega
      have a2 : 194 ≤ 192 + c / 64 := by omega
      have a3 : 192 + c / 64 ≤ 223 := by omega
      have a4 : 128 ≤ 128 + c % 64 := by omega
      have a5 : 128 + c % 64 ≤ 191 := by omega
      simp [a1, a2, a3, isCont, a5]
    · by_cases h3 : c < 0x10000
      · simp only [h1, h2, h3, if_true, if_false, List.cons_append, List.nil_append]
        conv => lhs; unfold validUtf8
        have a1 : ¬ (224 + c / 4096 < 128) := by omega
        have a2 : ¬ (224 + c / 4096 ≤ 223) := by omega
        have a3 : 224 ≤ 224 + c / 4096 := by omega
        have a4 : 224 + c / 4096 ≤ 239 := by omega
        have a5 : 128 + c / 64 % 64 ≤ 191 := by omega
        have a6 : 128 + c % 64 ≤ 191 := by omega
        by_cases e0 : c / 4096 = 0
        · have b1 : 160 ≤ 128 + c / 64 % 64 := by omega
          simp [a1, a2, a4, isCont, a5, a6, e0, b1]
        · by_cases e13 : c / 4096 = 13
          · have b1 : 128 + c / 64 % 64 ≤ 159 := by omega
            simp [a1, a2, a4, isCont, a6, e13, b1]
          · have n0 : ¬ (224 + c / 4096 = 224) := by omega
            have n13 : ¬ (224 + c / 4096 = 237) := by omega
            have m1 : 4096 ≤ c := by omega
            simp [a1, a2, a4, isCont, a5, a6, n0, n13, m1, e0, e13]
      · simp only [h1, h2, h3, if_false, List.cons_append, List.nil_append]
        conv => lhs; unfold validUtf8
        have a1 : ¬ (240 + c / 262144 < 128) := by omega
        have a2 : ¬ (240 + c / 262144 ≤ 223) := by omega
        have a3 : ¬ (240 + c / 262144 ≤ 239) := by omega
        have a4 : 240 + c / 262144 ≤ 244 := by omega
        have a5 : 128 + c / 4096 % 64 ≤ 191 := by omega
        have a6 : 128 + c / 64 % 64 ≤ 191 := by omega
        have a7 : 128 + c % 64 ≤ 191 := by omega
        by_cases e0 : c / 262144 = 0
        · have b1 : 144 ≤ 128 + c / 4096 % 64 := by omega
          simp [a1, a2, a3, isCont, a5, a6, a7, e0, b1]
        · by_cases e4 : c / 262144 = 4
          · have b1 : 128 + c / 4096 % 64 ≤ 143 := by omega
            simp [a1, a2, a3, isCont, a6, a7, e4, b1]
          · have n0 : ¬ (240 + c / 262144 = 240) := by omega
            have n4 : ¬ (240 + c / 262144 = 244) := by omega
            have m1 : 262144 ≤ c := by omega
            have m2 : ¬ (c / 262144 = 4) := e4
            simp [a1, a2, a3, a4, isCont, a5, a6, a7, n0, n4, m1, m2, e0]

/-- **Completeness**: every concatenation of encodings of scalar values is accepted. -/
theorem validUtf8_of_scalars (cs : List Nat) (h : ∀ c ∈ cs, isScalar c) :
    validUtf8 (cs.map encodeScalar).flatten = true := by
  induction cs with
  | nil => rfl
  | cons c cs ih =>
    simp only [List.map_cons, List.flatten_cons]
    rw [validUtf8_encode_append c _ (h c (by simp))]
    exact ih (fun x hx => h x (by simp [hx]))

/-- One decoding step: an accepted non-empty string starts with the encoding of a scalar value
and the remainder is accepted. -/
theorem validUtf8_step (b0 : Nat) (rest : List Nat) (h : validUtf8 (b0 :: rest) = true) :
    ∃ c tl, isScalar c ∧ b0 :: rest = encodeScalar c ++ tl ∧ validUtf8 tl = true := by
  unfold validUtf8 at h
  by_cases hb : b0 < 128
  · simp only [hb, if_true] at h
    exact ⟨b0, rest, Or.inl (by omega), by simp [encodeScalar, show b0 < 128 from hb], h⟩
  · simp only [hb, if_false] at h
    cases rest with
    | nil => simp at h
    | cons b1 rest1 =>
      simp only at h
      by_cases h2 : 194 ≤ b0 ∧ b0 ≤ 223
      · simp only [h2.1, h2.2, decide_true, Bool.and_self, if_true, Bool.and_eq_true, isCont,
          decide_eq_true_eq] at h
        obtain ⟨⟨c1, c2⟩, hv⟩ := h
        refine ⟨(b0 - 192) * 64 + (b1 - 128), rest1, Or.inl (by omega), ?_, hv⟩
        have x1 : ¬ ((b0 - 192) * 64 + (b1 - 128) < 128) := by omega
        have x2 : (b0 - 192) * 64 + (b1 - 128) < 2048 := by omega
        simp only [encodeScalar, x1, x2, if_true, if_false, List.cons_append, List.nil_append,
          List.cons.injEq, and_true]
        constructor <;> omega
      · have h2' : (decide (194 ≤ b0) && decide (b0 ≤ 223)) = false := by
          simp only [Bool.and_eq_false_iff, decide_eq_false_iff_not]
          by_cases q : 194 ≤ b0
          · exact Or.inr (fun q2 => h2 ⟨q, q2⟩)
          · exact Or.inl q
        simp only [h2', Bool.false_eq_true, if_false] at h
        cases rest1 with
        | nil => simp at h
        | cons b2 rest2 =>
          simp only at h
          by_cases h3 : 224 ≤ b0 ∧ b0 ≤ 239
          · simp only [h3.1, h3.2, decide_true, Bool.and_self, if_true, Bool.and_eq_true, isCont,
              decide_eq_true_eq] at h
            obtain ⟨⟨hc1, c3, c4⟩, hv⟩ := h
            have hb1 : 128 ≤ b1 ∧ b1 ≤ 191 ∧ (b0 = 224 → 160 ≤ b1) ∧ (b0 = 237 → b1 ≤ 159) := by
              by_cases e0 : b0 = 224
              · simp [e0] at hc1; omega
              · by_cases e13 : b0 = 237
                · simp [e13] at hc1; omega
                · simp [e0, e13] at hc1; omega
            refine ⟨(b0 - 224) * 4096 + (b1 - 128) * 64 + (b2 - 128), rest2, ?_, ?_, hv⟩
            · unfold isScalar; omega
            · have x1 : ¬ ((b0 - 224) * 4096 + (b1 - 128) * 64 + (b2 - 128) < 128) := by omega
              have x2 : ¬ ((b0 - 224) * 4096 + (b1 - 128) * 64 + (b2 - 128) < 2048) := by omega
              have x3 : (b0 - 224) * 4096 + (b1 - 128) * 64 + (b2 - 128) < 65536 := by omega
              simp only [encodeScalar, x1, x2, x3, if_true, if_false, List.cons_append,
                List.nil_append, List.cons.injEq, and_true]
              refine ⟨?_, ?_, ?_⟩ <;> omega
          · have h3' : (decide (224 ≤ b0) && decide (b0 ≤ 239)) = false := by
              simp only [Bool.and_eq_false_iff, decide_eq_false_iff_not]
              by_cases q : 224 ≤ b0
              · exact Or.inr (fun q2 => h3 ⟨q, q2⟩)
              · exact Or.inl q
            simp only [h3', Bool.false_eq_true, if_false] at h
            cases rest2 with
            | nil => simp at h
            | cons b3 rest3 =>
              simp only at h
              by_cases h4 : 240 ≤ b0 ∧ b0 ≤ 244
              · simp only [h4.1, h4.2, decide_true, Bool.and_self, if_true, Bool.and_eq_true, isCont,
                  decide_eq_true_eq] at h
                obtain ⟨⟨⟨hc1, c3, c4⟩, c5, c6⟩, hv⟩ := h
                have hb1 : 128 ≤ b1 ∧ b1 ≤ 191 ∧ (b0 = 240 → 144 ≤ b1) ∧ (b0 = 244 → b1 ≤ 143) := by
                  by_cases e0 : b0 = 240
                  · simp [e0] at hc1; omega
                  · by_cases e4 : b0 = 244
                    · simp [e4] at hc1; omega
                    · simp [e0, e4] at hc1; omega
                refine ⟨(b0 - 240) * 262144 + (b1 - 128) * 4096 + (b2 - 128) * 64 + (b3 - 128), rest3,
                  ?_, ?_, hv⟩
                · unfold isScalar; omega
                · have x1 : ¬ ((b0 - 240) * 262144 + (b1 - 128) * 4096 + (b2 - 128) * 64 + (b3 - 128) < 128) := by omega
                  have x2 : ¬ ((b0 - 240) * 262144 + (b1 - 128) * 4096 + (b2 - 128) * 64 + (b3 - 128) < 2048) := by omega
                  have x3 : ¬ ((b0 - 240) * 262144 + (b1 - 128) * 4096 + (b2 - 128) * 64 + (b3 - 128) < 65536) := by omega
                  simp only [encodeScalar, x1, x2, x3, if_false, List.cons_append,
                    List.nil_append, List.cons.injEq, and_true]
                  refine ⟨?_, ?_, ?_, ?_⟩ <;> omega
              · have h4' : (decide (240 ≤ b0) && decide (b0 ≤ 244)) = false := by
                  simp only [Bool.and_eq_false_iff, decide_eq_false_iff_not]
                  by_cases q : 240 ≤ b0
                  · exact Or.inr (fun q2 => h4 ⟨q, q2⟩)
                  · exact Or.inl q
                simp [h4'] at h

theorem scalars_of_validUtf8_aux (n : Nat) : ∀ bs : List Nat, bs.length ≤ n → validUtf8 bs = true →
    ∃ cs : List Nat, (∀ c ∈ cs, isScalar c) ∧ bs = (cs.map encodeScalar).flatten := by
  induction n with
  | zero =>
    intro bs hl _
    cases bs with
    | nil => exact ⟨[], by simp, rfl⟩
    | cons b t => simp at hl
  | succ n ih =>
    intro bs hl h
    cases bs with
    | nil => exact ⟨[], by simp, rfl⟩
    | cons b0 rest =>
      obtain ⟨c, tl, hc, heq, hv⟩ := validUtf8_step b0 rest h
      have hlen : tl.length ≤ n := by
        have := congrArg List.length heq
        have hne := encodeScalar_ne_nil c
        cases he : encodeScalar c with
        | nil => exact absurd he hne
        | cons x xs => rw [he] at this; simp at this hl; omega
      obtain ⟨cs, hcs, htl⟩ := ih tl hlen hv
      refine ⟨c :: cs, ?_, ?_⟩
      · intro x hx
        rcases List.mem_cons.mp hx with rfl | hx
        · exact hc
        · exact hcs x hx
      · rw [heq, htl]; simp

/-- **Soundness**: an accepted byte string decodes to scalar values whose encoding is the input. -/
theorem scalars_of_validUtf8 (bs : List Nat) (h : validUtf8 bs = true) :
    ∃ cs : List Nat, (∀ c ∈ cs, isScalar c) ∧ bs = (cs.map encodeScalar).flatten :=
  scalars_of_validUtf8_aux bs.length bs (Nat.le_refl _) h

/-! ## What the crate relies on: slicing validated text at ASCII quotes

`parse_string` re-validates `bytes[start..pos]` (the text between two `'`) with `from_utf8` and
`parse_descr` slices `descr[2..]` after two ASCII characters. Splitting well-formed UTF-8 at an
ASCII byte yields well-formed pieces, so the inner `from_utf8` of `parse_string` cannot fail. -/

theorem encodeScalar_shape (c : Nat) (hc : isScalar c) :
    ∃ h t, encodeScalar c = h :: t ∧ ∀ x ∈ t, 128 ≤ x := by
  unfold encodeScalar
  split
  · exact ⟨_, [], rfl, by simp⟩
  · split
    · exact ⟨_, _, rfl, by simp⟩
    · split
      · refine ⟨_, _, rfl, ?_⟩
        intro x hx; simp at hx; omega
      · refine ⟨_, _, rfl, ?_⟩
        intro x hx; simp at hx; omega

theorem split_at_quote (xs : List Nat) : ∀ (tl a b : List Nat), xs ++ tl = a ++ 39 :: b →
    (∀ x ∈ xs, 128 ≤ x) → ∃ a', a = xs ++ a' ∧ tl = a' ++ 39 :: b := by
  induction xs with
  | nil => intro tl a b h _; exact ⟨a, rfl, by simpa using h⟩
  | cons x xs ih =>
    intro tl a b h hx
    cases a with
    | nil =>
      simp at h
      have := hx x (by simp)
      omega
    | cons a0 a1 =>
      simp only [List.cons_append, List.cons.injEq] at h
      obtain ⟨a', ha, htl⟩ := ih tl a1 b h.2 (fun y hy => hx y (by simp [hy]))
      exact ⟨a', by rw [h.1, ha]; rfl, htl⟩

theorem validUtf8_split_quote_aux (n : Nat) : ∀ a b : List Nat, a.length ≤ n →
    validUtf8 (a ++ 39 :: b) = true → validUtf8 a = true ∧ validUtf8 b = true := by
  induction n with
  | zero =>
    intro a b hl h
    cases a with
    | nil =>
      simp only [List.nil_append] at h
      unfold validUtf8 at h
      simp at h
      exact ⟨rfl, h⟩
    | cons _ _ => simp at hl
  | succ n ih =>
    intro a b hl h
    cases a with
    | nil =>
      simp only [List.nil_append] at h
      unfold validUtf8 at h
      simp at h
      exact ⟨rfl, h⟩
    | cons a0 a1 =>
      simp only [List.cons_append] at h
      obtain ⟨c, tl, hc, heq, hv⟩ := validUtf8_step a0 (a1 ++ 39 :: b) h
      obtain ⟨e0, et, he, hcont⟩ := encodeScalar_shape c hc
      rw [he] at heq
      simp only [List.cons_append, List.cons.injEq] at heq
      obtain ⟨a', ha, htl⟩ := split_at_quote et tl a1 b heq.2.symm hcont
      have hlen : a'.length ≤ n := by
        have := congrArg List.length ha
        simp at this hl; omega
      rw [htl] at hv
      obtain ⟨h1, h2⟩ := ih a' b hlen hv
      refine ⟨?_, h2⟩
      have : a0 :: a1 = encodeScalar c ++ a' := by rw [he, heq.1, ha]; rfl
      rw [this, validUtf8_encode_append c a' hc]
      exact h1

/-- Splitting well-formed UTF-8 at a `'` gives well-formed pieces; in particular the text between
two quotes of a validated header is well-formed, whatever precedes and follows. -/
theorem validUtf8_between_quotes (pre s rest : List Nat)
    (h : validUtf8 (pre ++ 39 :: (s ++ 39 :: rest)) = true) : validUtf8 s = true := by
  have h1 := (validUtf8_split_quote_aux pre.length pre _ (Nat.le_refl _) h).2
  exact (validUtf8_split_quote_aux s.length s rest (Nat.le_refl _) h1).1

end RtenVerif.Npy
