import RtenVerif.Model.Pattern

/-!
# C01 / T4 — matcher soundness: a successful match is an embedding of the pattern

`embeds g fuel p v σ` is the specification: pattern `p` (of depth ≤ `fuel`) is embedded in the graph
at node `v` under the binding `σ`:
* a symbol is bound by `σ` to exactly `v` (so equal symbols ⇒ equal value ids), `v` is a value or
  constant, and a `const_symbol` is a constant;
* a constant pattern sits on a constant node accepted by `constMatches` (exactly one element, float,
  within the stated tolerance);
* `anyOf` embeds one alternative;
* an operator pattern sits on an operator node (`v` itself or the producer of value `v`) of the same
  type and arity, a named pattern's key is bound by `σ` to that one operator, and the operand
  patterns are embedded at the operands — positionally, or swapped for a commutative operator, or,
  for an associative+commutative operator, the flattened operand patterns at pairwise distinct
  operands of the flattened operand chain (`SetE`: an injective assignment, i.e. a permutation since
  the lengths agree).
`matchPat_sound`: whatever `matchPat` returns is such an embedding and extends the bindings it
started from (needs `strictKeys`, the 9f07d3a fix; `C01Fusions.lean` has the witness without it).
-/
namespace RtenVerif.Pattern

/-- `s'` extends `s`: every lookup that succeeds in `s` gives the same answer in `s'`. -/
def Ext (s s' : Syms) : Prop := ∀ n v, s.find n = some v → s'.find n = some v

theorem Ext.refl (s : Syms) : Ext s s := fun _ _ h => h
theorem Ext.trans {a b c : Syms} (h1 : Ext a b) (h2 : Ext b c) : Ext a c := fun n v h => h2 n v (h1 n v h)

theorem find_append_left {s t : Syms} {n : String} {v : Nat} (h : s.find n = some v) : (s ++ t).find n = some v := by
  unfold Syms.find at *
  rw [List.find?_append]
  cases hx : s.find? (fun x => x.1 == n) with
  | none => simp [hx] at h
  | some x => simpa [hx] using h

theorem find_append_new {s : Syms} {n : String} {v : Nat} (h : s.find n = none) : (s ++ [(n, v)]).find n = some v := by
  unfold Syms.find at *
  rw [List.find?_append]
  cases hx : s.find? (fun x => x.1 == n) with
  | none => simp [List.find?]
  | some x => simp [hx] at h

theorem ext_append (s t : Syms) : Ext s (s ++ t) := fun _ _ h => find_append_left h

/-! ## specification -/

def ZipE (R : Pat → Nat → Syms → Prop) : List Pat → List (Option Nat) → Syms → Prop
  | [], [], _ => True
  | p :: ps, some i :: is, σ => R p i σ ∧ ZipE R ps is σ
  | _, _, _ => False

/-- patterns assigned to pairwise distinct entries (`idx ∉ used`, then marked used) of `nodes` -/
def SetE (R : Pat → Nat → Syms → Prop) : List Pat → List (Nat × Nat) → List (Nat × Nat) → List Nat → Syms → Prop
  | [], [], _, _, _ => True
  | p :: ps, x :: xs, nodes, used, σ => x ∈ nodes ∧ x.1 ∉ used ∧ R p x.2 σ ∧ SetE R ps xs nodes (x.1 :: used) σ
  | _, _, _, _, _ => False

def OperandsE (g : GView) (R : Pat → Nat → Syms → Prop) (name : String) (pins : List Pat) (o : OpNode) (σ : Syms) : Prop :=
  ZipE R pins o.ins σ ∨
  (commutative o.ty = true ∧ ∃ pa pb ia ib, pins = [pa, pb] ∧ o.ins = [some ia, some ib] ∧ R pb ia σ ∧ R pa ib σ) ∨
  (associative o.ty = true ∧ commutative o.ty = true ∧ ∃ a b sel, o.ins = [some a, some b] ∧
    SetE R (pins.flatMap (flattenPat name 32)) sel
      ((List.range (flattenGraph g name 32 a ++ flattenGraph g name 32 b).length).zip
        (flattenGraph g name 32 a ++ flattenGraph g name 32 b)) [] σ)

/-- the operands of `o` paired with their positions -/
def enumIns (o : OpNode) : List (Nat × Option Nat) := (List.range o.ins.length).zip o.ins

/-- Rank condition at one operator: every single-element constant operand of positive rank has a
co-operand (another position) whose known rank is at least the constant's rank — so broadcasting the
constant cannot add dimensions to the operator's output (`c01_scalar_const_keeps_shape`). -/
def OpRankOK (g : GView) (rank : Nat → Option Nat) (o : OpNode) : Prop :=
  ∀ i w c, (i, some w) ∈ enumIns o → g.const? w = some c → c.shape.foldl (· * ·) 1 = 1 → 0 < c.shape.length →
    ∃ j other r, (j, some other) ∈ enumIns o ∧ j ≠ i ∧ rank other = some r ∧ c.shape.length ≤ r

/-- Rank clause of an operator pattern: if a constant pattern occurs among the (flattened) operand
patterns, the rank condition holds at the operator and — for an associative+commutative chain — at
every inner operator of the chain, i.e. at every possible consumer of a matched constant
(`flattenGraph_consumer`). -/
def RankClause (g : GView) (rank : Nat → Option Nat) (name : String) (pins : List Pat) (o : OpNode) : Prop :=
  ((associative o.ty && commutative o.ty && pins.length == 2) = true →
      (∃ p, p ∈ pins.flatMap (flattenPat name 32) ∧ isConstPat p = true) →
      ∀ c, c ∈ chainOps g name 32 o → OpRankOK g rank c) ∧
  ((associative o.ty && commutative o.ty && pins.length == 2) = false →
      (∃ p, p ∈ pins ∧ isConstPat p = true) → OpRankOK g rank o)

def embeds (g : GView) (cfg : MatchCfg) : Nat → Pat → Nat → Syms → Prop
  | 0, _, _, _ => False
  | fuel + 1, p, v, σ =>
    match p with
    | .sym name isC =>
      σ.find name = some v ∧ ((g.const? v).isSome = true ∨ g.values.contains v = true) ∧
        (isC = true → (g.const? v).isSome = true)
    | .const bits exact => ∃ c, g.const? v = some c ∧ constMatches c bits exact = true
    | .anyOf ps => ∃ q, q ∈ ps ∧ embeds g cfg fuel q v σ
    | .op name pins key =>
      ∃ o, (g.opById v = some o ∨ (g.values.contains v = true ∧ g.source v = some o)) ∧
        o.ty = name ∧ pins.length = o.ins.length ∧ (∀ k, key = some k → σ.find k = some o.oid) ∧
        (cfg.rankGuard = true → RankClause g cfg.rank name pins o) ∧
        OperandsE g (embeds g cfg fuel) name pins o σ

/-! ## monotonicity in the binding -/

theorem ZipE_mono {R : Pat → Nat → Syms → Prop} (hR : ∀ p v s s', Ext s s' → R p v s → R p v s')
    {s s' : Syms} (h : Ext s s') : ∀ (ps : List Pat) (is : List (Option Nat)), ZipE R ps is s → ZipE R ps is s' := by
  intro ps
  induction ps with
  | nil => intro is hz; cases is <;> simpa [ZipE] using hz
  | cons p ps ih =>
    intro is hz
    cases is with
    | nil => simp [ZipE] at hz
    | cons i is =>
      cases i with
      | none => simp [ZipE] at hz
      | some i => exact ⟨hR p i s s' h hz.1, ih is hz.2⟩

theorem SetE_mono {R : Pat → Nat → Syms → Prop} (hR : ∀ p v s s', Ext s s' → R p v s → R p v s')
    {s s' : Syms} (h : Ext s s') : ∀ (ps : List Pat) (xs nodes : List (Nat × Nat)) (used : List Nat),
      SetE R ps xs nodes used s → SetE R ps xs nodes used s' := by
  intro ps
  induction ps with
  | nil => intro xs nodes used hz; cases xs <;> simpa [SetE] using hz
  | cons p ps ih =>
    intro xs nodes used hz
    cases xs with
    | nil => simp [SetE] at hz
    | cons x xs =>
      obtain ⟨h1, h2, h3, h4⟩ := hz
      exact ⟨h1, h2, hR p x.2 s s' h h3, ih xs nodes (x.1 :: used) h4⟩

theorem OperandsE_mono (g : GView) {R : Pat → Nat → Syms → Prop}
    (hR : ∀ p v s s', Ext s s' → R p v s → R p v s') {s s' : Syms} (h : Ext s s')
    (name : String) (pins : List Pat) (o : OpNode) (ho : OperandsE g R name pins o s) :
    OperandsE g R name pins o s' := by
  rcases ho with hz | ⟨hc, pa, pb, ia, ib, e1, e2, r1, r2⟩ | ⟨ha, hc, a, b, sel, e, hs⟩
  · exact Or.inl (ZipE_mono hR h pins o.ins hz)
  · exact Or.inr (Or.inl ⟨hc, pa, pb, ia, ib, e1, e2, hR _ _ _ _ h r1, hR _ _ _ _ h r2⟩)
  · exact Or.inr (Or.inr ⟨ha, hc, a, b, sel, e, SetE_mono hR h _ _ _ _ hs⟩)

theorem embeds_mono (g : GView) (cfg : MatchCfg) : ∀ (fuel : Nat) (p : Pat) (v : Nat) (s s' : Syms),
    Ext s s' → embeds g cfg fuel p v s → embeds g cfg fuel p v s' := by
  intro fuel
  induction fuel with
  | zero => intro p v s s' _ h; exact h.elim
  | succ fuel ih =>
    intro p v s s' hx h
    cases p with
    | sym name isC =>
      simp only [embeds] at h ⊢
      exact ⟨hx _ _ h.1, h.2⟩
    | const bits exact => simpa [embeds] using h
    | anyOf ps =>
      simp only [embeds] at h ⊢
      obtain ⟨q, hq, he⟩ := h
      exact ⟨q, hq, ih q v s s' hx he⟩
    | op name pins key =>
      simp only [embeds] at h ⊢
      obtain ⟨o, h1, h2, h3, h4, hrk, h5⟩ := h
      exact ⟨o, h1, h2, h3, fun k hk => hx _ _ (h4 k hk), hrk, OperandsE_mono g ih hx name pins o h5⟩

/-! ## soundness of the pieces -/

section
variable (f : Pat → Nat → Syms → Option Syms) (R : Pat → Nat → Syms → Prop)
variable (hf : ∀ p v s s', f p v s = some s' → Ext s s' ∧ R p v s')
variable (hR : ∀ p v s s', Ext s s' → R p v s → R p v s')
include hf hR

theorem matchZip_sound : ∀ (ps : List Pat) (is : List (Option Nat)) (s s' : Syms),
    matchZip f ps is s = some s' → Ext s s' ∧ ZipE R ps is s' := by
  intro ps
  induction ps with
  | nil =>
    intro is s s' h
    cases is with
    | nil => simp [matchZip] at h; subst h; exact ⟨Ext.refl _, trivial⟩
    | cons i is => simp [matchZip] at h
  | cons p ps ih =>
    intro is s s' h
    cases is with
    | nil => simp [matchZip] at h
    | cons i is =>
      cases i with
      | none => simp [matchZip] at h
      | some i =>
        simp only [matchZip] at h
        cases h1 : f p i s with
        | none => simp [h1] at h
        | some s1 =>
          simp only [h1, Option.bind_some] at h
          obtain ⟨e1, r1⟩ := hf p i s s1 h1
          obtain ⟨e2, z2⟩ := ih is s1 s' h
          exact ⟨e1.trans e2, hR p i s1 s' e2 r1, z2⟩

theorem matchSet_sound : ∀ (ps : List Pat) (nodes : List (Nat × Nat)) (used : List Nat) (s s' : Syms),
    matchSet f ps nodes used s = some s' → Ext s s' ∧ ∃ sel, SetE R ps sel nodes used s' := by
  intro ps
  induction ps with
  | nil =>
    intro nodes used s s' h
    simp [matchSet] at h; subst h
    exact ⟨Ext.refl _, [], trivial⟩
  | cons p ps ih =>
    intro nodes used s s' h
    simp only [matchSet] at h
    obtain ⟨x, hx, hfx⟩ := List.exists_of_findSome?_eq_some h
    by_cases hu : used.contains x.1 = true
    · rw [if_pos hu] at hfx; cases hfx
    · rw [if_neg hu] at hfx
      cases h1 : f p x.2 s with
      | none => simp [h1] at hfx
      | some s1 =>
        simp only [h1, Option.bind_some] at hfx
        obtain ⟨e1, r1⟩ := hf p x.2 s s1 h1
        obtain ⟨e2, sel, z2⟩ := ih nodes (x.1 :: used) s1 s' (by simpa using hfx)
        refine ⟨e1.trans e2, x :: sel, hx, ?_, hR p x.2 s1 s' e2 r1, z2⟩
        simpa using hu

theorem strictMatch_sound (g : GView) (name : String) (pins : List Pat) (o : OpNode) (s s' : Syms)
    (h : strictMatch f pins o s = some s') : Ext s s' ∧ OperandsE g R name pins o s' := by
  unfold strictMatch at h
  split at h
  · rename_i pa pb ia ib hc hi
    cases h1 : (f pa ia s).bind (f pb ib) with
    | some s1 =>
      simp only [h1] at h
      have e0 : s1 = s' := by injection h
      subst e0
      cases h2 : f pa ia s with
      | none => simp [h2] at h1
      | some sa =>
        simp only [h2, Option.bind_some] at h1
        obtain ⟨e1, r1⟩ := hf pa ia s sa h2
        obtain ⟨e2, r2⟩ := hf pb ib sa s1 h1
        refine ⟨e1.trans e2, Or.inl ?_⟩
        rw [hi]
        exact ⟨hR pa ia sa s1 e2 r1, r2, trivial⟩
    | none =>
      simp only [h1] at h
      cases h2 : f pb ia s with
      | none => simp [h2] at h
      | some sa =>
        simp only [h2, Option.bind_some] at h
        obtain ⟨e1, r1⟩ := hf pb ia s sa h2
        obtain ⟨e2, r2⟩ := hf pa ib sa s' h
        exact ⟨e1.trans e2, Or.inr (Or.inl ⟨hc, pa, pb, ia, ib, rfl, hi, hR pb ia sa s' e2 r1, r2⟩)⟩
  · obtain ⟨e, z⟩ := matchZip_sound f R hf hR _ _ s s' h
    exact ⟨e, Or.inl z⟩

theorem chainMatch_sound (g : GView) (name : String) (pins : List Pat) (o : OpNode) (s s' : Syms)
    (h : chainMatch g f name pins o s = some s') : Ext s s' ∧ OperandsE g R name pins o s' := by
  unfold chainMatch at h
  split at h
  · rename_i hac
    split at h
    · split at h
      · rename_i a b hi
        split at h
        · obtain ⟨e, sel, z⟩ := matchSet_sound f R hf hR _ _ _ s s' h
          simp only [Bool.and_eq_true] at hac
          exact ⟨e, Or.inr (Or.inr ⟨hac.1.1, hac.1.2, a, b, sel, hi, z⟩)⟩
        · cases h
      · cases h
    · cases h
  · cases h

theorem opMatches_sound (g : GView) (cfg : MatchCfg) (name : String) (pins : List Pat) (o : OpNode) (s s' : Syms)
    (h : opMatches g cfg f name pins o s = some s') :
    Ext s s' ∧ o.ty = name ∧ pins.length = o.ins.length ∧
      (cfg.rankGuard = true → constsPreserveRank g cfg.rank name pins o = true) ∧
      OperandsE g R name pins o s' := by
  unfold opMatches at h
  split at h
  · cases h
  · rename_i hty
    split at h
    · cases h
    · rename_i hlen
      have hty' : o.ty = name := by simpa using hty
      have hlen' : pins.length = o.ins.length := by simpa using hlen
      cases hc : chainMatch g f name pins o s with
      | some s1 =>
        simp only [hc] at h
        split at h
        · cases h
        · rename_i hg
          have e1 : s1 = s' := by injection h
          obtain ⟨e, z⟩ := chainMatch_sound f R hf hR g name pins o s s1 hc
          rw [← e1]
          refine ⟨e, hty', hlen', ?_, z⟩
          intro hrg
          cases hcp : constsPreserveRank g cfg.rank name pins o with
          | true => rfl
          | false => simp [hrg, hcp] at hg
      | none =>
        simp only [hc] at h
        cases hs : strictMatch f pins o s with
        | none => simp [hs] at h
        | some s1 =>
          simp only [hs] at h
          split at h
          · cases h
          · rename_i hg
            have e1 : s1 = s' := by injection h
            obtain ⟨e, z⟩ := strictMatch_sound f R hf hR g name pins o s s1 hs
            rw [← e1]
            refine ⟨e, hty', hlen', ?_, z⟩
            intro hrg
            cases hcp : constsPreserveRank g cfg.rank name pins o with
            | true => rfl
            | false => simp [hrg, hcp] at hg
end

theorem opConstsPreserveRank_sound (g : GView) (rank : Nat → Option Nat) (o : OpNode)
    (h : opConstsPreserveRank g rank o = true) : OpRankOK g rank o := by
  intro i w c hmem hc hone hpos
  unfold opConstsPreserveRank at h
  simp only [List.all_eq_true] at h
  have hi := h (i, some w) hmem
  simp only [Option.bind_some, hc, hone, beq_self_eq_true, Bool.true_and, decide_eq_true_eq, hpos, if_true,
    List.any_eq_true] at hi
  obtain ⟨⟨j, other⟩, hjm, hj⟩ := hi
  simp only [Bool.and_eq_true, bne_iff_ne, ne_eq] at hj
  obtain ⟨hji, hr⟩ := hj
  cases other with
  | none => simp at hr
  | some ov =>
    cases hrk : rank ov with
    | none => simp [hrk] at hr
    | some r =>
      simp only [Option.bind_some, hrk, decide_eq_true_eq] at hr
      exact ⟨j, ov, r, hjm, hji, hrk, hr⟩

theorem constsPreserveRank_sound (g : GView) (rank : Nat → Option Nat) (name : String) (pins : List Pat) (o : OpNode)
    (h : constsPreserveRank g rank name pins o = true) : RankClause g rank name pins o := by
  unfold constsPreserveRank at h
  constructor
  · intro hch ⟨p, hp, hpc⟩ c hcm
    simp only [hch, if_true] at h
    have hany : (pins.flatMap (flattenPat name 32)).any isConstPat = true := List.any_eq_true.mpr ⟨p, hp, hpc⟩
    simp only [hany, Bool.not_true, Bool.false_eq_true, if_false, Bool.not_eq_true'] at h
    exact opConstsPreserveRank_sound g rank c (List.all_eq_true.mp h c hcm)
  · intro hch ⟨p, hp, hpc⟩
    simp only [hch, Bool.false_eq_true, if_false] at h
    have hany : pins.any isConstPat = true := List.any_eq_true.mpr ⟨p, hp, hpc⟩
    simp only [hany, Bool.not_true, Bool.false_eq_true, if_false, Bool.not_false, if_true] at h
    exact opConstsPreserveRank_sound g rank o h

/-- Every operand of the flattened chain below an input `v` of `o` is a direct input of an operator
of `o`'s chain — so the rank clause covers the consumer of every constant matched inside a chain. -/
theorem flattenGraph_consumer (g : GView) (name : String) : ∀ (fuel : Nat) (o : OpNode) (v w : Nat),
    some v ∈ o.ins → w ∈ flattenGraph g name fuel v →
      ∃ c, c ∈ chainOps g name fuel o ∧ some w ∈ c.ins := by
  intro fuel
  induction fuel with
  | zero =>
    intro o v w hv h
    simp only [flattenGraph, List.mem_singleton] at h
    exact ⟨o, by simp [chainOps], h ▸ hv⟩
  | succ fuel ih =>
    intro o v w hv h
    have hself : o ∈ chainOps g name (fuel + 1) o := by simp [chainOps]
    have hvm : v ∈ o.ins.filterMap id := List.mem_filterMap.mpr ⟨some v, hv, rfl⟩
    simp only [flattenGraph] at h
    cases hs : g.source v with
    | none =>
      simp only [hs, List.mem_singleton] at h
      exact ⟨o, hself, h ▸ hv⟩
    | some so =>
      simp only [hs] at h
      by_cases hty : (so.ty == name) = true
      · simp only [hty, if_true] at h
        -- shape of so.ins
        cases hins : so.ins with
        | nil => simp only [hins, List.mem_singleton] at h; exact ⟨o, hself, h ▸ hv⟩
        | cons i1 rest1 =>
          cases i1 with
          | none => simp only [hins, List.mem_singleton] at h; exact ⟨o, hself, h ▸ hv⟩
          | some l =>
            cases rest1 with
            | nil => simp only [hins, List.mem_singleton] at h; exact ⟨o, hself, h ▸ hv⟩
            | cons i2 rest2 =>
              cases i2 with
              | none => simp only [hins, List.mem_singleton] at h; exact ⟨o, hself, h ▸ hv⟩
              | some r =>
                cases rest2 with
                | cons i3 rest3 => simp only [hins, List.mem_singleton] at h; exact ⟨o, hself, h ▸ hv⟩
                | nil =>
                  simp only [hins, List.mem_append] at h
                  have hsub : ∀ c, c ∈ chainOps g name fuel so → c ∈ chainOps g name (fuel + 1) o := by
                    intro c hc
                    simp only [chainOps, List.mem_cons, List.mem_flatMap]
                    right
                    exact ⟨v, hvm, by simp only [hs, hty, if_true, hins]; exact hc⟩
                  rcases h with h | h
                  · obtain ⟨c, hc, hw⟩ := ih so l w (by rw [hins]; simp) h
                    exact ⟨c, hsub c hc, hw⟩
                  · obtain ⟨c, hc, hw⟩ := ih so r w (by rw [hins]; simp) h
                    exact ⟨c, hsub c hc, hw⟩
      · simp only [hty, Bool.false_eq_true, if_false, List.mem_singleton] at h
        exact ⟨o, hself, h ▸ hv⟩

theorem bindKey_sound (key : Option String) (oid : Nat) (s s' : Syms) (h : bindKey true key oid s = some s') :
    Ext s s' ∧ ∀ k, key = some k → s'.find k = some oid := by
  unfold bindKey at h
  cases key with
  | none => simp at h; subst h; exact ⟨Ext.refl _, fun k hk => by cases hk⟩
  | some k =>
    simp only at h
    cases hp : s.find k with
    | some prev =>
      simp only [hp, if_true] at h
      by_cases he : (prev == oid) = true
      · simp only [he, if_true] at h
        cases h
        have : prev = oid := by simpa using he
        exact ⟨Ext.refl _, fun k' hk' => by cases hk'; rw [hp, this]⟩
      · simp [he] at h
    | none =>
      simp only [hp] at h
      cases h
      exact ⟨ext_append _ _, fun k' hk' => by cases hk'; exact find_append_new hp⟩

/-- **T4 `matcher soundness`.** With the fixed key handling, a successful match returns a binding
that extends the initial one and under which the pattern is embedded at the matched node. -/
theorem matchPat_sound (g : GView) (cfg : MatchCfg) (hk : cfg.strictKeys = true) :
    ∀ (fuel : Nat) (p : Pat) (v : Nat) (s s' : Syms),
      matchPat g cfg fuel p v s = some s' → Ext s s' ∧ embeds g cfg fuel p v s' := by
  intro fuel
  induction fuel with
  | zero => intro p v s s' h; simp [matchPat] at h
  | succ fuel ih =>
    intro p v s s' h
    have hmono := embeds_mono g cfg fuel
    cases p with
    | sym name isC =>
      simp only [matchPat] at h
      split at h
      · cases h
      · rename_i hvc
        split at h
        · cases h
        · rename_i hcc
          have hvc' : (g.const? v).isSome = true ∨ g.values.contains v = true := by
            cases hA : (g.const? v).isSome <;> cases hB : g.values.contains v <;> simp_all
          have hcc' : isC = true → (g.const? v).isSome = true := by
            intro hi
            cases hA : (g.const? v).isSome <;> simp_all
          cases hfind : s.find name with
          | some r =>
            simp only [hfind] at h
            by_cases hr : (r == v) = true
            · simp only [hr, if_true] at h
              cases h
              have : r = v := by simpa using hr
              exact ⟨Ext.refl _, by simp only [embeds]; exact ⟨by rw [hfind, this], hvc', hcc'⟩⟩
            · simp [hr] at h
          | none =>
            simp only [hfind] at h
            cases h
            exact ⟨ext_append _ _, by simp only [embeds]; exact ⟨find_append_new hfind, hvc', hcc'⟩⟩
    | const bits exact =>
      simp only [matchPat] at h
      cases hc : g.const? v with
      | none => simp [hc] at h
      | some c =>
        simp only [hc] at h
        by_cases hm : constMatches c bits exact = true
        · simp only [hm, if_true] at h
          cases h
          exact ⟨Ext.refl _, by simp only [embeds]; exact ⟨c, hc, hm⟩⟩
        · simp [hm] at h
    | anyOf ps =>
      simp only [matchPat] at h
      obtain ⟨q, hq, hfq⟩ := List.exists_of_findSome?_eq_some h
      obtain ⟨e, em⟩ := ih q v s s' hfq
      exact ⟨e, by simp only [embeds]; exact ⟨q, hq, em⟩⟩
    | op name pins key =>
      simp only [matchPat, hk] at h
      have core : ∀ o, (g.opById v = some o ∨ (g.values.contains v = true ∧ g.source v = some o)) →
          (opMatches g cfg (matchPat g cfg fuel) name pins o s).bind (bindKey true key o.oid) = some s' →
          Ext s s' ∧ embeds g cfg (fuel + 1) (.op name pins key) v s' := by
        intro o hwhere hb
        cases h1 : opMatches g cfg (matchPat g cfg fuel) name pins o s with
        | none => simp [h1] at hb
        | some s1 =>
          simp only [h1, Option.bind_some] at hb
          obtain ⟨e1, hty, hlen, hrank, hops⟩ :=
            opMatches_sound (matchPat g cfg fuel) (embeds g cfg fuel) ih hmono g cfg name pins o s s1 h1
          obtain ⟨e2, hkey⟩ := bindKey_sound key o.oid s1 s' hb
          refine ⟨e1.trans e2, ?_⟩
          simp only [embeds]
          exact ⟨o, hwhere, hty, hlen, hkey,
            fun hrg => constsPreserveRank_sound g cfg.rank name pins o (hrank hrg),
            OperandsE_mono g hmono e2 name pins o hops⟩
      cases ho : g.opById v with
      | some o =>
        simp only [ho] at h
        exact core o (Or.inl ho) h
      | none =>
        simp only [ho] at h
        split at h
        · rename_i hval
          cases hs : g.source v with
          | none => simp [hs] at h
          | some o =>
            simp only [hs] at h
            exact core o (Or.inr ⟨hval, hs⟩) h
        · cases h

end RtenVerif.Pattern
