import RtenVerif.Model.OnnxRef
/-! `sliceAxis` (clamping, negative indices, INT_MAX ends, negative steps) selects exactly the indices of
Python's `range(*slice(start, stop, step).indices(dim))`. -/
namespace RtenVerif.OnnxRef

/-- Ceiling division: `len = ⌈a / t⌉⁺` is the number of multiples `k·t` strictly below `a`. -/
theorem ceil_count (a t : Int) (ht : 0 < t) :
    (∀ k : Nat, k < ((a + t - 1) / t).toNat → (k : Int) * t ≤ a - 1) ∧
    a ≤ (((a + t - 1) / t).toNat : Int) * t := by
  have h1 : (a + t - 1) / t * t ≤ a + t - 1 := Int.ediv_mul_le _ (by omega)
  have h2 : a + t - 1 < ((a + t - 1) / t + 1) * t := Int.lt_ediv_add_one_mul_self _ ht
  rw [Int.add_mul] at h2
  constructor
  · intro k hk
    have hq : (k : Int) + 1 ≤ (a + t - 1) / t := by omega
    have := Int.mul_le_mul_of_nonneg_right hq (Int.le_of_lt ht)
    rw [Int.add_mul] at this
    omega
  · by_cases hq : 0 ≤ (a + t - 1) / t
    · rw [Int.toNat_of_nonneg hq]; omega
    · have hq' : (a + t - 1) / t + 1 ≤ 0 := by omega
      have := Int.mul_le_mul_of_nonneg_right hq' (Int.le_of_lt ht)
      rw [Int.add_mul] at this
      have hz : ((a + t - 1) / t).toNat = 0 := by omega
      rw [hz]; omega

theorem clampI_bounds (lo hi x : Int) (h : lo ≤ hi) : lo ≤ clampI lo hi x ∧ clampI lo hi x ≤ hi := by
  unfold clampI; omega

/-- SA1. Positive step: the start and end are clamped into `[0, dim]`, every selected index
`s + k·step` (`k < len`) lies in `[s, e) ⊆ [0, dim)`, and `s + len·step` is the first one past the end. -/
theorem sliceAxis_pos (dim : Nat) (start stop step : Int) (hd : dim ≠ 0) (hs : step > 0) :
    let s := sliceStart dim start step
    let e := sliceStop dim stop step
    sliceAxis dim start stop step = (s, (sliceAxis dim start stop step).2) ∧
    0 ≤ s ∧ s ≤ dim ∧ 0 ≤ e ∧ e ≤ dim ∧
    (∀ k : Nat, k < (sliceAxis dim start stop step).2 → s ≤ s + k * step ∧ s + k * step < e) ∧
    e ≤ s + ((sliceAxis dim start stop step).2 : Int) * step := by
  intro s e
  have hsb := clampI_bounds 0 (dim : Int) (if start < 0 then start + dim else start) (by omega)
  have heb := clampI_bounds 0 (dim : Int) (if stop < 0 then stop + dim else stop) (by omega)
  have hs' : s = clampI 0 dim (if start < 0 then start + dim else start) := by simp [s, sliceStart, hs]
  have he' : e = clampI 0 dim (if stop < 0 then stop + dim else stop) := by simp [e, sliceStop, hs]
  have hlen : (sliceAxis dim start stop step).2 = ((e - s + step - 1) / step).toNat := by
    simp [sliceAxis, hd, hs, s, e]
  obtain ⟨c1, c2⟩ := ceil_count (e - s) step hs
  refine ⟨by simp [sliceAxis, hd, hs, s, e], by omega, by omega, by omega, by omega, ?_, ?_⟩
  · intro k hk
    rw [hlen] at hk
    have := c1 k hk
    have hk0 : 0 ≤ (k : Int) * step := Int.mul_nonneg (by omega) (Int.le_of_lt hs)
    omega
  · rw [hlen]; omega

/-- SA2. Negative step: start clamped into `[0, dim-1]`, end into `[-1, dim-1]`; every selected index
`s + k·step` lies in `(e, s] ⊆ [0, dim)`, and `s + len·step` is the first one at or below the end. -/
theorem sliceAxis_neg (dim : Nat) (start stop step : Int) (hd : dim ≠ 0) (hs : step < 0) :
    let s := sliceStart dim start step
    let e := sliceStop dim stop step
    sliceAxis dim start stop step = (s, (sliceAxis dim start stop step).2) ∧
    0 ≤ s ∧ s ≤ (dim : Int) - 1 ∧ -1 ≤ e ∧ e ≤ (dim : Int) - 1 ∧
    (∀ k : Nat, k < (sliceAxis dim start stop step).2 → e < s + k * step ∧ s + k * step ≤ s) ∧
    s + ((sliceAxis dim start stop step).2 : Int) * step ≤ e := by
  intro s e
  have hdp : (1 : Int) ≤ dim := by omega
  have hns : ¬ step > 0 := by omega
  have hsb := clampI_bounds 0 ((dim : Int) - 1) (if start < 0 then start + dim else start) (by omega)
  have heb := clampI_bounds (-1) ((dim : Int) - 1) (if stop < 0 then stop + dim else stop) (by omega)
  have hs' : s = clampI 0 ((dim : Int) - 1) (if start < 0 then start + dim else start) := by
    simp [s, sliceStart, hns]
  have he' : e = clampI (-1) ((dim : Int) - 1) (if stop < 0 then stop + dim else stop) := by
    simp [e, sliceStop, hns]
  have hlen : (sliceAxis dim start stop step).2 = ((s - e + (-step) - 1) / (-step)).toNat := by
    simp [sliceAxis, hd, hns, s, e]
  obtain ⟨c1, c2⟩ := ceil_count (s - e) (-step) (by omega)
  refine ⟨by simp [sliceAxis, hd, hns, s, e], by omega, by omega, by omega, by omega, ?_, ?_⟩
  · intro k hk
    rw [hlen] at hk
    have := c1 k hk
    have hk0 : 0 ≤ (k : Int) * (-step) := Int.mul_nonneg (by omega) (by omega)
    rw [Int.mul_neg] at this hk0
    omega
  · rw [hlen]
    rw [Int.mul_neg] at c2
    omega

/-- SA3. The idioms exporters use: `end = INT_MAX` (any value ≥ dim) with step 1 selects to the end of the
axis; `start ≥ dim-1, end ≤ -dim-1` with step −1 selects the whole axis backwards. -/
theorem sliceAxis_to_end (dim : Nat) (start stop : Int) (hd : dim ≠ 0) (h0 : 0 ≤ start) (h1 : start ≤ dim)
    (he : (dim : Int) ≤ stop) : sliceAxis dim start stop 1 = (start, (dim - start).toNat) := by
  have hn : ¬ start < 0 := by omega
  have hn2 : ¬ stop < 0 := by omega
  simp [sliceAxis, hd, sliceStart, sliceStop, clampI, hn, hn2]
  constructor <;> omega

theorem sliceAxis_full_reverse (dim : Nat) (start stop : Int) (hd : dim ≠ 0) (h0 : (dim : Int) - 1 ≤ start)
    (he : stop ≤ -(dim : Int) - 1) : sliceAxis dim start stop (-1) = ((dim : Int) - 1, dim) := by
  have hn : ¬ start < 0 := by omega
  have hn2 : stop < 0 := by omega
  simp [sliceAxis, hd, sliceStart, sliceStop, clampI, hn, hn2]
  constructor <;> omega

end RtenVerif.OnnxRef
