import RtenVerif.Lemmas.IterSim
import RtenVerif.Props.C08

/-!
C07 lemmas, part 12: "each element at most once".  Whatever the history, the items handed
out by a deque are a permutation of a sublist of its content; with C08 (a layout accepted by
the overlap check maps distinct indices to distinct offsets) the offsets handed out by the
iterators are pairwise distinct.
-/
namespace RtenVerif.Iter
open RtenVerif.Overlap (mayOverlap offset indices ValidIdx c08_no_overlap_injective)

/-- All items handed out during a run: single items, fold contents and reverse drains. -/
def yielded {ι : Type} : List (Obs ι) → List ι
  | [] => []
  | .item (some x) :: r => x :: yielded r
  | .folded l :: r => l ++ yielded r
  | .reved l :: r => l ++ yielded r
  | _ :: r => yielded r

theorem yielded_append {ι : Type} (a b : List (Obs ι)) :
    yielded (a ++ b) = yielded a ++ yielded b := by
  induction a with
  | nil => rfl
  | cons x xs ih =>
    cases x with
    | item o => cases o <;> simp [yielded, ih]
    | len n => simp [yielded, ih]
    | folded l => simp [yielded, ih]
    | reved l => simp [yielded, ih]
    | panic => simp [yielded, ih]

/-- `a` is a permutation of a sublist of `l`. -/
def SubPerm {ι : Type} (a l : List ι) : Prop := ∃ l', a.Perm l' ∧ l'.Sublist l

theorem SubPerm.mono {ι : Type} {a l m : List ι} (h : SubPerm a l) (hs : l.Sublist m) : SubPerm a m := by
  obtain ⟨l', h1, h2⟩ := h
  exact ⟨l', h1, h2.trans hs⟩

theorem SubPerm.cons {ι : Type} {a l : List ι} (x : ι) (h : SubPerm a l) : SubPerm (x :: a) (x :: l) := by
  obtain ⟨l', h1, h2⟩ := h
  exact ⟨x :: l', h1.cons x, h2.cons_cons x⟩

/-- **Each item at most once**: over any history the deque hands out a permutation of a
sublist of its content. -/
theorem yielded_subperm {ι : Type} : ∀ (h : Hist) (l : List ι),
    SubPerm (yielded (run (listOps ι) h l)) l := by
  intro h
  induction h with
  | drop => intro l; exact ⟨[], List.Perm.refl _, List.nil_sublist _⟩
  | fold => intro l; exact ⟨l, by simp [run, listOps, yielded], List.Sublist.refl _⟩
  | rev =>
    intro l
    exact ⟨l, by simpa [run, listOps, yielded] using List.reverse_perm l, List.Sublist.refl _⟩
  | next h ih =>
    intro l
    cases l with
    | nil => simpa [run, listOps, yielded] using ih []
    | cons x xs => simpa [run, listOps, yielded] using (ih xs).cons x
  | back h ih =>
    intro l
    rcases List.eq_nil_or_concat l with rfl | ⟨d, z, hl⟩
    · simpa [run, listOps, yielded] using ih []
    · rw [List.concat_eq_append] at hl
      subst hl
      obtain ⟨l', h1, h2⟩ := ih d
      refine ⟨l' ++ [z], ?_, h2.append (List.Sublist.refl _)⟩
      have : (z :: yielded (run (listOps ι) h d)).Perm (l' ++ [z]) :=
        (h1.cons z).trans (by simpa using (List.perm_append_comm (l₁ := [z]) (l₂ := l')))
      simpa [run, listOps, yielded] using this
  | len h ih => intro l; simpa [run, listOps, yielded] using ih l
  | nth k h ih =>
    intro l
    have htail : List.drop (k + 1) l = (List.drop k l).tail := by rw [List.tail_drop]
    have e : run (listOps ι) (.nth k h) l =
        .item (List.drop k l).head? :: run (listOps ι) h (List.drop (k + 1) l) := rfl
    rw [e]
    cases hd : List.drop k l with
    | nil =>
      exact (ih (List.drop (k + 1) l)).mono (List.drop_sublist _ _)
    | cons x xs =>
      have hxs : List.drop (k + 1) l = xs := by rw [htail, hd]; rfl
      rw [hxs]
      exact ((ih xs).cons x).mono (by rw [← hd]; exact List.drop_sublist _ _)
  | split k a b iha ihb =>
    intro l
    by_cases hk : k ≤ l.length
    · have hs : (listOps ι).splitAt l k = some (l.take k, l.drop k) := by simp [listOps, hk]
      obtain ⟨l1, p1, s1⟩ := iha (l.take k)
      obtain ⟨l2, p2, s2⟩ := ihb (l.drop k)
      simp only [run, hs, yielded_append]
      exact ⟨l1 ++ l2, p1.append p2, by simpa using s1.append s2⟩
    · have hs : (listOps ι).splitAt l k = none := by simp [listOps, hk]
      simp only [run, hs, yielded]
      exact ⟨[], List.Perm.refl _, List.nil_sublist _⟩

theorem yielded_nodup {ι : Type} (h : Hist) (l : List ι) (hn : l.Nodup) :
    (yielded (run (listOps ι) h l)).Nodup := by
  obtain ⟨l', h1, h2⟩ := yielded_subperm h l
  exact h1.nodup_iff.mpr (h2.nodup hn)

theorem sublist_flatMap {α β : Type} (f : α → List β) {a b : List α} (h : a.Sublist b) :
    (a.flatMap f).Sublist (b.flatMap f) := by
  induction h with
  | slnil => exact List.Sublist.refl _
  | cons x _ ih =>
    rw [List.flatMap_cons]
    exact ih.trans (List.sublist_append_right _ _)
  | cons_cons x _ ih =>
    rw [List.flatMap_cons, List.flatMap_cons]
    exact (List.Sublist.refl _).append ih

/-- Version for sub-view items: the element offsets of all items handed out are distinct when
those of the logical item list are. -/
theorem yielded_flat_nodup {ι κ : Type} (f : ι → List κ) (h : Hist) (l : List ι)
    (hn : (l.flatMap f).Nodup) : ((yielded (run (listOps ι) h l)).flatMap f).Nodup := by
  obtain ⟨l', h1, h2⟩ := yielded_subperm h l
  exact (h1.flatMap_right f).nodup_iff.mpr ((sublist_flatMap f h2).nodup hn)

/-! ### Layouts accepted by the overlap check have distinct offsets (via C08) -/

theorem mem_indices_valid : ∀ (dims : List (Nat × Nat)) (i : List Nat), i ∈ indices dims → ValidIdx dims i
  | [], i, h => by
    simp only [indices, List.mem_singleton] at h
    subst h; exact .nil
  | (sz, st) :: ds, i, h => by
    simp only [indices, List.mem_flatMap, List.mem_range, List.mem_map] at h
    obtain ⟨a, ha, is, his, rfl⟩ := h
    exact .cons ha (mem_indices_valid ds is his)

theorem indices_nodup : ∀ dims : List (Nat × Nat), (indices dims).Nodup
  | [] => by simp [indices]
  | (sz, st) :: ds => by
    simp only [indices]
    unfold List.Nodup
    rw [List.pairwise_flatMap]
    refine ⟨?_, ?_⟩
    · intro a _
      rw [List.pairwise_map]
      exact (indices_nodup ds).imp (fun hne heq => hne (List.cons.inj heq).2)
    · refine (List.nodup_range (n := sz)).imp ?_
      intro a b hab x hx y hy hxy
      simp only [List.mem_map] at hx hy
      obtain ⟨_, _, rfl⟩ := hx
      obtain ⟨_, _, rfl⟩ := hy
      exact hab (List.cons.inj hxy).1

/-- A layout accepted by `may_have_internal_overlap` (the check `TensorViewMut` constructors
apply) has pairwise distinct element offsets. -/
theorem rowMajor_nodup (dims : List (Nat × Nat)) (h : mayOverlap dims = false) :
    (indices dims |>.map (offset dims)).Nodup := by
  unfold List.Nodup
  rw [List.pairwise_map]
  refine (indices_nodup dims).imp_of_mem ?_
  intro a b ha hb hne heq
  exact hne (c08_no_overlap_injective dims a b h (mem_indices_valid dims a ha)
    (mem_indices_valid dims b hb) heq)

end RtenVerif.Iter
