import RtenVerif.Lemmas.IterFold

/-!
C07 lemmas, part 3: `Offsets` (Range fast path + Indexing path) refines the deque over its
abstraction, for every operation; hence (by `run_refines`) for every history.
-/
namespace RtenVerif.Iter
open OffsetsBase

/-- Invariant of `Offsets`: nothing for a `Range`, `Inv` for the indexing state. -/
def OffInv : Offsets → Prop
  | .range _ _ => True
  | .indexing s => Inv s

/-- Offsets still to be yielded. -/
def absO : Offsets → List Nat
  | .range a b => List.range' a (b - a)
  | .indexing s => absB s

theorem take_range'_le {a n k : Nat} (h : k ≤ n) : (List.range' a n).take k = List.range' a k := by
  have : n = k + (n - k) := by omega
  rw [this, ← List.range'_append, List.take_left' (by simp)]

theorem offsets_next (s : Offsets) (hs : OffInv s) :
    (Offsets.next s).1 = (absO s).head? ∧ absO (Offsets.next s).2 = (absO s).tail ∧
      OffInv (Offsets.next s).2 := by
  cases s with
  | range a b =>
    by_cases h : a < b
    · simp only [Offsets.next, h, if_true, absO, List.head?_range', List.tail_range', OffInv,
        and_true]
      refine ⟨by simp; omega, ?_⟩
      congr 1
    · have : b - a = 0 := by omega
      simp [Offsets.next, h, absO, this, OffInv]
  | indexing b => exact next_spec hs

theorem offsets_nextBack (s : Offsets) (hs : OffInv s) :
    (Offsets.nextBack s).1 = (absO s).getLast? ∧
      absO (Offsets.nextBack s).2 = (absO s).dropLast ∧ OffInv (Offsets.nextBack s).2 := by
  cases s with
  | range a b =>
    by_cases h : a < b
    · obtain ⟨k, hk⟩ : ∃ k, b - a = k + 1 := ⟨b - a - 1, by omega⟩
      have hk' : b - 1 - a = k := by omega
      simp only [Offsets.nextBack, h, if_true, absO, OffInv, and_true, hk, hk',
        List.range'_1_concat, List.getLast?_concat, List.dropLast_concat, Option.some.injEq]
      omega
    · have : b - a = 0 := by omega
      simp [Offsets.nextBack, h, absO, this, OffInv]
  | indexing b => exact nextBack_spec hs

theorem offsets_nth (s : Offsets) (n : Nat) (hs : OffInv s) :
    (Offsets.nth s n).1 = ((absO s).drop n).head? ∧
      absO (Offsets.nth s n).2 = (absO s).drop (n + 1) ∧ OffInv (Offsets.nth s n).2 := by
  cases s with
  | range a b =>
    by_cases h : a + n < b
    · simp only [Offsets.nth, h, if_true, absO, OffInv, and_true, List.drop_range',
        List.head?_range', Nat.mul_one]
      refine ⟨by simp; omega, ?_⟩
      congr 1
      omega
    · simp only [Offsets.nth, h, if_false, absO, OffInv, and_true, List.drop_range',
        List.head?_range', Nat.mul_one, Nat.sub_self, List.range'_zero]
      have h1 : b - a - n = 0 := by omega
      have h2 : b - a - (n + 1) = 0 := by omega
      simp [h1, h2]
  | indexing b => exact nth_spec hs n

theorem offsets_backOk : BackOk Offsets.nextBack OffInv absO := fun s hs => offsets_nextBack s hs

theorem offsets_len (s : Offsets) : Offsets.len s = (absO s).length := by
  cases s with
  | range a b => simp [Offsets.len, absO]
  | indexing b => simp [Offsets.len, absO, absB_length]

theorem offsets_split (s : Offsets) (k : Nat) (hs : OffInv s) (hk : k ≤ (absO s).length) :
    ∃ a b, Offsets.splitAt s k = some (a, b) ∧ absO a = (absO s).take k ∧
      absO b = (absO s).drop k ∧ OffInv a ∧ OffInv b := by
  cases s with
  | range a b =>
    simp only [absO, List.length_range'] at hk
    refine ⟨.range a (a + k), .range (a + k) b, by simp [Offsets.splitAt, hk], ?_, ?_, trivial, trivial⟩
    · simp only [absO, Nat.add_sub_cancel_left, take_range'_le hk]
    · simp only [absO, List.drop_range', Nat.mul_one]
      congr 1
      omega
  | indexing s =>
    simp only [absO, absB_length] at hk
    obtain ⟨t1, t2⟩ := truncate_spec hs k
    obtain ⟨s1, s2, _⟩ := stepBy_spec hs k
    exact ⟨.indexing (s.truncate k), .indexing (s.stepBy k),
      by simp [Offsets.splitAt, OffsetsBase.splitAt, hk], t1, s2, t2, s1⟩

theorem offsets_splitPanic (s : Offsets) (k : Nat) (hk : (absO s).length < k) :
    Offsets.splitAt s k = none := by
  cases s with
  | range a b =>
    simp only [absO, List.length_range'] at hk
    simp [Offsets.splitAt]; omega
  | indexing s =>
    simp only [absO, absB_length] at hk
    simp [Offsets.splitAt]; omega

/-- `Offsets` refines the deque over `absO`, operation by operation. -/
theorem offsets_refines : Refines Offsets.ops OffInv absO where
  next := offsets_next
  nextBack := offsets_nextBack
  nth := offsets_nth
  len := fun s _ => offsets_len s
  fold := fun s hs => by
    cases s with
    | range a b => rfl
    | indexing b => exact fold_spec hs
  rev := fun s hs => by
    show drainBack Offsets.nextBack (Offsets.len s) s = _
    exact drainBack_spec offsets_backOk _ s hs (by rw [offsets_len]; exact Nat.le_refl _)
  splitOk := offsets_split
  splitPanic := fun s k _ hk => offsets_splitPanic s k hk

end RtenVerif.Iter
