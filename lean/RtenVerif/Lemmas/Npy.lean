import RtenVerif.Model.Npy

/-!
# Lemmas for the npy model, part 1: printer → parser round trips

Decimal digits (`usize::to_string` / `parse_usize`), the shape tuple (`parse_shape` on the joined
dims, by induction over the shape list), and the whole dictionary (`parse_header` on the `format!`
output of `build_header`).
-/
namespace RtenVerif.Npy

theorem isWs_digit {b : Nat} (h : isDigit b = true) : isWs b = false := by
  simp [isDigit, isWs] at *; omega

/-! decimal -/
theorem decRev_val (f n : Nat) (h : n < f) :
    (decRev f n).foldr (fun d a => 10 * a + (d - 48)) 0 = n := by
  induction f generalizing n with
  | zero => omega
  | succ f ih =>
    unfold decRev
    by_cases h0 : n / 10 = 0
    · simp [h0]; omega
    · simp only [h0, if_false, List.foldr_cons]
      rw [ih (n / 10) (by omega)]; omega

theorem decRev_digits (f n : Nat) : ∀ b ∈ decRev f n, isDigit b = true := by
  induction f generalizing n with
  | zero => simp [decRev]
  | succ f ih =>
    unfold decRev
    intro b hb
    simp only [List.mem_cons] at hb
    rcases hb with rfl | hb
    · simp [isDigit]; omega
    · split at hb
      · simp at hb
      · exact ih _ b hb

theorem decRev_ne_nil (f n : Nat) : decRev (f+1) n ≠ [] := by
  unfold decRev; simp

theorem natDigits_ne_nil (n : Nat) : natDigits n ≠ [] := by
  unfold natDigits
  simp [decRev_ne_nil]

theorem natDigits_digits (n : Nat) : ∀ b ∈ natDigits n, isDigit b = true := by
  intro b hb
  unfold natDigits at hb
  exact decRev_digits _ _ b (List.mem_reverse.mp hb)

theorem digitsVal_natDigits (n : Nat) : digitsVal (natDigits n) = n := by
  unfold digitsVal natDigits
  rw [List.foldl_reverse]
  exact decRev_val (n+1) n (by omega)

theorem spanDigits_append (ds rest : List Nat) (hd : ∀ b ∈ ds, isDigit b = true)
    (hr : ∀ b, rest.head? = some b → isDigit b = false) :
    spanDigits (ds ++ rest) = (ds, rest) := by
  induction ds with
  | nil =>
    cases rest with
    | nil => rfl
    | cons b r =>
      have := hr b rfl
      simp [spanDigits, this]
  | cons d ds ih =>
    have hd1 : isDigit d = true := hd d (by simp)
    have := ih (fun b hb => hd b (by simp [hb]))
    simp [spanDigits, hd1, this]

theorem parseUsize_natDigits (n : Nat) (rest : List Nat) (hn : n < usizeLimit)
    (hr : ∀ b, rest.head? = some b → isDigit b = false) :
    parseUsize (natDigits n ++ rest) = .ok (n, rest) := by
  unfold parseUsize
  rw [spanDigits_append _ _ (natDigits_digits n) hr]
  have : (natDigits n).isEmpty = false := by
    cases h : natDigits n with
    | nil => exact absurd h (natDigits_ne_nil n)
    | cons _ _ => rfl
  simp [this, digitsVal_natDigits, hn]

/-! ## shape tuple -/

theorem skipWs_not_ws {b : Nat} {rest : List Nat} (h : isWs b = false) :
    skipWs (b :: rest) = b :: rest := by simp [skipWs, h]

theorem natDigits_cons (n : Nat) : ∃ d ds, natDigits n = d :: ds ∧ isDigit d = true := by
  cases h : natDigits n with
  | nil => exact absurd h (natDigits_ne_nil n)
  | cons d ds =>
    exact ⟨d, ds, rfl, natDigits_digits n d (by simp [h])⟩

theorem shapeLoop_space (f : Nat) (x : List Nat) : shapeLoop f (32 :: x) = shapeLoop f x := by
  cases f <;> simp [shapeLoop, skipWs, isWs]

theorem shapeLoop_close (f : Nat) (tl : List Nat) : shapeLoop (f + 1) (41 :: tl) = .ok ([], tl) := by
  simp [shapeLoop, skipWs, isWs]

/-- One iteration of the `parse_shape` loop on a printed dimension. -/
theorem shapeLoop_step (f d : Nat) (R : List Nat) (hd : d < usizeLimit)
    (hR : ∀ b, R.head? = some b → isDigit b = false) :
    shapeLoop (f + 1) (natDigits d ++ R) =
      match shapeLoop f (consumeOpt 44 (skipWs R)) with
      | .error e => .error e
      | .ok (vs, r') => .ok (d :: vs, r') := by
  obtain ⟨c, cs, hc, hcd⟩ := natDigits_cons d
  have hws : skipWs (natDigits d ++ R) = natDigits d ++ R := by
    rw [hc]; exact skipWs_not_ws (isWs_digit hcd)
  have hne : (natDigits d ++ R).head? ≠ some 41 := by
    rw [hc]; simp; intro h; subst h; simp [isDigit] at hcd
  conv => lhs; rw [shapeLoop]
  simp only [hws, hne, if_false, parseUsize_natDigits d R hd hR]
  rfl

theorem shapeLoop_join (ds : List Nat) (hne : ds ≠ []) (hall : ∀ d ∈ ds, d < usizeLimit)
    (tl : List Nat) : ∀ f, ds.length < f →
      shapeLoop f (joinDims ds ++ 41 :: tl) = .ok (ds, tl) ∧
      shapeLoop f (joinDims ds ++ 44 :: 41 :: tl) = .ok (ds, tl) := by
  induction ds with
  | nil => exact absurd rfl hne
  | cons d ds ih =>
    intro f hf
    have hd : d < usizeLimit := hall d (by simp)
    obtain ⟨f, rfl⟩ : ∃ g, f = g + 1 := ⟨f - 1, by simp at hf; omega⟩
    cases ds with
    | nil =>
      simp only [joinDims]
      obtain ⟨f, rfl⟩ : ∃ g, f = g + 1 := ⟨f - 1, by simp at hf; omega⟩
      constructor
      · rw [shapeLoop_step f.succ d _ hd (by simp [isDigit])]
        simp [skipWs, isWs, consumeOpt, shapeLoop_close]
      · rw [shapeLoop_step f.succ d _ hd (by simp [isDigit])]
        simp [skipWs, isWs, consumeOpt, shapeLoop_close]
    | cons d2 ds' =>
      have ih' := ih (by simp) (fun x hx => hall x (by simp [hx])) f (by simp at hf ⊢; omega)
      simp only [joinDims, List.append_assoc, List.cons_append]
      constructor
      · rw [shapeLoop_step f d _ hd (by simp [isDigit])]
        simp only [skipWs, isWs, consumeOpt]
        simp [shapeLoop_space, ih'.1]
      · rw [shapeLoop_step f d _ hd (by simp [isDigit])]
        simp only [skipWs, isWs, consumeOpt]
        simp [shapeLoop_space, ih'.2]

theorem length_joinDims (ds : List Nat) : ds.length ≤ (joinDims ds).length := by
  induction ds with
  | nil => simp [joinDims]
  | cons d ds ih =>
    obtain ⟨c, cs, hc, _⟩ := natDigits_cons d
    cases ds with
    | nil => simp [joinDims, hc]
    | cons d2 ds' => simp [joinDims, hc] at ih ⊢; omega

/-- The tuple printer followed by the tuple parser is the identity on every shape. -/
theorem parseShape_dimsText (shape : List Nat) (hall : ∀ d ∈ shape, d < usizeLimit) (tl : List Nat) :
    parseShape (40 :: (dimsText shape ++ 41 :: tl)) = .ok (shape, tl) := by
  unfold parseShape
  simp only [expect, if_true]
  cases shape with
  | nil => simp [dimsText, joinDims, shapeLoop_close]
  | cons d ds =>
    have hlen := length_joinDims (d :: ds)
    cases ds with
    | nil =>
      simp only [dimsText, List.length_singleton, if_true, List.append_assoc, List.singleton_append]
      exact (shapeLoop_join [d] (by simp) hall tl _ (by simp at hlen ⊢; omega)).2
    | cons d2 ds' =>
      have : (d :: d2 :: ds').length ≠ 1 := by simp
      simp only [dimsText, this, if_false, List.append_nil]
      exact (shapeLoop_join (d :: d2 :: ds') (by simp) hall tl _ (by simp at hlen ⊢; omega)).1

/-! ## dictionary -/

theorem scanQuote_append (s rest : List Nat) (h : 39 ∉ s) :
    scanQuote (s ++ 39 :: rest) = some (s, rest) := by
  induction s with
  | nil => simp [scanQuote]
  | cons b s ih =>
    have hb : b ≠ 39 := fun e => h (by simp [e])
    have := ih (fun hm => h (by simp [hm]))
    simp [scanQuote, hb, this]

theorem parseString_lit (s rest : List Nat) (h : 39 ∉ s) :
    parseString (39 :: (s ++ 39 :: rest)) = .ok (s, rest) := by
  simp [parseString, expect, scanQuote_append s rest h]

theorem parseDescr_descr (dt : DataType) :
    parseDescr dt.descr = .ok ⟨false, dt.kind, dt.itemSize⟩ := by
  cases dt <;> rfl

theorem descr_no_quote (dt : DataType) : 39 ∉ dt.descr := by
  cases dt <;> decide

/-- **Core of T1**: the header parser inverts the dictionary printer, for every element type,
every shape (any rank, any dims that fit `usize`) and whatever follows the dictionary. -/
theorem parseHeaderRest_dictText (dt : DataType) (shape : List Nat)
    (hall : ∀ d ∈ shape, d < usizeLimit) (tail : List Nat) :
    parseHeaderRest (dictText dt shape ++ tail) =
      .ok (⟨⟨false, dt.kind, dt.itemSize⟩, false, shape⟩, tail) := by
  have hS := parseShape_dimsText shape hall (44 :: 32 :: 125 :: tail)
  have hD := scanQuote_append dt.descr
    ([44, 32, 39, 102, 111, 114, 116, 114, 97, 110, 95, 111, 114, 100, 101, 114, 39, 58, 32,
      70, 97, 108, 115, 101, 44, 32, 39, 115, 104, 97, 112, 101, 39, 58, 32, 40] ++
      (dimsText shape ++ 41 :: 44 :: 32 :: 125 :: tail)) (descr_no_quote dt)
  unfold parseHeaderRest dictText pre1 pre2 post
  simp only [List.cons_append, List.nil_append, List.append_assoc] at hD
  simp only [List.cons_append, List.nil_append, List.append_assoc, skipWs, isWs, expect]
  simp only [Nat.reduceEqDiff, Bool.or_self, Bool.false_eq_true, if_false, if_true, decide_false]
  -- fuel: at least four iterations
  generalize hF : (List.length _ + 1) = F
  obtain ⟨k, rfl⟩ : ∃ k, F = k + 4 := ⟨F - 4, by simp at hF; omega⟩
  simp [dictLoop, skipWs, isWs, parseString, expect, scanQuote, parseValue, kDescr, kFortran, kShape,
    hD, parseDescr_descr, parseBool, startsWith, bTrue, bFalse, consumeOpt, hS]

end RtenVerif.Npy
