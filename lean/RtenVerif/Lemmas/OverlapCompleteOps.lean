import RtenVerif.Lemmas.OverlapComplete

/-!
Completeness side of C08 (part 2): contiguous layouts are dominance chains, acceptance is
`empty ∨ DomChain`, and the view operations (slice with a positive step, index_axis, unit
axis insertion/removal) keep a dominance chain.
-/
namespace RtenVerif.Overlap

/-! ### Contiguous layouts -/

theorem keys_cons (d : Nat × Nat) (ds : List (Nat × Nat)) :
    keys (d :: ds) = if d.1 = 1 then keys ds else (d.2, d.1) :: keys ds := by
  by_cases h : d.1 = 1 <;> simp [keys, h]

theorem keys_append (A B : List (Nat × Nat)) : keys (A ++ B) = keys A ++ keys B := by
  simp [keys, List.filter_append]

theorem noZero_cons (d : Nat × Nat) (ds : List (Nat × Nat)) :
    NoZero (d :: ds) ↔ d.1 ≠ 0 ∧ NoZero ds := by
  simp [NoZero]

theorem noZero_append (A B : List (Nat × Nat)) : NoZero (A ++ B) ↔ NoZero A ∧ NoZero B := by
  simp [NoZero]

/-- For a contiguous layout without empty dims: the `(stride, size)` pairs taken innermost
first pass the loop, and the running product of `is_contiguous` is `1 + total span`. In
particular every non-unit stride equals `1 + Σ_{inner} (size_j - 1) * stride_j`. -/
theorem contig_chain : ∀ (dims : List (Nat × Nat)) (p : Nat), NoZero dims →
    contigR dims = some p →
    Passes 0 (keys dims).reverse ∧ p = 1 + spanSum (keys dims) := by
  intro dims
  induction dims with
  | nil =>
    intro p _ hp
    simp [contigR] at hp
    subst hp
    exact ⟨passes_nil 0, rfl⟩
  | cons d ds ih =>
    intro p hz hp
    obtain ⟨hd0, hzds⟩ := (noZero_cons d ds).mp hz
    simp only [contigR] at hp
    cases hc : contigR ds with
    | none => simp [hc, contigStep] at hp
    | some p' =>
      obtain ⟨hpass, hp'⟩ := ih p' hzds hc
      simp only [hc, contigStep] at hp
      rw [keys_cons]
      by_cases h1 : d.1 = 1
      · simp only [h1, if_true, Option.some.injEq] at hp ⊢
        subst hp
        exact ⟨hpass, hp'⟩
      · simp only [h1, if_false] at hp ⊢
        by_cases h2 : d.2 = p'
        · simp only [h2, ne_eq, not_true_eq_false, if_false, Option.some.injEq] at hp
          constructor
          · rw [List.reverse_cons, passes_append]
            refine ⟨hpass, ?_⟩
            rw [passes_cons]
            refine ⟨?_, passes_nil _⟩
            have : spanSum (keys ds).reverse = spanSum (keys ds) :=
              spanSum_perm (List.reverse_perm _)
            show 0 + spanSum (keys ds).reverse < d.2
            omega
          · obtain ⟨k, hk⟩ : ∃ k, d.1 = k + 1 := ⟨d.1 - 1, by omega⟩
            simp only [spanSum_cons, span]
            show p = 1 + ((d.1 - 1) * d.2 + spanSum (keys ds))
            rw [← hp, hk, h2, Nat.mul_succ, Nat.add_sub_cancel, Nat.mul_comm p' k]
            omega
        · simp [h2] at hp

/-- (b) A contiguous layout with no empty dimension is a dominance chain (innermost first). -/
theorem contig_domChain {dims : List (Nat × Nat)} (hz : NoZero dims)
    (hc : isContiguous dims = true) : DomChain dims := by
  rw [isContiguous_eq] at hc
  obtain ⟨p, hp⟩ := Option.isSome_iff_exists.mp hc
  exact ⟨_, List.reverse_perm _, (contig_chain dims p hz hp).1⟩

theorem contigR_append_some {A B : List (Nat × Nat)} {p : Nat}
    (h : contigR (A ++ B) = some p) : ∃ q, contigR B = some q := by
  induction A generalizing p with
  | nil => exact ⟨p, h⟩
  | cons a A ih =>
    simp only [List.cons_append, contigR] at h
    cases hc : contigR (A ++ B) with
    | none => simp [hc, contigStep] at h
    | some p' => exact ih hc

/-- (b), explicit form: in a contiguous layout with no empty dimension every non-unit
stride is exactly one more than the total span of the dimensions inside it. -/
theorem contig_stride_eq {pre post : List (Nat × Nat)} {size stride : Nat}
    (hz : NoZero (pre ++ (size, stride) :: post))
    (hc : isContiguous (pre ++ (size, stride) :: post) = true) (h1 : size ≠ 1) :
    stride = 1 + spanSum (keys post) := by
  rw [isContiguous_eq] at hc
  obtain ⟨p, hp⟩ := Option.isSome_iff_exists.mp hc
  obtain ⟨q, hq⟩ := contigR_append_some hp
  have hzpost : NoZero post := ((noZero_cons _ _).mp ((noZero_append _ _).mp hz).2).2
  simp only [contigR] at hq
  cases hc' : contigR post with
  | none => simp [hc', contigStep] at hq
  | some p' =>
    have := (contig_chain post p' hzpost hc').2
    simp only [hc', contigStep, h1, if_false] at hq
    by_cases h2 : stride = p'
    · omega
    · simp [h2] at hq

/-! ### Acceptance = empty or dominance chain; permutation invariance -/

/-- (a) Acceptance characterised with the code's own two paths. -/
theorem mayOverlap_false_iff {dims : List (Nat × Nat)} (hz : NoZero dims) :
    mayOverlap dims = false ↔ isContiguous dims = true ∨ StepsOverSorted dims := by
  unfold mayOverlap StepsOverSorted Passes
  unfold NoZero at hz
  simp only [hz, Bool.false_eq_true, if_false]
  by_cases hc : isContiguous dims = true
  · simp [hc]
  · simp only [hc]
    cases stepsOver 0 (sortedStrideShape dims) <;> simp

/-- (a) Acceptance characterised independently of the sort and of the dimension order. -/
theorem accepted_iff (dims : List (Nat × Nat)) :
    mayOverlap dims = false ↔ ¬ NoZero dims ∨ DomChain dims := by
  by_cases hz : NoZero dims
  · rw [mayOverlap_false_iff hz, stepsOverSorted_iff_domChain hz]
    constructor
    · rintro (h | h)
      · exact Or.inr (contig_domChain hz h)
      · exact Or.inr h
    · rintro (h | h)
      · exact absurd hz h
      · exact Or.inr h
  · have : mayOverlap dims = false := by
      unfold mayOverlap
      unfold NoZero at hz
      simp only [Bool.not_eq_false] at hz
      simp [hz]
    simp [this, hz]

theorem accept_perm {dims dims' : List (Nat × Nat)} (h : dims.Perm dims') :
    mayOverlap dims = mayOverlap dims' := by
  have h1 := accepted_iff dims
  have h2 := accepted_iff dims'
  rw [noZero_perm h, domChain_perm h] at h1
  have : mayOverlap dims = false ↔ mayOverlap dims' = false := h1.trans h2.symm
  cases hA : mayOverlap dims <;> cases hB : mayOverlap dims' <;> simp_all

/-! ### Replacing / dropping one entry of a chain -/

theorem chain_replace {L K : List (Nat × Nat)} {x y : Nat × Nat} (hperm : L.Perm (x :: K))
    (hp : Passes 0 L) (h1 : x.1 ≤ y.1) (h2 : span y ≤ span x) :
    ∃ L', L'.Perm (y :: K) ∧ Passes 0 L' := by
  obtain ⟨L1, L2, rfl⟩ := List.append_of_mem (hperm.mem_iff.mpr List.mem_cons_self)
  have hK : (L1 ++ L2).Perm K := (List.perm_middle.symm.trans hperm).cons_inv
  refine ⟨L1 ++ y :: L2, List.perm_middle.trans (hK.cons y), ?_⟩
  exact ((Dom.refl L1).append (.keep (Dom.refl L2) h1 h2)).passes (Nat.le_refl _) hp

theorem chain_drop {L K : List (Nat × Nat)} {x : Nat × Nat} (hperm : L.Perm (x :: K))
    (hp : Passes 0 L) : ∃ L', L'.Perm K ∧ Passes 0 L' := by
  obtain ⟨L1, L2, rfl⟩ := List.append_of_mem (hperm.mem_iff.mpr List.mem_cons_self)
  have hK : (L1 ++ L2).Perm K := (List.perm_middle.symm.trans hperm).cons_inv
  refine ⟨L1 ++ L2, hK, ?_⟩
  exact ((Dom.refl L1).append (.drop (Dom.refl L2))).passes (Nat.le_refl _) hp

/-! ### View operations with the affected dimension in front -/

/-- A size-1 dimension never matters. -/
theorem accept_unit_head (s : Nat) (rest : List (Nat × Nat)) :
    mayOverlap ((1, s) :: rest) = mayOverlap rest := by
  have h1 := accepted_iff ((1, s) :: rest)
  have h2 := accepted_iff rest
  have hk : keys ((1, s) :: rest) = keys rest := by simp [keys_cons]
  have hz : NoZero ((1, s) :: rest) ↔ NoZero rest := by simp [noZero_cons]
  have hd : DomChain ((1, s) :: rest) ↔ DomChain rest := by unfold DomChain; rw [hk]
  rw [hz, hd] at h1
  have : mayOverlap ((1, s) :: rest) = false ↔ mayOverlap rest = false := h1.trans h2.symm
  cases hA : mayOverlap ((1, s) :: rest) <;> cases hB : mayOverlap rest <;> simp_all

/-- Dropping a non-empty dimension (`index_axis`) keeps acceptance. -/
theorem accept_drop_head {size stride : Nat} {rest : List (Nat × Nat)} (hsz : 1 ≤ size)
    (h : mayOverlap ((size, stride) :: rest) = false) : mayOverlap rest = false := by
  rw [accepted_iff] at h ⊢
  rcases h with h | ⟨L, hperm, hp⟩
  · left
    intro hz
    exact h ((noZero_cons _ _).mpr ⟨by simpa using Nat.ne_of_gt hsz, hz⟩)
  · right
    rw [keys_cons] at hperm
    by_cases h1 : size = 1
    · simp only [h1, if_true] at hperm
      exact ⟨L, hperm, hp⟩
    · simp only [h1, if_false] at hperm
      exact chain_drop hperm hp

/-- Slicing the front dimension with a positive step keeps acceptance. -/
theorem accept_slice_head {size stride size' step : Nat} {rest : List (Nat × Nat)}
    (hstep : 1 ≤ step) (hfit : size' = 0 ∨ (size' - 1) * step < size)
    (h : mayOverlap ((size, stride) :: rest) = false) :
    mayOverlap ((size', stride * step) :: rest) = false := by
  rcases hfit with h0 | hfit
  · subst h0; simp [mayOverlap]
  by_cases hs0 : size' = 0
  · subst hs0; simp [mayOverlap]
  have hsz : 1 ≤ size := by omega
  rw [accepted_iff] at h ⊢
  rcases h with h | ⟨L, hperm, hp⟩
  · left
    intro hz
    apply h
    rw [noZero_cons] at hz ⊢
    exact ⟨by simpa using Nat.ne_of_gt hsz, hz.2⟩
  · right
    by_cases h1 : size = 1
    · -- the only slice of a unit dimension is a unit dimension
      have hs' : size' = 1 := by
        subst h1
        have h2 : (size' - 1) * step = 0 := by omega
        rcases Nat.mul_eq_zero.mp h2 with h3 | h3 <;> omega
      subst h1; subst hs'
      simp only [keys_cons, if_true] at hperm
      exact ⟨L, by simpa [keys_cons] using hperm, hp⟩
    · simp only [keys_cons, h1, if_false] at hperm
      by_cases h1' : size' = 1
      · obtain ⟨L', hperm', hp'⟩ := chain_drop hperm hp
        exact ⟨L', by simpa [keys_cons, h1'] using hperm', hp'⟩
      · have hle : (size' - 1) * step ≤ size - 1 := by omega
        have hspan : span (stride * step, size') ≤ span (stride, size) := by
          show (size' - 1) * (stride * step) ≤ (size - 1) * stride
          calc (size' - 1) * (stride * step)
              = ((size' - 1) * step) * stride := by
                rw [Nat.mul_comm stride step, Nat.mul_assoc]
            _ ≤ (size - 1) * stride := Nat.mul_le_mul_right _ hle
        have hstride : (stride, size).1 ≤ (stride * step, size').1 :=
          Nat.le_mul_of_pos_right stride hstep
        obtain ⟨L', hperm', hp'⟩ := chain_replace hperm hp hstride hspan
        exact ⟨L', by simpa [keys_cons, h1'] using hperm', hp'⟩

end RtenVerif.Overlap
