import RtenVerif.Lemmas.OnnxRefValid
/-! Squeeze ∘ Unsqueeze = id on shapes (both leave the data untouched by definition). -/
namespace RtenVerif.OnnxRef

theorem range_succ_cons (n : Nat) : List.range (n + 1) = 0 :: (List.range n).map Nat.succ :=
  List.range_succ_eq_map

/-- Core invariant of `insertOnes`: with the right amount of fuel the result has `fuel` entries; the
entries at positions not in `axes` are exactly `s`, in order, and the entries at positions in `axes` are 1. -/
theorem insertOnes_spec (axes : List Nat) : ∀ (fuel : Nat) (s : List Nat) (pos : Nat),
    fuel = s.length + ((List.range fuel).filter (fun j => axes.contains (pos + j))).length →
    (insertOnes s pos axes fuel).length = fuel ∧
    ((List.range fuel).filter (fun j => !axes.contains (pos + j))).map (getN (insertOnes s pos axes fuel)) = s ∧
    (∀ j, j < fuel → axes.contains (pos + j) = true → getN (insertOnes s pos axes fuel) j = 1)
  | 0, s, pos, h => by
    have : s = [] := by
      cases s with
      | nil => rfl
      | cons _ _ => simp at h
    subst this
    simp [insertOnes]
  | fuel + 1, s, pos, h => by
    have hshift : ∀ (P : Nat → Bool), ((List.range fuel).map Nat.succ).filter (fun j => P (pos + j))
        = ((List.range fuel).filter (fun j => P (pos + 1 + j))).map Nat.succ := by
      intro P
      rw [List.filter_map]
      congr 1
      apply List.filter_congr
      intro j _
      simp only [Function.comp, Nat.succ_eq_add_one]
      congr 1; omega
    rw [range_succ_cons] at h ⊢
    by_cases hc : axes.contains pos = true
    · -- a new axis is inserted here
      have hm : pos ∈ axes := by simpa using hc
      have hins : insertOnes s pos axes (fuel + 1) = 1 :: insertOnes s (pos + 1) axes fuel := by
        simp [insertOnes, hm]
      have h' : fuel = s.length + ((List.range fuel).filter (fun j => axes.contains (pos + 1 + j))).length := by
        simp only [List.filter_cons, Nat.add_zero, hc, if_true, List.length_cons] at h
        rw [hshift (fun k => axes.contains k), List.length_map] at h
        omega
      obtain ⟨ih1, ih2, ih3⟩ := insertOnes_spec axes fuel s (pos + 1) h'
      rw [hins]
      refine ⟨by simp [ih1], ?_, ?_⟩
      · simp only [List.filter_cons, Nat.add_zero, hc, Bool.not_true, Bool.false_eq_true, if_false]
        rw [hshift (fun k => !axes.contains k), List.map_map]
        exact ih2
      · intro j hj hcj
        cases j with
        | zero => rfl
        | succ j =>
          have : pos + (j + 1) = pos + 1 + j := by omega
          rw [this] at hcj
          simpa using ih3 j (by omega) hcj
    · -- the next input dimension is copied
      have hc' : axes.contains pos = false := by simpa using hc
      have hcount : ((List.range fuel).filter (fun j => axes.contains (pos + 1 + j))).length ≤ fuel := by
        have := List.length_filter_le (fun j => axes.contains (pos + 1 + j)) (List.range fuel)
        simpa using this
      simp only [List.filter_cons, Nat.add_zero, hc', Bool.false_eq_true, if_false] at h
      rw [hshift (fun k => axes.contains k), List.length_map] at h
      cases s with
      | nil => simp only [List.length_nil] at h; omega
      | cons d ds =>
        have hm : pos ∉ axes := by simpa using hc'
        have hins : insertOnes (d :: ds) pos axes (fuel + 1) = d :: insertOnes ds (pos + 1) axes fuel := by
          simp [insertOnes, hm]
        have h' : fuel = ds.length + ((List.range fuel).filter (fun j => axes.contains (pos + 1 + j))).length := by
          simp only [List.length_cons] at h; omega
        obtain ⟨ih1, ih2, ih3⟩ := insertOnes_spec axes fuel ds (pos + 1) h'
        rw [hins]
        refine ⟨by simp [ih1], ?_, ?_⟩
        · simp only [List.filter_cons, Nat.add_zero, hc', Bool.not_false, if_true, List.map_cons, getN_cons_zero]
          rw [hshift (fun k => !axes.contains k), List.map_map]
          congr 1
        · intro j hj hcj
          cases j with
          | zero => simp only [Nat.add_zero, hc', Bool.false_eq_true] at hcj
          | succ j =>
            have : pos + (j + 1) = pos + 1 + j := by omega
            rw [this] at hcj
            simpa using ih3 j (by omega) hcj

/-- SQ1. `Squeeze(Unsqueeze(s, axes), axes) = s` on shapes, and every inserted dimension is 1 (so the
Squeeze is legal). `hax` says the axes are distinct positions of the result:
exactly `axes.length` of the positions `0 … n-1` belong to `axes`. -/
theorem squeeze_unsqueeze_shape (s axes : List Nat)
    (hax : ((List.range (s.length + axes.length)).filter (fun j => axes.contains j)).length = axes.length) :
    removeAxes (insertOnes s 0 axes (s.length + axes.length)) axes = s ∧
    (insertOnes s 0 axes (s.length + axes.length)).length = s.length + axes.length ∧
    (∀ k, k < s.length + axes.length → axes.contains k = true →
      getN (insertOnes s 0 axes (s.length + axes.length)) k = 1) := by
  have h0 : s.length + axes.length = s.length +
      ((List.range (s.length + axes.length)).filter (fun j => axes.contains (0 + j))).length := by
    simp only [Nat.zero_add]; rw [hax]
  obtain ⟨h1, h2, h3⟩ := insertOnes_spec axes _ s 0 h0
  refine ⟨?_, h1, ?_⟩
  · unfold removeAxes
    rw [h1]
    simpa using h2
  · intro k hk hc
    exact h3 k hk (by simpa using hc)

end RtenVerif.OnnxRef
