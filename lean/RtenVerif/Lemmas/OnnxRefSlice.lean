import RtenVerif.Lemmas.OnnxRefPad
/-! Composition of two normalised strided slices, and `Expand` laws. -/
namespace RtenVerif.OnnxRef

theorem getI_map_range (n : Nat) (f : Nat → Int) (k : Nat) (h : k < n) :
    getI ((List.range n).map f) k = f k := by
  simp [getI, List.getD_eq_getElem?_getD, h]

/-- Slicing a slice is one slice: starts compose affinely, steps multiply (any sign of step),
provided the second slice stays inside the first one's extent. -/
theorem sliceCore_sliceCore (x : Tensor) (st1 sp1 st2 sp2 : List Int) (d1 d2 : List Nat)
    (hlen : d2.length = d1.length)
    (hin : ∀ idx, validIdx d2 idx = true → ∀ k, k < d1.length →
      0 ≤ getI st2 k + (getN idx k : Int) * getI sp2 k ∧
      getI st2 k + (getN idx k : Int) * getI sp2 k < (getN d1 k : Int)) :
    sliceCore (sliceCore x st1 sp1 d1) st2 sp2 d2 =
      sliceCore x ((List.range d1.length).map (fun k => getI st1 k + getI st2 k * getI sp1 k))
        ((List.range d1.length).map (fun k => getI sp1 k * getI sp2 k)) d2 := by
  unfold sliceCore
  apply build_congr
  intro idx hv
  have hv' := (validIdx_iff _ _).mp hv
  have hl : idx.length = d1.length := by rw [hv'.1, hlen]
  rw [hl]
  have hJ : validIdx d1 ((List.range d1.length).map
      (fun k => (getI st2 k + (getN idx k : Int) * getI sp2 k).toNat)) = true := by
    rw [validIdx_iff]
    refine ⟨by simp, ?_⟩
    intro k hk
    rw [getN_map_range _ _ _ hk]
    have := hin idx hv k hk
    omega
  rw [get_build _ _ _ hJ]
  congr 1
  simp only [List.length_map, List.length_range]
  apply List.map_congr_left
  intro k hk
  have hk' : k < d1.length := List.mem_range.mp hk
  rw [getN_map_range _ _ _ hk', getI_map_range _ _ _ hk', getI_map_range _ _ _ hk']
  have h0 := (hin idx hv k hk').1
  have hc : ((getI st2 k + (getN idx k : Int) * getI sp2 k).toNat : Int)
      = getI st2 k + (getN idx k : Int) * getI sp2 k := Int.toNat_of_nonneg h0
  rw [hc]
  congr 1
  rw [Int.add_mul, Int.add_assoc, Int.mul_assoc, Int.mul_comm (getI sp2 k) (getI sp1 k)]

/-- For a valid index of `s` the broadcast index into an operand of the same shape is the index itself. -/
theorem bidx_self : ∀ (s idx : List Nat), validIdx s idx = true → bidx s idx = idx := by
  intro s idx hv
  have hl : idx.length = s.length := ((validIdx_iff _ _).mp hv).1
  unfold bidx
  rw [hl, Nat.sub_self, List.drop_zero]
  induction s generalizing idx with
  | nil => cases idx with
    | nil => rfl
    | cons _ _ => simp at hl
  | cons d ds ih =>
    cases idx with
    | nil => simp at hl
    | cons i is =>
      simp only [validIdx, Bool.and_eq_true, decide_eq_true_eq] at hv
      simp only [List.zipWith_cons_cons]
      rw [ih is hv.2 (by simpa using hl)]
      by_cases h1 : d = 1
      · have : i = 0 := by omega
        simp [h1, this]
      · simp [h1]

/-- Expanding a tensor to its own shape is the identity. -/
theorem broadcastTo_self (x : Tensor) (hwf : x.data.length = prod x.shape) : broadcastTo x x.shape = x := by
  unfold broadcastTo
  apply Eq.trans (build_congr x.shape _ x.get _) (build_get x hwf)
  intro idx hv
  rw [bidx_self _ _ hv]

/-- `Expand(x, shape)` is the first projection of the broadcasting binary operator applied to `x` and
any tensor of shape `shape`: "expand = broadcast". -/
theorem expand_eq_binop (x : Tensor) (sh : List Int) (y : Tensor) (hnn : sh.all (· ≥ 0) = true)
    (hy : y.shape = sh.map Int.toNat) : expand x sh = binop (fun v _ => v) x y := by
  unfold expand binop guardR broadcastTo
  simp only [hnn, if_true, hy]
  rfl

end RtenVerif.OnnxRef
