import RtenVerif.Lemmas.ControlFlowSim4

/-!
# `runPlan = evalG` over whole nested runs (C24.T1)
-/
namespace RtenVerif.ControlFlow

variable {P V : Type}

theorem steps_sim (S : Sem P V) (hS : ∀ k, (S.inPlaceIdx k).length ≤ 1) (f : Nat) (rec : Runner P V)
    (ev : Env V → Graph P V → List V → Except Err (List V)) (href : RefHyp f rec ev)
    (g : Graph P V) (views : Env V) (σp : Env V) (ctx : Ctx g views σp) :
    ∀ (rest : List (Op P V)) (st : St V) (b : Env V),
      (∀ op, op ∈ rest → op ∈ g.ops ∧ OpWf f g op) → Inv g views σp rest st b →
      Rel (fun st' σ' => ∃ b', σ' = b' ++ σp ∧ Inv g views σp [] st' b')
        (stepOps S rec g views st rest) (evalOps S false ev (b ++ σp) rest)
  | [], st, b, _, inv => by
    simp only [stepOps, evalOps, Rel]
    exact ⟨b, rfl, inv⟩
  | op :: rest, st, b, hops, inv => by
    have hop := hops op List.mem_cons_self
    have hstep := step_sim S hS f rec ev href g views σp ctx op hop.1 hop.2 rest st b inv
    simp only [stepOps, evalOps]
    cases h1 : stepOp S rec g views st op with
    | error e1 =>
      cases h2 : evalOp S false ev (b ++ σp) op with
      | error e2 => rw [h1, h2] at hstep; simpa [Rel] using hstep
      | ok σ' => rw [h1, h2] at hstep; simp [Rel] at hstep
    | ok st' =>
      cases h2 : evalOp S false ev (b ++ σp) op with
      | error e2 => rw [h1, h2] at hstep; simp [Rel] at hstep
      | ok σ' =>
        rw [h1, h2] at hstep
        simp only [Rel] at hstep
        obtain ⟨b', hσ, inv'⟩ := hstep
        subst hσ
        exact steps_sim S hS f rec ev href g views σp ctx rest st' b'
          (fun o ho => hops o (List.mem_cons_of_mem _ ho)) inv'

theorem owned_borrowed_disjoint : ∀ (ins : List Nat) (args : List (Bool × V)) (n : Nat), ins.Nodup →
    look (borrowedArgs ins args) n ≠ none → look (ownedArgs ins args) n = none
  | [], _, _, _, h => by simp [borrowedArgs, look] at h
  | _ :: _, [], _, _, h => by simp [borrowedArgs, look] at h
  | i :: is, (fl, v) :: as, n, hnd, h => by
    have hnd' := (List.nodup_cons.mp hnd).2
    have hni := (List.nodup_cons.mp hnd).1
    have ih := owned_borrowed_disjoint is as n hnd'
    by_cases hi : i = n
    · subst hi
      cases fl
      · have : look (ownedArgs is as) i = none := by
          cases hl : look (ownedArgs is as) i with
          | none => rfl
          | some w => exact absurd (look_ownedArgs_key is as i (by simp [hl])) hni
        simpa [ownedArgs, look] using this
      · exfalso
        have h' : look (borrowedArgs is as) i ≠ none := by simpa [borrowedArgs, look] using h
        exact hni (look_borrowedArgs_key is as i h')
    · cases fl
      · have h' : look (borrowedArgs is as) n ≠ none := by simpa [borrowedArgs, look, hi] using h
        simpa [ownedArgs, look] using ih h'
      · have h' : look (borrowedArgs is as) n ≠ none := by simpa [borrowedArgs, look] using h
        simpa [ownedArgs, look, hi] using ih h'

/-- T1 on the fragment: for every fuel, graph, argument list (any owned/borrowed split), capture
environment and enclosing naive environment that agree on the graph's free names. -/
theorem runPlan_refines (S : Sem P V) (hS : ∀ k, (S.inPlaceIdx k).length ≤ 1) :
    ∀ f, RefHyp f (runPlan S f) (evalG S false f)
  | 0 => by
    intro g args E σ hwf
    simp [wfG] at hwf
  | f + 1 => by
    intro g args E σ hwf hshadow hhead honce hfree
    have ih := runPlan_refines S hS f
    obtain ⟨hnd, hond, hout, hops⟩ := wfG_succ f g hwf
    have hind : g.inputs.Nodup := by
      unfold Graph.defs at hnd
      exact (List.nodup_append.mp (List.nodup_append.mp hnd).1).1
    have hinc : ∀ n, n ∈ g.inputs → n ∉ g.consts.map (·.1) := by
      intro n h1 h2
      unfold Graph.defs at hnd
      exact (List.nodup_append.mp (List.nodup_append.mp hnd).1).2.2 n h1 n h2 rfl
    have hdefs_in : ∀ n, n ∈ g.inputs → n ∈ g.defs := by
      intro n h; simp only [Graph.defs, List.mem_append]; left; left; exact h
    have hdefs_c : ∀ n, n ∈ g.consts.map (·.1) → n ∈ g.defs := by
      intro n h; simp only [Graph.defs, List.mem_append]; left; right; exact h
    have ctx : Ctx g (borrowedArgs g.inputs args ++ g.consts) σ := by
      refine ⟨hnd, ?_, fun n hn => (hshadow n hn).2⟩
      intro n hn
      rw [look_append] at hn
      cases hb : look (borrowedArgs g.inputs args) n with
      | some v => exact List.mem_append_left _ (look_borrowedArgs_key g.inputs args n (by simp [hb]))
      | none =>
        rw [hb] at hn
        exact List.mem_append_right _ (key_of_look _ _ hn)
    have inv0 : Inv g (borrowedArgs g.inputs args ++ g.consts) σ g.ops
        { temp := ownedArgs g.inputs args, rc := rcInit g, env := E }
        (g.inputs.zip (args.map (·.2)) ++ g.consts) := by
      refine ⟨fun n hn => (hshadow n hn).1, hhead, honce, rcInv_init g _ _, ?_, ?_, ?_, ?_⟩
      · intro n hn
        simp only [Graph.valueDefs, List.mem_append]
        left; exact look_ownedArgs_key _ _ _ hn
      · intro n hn
        rw [look_append] at hn
        cases hz : look (g.inputs.zip (args.map (·.2))) n with
        | some v => exact hdefs_in n (look_zip_key g.inputs (args.map (·.2)) n (by simp [hz]))
        | none => rw [hz] at hn; exact hdefs_c n (key_of_look _ _ hn)
      · intro n hn
        show look (ownedArgs g.inputs args) n = none
        rw [look_append] at hn
        cases hb : look (borrowedArgs g.inputs args) n with
        | some v => exact owned_borrowed_disjoint g.inputs args n hind (by simp [hb])
        | none =>
          rw [hb] at hn
          have hk := key_of_look _ _ hn
          cases ho : look (ownedArgs g.inputs args) n with
          | none => rfl
          | some w => exact absurd hk (hinc n (look_ownedArgs_key g.inputs args n (by simp [ho])))
      · intro n hneed
        have hp := look_args_partition g.inputs args n hind
        show (match look (borrowedArgs g.inputs args ++ g.consts) n with
              | some v => some v
              | none => match look (ownedArgs g.inputs args) n with
                | some v => some v
                | none => getInput E n) = look (g.inputs.zip (args.map (·.2)) ++ g.consts ++ σ) n
        rw [look_append (borrowedArgs g.inputs args) g.consts,
          look_append (g.inputs.zip (args.map (·.2)) ++ g.consts) σ,
          look_append (g.inputs.zip (args.map (·.2))) g.consts, hp]
        cases hb : look (borrowedArgs g.inputs args) n with
        | some v => rfl
        | none =>
          simp only []
          cases hc : look g.consts n with
          | some c =>
            have ho : look (ownedArgs g.inputs args) n = none := by
              cases ho : look (ownedArgs g.inputs args) n with
              | none => rfl
              | some w =>
                exact absurd (key_of_look _ _ (by simp [hc])) (hinc n (look_ownedArgs_key g.inputs args n (by simp [ho])))
            simp [ho]
          | none =>
            cases ho : look (ownedArgs g.inputs args) n with
            | some w => rfl
            | none =>
              simp only []
              by_cases hd : n ∈ g.defs
              · rw [(hshadow n (defs_sub_allDefs g n hd)).1, (hshadow n (defs_sub_allDefs g n hd)).2]
              · exact hfree n hd hneed
    have hsim := steps_sim S hS f (runPlan S f) (evalG S false f) ih g _ σ ctx g.ops _ _
      (fun op hop => ⟨hop, hops op hop⟩) inv0
    simp only [runPlan, evalG, List.length_map]
    by_cases hlen : (args.length != g.inputs.length) = true
    · simp [hlen]
    · simp only [hlen]
      cases h1 : stepOps S (runPlan S f) g (borrowedArgs g.inputs args ++ g.consts)
          { temp := ownedArgs g.inputs args, rc := rcInit g, env := E } g.ops with
      | error e1 =>
        cases h2 : evalOps S false (evalG S false f)
            (g.inputs.zip (args.map (·.2)) ++ g.consts ++ σ) g.ops with
        | error e2 => rw [h1, h2] at hsim; simp only [Rel] at hsim; simp [hsim]
        | ok σ' => rw [h1, h2] at hsim; simp [Rel] at hsim
      | ok st' =>
        cases h2 : evalOps S false (evalG S false f)
            (g.inputs.zip (args.map (·.2)) ++ g.consts ++ σ) g.ops with
        | error e2 => rw [h1, h2] at hsim; simp [Rel] at hsim
        | ok σ' =>
          rw [h1, h2] at hsim
          simp only [Rel] at hsim
          obtain ⟨b', hσ, inv'⟩ := hsim
          subst hσ
          simp only []
          apply collectOutputs_eq _ _ _ g.outputs st'.temp hond
          intro n hn
          have hag := inv'.agree n (Or.inr hn)
          have hE : getInput st'.env n = none := inv'.shadowE n (defs_sub_allDefs g n (hout n hn))
          unfold opLookup at hag
          rw [hE] at hag ⊢
          rw [← hag]
          cases look (borrowedArgs g.inputs args ++ g.consts) n <;> cases look st'.temp n <;> rfl

end RtenVerif.ControlFlow
