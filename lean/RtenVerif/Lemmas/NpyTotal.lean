import RtenVerif.Model.Npy

/-!
# Lemmas for the npy model, part 4: the parser is total and consumes its input monotonically

Every sub-parser returns a (strict) suffix of its input; consequently the fuel given to the two
loops (`input length + 1`) is never exhausted, i.e. `Err.fuel` is unreachable and the Rust loops
terminate on every input.
-/
namespace RtenVerif.Npy

/-- `r` is what is left of `inp` after consuming at least one byte. -/
def SSuffix (r inp : List Nat) : Prop := r <:+ inp ∧ r.length < inp.length

theorem SSuffix.trans_suffix {a b c : List Nat} (h1 : SSuffix a b) (h2 : b <:+ c) : SSuffix a c :=
  ⟨h1.1.trans h2, Nat.lt_of_lt_of_le h1.2 h2.length_le⟩

theorem SSuffix.suffix_trans {a b c : List Nat} (h1 : a <:+ b) (h2 : SSuffix b c) : SSuffix a c :=
  ⟨h1.trans h2.1, Nat.lt_of_le_of_lt h1.length_le h2.2⟩

theorem ssuffix_cons (a : Nat) (l : List Nat) : SSuffix l (a :: l) :=
  ⟨List.suffix_cons a l, by simp⟩

theorem ssuffix_append_cons (s : List Nat) (a : Nat) (l : List Nat) : SSuffix l (s ++ a :: l) :=
  ⟨⟨s ++ [a], by simp⟩, by simp; omega⟩

theorem skipWs_suffix (l : List Nat) : skipWs l <:+ l := by
  induction l with
  | nil => exact List.suffix_refl _
  | cons b rest ih =>
    unfold skipWs
    split
    · exact ih.trans (List.suffix_cons b rest)
    · exact List.suffix_refl _

theorem consumeOpt_suffix (c : Nat) (l : List Nat) : consumeOpt c l <:+ l := by
  cases l with
  | nil => exact List.suffix_refl _
  | cons b rest =>
    simp only [consumeOpt]
    split
    · exact List.suffix_cons b rest
    · exact List.suffix_refl _

theorem expect_ok {c : Nat} {inp r : List Nat} (h : expect c inp = .ok r) : inp = c :: r := by
  cases inp with
  | nil => simp [expect] at h
  | cons b rest =>
    simp only [expect] at h
    split at h
    · rename_i hb
      injection h with h
      rw [hb, h]
    · cases h

theorem scanQuote_some {inp s r : List Nat} (h : scanQuote inp = some (s, r)) :
    inp = s ++ 39 :: r := by
  induction inp generalizing s with
  | nil => simp [scanQuote] at h
  | cons b rest ih =>
    simp only [scanQuote] at h
    split at h
    · rename_i hb
      simp only [Option.some.injEq, Prod.mk.injEq] at h
      obtain ⟨rfl, rfl⟩ := h
      simp [hb]
    · cases hq : scanQuote rest with
      | none => simp [hq] at h
      | some p =>
        obtain ⟨s', r'⟩ := p
        simp only [hq, Option.some.injEq, Prod.mk.injEq] at h
        obtain ⟨rfl, rfl⟩ := h
        simp [ih hq]

theorem parseString_ok {inp s r : List Nat} (h : parseString inp = .ok (s, r)) :
    inp = 39 :: (s ++ 39 :: r) := by
  unfold parseString at h
  cases he : expect 39 inp with
  | error e => simp [he] at h
  | ok r0 =>
    simp only [he] at h
    cases hq : scanQuote r0 with
    | none => simp [hq] at h
    | some p =>
      simp only [hq] at h
      injection h with h
      subst h
      rw [expect_ok he, scanQuote_some hq]

theorem parseString_ssuffix {inp s r : List Nat} (h : parseString inp = .ok (s, r)) :
    SSuffix r inp := by
  rw [parseString_ok h]
  exact (ssuffix_append_cons s 39 r).trans_suffix (List.suffix_cons 39 _)

theorem startsWith_length {l p : List Nat} (h : startsWith l p = true) : p.length ≤ l.length := by
  induction p generalizing l with
  | nil => simp
  | cons b bs ih =>
    cases l with
    | nil => simp [startsWith] at h
    | cons a as =>
      simp only [startsWith, Bool.and_eq_true] at h
      have := ih h.2
      simp; omega

theorem parseBool_ssuffix {inp r : List Nat} {b : Bool} (h : parseBool inp = .ok (b, r)) :
    SSuffix r inp := by
  unfold parseBool at h
  split at h
  · rename_i hs
    have := startsWith_length hs
    injection h with h
    simp only [Prod.mk.injEq] at h
    obtain ⟨_, rfl⟩ := h
    exact ⟨List.drop_suffix 4 inp, by simp [bTrue] at this ⊢; omega⟩
  · split at h
    · rename_i hs
      have := startsWith_length hs
      injection h with h
      simp only [Prod.mk.injEq] at h
      obtain ⟨_, rfl⟩ := h
      exact ⟨List.drop_suffix 5 inp, by simp [bFalse] at this ⊢; omega⟩
    · cases h

theorem spanDigits_append_eq (l : List Nat) : (spanDigits l).1 ++ (spanDigits l).2 = l := by
  induction l with
  | nil => rfl
  | cons b rest ih =>
    unfold spanDigits
    split
    · simp [ih]
    · simp

theorem parseUsize_ssuffix {inp r : List Nat} {v : Nat} (h : parseUsize inp = .ok (v, r)) :
    SSuffix r inp := by
  unfold parseUsize at h
  simp only at h
  split at h
  · cases h
  · rename_i hne
    split at h
    · injection h with h
      simp only [Prod.mk.injEq] at h
      obtain ⟨_, rfl⟩ := h
      have := spanDigits_append_eq inp
      cases h1 : (spanDigits inp).1 with
      | nil => simp [h1] at hne
      | cons d ds =>
        rw [h1] at this
        refine ⟨⟨d :: ds, this⟩, ?_⟩
        have hl := congrArg List.length this
        simp at hl; omega
    · cases h

theorem ssuffix_of_head_tail {s : List Nat} {c : Nat} (h : s.head? = some c) : SSuffix s.tail s := by
  cases s with
  | nil => simp at h
  | cons a t => exact ssuffix_cons a t

/-- The `parse_shape` loop: strict consumption, and never out of fuel when `fuel > input length`. -/
theorem shapeLoop_spec (f : Nat) : ∀ inp : List Nat,
    (∀ vs r, shapeLoop f inp = .ok (vs, r) → SSuffix r inp) ∧
    (inp.length < f → shapeLoop f inp ≠ .error .fuel) := by
  induction f with
  | zero =>
    intro inp
    exact ⟨by intro vs r h; simp [shapeLoop] at h, by intro h; omega⟩
  | succ f ih =>
    intro inp
    have hs := skipWs_suffix inp
    constructor
    · intro vs r h
      unfold shapeLoop at h
      simp only at h
      split at h
      · rename_i hh
        injection h with h
        simp only [Prod.mk.injEq] at h
        obtain ⟨_, rfl⟩ := h
        exact (ssuffix_of_head_tail hh).trans_suffix hs
      · cases hp : parseUsize (skipWs inp) with
        | error e => simp [hp] at h
        | ok p =>
          obtain ⟨v, r1⟩ := p
          simp only [hp] at h
          have h1 := parseUsize_ssuffix hp
          cases hl : shapeLoop f (consumeOpt 44 (skipWs r1)) with
          | error e => simp [hl] at h
          | ok q =>
            obtain ⟨vs', r'⟩ := q
            simp only [hl] at h
            injection h with h
            simp only [Prod.mk.injEq] at h
            obtain ⟨_, rfl⟩ := h
            have h2 := (ih _).1 vs' r' hl
            have h3 : consumeOpt 44 (skipWs r1) <:+ r1 :=
              (consumeOpt_suffix _ _).trans (skipWs_suffix r1)
            exact ((h2.trans_suffix h3).trans_suffix h1.1).trans_suffix hs
    · intro hlen
      unfold shapeLoop
      simp only
      split
      · simp
      · cases hp : parseUsize (skipWs inp) with
        | error e =>
          simp only
          unfold parseUsize at hp
          simp only at hp
          split at hp
          · injection hp with hp; subst hp; simp
          · split at hp
            · cases hp
            · injection hp with hp; subst hp; simp
        | ok p =>
          obtain ⟨v, r1⟩ := p
          simp only
          have h1 := parseUsize_ssuffix hp
          have h3 : consumeOpt 44 (skipWs r1) <:+ r1 :=
            (consumeOpt_suffix _ _).trans (skipWs_suffix r1)
          have hlt : (consumeOpt 44 (skipWs r1)).length < f := by
            have a := h3.length_le
            have b := h1.2
            have c := hs.length_le
            omega
          have := (ih _).2 hlt
          cases hl : shapeLoop f (consumeOpt 44 (skipWs r1)) with
          | error e =>
            simp only
            intro he
            injection he with he
            exact this (by rw [hl, he])
          | ok q => simp

theorem parseUsize_ne_fuel (inp : List Nat) : parseUsize inp ≠ .error .fuel := by
  unfold parseUsize
  simp only
  split
  · simp
  · split <;> simp

theorem parseShape_ssuffix {inp vs r : List Nat} (h : parseShape inp = .ok (vs, r)) :
    SSuffix r inp := by
  unfold parseShape at h
  cases he : expect 40 inp with
  | error e => simp [he] at h
  | ok r0 =>
    simp only [he] at h
    rw [expect_ok he]
    exact (((shapeLoop_spec _ r0).1 vs r h).trans_suffix (List.suffix_cons 40 r0))

theorem expect_ne_fuel (c : Nat) (inp : List Nat) : expect c inp ≠ .error .fuel := by
  cases inp with
  | nil => simp [expect]
  | cons b rest =>
    simp only [expect]
    split <;> simp

theorem parseShape_ne_fuel (inp : List Nat) : parseShape inp ≠ .error .fuel := by
  unfold parseShape
  cases he : expect 40 inp with
  | error e =>
    simp only
    intro h
    injection h with h
    exact expect_ne_fuel 40 inp (by rw [he, h])
  | ok r0 =>
    simp only
    exact (shapeLoop_spec _ r0).2 (by omega)

theorem parseString_ne_fuel (inp : List Nat) : parseString inp ≠ .error .fuel := by
  unfold parseString
  cases he : expect 39 inp with
  | error e =>
    simp only
    intro h
    injection h with h
    exact expect_ne_fuel 39 inp (by rw [he, h])
  | ok r0 =>
    simp only
    split <;> simp

theorem parseDescr_ne_fuel (s : List Nat) : parseDescr s ≠ .error .fuel := by
  unfold parseDescr
  split
  · split
    · simp
    · split
      · split <;> simp
      · simp
  · simp

theorem parseBool_ne_fuel (inp : List Nat) : parseBool inp ≠ .error .fuel := by
  unfold parseBool
  split
  · simp
  · split <;> simp

theorem parseValue_spec (key r : List Nat) (fs : Fields) :
    (∀ fs' r', parseValue key r fs = .ok (fs', r') → SSuffix r' r) ∧
    parseValue key r fs ≠ .error .fuel := by
  unfold parseValue
  split
  · cases hp : parseString r with
    | error e =>
      refine ⟨by simp, ?_⟩
      simp only
      intro h; injection h with h
      exact parseString_ne_fuel r (by rw [hp, h])
    | ok p =>
      obtain ⟨d, r1⟩ := p
      simp only
      cases hd : parseDescr d with
      | error e =>
        refine ⟨by simp, ?_⟩
        simp only
        intro h; injection h with h
        exact parseDescr_ne_fuel d (by rw [hd, h])
      | ok dt =>
        simp only
        refine ⟨?_, by simp⟩
        intro fs' r' h
        injection h with h
        simp only [Prod.mk.injEq] at h
        obtain ⟨_, rfl⟩ := h
        exact parseString_ssuffix hp
  · split
    · cases hp : parseBool r with
      | error e =>
        refine ⟨by simp, ?_⟩
        simp only
        intro h; injection h with h
        exact parseBool_ne_fuel r (by rw [hp, h])
      | ok p =>
        obtain ⟨b, r1⟩ := p
        simp only
        refine ⟨?_, by simp⟩
        intro fs' r' h
        injection h with h
        simp only [Prod.mk.injEq] at h
        obtain ⟨_, rfl⟩ := h
        exact parseBool_ssuffix hp
    · split
      · cases hp : parseShape r with
        | error e =>
          refine ⟨by simp, ?_⟩
          simp only
          intro h; injection h with h
          exact parseShape_ne_fuel r (by rw [hp, h])
        | ok p =>
          obtain ⟨sh, r1⟩ := p
          simp only
          refine ⟨?_, by simp⟩
          intro fs' r' h
          injection h with h
          simp only [Prod.mk.injEq] at h
          obtain ⟨_, rfl⟩ := h
          exact parseShape_ssuffix hp
      · exact ⟨by simp, by simp⟩

/-- The dictionary loop of `parse_header`: strict consumption and never out of fuel. -/
theorem dictLoop_spec (f : Nat) : ∀ (inp : List Nat) (fs : Fields),
    (∀ fs' r, dictLoop f inp fs = .ok (fs', r) → SSuffix r inp) ∧
    (inp.length < f → dictLoop f inp fs ≠ .error .fuel) := by
  induction f with
  | zero =>
    intro inp fs
    exact ⟨by intro fs' r h; simp [dictLoop] at h, by intro h; omega⟩
  | succ f ih =>
    intro inp fs
    have hs := skipWs_suffix inp
    unfold dictLoop
    simp only
    split
    · rename_i hh
      refine ⟨?_, by simp⟩
      intro fs' r h
      injection h with h
      simp only [Prod.mk.injEq] at h
      obtain ⟨_, rfl⟩ := h
      exact (ssuffix_of_head_tail hh).trans_suffix hs
    · cases hp : parseString (skipWs inp) with
      | error e =>
        refine ⟨by simp, ?_⟩
        simp only
        intro _ h; injection h with h
        exact parseString_ne_fuel _ (by rw [hp, h])
      | ok p =>
        obtain ⟨key, r⟩ := p
        simp only
        have h1 := parseString_ssuffix hp
        cases he : expect 58 (skipWs r) with
        | error e =>
          refine ⟨by simp, ?_⟩
          simp only
          intro _ h; injection h with h
          exact expect_ne_fuel _ _ (by rw [he, h])
        | ok r1 =>
          simp only
          have h2 : SSuffix r1 r := by
            have := expect_ok he
            have hc : SSuffix r1 (skipWs r) := by rw [this]; exact ssuffix_cons _ _
            exact hc.trans_suffix (skipWs_suffix r)
          have hv := parseValue_spec key (skipWs r1) fs
          cases hpv : parseValue key (skipWs r1) fs with
          | error e =>
            refine ⟨by simp, ?_⟩
            simp only
            intro _ h; injection h with h
            exact hv.2 (by rw [hpv, h])
          | ok q =>
            obtain ⟨fs2, r2⟩ := q
            simp only
            have h3 : SSuffix r2 r1 := (hv.1 fs2 r2 hpv).trans_suffix (skipWs_suffix r1)
            have h4 : consumeOpt 44 (skipWs r2) <:+ r2 :=
              (consumeOpt_suffix _ _).trans (skipWs_suffix r2)
            have hchain : SSuffix (consumeOpt 44 (skipWs r2)) inp :=
              (((SSuffix.suffix_trans h4 h3).trans_suffix h2.1).trans_suffix h1.1).trans_suffix hs
            constructor
            · intro fs' r' h
              have := (ih _ fs2).1 fs' r' h
              exact this.trans_suffix hchain.1
            · intro hlen
              exact (ih _ fs2).2 (by have := hchain.2; omega)

/-- **T3 (a)**: `parse_header` never runs out of fuel: the loops terminate on every input. -/
theorem parseHeaderRest_ne_fuel (inp : List Nat) : parseHeaderRest inp ≠ .error .fuel := by
  unfold parseHeaderRest
  cases he : expect 123 (skipWs inp) with
  | error e =>
    simp only
    intro h; injection h with h
    exact expect_ne_fuel _ _ (by rw [he, h])
  | ok r =>
    simp only
    have := (dictLoop_spec (r.length + 1) r {}).2 (by omega)
    cases hd : dictLoop (r.length + 1) r {} with
    | error e =>
      simp only
      intro h; injection h with h
      exact this (by rw [hd, h])
    | ok p =>
      obtain ⟨fs, rest⟩ := p
      simp only
      split
      · simp
      · split
        · simp
        · split <;> simp

/-- **T3 (b)**: what `parse_header` leaves unread is a strict suffix of its input. -/
theorem parseHeaderRest_ssuffix {inp rest : List Nat} {h : Header}
    (hp : parseHeaderRest inp = .ok (h, rest)) : SSuffix rest inp := by
  unfold parseHeaderRest at hp
  cases he : expect 123 (skipWs inp) with
  | error e => simp [he] at hp
  | ok r =>
    simp only [he] at hp
    cases hd : dictLoop (r.length + 1) r {} with
    | error e => simp [hd] at hp
    | ok p =>
      obtain ⟨fs, rest'⟩ := p
      simp only [hd] at hp
      have h1 := (dictLoop_spec _ r {}).1 fs rest' hd
      have h2 : SSuffix r (skipWs inp) := by rw [expect_ok he]; exact ssuffix_cons _ _
      split at hp
      · cases hp
      · split at hp
        · cases hp
        · split at hp
          · cases hp
          · injection hp with hp
            simp only [Prod.mk.injEq] at hp
            obtain ⟨_, rfl⟩ := hp
            exact (h1.trans_suffix h2.1).trans_suffix (skipWs_suffix inp)

theorem parseHeader_ne_fuel (inp : List Nat) : parseHeader inp ≠ .error .fuel := by
  unfold parseHeader
  cases hp : parseHeaderRest inp with
  | error e =>
    simp only
    intro h; injection h with h
    exact parseHeaderRest_ne_fuel inp (by rw [hp, h])
  | ok p => simp

theorem readExact_err {n : Nat} {inp : List Nat} {e : Err} (h : readExact n inp = .error e) :
    e = .eof := by
  unfold readExact at h
  split at h
  · cases h
  · injection h with h; exact h.symm

theorem readHeader_ne_fuel (file : List Nat) : readHeader file ≠ .error .fuel := by
  intro h
  unfold readHeader at h
  cases h1 : readExact 6 file with
  | error e =>
    rw [h1] at h; simp only at h
    injection h with h; subst h
    exact absurd (readExact_err h1) (by simp)
  | ok p1 =>
    obtain ⟨m, r0⟩ := p1
    rw [h1] at h; simp only at h
    split at h
    · cases h
    · cases h2 : readExact 2 r0 with
      | error e =>
        rw [h2] at h; simp only at h
        injection h with h; subst h
        exact absurd (readExact_err h2) (by simp)
      | ok p2 =>
        obtain ⟨ver, r1⟩ := p2
        rw [h2] at h; simp only at h
        split at h
        · cases h
        · rename_i k _
          cases h3 : readExact k r1 with
          | error e =>
            rw [h3] at h; simp only at h
            injection h with h; subst h
            exact absurd (readExact_err h3) (by simp)
          | ok p3 =>
            obtain ⟨lb, r2⟩ := p3
            rw [h3] at h; simp only at h
            cases h4 : readExact (fromLE lb) r2 with
            | error e =>
              rw [h4] at h; simp only at h
              injection h with h; subst h
              exact absurd (readExact_err h4) (by simp)
            | ok p4 =>
              obtain ⟨hdr, data⟩ := p4
              rw [h4] at h; simp only at h
              split at h
              · cases h5 : parseHeader hdr with
                | error e =>
                  rw [h5] at h; simp only at h
                  injection h with h; subst h
                  exact parseHeader_ne_fuel hdr h5
                | ok hh => rw [h5] at h; simp only at h; cases h
              · cases h

theorem readTyped_ne_fuel (h : Header) (dt : DataType) (data : List Nat) :
    readTyped h dt data ≠ .error .fuel := by
  unfold readTyped
  simp only
  split
  · simp
  · split
    · simp
    · split <;> simp

theorem read_ne_fuel (file : List Nat) : read file ≠ .error .fuel := by
  unfold read
  cases hr : readHeader file with
  | error e =>
    simp only
    intro h; injection h with h; subst h
    exact readHeader_ne_fuel file hr
  | ok p =>
    obtain ⟨h, data⟩ := p
    simp only
    split
    · simp
    · exact readTyped_ne_fuel _ _ _

end RtenVerif.Npy
