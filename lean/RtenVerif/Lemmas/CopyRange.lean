import RtenVerif.Model.CopyRange
import RtenVerif.Lemmas.NArr

/-! C09: the loop-level model of `copy_range_into_slice` computes the row-major gather. -/
namespace RtenVerif.CopyRange
open RtenVerif.Arr

/-- Cartesian product of the index lists in row-major order (first list outermost). -/
def cart : List (List Nat) → List (List Nat)
  | [] => [[]]
  | r :: rs => r.flatMap (fun i => (cart rs).map (i :: ·))

theorem set_append_mid (pre : List Nat) (y v : Nat) (ys : List Nat) :
    (pre ++ y :: ys).set pre.length v = pre ++ v :: ys := by
  induction pre with
  | nil => rfl
  | cons a as ih => simp [ih]

/-- The `dest_offset` loop fills consecutive slots with the source elements in loop order. -/
theorem writeSeq_spec (src : List Nat → Nat) (L : List (List Nat)) (pre rest : List Nat)
    (h : rest.length = L.length) :
    writeSeq src L (pre ++ rest) pre.length = (pre ++ L.map src, pre.length + L.length) := by
  induction L generalizing pre rest with
  | nil =>
    cases rest with
    | nil => simp [writeSeq]
    | cons a as => simp at h
  | cons x xs ih =>
    cases rest with
    | nil => simp at h
    | cons y ys =>
      have h' : ys.length = xs.length := by simpa using h
      have := ih (pre ++ [src x]) ys h'
      simp only [writeSeq, List.foldl_cons] at this ⊢
      rw [set_append_mid]
      have e : pre ++ src x :: ys = (pre ++ [src x]) ++ ys := by simp
      have e2 : pre.length + 1 = (pre ++ [src x]).length := by simp
      rw [e, e2, this]
      simp
      omega

theorem length_flatMap_const {β γ : Type} (l : List β) (f : β → List γ) (n : Nat)
    (h : ∀ x, (f x).length = n) : (l.flatMap f).length = l.length * n := by
  induction l with
  | nil => simp
  | cons a as ih => simp [List.flatMap_cons, ih, h a, Nat.succ_mul]; omega

theorem cart_length (ranges : List (List Nat)) : (cart ranges).length = prodLen ranges := by
  induction ranges with
  | nil => rfl
  | cons r rs ih =>
    simp only [cart, prodLen, List.map_cons, List.foldr_cons]
    rw [length_flatMap_const _ _ (cart rs).length (fun x => by simp)]
    simp only [prodLen] at ih
    rw [ih]

theorem cart_single (r : List Nat) : cart [r] = r.map (fun i => [i]) := by
  induction r with
  | nil => rfl
  | cons a as ih => simp only [cart, List.flatMap_cons, List.map_cons, List.map_nil] at ih ⊢; simp [ih]

theorem loop4_eq_cart (r0 r1 r2 r3 : List Nat) : loop4 r0 r1 r2 r3 = cart [r0, r1, r2, r3] := by
  have c1 := cart_single r3
  have c2 : cart [r2, r3] = r2.flatMap (fun i2 => r3.map (fun i3 => [i2, i3])) := by
    simp only [cart] at c1 ⊢
    rw [c1]; simp [List.map_map, Function.comp_def]
  have c3 : cart [r1, r2, r3] = r1.flatMap (fun i1 => r2.flatMap (fun i2 => r3.map (fun i3 => [i1, i2, i3]))) := by
    have : cart [r1, r2, r3] = r1.flatMap (fun i => (cart [r2, r3]).map (i :: ·)) := rfl
    rw [this, c2]; simp [List.map_flatMap, List.map_map, Function.comp_def]
  have : cart [r0, r1, r2, r3] = r0.flatMap (fun i => (cart [r1, r2, r3]).map (i :: ·)) := rfl
  rw [this, c3]; simp [loop4, List.map_flatMap, List.map_map, Function.comp_def]

theorem cart_map_cons (src : List Nat → Nat) (r : List Nat) (rs : List (List Nat)) :
    (cart (r :: rs)).map src = r.flatMap (fun i => (cart rs).map (fun idx => src (i :: idx))) := by
  simp [cart, List.map_flatMap, List.map_map, Function.comp_def]

/-- The outer loop of the recursive branch, given that the recursive calls are correct. -/
theorem outerLoop_spec (rec : (List Nat → Nat) → List Nat → Except Err (List Nat))
    (src : List Nat → Nat) (rest : List (List Nat))
    (hrec : ∀ s d, d.length = prodLen rest → rec s d = .ok ((cart rest).map s))
    (r0 done remaining : List Nat) (h : remaining.length = r0.length * prodLen rest) :
    outerLoop rec src (prodLen rest) r0 done remaining =
      .ok (done ++ r0.flatMap (fun i => (cart rest).map (fun idx => src (i :: idx))), []) := by
  induction r0 generalizing done remaining with
  | nil =>
    simp only [List.length_nil, Nat.zero_mul] at h
    have : remaining = [] := List.length_eq_zero_iff.mp h
    simp [outerLoop, this]
  | cons i is ih =>
    simp only [List.length_cons, Nat.succ_mul] at h
    simp only [outerLoop]
    rw [if_neg (by omega)]
    rw [hrec _ _ (by rw [List.length_take]; omega)]
    simp only []
    rw [ih _ _ (by rw [List.length_drop]; omega)]
    simp [List.flatMap_cons]

/-- **The loop computes the gather, and no assertion fires**: for at least four ranges and a
destination of exactly `∏ steps` elements, `copy_range_into_slice_inner` returns the source
elements at the Cartesian product of the ranges, in row-major order. -/
theorem copyInner_spec (n : Nat) : ∀ (ranges : List (List Nat)) (src : List Nat → Nat)
    (dest : List Nat), ranges.length = n + 4 → dest.length = prodLen ranges →
    copyInner src dest ranges = .ok ((cart ranges).map src) := by
  induction n with
  | zero =>
    intro ranges src dest hl hd
    match ranges, hl with
    | [r0, r1, r2, r3], _ =>
      simp only [copyInner]
      rw [if_neg (by omega)]
      have := writeSeq_spec src (loop4 r0 r1 r2 r3) [] dest
        (by rw [loop4_eq_cart, cart_length]; exact hd)
      simp only [List.nil_append, List.length_nil] at this
      rw [this, loop4_eq_cart]
  | succ n ih =>
    intro ranges src dest hl hd
    match ranges, hl with
    | r0 :: r1 :: r2 :: r3 :: r4 :: rest, hl =>
      have hl' : (r1 :: r2 :: r3 :: r4 :: rest).length = n + 4 := by simpa using hl
      simp only [copyInner]
      have hsp := outerLoop_spec
        (fun s d => copyInner s d (r1 :: r2 :: r3 :: r4 :: rest)) src (r1 :: r2 :: r3 :: r4 :: rest)
        (fun s d hdl => ih _ s d hl' hdl) r0 [] dest
        (by simpa [prodLen] using hd)
      rw [hsp]
      simp only [List.nil_append, List.isEmpty_nil, if_true]
      rw [cart_map_cons]

/-! ### `copy_range_into_slice` (padding to four dims) -/

theorem prodLen_pad (pad : Nat) (ranges : List (List Nat)) :
    prodLen (List.replicate pad [0] ++ ranges) = prodLen ranges := by
  induction pad with
  | zero => rfl
  | succ p ih =>
    simp only [List.replicate_succ, List.cons_append, prodLen, List.map_cons, List.foldr_cons,
      List.length_singleton, Nat.one_mul] at ih ⊢
    exact ih

theorem cart_pad (pad : Nat) (src : List Nat → Nat) (ranges : List (List Nat)) :
    (cart (List.replicate pad [0] ++ ranges)).map (fun idx => src (idx.drop pad)) =
      (cart ranges).map src := by
  induction pad generalizing src with
  | zero => simp
  | succ p ih =>
    have := ih (fun idx => src idx)
    simp only [List.replicate_succ, List.cons_append, cart, List.flatMap_cons, List.flatMap_nil,
      List.append_nil, List.map_map]
    rw [← ih src]
    apply List.map_congr_left
    intro idx _
    simp

/-- `copy_range_into_slice` for any number of ranges: the gather in row-major order, no panic,
given an output buffer of exactly `∏ steps` elements. -/
theorem copyRangeIntoSlice_spec (ranges : List (List Nat)) (src : List Nat → Nat) (dest : List Nat)
    (hd : dest.length = prodLen ranges) :
    copyRangeIntoSlice src dest ranges = .ok ((cart ranges).map src) := by
  unfold copyRangeIntoSlice
  simp only []
  have hlen : (List.replicate (4 - ranges.length) [0] ++ ranges).length =
      (ranges.length - 4) + 4 := by
    simp; omega
  rw [copyInner_spec _ _ _ _ hlen (by rw [prodLen_pad]; exact hd), cart_pad]

/-! ### the Cartesian product is the reference gather -/

theorem selShape_takes (ranges : List (List Nat)) (shape : List Nat)
    (h : ranges.length = shape.length) :
    selShape (ranges.map Sel.take) shape = ranges.map List.length := by
  induction ranges generalizing shape with
  | nil => cases shape with
    | nil => rfl
    | cons a as => simp at h
  | cons r rs ih =>
    cases shape with
    | nil => simp at h
    | cons n ns => simp only [List.map_cons, selShape, ih ns (by simpa using h)]

theorem cart_eq_idxs (ranges : List (List Nat)) :
    (idxs (ranges.map List.length)).map (selSrc (ranges.map Sel.take)) = cart ranges := by
  induction ranges with
  | nil => rfl
  | cons r rs ih =>
    simp only [List.map_cons, idxs, cart, List.map_flatMap, List.map_map]
    have hr : r = (List.range r.length).map (fun i => r.getD i 0) := by
      apply List.ext_getElem
      · simp
      · intro i h1 h2
        simp [List.getD_eq_getElem?_getD, List.getElem?_eq_getElem h1]
    conv => rhs; rw [hr, List.flatMap_map]
    congr 1
    funext i
    rw [← ih, List.map_map]
    apply List.map_congr_left
    intro js _
    simp [selSrc]

/-- Data of the reference gather with one `take` selector per axis. -/
theorem gather_data {α : Type} [Inhabited α] (A : NArr α) (ranges : List (List Nat))
    (h : ranges.length = A.shape.length) :
    (NArr.gather (ranges.map Sel.take) A).data = (cart ranges).map A.get := by
  simp only [NArr.gather, NArr.ofFn, selShape_takes ranges A.shape h]
  rw [← cart_eq_idxs, List.map_map]
  rfl

end RtenVerif.CopyRange
