import RtenVerif.Lemmas.NpyRead

/-!
# Lemmas for the npy model, part 5: Fortran (column-major) order

`fortran_order_to_row_major` is the transpose permutation on the data: the element the reader
puts at row-major position of a multi-index is the file's element at the column-major position of
the same multi-index; the index map is a bijection of `[0, ∏ shape)` with an explicit inverse.
-/
namespace RtenVerif.Npy

/-- `idx` is a valid multi-index of `shape`. -/
def validIdx : List Nat → List Nat → Prop
  | [], [] => True
  | d :: ds, i :: is => i < d ∧ validIdx ds is
  | _, _ => False

/-- Row-major (C order) linear offset: last dimension fastest. -/
def rowOffset : List Nat → List Nat → Nat
  | _ :: ds, i :: is => i * prod ds + rowOffset ds is
  | _, _ => 0

/-- Column-major mixed-radix digits of `k`: first dimension fastest (inverse of `fortranOffset`). -/
def fUnravel : List Nat → Nat → List Nat
  | [], _ => []
  | d :: ds, k => k % d :: fUnravel ds (k / d)

theorem prod_cons_pos {d : Nat} {ds : List Nat} {i : Nat} (h : i < prod (d :: ds)) :
    0 < d ∧ 0 < prod ds := by
  simp only [prod] at h
  constructor
  · rcases Nat.eq_zero_or_pos d with h0 | h0
    · subst h0; simp at h
    · exact h0
  · rcases Nat.eq_zero_or_pos (prod ds) with h0 | h0
    · rw [h0] at h; simp at h
    · exact h0

theorem unravel_valid (shape : List Nat) : ∀ i, i < prod shape → validIdx shape (unravel shape i) := by
  induction shape with
  | nil => intro i _; simp [unravel, validIdx]
  | cons d ds ih =>
    intro i hi
    obtain ⟨hd, hp⟩ := prod_cons_pos hi
    simp only [unravel, validIdx]
    exact ⟨Nat.mod_lt _ hd, ih _ (Nat.mod_lt _ hp)⟩

theorem rowOffset_lt (shape : List Nat) : ∀ idx, validIdx shape idx → rowOffset shape idx < prod shape := by
  induction shape with
  | nil =>
    intro idx h
    cases idx <;> simp [validIdx, rowOffset, prod] at *
  | cons d ds ih =>
    intro idx h
    cases idx with
    | nil => simp [validIdx] at h
    | cons i is =>
      simp only [validIdx] at h
      have hr := ih is h.2
      simp only [rowOffset, prod]
      have h1 : (i + 1) * prod ds ≤ d * prod ds := Nat.mul_le_mul_right _ h.1
      rw [Nat.succ_mul] at h1
      omega

theorem fortranOffset_lt (shape : List Nat) :
    ∀ idx, validIdx shape idx → fortranOffset shape idx < prod shape := by
  induction shape with
  | nil =>
    intro idx h
    cases idx <;> simp [validIdx, fortranOffset, prod] at *
  | cons d ds ih =>
    intro idx h
    cases idx with
    | nil => simp [validIdx] at h
    | cons i is =>
      simp only [validIdx] at h
      have hr := ih is h.2
      simp only [fortranOffset, prod]
      have h1 : d * (fortranOffset ds is + 1) ≤ d * prod ds := Nat.mul_le_mul_left _ hr
      rw [Nat.mul_succ] at h1
      omega

theorem rowOffset_unravel (shape : List Nat) :
    ∀ i, i < prod shape → rowOffset shape (unravel shape i) = i := by
  induction shape with
  | nil => intro i hi; simp [prod] at hi; simp [unravel, rowOffset, hi]
  | cons d ds ih =>
    intro i hi
    obtain ⟨hd, hp⟩ := prod_cons_pos hi
    simp only [prod] at hi
    have hdiv : i / prod ds < d := (Nat.div_lt_iff_lt_mul hp).mpr hi
    simp only [unravel, rowOffset, Nat.mod_eq_of_lt hdiv, ih _ (Nat.mod_lt _ hp)]
    rw [Nat.mul_comm]; exact Nat.div_add_mod i (prod ds)

theorem unravel_rowOffset (shape : List Nat) :
    ∀ idx, validIdx shape idx → unravel shape (rowOffset shape idx) = idx := by
  induction shape with
  | nil =>
    intro idx h
    cases idx <;> simp [validIdx, unravel] at *
  | cons d ds ih =>
    intro idx h
    cases idx with
    | nil => simp [validIdx] at h
    | cons i is =>
      simp only [validIdx] at h
      have hr := rowOffset_lt ds is h.2
      have hp : 0 < prod ds := Nat.lt_of_le_of_lt (Nat.zero_le _) hr
      have h1 : (i * prod ds + rowOffset ds is) / prod ds = i := by
        rw [Nat.mul_comm, Nat.mul_add_div hp, Nat.div_eq_of_lt hr, Nat.add_zero]
      have h2 : (i * prod ds + rowOffset ds is) % prod ds = rowOffset ds is := by
        rw [Nat.mul_comm, Nat.mul_add_mod, Nat.mod_eq_of_lt hr]
      simp only [rowOffset, unravel, h1, h2, Nat.mod_eq_of_lt h.1, ih is h.2]

theorem fUnravel_valid (shape : List Nat) : ∀ k, k < prod shape → validIdx shape (fUnravel shape k) := by
  induction shape with
  | nil => intro k _; simp [fUnravel, validIdx]
  | cons d ds ih =>
    intro k hk
    obtain ⟨hd, _⟩ := prod_cons_pos hk
    simp only [prod] at hk
    simp only [fUnravel, validIdx]
    refine ⟨Nat.mod_lt _ hd, ih _ ?_⟩
    exact (Nat.div_lt_iff_lt_mul hd).mpr (by rw [Nat.mul_comm]; exact hk)

theorem fortranOffset_fUnravel (shape : List Nat) :
    ∀ k, k < prod shape → fortranOffset shape (fUnravel shape k) = k := by
  induction shape with
  | nil => intro k hk; simp [prod] at hk; simp [fUnravel, fortranOffset, hk]
  | cons d ds ih =>
    intro k hk
    obtain ⟨hd, _⟩ := prod_cons_pos hk
    simp only [prod] at hk
    have : k / d < prod ds := (Nat.div_lt_iff_lt_mul hd).mpr (by rw [Nat.mul_comm]; exact hk)
    simp only [fUnravel, fortranOffset, ih _ this]
    exact Nat.mod_add_div k d

theorem fUnravel_fortranOffset (shape : List Nat) :
    ∀ idx, validIdx shape idx → fUnravel shape (fortranOffset shape idx) = idx := by
  induction shape with
  | nil =>
    intro idx h
    cases idx <;> simp [validIdx, fUnravel] at *
  | cons d ds ih =>
    intro idx h
    cases idx with
    | nil => simp [validIdx] at h
    | cons i is =>
      simp only [validIdx] at h
      have hd : 0 < d := Nat.lt_of_le_of_lt (Nat.zero_le _) h.1
      have h1 : (i + d * fortranOffset ds is) % d = i := by
        rw [Nat.add_mul_mod_self_left, Nat.mod_eq_of_lt h.1]
      have h2 : (i + d * fortranOffset ds is) / d = fortranOffset ds is := by
        rw [Nat.add_mul_div_left _ _ hd, Nat.div_eq_of_lt h.1, Nat.zero_add]
      simp only [fortranOffset, fUnravel, h1, h2, ih is h.2]

/-- Row-major position → column-major position of the same multi-index. -/
def fSigma (shape : List Nat) (i : Nat) : Nat := fortranOffset shape (unravel shape i)
/-- Column-major position → row-major position of the same multi-index. -/
def fTau (shape : List Nat) (k : Nat) : Nat := rowOffset shape (fUnravel shape k)

theorem fSigma_lt (shape : List Nat) (i : Nat) (h : i < prod shape) : fSigma shape i < prod shape :=
  fortranOffset_lt shape _ (unravel_valid shape i h)
theorem fTau_lt (shape : List Nat) (k : Nat) (h : k < prod shape) : fTau shape k < prod shape :=
  rowOffset_lt shape _ (fUnravel_valid shape k h)
theorem fTau_fSigma (shape : List Nat) (i : Nat) (h : i < prod shape) : fTau shape (fSigma shape i) = i := by
  unfold fTau fSigma
  rw [fUnravel_fortranOffset shape _ (unravel_valid shape i h), rowOffset_unravel shape i h]
theorem fSigma_fTau (shape : List Nat) (k : Nat) (h : k < prod shape) : fSigma shape (fTau shape k) = k := by
  unfold fTau fSigma
  rw [unravel_rowOffset shape _ (fUnravel_valid shape k h), fortranOffset_fUnravel shape k h]

/-- For rank < 2 the two orders coincide. -/
theorem fSigma_low_rank (shape : List Nat) (hr : shape.length < 2) (i : Nat) (h : i < prod shape) :
    fSigma shape i = i := by
  unfold fSigma
  match shape, hr, h with
  | [], _, h => simp [prod] at h; simp [unravel, fortranOffset, h]
  | [d], _, h =>
    simp [prod] at h
    simp [unravel, fortranOffset, prod, Nat.mod_eq_of_lt h]

/-- Pointwise specification of `fortran_order_to_row_major`, all ranks. -/
theorem fortranToRowMajor_getD (shape vals : List Nat) (hlen : vals.length = prod shape)
    (i : Nat) (hi : i < prod shape) :
    (fortranToRowMajor shape vals).getD i 0 = vals.getD (fSigma shape i) 0 := by
  unfold fortranToRowMajor
  split
  · rename_i hr
    rw [fSigma_low_rank shape hr i hi]
  · have : i < vals.length := by omega
    simp [List.getD_eq_getElem?_getD, this, fSigma]

/-- Serialising row-major data in column-major order (what a Fortran-order writer stores). -/
def toFortranOrder (shape vals : List Nat) : List Nat :=
  (List.range vals.length).map (fun k => vals.getD (fTau shape k) 0)

theorem toFortranOrder_length (shape vals : List Nat) : (toFortranOrder shape vals).length = vals.length := by
  simp [toFortranOrder]

theorem fortranToRowMajor_toFortranOrder (shape vals : List Nat) (hlen : vals.length = prod shape) :
    fortranToRowMajor shape (toFortranOrder shape vals) = vals := by
  apply List.ext_getElem
  · rw [fortranToRowMajor_length, toFortranOrder_length]
  · intro i h1 h2
    have hi : i < prod shape := by omega
    have hs := fSigma_lt shape i hi
    have h := fortranToRowMajor_getD shape (toFortranOrder shape vals)
      (by rw [toFortranOrder_length, hlen]) i hi
    rw [List.getD_eq_getElem?_getD, List.getElem?_eq_getElem h1] at h
    simp only [Option.getD_some] at h
    rw [h]
    have hs' : fSigma shape i < vals.length := by omega
    simp [toFortranOrder, List.getD_eq_getElem?_getD, hs', fTau_fSigma shape i hi, h2]

end RtenVerif.Npy

namespace RtenVerif.Npy

/-! ## Reading a Fortran-order file -/

/-- Header dictionary as NumPy writes it for either order (rten's own writer only emits
`fortran_order: False`, for which this is `dictText`). Specification of a foreign writer. -/
def dictTextF (dt : DataType) (fo : Bool) (shape : List Nat) : List Nat :=
  pre1 ++ dt.descr ++
    [39, 44, 32, 39, 102, 111, 114, 116, 114, 97, 110, 95, 111, 114, 100, 101, 114, 39, 58, 32] ++
    (if fo then bTrue else bFalse) ++
    [44, 32, 39, 115, 104, 97, 112, 101, 39, 58, 32, 40] ++ dimsText shape ++ post

theorem dictTextF_false (dt : DataType) (shape : List Nat) : dictTextF dt false shape = dictText dt shape := by
  simp [dictTextF, dictText, pre2, bFalse]

theorem parseHeaderRest_dictTextF (dt : DataType) (fo : Bool) (shape : List Nat)
    (hall : ∀ d ∈ shape, d < usizeLimit) (tail : List Nat) :
    parseHeaderRest (dictTextF dt fo shape ++ tail) =
      .ok (⟨⟨false, dt.kind, dt.itemSize⟩, fo, shape⟩, tail) := by
  cases fo
  · rw [dictTextF_false]; exact parseHeaderRest_dictText dt shape hall tail
  · have hS := parseShape_dimsText shape hall (44 :: 32 :: 125 :: tail)
    have hD := scanQuote_append dt.descr
      ([44, 32, 39, 102, 111, 114, 116, 114, 97, 110, 95, 111, 114, 100, 101, 114, 39, 58, 32,
        84, 114, 117, 101, 44, 32, 39, 115, 104, 97, 112, 101, 39, 58, 32, 40] ++
        (dimsText shape ++ 41 :: 44 :: 32 :: 125 :: tail)) (descr_no_quote dt)
    unfold parseHeaderRest dictTextF pre1 post bTrue
    simp only [List.cons_append, List.nil_append] at hD
    simp only [if_true, List.cons_append, List.nil_append, List.append_assoc, skipWs, isWs, expect]
    simp only [Nat.reduceEqDiff, Bool.or_self, Bool.false_eq_true, if_false, if_true, decide_false]
    generalize hF : (List.length _ + 1) = F
    obtain ⟨k, rfl⟩ : ∃ k, F = k + 4 := ⟨F - 4, by simp at hF; omega⟩
    simp [dictLoop, skipWs, isWs, parseString, expect, scanQuote, parseValue, kDescr, kFortran, kShape,
      hD, parseDescr_descr, parseBool, startsWith, bTrue, bFalse, consumeOpt, hS]

/-- A format-1.0 file: magic, version, `u16` length, dictionary text, data. -/
def npyFileV1 (dict data : List Nat) : List Nat :=
  magicBytes ++ [1, 0] ++ toLE 2 dict.length ++ dict ++ data

/-- Framing: for an ASCII dictionary that fits the `u16` length, `read_header` hands exactly the
dictionary text to `parse_header` and leaves exactly the data. -/
theorem readHeader_npyFileV1 (dict data : List Nat) (hlen : dict.length ≤ 65535)
    (hascii : ∀ b ∈ dict, b < 128) :
    readHeader (npyFileV1 dict data) =
      match parseHeader dict with
      | .error e => .error e
      | .ok h => .ok (h, data) := by
  have hle : fromLE (toLE 2 dict.length) = dict.length := fromLE_toLE 2 _ (by omega)
  obtain ⟨l0, l1, hl⟩ : ∃ a b, toLE 2 dict.length = [a, b] := by simp [toLE]
  rw [hl] at hle
  unfold npyFileV1 readHeader readExact magicBytes
  simp only [hl, List.cons_append, List.nil_append, List.append_assoc, List.length_cons,
    List.length_append]
  simp [hle, validUtf8_ascii _ hascii]
  cases parseHeader dict <;> rfl

theorem dictTextF_ascii (dt : DataType) (fo : Bool) (shape : List Nat) :
    ∀ b ∈ dictTextF dt fo shape ++ [10], b < 128 := by
  unfold dictTextF
  apply ascii_append
  · apply ascii_append
    · apply ascii_append
      · apply ascii_append
        · apply ascii_append
          · apply ascii_append (ascii_append pre1_ascii (descr_ascii dt))
            decide
          · cases fo <;> decide
        · decide
      · exact dimsText_ascii shape
    · exact post_ascii
  · decide

/-- **Fortran-order round trip**: a format-1.0 file whose header says `fortran_order: True` and
whose data are the elements of `a` in column-major order reads back as `a`. -/
theorem read_fortran_file (a : Array)
    (hshape : prod (a.shape.map (fun d => max d 1)) < isizeLimit)
    (hbytes : prod a.shape * a.dtype.itemSize < usizeLimit)
    (hlen : a.vals.length = prod a.shape)
    (hvals : ∀ x ∈ a.vals, ValidElem a.dtype x)
    (hdict : (dictTextF a.dtype true a.shape ++ [10]).length ≤ 65535) :
    read (npyFileV1 (dictTextF a.dtype true a.shape ++ [10])
      (((toFortranOrder a.shape a.vals).map (encodeElem a.dtype)).flatten)) = .ok a := by
  obtain ⟨dt, shape, vals⟩ := a
  simp only at hshape hbytes hlen hvals hdict
  have hdims := dims_lt_of_prod shape hshape
  have hF := toFortranOrder_length shape vals
  have hxs : ∀ x ∈ (toFortranOrder shape vals).map (encodeElem dt), x.length = dt.itemSize := by
    intro x hx
    obtain ⟨y, _, rfl⟩ := List.mem_map.mp hx
    exact encodeElem_length dt y
  have hflen : (((toFortranOrder shape vals).map (encodeElem dt)).flatten).length =
      prod shape * dt.itemSize := by
    rw [length_flatten_uniform dt.itemSize _ hxs, List.length_map, hF, hlen]
  have hchunks : chunks dt.itemSize (prod shape) (((toFortranOrder shape vals).map (encodeElem dt)).flatten) =
      (toFortranOrder shape vals).map (encodeElem dt) := by
    have := chunks_flatten dt.itemSize ((toFortranOrder shape vals).map (encodeElem dt)) hxs []
    simpa [hF, hlen] using this
  have hvalsF : ∀ x ∈ toFortranOrder shape vals, ValidElem dt x := by
    intro x hx
    simp only [toFortranOrder, List.mem_map, List.mem_range] at hx
    obtain ⟨k, hk, rfl⟩ := hx
    have hk' : k < prod shape := by omega
    have ht := fTau_lt shape k hk'
    have ht' : fTau shape k < vals.length := by omega
    rw [List.getD_eq_getElem?_getD, List.getElem?_eq_getElem ht']
    exact hvals _ (List.getElem_mem ht')
  have hdec : ((toFortranOrder shape vals).map (encodeElem dt)).map (decodeElem dt) =
      toFortranOrder shape vals := by
    rw [List.map_map]
    conv => rhs; rw [← List.map_id (toFortranOrder shape vals)]
    apply List.map_congr_left
    intro x hx
    exact decode_encode dt x (hvalsF x hx)
  have hparse : parseHeader (dictTextF dt true shape ++ [10]) =
      .ok ⟨⟨false, dt.kind, dt.itemSize⟩, true, shape⟩ := by
    unfold parseHeader
    rw [parseHeaderRest_dictTextF dt true shape hdims]
  unfold read
  rw [readHeader_npyFileV1 _ _ hdict (dictTextF_ascii dt true shape), hparse]
  simp only [dataTypeOf_descr]
  unfold readTyped
  simp only [guard_of_prod shape hshape, hflen]
  have h1 : ¬ usizeLimit ≤ prod shape * dt.itemSize := by omega
  simp only [h1, if_false, Nat.lt_irrefl, Bool.false_and, Bool.false_eq_true, if_true]
  rw [List.take_of_length_le (Nat.le_of_eq hflen), hchunks, hdec,
    fortranToRowMajor_toFortranOrder shape vals hlen]

end RtenVerif.Npy
