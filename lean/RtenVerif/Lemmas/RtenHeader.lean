import RtenVerif.Model.RtenHeader

namespace RtenVerif.RtenHeader

theorem length_leBytes (n v : Nat) : (leBytes n v).length = n := by
  induction n generalizing v with
  | zero => rfl
  | succ n ih => simp [leBytes, ih]

theorem leValue_leBytes (n v : Nat) (h : v < 256 ^ n) : leValue (leBytes n v) = v := by
  induction n generalizing v with
  | zero => simp [leBytes, leValue]; omega
  | succ n ih =>
    simp only [leBytes, leValue]
    have h2 : v / 256 < 256 ^ n := by
      rw [Nat.pow_succ] at h
      exact Nat.div_lt_of_lt_mul (by omega)
    rw [ih _ h2]
    omega

theorem leBytes_lt (n v : Nat) : ∀ b ∈ leBytes n v, b < 256 := by
  induction n generalizing v with
  | zero => simp [leBytes]
  | succ n ih =>
    intro b hb
    simp only [leBytes, List.mem_cons] at hb
    rcases hb with rfl | hb
    · omega
    · exact ih _ b hb

theorem leValue_lt (bs : List Nat) (h : ∀ b ∈ bs, b < 256) : leValue bs < 256 ^ bs.length := by
  induction bs with
  | nil => simp [leValue]
  | cons b bs ih =>
    have hb := h b List.mem_cons_self
    have := ih (fun x hx => h x (List.mem_cons_of_mem _ hx))
    simp only [leValue, List.length_cons, Nat.pow_succ]
    omega

theorem leBytes_leValue (bs : List Nat) (h : ∀ b ∈ bs, b < 256) :
    leBytes bs.length (leValue bs) = bs := by
  induction bs with
  | nil => rfl
  | cons b bs ih =>
    have hb := h b List.mem_cons_self
    have := ih (fun x hx => h x (List.mem_cons_of_mem _ hx))
    simp only [leValue, List.length_cons, leBytes]
    have h1 : (b + 256 * leValue bs) % 256 = b := by omega
    have h2 : (b + 256 * leValue bs) / 256 = leValue bs := by omega
    rw [h1, h2, this]

theorem readN_mid (a b c : List Nat) : readN (a ++ (b ++ c)) a.length b.length = some b := by
  unfold readN
  have : a.length + b.length ≤ (a ++ (b ++ c)).length := by simp
  simp

theorem readN_some {buf : List Nat} {pos n : Nat} {r : List Nat} (h : readN buf pos n = some r) :
    pos + n ≤ buf.length ∧ r = (buf.drop pos).take n ∧ r.length = n := by
  unfold readN at h
  split at h
  · rename_i hle
    injection h with h
    refine ⟨hle, h.symm, ?_⟩
    rw [← h]; simp; omega
  · cases h

theorem take32 (buf : List Nat) : buf.take 32 = List.take 4 (List.drop 0 buf) ++ List.take 4 (List.drop 4 buf) ++ List.take 8 (List.drop 8 buf) ++ List.take 8 (List.drop 16 buf) ++ List.take 8 (List.drop 24 buf) := by
  have h1 : buf.take 32 = buf.take 4 ++ (buf.drop 4).take 28 := List.take_add (i := 4) (j := 28)
  have h2 : (buf.drop 4).take 28 = (buf.drop 4).take 4 ++ ((buf.drop 4).drop 4).take 24 := List.take_add (i := 4) (j := 24)
  have h3 : (buf.drop 8).take 24 = (buf.drop 8).take 8 ++ ((buf.drop 8).drop 8).take 16 := List.take_add (i := 8) (j := 16)
  have h4 : (buf.drop 16).take 16 = (buf.drop 16).take 8 ++ ((buf.drop 16).drop 8).take 8 := List.take_add (i := 8) (j := 8)
  simp only [List.drop_drop] at h2 h3 h4
  rw [h1, h2, h3, h4]
  simp [List.append_assoc]

end RtenVerif.RtenHeader
