import RtenVerif.Lemmas.OnnxRefValid
/-! `Concat (Split x) = x` for a two-way split at any axis and any split point. -/
namespace RtenVerif.OnnxRef

theorem getN_withAt_same (l : List Nat) (k v : Nat) (h : k < l.length) : getN (withAt l k v) k = v := by
  rw [getN_withAt]; simp [h]

theorem getN_withAt_ne (l : List Nat) (k v j : Nat) (h : k ≠ j) : getN (withAt l k v) j = getN l j := by
  rw [getN_withAt]; simp [h]

theorem withAt_withAt (l : List Nat) (k a b : Nat) : withAt (withAt l k a) k b = withAt l k b := by
  simp [withAt, List.set_set]

/-- An index valid for `s` whose `ax` coordinate is below `n` is valid for `s` with extent `n` at `ax`. -/
theorem valid_withAt_shape (s idx : List Nat) (ax n : Nat) (hv : validIdx s idx = true)
    (hlt : getN idx ax < n) : validIdx (withAt s ax n) idx = true := by
  rw [validIdx_iff] at hv ⊢
  refine ⟨by simpa using hv.1, ?_⟩
  intro k hk
  rw [getN_withAt]
  split
  · next h => rw [← h.1]; exact hlt
  · exact hv.2 k (by simpa using hk)

theorem concat2_narrow (x : Tensor) (ax k : Nat) (hwf : x.data.length = prod x.shape)
    (hax : ax < x.shape.length) (hk : k ≤ getN x.shape ax) :
    concat2 ax (narrow x ax 0 k) (narrow x ax k (getN x.shape ax - k)) = x := by
  have hshape : withAt (narrow x ax 0 k).shape ax
      (getN (narrow x ax 0 k).shape ax + getN (narrow x ax k (getN x.shape ax - k)).shape ax) = x.shape := by
    simp only [narrow, build]
    rw [getN_withAt_same _ _ _ hax, getN_withAt_same _ _ _ hax, withAt_withAt]
    have : k + (getN x.shape ax - k) = getN x.shape ax := by omega
    rw [this, withAt_self]
  unfold concat2
  simp only [hshape]
  rw [← build_get x hwf]
  simp only [build_get x hwf]
  apply Eq.trans (build_congr x.shape _ x.get _) (build_get x hwf)
  intro idx hv
  have hv' := (validIdx_iff _ _).mp hv
  have hda : getN (narrow x ax 0 k).shape ax = k := by
    simp only [narrow, build]; exact getN_withAt_same _ _ _ hax
  rw [hda]
  have hi : getN idx ax < getN x.shape ax := hv'.2 ax hax
  by_cases hlt : getN idx ax < k
  · simp only [hlt, if_true]
    unfold narrow
    rw [get_build _ _ _ (valid_withAt_shape _ _ _ _ hv hlt)]
    simp only [Nat.add_zero, withAt_self]
  · simp only [hlt, if_false]
    unfold narrow
    have hidxlen : ax < idx.length := by rw [hv'.1]; exact hax
    have hv2 : validIdx (withAt x.shape ax (getN x.shape ax - k)) (withAt idx ax (getN idx ax - k)) = true := by
      rw [validIdx_iff]
      refine ⟨by simp [hv'.1], ?_⟩
      intro j hj
      rw [getN_withAt, getN_withAt]
      by_cases h : ax = j
      · subst h; simp [hax, hidxlen]; omega
      · simp [h]; exact hv'.2 j (by simpa using hj)
    rw [get_build _ _ _ hv2, getN_withAt_same _ _ _ hidxlen, withAt_withAt]
    have : getN idx ax - k + k = getN idx ax := by omega
    rw [this, withAt_self]

end RtenVerif.OnnxRef
