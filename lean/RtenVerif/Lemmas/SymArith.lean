import RtenVerif.Model.Sym

/-! Integer facts about truncating division and `div_ceil` used by the C11 proofs. -/
namespace RtenVerif.Sym

theorem sign_split (x : Int) : ∃ x', 0 ≤ x' ∧ (x = x' ∨ x = -x') := by
  by_cases h : 0 ≤ x
  · exact ⟨x, h, .inl rfl⟩
  · exact ⟨-x, by omega, .inr (by omega)⟩

theorem tdiv_tdiv_nonneg {x b c : Int} (hx : 0 ≤ x) (hb : 0 ≤ b) :
    (x.tdiv b).tdiv c = x.tdiv (b * c) := by
  have h1 : 0 ≤ x.tdiv b := Int.tdiv_nonneg hx hb
  rw [Int.tdiv_eq_ediv_of_nonneg h1, Int.tdiv_eq_ediv_of_nonneg hx, Int.tdiv_eq_ediv_of_nonneg hx,
    Int.ediv_ediv_of_nonneg hb]

/-- Truncating division nests: `x / b / c = x / (b * c)` for all signs. -/
theorem tdiv_tdiv (x b c : Int) : (x.tdiv b).tdiv c = x.tdiv (b * c) := by
  obtain ⟨x', hx', rfl | rfl⟩ := sign_split x <;>
  obtain ⟨b', hb', rfl | rfl⟩ := sign_split b <;>
  obtain ⟨c', hc', rfl | rfl⟩ := sign_split c <;>
  simp only [Int.neg_tdiv, Int.tdiv_neg, Int.neg_mul, Int.mul_neg, Int.neg_neg,
    tdiv_tdiv_nonneg hx' hb']

/-- A common non-zero factor cancels under truncating division. -/
theorem mul_tdiv_mul_cancel (t a b : Int) (ht : t ≠ 0) : (t * a).tdiv (t * b) = a.tdiv b := by
  by_cases h : 0 < t
  · exact Int.mul_tdiv_mul_of_pos a b h
  · have h' : 0 < -t := by omega
    have := Int.mul_tdiv_mul_of_pos a b h'
    simp only [Int.neg_mul, Int.neg_tdiv, Int.tdiv_neg, Int.neg_neg] at this
    exact this

/-- For a positive divisor the code's `div_ceil` is the mathematical ceiling. -/
theorem divCeilI_pos {x y : Int} (hy : 0 < y) : divCeilI x y = -((-x) / y) := by
  unfold divCeilI
  simp only []
  have hyn : ¬ y < 0 := by omega
  rw [Int.neg_ediv, Int.tdiv_eq_ediv]
  have hs : y.sign = 1 := Int.sign_eq_one_of_pos hy
  by_cases hd : y ∣ x
  · have : x.tmod y = 0 := Int.tmod_eq_zero_of_dvd hd
    simp [this, hd]
  · have : x.tmod y ≠ 0 := fun h => hd (Int.dvd_of_tmod_eq_zero h)
    simp only [this, hd, hs, ne_eq, not_false_eq_true, ↓reduceIte, or_false]
    by_cases hx : 0 ≤ x
    · have : ¬ x < 0 := by omega
      simp [hx, this, hyn]; omega
    · have : x < 0 := by omega
      simp [hx, this, hyn]; omega

/-- `ceil(ceil(x / b) / c) = ceil(x / (b * c))` for positive `b`, `c`. -/
theorem divCeilI_divCeilI {x b c : Int} (hb : 0 < b) (hc : 0 < c) :
    divCeilI (divCeilI x b) c = divCeilI x (b * c) := by
  rw [divCeilI_pos hb, divCeilI_pos hc, divCeilI_pos (Int.mul_pos hb hc), Int.neg_neg,
    Int.ediv_ediv_of_nonneg (by omega)]

theorem divCeilI_self {x : Int} (hx : x ≠ 0) : divCeilI x x = 1 := by
  unfold divCeilI
  simp [Int.tdiv_self hx]

end RtenVerif.Sym
