import RtenVerif.Lemmas.Perm
import RtenVerif.Lemmas.Gather

/-! C09: the storage-window invariant is preserved by the axis re-ordering operations
(`min_data_len` only depends on the multiset of `(size, stride)` pairs). -/
namespace RtenVerif.Layout
open RtenVerif.Arr RtenVerif.Overlap

theorem minDataLen_perm (d1 d2 : Dims) (h : d1.Perm d2) : minDataLen d1 = minDataLen d2 := by
  unfold minDataLen
  have hany : ((sizes d1).any (· == 0)) = ((sizes d2).any (· == 0)) := by
    have hs : (sizes d1).Perm (sizes d2) := h.map _
    rw [Bool.eq_iff_iff, List.any_eq_true, List.any_eq_true]
    constructor
    · rintro ⟨x, hx, hp⟩; exact ⟨x, hs.mem_iff.mp hx, hp⟩
    · rintro ⟨x, hx, hp⟩; exact ⟨x, hs.mem_iff.mpr hx, hp⟩
  rw [hany, (h.map (fun p => (p.1 - 1) * p.2)).sum_nat]

theorem minDataLen_cons_one (x : Nat) (d : Dims) : minDataLen ((1, x) :: d) = minDataLen d := by
  unfold minDataLen
  simp only [sizes, List.map_cons, List.any_cons, List.sum_cons]
  simp only [Nat.sub_self, Nat.zero_mul, Nat.zero_add]
  rw [show ((1 : Nat) == 0) = false from rfl, Bool.false_or]
  rfl

theorem map_getD_range' {β : Type} (d : List β) (x : β) :
    (List.range d.length).map (fun i => d.getD i x) = d := by
  apply List.ext_getElem
  · simp
  · intro i h1 h2
    simp [List.getD_eq_getElem?_getD, List.getElem?_eq_getElem h2]

theorem WF_transposed (v : View) (h : WF v) : WF (transposed v) := by
  unfold WF at h ⊢
  have : (transposed v).dims = v.dims.reverse := by
    simp only [transposed, permuteIter]
    rw [List.map_reverse, map_getD_range']
  rw [this, minDataLen_perm _ _ (List.reverse_perm _)]
  exact h

theorem WF_permuted (v v' : View) (p : List Nat) (hp : permuted v p = .ok v') (h : WF v) :
    WF v' := by
  unfold permuted at hp
  split at hp
  · rename_i hc
    injection hp with hp
    subst hp
    unfold WF at h ⊢
    have hperm := perm_of_valid _ _ hc
    have : (permuteIter v.dims p).Perm v.dims := by
      have := hperm.map (fun i => v.dims.getD i (0, 0))
      rw [map_getD_range'] at this
      exact this
    simp only []
    rw [minDataLen_perm _ _ this]
    exact h
  · cases hp

theorem WF_moveAxis (v v' : View) (a b : Nat) (hp : moveAxis v a b = .ok v') (h : WF v) :
    WF v' := by
  unfold moveAxis at hp
  split at hp
  · rename_i hc
    injection hp with hp
    subst hp
    unfold WF at h ⊢
    obtain ⟨ha, hb⟩ := hc
    have hE : (v.dims.eraseIdx a).length = v.dims.length - 1 := by
      simp [List.length_eraseIdx, ha]
    have p1 : ((v.dims.eraseIdx a).insertIdx b (v.dims.getD a (0, 0))).Perm
        (v.dims.getD a (0, 0) :: v.dims.eraseIdx a) := List.perm_insertIdx _ _ (by omega)
    have p2 : ((v.dims.eraseIdx a).insertIdx a (v.dims.getD a (0, 0))).Perm
        (v.dims.getD a (0, 0) :: v.dims.eraseIdx a) := List.perm_insertIdx _ _ (by omega)
    rw [insertIdx_eraseIdx_getD v.dims a (0, 0) ha] at p2
    simp only []
    rw [minDataLen_perm _ _ (p1.trans p2.symm)]
    exact h
  · cases hp

theorem WF_insertAxis (v v' : View) (k : Nat) (hp : insertAxis v k = .ok v') (h : WF v) :
    WF v' := by
  unfold insertAxis at hp
  split at hp
  · rename_i hc
    injection hp with hp
    subst hp
    unfold WF at h ⊢
    simp only []
    rw [minDataLen_perm _ _ (List.perm_insertIdx _ _ hc), minDataLen_cons_one]
    exact h
  · cases hp

theorem WF_removeAxis (v v' : View) (k : Nat) (hp : removeAxis v k = .ok v') (h : WF v) :
    WF v' := by
  unfold removeAxis at hp
  split at hp
  · rename_i hc
    injection hp with hp
    subst hp
    unfold WF at h ⊢
    obtain ⟨hk, h1⟩ := hc
    have hE : (v.dims.eraseIdx k).length = v.dims.length - 1 := by
      simp [List.length_eraseIdx, hk]
    have p2 : ((v.dims.eraseIdx k).insertIdx k (v.dims.getD k (0, 0))).Perm
        (v.dims.getD k (0, 0) :: v.dims.eraseIdx k) := List.perm_insertIdx _ _ (by omega)
    rw [insertIdx_eraseIdx_getD v.dims k (0, 0) hk] at p2
    simp only []
    rw [minDataLen_perm _ _ p2] at h
    have : v.dims.getD k (0, 0) = (1, (v.dims.getD k (0, 0)).2) := by
      rw [← h1]
    rw [this, minDataLen_cons_one] at h
    exact h
  · cases hp

end RtenVerif.Layout
