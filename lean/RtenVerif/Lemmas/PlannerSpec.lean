import RtenVerif.Lemmas.PlannerBasic
/-!
# Specification vocabulary for C03

What it means for a list of operator ids to be a *valid, complete and minimal*
execution plan.  Everything here is stated on plain id lists and the graph IR,
independently of how the planner computes its result.
-/
namespace RtenVerif.Planner
open RtenVerif.Graph

/-- Value `d` is available given the resolved set `r`: it is in `r`, or a constant;
or (only when planning with `allow_missing_inputs`) nobody in the graph produces it,
i.e. it is expected to be supplied later. -/
def Avail (g : Graph) (am : Bool) (r : List Nat) (d : Nat) : Prop :=
  rContains g r d = true ∨ (am = true ∧ getSource g d = none)

/-- Output values of the operator node `i` (`[]` if `i` is not an operator). -/
def outsOf (g : Graph) (i : Nat) : List Nat :=
  match getOp g i with
  | some op => opOutputs op
  | none => []

/-- Values available after running the operators `ids` starting from `r0`. -/
def availAfter (g : Graph) (r0 : List Nat) (ids : List Nat) : List Nat :=
  r0 ++ ids.flatMap (outsOf g)

/-- Every entry is an operator node all of whose dependencies (inputs and captures)
are available from `r` plus the outputs of the entries before it. -/
def ValidIds (g : Graph) (am : Bool) : List Nat → List Nat → Prop
  | _, [] => True
  | r, i :: is =>
    (∃ op, getOp g i = some op ∧ ∀ d ∈ opDeps g op, Avail g am r d) ∧
      ValidIds g am (r ++ outsOf g i) is

/-- Operator `p` is needed for the requested outputs `outs` given the initially
available values `r0`: it is the source of a requested output that is not already
available, or the source of a not-initially-available dependency of a needed
operator. -/
inductive Needed (g : Graph) (r0 : List Nat) (outs : List Nat) : Nat → Prop
  | root {o p : Nat} {pop : OpNode} :
      o ∈ outs → rContains g r0 o = false → getSource g o = some (p, pop) → Needed g r0 outs p
  | step {x d p : Nat} {xop pop : OpNode} :
      Needed g r0 outs x → getOp g x = some xop → d ∈ opDeps g xop →
      rContains g r0 d = false → getSource g d = some (p, pop) → Needed g r0 outs p

/-- The property's success clause: `plan` is a valid, complete and minimal plan for
producing `outs` from the initially available values `r0`. -/
structure PlanOK (g : Graph) (am : Bool) (r0 outs plan : List Nat) : Prop where
  /-- every operator appears once -/
  nodup : plan.Nodup
  /-- each entry is an operator that runs only after all its dependencies are available -/
  valid : ValidIds g am r0 plan
  /-- every requested output is produced (or was available from the start) -/
  outputs : ∀ o ∈ outs, Avail g am (availAfter g r0 plan) o
  /-- every operator is needed by some requested output -/
  minimal : ∀ i ∈ plan, Needed g r0 outs i

/-- `ValidIds` unfolded at an arbitrary position of the plan. -/
theorem validIds_split {g : Graph} {am : Bool} {r0 : List Nat} {plan pre post : List Nat} {i : Nat}
    (h : ValidIds g am r0 plan) (hs : plan = pre ++ i :: post) :
    ∃ op, getOp g i = some op ∧ ∀ d ∈ opDeps g op, Avail g am (availAfter g r0 pre) d := by
  subst hs
  induction pre generalizing r0 with
  | nil => simpa [availAfter] using h.1
  | cons a pre ih =>
    have := ih (r0 := r0 ++ outsOf g a) h.2
    simpa [availAfter, List.append_assoc] using this

theorem validIds_append {g : Graph} {am : Bool} {r0 : List Nat} {p q : List Nat} :
    ValidIds g am r0 (p ++ q) ↔ ValidIds g am r0 p ∧ ValidIds g am (availAfter g r0 p) q := by
  induction p generalizing r0 with
  | nil => simp [ValidIds, availAfter]
  | cons a p ih =>
    simp only [List.cons_append, ValidIds, ih, availAfter, List.flatMap_cons, List.append_assoc]
    constructor
    · rintro ⟨h1, h2, h3⟩; exact ⟨⟨h1, h2⟩, h3⟩
    · rintro ⟨⟨h1, h2⟩, h3⟩; exact ⟨h1, h2, h3⟩

theorem Avail.mono {g : Graph} {am : Bool} {r r' : List Nat} {d : Nat}
    (hsub : ∀ v, v ∈ r → v ∈ r') (h : Avail g am r d) : Avail g am r' d := by
  rcases h with h | h
  · exact Or.inl (rContains_mono hsub h)
  · exact Or.inr h

end RtenVerif.Planner
