/-
Lemmas for the in-place execution model (C13): the in-place loop is a positional map,
`can_broadcast_to` pins the broadcast shape, the reference broadcast has the target's element
count, and `broadcast_shapes` is symmetric.
-/
import RtenVerif.Model.InPlace
import RtenVerif.Lemmas.FastBroadcast

namespace RtenVerif.InPlace
open RtenVerif.FastBroadcast

/-! ## The in-place loop -/

/-- Invariant of the in-place loop: positions before `i` already hold results, positions from
`i` on still hold the original elements, and step `i` reads exactly the original `a[i]`. -/
theorem inPlaceLoop_spec {α β : Type} (f : α → β → α) (bs : List β) :
    ∀ (suf pre : List α), pre.length + suf.length ≤ bs.length →
      inPlaceLoop f (fun i => bs[i]?) pre.length suf.length (pre ++ suf) =
        some (pre ++ List.zipWith f suf (bs.drop pre.length)) := by
  intro suf
  induction suf with
  | nil => intro pre _; simp [inPlaceLoop]
  | cons a suf ih =>
    intro pre hlen
    simp only [List.length_cons] at hlen
    have hb : pre.length < bs.length := by omega
    have h1 : (pre ++ a :: suf)[pre.length]? = some a := by simp
    have h2 : bs[pre.length]? = some bs[pre.length] := List.getElem?_eq_getElem hb
    have hset : (pre ++ a :: suf).set pre.length (f a bs[pre.length]) =
        (pre ++ [f a bs[pre.length]]) ++ suf := by simp
    have hdrop : bs.drop pre.length = bs[pre.length] :: bs.drop (pre.length + 1) :=
      List.drop_eq_getElem_cons hb
    simp only [List.length_cons, inPlaceLoop, h1, h2, hset]
    have := ih (pre ++ [f a bs[pre.length]]) (by simp; omega)
    simp only [List.length_append, List.length_singleton] at this
    rw [this, hdrop, List.zipWith_cons_cons]
    simp

theorem inPlaceLoop_eq_zipWith {α β : Type} (f : α → β → α) (bs : List β) (a : List α)
    (h : a.length ≤ bs.length) :
    inPlaceLoop f (fun i => bs[i]?) 0 a.length a = some (List.zipWith f a bs) := by
  have := inPlaceLoop_spec f bs a [] (by simpa using h)
  simpa using this

/-! ## Shapes -/

theorem bsStep_comm (a b : Nat) : bsStep a b = bsStep b a := by
  unfold bsStep
  by_cases h : a = b
  · subst h; rfl
  · have h' : ¬ b = a := fun e => h e.symm
    simp only [h, h', if_false]
    by_cases ha : a = 1 <;> by_cases hb : b = 1 <;> simp [ha, hb]

theorem broadcastShapes_comm (a b : List Nat) : broadcastShapes a b = broadcastShapes b a := by
  have hf : (fun (b a : Nat) => bsStep a b) = bsStep := by funext x y; exact bsStep_comm y x
  unfold broadcastShapes
  simp only
  rw [List.zipWith_comm (f := bsStep), hf]

theorem allSome_map_some {α : Type} (l : List α) : allSome (l.map some) = some l := by
  induction l with
  | nil => rfl
  | cons x xs ih => simp [allSome, ih]

/-- Per-axis compatibility of a broadcast: the source size equals the target size or is 1. -/
def Compat (ps : List (Nat × Nat)) : Prop := ∀ p ∈ ps, p.1 = p.2 ∨ p.1 = 1

theorem zipWith_bsStep_of_compat : ∀ (a P : List Nat), a.length = P.length →
    Compat (List.zip P a) → List.zipWith bsStep a P = a.map some
  | [], [], _, _ => rfl
  | [], _ :: _, h, _ => by cases h
  | _ :: _, [], h, _ => by cases h
  | x :: a, y :: P, h, hc => by
    have hxy : y = x ∨ y = 1 := hc (y, x) (by simp)
    have ih := zipWith_bsStep_of_compat a P (by simpa using h)
      (fun p hp => hc p (by simp [hp]))
    simp only [List.zipWith_cons_cons, List.map_cons, ih, List.cons.injEq, and_true]
    unfold bsStep
    rcases hxy with rfl | rfl
    · simp
    · by_cases hx : x = 1
      · subst hx; simp
      · simp [hx]

/-- `can_broadcast_to` gives per-axis compatibility of the padded pairs. -/
theorem compat_of_canBroadcastTo (s target : List Nat) (h : canBroadcastTo s target = true) :
    s.length ≤ target.length ∧ Compat (pairsTo s target) := by
  unfold canBroadcastTo at h
  split at h
  · cases h
  · rename_i hlen
    have hle : s.length ≤ target.length := by omega
    refine ⟨hle, ?_⟩
    have hsplit : target = target.take (target.length - s.length) ++ target.drop (target.length - s.length) :=
      (List.take_append_drop _ _).symm
    intro p hp
    unfold pairsTo padFrom at hp
    rw [hsplit, List.zip_append (by simp)] at hp
    rcases List.mem_append.mp hp with hp | hp
    · right
      have := (List.of_mem_zip hp).1
      exact (List.mem_replicate.mp this).2
    · have := List.all_eq_true.mp h p hp
      simp only [Bool.or_eq_true, beq_iff_eq] at this
      exact this

/-- **T1 (shape part).**  `can_run_binary_op_in_place(a, b)` implies that the broadcast shape of
the two operands is `a`'s own shape: the result fits the owned buffer. -/
theorem broadcastShapes_of_canRunInPlace (a b : List Nat) (h : canRunInPlace a b = true) :
    broadcastShapes a b = some a := by
  obtain ⟨hle, hc⟩ := compat_of_canBroadcastTo b a h
  unfold broadcastShapes
  have h1 : b.length - a.length = 0 := by omega
  have hbr : b.reverse ++ List.replicate (a.length - b.length) 1 = (padFrom b a).reverse := by
    simp [padFrom, List.reverse_append]
  simp only [h1, List.replicate_zero, List.append_nil, hbr]
  have hlen : a.length = (padFrom b a).length := (length_padFrom b a hle).symm
  rw [← List.reverse_zipWith hlen, zipWith_bsStep_of_compat a (padFrom b a) hlen hc,
    ← List.map_reverse, allSome_map_some]
  simp

/-! ## Length of the reference broadcast -/

theorem sum_replicate (n k : Nat) : (List.replicate n k).sum = n * k := by
  induction n with
  | zero => simp
  | succ n ih => rw [List.replicate_succ, List.sum_cons, ih, Nat.succ_mul, Nat.add_comm]

theorem length_flatMap_const {α β : Type} (l : List α) (g : α → List β) (k : Nat)
    (h : ∀ a ∈ l, (g a).length = k) : (l.flatMap g).length = l.length * k := by
  induction l with
  | nil => simp
  | cons a l ih =>
    rw [List.flatMap_cons, List.length_append, h a (by simp), ih (fun b hb => h b (by simp [hb])),
      List.length_cons, Nat.succ_mul, Nat.add_comm]

theorem length_bcast {α : Type} : ∀ (ps : List (Nat × Nat)) (x : List α), Compat ps →
    numel (ps.map (·.1)) ≤ x.length → (bcast ps x).length = numel (ps.map (·.2))
  | [], x, _, hx => by
    simp only [List.map_nil, numel, List.foldr_nil] at hx
    simp [bcast, numel]; omega
  | (f, t) :: ps, x, hc, hx => by
    have hcp : Compat ps := fun p hp => hc p (by simp [hp])
    have hft : f = t ∨ f = 1 := hc (f, t) (by simp)
    simp only [List.map_cons, numel_cons] at hx ⊢
    rw [bcast_cons, length_flatMap_const _ _ (numel (ps.map (·.2))), List.length_range]
    intro i hi
    have hi' : i < t := List.mem_range.mp hi
    apply length_bcast ps _ hcp
    rw [List.length_drop]
    rcases hft with rfl | rfl
    · have : (if f = 1 then 0 else i) ≤ i := by split <;> omega
      have h2 : (if f = 1 then 0 else i) * numel (ps.map (·.1)) + numel (ps.map (·.1)) ≤
          f * numel (ps.map (·.1)) := by
        calc (if f = 1 then 0 else i) * numel (ps.map (·.1)) + numel (ps.map (·.1))
            = ((if f = 1 then 0 else i) + 1) * numel (ps.map (·.1)) := by rw [Nat.succ_mul]
          _ ≤ f * numel (ps.map (·.1)) := Nat.mul_le_mul_right _ (by omega)
      omega
    · simp only [if_true, Nat.zero_mul, Nat.one_mul] at hx ⊢
      omega

/-- Broadcasting a tensor to its own shape is the identity. -/
theorem bcastTo_self {α : Type} (x : List α) (s : List Nat) (hx : x.length = numel s) :
    bcastTo x s s = x := by
  have hE : Eqs (pairsTo s s) := by
    intro p hp
    have : p ∈ List.zip s s := by simpa [pairsTo, padFrom] using hp
    exact zip_self_eq s p this
  have := bcast_mid (T := []) hE (by intro p hp; cases hp) x
  rw [List.append_nil] at this
  rw [bcastTo, this, map_fst_pairsTo s s (Nat.le_refl _), numel_padFrom, ← hx, List.take_length]
  simp [numel, flatMap_replicate_one]

/-- The nested reference `bcast` is the element-by-element definition
`out[idx] = x[bcIdx idx]` (row-major positions on both sides). -/
theorem bcast_eq_bcastIdx {α : Type} : ∀ (ps : List (Nat × Nat)) (x : List α), Compat ps →
    numel (ps.map (·.1)) ≤ x.length → (bcast ps x).map some = bcastIdx ps x
  | [], x, _, hx => by
    simp only [List.map_nil, numel, List.foldr_nil] at hx
    cases x with
    | nil => simp at hx
    | cons a as => simp [bcast, bcastIdx, idxs, flat, bcIdx]
  | (f, t) :: ps, x, hc, hx => by
    have hcp : Compat ps := fun p hp => hc p (by simp [hp])
    have hft : f = t ∨ f = 1 := hc (f, t) (by simp)
    simp only [List.map_cons, numel_cons] at hx
    rw [bcast_cons, List.map_flatMap]
    simp only [bcastIdx, List.map_cons, idxs, List.map_flatMap, List.map_map]
    apply flatMap_congr'
    intro i hi
    have hi' : i < t := List.mem_range.mp hi
    have hle : (if f = 1 then 0 else i) * numel (ps.map (·.1)) + numel (ps.map (·.1)) ≤ x.length := by
      rcases hft with rfl | rfl
      · have h2 : (if f = 1 then 0 else i) * numel (ps.map (·.1)) + numel (ps.map (·.1)) ≤
            f * numel (ps.map (·.1)) := by
          calc (if f = 1 then 0 else i) * numel (ps.map (·.1)) + numel (ps.map (·.1))
              = ((if f = 1 then 0 else i) + 1) * numel (ps.map (·.1)) := by rw [Nat.succ_mul]
            _ ≤ f * numel (ps.map (·.1)) := Nat.mul_le_mul_right _ (by split <;> omega)
        omega
      · simp only [if_true, Nat.zero_mul, Nat.one_mul] at hx ⊢
        omega
    rw [bcast_eq_bcastIdx ps _ hcp (by rw [List.length_drop]; omega)]
    simp only [bcastIdx]
    apply List.map_congr_left
    intro is _
    simp [flat, bcIdx, List.getElem?_drop]

end RtenVerif.InPlace
