import RtenVerif.Lemmas.PolyHull

import Mathlib.Tactic.Linarith
import Mathlib.Tactic.LinearCombination
import Mathlib.Tactic.Ring

/-!
Order-theoretic lemmas for the angular sort of `convex_hull` (C35): on the half-plane of points
that `min_by` ranks after the pivot, the comparator `exactLe` is a total, transitive and
antisymmetric order (exact integer arithmetic); insertion sort yields a sorted list;
de-duplicating a sorted list leaves no duplicates.  Uses `ring`/`linear_combination`/`nlinarith`.
-/

namespace RtenVerif.Poly

/-- Vectors of the half-plane in which all points other than the `min_by` point lie, relative
to it: `y < 0`, or `y = 0` and `x > 0`. -/
def HPv (a b : Int) : Prop := b < 0 ∨ (b = 0 ∧ a > 0)

/-- Angular transitivity in the half-plane (the vector identity
`d·(u×w) = f·(u×v) + b·(v×w)`). -/
theorem cross_trans (a b c d e f : Int) (hu : HPv a b) (hv : HPv c d) (hw : HPv e f)
    (h1 : 0 ≤ a * d - b * c) (h2 : 0 ≤ c * f - d * e) :
    0 ≤ a * f - b * e ∧ ((0 < a * d - b * c ∨ 0 < c * f - d * e) → 0 < a * f - b * e) := by
  have hid : d * (a * f - b * e) = f * (a * d - b * c) + b * (c * f - d * e) := by ring
  have hb : b ≤ 0 := by rcases hu with h | h <;> omega
  have hf : f ≤ 0 := by rcases hw with h | h <;> omega
  rcases hv with hd | ⟨hd, hc⟩
  · -- d < 0
    have r1 : f * (a * d - b * c) ≤ 0 := mul_nonpos_of_nonpos_of_nonneg hf h1
    have r2 : b * (c * f - d * e) ≤ 0 := mul_nonpos_of_nonpos_of_nonneg hb h2
    constructor
    · by_contra hneg
      have : 0 < d * (a * f - b * e) := mul_pos_of_neg_of_neg hd (by omega)
      omega
    · intro hs
      by_contra hneg
      have hz : a * f - b * e = 0 := by
        have : 0 ≤ a * f - b * e := by
          by_contra hneg'
          have : 0 < d * (a * f - b * e) := mul_pos_of_neg_of_neg hd (by omega)
          omega
        omega
      rw [hz, mul_zero] at hid
      -- so both products vanish
      have e1 : f * (a * d - b * c) = 0 := by omega
      have e2 : b * (c * f - d * e) = 0 := by omega
      rcases hs with hs | hs
      · -- u×v > 0, so f = 0, w = (e, 0), e > 0; v×w = -d e > 0; so b = 0, u = (a,0): u×v = a d < 0
        have hf0 : f = 0 := by
          rcases mul_eq_zero.mp e1 with h | h
          · exact h
          · omega
        have he : e > 0 := by rcases hw with h | h <;> omega
        have hvw : 0 < c * f - d * e := by
          rw [hf0, mul_zero, zero_sub]
          have : d * e < 0 := mul_neg_of_neg_of_pos hd he
          omega
        have hb0 : b = 0 := by
          rcases mul_eq_zero.mp e2 with h | h
          · exact h
          · omega
        have ha : a > 0 := by rcases hu with h | h <;> omega
        have : a * d < 0 := mul_neg_of_pos_of_neg ha hd
        rw [hb0, zero_mul, sub_zero] at hs
        omega
      · have hb0 : b = 0 := by
          rcases mul_eq_zero.mp e2 with h | h
          · exact h
          · omega
        have ha : a > 0 := by rcases hu with h | h <;> omega
        have : a * d < 0 := mul_neg_of_pos_of_neg ha hd
        rw [hb0, zero_mul, sub_zero] at h1
        omega
  · -- d = 0, c > 0
    subst hd
    simp only [mul_zero, zero_mul, sub_zero, zero_sub] at h1 h2 ⊢
    have hf0 : f = 0 := by
      by_contra hne
      have : c * f < 0 := mul_neg_of_pos_of_neg hc (by omega)
      omega
    have he : e > 0 := by rcases hw with h | h <;> omega
    subst hf0
    simp only [mul_zero, zero_sub] at h2 ⊢
    have : b * e ≤ 0 := mul_nonpos_of_nonpos_of_nonneg hb (by omega)
    refine ⟨by omega, ?_⟩
    intro hs
    rcases hs with hs | hs
    · have hb' : b < 0 := by
        by_contra hnb
        have : b = 0 := by omega
        rw [this, zero_mul] at hs; omega
      have : b * e < 0 := mul_neg_of_neg_of_pos hb' he
      omega
    · omega

/-- Collinear, same half-plane, same length ⇒ equal. -/
theorem hp_antisymm (a b c d : Int) (hu : HPv a b) (hv : HPv c d)
    (hx : a * d - b * c = 0) (hs : a * a + b * b = c * c + d * d) : a = c ∧ b = d := by
  rcases hu with hb | ⟨hb, ha⟩
  · rcases hv with hd | ⟨hd, hc⟩
    · have h1 : (a * a + b * b) * ((d - b) * (d + b)) = 0 := by
        linear_combination (a * d + b * c) * hx - b * b * hs
      have hpos : 0 < a * a + b * b := by nlinarith
      have hbd : d = b := by
        rcases mul_eq_zero.mp h1 with h | h
        · omega
        · rcases mul_eq_zero.mp h with h | h <;> omega
      subst hbd
      have : (a - c) * d = 0 := by linear_combination hx
      rcases mul_eq_zero.mp this with h | h
      · exact ⟨by omega, rfl⟩
      · omega
    · subst hd
      have : b * c < 0 := mul_neg_of_neg_of_pos hb hc
      simp only [mul_zero, zero_sub] at hx
      omega
  · subst hb
    simp only [zero_mul, sub_zero, mul_zero, add_zero] at hx hs
    have hd : d = 0 := by
      rcases mul_eq_zero.mp hx with h | h <;> omega
    subst hd
    have hc : c > 0 := by rcases hv with h | h <;> omega
    simp only [mul_zero, add_zero] at hs
    have : (a - c) * (a + c) = 0 := by linear_combination hs
    rcases mul_eq_zero.mp this with h | h
    · exact ⟨by omega, rfl⟩
    · omega


/-- `p` is the pivot `m` or lies in the half-plane of points that `min_by` ranks after `m`. -/
def InS (m p : Pt) : Prop := p = m ∨ HPv (p.1 - m.1) (p.2 - m.2)

theorem inS_of_minLt {m q : Pt} (h : minLt q m = false) : InS m q := by
  by_cases hq : q = m
  · exact Or.inl hq
  · right
    simp only [minLt] at h
    unfold HPv
    have hne : ¬ (q.1 = m.1 ∧ q.2 = m.2) := fun hh => hq (Prod.ext hh.1 hh.2)
    split at h
    · simp only [decide_eq_false_iff_not] at h; omega
    · simp only [decide_eq_false_iff_not] at h; omega

theorem cross_neg (m p q : Pt) : cross m q p = -(cross m p q) := by
  simp only [cross]; ring

/-- Unfolding of the comparator away from the pivot. -/
theorem exactLe_iff {m p q : Pt} (hp : p ≠ m) (hq : q ≠ m) :
    exactLe m p q = true ↔
      0 < cross m p q ∨ (cross m p q = 0 ∧ sqDist m p ≤ sqDist m q) := by
  simp only [exactLe, hp, hq, if_false]
  by_cases h1 : cross m p q > 0
  · simp [h1]
  · by_cases h2 : cross m p q < 0
    · simp [h1, h2]; omega
    · have : cross m p q = 0 := by omega
      simp [this]

theorem exactLe_total (m p q : Pt) : exactLe m p q = true ∨ exactLe m q p = true := by
  by_cases hp : p = m
  · left; simp [exactLe, hp]
  · by_cases hq : q = m
    · right; simp [exactLe, hq]
    · rw [exactLe_iff hp hq, exactLe_iff hq hp, cross_neg m p q]
      omega

theorem exactLe_trans {m p q r : Pt} (hp : InS m p) (hq : InS m q) (hr : InS m r)
    (h1 : exactLe m p q = true) (h2 : exactLe m q r = true) : exactLe m p r = true := by
  by_cases ep : p = m
  · simp [exactLe, ep]
  · have eq : q ≠ m := by
      intro e; subst e; simp [exactLe, ep] at h1
    have er : r ≠ m := by
      intro e; subst e; simp [exactLe, eq] at h2
    have hp' := hp.resolve_left ep
    have hq' := hq.resolve_left eq
    have hr' := hr.resolve_left er
    rw [exactLe_iff ep eq] at h1
    rw [exactLe_iff eq er] at h2
    rw [exactLe_iff ep er]
    have c1 : 0 ≤ cross m p q := by omega
    have c2 : 0 ≤ cross m q r := by omega
    obtain ⟨t1, t2⟩ := cross_trans _ _ _ _ _ _ hp' hq' hr' c1 c2
    -- the reverse direction, for the all-collinear case
    by_cases hs : 0 < cross m p q ∨ 0 < cross m q r
    · left; exact t2 hs
    · have z1 : cross m p q = 0 := by omega
      have z2 : cross m q r = 0 := by omega
      have c1' : 0 ≤ cross m r q := by rw [cross_neg m q r]; omega
      have c2' : 0 ≤ cross m q p := by rw [cross_neg m p q]; omega
      obtain ⟨t3, _⟩ := cross_trans _ _ _ _ _ _ hr' hq' hp' c1' c2'
      have t3' : 0 ≤ cross m r p := t3
      rw [cross_neg m p r] at t3'
      have t1' : 0 ≤ cross m p r := t1
      right
      exact ⟨by omega, by omega⟩

theorem exactLe_antisymm {m p q : Pt} (hp : InS m p) (hq : InS m q)
    (h1 : exactLe m p q = true) (h2 : exactLe m q p = true) : p = q := by
  by_cases ep : p = m
  · by_cases eq : q = m
    · rw [ep, eq]
    · simp [exactLe, ep, eq] at h2
  · have eq : q ≠ m := by
      intro e; subst e; simp [exactLe, ep] at h1
    rw [exactLe_iff ep eq] at h1
    rw [exactLe_iff eq ep, cross_neg m p q] at h2
    have hx : cross m p q = 0 := by omega
    have hs : sqDist m p = sqDist m q := by omega
    obtain ⟨e1, e2⟩ := hp_antisymm _ _ _ _ (hp.resolve_left ep) (hq.resolve_left eq) hx hs
    exact Prod.ext (by omega) (by omega)


/-! ### Sortedness of the insertion sort, de-duplication -/

section sort
variable {α : Type} (le : α → α → Bool) (S : α → Prop)
  (htot : ∀ a b, le a b = true ∨ le b a = true)
  (htrans : ∀ a b c, S a → S b → S c → le a b = true → le b c = true → le a c = true)
include htot htrans

theorem insertBy_sorted (x : α) (l : List α) (hx : S x) (hl : ∀ y ∈ l, S y)
    (hs : l.Pairwise (fun a b => le a b = true)) :
    (insertBy le x l).Pairwise (fun a b => le a b = true) := by
  induction l with
  | nil => simp [insertBy]
  | cons y ys ih =>
    simp only [insertBy]
    have hy := hl y List.mem_cons_self
    have hys : ∀ z ∈ ys, S z := fun z hz => hl z (List.mem_cons_of_mem _ hz)
    obtain ⟨hyall, hsys⟩ := List.pairwise_cons.mp hs
    split
    · rename_i hle
      refine List.pairwise_cons.mpr ⟨?_, hs⟩
      intro z hz
      rcases List.mem_cons.mp hz with rfl | hz
      · exact hle
      · exact htrans x y z hx hy (hys z hz) hle (hyall z hz)
    · rename_i hle
      refine List.pairwise_cons.mpr ⟨?_, ih hys hsys⟩
      intro z hz
      rcases (mem_insertBy le x z ys).mp hz with rfl | hz
      · rcases htot z y with h | h
        · exact absurd h hle
        · exact h
      · exact hyall z hz

theorem isort_sorted (l : List α) (hl : ∀ y ∈ l, S y) :
    (isort le l).Pairwise (fun a b => le a b = true) := by
  induction l with
  | nil => simp [isort]
  | cons x xs ih =>
    simp only [isort]
    have hxs : ∀ y ∈ xs, S y := fun y hy => hl y (List.mem_cons_of_mem _ hy)
    refine insertBy_sorted le S htot htrans x _ (hl x List.mem_cons_self) ?_ (ih hxs)
    intro y hy
    exact hxs y ((mem_isort le y xs).mp hy)

end sort

/-- De-duplicating a list sorted by an antisymmetric order leaves no duplicates. -/
theorem dedupGo_nodup (le : Pt → Pt → Bool) (S : Pt → Prop)
    (hanti : ∀ a b, S a → S b → le a b = true → le b a = true → a = b) :
    ∀ (l : List Pt) (prev : Pt), S prev → (∀ y ∈ l, S y) →
      l.Pairwise (fun a b => le a b = true) → (∀ y ∈ l, le prev y = true) →
      (dedupGo id prev l).Nodup ∧ ∀ e ∈ dedupGo id prev l, e ≠ prev ∧ e ∈ l := by
  intro l
  induction l with
  | nil => intro prev _ _ _ _; simp [dedupGo]
  | cons y ys ih =>
    intro prev hprev hl hs hle
    have hy := hl y List.mem_cons_self
    have hys : ∀ z ∈ ys, S z := fun z hz => hl z (List.mem_cons_of_mem _ hz)
    obtain ⟨hyall, hsys⟩ := List.pairwise_cons.mp hs
    simp only [dedupGo, id]
    split
    · obtain ⟨h1, h2⟩ := ih prev hprev hys hsys (fun z hz => hle z (List.mem_cons_of_mem _ hz))
      exact ⟨h1, fun e he => ⟨(h2 e he).1, List.mem_cons_of_mem _ (h2 e he).2⟩⟩
    · rename_i hne
      obtain ⟨h1, h2⟩ := ih y hy hys hsys hyall
      refine ⟨List.nodup_cons.mpr ⟨fun hmem => (h2 y hmem).1 rfl, h1⟩, ?_⟩
      intro e he
      rcases List.mem_cons.mp he with rfl | he
      · exact ⟨hne, List.mem_cons_self⟩
      · refine ⟨?_, List.mem_cons_of_mem _ (h2 e he).2⟩
        intro heq
        subst heq
        -- e = prev: le y e (sorted) and le e y (prev ≤ everything) give y = e
        have := hanti y e hy hprev (hyall e (h2 e he).2) (hle y List.mem_cons_self)
        exact hne this

theorem dedupKey_nodup (le : Pt → Pt → Bool) (S : Pt → Prop)
    (hanti : ∀ a b, S a → S b → le a b = true → le b a = true → a = b)
    (l : List Pt) (hl : ∀ y ∈ l, S y) (hs : l.Pairwise (fun a b => le a b = true)) :
    (dedupKey id l).Nodup := by
  cases l with
  | nil => simp [dedupKey]
  | cons x xs =>
    simp only [dedupKey, id]
    obtain ⟨hxall, hsxs⟩ := List.pairwise_cons.mp hs
    obtain ⟨h1, h2⟩ := dedupGo_nodup le S hanti xs x (hl x List.mem_cons_self)
      (fun z hz => hl z (List.mem_cons_of_mem _ hz)) hsxs hxall
    exact List.nodup_cons.mpr ⟨fun hmem => (h2 x hmem).1 rfl, h1⟩

/-! ### the code's key order equals its orientation form -/

/-- Core fact: on the half-plane of points after the pivot, comparing the slope keys
`dx / (−dy)` (by cross-multiplication, `dy = 0 ↦ +∞`) is the same as the sign of the
orientation. -/
theorem keyLe_eq_exactLe {m p q : Pt} (hp : InS m p) (hq : InS m q) :
    keyLe m p q = exactLe m p q := by
  by_cases ep : p = m
  · simp [keyLe, exactLe, ep]
  by_cases eq : q = m
  · simp [keyLe, exactLe, ep, eq]
  have hp' := hp.resolve_left ep
  have hq' := hq.resolve_left eq
  simp only [keyLe, exactLe, ep, eq, if_false]
  have hcross : cross m p q = (p.1 - m.1) * (q.2 - m.2) - (p.2 - m.2) * (q.1 - m.1) := rfl
  generalize p.1 - m.1 = a at *
  generalize p.2 - m.2 = b at *
  generalize q.1 - m.1 = c at *
  generalize q.2 - m.2 = d at *
  rw [hcross]
  unfold HPv at hp' hq'
  by_cases hb : b = 0
  · -- p level with the pivot: key +∞
    have ha : a > 0 := by rcases hp' with h | h <;> omega
    subst hb
    by_cases hd : d = 0
    · subst hd; simp
    · have hdn : d < 0 := by rcases hq' with h | h <;> omega
      have : a * d < 0 := mul_neg_of_pos_of_neg ha hdn
      simp [hd]
      omega
  · have hbn : b < 0 := by rcases hp' with h | h <;> omega
    by_cases hd : d = 0
    · have hc : c > 0 := by rcases hq' with h | h <;> omega
      subst hd
      have : b * c < 0 := mul_neg_of_neg_of_pos hbn hc
      simp [hb]
      omega
    · simp only [hb, hd, if_false]
      have e1 : (a * (-d) < c * (-b)) ↔ (0 < a * d - b * c) := by
        constructor <;> intro h <;> nlinarith
      have e2 : (a * (-d) = c * (-b)) ↔ (a * d - b * c = 0) := by
        constructor <;> intro h <;> nlinarith
      simp only [e1, e2]
      generalize a * d - b * c = X
      generalize decide (sqDist m p ≤ sqDist m q) = S
      rcases lt_trichotomy X 0 with h | h | h
      · have n1 : ¬ (0 < X) := by omega
        have n2 : ¬ (X = 0) := by omega
        have n3 : ¬ (X > 0) := by omega
        simp only [n1, n2, n3, h, decide_false, decide_true, if_false, if_true, Bool.false_eq_true]
      · subst h
        simp
      · have n1 : (X > 0) := h
        simp only [h, n1, decide_true, if_true]

theorem insertBy_congr {α : Type} (le1 le2 : α → α → Bool) (x : α) (l : List α)
    (h : ∀ y ∈ l, le1 x y = le2 x y) : insertBy le1 x l = insertBy le2 x l := by
  induction l with
  | nil => rfl
  | cons y ys ih =>
    simp only [insertBy]
    rw [h y List.mem_cons_self, ih (fun z hz => h z (List.mem_cons_of_mem _ hz))]

theorem isort_congr {α : Type} (le1 le2 : α → α → Bool) (l : List α)
    (h : ∀ x ∈ l, ∀ y ∈ l, le1 x y = le2 x y) : isort le1 l = isort le2 l := by
  induction l with
  | nil => rfl
  | cons x xs ih =>
    simp only [isort]
    rw [ih (fun a ha b hb => h a (List.mem_cons_of_mem _ ha) b (List.mem_cons_of_mem _ hb))]
    apply insertBy_congr
    intro y hy
    exact h x List.mem_cons_self y (List.mem_cons_of_mem _ ((mem_isort le2 y xs).mp hy))

end RtenVerif.Poly
