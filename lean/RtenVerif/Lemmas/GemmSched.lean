import RtenVerif.Lemmas.Gemm

/-! C16: the sub-sequence of the schedule that touches one output element. Core Lean only. -/
namespace RtenVerif.Gemm

theorem mem_gemmBlock {M N mr nr : Nat} {colR rowR d : Nat × Nat} {cl : Call}
    (h : cl ∈ gemmBlock M N mr nr colR rowR d) :
    ∃ rt ct, ct ∈ tileRange colR.1 colR.2 nr ∧ rt ∈ tileRange rowR.1 rowR.2 mr ∧
      cl = mkCall M N mr nr d rt ct := by
  unfold gemmBlock at h
  rw [List.mem_flatMap] at h
  obtain ⟨ct, hct, h⟩ := h
  rw [List.mem_map] at h
  obtain ⟨rt, hrt, h⟩ := h
  exact ⟨rt, ct, hct, hrt, h.symm⟩

/-- `gemm_block` restricted to the calls touching `(r, c)`, when the element lies in the block. -/
theorem gemmBlock_filter_hit {M N mr nr : Nat} (hmr : 0 < mr) (hnr : 0 < nr) {r c : Nat}
    (hr : r < M) (hc : c < N) (colR rowR d : Nat × Nat)
    (hcol : c / nr ∈ tileRange colR.1 colR.2 nr) (hrow : r / mr ∈ tileRange rowR.1 rowR.2 mr) :
    (gemmBlock M N mr nr colR rowR d).filter (fun cl => cl.covers mr nr r c) =
      [mkCall M N mr nr d (r / mr) (c / nr)] := by
  unfold gemmBlock
  rw [filter_flatMap_unique _ _ _ (c / nr) (nodup_tileRange ..) hcol]
  · -- inner: row tiles
    have hmap : (tileRange rowR.1 rowR.2 mr).map (fun rt => mkCall M N mr nr d rt (c / nr)) =
        (tileRange rowR.1 rowR.2 mr).flatMap (fun rt => [mkCall M N mr nr d rt (c / nr)]) := by
      rw [flatMap_eq_map_of_singleton _ _ (fun rt => mkCall M N mr nr d rt (c / nr))]
      intro _ _; rfl
    rw [hmap, filter_flatMap_unique _ _ _ (r / mr) (nodup_tileRange ..) hrow]
    · have : (mkCall M N mr nr d (r / mr) (c / nr)).covers mr nr r c = true :=
        (covers_mkCall_iff hmr hnr hr hc d _ _).mpr ⟨rfl, rfl⟩
      simp [List.filter_cons, this]
    · intro i _ hne
      have : (mkCall M N mr nr d i (c / nr)).covers mr nr r c = false := by
        cases hcv : (mkCall M N mr nr d i (c / nr)).covers mr nr r c with
        | false => rfl
        | true => exact absurd ((covers_mkCall_iff hmr hnr hr hc d _ _).mp hcv).1 hne
      simp [List.filter_cons, this]
  · intro i _ hne
    rw [List.filter_eq_nil_iff]
    intro cl hcl
    rw [List.mem_map] at hcl
    obtain ⟨rt, _, rfl⟩ := hcl
    intro hcv
    exact hne ((covers_mkCall_iff hmr hnr hr hc d _ _).mp hcv).2

/-- `gemm_block` on a block that does not contain the element's tile touches nothing of it. -/
theorem gemmBlock_filter_miss {M N mr nr : Nat} (hmr : 0 < mr) (hnr : 0 < nr) {r c : Nat}
    (hr : r < M) (hc : c < N) (colR rowR d : Nat × Nat)
    (hmiss : c / nr ∉ tileRange colR.1 colR.2 nr ∨ r / mr ∉ tileRange rowR.1 rowR.2 mr) :
    (gemmBlock M N mr nr colR rowR d).filter (fun cl => cl.covers mr nr r c) = [] := by
  rw [List.filter_eq_nil_iff]
  intro cl hcl hcv
  obtain ⟨rt, ct, hct, hrt, rfl⟩ := mem_gemmBlock hcl
  obtain ⟨h1, h2⟩ := (covers_mkCall_iff hmr hnr hr hc d _ _).mp hcv
  subst h1 h2
  rcases hmiss with h | h
  · exact h hct
  · exact h hrt

/-- **Key lemma.** With block sizes that are multiples of the tile sizes, the calls of the
schedule that touch element `(r, c)` are exactly: the tile `(r / mr, c / nr)`, once per depth
block, in depth order. -/
theorem schedule_filter {M N K mr nr mc nc kc qm qn : Nat} (hmr : 0 < mr) (hnr : 0 < nr)
    (hqm : 0 < qm) (hqn : 0 < qn) (hmc : mc = qm * mr) (hnc : nc = qn * nr)
    {r c : Nat} (hr : r < M) (hc : c < N) :
    (schedule M N K mr nr mc nc kc).filter (fun cl => cl.covers mr nr r c) =
      (depthBlocks K kc).map (fun d => mkCall M N mr nr d (r / mr) (c / nr)) := by
  have hmcpos : 0 < mc := by rw [hmc]; exact Nat.mul_pos hqm hmr
  have hncpos : 0 < nc := by rw [hnc]; exact Nat.mul_pos hqn hnr
  unfold schedule
  have hci : c / nc ∈ List.range (divCeil N nc) := List.mem_range.mpr (div_lt_divCeil hncpos hc)
  have hri : r / mc ∈ List.range (divCeil M mc) := List.mem_range.mpr (div_lt_divCeil hmcpos hr)
  rw [filter_flatMap_unique _ _ _ (c / nc) List.nodup_range hci]
  · rw [List.filter_flatMap]
    apply flatMap_eq_map_of_singleton
    intro d _
    rw [filter_flatMap_unique _ _ _ (r / mc) List.nodup_range hri]
    · exact gemmBlock_filter_hit hmr hnr hr hc _ _ d
        ((tile_mem_block_iff hnr hqn hnc hc).mpr rfl) ((tile_mem_block_iff hmr hqm hmc hr).mpr rfl)
    · intro i _ hne
      apply gemmBlock_filter_miss hmr hnr hr hc
      right
      intro hmem
      exact hne ((tile_mem_block_iff hmr hqm hmc hr).mp hmem).symm
  · intro i _ hne
    rw [List.filter_flatMap]
    apply List.flatMap_eq_nil_iff.mpr
    intro d _
    rw [List.filter_flatMap]
    apply List.flatMap_eq_nil_iff.mpr
    intro ri _
    apply gemmBlock_filter_miss hmr hnr hr hc
    left
    intro hmem
    exact hne ((tile_mem_block_iff hnr hqn hnc hc).mp hmem).symm

/-- Every call of the schedule is a tile of the output grid (the `assert!` of
`OutputTiles::tile` never fires), is non-empty, and its depth range is one of the depth blocks. -/
theorem schedule_mem {M N K mr nr mc nc kc : Nat} (hmr : 0 < mr) (hnr : 0 < nr) {cl : Call}
    (h : cl ∈ schedule M N K mr nr mc nc kc) :
    ∃ d ∈ depthBlocks K kc, ∃ rt ct, cl = mkCall M N mr nr d rt ct ∧
      rt < divCeil M mr ∧ ct < divCeil N nr := by
  unfold schedule at h
  rw [List.mem_flatMap] at h
  obtain ⟨ci, _, h⟩ := h
  rw [List.mem_flatMap] at h
  obtain ⟨d, hd, h⟩ := h
  rw [List.mem_flatMap] at h
  obtain ⟨ri, _, h⟩ := h
  obtain ⟨rt, ct, hct, hrt, rfl⟩ := mem_gemmBlock h
  refine ⟨d, hd, rt, ct, rfl, ?_, ?_⟩
  · have := (mem_tileRange.mp hrt).2
    exact Nat.lt_of_lt_of_le this (divCeil_mono hmr (by simp only [blockRange]; exact Nat.min_le_right _ _))
  · have := (mem_tileRange.mp hct).2
    exact Nat.lt_of_lt_of_le this (divCeil_mono hnr (by simp only [blockRange]; exact Nat.min_le_right _ _))

end RtenVerif.Gemm
