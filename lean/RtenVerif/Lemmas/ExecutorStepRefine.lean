import RtenVerif.Lemmas.ExecutorRefine
/-!
# C02 — step refinement theorem

`step_refines`: from a `Sim` state, the executor's step and the naive step have the same
outcome; on success `Sim` holds again.
-/
namespace RtenVerif.Executor
open RtenVerif.Graph

theorem lookup_mem {V : Type} {l : List (Nat × V)} {d : Nat} {v : V} (h : l.lookup d = some v) :
    (d, v) ∈ l := by
  induction l with
  | nil => simp [List.lookup] at h
  | cons a l ih =>
    obtain ⟨k, w⟩ := a
    simp only [List.lookup] at h
    by_cases hk : d = k
    · subst hk
      simp only [BEq.rfl, Option.some.injEq] at h
      subst h; exact List.mem_cons_self
    · have : (d == k) = false := by simp [hk]
      simp only [this] at h
      exact List.mem_cons_of_mem _ (ih h)

theorem lookup_of_mem {V : Type} {l : List (Nat × V)} {d : Nat} {v : V} (h : (d, v) ∈ l) :
    ∃ v', l.lookup d = some v' := by
  induction l with
  | nil => simp at h
  | cons a l ih =>
    obtain ⟨k, w⟩ := a
    simp only [List.lookup]
    by_cases hk : d = k
    · subst hk; simp
    · have : (d == k) = false := by simp [hk]
      simp only [this]
      rcases List.mem_cons.mp h with heq | hm
      · simp only [Prod.mk.injEq] at heq; exact absurd heq.1 hk
      · exact ih hm

/-- What a subgraph operator sees for a captured dependency that is not a capture placeholder
of this graph is the (capture-free) naive value. -/
theorem capView_val {V : Type} {ops : Ops V} {r : Run V} {caps0 : Nat → Option (V × Bool)}
    {total : Nat → Nat} {i : Nat}
    {rest outs : List Nat} {st : St V} {E : Nat → Option V} {op : OpNode} {taken : List (Nat × V)}
    {st2 : St V} {byVal : List (Nat × V)}
    (hs : Sim r caps0 total (i :: rest) outs st E) (hop : getOp r.g i = some op)
    (T : TakeFacts ops r st i op taken st2 byVal) (d : Nat) (hd : d ∈ capDeps r.g op)
    (hnc : r.g.captures.contains d = false) :
    capView r st2 byVal d = val r E d := by
  unfold capView
  simp only [hnc, Bool.false_eq_true, if_false]
  cases hn : getNode r.g d with
  | none => simp [val, naiveLook, hn]
  | some n =>
    cases n with
    | constant => simp [val, naiveLook, hn]
    | operator o => simp [val, naiveLook, hn]
    | value =>
      have hv : isValue r.g d = true := by simp [isValue, hn]
      simp only
      have back : ∀ x, st2.temps d = some x → st.temps d = some x := by
        intro x h2
        rcases T.htemps d with h | h
        · rw [← h]; exact h2
        · rw [h.1] at h2; simp at h2
      cases hb : r.borrowed d with
      | some b =>
        have h2 : st2.temps d = none := by
          cases h : st2.temps d with
          | none => rfl
          | some x => have := (hs.agree d x (back x h)).2.1; rw [hb] at this; simp at this
        have h3 : byVal.lookup d = none := by
          cases h : byVal.lookup d with
          | none => rfl
          | some x =>
            have := (T.hbyVal d x (lookup_mem h)).2.1
            have := (hs.agree d x this).2.1; rw [hb] at this; simp at this
        simp [h2, h3, val, naiveLook, hn, hb]
      | none =>
        rw [val_value hv hb]
        have hu : 0 < uses r.g (i :: rest) outs d := by
          rw [uses_cons hop rest outs d hv]
          have : d ∈ opDeps r.g op := by rw [opDeps_eq]; exact List.mem_append_right _ hd
          have := List.count_pos_iff.mpr this
          omega
        rcases T.capd d hd with h | ⟨h, v, hv', hm⟩
        · cases ht : st.temps d with
          | some x =>
            rw [h, ht]
            have := (hs.agree d x ht).2.2
            rw [val_value hv hb] at this
            simp only; exact this.symm
          | none =>
            rw [h, ht]
            simp only
            have h3 : byVal.lookup d = none := by
              cases hl : byVal.lookup d with
              | none => rfl
              | some x => have := (T.hbyVal d x (lookup_mem hl)).2.1; rw [ht] at this; simp at this
            rw [h3]
            simp only
            have hl := hs.live d hv hb hu
            rw [val_value hv hb] at hl
            cases ho : r.owned d with
            | some y => rw [ho] at hl; exact absurd ht (hl (by simp))
            | none =>
              rw [ho] at hl
              simp only at hl ⊢
              cases hE : E d with
              | none => rfl
              | some y => rw [hE] at hl; exact absurd ht (hl (by simp))
        · rw [h]
          simp only
          obtain ⟨v', hv''⟩ := lookup_of_mem hm
          have h4 := (T.hbyVal d v' (lookup_mem hv'')).2.1
          rw [hv'] at h4
          simp only [Option.some.injEq] at h4
          subst h4
          rw [hv'']
          have := (hs.agree d v hv').2.2
          rw [val_value hv hb] at this
          simp only; exact this.symm

/-- What a subgraph operator sees for a captured dependency is the naive value (read from the
enclosing environment for capture placeholders). -/
theorem capView_eq {V : Type} {ops : Ops V} {r : Run V} {caps0 : Nat → Option (V × Bool)}
    {total : Nat → Nat} {i : Nat}
    {rest outs : List Nat} {st : St V} {E : Nat → Option V} {op : OpNode} {taken : List (Nat × V)}
    {st2 : St V} {byVal : List (Nat × V)} (hcw : CapsWF r caps0)
    (hs : Sim r caps0 total (i :: rest) outs st E) (hop : getOp r.g i = some op)
    (T : TakeFacts ops r st i op taken st2 byVal) (d : Nat) (hd : d ∈ capDeps r.g op) :
    capView r st2 byVal d = valC r caps0 E d := by
  rw [valC_eq]
  by_cases hc : r.g.captures.contains d = true
  · obtain ⟨hv, hin, _⟩ := hcw.kind d hc
    obtain ⟨hb, ho⟩ := isInput_false hin
    have hval : val r E d = none := by rw [val_value hv hb, ho]; exact hs.capE d hc
    rw [hval]
    unfold capView
    simp only [hc, if_true, hv]
    rw [T.caps, hs.caps]
  · have hc' : r.g.captures.contains d = false := by simpa using hc
    rw [capView_val hs hop T d hd hc']
    cases hval : val r E d with
    | some x => rfl
    | none =>
      simp only
      have : caps0 d = none := by
        cases h : caps0 d with
        | none => rfl
        | some p => exact absurd (hcw.dom d (by rw [h]; simp)) hc
      rw [this]; simp

/-- `step` after its take phase. -/
theorem step_unfold {V : Type} {ops : Ops V} {r : Run V} {st : St V} {i : Nat} {op : OpNode}
    {st1 : St V} {taken : List (Nat × V)} {st2 : St V} {byVal : List (Nat × V)}
    (hop : getOp r.g i = some op)
    (htake : (if (!(candidates ops i op st.temps).isEmpty &&
      (candidates ops i op st.temps).all (fun c => canTake r st c.2) && !r.neverInPlace) = true
      then takeAll r st (candidates ops i op st.temps) else some (st, [])) = some (st1, taken))
    (hbv : (if ops.isSubgraph i = true then takeByValue r st1 (capDeps r.g op) else (st1, []))
      = (st2, byVal)) :
    step ops r st i =
      match collectInputs r st2 (taken.map (fun t => t.1)) op.inputs 0 with
      | none => .error (.panicAt i)
      | some ins =>
        match (if (!taken.isEmpty) = true then ops.runInPlace i taken ins
          else if ops.isSubgraph i = true then
            ops.run i ins ((capDeps r.g op).map (capView r st2 byVal))
          else ops.run i ins []) with
        | none => .error (.opErr i)
        | some outs =>
          if outs.length < op.outputs.length then .error (.opErr i)
          else
            .ok ((releaseLoop r { st2 with temps := (storeOutputs r st2.temps op.outputs outs).1 }
                (opDeps r.g op)).1,
              { op := i
                rip := (!(candidates ops i op st.temps).isEmpty &&
                  (candidates ops i op st.temps).all (fun c => canTake r st c.2) && !r.neverInPlace)
                taken := ((candidates ops i op st.temps).zip taken).map (fun ct => (ct.1.1, ct.1.2))
                byVal := byVal.map (fun p => p.1)
                stored := (storeOutputs r st2.temps op.outputs outs).2
                released := (releaseLoop r
                  { st2 with temps := (storeOutputs r st2.temps op.outputs outs).1 }
                  (opDeps r.g op)).2 }) := by
  unfold step
  simp only [hop]
  rw [htake]
  simp only [hbv]
  rfl

end RtenVerif.Executor
