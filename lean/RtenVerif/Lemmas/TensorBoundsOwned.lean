import RtenVerif.Lemmas.TensorBoundsViews
import RtenVerif.Lemmas.TensorBoundsOverlapM

/-! C06: contiguous layouts (for `reshape` / `make_contiguous`). -/
namespace RtenVerif.TensorBounds
open RtenVerif.Overlap

/-- A contiguous layout without empty dimension needs exactly `Π sizes` elements. -/
theorem contigR_maxOffset : ∀ (dims : List (Nat × Nat)) (p : Nat), contigR dims = some p →
    hasZero dims = false → maxOffset dims + 1 = p := by
  intro dims
  induction dims with
  | nil => intro p h _; simp [contigR] at h; simp [maxOffset, h]
  | cons d ds ih =>
    obtain ⟨size, stride⟩ := d
    intro p h hz
    simp only [hasZero, List.any_cons, Bool.or_eq_false_iff, beq_eq_false_iff_ne] at hz
    simp only [contigR] at h
    cases hc : contigR ds with
    | none => rw [hc] at h; simp [contigStep] at h
    | some q =>
      rw [hc] at h
      have hq := ih q hc (by simpa [hasZero] using hz.2)
      simp only [contigStep] at h
      simp only [maxOffset]
      split at h
      · next h1 =>
        cases h
        have h1' : size = 1 := h1
        subst h1'
        simp only [Nat.sub_self, Nat.zero_mul, Nat.zero_add]
        exact hq
      · split at h
        · cases h
        · next h2 =>
          cases h
          simp only [ne_eq, Decidable.not_not] at h2
          subst h2
          obtain ⟨k, rfl⟩ : ∃ k, size = k + 1 := ⟨size - 1, by omega⟩
          simp only [Nat.add_sub_cancel]
          rw [Nat.mul_succ, Nat.mul_comm stride k]
          omega

theorem minDataLen_of_contiguous {dims : List (Nat × Nat)} (hc : isContiguous dims = true)
    (hz : hasZero dims = false) : minDataLen dims = len dims := by
  rw [isContiguous_eq] at hc
  obtain ⟨p, hp⟩ := Option.isSome_iff_exists.mp hc
  have h1 := contigR_maxOffset dims p hp hz
  have h2 := contigR_some_eq hp
  unfold minDataLen len
  rw [hz]
  simp only [Bool.false_eq_true, if_false]
  omega

end RtenVerif.TensorBounds
