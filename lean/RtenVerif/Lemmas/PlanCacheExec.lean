import RtenVerif.Lemmas.PlanCache
/-!
# The reduced `run_plan` never panics on an accepted request (C26)

Refcount invariant on `Model/PlanCache.lean`'s `runPlan`: for a plan that satisfies C03's
`ValidIds`/`PlanOK` for the supplied ids and requested outputs, on a graph whose operator inputs
are value or constant nodes, none of the four modelled panic sites is reachable.

Invariant (lower-bound form, robust against the sticky `u8` saturation): for every value node
`v`, `rc[v] = 255 ∨ rc[v] ≥` the number of uses of `v` still ahead (occurrences among the
dependencies of the operators still to run + occurrences among the requested outputs); a value
with a use still ahead that has been supplied or produced is a view input or in `temp_values`.
-/
namespace RtenVerif.PlanCache
open RtenVerif.Graph RtenVerif.Planner

/-- Operator inputs are value or constant nodes of the graph (what the model loaders build). -/
def WFG (g : Graph) : Prop :=
  ∀ i op, getOp g i = some op → ∀ d ∈ opInputs op, isValueOrConstant g d = true

/-- `operator_dependencies` of plan entry `i` (`[]` if `i` is not an operator). -/
def depsOf (g : Graph) (i : Nat) : List Nat :=
  match getOp g i with
  | some op => opDeps g op
  | none => []

/-- Uses of `v` still ahead. -/
def usesAhead (g : Graph) (rest outs : List Nat) (v : Nat) : Nat :=
  (rest.flatMap (depsOf g)).count v + outs.count v

/-- Lower-bound refcount invariant. -/
def RcLow (g : Graph) (rc : List Nat) (f : Nat → Nat) : Prop :=
  ∀ v, getNode g v = some .value → ∃ c, rc[v]? = some c ∧ (c = 255 ∨ f v ≤ c)

/-- Values with a use ahead that are available (`R`) are view inputs or in `temp_values`. -/
def TempOK (g : Graph) (views R temp : List Nat) (f : Nat → Nat) : Prop :=
  ∀ v, getNode g v = some .value → 1 ≤ f v → v ∈ R → v ∈ views ∨ v ∈ temp

theorem getNode_lt {g : Graph} {v : Nat} {n : Node} (h : getNode g v = some n) : v < g.nodes.length :=
  (List.getElem?_eq_some_iff.mp h).1

theorem lt_of_isVoC {g : Graph} {v : Nat} (h : isValueOrConstant g v = true) : v < g.nodes.length := by
  unfold isValueOrConstant at h
  cases hn : getNode g v with
  | none => simp [hn] at h
  | some n => exact getNode_lt hn

theorem RcLow.mono {g : Graph} {rc : List Nat} {f f' : Nat → Nat} (h : RcLow g rc f)
    (hle : ∀ v, getNode g v = some .value → f' v ≤ f v) : RcLow g rc f' := by
  intro v hv
  obtain ⟨c, hc, h1⟩ := h v hv
  exact ⟨c, hc, h1.imp id (fun h2 => Nat.le_trans (hle v hv) h2)⟩

theorem TempOK.mono {g : Graph} {views R temp : List Nat} {f f' : Nat → Nat}
    (h : TempOK g views R temp f) (hle : ∀ v, getNode g v = some .value → f' v ≤ f v) :
    TempOK g views R temp f' :=
  fun v hv h1 hr => h v hv (Nat.le_trans h1 (hle v hv)) hr

/-! ## The counting phase -/

theorem rcInc_some {rc : List Nat} {id c : Nat} (h : rc[id]? = some c) :
    rcInc rc id = some (rc.set id (if c < 255 then c + 1 else 255)) := by
  simp [rcInc, h]

theorem RcLow.inc {g : Graph} {rc : List Nat} {f : Nat → Nat} {id c : Nat} (h : RcLow g rc f)
    (hc : rc[id]? = some c) :
    RcLow g (rc.set id (if c < 255 then c + 1 else 255)) (fun v => f v + if v = id then 1 else 0) := by
  intro v hv
  have hlt : id < rc.length := (List.getElem?_eq_some_iff.mp hc).1
  by_cases hvi : v = id
  · subst hvi
    obtain ⟨c', hc', h1⟩ := h v hv
    rw [hc] at hc'; injection hc' with hc'; subst hc'
    refine ⟨_, List.getElem?_set_self hlt, ?_⟩
    by_cases h255 : c < 255
    · simp only [h255, if_true, if_pos rfl]
      rcases h1 with h1 | h1
      · omega
      · right; omega
    · simp [h255]
  · obtain ⟨c', hc', h1⟩ := h v hv
    refine ⟨c', by rw [List.getElem?_set_ne (Ne.symm hvi)]; exact hc', ?_⟩
    simpa [hvi] using h1

theorem rcIncDeps_ok {g : Graph} :
    ∀ (ds : List Nat) (rc : List Nat) (f : Nat → Nat), rc.length = g.nodes.length → RcLow g rc f →
      ∃ rc', rcIncDeps g ds rc = some rc' ∧ rc'.length = g.nodes.length ∧
        RcLow g rc' (fun v => f v + ds.count v) := by
  intro ds
  induction ds with
  | nil => intro rc f hl h; exact ⟨rc, rfl, hl, by simpa using h⟩
  | cons d ds ih =>
    intro rc f hl h
    unfold rcIncDeps
    cases hn : getNode g d with
    | none =>
      obtain ⟨rc', h1, h2, h3⟩ := ih rc f hl h
      refine ⟨rc', by simpa using h1, h2, h3.mono ?_⟩
      intro v hv
      have : d ≠ v := fun e => by subst e; rw [hn] at hv; cases hv
      simp [List.count_cons, this]
    | some nd =>
      cases nd with
      | value =>
        have hlt : d < rc.length := by rw [hl]; exact getNode_lt hn
        obtain ⟨c, hc⟩ : ∃ c, rc[d]? = some c := ⟨rc[d], List.getElem?_eq_getElem hlt⟩
        simp only [rcInc_some hc]
        obtain ⟨rc', h1, h2, h3⟩ := ih _ _ (by simp [hl]) (h.inc hc)
        refine ⟨rc', h1, h2, h3.mono ?_⟩
        intro v _
        simp only [List.count_cons, beq_iff_eq]
        by_cases e : v = d
        · subst e; simp; omega
        · have : ¬d = v := fun e' => e e'.symm
          simp [e, this]
      | constant =>
        obtain ⟨rc', h1, h2, h3⟩ := ih rc f hl h
        refine ⟨rc', by simpa using h1, h2, h3.mono ?_⟩
        intro v hv
        have : d ≠ v := fun e => by subst e; rw [hn] at hv; cases hv
        simp [List.count_cons, this]
      | operator op =>
        obtain ⟨rc', h1, h2, h3⟩ := ih rc f hl h
        refine ⟨rc', by simpa using h1, h2, h3.mono ?_⟩
        intro v hv
        have : d ≠ v := fun e => by subst e; rw [hn] at hv; cases hv
        simp [List.count_cons, this]

theorem rcInitPlan_ok {g : Graph} :
    ∀ (plan : List Nat) (rc : List Nat) (f : Nat → Nat), rc.length = g.nodes.length → RcLow g rc f →
      (∀ i ∈ plan, (getOp g i).isSome = true) →
      ∃ rc', rcInitPlan g plan rc = .ok rc' ∧ rc'.length = g.nodes.length ∧
        RcLow g rc' (fun v => f v + (plan.flatMap (depsOf g)).count v) := by
  intro plan
  induction plan with
  | nil => intro rc f hl h _; exact ⟨rc, rfl, hl, by simpa using h⟩
  | cons i is ih =>
    intro rc f hl h hops
    obtain ⟨op, hop⟩ := Option.isSome_iff_exists.mp (hops i (List.mem_cons_self ..))
    obtain ⟨rc1, h1, h2, h3⟩ := rcIncDeps_ok (opDeps g op) rc f hl h
    obtain ⟨rc2, k1, k2, k3⟩ := ih rc1 _ h2 h3 (fun j hj => hops j (List.mem_cons_of_mem _ hj))
    refine ⟨rc2, ?_, k2, k3.mono ?_⟩
    · simp only [rcInitPlan, hop, h1]; exact k1
    · intro v _
      simp only [List.flatMap_cons, List.count_append, depsOf, hop]
      omega

theorem rcIncOuts_ok {g : Graph} :
    ∀ (outs : List Nat) (rc : List Nat) (f : Nat → Nat), rc.length = g.nodes.length → RcLow g rc f →
      (∀ o ∈ outs, o < g.nodes.length) →
      ∃ rc', rcIncOuts outs rc = some rc' ∧ rc'.length = g.nodes.length ∧
        RcLow g rc' (fun v => f v + outs.count v) := by
  intro outs
  induction outs with
  | nil => intro rc f hl h _; exact ⟨rc, rfl, hl, by simpa using h⟩
  | cons o os ih =>
    intro rc f hl h hr
    have hlt : o < rc.length := by rw [hl]; exact hr o (List.mem_cons_self ..)
    obtain ⟨c, hc⟩ : ∃ c, rc[o]? = some c := ⟨rc[o], List.getElem?_eq_getElem hlt⟩
    obtain ⟨rc', h1, h2, h3⟩ := ih _ _ (by simp [hl]) (h.inc hc)
      (fun o' ho' => hr o' (List.mem_cons_of_mem _ ho'))
    refine ⟨rc', by simp only [rcIncOuts, rcInc_some hc]; exact h1, h2, h3.mono ?_⟩
    intro v _
    simp only [List.count_cons, beq_iff_eq]
    by_cases e : v = o
    · subst e; simp; omega
    · have : ¬o = v := fun e' => e e'.symm
      simp [e, this]

/-! ## The execution loop -/

theorem mem_addTemps {v : Nat} : ∀ (os t : List Nat), v ∈ addTemps t os ↔ v ∈ t ∨ v ∈ os := by
  intro os
  induction os with
  | nil => intro t; simp [addTemps]
  | cons o os ih =>
    intro t
    simp only [addTemps, ih]
    by_cases hc : t.contains o = true
    · simp only [hc, if_true, List.mem_cons]
      have : o ∈ t := List.contains_iff_mem.mp hc
      constructor
      · rintro (h | h)
        · exact Or.inl h
        · exact Or.inr (Or.inr h)
      · rintro (h | h | h)
        · exact Or.inl h
        · subst h; exact Or.inl this
        · exact Or.inr h
    · simp only [hc, Bool.false_eq_true, if_false, List.mem_append, List.mem_cons, List.not_mem_nil,
        or_false]
      exact or_assoc

theorem lookupInputs_none {g : Graph} {views temp : List Nat} :
    ∀ (ds : List Nat),
      (∀ d ∈ ds, getNode g d = some .constant ∨
        (getNode g d = some .value ∧ (d ∈ views ∨ d ∈ temp))) →
      lookupInputs g views temp ds = none := by
  intro ds
  induction ds with
  | nil => intro _; rfl
  | cons d ds ih =>
    intro h
    have hrest := ih (fun d' hd' => h d' (List.mem_cons_of_mem _ hd'))
    rcases h d (List.mem_cons_self ..) with hc | ⟨hv, hm⟩
    · simp only [lookupInputs, hc]; exact hrest
    · have : (views.contains d || temp.contains d) = true := by
        simp only [Bool.or_eq_true, List.contains_iff_mem]; exact hm
      simp only [lookupInputs, hv, this, if_true]; exact hrest

theorem decDeps_ok {g : Graph} {views R : List Nat} {f : Nat → Nat} :
    ∀ (ds : List Nat) (st : RSt), st.rc.length = g.nodes.length → (∀ d ∈ ds, d < g.nodes.length) →
      RcLow g st.rc (fun v => ds.count v + f v) → TempOK g views R st.temp (fun v => ds.count v + f v) →
      ∃ st', decDeps ds st = some st' ∧ st'.rc.length = g.nodes.length ∧ RcLow g st'.rc f ∧
        TempOK g views R st'.temp f := by
  intro ds
  induction ds with
  | nil => intro st hl _ h1 h2; exact ⟨st, rfl, hl, by simpa using h1, by simpa using h2⟩
  | cons d ds ih =>
    intro st hl hr h1 h2
    have hlt : d < st.rc.length := by rw [hl]; exact hr d (List.mem_cons_self ..)
    obtain ⟨c, hc⟩ : ∃ c, st.rc[d]? = some c := ⟨st.rc[d], List.getElem?_eq_getElem hlt⟩
    have hr' : ∀ d' ∈ ds, d' < g.nodes.length := fun d' hd' => hr d' (List.mem_cons_of_mem _ hd')
    have hle : ∀ v, ds.count v + f v ≤ (d :: ds).count v + f v := by
      intro v; simp only [List.count_cons]; omega
    by_cases h255 : c = 255
    · -- sticky: nothing changes
      obtain ⟨st', k1, k2, k3, k4⟩ := ih st hl hr' (h1.mono (fun v _ => hle v)) (h2.mono (fun v _ => hle v))
      refine ⟨st', ?_, k2, k3, k4⟩
      simp only [decDeps, rcDec, hc, h255]
      simpa using k1
    · by_cases h0 : c = 0
      · obtain ⟨st', k1, k2, k3, k4⟩ := ih st hl hr' (h1.mono (fun v _ => hle v)) (h2.mono (fun v _ => hle v))
        refine ⟨st', ?_, k2, k3, k4⟩
        simp only [decDeps, rcDec, hc, h0]
        simpa using k1
      · -- genuine decrement
        have hstep : decDeps (d :: ds) st =
            decDeps ds { temp := if c - 1 = 0 then st.temp.erase d else st.temp, rc := st.rc.set d (c - 1) } := by
          simp only [decDeps, rcDec, hc]
          have e1 : (c == 255) = false := by simpa using h255
          have e2 : (c == 0) = false := by simpa using h0
          simp only [e1, e2, Bool.false_eq_true, if_false]
          congr 2
          by_cases e : c - 1 = 0 <;> simp [e]
        rw [hstep]
        apply ih
        · simp [hl]
        · exact hr'
        · intro v hv
          by_cases hvd : v = d
          · subst hvd
            obtain ⟨c', hc', hlow⟩ := h1 v hv
            rw [hc] at hc'; injection hc' with hc'; subst hc'
            refine ⟨c - 1, List.getElem?_set_self hlt, Or.inr ?_⟩
            show ds.count v + f v ≤ c - 1
            rcases hlow with hlow | hlow
            · exact absurd hlow h255
            · dsimp only at hlow; simp only [List.count_cons_self] at hlow; omega
          · obtain ⟨c', hc', hlow⟩ := h1 v hv
            refine ⟨c', by rw [List.getElem?_set_ne (Ne.symm hvd)]; exact hc', ?_⟩
            have : ¬d = v := fun e => hvd e.symm
            simpa [List.count_cons, this] using hlow
        · intro v hv hone hvR
          have hold := h2 v hv (Nat.le_trans hone (hle v)) hvR
          by_cases hvd : v = d
          · subst hvd
            obtain ⟨c', hc', hlow⟩ := h1 v hv
            rw [hc] at hc'; injection hc' with hc'; subst hc'
            have hne : ¬(c - 1 = 0) := by
              rcases hlow with hlow | hlow
              · exact absurd hlow h255
              · dsimp only at hlow hone; simp only [List.count_cons_self] at hlow; omega
            simpa [hne] using hold
          · rcases hold with hold | hold
            · exact Or.inl hold
            · right
              by_cases e : c - 1 = 0
              · simp only [e, if_true]; exact (List.mem_erase_of_ne hvd).mpr hold
              · simpa [e] using hold

theorem collectOutputs_none {g : Graph} {views : List Nat} :
    ∀ (os temp : List Nat), os.Nodup → (∀ o ∈ os, isValueOrConstant g o = true) →
      (∀ o ∈ os, getNode g o = some .value → o ∈ views ∨ o ∈ temp) →
      collectOutputs g views os temp = none := by
  intro os
  induction os with
  | nil => intro _ _ _ _; rfl
  | cons o os ih =>
    intro temp hnd hk hav
    have hnd' := (List.nodup_cons.mp hnd).2
    have hno := (List.nodup_cons.mp hnd).1
    have hk' : ∀ o' ∈ os, isValueOrConstant g o' = true := fun o' h => hk o' (List.mem_cons_of_mem _ h)
    have hko := hk o (List.mem_cons_self ..)
    unfold isValueOrConstant at hko
    cases hn : getNode g o with
    | none => simp [hn] at hko
    | some nd =>
      cases nd with
      | operator op => simp [hn] at hko
      | constant =>
        simp only [collectOutputs, hn]
        exact ih temp hnd' hk' (fun o' h hv => hav o' (List.mem_cons_of_mem _ h) hv)
      | value =>
        simp only [collectOutputs, hn]
        by_cases hv : views.contains o = true
        · simp only [hv, if_true]
          exact ih temp hnd' hk' (fun o' h hv => hav o' (List.mem_cons_of_mem _ h) hv)
        · have hnv : o ∉ views := fun h => hv (List.contains_iff_mem.mpr h)
          have hot : o ∈ temp := (hav o (List.mem_cons_self ..) hn).resolve_left hnv
          simp only [hv, Bool.false_eq_true, if_false, List.contains_iff_mem.mpr hot, if_true]
          apply ih _ hnd' hk'
          intro o' h hv'
          have hne : o' ≠ o := fun e => hno (e ▸ h)
          rcases hav o' (List.mem_cons_of_mem _ h) hv' with h1 | h1
          · exact Or.inl h1
          · exact Or.inr ((List.mem_erase_of_ne hne).mpr h1)

theorem usesAhead_cons (g : Graph) (i : Nat) (rest outs : List Nat) (v : Nat) :
    usesAhead g (i :: rest) outs v = (depsOf g i).count v + usesAhead g rest outs v := by
  simp only [usesAhead, List.flatMap_cons, List.count_append]; omega

theorem mem_r_of_avail {g : Graph} {r : List Nat} {d : Nat} (hv : getNode g d = some .value)
    (h : Avail g false r d) : d ∈ r := by
  rcases h with h | ⟨h, _⟩
  · unfold rContains at h
    have hc : isConstant g d = false := by simp [isConstant, hv]
    rw [hc, Bool.or_false] at h
    exact List.contains_iff_mem.mp h
  · cases h

theorem opDeps_lt {g : Graph} (hwf : WFG g) {i : Nat} {op : OpNode} (hop : getOp g i = some op) :
    ∀ d ∈ opDeps g op, d < g.nodes.length := by
  intro d hd
  unfold opDeps at hd
  rcases List.mem_append.mp hd with h | h
  · exact lt_of_isVoC (hwf i op hop d h)
  · have := (List.mem_filter.mp h).2
    simp only [Bool.and_eq_true, decide_eq_true_eq] at this
    exact this.1

/-- The plan loop runs to completion and re-establishes the invariants. -/
theorem execLoop_ok {g : Graph} {views outs : List Nat} (hwf : WFG g) (opsOk : Bool) :
    ∀ (rest r : List Nat) (st : RSt), ValidIds g false r rest → st.rc.length = g.nodes.length →
      RcLow g st.rc (usesAhead g rest outs) → TempOK g views r st.temp (usesAhead g rest outs) →
      (opsOk = false ∧ execLoop g views opsOk rest st = .error .errOp) ∨
      ∃ st', execLoop g views opsOk rest st = .ok st' ∧ RcLow g st'.rc (usesAhead g [] outs) ∧
        TempOK g views (availAfter g r rest) st'.temp (usesAhead g [] outs) := by
  intro rest
  induction rest with
  | nil =>
    intro r st _ _ h1 h2
    exact Or.inr ⟨st, rfl, h1, by simpa [availAfter] using h2⟩
  | cons i is ih =>
    intro r st hv hl h1 h2
    obtain ⟨⟨op, hop, havail⟩, hrest⟩ := hv
    have hdeps : depsOf g i = opDeps g op := by simp [depsOf, hop]
    have houts : outsOf g i = opOutputs op := by simp [outsOf, hop]
    -- input lookup
    have hlook : lookupInputs g views st.temp (opInputs op) = none := by
      apply lookupInputs_none
      intro d hd
      have hk := hwf i op hop d hd
      unfold isValueOrConstant at hk
      cases hn : getNode g d with
      | none => simp [hn] at hk
      | some nd =>
        cases nd with
        | operator _ => simp [hn] at hk
        | constant => exact Or.inl rfl
        | value =>
          refine Or.inr ⟨rfl, ?_⟩
          have hdm : d ∈ opDeps g op := List.mem_append_left _ hd
          have hdr := mem_r_of_avail hn (havail d hdm)
          apply h2 d hn _ hdr
          rw [usesAhead_cons, hdeps]
          have := List.count_pos_iff.mpr hdm
          omega
    -- a failing kernel stops the run with an error
    cases hops : opsOk with
    | false =>
      left
      refine ⟨rfl, ?_⟩
      simp only [execLoop, hop, hlook, Bool.not_false, if_true]
    | true =>
    subst hops
    -- release loop
    have hf : ∀ v, (opDeps g op).count v + usesAhead g is outs v = usesAhead g (i :: is) outs v := by
      intro v; rw [usesAhead_cons, hdeps]
    obtain ⟨st1, k1, k2, k3, k4⟩ := decDeps_ok (g := g) (views := views) (R := r ++ outsOf g i)
      (f := usesAhead g is outs) (opDeps g op)
      { st with temp := addTemps st.temp (opOutputs op) } hl (opDeps_lt hwf hop)
      (h1.mono (fun v _ => Nat.le_of_eq (hf v)))
      (by
        intro v hvv hone hvR
        rcases List.mem_append.mp hvR with hr | hr
        · rcases h2 v hvv (by rw [← hf v]; exact hone) hr with h | h
          · exact Or.inl h
          · exact Or.inr ((mem_addTemps _ _).mpr (Or.inl h))
        · rw [houts] at hr
          exact Or.inr ((mem_addTemps _ _).mpr (Or.inr hr)))
    rcases ih (r ++ outsOf g i) st1 hrest k2 k3 k4 with ⟨hcontra, _⟩ | ⟨st', e1, e2, e3⟩
    · cases hcontra
    refine Or.inr ⟨st', ?_, e2, ?_⟩
    · simp only [execLoop, hop, hlook, Bool.not_true, Bool.false_eq_true, if_false, k1]
      exact e1
    · have : availAfter g (r ++ outsOf g i) is = availAfter g r (i :: is) := by
        simp [availAfter, List.flatMap_cons, List.append_assoc]
      rw [← this]; exact e3

theorem validIds_ops {g : Graph} {am : Bool} {r0 plan : List Nat} (h : ValidIds g am r0 plan) :
    ∀ i ∈ plan, (getOp g i).isSome = true := by
  intro i hi
  obtain ⟨pre, post, hsplit⟩ := List.append_of_mem hi
  obtain ⟨op, hop, _⟩ := validIds_split h hsplit
  rw [hop]; rfl

/-- **An accepted request never panics in `run_plan`.**  On a graph whose operator inputs are
value or constant nodes, with well-formed ids (`ArgsOK`) and a plan that is valid for the request
(`PlanOK`, which is what `get_cached_plan` hands out: `c26_accepted_plan_ok`), the reduced
`run_plan` reaches none of its four panic sites and — when the operator kernels succeed —
returns `Ok`. -/
theorem runPlan_valid {g : Graph} (hwf : WFG g) (opsOk : Bool) {inputs : List (Nat × InVal)}
    {plan outs : List Nat} (hnd : outs.Nodup) (hkind : ∀ o ∈ outs, isValueOrConstant g o = true)
    (hvalid : ValidIds g false (inputs.map (·.1)) plan)
    (houts : ∀ o ∈ outs, Avail g false (availAfter g (inputs.map (·.1)) plan) o) :
    (opsOk = false ∧ runPlan g opsOk inputs plan outs = .errOp) ∨
      runPlan g opsOk inputs plan outs = .ok := by
  -- counting phase
  have hl0 : (List.replicate g.nodes.length 0).length = g.nodes.length := List.length_replicate ..
  have hlow0 : RcLow g (List.replicate g.nodes.length 0) (fun _ => 0) := by
    intro v hv
    refine ⟨0, ?_, Or.inr (Nat.le_refl 0)⟩
    rw [List.getElem?_replicate]; simp [getNode_lt hv]
  obtain ⟨rc1, a1, a2, a3⟩ := rcInitPlan_ok plan _ _ hl0 hlow0 (validIds_ops hvalid)
  obtain ⟨rc2, b1, b2, b3⟩ := rcIncOuts_ok outs rc1 _ a2 a3 (fun o ho => lt_of_isVoC (hkind o ho))
  have hlow : RcLow g rc2 (usesAhead g plan outs) :=
    b3.mono (fun v _ => by simp [usesAhead])
  -- initial temp_values / views
  have htemp : TempOK g ((inputs.filter (fun p => !p.2.owned)).map (·.1)) (inputs.map (·.1))
      (addTemps [] ((inputs.filter (fun p => p.2.owned)).map (·.1))) (usesAhead g plan outs) := by
    intro v _ _ hvR
    obtain ⟨⟨id, x⟩, hm, rfl⟩ := List.mem_map.mp hvR
    by_cases ho : x.owned = true
    · right
      exact (mem_addTemps _ _).mpr (Or.inr (List.mem_map.mpr ⟨(id, x), List.mem_filter.mpr ⟨hm, ho⟩, rfl⟩))
    · left
      exact List.mem_map.mpr ⟨(id, x), List.mem_filter.mpr ⟨hm, by simpa using ho⟩, rfl⟩
  rcases execLoop_ok (outs := outs) hwf opsOk plan (inputs.map (·.1))
    { temp := addTemps [] ((inputs.filter (fun p => p.2.owned)).map (·.1)), rc := rc2 }
    hvalid b2 hlow htemp with ⟨hf, herr⟩ | ⟨st', c1, c2, c3⟩
  · left
    refine ⟨hf, ?_⟩
    simp only [runPlan, a1, b1, herr]
  right
  -- output collection
  have hcol : collectOutputs g ((inputs.filter (fun p => !p.2.owned)).map (·.1)) outs st'.temp = none := by
    apply collectOutputs_none outs st'.temp hnd hkind
    intro o ho hv
    apply c3 o hv
    · have := List.count_pos_iff.mpr ho
      simp only [usesAhead, List.flatMap_nil, List.count_nil, Nat.zero_add]
      omega
    · exact mem_r_of_avail hv (houts o ho)
  simp only [runPlan, a1, b1, c1, hcol]

/-- The same from C03's `PlanOK` (what `get_cached_plan` hands out). -/
theorem runPlan_accepted {g : Graph} (hwf : WFG g) (opsOk : Bool) {inputs : List (Nat × InVal)}
    {plan outs : List Nat} (hargs : ArgsOK g (inputs.map (·.1)) outs)
    (hok : PlanOK g false (resolvedNew g (inputs.map (·.1)) false) outs plan) :
    (opsOk = false ∧ runPlan g opsOk inputs plan outs = .errOp) ∨
      runPlan g opsOk inputs plan outs = .ok := by
  have hr0 : resolvedNew g (inputs.map (·.1)) false = inputs.map (·.1) := by simp [resolvedNew]
  rw [hr0] at hok
  exact runPlan_valid hwf opsOk hargs.1 hargs.2.1 hok.valid hok.outputs

/-- With succeeding kernels an accepted request returns `Ok`. -/
theorem runPlan_ok {g : Graph} (hwf : WFG g) {inputs : List (Nat × InVal)} {plan outs : List Nat}
    (hargs : ArgsOK g (inputs.map (·.1)) outs)
    (hok : PlanOK g false (resolvedNew g (inputs.map (·.1)) false) outs plan) :
    runPlan g true inputs plan outs = .ok := by
  rcases runPlan_accepted hwf true hargs hok with ⟨h, _⟩ | h
  · cases h
  · exact h

/-! ## `prune_plan` keeps the plan valid (for `partial_run`) -/

/-- Operator outputs are value or constant nodes. -/
def WFGo (g : Graph) : Prop :=
  ∀ i op, getOp g i = some op → ∀ o ∈ opOutputs op, isValueOrConstant g o = true

theorem nodup_addTemps : ∀ (os t : List Nat), t.Nodup → (addTemps t os).Nodup := by
  intro os
  induction os with
  | nil => intro t h; exact h
  | cons o os ih =>
    intro t h
    simp only [addTemps]
    apply ih
    by_cases hc : t.contains o = true
    · rw [if_pos hc]; exact h
    · rw [if_neg hc]
      have hno : o ∉ t := fun hm => hc (List.contains_iff_mem.mpr hm)
      rw [List.nodup_append]
      refine ⟨h, by simp, ?_⟩
      intro a ha b hb
      simp only [List.mem_singleton] at hb
      subst hb
      exact fun e => hno (e ▸ ha)

structure PruneInv (g : Graph) (ins : List Nat) (st : PruneSt) : Prop where
  valid : ValidIds g false ins st.pruned
  res : st.resolved = availAfter g ins st.pruned
  cand : ∀ v ∈ st.cand, v ∈ availAfter g ins st.pruned
  nodup : st.cand.Nodup

theorem pruneLoop_inv {g : Graph} {ins : List Nat} :
    ∀ (plan : List Nat) (st : PruneSt), PruneInv g ins st → PruneInv g ins (pruneLoop g plan st) := by
  intro plan
  induction plan with
  | nil => intro st h; exact h
  | cons i is ih =>
    intro st h
    unfold pruneLoop
    cases hop : getOp g i with
    | none => exact ih st h
    | some op =>
      simp only
      split
      · exact ih _ ⟨h.valid, h.res, h.cand, h.nodup⟩
      · rename_i hcond
        have hall : (opDeps g op).all (rContains g st.resolved) = true := by
          cases hd : (opDeps g op).all (rContains g st.resolved) with
          | true => rfl
          | false => simp [hd] at hcond
        have houts : outsOf g i = opOutputs op := by simp [outsOf, hop]
        have hav : availAfter g ins (st.pruned ++ [i]) = availAfter g ins st.pruned ++ opOutputs op := by
          simp [availAfter, List.flatMap_append, houts, List.append_assoc]
        apply ih
        refine ⟨?_, ?_, ?_, nodup_addTemps _ _ h.nodup⟩
        · rw [validIds_append]
          refine ⟨h.valid, ⟨op, hop, ?_⟩, trivial⟩
          intro d hd
          left
          rw [← h.res]
          exact List.all_eq_true.mp hall d hd
        · show st.resolved ++ opOutputs op = _
          rw [hav, h.res]
        · intro v hv
          rw [hav]
          rcases (mem_addTemps _ _).mp hv with hv | hv
          · exact List.mem_append_left _ (h.cand v hv)
          · exact List.mem_append_right _ hv

/-- `partial_run` on a request with well-formed ids never panics in `run_plan`. -/
theorem partialRun_no_panic {m : Mdl} (hwf : WFG m.g) (hwo : WFGo m.g) (opsOk : Bool)
    (inputs : List (Nat × InVal)) (outs : List Nat) :
    (partialRun m opsOk inputs outs).isPanic = false := by
  unfold partialRun
  split
  · rfl
  · simp only
    cases hp : createPlan m.g (inputs.map (·.1)) outs { allowMissing := true, capturesAvailable := false } with
    | error e => rfl
    | ok plan =>
      simp only
      have hargs := argsOK_of_createPlan_ok hp
      have hinv := pruneLoop_inv (g := m.g) (ins := inputs.map (·.1)) plan
        { resolved := inputs.map (·.1), pruned := [], cand := inputs.map (·.1), prunedResolved := [] }
        ⟨trivial, by simp [availAfter], fun v hv => by simpa [availAfter] using hv, hargs.2.2.1⟩
      simp only [prunePlan]
      generalize pruneLoop m.g plan
        { resolved := inputs.map (·.1), pruned := [], cand := inputs.map (·.1), prunedResolved := [] } = st
        at hinv ⊢
      have hsub : ∀ o ∈ st.cand.filter (fun o => outs.contains o || st.prunedResolved.contains o),
          o ∈ availAfter m.g (inputs.map (·.1)) st.pruned :=
        fun o ho => hinv.cand o (List.mem_filter.mp ho).1
      have hkind : ∀ o ∈ st.cand.filter (fun o => outs.contains o || st.prunedResolved.contains o),
          isValueOrConstant m.g o = true := by
        intro o ho
        have hm := hsub o ho
        simp only [availAfter, List.mem_append, List.mem_flatMap] at hm
        rcases hm with hm | ⟨i, _, hm⟩
        · exact hargs.2.2.2 o hm
        · unfold outsOf at hm
          cases hop : getOp m.g i with
          | none => simp [hop] at hm
          | some op => rw [hop] at hm; exact hwo i op hop o hm
      rcases runPlan_valid hwf opsOk
        (outs := st.cand.filter (fun o => outs.contains o || st.prunedResolved.contains o))
        ((List.filter_sublist).nodup hinv.nodup) hkind hinv.valid
        (fun o ho => Or.inl (rContains_of_mem (hsub o ho))) with ⟨_, h⟩ | h
      · rw [h]; rfl
      · rw [h]; rfl

/-! ## The executable graph checks are sound -/

theorem mem_opNodes {g : Graph} {i : Nat} {op : OpNode} (h : getOp g i = some op) : (i, op) ∈ opNodes g := by
  unfold opNodes
  rw [List.mem_filterMap]
  exact ⟨i, List.mem_range.mpr (getOp_lt h), by simp [h]⟩

theorem wfgB_sound {g : Graph} (h : wfgB g = true) : WFG g := by
  intro i op hop d hd
  exact List.all_eq_true.mp (List.all_eq_true.mp h _ (mem_opNodes hop)) d hd

theorem wfgoB_sound {g : Graph} (h : wfgoB g = true) : WFGo g := by
  intro i op hop o ho
  exact List.all_eq_true.mp (List.all_eq_true.mp h _ (mem_opNodes hop)) o ho

theorem uniqueProducerB_sound {g : Graph} (h : uniqueProducerB g = true) : UniqueProducer g := by
  intro p op v hop hv
  have := List.all_eq_true.mp (List.all_eq_true.mp h _ (mem_opNodes hop)) v hv
  simpa using this

theorem outsValueB_sound {g : Graph} (h : outsValueB g = true) :
    ∀ i op, getOp g i = some op → ∀ o ∈ opOutputs op, getNode g o = some .value := by
  intro i op hop o ho
  have := List.all_eq_true.mp (List.all_eq_true.mp h _ (mem_opNodes hop)) o ho
  unfold isValueB at this
  cases hn : getNode g o with
  | none => simp [hn] at this
  | some nd => cases nd <;> simp_all

end RtenVerif.PlanCache

