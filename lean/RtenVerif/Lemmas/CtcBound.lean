import RtenVerif.Lemmas.Ctc

/-! C39.T3, model side: over exact `Nat` arithmetic every beam state's `(pb, pnb)` is bounded
by the textbook prefix recursion `dpRev`.  Core Lean only. -/
namespace RtenVerif.Ctc

/-! ## Sums -/

theorem foldl_add_closed {β σ : Type} (F : σ → Nat) (f : σ → β → σ) (g : β → Nat)
    (hf : ∀ t x, F (f t x) = F t + g x) (l : List β) :
    ∀ t, F (l.foldl f t) = F t + (l.map g).sum := by
  induction l with
  | nil => intro t; simp
  | cons a l ih =>
    intro t
    simp only [List.foldl_cons, List.map_cons, List.sum_cons]
    rw [ih, hf]; omega

theorem sum_le_sum {β : Type} (f g : β → Nat) (l : List β) (h : ∀ x ∈ l, f x ≤ g x) :
    (l.map f).sum ≤ (l.map g).sum := by
  induction l with
  | nil => simp
  | cons a l ih =>
    simp only [List.map_cons, List.sum_cons]
    have := h a List.mem_cons_self
    have := ih (fun x hx => h x (List.mem_cons_of_mem _ hx))
    omega

theorem sum_add {β : Type} (f g : β → Nat) (l : List β) :
    (l.map (fun x => f x + g x)).sum = (l.map f).sum + (l.map g).sum := by
  induction l with
  | nil => simp
  | cons a l ih => simp only [List.map_cons, List.sum_cons]; omega

theorem sum_zero {β : Type} (l : List β) : (l.map (fun _ => 0)).sum = 0 := by
  induction l with
  | nil => simp
  | cons a l ih => simp only [List.map_cons, List.sum_cons]; omega

/-- An indicator on a key that is injective along the list fires at most once. -/
theorem sum_indicator_le {β κ : Type} [DecidableEq κ] (key : β → κ) (k0 : κ) (c : Nat)
    (l : List β) (hnd : (l.map key).Nodup) :
    (l.map (fun x => if key x = k0 then c else 0)).sum ≤ c := by
  induction l with
  | nil => simp
  | cons a l ih =>
    simp only [List.map_cons, List.nodup_cons, List.mem_map, not_exists, not_and] at hnd
    simp only [List.map_cons, List.sum_cons]
    by_cases ha : key a = k0
    · rw [if_pos ha]
      have : (l.map (fun x => if key x = k0 then c else 0)).sum = 0 := by
        have h0 : ∀ x ∈ l, (if key x = k0 then c else 0) ≤ (fun _ => 0) x := by
          intro x hx
          rw [if_neg (fun hk => hnd.1 x hx (hk.trans ha.symm))]
          exact Nat.le_refl _
        have := sum_le_sum _ _ l h0
        rw [sum_zero] at this
        omega
      omega
    · rw [if_neg ha]
      have := ih hnd.2
      omega

/-! ## Closed form of the extension tables over `natOps` -/

/-- What iteration `(bi, label)` of the extension loops adds to cell `(i, j)` of
`next_prob_no_blank`. -/
def cL (beam : List (BState Nat)) (row : List Nat) (bi : Nat) (s : BState Nat) (label : Nat)
    (i j : Nat) : Nat :=
  let prob := row.getD label 0
  let prev := (s.pre.getLast?).map (·.label)
  let tgt : Nat × Nat :=
    match mergeTarget beam s.pre label with
    | some ti => (ti, 0)
    | none => (bi, label)
  (if i = tgt.1 ∧ j = tgt.2 then
      (if some label != prev then s.pb * prob + s.pnb * prob else s.pb * prob) else 0)
  + (if (some label != prev) = false ∧ i = bi ∧ j = 0 then s.pnb * prob else 0)

theorem extLabel_nb (beam : List (BState Nat)) (row : List Nat) (bi : Nat) (s : BState Nat)
    (t : Tabs Nat) (label : Nat) : (extLabel natOps beam row bi s t label).nb = t.nb := by
  unfold extLabel
  simp only
  split <;> rfl

theorem upd1 (nnb : Table Nat) (a b A i j : Nat) :
    Table.upd nnb a b (nnb a b + A) i j = nnb i j + (if i = a ∧ j = b then A else 0) := by
  unfold Table.upd
  by_cases h : i = a ∧ j = b
  · obtain ⟨rfl, rfl⟩ := h; simp
  · simp [h]

theorem upd2 (nnb : Table Nat) (a b bi A Bv i j : Nat) :
    Table.upd (Table.upd nnb a b (nnb a b + A)) bi 0
      (Table.upd nnb a b (nnb a b + A) bi 0 + Bv) i j =
    nnb i j + (if i = a ∧ j = b then A else 0) + (if i = bi ∧ j = 0 then Bv else 0) := by
  rw [upd1 (Table.upd nnb a b (nnb a b + A)) bi 0 Bv i j, upd1]

theorem extLabel_nnb (beam : List (BState Nat)) (row : List Nat) (bi : Nat) (s : BState Nat)
    (t : Tabs Nat) (label : Nat) (i j : Nat) :
    (extLabel natOps beam row bi s t label).nnb i j = t.nnb i j + cL beam row bi s label i j := by
  unfold extLabel cL
  simp only [natOps]
  cases hmt : mergeTarget beam s.pre label <;> simp only
  all_goals
    by_cases hc : (some label != (s.pre.getLast?).map (·.label)) = true
    · simp only [hc, if_true]
      rw [Nat.add_assoc, upd1]
      simp
    · have hc' : (some label != (s.pre.getLast?).map (·.label)) = false := by simpa using hc
      simp only [hc', Bool.false_eq_true, ↓reduceIte, true_and]
      rw [upd2, Nat.add_assoc]

/-- Contribution of state `(s, bi)` to cell `(i, j)` of `next_prob_no_blank`. -/
def cS (L : Nat) (beam : List (BState Nat)) (row : List Nat) (sb : BState Nat × Nat)
    (i j : Nat) : Nat :=
  ((List.range' 1 (L - 1)).map (fun label => cL beam row sb.2 sb.1 label i j)).sum

theorem extState_nnb (L : Nat) (beam : List (BState Nat)) (row : List Nat) (t : Tabs Nat)
    (sb : BState Nat × Nat) (i j : Nat) :
    (extState natOps L beam row t sb).nnb i j = t.nnb i j + cS L beam row sb i j := by
  unfold extState cS
  simp only
  rw [foldl_add_closed (fun t => t.nnb i j) _ (fun label => cL beam row sb.2 sb.1 label i j)
    (fun t x => extLabel_nnb beam row sb.2 sb.1 t x i j)]

theorem extState_nb (L : Nat) (beam : List (BState Nat)) (row : List Nat) (t : Tabs Nat)
    (sb : BState Nat × Nat) (i j : Nat) :
    (extState natOps L beam row t sb).nb i j = t.nb i j +
      (if i = sb.2 ∧ j = 0 then sb.1.pb * row.getD 0 0 + sb.1.pnb * row.getD 0 0 else 0) := by
  unfold extState
  simp only
  have : ∀ (ls : List Nat) (t0 : Tabs Nat),
      (ls.foldl (extLabel natOps beam row sb.2 sb.1) t0).nb = t0.nb := by
    intro ls
    induction ls with
    | nil => intro t0; rfl
    | cons a ls ih => intro t0; simp only [List.foldl_cons]; rw [ih, extLabel_nb]
  rw [this]
  simp only [natOps, Table.upd]
  by_cases h : i = sb.2 ∧ j = 0
  · obtain ⟨rfl, rfl⟩ := h; simp; omega
  · simp [h]

theorem extendAll_nnb (L : Nat) (beam : List (BState Nat)) (row : List Nat) (i j : Nat) :
    (extendAll natOps L beam row).nnb i j = (beam.zipIdx.map (fun sb => cS L beam row sb i j)).sum := by
  unfold extendAll
  rw [foldl_add_closed (fun t => t.nnb i j) _ (fun sb => cS L beam row sb i j)
    (fun t x => extState_nnb L beam row t x i j)]
  simp [natOps]

theorem extendAll_nb (L : Nat) (beam : List (BState Nat)) (row : List Nat) (i j : Nat) :
    (extendAll natOps L beam row).nb i j = (beam.zipIdx.map (fun sb =>
      if i = sb.2 ∧ j = 0 then sb.1.pb * row.getD 0 0 + sb.1.pnb * row.getD 0 0 else 0)).sum := by
  unfold extendAll
  rw [foldl_add_closed (fun t => t.nb i j) _ _ (fun t x => extState_nb L beam row t x i j)]
  simp [natOps]

/-! ## Two-level indicator sums -/

theorem sum2_indicator_le {β γ κ1 κ2 : Type} [DecidableEq κ1] [DecidableEq κ2]
    (l1 : List β) (l2 : List γ) (k1 : β → κ1) (k2 : γ → κ2) (a0 : κ1) (b0 : κ2) (c : Nat)
    (hn1 : (l1.map k1).Nodup) (hn2 : (l2.map k2).Nodup) :
    (l1.map (fun x => (l2.map (fun y => if k1 x = a0 ∧ k2 y = b0 then c else 0)).sum)).sum ≤ c := by
  have inner : ∀ x ∈ l1, (l2.map (fun y => if k1 x = a0 ∧ k2 y = b0 then c else 0)).sum ≤
      (fun x => if k1 x = a0 then c else 0) x := by
    intro x _
    by_cases hx : k1 x = a0
    · simp only [hx, true_and, if_true]
      exact sum_indicator_le k2 b0 c l2 hn2
    · simp only [hx, false_and, if_false]
      rw [sum_zero]; exact Nat.le_refl _
  exact Nat.le_trans (sum_le_sum _ _ l1 inner) (sum_indicator_le k1 a0 c l1 hn1)

/-! ## Merge map soundness -/

theorem lastIdxGo_sound {β : Type} (p : β → Bool) (l : List β) : ∀ (k : Nat) (acc : Option Nat)
    (i : Nat), lastIdxGo p l k acc = some i →
    acc = some i ∨ (k ≤ i ∧ ∃ x, l[i - k]? = some x ∧ p x = true) := by
  induction l with
  | nil => intro k acc i h; exact Or.inl h
  | cons a l ih =>
    intro k acc i h
    simp only [lastIdxGo] at h
    rcases ih (k + 1) _ i h with h1 | ⟨hk, x, hx, hp⟩
    · by_cases hpa : p a = true
      · simp only [hpa, if_true, Option.some.injEq] at h1
        subst h1
        exact Or.inr ⟨Nat.le_refl _, a, by simp, hpa⟩
      · simp only [hpa] at h1
        exact Or.inl h1
    · refine Or.inr ⟨by omega, x, ?_, hp⟩
      have : i - k = (i - (k + 1)) + 1 := by omega
      rw [this, List.getElem?_cons_succ]
      exact hx

theorem mergeTarget_sound {α} (beam : List (BState α)) (p1 : List Step) (l i : Nat)
    (h : mergeTarget beam p1 l = some i) :
    ∃ s2, beam[i]? = some s2 ∧ labels s2.pre = labels p1 ++ [l] := by
  unfold mergeTarget at h
  rcases lastIdxGo_sound _ _ _ _ _ h with h1 | ⟨_, x, hx, hp⟩
  · cases h1
  · refine ⟨x, by simpa using hx, ?_⟩
    simpa [extends1] using hp

/-! ## The bound invariant -/

/-- Every beam state's `(pb, pnb)` is bounded by the prefix recursion over the rows
processed so far (`doneRev`: last processed row first). -/
def Inv (doneRev : List (List Nat)) (beam : List (BState Nat)) : Prop :=
  ∀ st ∈ beam, st.pb ≤ (dpRev doneRev (labels st.pre)).1 ∧
    st.pnb ≤ (dpRev doneRev (labels st.pre)).2

theorem dpRev_cons_fst (row : List Nat) (d : List (List Nat)) (s : List Nat) :
    (dpRev (row :: d) s).1 = row.getD 0 0 * ((dpRev d s).1 + (dpRev d s).2) := rfl

theorem dpRev_cons_snd_nil (row : List Nat) (d : List (List Nat)) :
    (dpRev (row :: d) []).2 = 0 := rfl

theorem dpRev_cons_snd_snoc (row : List Nat) (d : List (List Nat)) (s' : List Nat) (m : Nat) :
    (dpRev (row :: d) (s' ++ [m])).2 = row.getD m 0 *
      ((dpRev d (s' ++ [m])).2 + (dpRev d s').1 +
        (if s'.getLast? = some m then 0 else (dpRev d s').2)) := by
  simp [dpRev]

theorem mul_bound (pb pnb a b p : Nat) (h1 : pb ≤ a) (h2 : pnb ≤ b) :
    pb * p + pnb * p ≤ p * (a + b) := by
  rw [← Nat.add_mul, Nat.mul_comm]
  exact Nat.mul_le_mul_left p (Nat.add_le_add h1 h2)

theorem zipIdx_snd_nodup {α} (beam : List α) : (beam.zipIdx.map Prod.snd).Nodup := by
  rw [List.zipIdx_map_snd]; exact List.nodup_range' _

theorem zipIdx_labels_nodup (beam : List (BState Nat)) (h : Distinct beam) :
    (beam.zipIdx.map (fun sb => labels sb.1.pre)).Nodup := by
  have : beam.zipIdx.map (fun sb => labels sb.1.pre) =
      (beam.zipIdx.map Prod.fst).map (fun s => labels s.pre) := by
    rw [List.map_map]; rfl
  rw [this, List.zipIdx_map_fst]
  exact h

theorem range'_id_nodup (a n : Nat) : ((List.range' a n).map (fun x => x)).Nodup := by
  simp only [List.map_id']
  exact List.nodup_range' _

theorem prev_eq (s : BState Nat) :
    (s.pre.getLast?).map (·.label) = (labels s.pre).getLast? := by
  unfold labels; rw [List.getLast?_map]

/-- (a) blank cell. -/
theorem nb_bound (L : Nat) (d : List (List Nat)) (beam : List (BState Nat)) (row : List Nat)
    (hinv : Inv d beam) (i : Nat) (s : BState Nat) (hs : beam[i]? = some s) :
    (extendAll natOps L beam row).nb i 0 ≤ (dpRev (row :: d) (labels s.pre)).1 := by
  rw [extendAll_nb, dpRev_cons_fst]
  refine Nat.le_trans (sum_le_sum _ (fun sb => if Prod.snd sb = i then
    row.getD 0 0 * ((dpRev d (labels s.pre)).1 + (dpRev d (labels s.pre)).2) else 0) _ ?_)
    (sum_indicator_le Prod.snd i _ _ (zipIdx_snd_nodup beam))
  intro sb hsb
  have hget := List.mem_zipIdx_iff_getElem?.mp hsb
  by_cases h : i = sb.2
  · subst h
    rw [hs] at hget; cases hget
    simp only [and_self, if_true]
    have := hinv sb.1 (List.mem_of_getElem? hs)
    exact mul_bound _ _ _ _ _ this.1 this.2
  · have h' : ¬ sb.2 = i := fun hc => h hc.symm
    simp [h, h']

/-- Value bound for an extension of `s` by `l`. -/
theorem ext_value_bound (d : List (List Nat)) (s : BState Nat) (l p : Nat)
    (h1 : s.pb ≤ (dpRev d (labels s.pre)).1) (h2 : s.pnb ≤ (dpRev d (labels s.pre)).2) :
    (if some l != (s.pre.getLast?).map (·.label) then s.pb * p + s.pnb * p else s.pb * p) ≤
      p * ((dpRev d (labels s.pre)).1 +
        (if (labels s.pre).getLast? = some l then 0 else (dpRev d (labels s.pre)).2)) := by
  rw [prev_eq]
  by_cases hc : (labels s.pre).getLast? = some l
  · rw [hc]
    have : (some l != some l) = false := by simp
    rw [this, if_neg (by simp), if_pos rfl, Nat.add_zero, Nat.mul_comm]
    exact Nat.mul_le_mul_left p h1
  · have : (some l != (labels s.pre).getLast?) = true := by
      simp only [bne_iff_ne, ne_eq]; exact fun h => hc h.symm
    simp only [this, hc, if_true, if_false]
    exact mul_bound _ _ _ _ _ h1 h2

/-- (c) non-blank extension cell `(i, l)`. -/
theorem nnb_ext_bound (L : Nat) (d : List (List Nat)) (beam : List (BState Nat))
    (row : List Nat) (hinv : Inv d beam) (i l : Nat) (hl : l ≠ 0) (s : BState Nat)
    (hs : beam[i]? = some s) :
    (extendAll natOps L beam row).nnb i l ≤ (dpRev (row :: d) (labels s.pre ++ [l])).2 := by
  rw [extendAll_nnb, dpRev_cons_snd_snoc]
  let C := row.getD l 0 * ((dpRev d (labels s.pre)).1 +
      (if (labels s.pre).getLast? = some l then 0 else (dpRev d (labels s.pre)).2))
  have hC : C ≤ row.getD l 0 * ((dpRev d (labels s.pre ++ [l])).2 + (dpRev d (labels s.pre)).1 +
      (if (labels s.pre).getLast? = some l then 0 else (dpRev d (labels s.pre)).2)) := by
    apply Nat.mul_le_mul_left; omega
  refine Nat.le_trans ?_ hC
  refine Nat.le_trans (sum_le_sum _ (fun sb => ((List.range' 1 (L - 1)).map
    (fun label => if Prod.snd sb = i ∧ (fun x => x) label = l then C else 0)).sum) _ ?_)
    (sum2_indicator_le _ _ Prod.snd (fun x => x) i l C (zipIdx_snd_nodup beam)
      (range'_id_nodup _ _))
  intro sb hsb
  have hget := List.mem_zipIdx_iff_getElem?.mp hsb
  unfold cS
  apply sum_le_sum
  intro label _
  unfold cL
  simp only
  have h2 : ¬ ((some label != (sb.1.pre.getLast?).map (·.label)) = false ∧ i = sb.2 ∧ l = 0) :=
    fun h => hl h.2.2
  rw [if_neg h2, Nat.add_zero]
  cases hmt : mergeTarget beam sb.1.pre label with
  | some ti =>
    simp only
    rw [if_neg (fun h => hl h.2)]
    exact Nat.zero_le _
  | none =>
    simp only
    by_cases h : i = sb.2 ∧ l = label
    · obtain ⟨rfl, rfl⟩ := h
      rw [hs] at hget; cases hget
      simp only [and_self, if_true]
      have := hinv sb.1 (List.mem_of_getElem? hs)
      exact ext_value_bound d sb.1 l _ this.1 this.2
    · rw [if_neg h]; exact Nat.zero_le _

theorem sum2_add {β γ : Type} (l1 : List β) (l2 : List γ) (f g : β → γ → Nat) :
    (l1.map (fun x => (l2.map (fun y => f x y + g x y)).sum)).sum =
      (l1.map (fun x => (l2.map (f x)).sum)).sum + (l1.map (fun x => (l2.map (g x)).sum)).sum := by
  have : (fun x => (l2.map (fun y => f x y + g x y)).sum) =
      fun x => (l2.map (f x)).sum + (l2.map (g x)).sum := funext (fun x => sum_add _ _ _)
  rw [this, sum_add]

/-- Pointwise bound on what iteration `(bi, label)` adds to the "stay" cell `(i, 0)`:
a merge contribution (only from the state whose labels are the parent of `s`) plus a
repeat contribution (only from `s` itself). -/
theorem cL_stay_le (d : List (List Nat)) (beam : List (BState Nat)) (row : List Nat)
    (hinv : Inv d beam) (i : Nat) (s : BState Nat) (hs : beam[i]? = some s)
    (bi : Nat) (sb1 : BState Nat) (hsb : beam[bi]? = some sb1) (label : Nat) (hlabel : 1 ≤ label) :
    cL beam row bi sb1 label i 0 ≤
      (if labels s.pre = labels sb1.pre ++ [label] then
          row.getD label 0 * ((dpRev d (labels sb1.pre)).1 +
            (if (labels sb1.pre).getLast? = some label then 0 else (dpRev d (labels sb1.pre)).2))
        else 0) +
      (if bi = i ∧ (labels s.pre).getLast? = some label then
          row.getD label 0 * (dpRev d (labels s.pre)).2 else 0) := by
  unfold cL
  simp only
  apply Nat.add_le_add
  · cases hmt : mergeTarget beam sb1.pre label with
    | none =>
      simp only
      rw [if_neg (fun h => by omega)]
      exact Nat.zero_le _
    | some ti =>
      simp only
      by_cases h : i = ti
      · subst h
        obtain ⟨s2, hs2, hlab⟩ := mergeTarget_sound beam sb1.pre label i hmt
        rw [hs] at hs2; cases hs2
        rw [if_pos (by simp), if_pos hlab]
        have := hinv sb1 (List.mem_of_getElem? hsb)
        exact ext_value_bound d sb1 label _ this.1 this.2
      · rw [if_neg (fun hc => h hc.1)]
        exact Nat.zero_le _
  · split
    · rename_i h
      obtain ⟨h1, rfl, _⟩ := h
      rw [hs] at hsb; cases hsb
      rw [prev_eq] at h1
      have hl : (labels s.pre).getLast? = some label := by
        have := (bne_eq_false_iff_eq).mp h1
        exact this.symm
      rw [if_pos ⟨rfl, hl⟩, Nat.mul_comm]
      exact Nat.mul_le_mul_left _ (hinv s (List.mem_of_getElem? hs)).2
    · exact Nat.zero_le _

/-- (d) the "stay" cell `(i, 0)` of `next_prob_no_blank`. -/
theorem nnb_stay_bound (L : Nat) (d : List (List Nat)) (beam : List (BState Nat))
    (row : List Nat) (hinv : Inv d beam) (hdist : Distinct beam) (i : Nat) (s : BState Nat)
    (hs : beam[i]? = some s) :
    (extendAll natOps L beam row).nnb i 0 ≤ (dpRev (row :: d) (labels s.pre)).2 := by
  rw [extendAll_nnb]
  have pointwise : ∀ sb ∈ beam.zipIdx, ∀ label ∈ List.range' 1 (L - 1),
      cL beam row sb.2 sb.1 label i 0 ≤
      (if labels s.pre = labels sb.1.pre ++ [label] then
          row.getD label 0 * ((dpRev d (labels sb.1.pre)).1 +
            (if (labels sb.1.pre).getLast? = some label then 0 else (dpRev d (labels sb.1.pre)).2))
        else 0) +
      (if sb.2 = i ∧ (labels s.pre).getLast? = some label then
          row.getD label 0 * (dpRev d (labels s.pre)).2 else 0) := by
    intro sb hsb label hlabel
    have hget := List.mem_zipIdx_iff_getElem?.mp hsb
    have := List.mem_range'_1.mp hlabel
    exact cL_stay_le d beam row hinv i s hs sb.2 sb.1 hget label this.1
  rcases List.eq_nil_or_concat (labels s.pre) with hnil | ⟨S', m, hS⟩
  · -- empty prefix: nothing is ever added to `(i, 0)`
    rw [hnil, dpRev_cons_snd_nil]
    have : ∀ sb ∈ beam.zipIdx, cS L beam row sb i 0 ≤ (fun _ => 0) sb := by
      intro sb hsb
      unfold cS
      have h0 := sum_le_sum _ (fun _ => 0) _ (fun label hl => by
        have := pointwise sb hsb label hl
        rw [hnil] at this
        simpa using this)
      rw [sum_zero] at h0
      exact h0
    have h1 := sum_le_sum _ _ _ this
    rw [sum_zero] at h1
    exact h1
  · rw [List.concat_eq_append] at hS
    rw [hS, dpRev_cons_snd_snoc]
    let c2 := row.getD m 0 * ((dpRev d S').1 +
      (if S'.getLast? = some m then 0 else (dpRev d S').2))
    let c1 := row.getD m 0 * (dpRev d (S' ++ [m])).2
    have hsum : row.getD m 0 * ((dpRev d (S' ++ [m])).2 + (dpRev d S').1 +
        (if S'.getLast? = some m then 0 else (dpRev d S').2)) = c2 + c1 := by
      simp only [c1, c2, Nat.mul_add]; omega
    rw [hsum]
    have step : ∀ sb ∈ beam.zipIdx, cS L beam row sb i 0 ≤
        (fun sb => ((List.range' 1 (L - 1)).map (fun label =>
          (if (fun (sb : BState Nat × Nat) => labels sb.1.pre) sb = S' ∧ (fun x => x) label = m then c2 else 0) +
          (if Prod.snd sb = i ∧ (fun x => x) label = m then c1 else 0))).sum) sb := by
      intro sb hsb
      unfold cS
      apply sum_le_sum
      intro label hl
      refine Nat.le_trans (pointwise sb hsb label hl) ?_
      rw [hS]
      apply Nat.add_le_add
      · by_cases h : S' ++ [m] = labels sb.1.pre ++ [label]
        · have h2 := List.append_inj' h rfl
          have hm : m = label := by simpa using h2.2
          subst hm
          have e1 : labels sb.1.pre = S' := h2.1.symm
          have e : ((fun (sb : BState Nat × Nat) => labels sb.1.pre) sb = S' ∧ (fun x => x) m = m) :=
            ⟨e1, rfl⟩
          rw [if_pos h, if_pos e, e1]
          exact Nat.le_refl _
        · rw [if_neg h]; exact Nat.zero_le _
      · by_cases h : sb.2 = i ∧ (S' ++ [m]).getLast? = some label
        · have hm : m = label := by
            have := h.2; rw [List.getLast?_concat] at this; exact Option.some.inj this
          subst hm
          have e : (Prod.snd sb = i ∧ (fun x => x) m = m) := ⟨h.1, rfl⟩
          rw [if_pos h, if_pos e]
          exact Nat.le_refl _
        · rw [if_neg h]; exact Nat.zero_le _
    refine Nat.le_trans (sum_le_sum _ _ _ step) ?_
    rw [sum2_add]
    apply Nat.add_le_add
    · exact sum2_indicator_le _ _ (fun (sb : BState Nat × Nat) => labels sb.1.pre) (fun x => x)
        S' m c2 (zipIdx_labels_nodup beam hdist) (range'_id_nodup _ _)
    · exact sum2_indicator_le _ _ Prod.snd (fun x => x) i m c1 (zipIdx_snd_nodup beam)
        (range'_id_nodup _ _)

/-! ## One step, the loop -/

theorem selectTopk_mem {α} (ops : Ops α) (B L n : Nat) (t : Tabs α) (e : Ext α)
    (he : e ∈ selectTopk ops B (candidates ops L n t)) :
    (e.index = 0 ∧ e.label = 0) ∨ (e.index < n ∧ e.label < L) := by
  unfold selectTopk at he
  simp only at he
  split at he
  · simp only [List.mem_singleton] at he
    subst he; exact Or.inl ⟨rfl, rfl⟩
  · obtain ⟨_, q2⟩ := foldl_pushExt_spec ops B (candidates ops L n t) []
      (by simp) (by simp) (candidates_keys_nodup ops L n t)
    rcases q2 e he with h | ⟨h, _⟩
    · cases h
    · obtain ⟨h1, h2, _⟩ := mem_candidates ops L n t e h
      exact Or.inr ⟨h1, h2⟩

theorem beamStep_inv (B L : Nat) (d : List (List Nat)) (beam : List (BState Nat)) (pos : Nat)
    (row : List Nat) (hinv : Inv d beam) (hdist : Distinct beam) :
    Inv (row :: d) (beamStep natOps B L beam pos row) := by
  intro st hst
  unfold beamStep at hst
  simp only [List.mem_map] at hst
  obtain ⟨e, he, rfl⟩ := hst
  have hsel := selectTopk_mem natOps B L beam.length _ e he
  cases hget : beam[e.index]? with
  | some s =>
    have hlab := mkState_labels natOps beam pos (extendAll natOps L beam row) e s hget
    rw [hlab]
    by_cases hl : e.label = 0
    · rw [if_pos hl]
      simp only [mkState, hl]
      exact ⟨nb_bound L d beam row hinv e.index s hget,
        nnb_stay_bound L d beam row hinv hdist e.index s hget⟩
    · rw [if_neg hl]
      simp only [mkState]
      refine ⟨?_, nnb_ext_bound L d beam row hinv e.index e.label hl s hget⟩
      have := (extendAll_inv natOps L beam row).1 e.index e.label hl
      rw [this]
      exact Nat.zero_le _
  | none =>
    -- only the fallback extension of an empty beam
    have hb : beam = [] := by
      rcases hsel with ⟨h0, _⟩ | ⟨h1, _⟩
      · rw [h0] at hget
        cases beam with
        | nil => rfl
        | cons a l => simp at hget
      · have := List.getElem?_eq_none_iff.mp hget; omega
    subst hb
    have hl : e.label = 0 := by
      rcases hsel with ⟨_, h⟩ | ⟨h, _⟩
      · exact h
      · simp at h
    simp [mkState, hl, extendAll, natOps, emptyState, labels]

theorem beamLoop_inv (B L : Nat) (rows : List (List Nat)) :
    ∀ (beam : List (BState Nat)) (pos : Nat) (d : List (List Nat)),
      Inv d beam → Distinct beam → Inv (rows.reverse ++ d) (beamLoop natOps B L beam pos rows) := by
  induction rows with
  | nil => intro beam pos d h _; simpa [beamLoop] using h
  | cons row rows ih =>
    intro beam pos d h hd
    have := ih (beamStep natOps B L beam pos row) (pos + 1) (row :: d)
      (beamStep_inv B L d beam pos row h hd) (beamStep_distinct natOps rfl B L beam pos row hd)
    simpa [beamLoop, List.reverse_cons, List.append_assoc] using this

/-! ## Labels in prefixes are never the blank -/

def NZ {α} (beam : List (BState α)) : Prop := ∀ st ∈ beam, ∀ m ∈ labels st.pre, m ≠ 0

theorem beamStep_nz {α} (ops : Ops α) (B L : Nat) (beam : List (BState α)) (pos : Nat)
    (row : List α) (h : NZ beam) : NZ (beamStep ops B L beam pos row) := by
  intro st hst m hm
  unfold beamStep at hst
  simp only [List.mem_map] at hst
  obtain ⟨e, _, rfl⟩ := hst
  have hold : ∀ m ∈ labels (beam.getD e.index (emptyState ops)).pre, m ≠ 0 := by
    intro m hm
    rw [List.getD_eq_getElem?_getD] at hm
    cases hget : beam[e.index]? with
    | some s => rw [hget] at hm; exact h s (List.mem_of_getElem? hget) m hm
    | none => rw [hget] at hm; simp [emptyState, labels] at hm
  unfold mkState at hm
  simp only at hm
  split at hm
  · exact hold m hm
  · rename_i hl
    simp only [labels, List.map_append, List.map_cons, List.map_nil, List.mem_append,
      List.mem_singleton] at hm
    rcases hm with hm | hm
    · exact hold m hm
    · rw [hm]; exact hl

theorem beamLoop_nz {α} (ops : Ops α) (B L : Nat) (rows : List (List α)) :
    ∀ (beam : List (BState α)) (pos : Nat), NZ beam → NZ (beamLoop ops B L beam pos rows) := by
  induction rows with
  | nil => intro beam pos h; exact h
  | cons row rows ih => intro beam pos h; exact ih _ _ (beamStep_nz ops B L beam pos row h)

end RtenVerif.Ctc
