import RtenVerif.Lemmas.ControlFlowEnv

/-!
# Store lemmas for the refinement `runPlan = evalG` (C24.T1): effects of by-value extraction and
of the post-step release on `temp_values`, argument partition, output collection.
-/
namespace RtenVerif.ControlFlow

variable {P V : Type}

theorem look_cons (m : Nat) (v : V) (σ : Env V) (n : Nat) :
    look ((m, v) :: σ) n = if m = n then some v else look σ n := rfl

theorem key_of_look : ∀ (σ : Env V) (n : Nat), look σ n ≠ none → n ∈ σ.map (·.1)
  | [], _, h => by simp [look] at h
  | (m, v) :: rest, n, h => by
    by_cases hm : m = n
    · simp [hm]
    · simp only [look_cons, hm, if_false] at h
      simp [key_of_look rest n h]

theorem look_none_of_not_key (σ : Env V) (n : Nat) (h : n ∉ σ.map (·.1)) : look σ n = none := by
  cases hl : look σ n with
  | none => rfl
  | some v => exact absurd (key_of_look σ n (by simp [hl])) h

theorem look_zip_key : ∀ (outs : List Nat) (r : List V) (n : Nat), look (outs.zip r) n ≠ none → n ∈ outs
  | [], _, _, h => by simp [look] at h
  | _ :: _, [], _, h => by simp [look] at h
  | o :: os, v :: vs, n, h => by
    by_cases ho : o = n
    · simp [ho]
    · simp only [List.zip_cons_cons, look_cons, ho, if_false] at h
      simp [look_zip_key os vs n h]

theorem look_append_left (a b : Env V) (n : Nat) (v : V) (h : look a n = some v) :
    look (a ++ b) n = some v := by rw [look_append, h]

theorem look_append_right (a b : Env V) (n : Nat) (h : look a n = none) :
    look (a ++ b) n = look b n := by rw [look_append, h]

/-! ## `take_value`, by-value extraction -/

theorem takeValue_temp_effect (gc : List Nat) (st : St V) (n m : Nat) :
    look (takeValue gc st n).2.temp m = look st.temp m ∨
    (m = n ∧ look (takeValue gc st n).2.temp m = none ∧ st.rc n = 1) := by
  unfold takeValue
  split
  · rename_i hrc
    have hrc' : st.rc n = 1 := by simpa using hrc
    split
    · by_cases hm : m = n
      · right; subst hm; exact ⟨rfl, look_erase_self _ _, hrc'⟩
      · left; exact look_erase_ne _ _ _ hm
    · split <;> (left; rfl)
  · left; rfl

theorem takeValue_env_of_not_caps (gc : List Nat) (st : St V) (n : Nat) (h : gc.contains n = false) :
    (takeValue gc st n).2.env = st.env := by
  have h' : n ∉ gc := by simpa using h
  unfold takeValue
  split
  · split
    · rfl
    · simp [h']
  · rfl

/-- The continuation state of `extractByVal` is always the state `take_value` returns. -/
theorem extractByVal_cons (gc ins : List Nat) (st : St V) (n : Nat) (ns : List Nat)
    (h : ins.contains n = false) :
    (extractByVal gc ins st (n :: ns)).1 = (extractByVal gc ins (takeValue gc st n).2 ns).1 := by
  conv => lhs; unfold extractByVal
  rw [if_neg (by rw [h]; simp)]
  split <;> (rename_i htv; simp [htv])

theorem extractByVal_temp_effect (gc ins : List Nat) : ∀ (ds : List Nat) (st : St V) (m : Nat),
    look (extractByVal gc ins st ds).1.temp m = look st.temp m ∨
    (look (extractByVal gc ins st ds).1.temp m = none ∧ st.rc m = 1 ∧ m ∈ ds ∧ ins.contains m = false)
  | [], _, _ => Or.inl rfl
  | n :: ns, st, m => by
    by_cases hin : ins.contains n = true
    · have : (extractByVal gc ins st (n :: ns)) = extractByVal gc ins st ns := by
        conv => lhs; unfold extractByVal
        rw [if_pos hin]
      rw [this]
      rcases extractByVal_temp_effect gc ins ns st m with h | ⟨h1, h2, h3, h4⟩
      · exact Or.inl h
      · exact Or.inr ⟨h1, h2, List.mem_cons_of_mem _ h3, h4⟩
    · have hin' : ins.contains n = false := by simpa using hin
      rw [extractByVal_cons gc ins st n ns hin']
      have hrc : (takeValue gc st n).2.rc = st.rc := takeValue_rc gc st n
      rcases extractByVal_temp_effect gc ins ns (takeValue gc st n).2 m with h | ⟨h1, h2, h3, h4⟩
      · rcases takeValue_temp_effect gc st n m with h' | ⟨hm, h', hr⟩
        · left; rw [h, h']
        · right; subst hm; exact ⟨by rw [h, h'], hr, List.mem_cons_self, hin'⟩
      · right; exact ⟨h1, by rw [← hrc]; exact h2, List.mem_cons_of_mem _ h3, h4⟩

theorem extractByVal_env (gc ins : List Nat) : ∀ (ds : List Nat) (st : St V),
    (∀ n ∈ ds, ins.contains n = false → gc.contains n = false) →
    (extractByVal gc ins st ds).1.env = st.env
  | [], _, _ => rfl
  | n :: ns, st, h => by
    by_cases hin : ins.contains n = true
    · have : (extractByVal gc ins st (n :: ns)) = extractByVal gc ins st ns := by
        conv => lhs; unfold extractByVal
        rw [if_pos hin]
      rw [this]
      exact extractByVal_env gc ins ns st (fun x hx => h x (List.mem_cons_of_mem _ hx))
    · have hin' : ins.contains n = false := by simpa using hin
      rw [extractByVal_cons gc ins st n ns hin',
        extractByVal_env gc ins ns _ (fun x hx => h x (List.mem_cons_of_mem _ hx)),
        takeValue_env_of_not_caps gc st n (h n List.mem_cons_self hin')]

/-! ## post-step release -/

theorem decDeps_env : ∀ (ds : List Nat) (st : St V), (decDeps st ds).env = st.env
  | [], _ => rfl
  | n :: ns, st => by
    unfold decDeps
    split
    · exact decDeps_env ns st
    · simp only []
      rw [decDeps_env ns]

/-- One decrement (`rc ≠ 0`): release at zero. -/
def dec1 (st : St V) (n : Nat) : St V :=
  { st with rc := fun m => if m = n then st.rc n - 1 else st.rc m,
            temp := if st.rc n - 1 == 0 then erase st.temp n else st.temp }

theorem decDeps_cons (st : St V) (n : Nat) (ns : List Nat) :
    decDeps st (n :: ns) = if st.rc n == 0 then decDeps st ns else decDeps (dec1 st n) ns := by
  rw [decDeps]; rfl

theorem decDeps_temp_effect : ∀ (ds : List Nat) (st : St V) (m : Nat),
    look (decDeps st ds).temp m = look st.temp m ∨
    (look (decDeps st ds).temp m = none ∧ (decDeps st ds).rc m = 0)
  | [], _, _ => Or.inl rfl
  | n :: ns, st, m => by
    rw [decDeps_cons]
    split
    · exact decDeps_temp_effect ns st m
    · rcases decDeps_temp_effect ns (dec1 st n) m with h | h
      · by_cases hz : (st.rc n - 1 == 0) = true
        · by_cases hm : m = n
          · right
            subst hm
            have ht : look (dec1 st m).temp m = none := by
              simp only [dec1, hz, if_true]; exact look_erase_self _ _
            refine ⟨by rw [h, ht], ?_⟩
            rw [decDeps_rc]
            have : (dec1 st m).rc m = 0 := by
              simp only [dec1, if_true]; simpa using hz
            omega
          · left
            rw [h]
            simp only [dec1, hz, if_true]
            exact look_erase_ne _ _ _ hm
        · left
          rw [h]
          simp [dec1, hz]
      · right; exact h

/-! ## arguments: owned values go to `temp_values`, views stay in `inputs` -/

theorem look_ownedArgs_key (ins : List Nat) (args : List (Bool × V)) (n : Nat)
    (h : look (ownedArgs ins args) n ≠ none) : n ∈ ins := by
  have := key_of_look _ _ h
  simp only [ownedArgs, List.map_filterMap, List.mem_filterMap] at this
  obtain ⟨p, hp, hq⟩ := this
  have hp1 : p.1 ∈ ins := (List.of_mem_zip hp).1
  split at hq <;> simp at hq
  rw [← hq]; exact hp1

theorem look_borrowedArgs_key (ins : List Nat) (args : List (Bool × V)) (n : Nat)
    (h : look (borrowedArgs ins args) n ≠ none) : n ∈ ins := by
  have := key_of_look _ _ h
  simp only [borrowedArgs, List.map_filterMap, List.mem_filterMap] at this
  obtain ⟨p, hp, hq⟩ := this
  have hp1 : p.1 ∈ ins := (List.of_mem_zip hp).1
  split at hq <;> simp at hq
  rw [← hq]; exact hp1

/-- With distinct input names, the naive binding of the inputs is the borrowed map overlaid on the
owned map. -/
theorem look_args_partition : ∀ (ins : List Nat) (args : List (Bool × V)) (n : Nat), ins.Nodup →
    look (ins.zip (args.map (·.2))) n =
      match look (borrowedArgs ins args) n with
      | some v => some v
      | none => look (ownedArgs ins args) n
  | [], _, _, _ => by simp [borrowedArgs, ownedArgs, look]
  | _ :: _, [], _, _ => by simp [borrowedArgs, ownedArgs, look]
  | i :: is, (fl, v) :: as, n, hnd => by
    have hnd' : is.Nodup := (List.nodup_cons.mp hnd).2
    have hni : i ∉ is := (List.nodup_cons.mp hnd).1
    have ih := look_args_partition is as n hnd'
    by_cases hi : i = n
    · subst hi
      have hb : look (borrowedArgs is as) i = none := by
        cases hl : look (borrowedArgs is as) i with
        | none => rfl
        | some w => exact absurd (look_borrowedArgs_key is as i (by simp [hl])) hni
      cases fl <;> simp [borrowedArgs, ownedArgs, look] at hb ⊢ <;> simp [hb]
    · cases fl <;> simp [borrowedArgs, ownedArgs, look, hi] at ih ⊢ <;> exact ih

/-! ## output collection -/

theorem collectOutputs_eq (views : Env V) (env : List (Frame V)) (σ : Env V) :
    ∀ (outs : List Nat) (temp : Env V), outs.Nodup →
      (∀ n ∈ outs, (match look views n with
          | some v => some v
          | none => match getInput env n with
            | some v => some v
            | none => look temp n) = look σ n) →
      collectOutputs views env temp outs = lookups (look σ) outs
  | [], _, _, _ => rfl
  | n :: ns, temp, hnd, h => by
    have hn := h n List.mem_cons_self
    have hnd' : ns.Nodup := (List.nodup_cons.mp hnd).2
    have hnn : n ∉ ns := (List.nodup_cons.mp hnd).1
    have htail : ∀ t, (∀ m ∈ ns, look t m = look temp m) →
        collectOutputs views env t ns = lookups (look σ) ns := by
      intro t ht
      apply collectOutputs_eq views env σ ns t hnd'
      intro m hm
      rw [ht m hm]
      exact h m (List.mem_cons_of_mem _ hm)
    unfold collectOutputs lookups
    cases hv : look views n with
    | some v =>
      rw [hv] at hn
      simp only [← hn, htail temp (fun _ _ => rfl)]
    | none =>
      rw [hv] at hn
      cases hg : getInput env n with
      | some v =>
        rw [hg] at hn
        simp only [← hn, htail temp (fun _ _ => rfl)]
      | none =>
        rw [hg] at hn
        simp only [] at hn
        cases ht : look temp n with
        | none =>
          rw [ht] at hn
          simp only [← hn]
        | some v =>
          rw [ht] at hn
          have := htail (erase temp n) (fun m hm =>
            look_erase_ne temp n m (fun hmn => hnn (hmn ▸ hm)))
          simp only [← hn, this]

end RtenVerif.ControlFlow
