import RtenVerif.Model.QuantGemm

/-!
Helper lemmas for C17 (core Lean only; ring identities are discharged by `grind`).
-/
namespace RtenVerif.QuantGemm

/-! ### The zero-point identity -/

/-- `Σ (a−za)(b−zb) = Σ ab − za·Σb − zb·Σa + K·za·zb` for vectors of any (equal) length. -/
theorem dotZ_eq_factored (za zb : Int) : ∀ (a b : List Int), a.length = b.length →
    dotZ za zb a b = dot a b - za * sum b - zb * sum a + (a.length : Int) * za * zb
  | [], [], _ => by simp [dotZ, dot, sum]
  | x :: xs, y :: ys, h => by
    have ih := dotZ_eq_factored za zb xs ys (by simpa using h)
    simp only [dotZ, dot, sum, List.length_cons, ih]
    grind
  | [], _ :: _, h => by simp at h
  | _ :: _, [], h => by simp at h

/-! ### 4-wide tiles with zero padding compute the plain dot product -/

theorem dot4_false (a0 a1 a2 a3 b0 b1 b2 b3 : Int) :
    dot4 false a0 a1 a2 a3 b0 b1 b2 b3 = a0 * b0 + a1 * b1 + a2 * b2 + a3 * b3 := by
  simp [dot4, pairSum]
  grind

theorem dotTiles_false_eq_dot : ∀ (n : Nat) (a b : List Int), a.length = n → b.length = n →
    dotTiles false a b = dot a b
  | 0, [], [], _, _ => by simp [dotTiles, dot]
  | 1, [a0], [b0], _, _ => by simp [dotTiles, dot, dot4_false]
  | 2, [a0, a1], [b0, b1], _, _ => by simp [dotTiles, dot, dot4_false]
  | 3, [a0, a1, a2], [b0, b1, b2], _, _ => by simp [dotTiles, dot, dot4_false]; grind
  | n + 4, a0 :: a1 :: a2 :: a3 :: as, b0 :: b1 :: b2 :: b3 :: bs, ha, hb => by
    have ih := dotTiles_false_eq_dot n as bs (by simpa using ha) (by simpa using hb)
    simp only [dotTiles, dot, dot4_false, ih]
    grind
  | 0, _ :: _, _, h, _ => by simp at h
  | 0, [], _ :: _, _, h => by simp at h
  | 1, [], _, h, _ => by simp at h
  | 1, _ :: _ :: _, _, h, _ => by simp at h
  | 1, [_], [], _, h => by simp at h
  | 1, [_], _ :: _ :: _, _, h => by simp at h
  | 2, [], _, h, _ => by simp at h
  | 2, [_], _, h, _ => by simp at h
  | 2, _ :: _ :: _ :: _, _, h, _ => by simp at h
  | 2, [_, _], [], _, h => by simp at h
  | 2, [_, _], [_], _, h => by simp at h
  | 2, [_, _], _ :: _ :: _ :: _, _, h => by simp at h
  | 3, [], _, h, _ => by simp at h
  | 3, [_], _, h, _ => by simp at h
  | 3, [_, _], _, h, _ => by simp at h
  | 3, _ :: _ :: _ :: _ :: _, _, h, _ => by simp at h
  | 3, [_, _, _], [], _, h => by simp at h
  | 3, [_, _, _], [_], _, h => by simp at h
  | 3, [_, _, _], [_, _], _, h => by simp at h
  | 3, [_, _, _], _ :: _ :: _ :: _ :: _, _, h => by simp at h
  | n + 4, [], _, h, _ => by simp at h
  | n + 4, [_], _, h, _ => by simp at h
  | n + 4, [_, _], _, h, _ => by simp at h
  | n + 4, [_, _, _], _, h, _ => by simp at h
  | n + 4, _ :: _ :: _ :: _ :: _, [], _, h => by simp at h
  | n + 4, _ :: _ :: _ :: _ :: _, [_], _, h => by simp at h
  | n + 4, _ :: _ :: _ :: _ :: _, [_, _], _, h => by simp at h
  | n + 4, _ :: _ :: _ :: _ :: _, [_, _, _], _, h => by simp at h

/-- One depth block: packed tiles + epilogue corrections = the definition. -/
theorem entryBlock_false_eq_dotZ (za zb : Int) (a b : List Int) (h : a.length = b.length) :
    entryBlock false za zb a b = dotZ za zb a b := by
  unfold entryBlock
  rw [dotTiles_false_eq_dot a.length a b rfl h.symm, dotZ_eq_factored za zb a b h]
  grind

/-! ### Depth blocking -/

theorem dotZ_append (za zb : Int) : ∀ (a1 b1 a2 b2 : List Int), a1.length = b1.length →
    dotZ za zb (a1 ++ a2) (b1 ++ b2) = dotZ za zb a1 b1 + dotZ za zb a2 b2
  | [], [], _, _, _ => by simp [dotZ]
  | x :: xs, y :: ys, a2, b2, h => by
    have ih := dotZ_append za zb xs ys a2 b2 (by simpa using h)
    simp only [List.cons_append, dotZ, ih]
    grind
  | [], _ :: _, _, _, h => by simp at h
  | _ :: _, [], _, _, h => by simp at h

theorem dotZ_nil_left (za zb : Int) (b : List Int) : dotZ za zb [] b = 0 := by
  cases b <;> rfl

theorem entryBlocks_false_eq_dotZ (kc : Nat) (hkc : 0 < kc) (za zb : Int) :
    ∀ (fuel : Nat) (a b : List Int), a.length = b.length → a.length ≤ fuel →
      entryBlocks false kc za zb fuel a b = dotZ za zb a b
  | 0, a, b, _, hf => by
    have : a = [] := List.length_eq_zero_iff.mp (by omega)
    subst this
    simp [entryBlocks, dotZ_nil_left]
  | fuel + 1, a, b, h, hf => by
    unfold entryBlocks
    by_cases he : a.isEmpty = true
    · have : a = [] := by simpa using he
      subst this
      simp [dotZ_nil_left]
    · simp only [he]
      have hne : a ≠ [] := by simpa using he
      have hpos : 0 < a.length := List.length_pos_iff.mpr hne
      have ht : (a.take kc).length = (b.take kc).length := by
        simp [List.length_take, h]
      have hd : (a.drop kc).length = (b.drop kc).length := by
        simp [List.length_drop, h]
      have hdf : (a.drop kc).length ≤ fuel := by
        simp [List.length_drop]; omega
      rw [entryBlock_false_eq_dotZ za zb _ _ ht,
        entryBlocks_false_eq_dotZ kc hkc za zb fuel _ _ hd hdf]
      have := dotZ_append za zb (a.take kc) (b.take kc) (a.drop kc) (b.drop kc) ht
      rw [List.take_append_drop, List.take_append_drop] at this
      exact this.symm

/-! ### Saturation of `vpmaddubsw` -/

theorem sat16_id (x : Int) (h1 : -32768 ≤ x) (h2 : x ≤ 32767) : sat16 x = x := by
  unfold sat16
  split
  · omega
  · split
    · omega
    · rfl

/-- Product bounds for `0 ≤ a ≤ A`, `lo ≤ b ≤ hi` with `lo ≤ 0 ≤ hi`. -/
theorem mul_bounds (a b A lo hi : Int) (ha0 : 0 ≤ a) (haA : a ≤ A) (hlo : lo ≤ b) (hhi : b ≤ hi)
    (hlo0 : lo ≤ 0) (hhi0 : 0 ≤ hi) : A * lo ≤ a * b ∧ a * b ≤ A * hi := by
  constructor
  · calc A * lo ≤ a * lo := Int.mul_le_mul_of_nonpos_right haA hlo0
      _ ≤ a * b := Int.mul_le_mul_of_nonneg_left hlo ha0
  · calc a * b ≤ a * hi := Int.mul_le_mul_of_nonneg_left hhi ha0
      _ ≤ A * hi := Int.mul_le_mul_of_nonneg_right haA hhi0

/-- A pair of products does not saturate when `A·lo·2 ≥ −32768` and `A·hi·2 ≤ 32767`. -/
theorem pairSum_sat_eq (A lo hi : Int) (hlo0 : lo ≤ 0) (hhi0 : 0 ≤ hi)
    (hL : -32768 ≤ A * lo + A * lo) (hH : A * hi + A * hi ≤ 32767)
    (a0 b0 a1 b1 : Int)
    (h0 : 0 ≤ a0 ∧ a0 ≤ A) (h1 : 0 ≤ a1 ∧ a1 ≤ A)
    (g0 : lo ≤ b0 ∧ b0 ≤ hi) (g1 : lo ≤ b1 ∧ b1 ≤ hi) :
    pairSum true a0 b0 a1 b1 = pairSum false a0 b0 a1 b1 := by
  have p0 := mul_bounds a0 b0 A lo hi h0.1 h0.2 g0.1 g0.2 hlo0 hhi0
  have p1 := mul_bounds a1 b1 A lo hi h1.1 h1.2 g1.1 g1.2 hlo0 hhi0
  simp only [pairSum, if_true, Bool.false_eq_true, if_false]
  exact sat16_id _ (by omega) (by omega)

/-- All elements of `l` lie in `[lo, hi]`. -/
def AllIn (lo hi : Int) (l : List Int) : Prop := ∀ x ∈ l, lo ≤ x ∧ x ≤ hi

theorem AllIn.cons {lo hi : Int} {x : Int} {l : List Int} (h : AllIn lo hi (x :: l)) :
    (lo ≤ x ∧ x ≤ hi) ∧ AllIn lo hi l :=
  ⟨h x (by simp), fun y hy => h y (by simp [hy])⟩

theorem AllIn.take {lo hi : Int} {l : List Int} (h : AllIn lo hi l) (n : Nat) :
    AllIn lo hi (l.take n) := fun x hx => h x (List.mem_of_mem_take hx)

theorem AllIn.drop {lo hi : Int} {l : List Int} (h : AllIn lo hi l) (n : Nat) :
    AllIn lo hi (l.drop n) := fun x hx => h x (List.mem_of_mem_drop hx)

theorem dot4_sat_eq (A lo hi : Int) (hA : 0 ≤ A) (hlo0 : lo ≤ 0) (hhi0 : 0 ≤ hi)
    (hL : -32768 ≤ A * lo + A * lo) (hH : A * hi + A * hi ≤ 32767)
    (a0 a1 a2 a3 b0 b1 b2 b3 : Int)
    (h0 : 0 ≤ a0 ∧ a0 ≤ A) (h1 : 0 ≤ a1 ∧ a1 ≤ A) (h2 : 0 ≤ a2 ∧ a2 ≤ A) (h3 : 0 ≤ a3 ∧ a3 ≤ A)
    (g0 : lo ≤ b0 ∧ b0 ≤ hi) (g1 : lo ≤ b1 ∧ b1 ≤ hi) (g2 : lo ≤ b2 ∧ b2 ≤ hi)
    (g3 : lo ≤ b3 ∧ b3 ≤ hi) :
    dot4 true a0 a1 a2 a3 b0 b1 b2 b3 = dot4 false a0 a1 a2 a3 b0 b1 b2 b3 := by
  have _ := hA
  unfold dot4
  rw [pairSum_sat_eq A lo hi hlo0 hhi0 hL hH a0 b0 a1 b1 h0 h1 g0 g1,
    pairSum_sat_eq A lo hi hlo0 hhi0 hL hH a2 b2 a3 b3 h2 h3 g2 g3]

/-- With `a ∈ [0,A]`, `b ∈ [lo,hi]` and `2·A·lo ≥ −32768`, `2·A·hi ≤ 32767`, the saturating tile
accumulation equals the exact one (padding zeros are inside both ranges). -/
theorem dotTiles_sat_eq (A lo hi : Int) (hA : 0 ≤ A) (hlo0 : lo ≤ 0) (hhi0 : 0 ≤ hi)
    (hL : -32768 ≤ A * lo + A * lo) (hH : A * hi + A * hi ≤ 32767) :
    ∀ (a b : List Int), AllIn 0 A a → AllIn lo hi b → dotTiles true a b = dotTiles false a b := by
  intro a b
  have z : (0 : Int) ≤ 0 ∧ (0 : Int) ≤ A := ⟨Int.le_refl 0, hA⟩
  have zb : lo ≤ 0 ∧ (0 : Int) ≤ hi := ⟨hlo0, hhi0⟩
  fun_induction dotTiles true a b with
  | case1 a0 a1 a2 a3 as b0 b1 b2 b3 bs ih =>
    intro ha hb
    obtain ⟨h0, ha⟩ := ha.cons; obtain ⟨h1, ha⟩ := ha.cons
    obtain ⟨h2, ha⟩ := ha.cons; obtain ⟨h3, ha⟩ := ha.cons
    obtain ⟨g0, hb⟩ := hb.cons; obtain ⟨g1, hb⟩ := hb.cons
    obtain ⟨g2, hb⟩ := hb.cons; obtain ⟨g3, hb⟩ := hb.cons
    simp only [dotTiles]
    rw [ih ha hb, dot4_sat_eq A lo hi hA hlo0 hhi0 hL hH _ _ _ _ _ _ _ _ h0 h1 h2 h3 g0 g1 g2 g3]
  | case2 a0 a1 a2 b0 b1 b2 =>
    intro ha hb
    obtain ⟨h0, ha⟩ := ha.cons; obtain ⟨h1, ha⟩ := ha.cons; obtain ⟨h2, ha⟩ := ha.cons
    obtain ⟨g0, hb⟩ := hb.cons; obtain ⟨g1, hb⟩ := hb.cons; obtain ⟨g2, hb⟩ := hb.cons
    simp only [dotTiles]
    exact dot4_sat_eq A lo hi hA hlo0 hhi0 hL hH _ _ _ _ _ _ _ _ h0 h1 h2 z g0 g1 g2 zb
  | case3 a0 a1 b0 b1 =>
    intro ha hb
    obtain ⟨h0, ha⟩ := ha.cons; obtain ⟨h1, ha⟩ := ha.cons
    obtain ⟨g0, hb⟩ := hb.cons; obtain ⟨g1, hb⟩ := hb.cons
    simp only [dotTiles]
    exact dot4_sat_eq A lo hi hA hlo0 hhi0 hL hH _ _ _ _ _ _ _ _ h0 h1 z z g0 g1 zb zb
  | case4 a0 b0 =>
    intro ha hb
    obtain ⟨h0, ha⟩ := ha.cons
    obtain ⟨g0, hb⟩ := hb.cons
    simp only [dotTiles]
    exact dot4_sat_eq A lo hi hA hlo0 hhi0 hL hH _ _ _ _ _ _ _ _ h0 z z z g0 zb zb zb
  | case5 a b h1 h2 h3 h4 =>
    intro _ _
    rw [dotTiles.eq_5 false a b h1 h2 h3 h4]

theorem entryBlocks_sat_eq (A lo hi : Int) (hA : 0 ≤ A) (hlo0 : lo ≤ 0) (hhi0 : 0 ≤ hi)
    (hL : -32768 ≤ A * lo + A * lo) (hH : A * hi + A * hi ≤ 32767) (kc : Nat) (za zb : Int) :
    ∀ (fuel : Nat) (a b : List Int), AllIn 0 A a → AllIn lo hi b →
      entryBlocks true kc za zb fuel a b = entryBlocks false kc za zb fuel a b
  | 0, _, _, _, _ => rfl
  | fuel + 1, a, b, ha, hb => by
    unfold entryBlocks
    split
    · rfl
    · rw [entryBlocks_sat_eq A lo hi hA hlo0 hhi0 hL hH kc za zb fuel _ _ (ha.drop kc) (hb.drop kc)]
      unfold entryBlock
      rw [dotTiles_sat_eq A lo hi hA hlo0 hhi0 hL hH _ _ (ha.take kc) (hb.take kc)]

/-! ### gemv path -/

theorem dot_append : ∀ (a1 b1 a2 b2 : List Int), a1.length = b1.length →
    dot (a1 ++ a2) (b1 ++ b2) = dot a1 b1 + dot a2 b2
  | [], [], _, _, _ => by simp [dot]
  | x :: xs, y :: ys, a2, b2, h => by
    have ih := dot_append xs ys a2 b2 (by simpa using h)
    simp only [List.cons_append, dot, ih]
    grind
  | [], _ :: _, _, _, h => by simp at h
  | _ :: _, [], _, _, h => by simp at h

theorem gemvDot_false_eq_dot (tile : Nat) (a b : List Int) (h : a.length = b.length) :
    gemvDot false tile a b = dot a b := by
  unfold gemvDot
  have ht : (a.take (a.length / tile * tile)).length = (b.take (a.length / tile * tile)).length := by
    simp [List.length_take, h]
  rw [dotTiles_false_eq_dot _ _ _ rfl ht.symm]
  have := dot_append (a.take (a.length / tile * tile)) (b.take (a.length / tile * tile))
    (a.drop (a.length / tile * tile)) (b.drop (a.length / tile * tile)) ht
  rw [List.take_append_drop, List.take_append_drop] at this
  exact this.symm

theorem entryGemvBlock_false_eq_dotZ (tile : Nat) (za zb : Int) (a b : List Int)
    (h : a.length = b.length) : entryGemvBlock false tile za zb a b = dotZ za zb a b := by
  unfold entryGemvBlock
  rw [gemvDot_false_eq_dot tile a b h, dotZ_eq_factored za zb a b h]
  grind

theorem entryGemvBlocks_false_eq_dotZ (tile kc : Nat) (hkc : 0 < kc) (za zb : Int) :
    ∀ (fuel : Nat) (a b : List Int), a.length = b.length → a.length ≤ fuel →
      entryGemvBlocks false tile kc za zb fuel a b = dotZ za zb a b
  | 0, a, b, _, hf => by
    have : a = [] := List.length_eq_zero_iff.mp (by omega)
    subst this
    simp [entryGemvBlocks, dotZ_nil_left]
  | fuel + 1, a, b, h, hf => by
    unfold entryGemvBlocks
    by_cases he : a.isEmpty = true
    · have : a = [] := by simpa using he
      subst this
      simp [dotZ_nil_left]
    · simp only [he]
      have hne : a ≠ [] := by simpa using he
      have hpos : 0 < a.length := List.length_pos_iff.mpr hne
      have ht : (a.take kc).length = (b.take kc).length := by simp [List.length_take, h]
      have hd : (a.drop kc).length = (b.drop kc).length := by simp [List.length_drop, h]
      have hdf : (a.drop kc).length ≤ fuel := by simp [List.length_drop]; omega
      rw [entryGemvBlock_false_eq_dotZ tile za zb _ _ ht,
        entryGemvBlocks_false_eq_dotZ tile kc hkc za zb fuel _ _ hd hdf]
      have := dotZ_append za zb (a.take kc) (b.take kc) (a.drop kc) (b.drop kc) ht
      rw [List.take_append_drop, List.take_append_drop] at this
      exact this.symm

theorem gemvDot_sat_eq (A lo hi : Int) (hA : 0 ≤ A) (hlo0 : lo ≤ 0) (hhi0 : 0 ≤ hi)
    (hL : -32768 ≤ A * lo + A * lo) (hH : A * hi + A * hi ≤ 32767) (tile : Nat) (a b : List Int)
    (ha : AllIn 0 A a) (hb : AllIn lo hi b) : gemvDot true tile a b = gemvDot false tile a b := by
  unfold gemvDot
  rw [dotTiles_sat_eq A lo hi hA hlo0 hhi0 hL hH _ _ (ha.take _) (hb.take _)]

theorem entryGemvBlocks_sat_eq (A lo hi : Int) (hA : 0 ≤ A) (hlo0 : lo ≤ 0) (hhi0 : 0 ≤ hi)
    (hL : -32768 ≤ A * lo + A * lo) (hH : A * hi + A * hi ≤ 32767) (tile kc : Nat) (za zb : Int) :
    ∀ (fuel : Nat) (a b : List Int), AllIn 0 A a → AllIn lo hi b →
      entryGemvBlocks true tile kc za zb fuel a b = entryGemvBlocks false tile kc za zb fuel a b
  | 0, _, _, _, _ => rfl
  | fuel + 1, a, b, ha, hb => by
    unfold entryGemvBlocks
    split
    · rfl
    · rw [entryGemvBlocks_sat_eq A lo hi hA hlo0 hhi0 hL hH tile kc za zb fuel _ _ (ha.drop kc)
        (hb.drop kc)]
      unfold entryGemvBlock
      rw [gemvDot_sat_eq A lo hi hA hlo0 hhi0 hL hH tile _ _ (ha.take kc) (hb.take kc)]

/-! ### Magnitude bound and 32-bit wrapping -/

theorem dotZ_bound (za zb : Int) (hza : 0 ≤ za ∧ za ≤ 255) (hzb : -128 ≤ zb ∧ zb ≤ 127) :
    ∀ (a b : List Int), AllIn 0 255 a → AllIn (-128) 127 b →
      -(65025 * (a.length : Int)) ≤ dotZ za zb a b ∧ dotZ za zb a b ≤ 65025 * (a.length : Int)
  | [], b, _, _ => by simp [dotZ_nil_left]
  | _ :: _, [], _, _ => by simp [dotZ]; omega
  | x :: xs, y :: ys, ha, hb => by
    obtain ⟨hx, ha⟩ := ha.cons
    obtain ⟨hy, hb⟩ := hb.cons
    have ih := dotZ_bound za zb hza hzb xs ys ha hb
    simp only [dotZ, List.length_cons]
    -- |x − za| ≤ 255 and |y − zb| ≤ 255
    have hp : -65025 ≤ (x - za) * (y - zb) ∧ (x - za) * (y - zb) ≤ 65025 := by
      by_cases hs : 0 ≤ x - za
      · have := mul_bounds (x - za) (y - zb) 255 (-255) 255 hs (by omega) (by omega) (by omega)
          (by omega) (by omega)
        omega
      · have := mul_bounds (za - x) (y - zb) 255 (-255) 255 (by omega) (by omega) (by omega)
          (by omega) (by omega) (by omega)
        have e : (x - za) * (y - zb) = -((za - x) * (y - zb)) := by grind
        omega
    have : ((xs.length + 1 : Nat) : Int) = (xs.length : Int) + 1 := by omega
    omega

theorem wrap32_id (x : Int) (h1 : -2147483648 ≤ x) (h2 : x ≤ 2147483647) : wrap32 x = x := by
  unfold wrap32; omega

theorem wrap32_emod (x : Int) : wrap32 x % 4294967296 = x % 4294967296 := by
  unfold wrap32; omega

theorem wrap32_congr (x y : Int) (h : x % 4294967296 = y % 4294967296) : wrap32 x = wrap32 y := by
  unfold wrap32; omega

/-- Wrapping addition/subtraction/multiplication of already wrapped operands gives the wrapped
ideal result: any evaluation order of the kernels' i32 expressions yields `wrap32` of the ideal
integer value. -/
theorem wrap32_add (x y : Int) : wrap32 (wrap32 x + wrap32 y) = wrap32 (x + y) := by
  unfold wrap32; omega

theorem wrap32_sub (x y : Int) : wrap32 (wrap32 x - wrap32 y) = wrap32 (x - y) := by
  unfold wrap32; omega

theorem wrap32_mul (x y : Int) : wrap32 (wrap32 x * wrap32 y) = wrap32 (x * y) := by
  apply wrap32_congr
  rw [Int.mul_emod, wrap32_emod, wrap32_emod, ← Int.mul_emod]

end RtenVerif.QuantGemm
