import RtenVerif.Model.Safetensors
import RtenVerif.Lemmas.NpyFortran

/-!
# Lemmas for the safetensors wrapper model

dtype maps are inverse; the contiguous fast path of `to_le_bytes` produces the same bytes as the
iterator path for every layout; `from_le_bytes ∘ to_le_bytes` is the identity on the logical
elements; the `try_from_data` at the end of `npy::read_typed` cannot fail.
-/
namespace RtenVerif.Npy

/-! ## dtype maps -/

theorem dataTypeFromSafetensors_stDtypeOf (dt : DataType) :
    dataTypeFromSafetensors (stDtypeOf dt) = some dt := by
  cases dt <;> rfl

theorem stDtypeOf_of_dataTypeFromSafetensors {d : StDtype} {dt : DataType}
    (h : dataTypeFromSafetensors d = some dt) : d = stDtypeOf dt := by
  cases d <;> simp [dataTypeFromSafetensors] at h <;> subst h <;> rfl

/-! ## contiguity -/

theorem contig_spec (shape : List Nat) : ∀ (strides : List Nat) (p : Nat),
    shape.length = strides.length → contigFrom shape strides = some p →
    p = prod shape ∧ ∀ idx, validIdx shape idx → viewOffset strides idx = rowOffset shape idx := by
  induction shape with
  | nil =>
    intro strides p hl h
    cases strides with
    | nil =>
      simp [contigFrom] at h
      refine ⟨by simp [prod, h], ?_⟩
      intro idx hv
      cases idx <;> simp [validIdx, viewOffset, rowOffset] at *
    | cons _ _ => simp at hl
  | cons d ds ih =>
    intro strides p hl h
    cases strides with
    | nil => simp at hl
    | cons s ss =>
      simp only [List.length_cons, Nat.add_right_cancel_iff] at hl
      simp only [contigFrom] at h
      cases hq : contigFrom ds ss with
      | none => simp [hq] at h
      | some q =>
        obtain ⟨hqp, hoff⟩ := ih ss q hl hq
        simp only [hq] at h
        by_cases hd : d = 1
        · simp only [hd, if_true, Option.some.injEq] at h
          subst hd
          refine ⟨by simp [prod, ← h, hqp], ?_⟩
          intro idx hv
          cases idx with
          | nil => simp [validIdx] at hv
          | cons i is =>
            simp only [validIdx] at hv
            have : i = 0 := by omega
            subst this
            simp [viewOffset, rowOffset, hoff is hv.2]
        · simp only [hd, if_false] at h
          by_cases hs : s = q
          · simp only [hs, ne_eq, not_true_eq_false, if_false, Option.some.injEq] at h
            refine ⟨by rw [← h, hqp, prod, Nat.mul_comm], ?_⟩
            intro idx hv
            cases idx with
            | nil => simp [validIdx] at hv
            | cons i is =>
              simp only [validIdx] at hv
              simp [viewOffset, rowOffset, hoff is hv.2, hs, hqp]
          · simp [hs] at h

theorem prod_eq_zero_of_any (shape : List Nat) (h : shape.any (· == 0) = true) : prod shape = 0 := by
  induction shape with
  | nil => simp at h
  | cons d ds ih =>
    simp only [List.any_cons, Bool.or_eq_true, beq_iff_eq] at h
    rcases h with h | h
    · simp [prod, h]
    · simp [prod, ih h]

theorem contig_maxOffset (shape : List Nat) : ∀ (strides : List Nat) (p : Nat),
    shape.length = strides.length → contigFrom shape strides = some p →
    shape.any (· == 0) = false → maxOffset shape strides + 1 = prod shape := by
  induction shape with
  | nil =>
    intro strides p hl _ _
    cases strides <;> simp [maxOffset, prod] at *
  | cons d ds ih =>
    intro strides p hl h hz
    cases strides with
    | nil => simp at hl
    | cons s ss =>
      simp only [List.length_cons, Nat.add_right_cancel_iff] at hl
      simp only [List.any_cons, Bool.or_eq_false_iff, beq_eq_false_iff_ne] at hz
      simp only [contigFrom] at h
      cases hq : contigFrom ds ss with
      | none => simp [hq] at h
      | some q =>
        have hqp := (contig_spec ds ss q hl hq).1
        have hrec := ih ss q hl hq hz.2
        simp only [hq] at h
        simp only [maxOffset, prod]
        by_cases hd : d = 1
        · subst hd; simp; omega
        · simp only [hd, if_false] at h
          by_cases hs : s = q
          · rw [hs, hqp]
            have hd1 : 1 ≤ d := Nat.one_le_iff_ne_zero.mpr hz.1
            have : (d - 1) * prod ds + prod ds = d * prod ds := by
              rw [← Nat.succ_mul]; congr 1; omega
            omega
          · simp [hs] at h

theorem contig_minDataLen (shape strides : List Nat) (hl : shape.length = strides.length)
    (hc : isContig shape strides = true) : minDataLen shape strides = prod shape := by
  unfold isContig at hc
  obtain ⟨p, hp⟩ := Option.isSome_iff_exists.mp hc
  unfold minDataLen
  by_cases hz : shape.any (· == 0) = true
  · simp [hz, prod_eq_zero_of_any shape hz]
  · simp only [hz, Bool.false_eq_true, if_false]
    exact contig_maxOffset shape strides p hl hp (Bool.eq_false_iff.mpr hz)

/-- For a contiguous layout the logical iteration order is the storage order. -/
theorem viewIter_of_contig (v : SView) (hl : v.shape.length = v.strides.length)
    (hc : isContig v.shape v.strides = true) (hs : prod v.shape ≤ v.storage.length) :
    viewIter v = v.storage.take (prod v.shape) := by
  unfold isContig at hc
  obtain ⟨p, hp⟩ := Option.isSome_iff_exists.mp hc
  have hoff := (contig_spec v.shape v.strides p hl hp).2
  apply List.ext_getElem
  · simp [viewIter, List.length_take, Nat.min_eq_left hs]
  · intro i h1 h2
    have hi : i < prod v.shape := by simpa [viewIter] using h1
    have hi' : i < v.storage.length := by omega
    simp only [viewIter, List.getElem_map, List.getElem_range, List.getElem_take]
    rw [hoff _ (unravel_valid v.shape i hi), rowOffset_unravel v.shape i hi,
      List.getD_eq_getElem?_getD, List.getElem?_eq_getElem hi']
    rfl

/-- **Fast path = iterator path** for every view (any shape, any strides) whose storage covers
the layout: `to_le_bytes` does not depend on which branch is taken. -/
theorem stToLeBytes_eq_iter (dt : DataType) (v : SView) (hl : v.shape.length = v.strides.length)
    (hs : minDataLen v.shape v.strides ≤ v.storage.length) :
    stToLeBytes dt v = stToLeBytesIter dt v := by
  unfold stToLeBytes stToLeBytesIter viewData
  by_cases hc : isContig v.shape v.strides = true
  · have hm := contig_minDataLen v.shape v.strides hl hc
    simp only [hc, if_true]
    rw [hm, viewIter_of_contig v hl hc (by omega)]
  · simp [hc]

/-! ## `from_le_bytes` -/

theorem itemSize_pos (dt : DataType) : 0 < dt.itemSize := by cases dt <;> decide

theorem stFromLeBytes_encode (dt : DataType) (vals : List Nat) (hv : ∀ x ∈ vals, ValidElem dt x) :
    stFromLeBytes dt ((vals.map (encodeElem dt)).flatten) = vals := by
  have hxs : ∀ x ∈ vals.map (encodeElem dt), x.length = dt.itemSize := by
    intro x hx
    obtain ⟨y, _, rfl⟩ := List.mem_map.mp hx
    exact encodeElem_length dt y
  unfold stFromLeBytes
  rw [length_flatten_uniform dt.itemSize _ hxs, List.length_map,
    Nat.mul_div_cancel _ (itemSize_pos dt)]
  have := chunks_flatten dt.itemSize (vals.map (encodeElem dt)) hxs []
  simp only [List.append_nil, List.length_map] at this
  rw [this, List.map_map]
  conv => rhs; rw [← List.map_id vals]
  apply List.map_congr_left
  intro x hx
  exact decode_encode dt x (hv x hx)

theorem stFromLeBytes_length (dt : DataType) (bytes : List Nat) :
    (stFromLeBytes dt bytes).length = bytes.length / dt.itemSize := by
  simp [stFromLeBytes, chunks_length]

theorem chunks_one (l : List Nat) : chunks 1 l.length l = l.map (fun b => [b]) := by
  induction l with
  | nil => rfl
  | cons b t ih => simp [chunks, ih]

/-- `bool::from_le_bytes`: every byte is read as `b != 0`, whatever its value. -/
theorem stFromLeBytes_bool (bytes : List Nat) :
    stFromLeBytes .bool bytes = bytes.map (fun b => if b ≠ 0 then 1 else 0) := by
  unfold stFromLeBytes
  simp only [DataType.itemSize, Nat.div_one, chunks_one, List.map_map]
  apply List.map_congr_left
  intro b _
  simp [decodeElem]

theorem viewIter_valid (dt : DataType) (v : SView) (h : ∀ x ∈ v.storage, ValidElem dt x) :
    ∀ x ∈ viewIter v, ValidElem dt x := by
  intro x hx
  simp only [viewIter, List.mem_map, List.mem_range] at hx
  obtain ⟨i, _, rfl⟩ := hx
  rw [List.getD_eq_getElem?_getD]
  cases hg : v.storage[viewOffset v.strides (unravel v.shape i)]? with
  | none => cases dt <;> simp [ValidElem, DataType.itemSize]
  | some y => exact h y (List.mem_of_getElem? hg)

/-! ## `try_from_data` -/

theorem checkedShapeLenGo_of_checkedProd (shape : List Nat) : ∀ (acc p : Nat) (e : Bool),
    checkedProd (shape.map (fun d => max d 1)) acc = some p →
    checkedShapeLenGo shape acc e = some (if e || shape.any (· == 0) then 0 else p) := by
  induction shape with
  | nil => intro acc p e h; simp [checkedProd] at h; simp [checkedShapeLenGo, h]
  | cons d ds ih =>
    intro acc p e h
    simp only [List.map_cons, checkedProd] at h
    split at h
    · rename_i hlt
      by_cases hd : d = 0
      · subst hd
        simp only [Nat.zero_le, Nat.max_eq_right, Nat.mul_one] at h hlt
        simp only [checkedShapeLenGo, if_true]
        rw [ih acc p true h]
        simp
      · have hm : max d 1 = d := Nat.max_eq_left (Nat.one_le_iff_ne_zero.mpr hd)
        rw [hm] at h hlt
        simp only [checkedShapeLenGo, hd, if_false, hlt, if_true]
        rw [ih (acc * d) p e h]
        simp [hd]
    · cases h

theorem prod_eq_of_no_zero (shape : List Nat) (h : shape.any (· == 0) = false) :
    prod shape = prod (shape.map (fun d => max d 1)) := by
  induction shape with
  | nil => rfl
  | cons d ds ih =>
    simp only [List.any_cons, Bool.or_eq_false_iff, beq_eq_false_iff_ne] at h
    simp only [List.map_cons, prod, ih h.2, Nat.max_eq_left (Nat.one_le_iff_ne_zero.mpr h.1)]

/-- Under the size guard of `read_typed`, `Tensor::try_from_data(shape, values)` with
`values.len() = ∏ shape` is accepted: the `"invalid npy array shape"` error is unreachable. -/
theorem tryFromDataOk_of_guard (shape : List Nat)
    (h : prod (shape.map (fun d => max d 1)) < isizeLimit) :
    tryFromDataOk shape (prod shape) = true := by
  unfold tryFromDataOk checkedShapeLen
  rw [checkedShapeLenGo_of_checkedProd shape 1 _ false (guard_of_prod shape h)]
  by_cases hz : shape.any (· == 0) = true
  · simp [hz, prod_eq_zero_of_any shape hz]
  · have hz' : shape.any (· == 0) = false := Bool.eq_false_iff.mpr hz
    simp only [hz', Bool.or_self, Bool.false_eq_true, if_false, beq_iff_eq]
    exact (prod_eq_of_no_zero shape hz').symm

end RtenVerif.Npy
