import RtenVerif.Lemmas.PartialRunCompose
import RtenVerif.Lemmas.PartialRunProgress
/-!
# Composition at full strength: the composed run succeeds and returns the same outputs
-/
namespace RtenVerif.PartialRun
open RtenVerif.Graph RtenVerif.Planner

section
variable {Ω V : Type}
variable {g : Graph} {sem : Sem Ω V} {cv : Nat → V} {S rest : List (Nat × V)}

/-- Executable check of `OutputsAreValues`. -/
def outputsAreValuesB (g : Graph) : Bool :=
  (List.range g.nodes.length).all (fun p =>
    match getOp g p with
    | some op => (opOutputs op).all (fun o => getNode g o == some .value)
    | none => true)

theorem outputsAreValues_of_check {g : Graph} (h : outputsAreValuesB g = true) :
    OutputsAreValues g := by
  intro p op hop o ho
  unfold outputsAreValuesB at h
  rw [List.all_eq_true] at h
  have := h p (List.mem_range.mpr (getOp_lt hop))
  simp only [hop, List.all_eq_true] at this
  simpa using this o ho

theorem createPlan_of_run_ok {ω : Ω} {W : List (Nat × V)} {outs : List Nat} {vals : List V}
    (h : run g sem ω cv W [] outs = .ok vals) :
    ∃ plan, createPlan g (W.map (fun p => p.1)) outs runOpts = .ok plan := by
  unfold run at h
  simp only [List.append_nil] at h
  cases hc : createPlan g (W.map (fun p => p.1)) outs runOpts with
  | error e => simp [hc] at h
  | ok plan => exact ⟨plan, rfl⟩

theorem mem_zip_of_mem {outs : List Nat} {vals : List V} (hl : vals.length = outs.length)
    {o : Nat} (ho : o ∈ outs) : ∃ v, (o, v) ∈ outs.zip vals := by
  obtain ⟨i, hi, rfl⟩ := List.mem_iff_getElem.mp ho
  exact ⟨vals[i]'(by omega), List.mem_iff_getElem.mpr ⟨i, by simp; omega, by simp⟩⟩

/-- The request of the composed run is well-formed. -/
theorem final_argsOK (hs : Setup g S rest) (hov : OutputsAreValues g) {outs plan : List Nat}
    (hc : createPlan g (S.map (fun p => p.1)) outs partialOpts = .ok plan)
    (hargsF : ArgsOK g ((S ++ rest).map (fun p => p.1)) outs) :
    ArgsOK g (newOutputs (pruneFold g plan (S.map (fun p => p.1))) outs ++ rest.map (fun p => p.1))
      outs := by
  have hargsP := argsOK_of_createPlan_ok hc
  obtain ⟨h1, h2, h3, h4⟩ := hargsF
  rw [List.map_append] at h3 h4
  obtain ⟨_, hrn, hdis⟩ := List.nodup_append.mp h3
  have hleaf : ∀ a ∈ newOutputs (pruneFold g plan (S.map (fun p => p.1))) outs,
      a ∈ S.map (fun p => p.1) ∨ ∃ k, a ∈ outsOf g k := by
    intro a ha
    rcases cand_spec g plan _ a (mem_newOutputs.mp ha).1 with h | ⟨k, _, hk⟩
    · exact Or.inl h
    · exact Or.inr ⟨k, hk⟩
  refine ⟨h1, h2, ?_, ?_⟩
  · rw [List.nodup_append]
    refine ⟨(pruneFold_cand_nodup g plan _ hargsP.2.2.1).sublist List.filter_sublist, hrn, ?_⟩
    intro a ha b hb hab
    subst hab
    rcases hleaf a ha with h | ⟨k, hk⟩
    · exact hdis a h a hb rfl
    · obtain ⟨w, hw⟩ := lookup_isSome_of_mem_keys hb
      rw [hs.rest_fresh hk] at hw; cases hw
  · intro a ha
    rcases List.mem_append.mp ha with ha | ha
    · rcases hleaf a ha with h | ⟨k, hk⟩
      · exact hargsP.2.2.2 a h
      · unfold outsOf at hk
        cases hq : getOp g k with
        | none => simp [hq] at hk
        | some qop =>
          simp only [hq] at hk
          simp [isValueOrConstant, hov k qop hq a hk]
    · exact h4 a (List.mem_append_right _ ha)

/-- **T2** `run (partial_run S outs ++ rest) outs = run (S ++ rest) outs` whenever the latter
succeeds (and `partial_run` returned). -/
theorem compose_full (hs : Setup g S rest) (hov : OutputsAreValues g) (hdet : DetSem g sem)
    {ω : Ω} {outs : List Nat} {leaves : List (Nat × V)} {valsF : List V}
    (hp : partialRun g sem ω cv S [] outs = .ok leaves)
    (hfull : run g sem ω cv (S ++ rest) [] outs = .ok valsF) :
    run g sem ω cv (leaves ++ rest) [] outs = .ok valsF := by
  obtain ⟨plan, vals, hc, hr, hleaves⟩ := partialRun_ok hp
  obtain ⟨planF, hcF⟩ := createPlan_of_run_ok hfull
  have hargsF := argsOK_of_createPlan_ok hcF
  have hlen := (runPlan_sound (tie_kept hs hdet ω ω plan) hr).1
  have hkeys : (leaves ++ rest).map (fun p => p.1) =
      newOutputs (pruneFold g plan (S.map (fun p => p.1))) outs ++ rest.map (fun p => p.1) := by
    rw [List.map_append, hleaves, keys_zip hlen]
  have hargs : ArgsOK g ((leaves ++ rest).map (fun p => p.1)) outs := by
    rw [hkeys]; exact final_argsOK hs hov hc hargsF
  obtain ⟨lF, dF⟩ := run_sound hs.up hfull
  have hden : ∀ o ∈ outs, ∃ v, Den g sem ω cv (leaves ++ rest) o v := by
    intro o ho
    obtain ⟨v, hv⟩ := mem_zip_of_mem lF ho
    obtain ⟨f, hf⟩ := dF _ hv
    exact ⟨v, cut hs hdet hp hc f o v hf (Or.inl ho)⟩
  obtain ⟨valsP, hfin⟩ := run_complete hs.up hov hargs hden
  rw [hfin, compose_values hs hdet hp hfull hfin]

end

end RtenVerif.PartialRun
