import RtenVerif.Lemmas.ControlFlowRc

/-!
# Ownership safety of captures (C24.T2) and the optimizer's capture guard (C24.T3)
-/
namespace RtenVerif.ControlFlow

variable {P V : Type}

/-! ## What `take_value` may move -/

/-- `rc ≠ 1` ⇒ the value stays where it is (it can only be captured by reference). -/
theorem takeValue_none_of_rc_ne_one (gc : List Nat) (st : St V) (n : Nat) (h : st.rc n ≠ 1) :
    takeValue gc st n = (none, st) := by
  unfold takeValue
  have : (st.rc n == 1) = false := by simpa using h
  simp [this]

/-- Every by-value capture was a dependency of the operator, not one of its inputs, and had
reference count 1 when it was extracted. -/
theorem extractByVal_keys (gc ins : List Nat) : ∀ (ds : List Nat) (st : St V) (p : Nat × V),
    p ∈ (extractByVal gc ins st ds).2 → p.1 ∈ ds ∧ ins.contains p.1 = false ∧ st.rc p.1 = 1
  | [], st, p, h => by simp [extractByVal] at h
  | n :: ns, st, p, h => by
    unfold extractByVal at h
    split at h
    · have := extractByVal_keys gc ins ns st p h
      exact ⟨List.mem_cons_of_mem _ this.1, this.2⟩
    · rename_i hin
      split at h
      · rename_i v st' htv
        have hrc : st'.rc = st.rc := by
          have := takeValue_rc gc st n; rw [htv] at this; exact this
        simp only [List.mem_append, List.mem_singleton] at h
        rcases h with h | h
        · have := extractByVal_keys gc ins ns st' p h
          exact ⟨List.mem_cons_of_mem _ this.1, this.2.1, by rw [← hrc]; exact this.2.2⟩
        · subst h
          exact ⟨List.mem_cons_self, by simpa using hin, takeValue_some_rc gc st n v st' htv⟩
      · rename_i st' htv
        have hrc : st'.rc = st.rc := by
          have := takeValue_rc gc st n; rw [htv] at this; exact this
        have := extractByVal_keys gc ins ns st' p h
        exact ⟨List.mem_cons_of_mem _ this.1, this.2.1, by rw [← hrc]; exact this.2.2⟩

/-- Every value taken for in-place execution had reference count 1. -/
theorem takeAll_rc_one (gc : List Nat) : ∀ (cs : List (Nat × Nat)) (st st' : St V)
    (vs : List (Nat × V)), takeAll gc st cs = .ok (st', vs) → ∀ c ∈ cs, st.rc c.2 = 1
  | [], _, _, _, _, c, hc => by simp at hc
  | (pos, n) :: rest, st, st', vs, h, c, hc => by
    unfold takeAll at h
    split at h
    · simp at h
    · rename_i v st1 htv
      split at h
      · simp at h
      · rename_i st2 vs2 hrest
        have hrc : st1.rc = st.rc := by
          have := takeValue_rc gc st n; rw [htv] at this; exact this
        rcases List.mem_cons.mp hc with hc | hc
        · subst hc; exact takeValue_some_rc gc st n v st1 htv
        · rw [← hrc]; exact takeAll_rc_one gc rest st1 st2 vs2 hrest c hc

/-- Core of T2: under the refcount invariant a value node whose count is 1 and that the current
operator depends on is used exactly once by that operator and by nothing afterwards — neither a
later step (as input or as capture of a nested subgraph) nor a requested output. -/
theorem rc_one_no_remaining_use (g : Graph P V) (op : Op P V) (rest : List (Op P V)) (st : St V)
    (hinv : RcInv g (op :: rest) st) (n : Nat) (hval : isValueNode g n = true)
    (hdep : n ∈ deps g op) (hrc : st.rc n = 1) :
    (deps g op).count n = 1 ∧ n ∉ rest.flatMap (deps g) ∧ n ∉ g.outputs := by
  have h := hinv n hval
  rw [hrc] at h
  simp [remaining, hval, List.flatMap_cons, List.count_append] at h
  have hpos : 0 < (deps g op).count n := List.count_pos_iff.mpr hdep
  refine ⟨by omega, ?_, ?_⟩
  · intro hmem
    have : 0 < (rest.flatMap (deps g)).count n := List.count_pos_iff.mpr hmem
    omega
  · intro hmem
    have : 0 < g.outputs.count n := List.count_pos_iff.mpr hmem
    omega

/-! ## `CaptureEnv::take_input` only touches the innermost by-value map -/

theorem look_erase_ne (σ : Env V) (n m : Nat) (h : m ≠ n) : look (erase σ n) m = look σ m := by
  induction σ with
  | nil => rfl
  | cons p rest ih =>
    obtain ⟨a, v⟩ := p
    unfold erase at ih ⊢
    by_cases ha : a = n
    · subst ha
      have : (a == a) = true := by simp
      simp [List.filter, look, Ne.symm h, ih]
    · have hne : (a != n) = true := by simpa using ha
      simp [List.filter, hne, look, ih]

/-- By-reference captures (`temp_values_by_ref`, constants, inputs) and all outer environments are
unchanged by `take_input`. -/
theorem takeInput_frames (env : List (Frame V)) (n : Nat) :
    ((takeInput env n).2).map (fun f => (f.locals, f.caps, f.views, f.tempRef)) =
      env.map (fun f => (f.locals, f.caps, f.views, f.tempRef)) ∧
    (takeInput env n).2.tail = env.tail := by
  cases env with
  | nil => simp [takeInput]
  | cons f ps =>
    simp only [takeInput]
    split <;> simp

/-- Lookups of any *other* name are unaffected by a take. -/
theorem getInput_takeInput_ne (env : List (Frame V)) (n m : Nat) (h : m ≠ n) :
    getInput (takeInput env n).2 m = getInput env m := by
  cases env with
  | nil => simp [takeInput]
  | cons f ps =>
    simp only [takeInput]
    split
    · simp only [getInput, look_erase_ne _ _ _ h]
    · rfl

/-- What can be taken from an environment is exactly what is stored by value in its innermost
frame: a value captured by reference can never be taken (hence never modified in place). -/
theorem canTake_iff (env : List (Frame V)) (n : Nat) :
    canTake env n = true ↔
      ∃ f ps, env = f :: ps ∧ (f.locals.contains n || f.caps.contains n) = true ∧
        (look f.byVal n).isSome = true := by
  cases env with
  | nil => simp [canTake]
  | cons f ps => simp [canTake]

/-! ## T3: the optimizer's guard (`find_operator_output_captured_by_subgraph`) -/

/-- The guard: first output of an unfused operator that is captured by a subgraph and is not
among the outputs the fused operator preserves (`Fusion::Op` ↦ its `output_ids`;
`Fusion::Identity` / `Fusion::Constant` ↦ none). -/
def guardFind (captured unfusedOutputs preserved : List Nat) : Option Nat :=
  if captured.isEmpty then none
  else unfusedOutputs.find? (fun o => captured.contains o && !preserved.contains o)

theorem guardFind_none (captured outs preserved : List Nat)
    (h : guardFind captured outs preserved = none) :
    ∀ v ∈ outs, v ∈ captured → v ∈ preserved := by
  intro v hv hc
  unfold guardFind at h
  split at h
  · rename_i he
    simp at he; subst he; simp at hc
  · have := List.find?_eq_none.mp h v hv
    simpa [hc] using this

/-- A flat view of a graph for the fusion step: each operator = its id and its outputs. -/
def producedBy (ops : List (Nat × List Nat)) (v : Nat) : Prop := ∃ o ∈ ops, v ∈ o.2

/-- `apply_fusion`: remove the unfused operators, add the fused one (id `newId`) producing
`preserved`. -/
def applyFusion (ops : List (Nat × List Nat)) (unfused : List Nat) (newId : Nat)
    (preserved : List Nat) : List (Nat × List Nat) :=
  ops.filter (fun o => !unfused.contains o.1) ++ [(newId, preserved)]

def unfusedOutputs (ops : List (Nat × List Nat)) (unfused : List Nat) : List Nat :=
  (ops.filter (fun o => unfused.contains o.1)).flatMap (·.2)

end RtenVerif.ControlFlow
