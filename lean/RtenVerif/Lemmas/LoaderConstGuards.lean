import RtenVerif.Lemmas.LoaderConstMode
import RtenVerif.Props.C21

/-!
C05 / audit item M1: the guards of the explicit panic branches of `Model/LoaderConst.lean`
(`unwrap`/`expect` on `ArcSlice::new`, `ArcSlice::from_bytes(Vec::new()).unwrap()`,
`DataSlice::data()`'s slice index, `spare_capacity[..n]`, `chunk.try_into().unwrap()`) are
unreachable, and what the element-count steps return is backed by the bytes that are present.
-/
namespace RtenVerif.LoaderConst
open RtenVerif.TensorBounds RtenVerif.Overlap

theorem castSliceLen_le {size b o n : U} (h : castSliceLen size b o = some n) :
    n.toNat * size.toNat ≤ b.toNat := by
  unfold castSliceLen at h
  split at h
  · cases h; simp
  · split at h
    · cases h; exact div_mul_le_toNat b size
    · cases h

theorem castSliceLen_zero {size o n : U} (h : castSliceLen size 0 o = some n) : n = 0 := by
  unfold castSliceLen at h
  simp at h
  exact h.symm

/-- A `DataSlice` whose range lies inside its storage. -/
structure ExtSlice.Valid (d : ExtSlice) : Prop where
  le : d.start ≤ d.stop
  inb : d.stop ≤ d.bufLen
  fits : d.bufLen < wordSize

/-- `DataSlice::data()` does not panic on a valid slice (external_data.rs:48). -/
theorem ExtSlice.data_of_valid {d : ExtSlice} (hv : d.Valid) :
    ∃ bytes off, d.data = some (bytes, off) ∧ bytes.toNat = d.stop - d.start ∧
      off.toNat = d.start := by
  have hW : wordSize = 2 ^ 64 := by decide
  refine ⟨UInt64.ofNat (d.stop - d.start), UInt64.ofNat d.start, ?_, ?_, ?_⟩
  · unfold ExtSlice.data
    rw [if_pos ⟨hv.le, hv.inb⟩]
  · apply UInt64.toNat_ofNat_of_lt'
    have := hv.inb; have := hv.fits
    show _ < 2 ^ 64
    omega
  · apply UInt64.toNat_ofNat_of_lt'
    have := hv.inb; have := hv.fits; have := hv.le
    show _ < 2 ^ 64
    omega

theorem memRange_ok {o l f s e : Nat} (h : ExtData.memRange o l f = .ok (s, e)) :
    s = o ∧ e ≤ f ∧ (o ≤ ExtData.U64_MAX → o ≤ e) ∧ e - o ≤ l := by
  unfold ExtData.memRange at h
  simp only at h
  split at h
  · cases h
  · rename_i hle
    injection h with h
    injection h with h1 h2
    unfold ExtData.satAdd at hle h2
    refine ⟨h1.symm, by omega, fun ho => ?_, ?_⟩
    · split at h2 <;> omega
    · split at h2 <;> omega

/-- Memory-mapped external data files are shorter than `u64::MAX` bytes (they are Rust slices:
at most `isize::MAX`).  Needed for `MmapLoader` only, whose range end is recomputed unchecked. -/
def ExtFits : Ext → Prop
  | .ref .mmap _ _ buf => buf.toNat < ExtData.U64_MAX
  | _ => True

/-- Whatever a data loader returns is a valid slice of its storage, it is no longer than the
length the model file names, and the bytes it denotes lie inside the external file / buffer at
the offset the model file names (C21: `memRange`, `c21_mmap_range_sound`, `c21_file_read_exact'`). -/
theorem loadExt_valid {e : Ext} {d : ExtSlice} (hfit : ExtFits e) (h : loadExt e = .ok (some d)) :
    d.Valid ∧ ∃ kind len off buf, e = .ref kind len off buf ∧ d.stop - d.start ≤ len.toNat ∧
      off.toNat + (d.stop - d.start) ≤ buf.toNat ∧
      (kind = .file ∨ d.start = off.toNat) := by
  cases e with
  | none => simp [loadExt] at h
  | badLocation => simp [loadExt] at h
  | badMeta => simp [loadExt] at h
  | loadErr => simp [loadExt] at h
  | ref kind len off buf =>
    have ho := M.toNat_lt_W off
    have hb := M.toNat_lt_W buf
    have hl := M.toNat_lt_W len
    have hW : wordSize = 18446744073709551616 := rfl
    have hU : ExtData.U64_MAX = 18446744073709551615 := rfl
    cases kind with
    | mem =>
      simp only [loadExt] at h
      split at h
      · cases h
      · next s e' heq =>
        cases h
        obtain ⟨h1, h2, h3, h4⟩ := memRange_ok heq
        have h3' := h3 (by omega)
        subst h1
        refine ⟨⟨h3', h2, hb⟩, .mem, len, off, buf, rfl, h4, ?_, Or.inr rfl⟩
        show off.toNat + (e' - off.toNat) ≤ buf.toNat
        omega
    | mmap =>
      simp only [loadExt] at h
      split at h
      · cases h
      · next s e' heq =>
        cases h
        obtain ⟨h1, h2, h3⟩ := ExtData.c21_mmap_range_sound _ _ _ _ _ hfit heq
        subst h1; subst h2
        refine ⟨⟨?_, h3, hb⟩, .mmap, len, off, buf, rfl, ?_, ?_, Or.inr rfl⟩
        · show off.toNat ≤ off.toNat + len.toNat
          omega
        · show off.toNat + len.toNat - off.toNat ≤ len.toNat
          omega
        · show off.toNat + (off.toNat + len.toNat - off.toNat) ≤ buf.toNat
          omega
    | file =>
      simp only [loadExt] at h
      split at h
      · cases h
      · next bytes heq =>
        cases h
        obtain ⟨h1, h2, _⟩ := ExtData.c21_file_read_exact' _ _ _ _ heq
        rw [List.length_replicate] at h2
        refine ⟨⟨Nat.zero_le _, Nat.le_refl _, by rw [h1]; exact hl⟩, .file, len, off, buf, rfl,
          ?_, ?_, Or.inl rfl⟩
        · show bytes.length - 0 ≤ len.toNat
          omega
        · show off.toNat + (bytes.length - 0) ≤ buf.toNat
          omega

/-- `offset as usize + length as usize` in `MmapLoader::load` cannot overflow once the range
check passed (for files shorter than `u64::MAX`). -/
theorem extAddPanics_false {e : Ext} (hfit : ExtFits e) {x : Option ExtSlice}
    (h : loadExt e = .ok x) (ovf : Bool) : extAddPanics ovf e = false := by
  cases e with
  | ref kind len off buf =>
    cases kind with
    | mmap =>
      simp only [loadExt] at h
      split at h
      · cases h
      · next s e' heq =>
        obtain ⟨_, _, h3⟩ := ExtData.c21_mmap_range_sound _ _ _ _ _ hfit heq
        have hb := M.toNat_lt_W buf
        have : ¬ wordSize ≤ off.toNat + len.toNat := by omega
        simp [extAddPanics, this]
    | mem => rfl
    | file => rfl
  | none => rfl
  | badLocation => rfl
  | badMeta => rfl
  | loadErr => rfl

/-- How many elements a count step may claim: they are present in the data source. -/
def CntBacked (size : Nat) (raw : Option U) (ext : Option ExtSlice) (typed : U) (len : Nat) : Prop :=
  match raw, ext with
  | some b, _ => len * size ≤ b.toNat
  | none, some d => d.start + len * size ≤ d.stop ∧ d.stop ≤ d.bufLen
  | none, none => len = typed.toNat

theorem arcSliceNewOk_sub {slen st b : Nat} (h1 : st + b ≤ slen) (h2 : b ≠ 0) :
    arcSliceNewOk slen (some st) b = true := by
  unfold arcSliceNewOk
  have : st < slen := by omega
  simp [this, h1]

theorem makeCount_spec {size : U} (hs : size = 1 ∨ size = 4) (raw : Option U)
    (ext : Option ExtSlice) (typed : U) (hv : ∀ d, ext = some d → d.Valid) :
    makeCount size raw ext typed ≠ .panic ∧
    ∀ k, makeCount size raw ext typed = .n k → CntBacked size.toNat raw ext typed k.toNat := by
  unfold makeCount CntBacked
  cases raw with
  | some b =>
    simp only
    unfold fromBytesLen
    split
    · next k hk =>
      refine ⟨by simp, fun k' hk' => ?_⟩
      cases hk'
      split at hk
      · cases hk; exact div_mul_le_toNat b size
      · cases hk
    · exact ⟨by simp, fun k' hk' => by cases hk'⟩
  | none =>
    cases ext with
    | none => exact ⟨by simp, fun k hk => by cases hk; rfl⟩
    | some d =>
      simp only
      have hval := hv d rfl
      obtain ⟨bytes, off, hd, hb, ho⟩ := ExtSlice.data_of_valid hval
      rw [hd]
      simp only
      cases hc : castSliceLen size bytes off with
      | some k =>
        simp only
        have hle := castSliceLen_le hc
        by_cases hz : bytes = 0
        · subst hz
          have hk0 := castSliceLen_zero hc
          subst hk0
          have : arcSliceNewOk d.bufLen none ((0 : U).toNat * size.toNat) = true := by
            unfold arcSliceNewOk; simp
          simp only [if_true, this]
          refine ⟨by simp, fun k' hk' => ?_⟩
          cases hk'
          have := hval.le; have := hval.inb
          simp
          omega
        · have hbn : bytes.toNat ≠ 0 := fun h => hz ((M.eq_zero_iff bytes).mpr h)
          simp only [hz, if_false]
          by_cases hkz : k.toNat * size.toNat = 0
          · have : arcSliceNewOk d.bufLen (some off.toNat) (k.toNat * size.toNat) = true := by
              unfold arcSliceNewOk; rw [hkz]; simp
            rw [this]
            refine ⟨by simp, fun k' hk' => ?_⟩
            cases hk'
            have := hval.le; have := hval.inb
            refine ⟨by omega, hval.inb⟩
          · have : arcSliceNewOk d.bufLen (some off.toNat) (k.toNat * size.toNat) = true := by
              apply arcSliceNewOk_sub _ hkz
              have := hval.inb
              omega
            rw [this]
            refine ⟨by simp, fun k' hk' => ?_⟩
            cases hk'
            have := hval.le; have := hval.inb
            refine ⟨by omega, hval.inb⟩
      | none =>
        simp only
        split
        · have hfb : fromBytesLen size 0 = some 0 := by
            rcases hs with rfl | rfl <;> decide
          rw [hfb]
          refine ⟨by simp, fun k' hk' => ?_⟩
          cases hk'
          have := hval.le
          simp
          exact ⟨hval.le, hval.inb⟩
        · exact ⟨by simp, fun k' hk' => by cases hk'⟩

theorem convCount_spec (n : U) (raw : Option U) (ext : Option ExtSlice) (typed : U)
    (hv : ∀ d, ext = some d → d.Valid) :
    convCount n raw ext typed ≠ .panic ∧
    ∀ k, convCount n raw ext typed = .n k → CntBacked n.toNat raw ext typed k.toNat := by
  unfold convCount CntBacked
  cases raw with
  | some b => exact ⟨by simp, fun k hk => by cases hk; exact div_mul_le_toNat b n⟩
  | none =>
    cases ext with
    | none => exact ⟨by simp, fun k hk => by cases hk; rfl⟩
    | some d =>
      have hval := hv d rfl
      obtain ⟨bytes, off, hd, hb, ho⟩ := ExtSlice.data_of_valid hval
      simp only [hd]
      refine ⟨by simp, fun k hk => ?_⟩
      cases hk
      have := div_mul_le_toNat bytes n
      have := hval.le
      exact ⟨by omega, hval.inb⟩

theorem f16Count_spec (raw : Option U) (ext : Option ExtSlice) (typed : U)
    (hv : ∀ d, ext = some d → d.Valid) :
    f16Count raw ext typed ≠ .panic ∧
    ∀ k, f16Count raw ext typed = .n k → CntBacked 2 raw ext typed k.toNat := by
  unfold f16Count CntBacked vecCapacity
  cases ext with
  | none =>
    cases raw with
    | some b =>
      simp only [Option.map_none]
      cases hc : castSliceLen 2 b 0 with
      | none => exact ⟨by simp, fun k hk => by cases hk⟩
      | some k =>
        simp only [Nat.le_refl, if_true]
        refine ⟨by simp, fun k' hk' => ?_⟩
        cases hk'
        exact castSliceLen_le (size := 2) hc
    | none =>
      simp only [Option.map_none, Nat.le_refl, if_true]
      exact ⟨by simp, fun k hk => by cases hk; rfl⟩
  | some d =>
    have hval := hv d rfl
    obtain ⟨bytes, off, hd, hb, ho⟩ := ExtSlice.data_of_valid hval
    simp only [Option.map_some, hd]
    cases raw with
    | some b =>
      simp only
      cases hc : castSliceLen 2 b 0 with
      | none => exact ⟨by simp, fun k hk => by cases hk⟩
      | some k =>
        simp only [Nat.le_refl, if_true]
        refine ⟨by simp, fun k' hk' => ?_⟩
        cases hk'
        exact castSliceLen_le (size := 2) hc
    | none =>
      simp only
      cases hc : castSliceLen 2 bytes off with
      | none => exact ⟨by simp, fun k hk => by cases hk⟩
      | some k =>
        simp only [Nat.le_refl, if_true]
        refine ⟨by simp, fun k' hk' => ?_⟩
        cases hk'
        have h2 := castSliceLen_le (size := 2) hc
        rw [show (2 : U).toNat = 2 from rfl] at h2
        have := hval.le
        exact ⟨by omega, hval.inb⟩

/-! ### `.rten` builders -/

theorem rtenCount_spec {size : U} (hs : size = 1 ∨ size = 4) (n offset slen : U) {byteLen stop : U}
    (hb : checkedMul n size = some byteLen) (hstop : checkedAdd offset byteLen = some stop)
    (hle : stop ≤ slen) :
    rtenCount size byteLen offset slen = .n (byteLen / size) := by
  have b := checkedMul_some hb
  have a := checkedAdd_some hstop
  rw [UInt64.le_iff_toNat_le] at hle
  have hmod : byteLen % size = 0 := by
    apply UInt64.toNat_inj.mp
    rw [UInt64.toNat_mod, b]
    exact Nat.mul_mod_left _ _
  unfold rtenCount
  split
  · by_cases hz : byteLen = 0
    · subst hz
      have : arcSliceNewOk slen.toNat none (0 : U).toNat = true := rfl
      simp only [if_true, this]
    · have hbn : byteLen.toNat ≠ 0 := fun h => hz ((M.eq_zero_iff byteLen).mpr h)
      simp only [hz, if_false]
      rw [arcSliceNewOk_sub (by omega) hbn]
      simp
  · simp [hmod]

theorem inlineCount_spec (size n start slen : U)
    (hin : start.toNat + (n * size).toNat ≤ slen.toNat) :
    inlineCount size n start slen = .n n := by
  unfold inlineCount
  split
  · by_cases hz : n * size = 0
    · rw [hz]
      have : arcSliceNewOk slen.toNat none (0 : U).toNat = true := rfl
      simp only [if_true, this]
    · have hbn : (n * size).toNat ≠ 0 := fun h => hz ((M.eq_zero_iff _).mpr h)
      simp only [hz, if_false]
      rw [arcSliceNewOk_sub hin hbn]
      simp
  · rfl

end RtenVerif.LoaderConst
