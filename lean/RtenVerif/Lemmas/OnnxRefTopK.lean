import RtenVerif.Model.OnnxRef
/-! TopK: the lane order is a sorted permutation — values descending (ascending for `largest = 0`),
equal values by ascending index. -/
namespace RtenVerif.OnnxRef

theorem insertBy_perm (before : (Int × Nat) → (Int × Nat) → Bool) (e : Int × Nat) :
    ∀ l, (insertBy before e l).Perm (e :: l)
  | [] => List.Perm.refl _
  | y :: ys => by
    unfold insertBy
    split
    · exact List.Perm.refl _
    · exact ((insertBy_perm before e ys).cons y).trans (List.Perm.swap e y ys)

theorem sortBy_perm (before : (Int × Nat) → (Int × Nat) → Bool) : ∀ l, (sortBy before l).Perm l
  | [] => List.Perm.refl _
  | x :: xs => by
    show (insertBy before x (sortBy before xs)).Perm (x :: xs)
    exact (insertBy_perm before x _).trans ((sortBy_perm before xs).cons x)

/-- `a` may stand before `b`. -/
def topkLe (largest : Bool) (a b : Int × Nat) : Prop := topkBefore largest b a = false

theorem topkLe_iff (largest : Bool) (a b : Int × Nat) :
    topkLe largest a b ↔
      (if largest then a.1 > b.1 else a.1 < b.1) ∨ (a.1 = b.1 ∧ a.2 ≤ b.2) := by
  unfold topkLe topkBefore
  cases largest <;> by_cases h : b.1 = a.1 <;> simp [h] <;> omega

theorem topkLe_trans (largest : Bool) (a b c : Int × Nat) (h1 : topkLe largest a b) (h2 : topkLe largest b c) :
    topkLe largest a c := by
  rw [topkLe_iff] at *
  cases largest <;> simp at * <;> omega

theorem topkLe_of_before (largest : Bool) (a b : Int × Nat) (h : topkBefore largest a b = true) :
    topkLe largest a b := by
  rw [topkLe_iff]
  unfold topkBefore at h
  by_cases h1 : a.1 = b.1
  · simp [h1] at h
    exact Or.inr ⟨h1, by omega⟩
  · have hb : (a.1 == b.1) = false := by simpa using h1
    simp only [hb, Bool.false_eq_true, if_false] at h
    cases largest
    · simp at h ⊢; omega
    · simp at h ⊢; omega

theorem insertBy_sorted (largest : Bool) (e : Int × Nat) : ∀ l,
    l.Pairwise (topkLe largest) → (insertBy (topkBefore largest) e l).Pairwise (topkLe largest)
  | [], _ => by simp [insertBy]
  | y :: ys, h => by
    have hy := List.pairwise_cons.mp h
    unfold insertBy
    split
    · next hb =>
      have hey := topkLe_of_before largest e y hb
      apply List.pairwise_cons.mpr
      refine ⟨?_, h⟩
      intro z hz
      rcases List.mem_cons.mp hz with hz | hz
      · subst hz; exact hey
      · exact topkLe_trans largest e y z hey (hy.1 z hz)
    · next hb =>
      have hye : topkLe largest y e := by
        unfold topkLe; simpa using hb
      apply List.pairwise_cons.mpr
      refine ⟨?_, insertBy_sorted largest e ys hy.2⟩
      intro z hz
      have := (insertBy_perm (topkBefore largest) e ys).mem_iff.mp hz
      rcases List.mem_cons.mp this with hz' | hz'
      · subst hz'; exact hye
      · exact hy.1 z hz'

theorem sortBy_sorted (largest : Bool) : ∀ l, (sortBy (topkBefore largest) l).Pairwise (topkLe largest)
  | [] => List.Pairwise.nil
  | x :: xs => by
    show (insertBy (topkBefore largest) x (sortBy (topkBefore largest) xs)).Pairwise _
    exact insertBy_sorted largest x _ (sortBy_sorted largest xs)

/-- TK1. The TopK lane order: `sortBy` returns a permutation of the (value, index) pairs in which every
earlier pair has a strictly better value than every later one, or the same value and a lower-or-equal
index ("the element with the lower index will appear first"). -/
theorem topk_order (largest : Bool) (l : List (Int × Nat)) :
    (sortBy (topkBefore largest) l).Perm l ∧
    (sortBy (topkBefore largest) l).Pairwise (fun a b =>
      (if largest then a.1 > b.1 else a.1 < b.1) ∨ (a.1 = b.1 ∧ a.2 ≤ b.2)) := by
  refine ⟨sortBy_perm _ l, ?_⟩
  have := sortBy_sorted largest l
  exact this.imp (fun {a b} h => (topkLe_iff largest a b).mp h)

end RtenVerif.OnnxRef
