import RtenVerif.Lemmas.ControlFlowSim2

/-!
# One step of `run_plan` refines one step of the naive semantics (C24.T1)
-/
namespace RtenVerif.ControlFlow

variable {P V : Type}

/-- Results correspond: both succeed with related states, or both fail with the same error. -/
def Rel {α β : Type} (Q : α → β → Prop) : Except Err α → Except Err β → Prop
  | .ok s, .ok σ => Q s σ
  | .error e, .error e' => e = e'
  | _, _ => False

/-- Refinement hypothesis for subgraphs of nesting depth `< f`. -/
def RefHyp (f : Nat) (rec : Runner P V) (ev : Env V → Graph P V → List V → Except Err (List V)) :
    Prop :=
  ∀ (g' : Graph P V) (args : List (Bool × V)) (E' : List (Frame V)) (σ' : Env V),
    wfG f g' = true →
    (∀ n, n ∈ g'.allDefs → getInput E' n = none ∧ look σ' n = none) →
    headOK E' →
    (∀ n, look (headByVal E') n ≠ none → g'.capNames.count n ≤ 1) →
    (∀ n, n ∉ g'.defs → Needed g' g'.ops n → getInput E' n = look σ' n) →
    rec g' args E' = ev σ' g' (args.map (·.2))

/-- Per-operator part of `wfG`. -/
def OpWf (f : Nat) (g : Graph P V) (op : Op P V) : Prop :=
  match op with
  | .prim _ _ _ => True
  | .ifOp _ t e _ =>
    wfG f t = true ∧ wfG f e = true ∧ disjointB t.allDefs g.defs = true ∧
      disjointB e.allDefs g.defs = true
  | .loop _ _ _ b _ => wfG f b = true ∧ disjointB b.allDefs g.defs = true

theorem wfG_succ (f : Nat) (g : Graph P V) (h : wfG (f + 1) g = true) :
    g.defs.Nodup ∧ g.outputs.Nodup ∧ (∀ n, n ∈ g.outputs → n ∈ g.defs) ∧
      ∀ op, op ∈ g.ops → OpWf f g op := by
  simp only [wfG, Bool.and_eq_true, decide_eq_true_eq, List.all_eq_true] at h
  obtain ⟨⟨⟨h1, h2⟩, h3⟩, h4⟩ := h
  refine ⟨h1, h2, fun n hn => by simpa using h3 n hn, ?_⟩
  intro op hop
  have := h4 op hop
  cases op with
  | prim k ins out => trivial
  | ifOp c t e outs => simpa [OpWf, Bool.and_eq_true, and_assoc] using this
  | loop trip cond car body outs => simpa [OpWf, Bool.and_eq_true] using this

theorem disjointB_spec (a b : List Nat) (h : disjointB a b = true) (n : Nat) (hn : n ∈ a) : n ∉ b := by
  simp only [disjointB, List.all_eq_true] at h
  simpa using h n hn

theorem lookups_congr (f g : Nat → Option V) : ∀ (ns : List Nat), (∀ n, n ∈ ns → f n = g n) →
    lookups f ns = lookups g ns
  | [], _ => rfl
  | n :: ns, h => by
    simp only [lookups]
    rw [h n List.mem_cons_self, lookups_congr f g ns (fun m hm => h m (List.mem_cons_of_mem _ hm))]

theorem optLookup_congr (f g : Nat → Option V) (o : Option Nat) (h : ∀ n, n ∈ o.toList → f n = g n) :
    optLookup f o = optLookup g o := by
  cases o with
  | none => rfl
  | some n => simp only [optLookup]; rw [h n (by simp)]

theorem collect_nil_eq_lookups (views : Env V) (st : St V) : ∀ (ins : List Nat) (pos : Nat),
    collect views st [] pos ins = lookups (opLookup views st) ins
  | [], _ => rfl
  | n :: ns, pos => by
    simp only [collect, lookups, look]
    rw [collect_nil_eq_lookups views st ns (pos + 1)]

theorem mem_of_look : ∀ (σ : Env V) (n : Nat) (v : V), look σ n = some v → (n, v) ∈ σ
  | [], _, _, h => by simp [look] at h
  | (m, w) :: rest, n, v, h => by
    by_cases hm : m = n
    · simp only [look_cons, hm, if_true] at h
      simp [hm, Option.some.inj h]
    · simp only [look_cons, hm, if_false] at h
      exact List.mem_cons_of_mem _ (mem_of_look rest n v h)

theorem mem_capNamesOps : ∀ (ops : List (Op P V)) (op : Op P V) (n : Nat), op ∈ ops →
    n ∈ op.capNames → n ∈ capNamesOps ops
  | op' :: rest, op, n, hop, hn => by
    simp only [capNamesOps, List.mem_append]
    rcases List.mem_cons.mp hop with h | h
    · left; rw [← h]; exact hn
    · right; exact mem_capNamesOps rest op n h hn

theorem mem_allDefsOps : ∀ (ops : List (Op P V)) (op : Op P V) (n : Nat), op ∈ ops →
    n ∈ op.allDefs → n ∈ allDefsOps ops
  | op' :: rest, op, n, hop, hn => by
    simp only [allDefsOps, List.mem_append]
    rcases List.mem_cons.mp hop with h | h
    · left; rw [← h]; exact hn
    · right; exact mem_allDefsOps rest op n h hn

theorem allDefs_of_op (g : Graph P V) (op : Op P V) (hop : op ∈ g.ops) (n : Nat)
    (hn : n ∈ op.allDefs) : n ∈ g.allDefs := by
  cases g with
  | mk i c ops o =>
    simp only [Graph.allDefs, List.mem_append]
    right; exact mem_allDefsOps ops op n hop hn

/-- A name a graph needs but does not define is one of its (transitive) capture names. -/
theorem needed_free_in_capNames (g : Graph P V) (hout : ∀ n, n ∈ g.outputs → n ∈ g.defs) (n : Nat)
    (hnd : n ∉ g.defs) (h : Needed g g.ops n) : n ∈ g.capNames := by
  rcases h with h | h
  · obtain ⟨op, hop, hmem⟩ := List.mem_flatMap.mp h
    cases g with
    | mk i c ops o =>
      simp only [Graph.capNames, List.mem_append]
      rcases List.mem_append.mp hmem with hm | hm
      · left
        unfold Graph.caps
        rw [List.mem_eraseDups, List.mem_filter]
        exact ⟨List.mem_flatMap.mpr ⟨op, hop, hm⟩, by simpa using hnd⟩
      · right; exact mem_capNamesOps ops op n hop hm
  · exact absurd (hout n h) hnd

/-- Same statement as `c24_child_sees_parent_locals` (kept here for the simulation). -/
theorem child_sees_parent_locals (g : Graph P V) (views : Env V) (st : St V) (ins ds : List Nat)
    (n : Nat) (hn : n ∈ g.defs) :
    getInput ({ locals := g.defs, caps := g.caps, views := views,
                tempRef := (extractByVal g.caps ins st ds).1.temp,
                byVal := (extractByVal g.caps ins st ds).2 } ::
              (extractByVal g.caps ins st ds).1.env) n =
      match look st.temp n with
      | some v => some v
      | none => look views n := by
  have hc := caps_not_def g n hn
  rw [getInput_frame_local g views _ _ _ n hn]
  cases h : look st.temp n with
  | some v =>
    rcases extractByVal_visible g.caps ins ds st n v h hc with ⟨h1, _⟩ | ⟨h1, h2⟩
    · simp [h1]
    · simp [h1, h2]
  | none =>
    have h1 := extractByVal_temp_none g.caps ins ds st n h
    have h2 := extractByVal_not_key g.caps ins ds st n h hc
    simp [h1, h2]

/-! ## re-capture never happens: a capture the graph forwards is named twice -/

theorem erase_eq_self : ∀ (σ : Env V) (n : Nat), look σ n = none → erase σ n = σ
  | [], _, _ => rfl
  | (m, v) :: rest, n, h => by
    by_cases hm : m = n
    · simp [look_cons, hm] at h
    · simp only [look_cons, hm, if_false] at h
      have ih := erase_eq_self rest n h
      unfold erase at ih ⊢
      have : ((m, v).1 != n) = true := by simpa using hm
      simp [List.filter, this, ih]

theorem takeInput_absent (env : List (Frame V)) (n : Nat) (h : look (headByVal env) n = none) :
    takeInput env n = (none, env) := by
  cases env with
  | nil => rfl
  | cons f ps =>
    simp only [headByVal] at h
    simp only [takeInput]
    split
    · rw [h, erase_eq_self _ _ h]
    · rfl

theorem takeValue_env_absent (gc : List Nat) (st : St V) (n : Nat)
    (h : gc.contains n = false ∨ look (headByVal st.env) n = none) :
    (takeValue gc st n).2.env = st.env ∧
      (look st.temp n = none → (takeValue gc st n).1 = none) := by
  unfold takeValue
  split
  · split
    · rename_i v hv
      exact ⟨rfl, fun h' => by rw [hv] at h'; simp at h'⟩
    · rcases h with h | h
      · have h' : n ∉ gc := by simpa using h
        simp [h']
      · split
        · rw [takeInput_absent _ _ h]; exact ⟨rfl, fun _ => rfl⟩
        · exact ⟨rfl, fun _ => rfl⟩
  · exact ⟨rfl, fun _ => rfl⟩

/-- Hypothesis under which extraction cannot take anything out of the enclosing environment. -/
def NoEnvTake (gc ins : List Nat) (env : List (Frame V)) (ds : List Nat) : Prop :=
  ∀ n, n ∈ ds → ins.contains n = false → gc.contains n = false ∨ look (headByVal env) n = none

theorem extractByVal_env' (gc ins : List Nat) : ∀ (ds : List Nat) (st : St V),
    NoEnvTake gc ins st.env ds → (extractByVal gc ins st ds).1.env = st.env
  | [], _, _ => rfl
  | n :: ns, st, h => by
    by_cases hin : ins.contains n = true
    · have : (extractByVal gc ins st (n :: ns)) = extractByVal gc ins st ns := by
        conv => lhs; unfold extractByVal
        rw [if_pos hin]
      rw [this]
      exact extractByVal_env' gc ins ns st (fun x hx => h x (List.mem_cons_of_mem _ hx))
    · have hin' : ins.contains n = false := by simpa using hin
      have hte := (takeValue_env_absent gc st n (h n List.mem_cons_self hin')).1
      rw [extractByVal_cons gc ins st n ns hin',
        extractByVal_env' gc ins ns _ (by rw [hte]; exact fun x hx => h x (List.mem_cons_of_mem _ hx)),
        hte]

/-- …and then every by-value capture came out of `temp_values`. -/
theorem extractByVal_from_temp (gc ins : List Nat) : ∀ (ds : List Nat) (st : St V) (p : Nat × V),
    NoEnvTake gc ins st.env ds → p ∈ (extractByVal gc ins st ds).2 → look st.temp p.1 ≠ none
  | [], _, _, _, h => by simp [extractByVal] at h
  | n :: ns, st, p, hne, h => by
    unfold extractByVal at h
    split at h
    · exact extractByVal_from_temp gc ins ns st p (fun x hx => hne x (List.mem_cons_of_mem _ hx)) h
    · rename_i hin
      have hin' : ins.contains n = false := by simpa using hin
      obtain ⟨hte, hnone⟩ := takeValue_env_absent gc st n (hne n List.mem_cons_self hin')
      have hsub : ∀ m, look (takeValue gc st n).2.temp m ≠ none → look st.temp m ≠ none := by
        intro m hm
        rcases takeValue_temp_effect gc st n m with h' | ⟨_, h', _⟩
        · rw [← h']; exact hm
        · exact absurd h' hm
      split at h
      · rename_i v st' htv
        rw [htv] at hte hnone hsub
        simp only [List.mem_append, List.mem_singleton] at h
        rcases h with h | h
        · exact hsub p.1 (extractByVal_from_temp gc ins ns st' p
            (by rw [hte]; exact fun x hx => hne x (List.mem_cons_of_mem _ hx)) h)
        · subst h
          intro hn
          have := hnone hn
          simp at this
      · rename_i st' htv
        rw [htv] at hte hsub
        exact hsub p.1 (extractByVal_from_temp gc ins ns st' p
          (by rw [hte]; exact fun x hx => hne x (List.mem_cons_of_mem _ hx)) h)

theorem count_capNamesOps_pos : ∀ (ops : List (Op P V)) (op : Op P V) (n : Nat), op ∈ ops →
    n ∈ op.capNames → 0 < (capNamesOps ops).count n := by
  intro ops op n hop hn
  exact List.count_pos_iff.mpr (mem_capNamesOps ops op n hop hn)

/-- A capture of `g` that one of `g`'s operators captures again is named at least twice in
`g.capture_names()`. -/
theorem recapture_count (g : Graph P V) (op : Op P V) (hop : op ∈ g.ops) (n : Nat)
    (hc : n ∈ g.caps) (hn : n ∈ op.capNames) : 2 ≤ g.capNames.count n := by
  cases g with
  | mk i c ops o =>
    simp only [Graph.capNames, List.count_append]
    have h1 : 0 < (Graph.caps (.mk i c ops o : Graph P V)).count n := List.count_pos_iff.mpr hc
    have h2 := count_capNamesOps_pos ops op n hop hn
    omega

/-- Under the by-value-once invariant, extraction for an operator of `g` never takes a value out of
the enclosing environment. -/
theorem noEnvTake_of_once (g : Graph P V) (op : Op P V) (hop : op ∈ g.ops) (env : List (Frame V))
    (hbo : ∀ n, look (headByVal env) n ≠ none → g.capNames.count n ≤ 1) :
    NoEnvTake g.caps op.directInputs env (deps g op) := by
  intro n hn hni
  by_cases hc : g.caps.contains n = true
  · right
    have hni' : n ∉ op.directInputs := by simpa using hni
    have hcap : n ∈ op.capNames := by
      unfold deps at hn
      rcases List.mem_append.mp hn with h | h
      · exact absurd h hni'
      · exact (List.mem_filter.mp h).1
    have h2 := recapture_count g op hop n (by simpa using hc) hcap
    cases hl : look (headByVal env) n with
    | none => rfl
    | some v =>
      have := hbo n (by simp [hl])
      omega
  · left; simpa using hc

/-- Facts about by-value extraction for a subgraph operator of a well-formed graph. -/
theorem extract_facts (g : Graph P V) (op : Op P V) (st : St V)
    (hnr : NoEnvTake g.caps op.directInputs st.env (deps g op)) :
    let ex := extractByVal g.caps op.directInputs st (deps g op)
    ex.1.rc = st.rc ∧ ex.1.env = st.env ∧
    (∀ m, look ex.1.temp m = look st.temp m ∨
      (look ex.1.temp m = none ∧ st.rc m = 1 ∧ m ∈ deps g op)) ∧
    (∀ m, m ∈ op.directInputs → look ex.1.temp m = look st.temp m) := by
  intro ex
  refine ⟨extractByVal_rc _ _ _ _, extractByVal_env' _ _ _ _ hnr, ?_, ?_⟩
  · intro m
    rcases extractByVal_temp_effect g.caps op.directInputs (deps g op) st m with h | ⟨h1, h2, h3, _⟩
    · exact Or.inl h
    · exact Or.inr ⟨h1, h2, h3⟩
  · intro m hm
    rcases extractByVal_temp_effect g.caps op.directInputs (deps g op) st m with h | ⟨_, _, _, h4⟩
    · exact h
    · have : op.directInputs.contains m = true := by simpa using hm
      rw [this] at h4; exact absurd h4 (by simp)

/-- The environment handed to a subgraph agrees with the naive environment of the operator. -/
theorem child_hyps (g : Graph P V) (views : Env V) (σp : Env V)
    (ctx : Ctx g views σp) (op : Op P V) (hop : op ∈ g.ops) (rest : List (Op P V))
    (st : St V) (b : Env V) (inv : Inv g views σp (op :: rest) st b)
    (sub : Graph P V) (hcap : ∀ n, n ∈ sub.capNames → n ∈ op.capNames)
    (hcount : ∀ n, sub.capNames.count n ≤ op.capNames.count n)
    (hall : ∀ n, n ∈ sub.allDefs → n ∈ op.allDefs)
    (hdisj : disjointB sub.allDefs g.defs = true)
    (hout : ∀ n, n ∈ sub.outputs → n ∈ sub.defs) :
    let ex := extractByVal g.caps op.directInputs st (deps g op)
    let E' : List (Frame V) := { locals := g.defs, caps := g.caps, views := views,
                                 tempRef := ex.1.temp, byVal := ex.2 } :: ex.1.env
    (∀ n, n ∈ sub.allDefs → getInput E' n = none ∧ look (b ++ σp) n = none) ∧
    headOK E' ∧
    (∀ n, look (headByVal E') n ≠ none → sub.capNames.count n ≤ 1) ∧
    (∀ n, n ∉ sub.defs → Needed sub sub.ops n → getInput E' n = look (b ++ σp) n) := by
  intro ex E'
  have hnr := noEnvTake_of_once g op hop st.env inv.byvalonce
  obtain ⟨_, henv, _, _⟩ := extract_facts g op st hnr
  have hkeytemp : ∀ n v, look ex.2 n = some v → look st.temp n ≠ none := by
    intro n v hl
    exact extractByVal_from_temp g.caps op.directInputs (deps g op) st (n, v) hnr
      (mem_of_look _ _ _ hl)
  have houter : ∀ n, n ∉ g.defs → getInput E' n = getInput st.env n := by
    intro n hn
    show getInput (_ :: ex.1.env) n = _
    rw [getInput_frame_outer g views _ _ _ n hn, henv]
  refine ⟨?_, ?_, ?_, ?_⟩
  · intro n hn
    have hng : n ∉ g.defs := disjointB_spec _ _ hdisj n hn
    have hga : n ∈ g.allDefs := allDefs_of_op g op hop n (hall n hn)
    refine ⟨by rw [houter n hng]; exact inv.shadowE n hga, ?_⟩
    have hb : look b n = none := by
      cases hl : look b n with
      | none => rfl
      | some v => exact absurd (inv.bkeys n (by simp [hl])) hng
    rw [look_append_right b σp n hb]
    exact ctx.shadowσ n hga
  · -- by-value captures were all taken out of `temp_values`: local nodes, no longer by reference
    show ∀ n, look ex.2 n ≠ none → g.defs.contains n = true ∧ look ex.1.temp n = none
    intro n hn
    cases hl : look ex.2 n with
    | none => exact absurd hl hn
    | some v =>
      have hgc : g.caps.contains n = false :=
        caps_not_def g n (valueDefs_sub_defs g n (inv.keys n (hkeytemp n v hl)))
      cases ht : look st.temp n with
      | none => exact absurd ht (hkeytemp n v hl)
      | some w =>
        rcases extractByVal_visible g.caps op.directInputs (deps g op) st n w ht hgc with
          ⟨_, h2⟩ | ⟨h1, _⟩
        · rw [hl] at h2; exact absurd h2 (by simp)
        · refine ⟨?_, h1⟩
          have := valueDefs_sub_defs g n (inv.keys n (by simp [ht]))
          simpa using this
  · -- by-value once: the extracted value had count 1, so the operator names it once
    show ∀ n, look ex.2 n ≠ none → sub.capNames.count n ≤ 1
    intro n hn
    cases hl : look ex.2 n with
    | none => exact absurd hl hn
    | some v =>
      have hmem : (n, v) ∈ ex.2 := mem_of_look _ _ _ hl
      obtain ⟨hds, hni, hrc1⟩ := extractByVal_keys g.caps op.directInputs (deps g op) st (n, v) hmem
      have hvd : n ∈ g.valueDefs := inv.keys n (hkeytemp n v hl)
      have h1 := (rc_one_no_remaining_use g op rest st inv.rc n (isValueNode_of_valueDefs g n hvd)
        hds hrc1).1
      have hni' : n ∉ op.directInputs := by simpa using hni
      have hres : (g.defs.contains n || g.caps.contains n) = true := by
        simp [valueDefs_sub_defs g n hvd]
      have : op.capNames.count n = 1 := by
        unfold deps at h1
        rw [List.count_append, List.count_eq_zero.mpr hni', List.count_filter] at h1
        · omega
        · simp [hni', valueDefs_sub_defs g n hvd]
      have := hcount n
      omega
  · intro n hnd hneed
    have hcn : n ∈ op.capNames := hcap n (needed_free_in_capNames sub hout n hnd hneed)
    have hag := inv.agree n (needed_head g op rest n (Or.inr hcn))
    rw [← hag]
    unfold opLookup
    by_cases hg : n ∈ g.defs
    · show getInput (_ :: ex.1.env) n = _
      rw [child_sees_parent_locals g views st op.directInputs (deps g op) n hg]
      have hE : getInput st.env n = none := inv.shadowE n (defs_sub_allDefs g n hg)
      cases hv : look views n with
      | some v =>
        have := inv.disj n (by simp [hv])
        simp [this]
      | none =>
        cases ht : look st.temp n with
        | some w => rfl
        | none => simp [hE]
    · rw [houter n hg]
      have hv : look views n = none := by
        cases hl : look views n with
        | none => rfl
        | some v =>
          exfalso
          have := ctx.vkeys n (by simp [hl])
          apply hg
          simp only [Graph.defs, List.mem_append] at this ⊢
          left; exact this
      have ht : look st.temp n = none := by
        cases hl : look st.temp n with
        | none => rfl
        | some v => exact absurd (valueDefs_sub_defs g n (inv.keys n (by simp [hl]))) hg
      simp [hv, ht]

end RtenVerif.ControlFlow
