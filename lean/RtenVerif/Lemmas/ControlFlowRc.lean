import RtenVerif.Model.ControlFlow

/-!
# Reference counts of `run_plan` in the presence of subgraph operators (C24.T2)

`RcInv g rest st`: before the steps `rest`, the count of every value node equals the number of
its remaining uses — occurrences in `operator_dependencies` of the remaining steps (inputs *and*
resolved capture names of subgraphs, every occurrence) plus occurrences among the requested outputs.
-/
namespace RtenVerif.ControlFlow

variable {P V : Type}

theorem takeValue_rc (gc : List Nat) (st : St V) (n : Nat) : (takeValue gc st n).2.rc = st.rc := by
  unfold takeValue
  split
  · split
    · rfl
    · split <;> rfl
  · rfl

theorem takeValue_some_rc (gc : List Nat) (st : St V) (n : Nat) (v : V) (st' : St V)
    (h : takeValue gc st n = (some v, st')) : st.rc n = 1 := by
  unfold takeValue at h
  split at h
  · rename_i h1; simpa using h1
  · simp at h

theorem takeAll_rc (gc : List Nat) : ∀ (cs : List (Nat × Nat)) (st st' : St V) (vs : List (Nat × V)),
    takeAll gc st cs = .ok (st', vs) → st'.rc = st.rc
  | [], st, st', vs, h => by
    simp [takeAll] at h; rw [← h.1]
  | (pos, n) :: rest, st, st', vs, h => by
    unfold takeAll at h
    split at h
    · simp at h
    · rename_i v st1 htv
      split at h
      · simp at h
      · rename_i st2 vs2 hrest
        simp at h
        have h1 := takeAll_rc gc rest st1 st2 vs2 hrest
        have h2 : st1.rc = st.rc := by
          have := takeValue_rc gc st n; rw [htv] at this; exact this
        rw [← h.1, h1, h2]

theorem extractByVal_rc (gc ins : List Nat) : ∀ (ds : List Nat) (st : St V),
    (extractByVal gc ins st ds).1.rc = st.rc
  | [], st => rfl
  | n :: ns, st => by
    unfold extractByVal
    split
    · exact extractByVal_rc gc ins ns st
    · split
      · rename_i v st' htv
        have h2 : st'.rc = st.rc := by
          have := takeValue_rc gc st n; rw [htv] at this; exact this
        simp only []
        rw [extractByVal_rc gc ins ns st', h2]
      · rename_i st' htv
        have h2 : st'.rc = st.rc := by
          have := takeValue_rc gc st n; rw [htv] at this; exact this
        rw [extractByVal_rc gc ins ns st', h2]

theorem decDeps_rc : ∀ (ds : List Nat) (st : St V) (n : Nat),
    (decDeps st ds).rc n = st.rc n - ds.count n
  | [], st, n => by simp [decDeps]
  | m :: ms, st, n => by
    unfold decDeps
    split
    · rename_i h0
      have h0' : st.rc m = 0 := by simpa using h0
      rw [decDeps_rc ms st n]
      by_cases hnm : n = m
      · subst hnm; simp [h0']
      · have : (m :: ms).count n = ms.count n := by
          simp [List.count_cons, Ne.symm hnm]
        rw [this]
    · rename_i h0
      have h0' : st.rc m ≠ 0 := by simpa using h0
      simp only []
      rw [decDeps_rc ms _ n]
      by_cases hnm : n = m
      · subst hnm
        simp [List.count_cons]
        omega
      · have : (m :: ms).count n = ms.count n := by
          simp [List.count_cons, Ne.symm hnm]
        rw [this]
        simp [hnm]

theorem deps_prim (g : Graph P V) (k : P) (ins : List Nat) (out : Nat) :
    deps g (.prim k ins out) = ins := by
  simp [deps, Op.directInputs, Op.capNames]

/-- A step only changes the reference counts by decrementing every dependency of the operator
(`operator_dependencies`: inputs and resolved capture names), once per occurrence. -/
theorem stepOp_rc (S : Sem P V) (rec : Runner P V) (g : Graph P V) (views : Env V) (st st' : St V)
    (op : Op P V) (h : stepOp S rec g views st op = .ok st') (n : Nat) :
    st'.rc n = st.rc n - (deps g op).count n := by
  cases op with
  | prim k ins out =>
    rw [deps_prim]
    unfold stepOp at h
    simp only [] at h
    split at h
    · simp at h
    · rename_i st1 taken htk
      have hrc1 : st1.rc = st.rc := by
        split at htk
        · exact takeAll_rc _ _ _ _ _ htk
        · simp at htk; rw [← htk.1]
      split at h
      · simp at h
      · split at h
        · simp at h
        · simp at h
          rw [← h, decDeps_rc]
          simp [hrc1]
  | ifOp c t e outs =>
    unfold stepOp at h
    simp only [] at h
    split at h
    · simp at h
    · split at h
      · simp at h
      · split at h
        · simp at h
        · split at h
          · simp at h
          · simp at h
            rw [← h, decDeps_rc]
            simp [extractByVal_rc]
  | loop trip cond car body outs =>
    unfold stepOp at h
    simp only [] at h
    split at h
    · simp at h
    · split at h
      · simp at h
      · split at h
        · simp at h
        · split at h
          · simp at h
          · split at h
            · simp at h
            · simp at h
              rw [← h, decDeps_rc]
              simp [extractByVal_rc]

/-- Remaining uses of `n`: dependencies of the remaining steps (for value nodes) + outputs. -/
def remaining (g : Graph P V) (rest : List (Op P V)) (n : Nat) : Nat :=
  (if isValueNode g n then (rest.flatMap (deps g)).count n else 0) + g.outputs.count n

/-- The refcount invariant (C02.T1 extended with captures). -/
def RcInv (g : Graph P V) (rest : List (Op P V)) (st : St V) : Prop :=
  ∀ n, isValueNode g n = true → st.rc n = remaining g rest n

theorem rcInv_init (g : Graph P V) (temp : Env V) (env : List (Frame V)) :
    RcInv g g.ops { temp := temp, rc := rcInit g, env := env } := by
  intro n hn
  simp [rcInit, remaining, hn]

theorem rcInv_step (S : Sem P V) (rec : Runner P V) (g : Graph P V) (views : Env V)
    (st st' : St V) (op : Op P V) (rest : List (Op P V))
    (hinv : RcInv g (op :: rest) st) (h : stepOp S rec g views st op = .ok st') :
    RcInv g rest st' := by
  intro n hn
  rw [stepOp_rc S rec g views st st' op h n, hinv n hn]
  simp [remaining, hn, List.flatMap_cons, List.count_append]
  omega

theorem rcInv_steps (S : Sem P V) (rec : Runner P V) (g : Graph P V) (views : Env V) :
    ∀ (ops rest : List (Op P V)) (st st' : St V), RcInv g (ops ++ rest) st →
      stepOps S rec g views st ops = .ok st' → RcInv g rest st'
  | [], rest, st, st', hinv, h => by
    simp [stepOps] at h; rw [← h]; simpa using hinv
  | op :: ops, rest, st, st', hinv, h => by
    unfold stepOps at h
    split at h
    · simp at h
    · rename_i st1 h1
      exact rcInv_steps S rec g views ops rest st1 st'
        (rcInv_step S rec g views st st1 op (ops ++ rest) (by simpa using hinv) h1) h

end RtenVerif.ControlFlow
