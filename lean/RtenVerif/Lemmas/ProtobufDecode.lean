import RtenVerif.Lemmas.Protobuf

/-! C38 lemmas, part 2: packed iterators, field consumption and the fuel induction for
`decodeFields`. -/
namespace RtenVerif.Protobuf

/-- Result specification for "consume a field whose sub-reader is `(p, fend)`". -/
def PosSpec {α : Type} (r : Except Err (α × UInt64)) (p fend : UInt64) : Prop :=
  (∀ v p2, r = .ok (v, p2) → p.toNat ≤ p2.toNat ∧ p2.toNat ≤ fend.toNat) ∧
  (∀ e, r = .error e → e.real)

theorem PosSpec_ok {α : Type} {v : α} {p q fend : UInt64} (h1 : p.toNat ≤ q.toNat)
    (h2 : q.toNat ≤ fend.toNat) : PosSpec (.ok (v, q)) p fend :=
  ⟨by intro v' p2 h; cases h; exact ⟨h1, h2⟩, by intro e h; cases h⟩

theorem PosSpec_err {α : Type} {e : Err} {p fend : UInt64} (h : e.real) :
    PosSpec (α := α) (.error e) p fend :=
  ⟨fun v' p2 h' => (by cases h'), fun e' h' => (by cases h'; exact h)⟩

section
variable {d : Bytes} (hsz : d.size < UInt64.size)
include hsz

theorem packedVarints_spec (conv : UInt64 → UInt64) {end_ : UInt64} (hes : end_.toNat ≤ d.size) :
    ∀ (k : Nat) (pos : UInt64) (acc : List UInt64), pos.toNat ≤ end_.toNat →
      end_.toNat - pos.toNat < k → PosSpec (packedVarints d conv k pos end_ acc) pos end_ := by
  intro k
  induction k with
  | zero => intro pos acc _ h; omega
  | succ k ih =>
    intro pos acc hpe hk
    unfold packedVarints
    split
    · rename_i v p hv
      have := lrReadVarint_ok hsz hpe hes hv
      have ih' := ih p (conv v :: acc) (by omega) (by omega)
      exact ⟨fun v' p2 h => by have := ih'.1 v' p2 h; omega, ih'.2⟩
    · rename_i p hv
      have := lrReadVarint_eof hsz hpe hes hv
      exact PosSpec_ok (by omega) (by omega)
    · exact PosSpec_err real_invalidVarint

theorem packedFixed_spec {n : UInt64} (hn : 0 < n.toNat) {end_ : UInt64} (hes : end_.toNat ≤ d.size) :
    ∀ (k : Nat) (pos : UInt64) (acc : List UInt64), pos.toNat ≤ end_.toNat →
      end_.toNat - pos.toNat < k → PosSpec (packedFixed d n k pos end_ acc) pos end_ := by
  intro k
  induction k with
  | zero => intro pos acc _ h; omega
  | succ k ih =>
    intro pos acc hpe hk
    unfold packedFixed
    split
    · rename_i p hv
      have := (lrReadFixed_spec hsz hpe hes n).ok _ hv
      have ih' := ih p (leBytes d pos.toNat n.toNat :: acc) (by omega) (by omega)
      exact ⟨fun v' p2 h => by have := ih'.1 v' p2 h; omega, ih'.2⟩
    · exact PosSpec_ok (Nat.le_refl _) hpe
    · rename_i e hne hv
      exact PosSpec_err ((lrReadFixed_spec hsz hpe hes n).err _ hv)

variable {p fend : UInt64} (hpf : p.toNat ≤ fend.toNat) (hfs : fend.toNat ≤ d.size)
include hpf hfs

theorem consumeBlob_spec (utf8 : Bool) (l : UInt64) : PosSpec (consumeBlob d utf8 p fend l) p fend := by
  unfold consumeBlob
  split
  · rename_i p2 hv
    have := (lrReadBytes_spec hsz hpf hfs l).ok _ hv
    split
    · exact PosSpec_ok (by omega) (by omega)
    · exact PosSpec_err real_invalidUtf8
  · rename_i e hv
    exact PosSpec_err ((lrReadBytes_spec hsz hpf hfs l).err _ hv)

/-- Allocation bound (T3): a blob of declared length `l` is only produced (and its buffer only
allocated) when `l` bytes are available inside the field, hence in the input. -/
theorem consumeBlob_alloc {utf8 : Bool} {l : UInt64} {v : Option Val} {p2 : UInt64}
    (h : consumeBlob d utf8 p fend l = .ok (v, p2)) :
    p2.toNat = p.toNat + l.toNat ∧ p.toNat + l.toNat ≤ fend.toNat := by
  unfold consumeBlob at h
  split at h
  · rename_i q hv
    have := (lrReadBytes_spec hsz hpf hfs l).ok _ hv
    split at h
    · cases h; omega
    · cases h
  · cases h

theorem consumePacked_spec {loop : UInt64 → UInt64 → Except Err (List UInt64 × UInt64)} (l : UInt64)
    (hloop : ∀ e2 : UInt64, p.toNat ≤ e2.toNat → e2.toNat ≤ fend.toNat → PosSpec (loop p e2) p e2) :
    PosSpec (consumePacked loop p fend l) p fend := by
  unfold consumePacked
  split
  · rename_i e2 hs
    have := (lrSub_spec hsz hpf hfs l).ok _ hs
    have hl := hloop e2 (by omega) (by omega)
    split
    · rename_i xs p2 hv
      have := hl.1 _ _ hv
      exact PosSpec_ok (by omega) (by omega)
    · rename_i e hv
      exact PosSpec_err (hl.2 _ hv)
  · rename_i e hs
    exact PosSpec_err ((lrSub_spec hsz hpf hfs l).err _ hs)

theorem consumeSkip_spec (v : Option Val) (fv : FieldValue) :
    PosSpec (consumeSkip d v fv p fend) p fend := by
  unfold consumeSkip skipField
  split
  · rename_i p2 hv
    split at hv
    · rename_i l
      have := (lrSkip_spec hsz hpf hfs l).ok _ hv
      exact PosSpec_ok (by omega) (by omega)
    · cases hv
      exact PosSpec_ok (Nat.le_refl _) hpf
  · rename_i e hv
    split at hv
    · rename_i l
      exact PosSpec_err ((lrSkip_spec hsz hpf hfs l).err _ hv)
    · cases hv

theorem consumeField_spec (fuel : Nat) (hfuel : fend.toNat - p.toNat < fuel) (k : Kind) (fv : FieldValue) :
    PosSpec (consumeField d fuel k fv p fend) p fend := by
  have hself : ∀ v : Option Val, PosSpec (.ok (v, p)) p fend :=
    fun v => PosSpec_ok (Nat.le_refl _) hpf
  have htm : PosSpec (α := Option Val) (.error .typeMismatch) p fend := PosSpec_err real_typeMismatch
  have hpv : ∀ conv l, PosSpec (consumePacked (fun a b => packedVarints d conv fuel a b []) p fend l) p fend :=
    fun conv l => consumePacked_spec hsz hpf hfs l
      (fun e2 h1 h2 => packedVarints_spec hsz conv (by omega) fuel p [] h1 (by omega))
  have h4 : (0 : Nat) < (4 : UInt64).toNat := by decide
  have h8 : (0 : Nat) < (8 : UInt64).toNat := by decide
  have hpf4 : ∀ l, PosSpec (consumePacked (fun a b => packedFixed d 4 fuel a b []) p fend l) p fend :=
    fun l => consumePacked_spec hsz hpf hfs l
      (fun e2 h1 h2 => packedFixed_spec hsz h4 (by omega) fuel p [] h1 (by omega))
  have hpf8 : ∀ l, PosSpec (consumePacked (fun a b => packedFixed d 8 fuel a b []) p fend l) p fend :=
    fun l => consumePacked_spec hsz hpf hfs l
      (fun e2 h1 h2 => packedFixed_spec hsz h8 (by omega) fuel p [] h1 (by omega))
  cases k <;> cases fv <;> simp only [consumeField] <;>
    first
      | exact hself _
      | exact htm
      | exact consumeBlob_spec hsz hpf hfs _ _
      | exact hpv _ _
      | exact hpf4 _
      | exact hpf8 _
      | exact consumeSkip_spec hsz hpf hfs _ _

end

end RtenVerif.Protobuf
