import RtenVerif.Lemmas.TensorBoundsOwned

/-! C06: inserting / erasing / moving one dimension of a layout (`insert_axis`, `remove_axis`,
`move_axis`): valid indices and offsets of the edited layout in terms of the original. -/
namespace RtenVerif.TensorBounds
open RtenVerif.Overlap

theorem insertAt_zero {α : Type} (l : List α) (a : α) : insertAt l 0 a = a :: l := by
  cases l <;> rfl

theorem insertAt_eraseIdx {α : Type} : ∀ (ds : List α) (i : Nat) (d0 : α), i < ds.length →
    insertAt (ds.eraseIdx i) i (ds.getD i d0) = ds := by
  intro ds
  induction ds with
  | nil => intro i d0 h; simp at h
  | cons x xs ih =>
    intro i d0 h
    cases i with
    | zero => simp [insertAt]
    | succ a =>
      simp only [List.length_cons, Nat.add_lt_add_iff_right] at h
      simp only [List.eraseIdx_cons_succ, List.getD_cons_succ, insertAt, ih a d0 h]

theorem length_eraseIdx_lt {α : Type} (ds : List α) (i : Nat) (h : i < ds.length) :
    (ds.eraseIdx i).length + 1 = ds.length := by
  rw [List.length_eraseIdx_of_lt h]; omega

/-- Putting a dimension `(sz, st)` at position `i`: indices of the new layout from indices of
the old one. -/
theorem valid_insertAt : ∀ (ds : List (Nat × Nat)) (i : Nat) (js : List Nat) (k sz st : Nat),
    i ≤ ds.length → ValidIdx ds js → k < sz →
    ValidIdx (insertAt ds i (sz, st)) (insertAt js i k) ∧
    offset (insertAt ds i (sz, st)) (insertAt js i k) = k * st + offset ds js := by
  intro ds
  induction ds with
  | nil =>
    intro i js k sz st hi hv hk
    cases hv
    have : i = 0 := by simpa using hi
    subst this
    exact ⟨.cons hk .nil, by simp [insertAt, offset]⟩
  | cons d ds ih =>
    obtain ⟨size, stride⟩ := d
    intro i js k sz st hi hv hk
    cases i with
    | zero =>
      rw [insertAt_zero, insertAt_zero]
      exact ⟨.cons hk hv, by simp [offset]⟩
    | succ a =>
      simp only [List.length_cons, Nat.add_le_add_iff_right] at hi
      cases hv with
      | @cons _ _ j0 _ js' h1 h2 =>
        obtain ⟨v, o⟩ := ih a js' k sz st hi h2 hk
        refine ⟨.cons h1 v, ?_⟩
        simp only [insertAt, offset, o]
        omega

/-- …and back: every index of the new layout arises that way. -/
theorem valid_insertAt_inv : ∀ (ds : List (Nat × Nat)) (i : Nat) (j : List Nat) (sz st : Nat),
    i ≤ ds.length → ValidIdx (insertAt ds i (sz, st)) j →
    ∃ k js, j = insertAt js i k ∧ k < sz ∧ ValidIdx ds js ∧
      offset (insertAt ds i (sz, st)) j = k * st + offset ds js := by
  intro ds
  induction ds with
  | nil =>
    intro i j sz st hi hv
    have : i = 0 := by simpa using hi
    subst this
    simp only [insertAt] at hv
    cases hv with
    | @cons _ _ j0 _ js h1 h2 =>
      cases h2
      exact ⟨j0, [], rfl, h1, .nil, by simp [insertAt, offset]⟩
  | cons d ds ih =>
    obtain ⟨size, stride⟩ := d
    intro i j sz st hi hv
    cases i with
    | zero =>
      simp only [insertAt] at hv
      cases hv with
      | @cons _ _ j0 _ js h1 h2 =>
        exact ⟨j0, js, (insertAt_zero js j0).symm, h1, h2, by simp [insertAt, offset]⟩
    | succ a =>
      simp only [List.length_cons, Nat.add_le_add_iff_right] at hi
      simp only [insertAt] at hv
      cases hv with
      | @cons _ _ j0 _ js h1 h2 =>
        obtain ⟨k, js', rfl, hk, v, o⟩ := ih a js sz st hi h2
        refine ⟨k, j0 :: js', rfl, hk, .cons h1 v, ?_⟩
        simp only [insertAt, offset, o]
        omega

theorem insertAt_inj2 {α : Type} : ∀ (a b : List α) (i : Nat) (x y : α), a.length = b.length →
    insertAt a i x = insertAt b i y → a = b ∧ x = y := by
  intro a
  induction a with
  | nil =>
    intro b i x y hl h
    have : b = [] := by cases b with | nil => rfl | cons _ _ => simp at hl
    subst this
    cases i <;> simp only [insertAt, List.cons.injEq, and_true] at h <;> exact ⟨rfl, h⟩
  | cons p ps ih =>
    intro b i x y hl h
    cases b with
    | nil => simp at hl
    | cons q qs =>
      simp only [List.length_cons, Nat.add_right_cancel_iff] at hl
      cases i with
      | zero =>
        simp only [insertAt, List.cons.injEq] at h
        exact ⟨by rw [h.2.1, h.2.2], h.1⟩
      | succ n =>
        simp only [insertAt, List.cons.injEq] at h
        obtain ⟨hab, hxy⟩ := ih qs n x y hl h.2
        exact ⟨by rw [h.1, hab], hxy⟩

theorem prodNZ_insertAt : ∀ (ds : List (Nat × Nat)) (i : Nat) (d : Nat × Nat),
    prodNZ (shapeOf (insertAt ds i d)) = prodNZ [d.1] * prodNZ (shapeOf ds) := by
  intro ds
  induction ds with
  | nil =>
    intro i d
    cases i <;> simp [insertAt, shapeOf, prodNZ]
  | cons x xs ih =>
    intro i d
    cases i with
    | zero => simp only [insertAt, shapeOf, List.map_cons, prodNZ]; split <;> simp
    | succ a =>
      have := ih a d
      simp only [insertAt, shapeOf, List.map_cons, prodNZ] at *
      split
      · exact this
      · rw [this]
        split <;> simp [Nat.mul_left_comm]

theorem maxOffset_insertAt : ∀ (ds : List (Nat × Nat)) (i : Nat) (d : Nat × Nat),
    maxOffset (insertAt ds i d) = (d.1 - 1) * d.2 + maxOffset ds := by
  intro ds
  induction ds with
  | nil => intro i d; obtain ⟨a, b⟩ := d; cases i <;> simp [insertAt, maxOffset]
  | cons x xs ih =>
    intro i d
    obtain ⟨a, b⟩ := d
    obtain ⟨s, t⟩ := x
    cases i with
    | zero => simp [insertAt, maxOffset]
    | succ n =>
      have := ih n (a, b)
      simp only [insertAt, maxOffset] at *
      omega

/-! ### Reversing the dimension order (`transposed`, `transpose`) -/

theorem valid_append : ∀ (a b : List (Nat × Nat)) (x y : List Nat), ValidIdx a x → ValidIdx b y →
    ValidIdx (a ++ b) (x ++ y) ∧ offset (a ++ b) (x ++ y) = offset a x + offset b y := by
  intro a b x y hx hy
  induction hx with
  | nil => exact ⟨hy, by simp [offset]⟩
  | @cons size stride i ds is hlt _ ih =>
    obtain ⟨v, o⟩ := ih
    exact ⟨.cons hlt v, by simp only [List.cons_append, offset, o]; omega⟩

theorem valid_reverse {d : List (Nat × Nat)} {j : List Nat} (h : ValidIdx d j) :
    ValidIdx d.reverse j.reverse ∧ offset d.reverse j.reverse = offset d j := by
  induction h with
  | nil => exact ⟨.nil, rfl⟩
  | @cons size stride i ds is hlt _ ih =>
    obtain ⟨v, o⟩ := ih
    have h1 : ValidIdx [(size, stride)] [i] := .cons hlt .nil
    obtain ⟨v', o'⟩ := valid_append _ _ _ _ v h1
    simp only [List.reverse_cons]
    exact ⟨v', by rw [o', o]; simp only [offset]; omega⟩

/-- A view whose last addressed element lies below `B` ends below `B`. -/
theorem stop_le_of_bounded {dimsV : List (Nat × Nat)} {start B : Nat}
    (h : ∀ j, ValidIdx dimsV j → start + offset dimsV j < B) (hz : hasZero dimsV = false) :
    start + minDataLen dimsV ≤ B := by
  obtain ⟨v, o⟩ := valid_last dimsV hz
  have := h _ v
  unfold minDataLen
  rw [hz]
  simp only [Bool.false_eq_true, if_false]
  omega

end RtenVerif.TensorBounds
