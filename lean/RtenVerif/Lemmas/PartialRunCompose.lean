import RtenVerif.Lemmas.PartialRunPlan
import RtenVerif.Lemmas.PartialRunExec
/-!
# Composition: `run (partial_run S ∪ rest) = run (S ∪ rest)` (values), and the values of the
returned leaves
-/
namespace RtenVerif.PartialRun
open RtenVerif.Graph RtenVerif.Planner

section
variable {V : Type}

theorem mem_keys_of_lookup {l : List (Nat × V)} {k : Nat} {v : V} (h : l.lookup k = some v) :
    k ∈ l.map (fun p => p.1) :=
  List.mem_map.mpr ⟨(k, v), lookup_mem h, rfl⟩

theorem lookup_none_of_not_mem_keys {l : List (Nat × V)} {k : Nat}
    (h : k ∉ l.map (fun p => p.1)) : l.lookup k = none :=
  lookup_none_of_not_key (fun v hm => h (List.mem_map.mpr ⟨(k, v), hm, rfl⟩))

theorem lookup_isSome_of_mem_keys {l : List (Nat × V)} {k : Nat}
    (h : k ∈ l.map (fun p => p.1)) : ∃ v, l.lookup k = some v := by
  induction l with
  | nil => simp at h
  | cons a l ih =>
    obtain ⟨k', v'⟩ := a
    simp only [List.lookup_cons]
    cases hkk : (k == k') with
    | true => exact ⟨v', rfl⟩
    | false =>
      simp only [List.map_cons, List.mem_cons] at h
      rcases h with h | h
      · exact absurd (by simpa using h) (by simpa using hkk)
      · exact ih h

theorem keys_zip {ks : List Nat} {vs : List V} (h : vs.length = ks.length) :
    (ks.zip vs).map (fun p => p.1) = ks := by
  induction ks generalizing vs with
  | nil => simp
  | cons k ks ih =>
    cases vs with
    | nil => simp at h
    | cons v vs =>
      simp only [List.zip_cons_cons, List.map_cons, List.cons.injEq, true_and]
      exact ih (by simpa using h)

end

section
variable {Ω V : Type}

/-- Operators flagged deterministic do not look at the oracle. -/
def DetSem (g : Graph) (sem : Sem Ω V) : Prop :=
  ∀ p op, getOp g p = some op → op.deterministic = true →
    ∀ (ω ω' : Ω) (args : List V), sem ω p args = sem ω' p args

/-- The request: `S` is supplied to `partial_run`, `rest` are the remaining inputs, which are
true graph inputs (no operator produces them).  (`S ++ rest` gives priority to `S`.) -/
structure Setup (g : Graph) (S rest : List (Nat × V)) : Prop where
  up : UniqueProducer g
  restNoSource : ∀ id v, rest.lookup id = some v → getSource g id = none

/-- Executable check of `UniqueProducer`. -/
def uniqueProducerB (g : Graph) : Bool :=
  (List.range g.nodes.length).all (fun p =>
    match getOp g p with
    | some op => (opOutputs op).all (fun v => sourceOf g v == some p)
    | none => true)

theorem uniqueProducer_of_check {g : Graph} (h : uniqueProducerB g = true) : UniqueProducer g := by
  intro p op v hop hv
  unfold uniqueProducerB at h
  rw [List.all_eq_true] at h
  have := h p (List.mem_range.mpr (getOp_lt hop))
  simp only [hop, List.all_eq_true] at this
  simpa using this v hv

theorem setup_of_check {g : Graph} {S rest : List (Nat × V)} (h1 : uniqueProducerB g = true)
    (h2 : rest.all (fun p => (getSource g p.1).isNone) = true) : Setup g S rest := by
  refine ⟨uniqueProducer_of_check h1, ?_⟩
  intro id v hl
  rw [List.all_eq_true] at h2
  have := h2 (id, v) (lookup_mem hl)
  cases hs : getSource g id with
  | none => rfl
  | some x => simp [hs] at this

variable {g : Graph} {sem : Sem Ω V} {cv : Nat → V} {S rest : List (Nat × V)}

theorem Setup.rest_fresh (hs : Setup g S rest) {q o : Nat} (ho : o ∈ outsOf g q) :
    rest.lookup o = none := by
  cases hl : rest.lookup o with
  | none => rfl
  | some v =>
    obtain ⟨qop, _, hsrc⟩ := source_of_outsOf hs.up ho
    rw [hs.restNoSource o v hl] at hsrc
    cases hsrc

/-- Unfolding of `partialRun` without owned inputs. -/
theorem partialRun_ok {ω : Ω} {outs : List Nat} {leaves : List (Nat × V)}
    (h : partialRun g sem ω cv S [] outs = .ok leaves) :
    ∃ plan vals, createPlan g (S.map (fun p => p.1)) outs partialOpts = .ok plan ∧
      runPlan g sem ω cv S [] (pruneFold g plan (S.map (fun p => p.1))).kept
        (newOutputs (pruneFold g plan (S.map (fun p => p.1))) outs) = .ok vals ∧
      leaves = (newOutputs (pruneFold g plan (S.map (fun p => p.1))) outs).zip vals := by
  unfold partialRun at h
  simp only [List.append_nil] at h
  cases hpp : partialPlan g (S.map (fun p => p.1)) outs with
  | error e => simp [hpp] at h
  | ok pr =>
    obtain ⟨kept, newOuts⟩ := pr
    obtain ⟨plan, hc, hk, hn⟩ := partialPlan_ok hpp
    simp only [hpp] at h
    cases hr : runPlan g sem ω cv S [] kept newOuts with
    | error e => simp [hr] at h
    | ok vals =>
      simp only [hr] at h
      injection h with h
      subst hk; subst hn
      exact ⟨plan, vals, hc, hr, h.symm⟩

/-- The executed (kept) operators are tied to the naive evaluation on any completion. -/
theorem tie_kept (hs : Setup g S rest) (hdet : DetSem g sem) (ω ω' : Ω) (plan : List Nat) :
    Tie g sem ω ω' S (S ++ rest) (pruneFold g plan (S.map (fun p => p.1))).kept := by
  refine ⟨hs.up, ?_, ?_, ?_⟩
  · intro id v h
    rw [lookup_append', h]
  · intro p _ o ho hl
    rw [lookup_append', hl]
    exact hs.rest_fresh ho
  · intro p hp args
    obtain ⟨_, op, hop, hd⟩ := kept_spec g plan _ p hp
    exact hdet p op hop hd ω ω' args

/-- **T1** every `(id, value)` returned by `partial_run S` is the naive evaluation's value of
`id` on any completion `S ++ rest` of the inputs, for any oracle. -/
theorem leaf_values (hs : Setup g S rest) (hdet : DetSem g sem) {ω : Ω} {outs : List Nat}
    {leaves : List (Nat × V)} (h : partialRun g sem ω cv S [] outs = .ok leaves) (ω' : Ω) :
    ∀ pr ∈ leaves, Den g sem ω' cv (S ++ rest) pr.1 pr.2 := by
  obtain ⟨plan, vals, _, hr, rfl⟩ := partialRun_ok h
  exact (runPlan_sound (tie_kept hs hdet ω ω' plan) hr).2

/-- Soundness of `run` (no owned inputs). -/
theorem run_sound (hu : UniqueProducer g) {ω : Ω} {W : List (Nat × V)} {outs : List Nat}
    {vals : List V} (h : run g sem ω cv W [] outs = .ok vals) :
    vals.length = outs.length ∧ ∀ pr ∈ outs.zip vals, Den g sem ω cv W pr.1 pr.2 := by
  unfold run at h
  simp only [List.append_nil] at h
  cases hc : createPlan g (W.map (fun p => p.1)) outs runOpts with
  | error e => simp [hc] at h
  | ok plan =>
    simp only [hc] at h
    exact runPlan_sound (plan := plan)
      ⟨hu, fun _ _ h => h, fun _ _ _ _ h => h, fun _ _ _ => rfl⟩ h

/-- **Separation / cut**: on a demanded id, the naive evaluation with all inputs agrees with the
naive evaluation on the returned leaves plus the remaining inputs. -/
theorem cut (hs : Setup g S rest) (hdet : DetSem g sem) {ω : Ω} {outs : List Nat}
    {leaves : List (Nat × V)} (hp : partialRun g sem ω cv S [] outs = .ok leaves)
    {plan : List Nat} (hc : createPlan g (S.map (fun p => p.1)) outs partialOpts = .ok plan) :
    ∀ (f id : Nat) (v : V), evalAt g sem ω cv (S ++ rest) f id = some v →
      Demanded g plan (S.map (fun p => p.1)) outs id →
      Den g sem ω cv (leaves ++ rest) id v := by
  obtain ⟨plan', vals, hc', hr, hleaves⟩ := partialRun_ok hp
  rw [hc] at hc'
  injection hc' with hc'
  subst hc'
  have hok : PlanOK g true (S.map (fun p => p.1)) outs plan := by
    have := c03_plan_ok (argsOK_of_createPlan_ok hc) hc
    simpa [partialOpts, resolvedNew] using this
  have hlen := (runPlan_sound (tie_kept hs hdet ω ω plan) hr).1
  have hkeys : leaves.map (fun p => p.1) =
      newOutputs (pruneFold g plan (S.map (fun p => p.1))) outs := by
    rw [hleaves]; exact keys_zip hlen
  have hT1 := leaf_values hs hdet hp ω
  intro f
  induction f with
  | zero => intro id v h; simp [evalAt] at h
  | succ f ih =>
    intro id v h hdem
    have hden : Den g sem ω cv (S ++ rest) id v := ⟨f + 1, h⟩
    rw [evalAt] at h
    cases hn : getNode g id with
    | none => simp [hn] at h
    | some n =>
      cases n with
      | operator op => simp [hn] at h
      | constant =>
        simp only [hn] at h
        injection h with h
        subst h
        exact den_const g sem ω cv _ (by simp [isConstant, hn])
      | value =>
        have hconst : isConstant g id = false := by simp [isConstant, hn]
        -- a returned id: its leaf value is the naive value
        have leaf_case : id ∈ newOutputs (pruneFold g plan (S.map (fun p => p.1))) outs →
            Den g sem ω cv (leaves ++ rest) id v := by
          intro hmem
          rw [← hkeys] at hmem
          obtain ⟨w, hw⟩ := lookup_isSome_of_mem_keys hmem
          have hwv : w = v := (hT1 (id, w) (lookup_mem hw)).unique g sem ω cv _ hden
          subst hwv
          exact den_view g sem ω cv _ hn (by rw [lookup_append', hw])
        simp only [hn] at h
        cases hl : (S ++ rest).lookup id with
        | some w =>
          simp only [hl] at h
          injection h with h
          subst h
          rw [lookup_append'] at hl
          cases hS : S.lookup id with
          | some w' =>
            exact leaf_case (demanded_supplied_returned hdem (mem_keys_of_lookup hS) hconst)
          | none =>
            simp only [hS] at hl
            -- a remaining input: not among the leaves
            have hnl : leaves.lookup id = none := by
              apply lookup_none_of_not_mem_keys
              rw [hkeys]
              intro hmem
              rcases cand_spec g plan _ id (mem_newOutputs.mp hmem).1 with hin | ⟨k, _, hk⟩
              · obtain ⟨w', hw'⟩ := lookup_isSome_of_mem_keys hin
                rw [hS] at hw'; cases hw'
              · rw [hs.rest_fresh hk] at hl; cases hl
            exact den_view g sem ω cv _ hn (by rw [lookup_append', hnl]; exact hl)
        | none =>
          simp only [hl] at h
          by_cases hmem : id ∈ newOutputs (pruneFold g plan (S.map (fun p => p.1))) outs
          · exact leaf_case hmem
          · cases hsrc : getSource g id with
            | none => simp [hsrc] at h
            | some pr =>
              obtain ⟨p, op⟩ := pr
              simp only [hsrc] at h
              rw [lookup_append'] at hl
              have hS : S.lookup id = none := by
                cases hS : S.lookup id with
                | none => rfl
                | some w => simp [hS] at hl
              have hrest : rest.lookup id = none := by simpa [hS] using hl
              have hin : id ∉ S.map (fun p => p.1) := by
                intro hin
                obtain ⟨w, hw⟩ := lookup_isSome_of_mem_keys hin
                rw [hS] at hw; cases hw
              obtain ⟨pre, post, hsplit, hpop, hpr⟩ :=
                demanded_source_pruned hs.up hok hdem hin hconst hsrc hmem
              cases hg : gather (evalAt g sem ω cv (S ++ rest) f) (opDeps g op) with
              | none => simp [hg] at h
              | some args =>
                simp only [hg] at h
                cases hsem : sem ω p args with
                | none => simp [hsem] at h
                | some outs' =>
                  simp only [hsem] at h
                  by_cases hlen' : outs'.length < op.outputs.length
                  · simp [hlen'] at h
                  · simp only [hlen', if_false] at h
                    obtain ⟨F, hF⟩ := gather_den g sem ω cv (leaves ++ rest) (opDeps g op) args
                      (fun d hd w hw => ih d w hw
                        (Or.inr ⟨pre, p, post, op, hsplit, hpop, hpr, hd⟩)) hg
                    have hnl : (leaves ++ rest).lookup id = none := by
                      rw [lookup_append', lookup_none_of_not_mem_keys (by rw [hkeys]; exact hmem)]
                      exact hrest
                    exact den_op g sem ω cv _ hn hnl hsrc hF hsem hlen' h

/-- Pointwise equal lists. -/
theorem list_eq_of_zip {outs : List Nat} {a b : List V} (ha : a.length = outs.length)
    (hb : b.length = outs.length)
    (h : ∀ (i : Nat) (hi : i < outs.length), a[i]'(by omega) = b[i]'(by omega)) : a = b := by
  apply List.ext_getElem (by omega)
  intro i h1 h2
  exact h i (by omega)

/-- **T2 (values)** if the single run with all inputs and the composed run both finish, they
return the same outputs. -/
theorem compose_values (hs : Setup g S rest) (hdet : DetSem g sem) {ω : Ω} {outs : List Nat}
    {leaves : List (Nat × V)} {valsF valsP : List V}
    (hp : partialRun g sem ω cv S [] outs = .ok leaves)
    (hfull : run g sem ω cv (S ++ rest) [] outs = .ok valsF)
    (hfin : run g sem ω cv (leaves ++ rest) [] outs = .ok valsP) : valsF = valsP := by
  obtain ⟨plan, _, hc, _, _⟩ := partialRun_ok hp
  obtain ⟨lF, dF⟩ := run_sound hs.up hfull
  obtain ⟨lP, dP⟩ := run_sound hs.up hfin
  apply list_eq_of_zip lF lP
  intro i hi
  have m1 : (outs[i], valsF[i]'(by omega)) ∈ outs.zip valsF :=
    List.mem_iff_getElem.mpr ⟨i, by simp; omega, by simp⟩
  have m2 : (outs[i], valsP[i]'(by omega)) ∈ outs.zip valsP :=
    List.mem_iff_getElem.mpr ⟨i, by simp; omega, by simp⟩
  obtain ⟨f, hf⟩ := dF _ m1
  have := cut hs hdet hp hc f _ _ hf (Or.inl (List.getElem_mem _))
  exact this.unique g sem ω cv _ (dP _ m2)

end

end RtenVerif.PartialRun
