import RtenVerif.Lemmas.OnnxRefBroadcast
/-! `Where` with a constant (scalar) condition selects one broadcast operand. -/
namespace RtenVerif.OnnxRef

theorem bshape_nil_left (s : List Nat) : bshape [] s = some s := by
  simp [bshape, bshapeRev]

theorem scalar_get (v : Int) (idx : List Nat) : (scalar v).get (bidx (scalar v).shape idx) = v := by
  simp [scalar, Tensor.get, bidx, ravel]

/-- `Where(c, X, Y)` with a scalar condition is the broadcasting binary operator that returns its
first argument when `c` is true and its second when `c` is false (same shape, same failure). -/
theorem whereOp_scalar (v : Int) (x y : Tensor) :
    whereOp (scalar v) x y = binop (fun a b => if v ≠ 0 then a else b) x y := by
  unfold whereOp binop bshapeR
  have h : (scalar v).shape = [] := rfl
  rw [h, bshape_nil_left]
  have hg : ∀ idx, (scalar v).get (bidx [] idx) = v := by
    intro idx; have := scalar_get v idx; rwa [h] at this
  simp only [hg, pure_bind]

end RtenVerif.OnnxRef
