import RtenVerif.Model.ControlFlowSpec

/-!
# `loopCore` (the model of `Loop::run_subgraph`) = `loopSpec` (ONNX text), `evalG = evalGSpec`
-/
namespace RtenVerif.ControlFlow

variable {P V : Type}

theorem specFold_error (S : Sem P V) (body : Nat → List V → Except Err (List V)) (k : Nat) (e : Err) :
    ∀ (l : List Nat), l.foldl (specIter S body k) (.error e) = .error e
  | [] => rfl
  | _ :: l => by simp only [List.foldl_cons, specIter]; exact specFold_error S body k e l

theorem specFold_stopped (S : Sem P V) (body : Nat → List V → Except Err (List V)) (k : Nat)
    (st : LoopSt V) (h : st.keepGoing = 0) :
    ∀ (l : List Nat), l.foldl (specIter S body k) (.ok st) = .ok st
  | [] => rfl
  | _ :: l => by
    simp only [List.foldl_cons, specIter, h, if_true]
    exact specFold_stopped S body k st h l

/-- The countdown recursion of the model visits the iteration numbers `i, i+1, …, i+rem-1`. -/
theorem loopIter_eq_fold (S : Sem P V) (run : Nat → List V → Except Err (List V)) (k : Nat) :
    ∀ (rem i : Nat) (c : Int) (cs : List V) (sc : List (List V)),
      loopIter S run k rem i c cs sc =
        match (List.range' i rem).foldl (specIter S run k)
            (.ok { keepGoing := c, carried := cs, scans := sc }) with
        | .error e => .error e
        | .ok st => .ok (st.carried, st.scans)
  | 0, _, _, _, _ => rfl
  | rem + 1, i, c, cs, sc => by
    simp only [loopIter, List.range'_succ, List.foldl_cons]
    by_cases hc : c = 0
    · simp only [hc, if_true, specIter]
      rw [specFold_stopped S run k _ rfl]
    · simp only [hc, if_false, specIter]
      cases hr : run i (S.ofInt i :: S.ofInt c :: cs) with
      | error e => simp only [specFold_error]
      | ok r =>
        cases r with
        | nil => simp only [specFold_error]
        | cons co rest =>
          simp only []
          cases hi : S.item co with
          | none => simp only [specFold_error]
          | some c' =>
            simp only []
            exact loopIter_eq_fold S run k rem (i + 1) c' (rest.take k) (pushScans sc (rest.drop k))

theorem finishScans_eq_spec (S : Sem P V) (onnx : Bool) : ∀ (scans : List (List V)),
    finishScans S onnx scans = specScanOutputs S onnx scans
  | [] => rfl
  | sc :: rest => by
    have ih := finishScans_eq_spec S onnx rest
    unfold specScanOutputs at ih ⊢
    simp only [finishScans, List.foldr_cons, ih]
    cases List.foldr _ _ rest with
    | error e => rfl
    | ok vs =>
      cases sc with
      | nil => simp
      | cons x xs =>
        simp
        cases S.stack (x :: xs) <;> rfl

/-- **The model of `Loop::run_subgraph` computes the ONNX `Loop`.** -/
theorem loopCore_eq_loopSpec (S : Sem P V) (onnx : Bool) (run : Nat → List V → Except Err (List V))
    (bodyIn bodyOut : Nat) (tripV condV : Option V) (cs : List V) :
    loopCore S onnx run bodyIn bodyOut tripV condV cs =
      loopSpec S onnx run bodyIn bodyOut tripV condV cs := by
  unfold loopCore loopSpec
  have htrip : specTripBound S tripV = (tripOf S tripV).map Int.toNat := by
    cases tripV with
    | none => rfl
    | some v => rfl
  have hcond : specKeepGoing S condV = condOf S condV := by
    cases condV <;> rfl
  rw [htrip, hcond]
  cases ht : tripOf S tripV with
  | none => rfl
  | some m =>
    simp only [Option.map_some]
    cases hc : condOf S condV with
    | none => rfl
    | some c0 =>
      simp only []
      by_cases h1 : (bodyIn != 2 + cs.length) = true
      · have h1' : bodyIn ≠ 2 + cs.length := by simpa using h1
        simp [h1, h1']
      · have h1' : bodyIn = 2 + cs.length := by simpa using h1
        by_cases h2 : bodyOut < 1 + cs.length
        · simp [h1', h2]
        · simp only [h1', h2, bne_self_eq_false, Bool.false_eq_true, if_false, ne_eq, not_true,
            false_or]
          rw [loopIter_eq_fold, List.range_eq_range', replicateNil]
          cases List.foldl (specIter S run cs.length) _ (List.range' 0 m.toNat) with
          | error e => rfl
          | ok st =>
            simp only [finishScans_eq_spec]
            cases specScanOutputs S onnx st.scans <;> rfl

theorem evalOp_eq_spec (S : Sem P V) (onnx : Bool)
    (ev : Env V → Graph P V → List V → Except Err (List V)) (σ : Env V) (op : Op P V) :
    evalOpSpec S onnx ev σ op = evalOp S onnx ev σ op := by
  cases op with
  | prim k ins out => rfl
  | ifOp c t e outs => rfl
  | loop trip cond car body outs =>
    simp only [evalOpSpec, evalOp, loopCore_eq_loopSpec]
    cases optLookup (look σ) trip with
    | error e => rfl
    | ok tv =>
      cases optLookup (look σ) cond with
      | error e => rfl
      | ok cv =>
        cases lookups (look σ) car with
        | error e => rfl
        | ok cs =>
          cases loopSpec S onnx (fun _ args => ev σ body args) body.inputs.length
            body.outputs.length tv cv cs <;> rfl

theorem evalOps_eq_spec (S : Sem P V) (onnx : Bool)
    (ev : Env V → Graph P V → List V → Except Err (List V)) :
    ∀ (ops : List (Op P V)) (σ : Env V), evalOpsSpec S onnx ev σ ops = evalOps S onnx ev σ ops
  | [], _ => rfl
  | op :: rest, σ => by
    simp only [evalOpsSpec, evalOps, evalOp_eq_spec]
    cases evalOp S onnx ev σ op with
    | error e => rfl
    | ok σ' => exact evalOps_eq_spec S onnx ev rest σ'

theorem evalG_eq_spec (S : Sem P V) (onnx : Bool) : ∀ (fuel : Nat) (σ : Env V) (g : Graph P V)
    (args : List V), evalGSpec S onnx fuel σ g args = evalG S onnx fuel σ g args
  | 0, _, _, _ => rfl
  | fuel + 1, σ, g, args => by
    have hev : evalGSpec S onnx fuel = evalG S onnx fuel := by
      funext σ' g' a'; exact evalG_eq_spec S onnx fuel σ' g' a'
    simp only [evalGSpec, evalG, hev, evalOps_eq_spec]
    split
    · rfl
    · cases evalOps S onnx (evalG S onnx fuel) (g.inputs.zip args ++ g.consts ++ σ) g.ops <;> rfl

end RtenVerif.ControlFlow
