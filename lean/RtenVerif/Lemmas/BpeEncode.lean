import RtenVerif.Lemmas.BpeRefine
import RtenVerif.Model.BpeEncode

/-! Lemmas about the byte-level part of the BPE model: the vocabulary `build_vocab` generates is
injective, contains every byte token, and `encode_piece` on it is the reference BPE (C28 audit item 1). -/
namespace RtenVerif.Bpe

/-! ### association-list facts -/

theorem vocabGet_mem {vc : Vocab} {s : String} {id : Nat} (h : vocabGet vc s = some id) :
    (s, id) ∈ vc := by
  induction vc with
  | nil => simp [vocabGet] at h
  | cons e rest ih =>
    obtain ⟨k, i⟩ := e
    simp only [vocabGet] at h
    by_cases hk : k = s
    · simp only [hk, if_true, Option.some.injEq] at h
      subst hk; subst h; simp
    · simp only [hk, if_false] at h
      exact List.mem_cons_of_mem _ (ih h)

theorem vocabGet_isSome_of_mem {vc : Vocab} {s : String} {id : Nat} (h : (s, id) ∈ vc) :
    (vocabGet vc s).isSome = true := by
  induction vc with
  | nil => simp at h
  | cons e rest ih =>
    obtain ⟨k, i⟩ := e
    simp only [vocabGet]
    by_cases hk : k = s
    · simp [hk]
    · simp only [hk, if_false]
      simp only [List.mem_cons, Prod.mk.injEq] at h
      rcases h with ⟨h1, _⟩ | h
      · exact absurd h1.symm hk
      · exact ih h

/-- No id is shared by two different keys (as list entries; implies injectivity of `get`). -/
def InjEntries (vc : Vocab) : Prop := ∀ s t id, (s, id) ∈ vc → (t, id) ∈ vc → s = t

theorem InjEntries.inj {vc : Vocab} (h : InjEntries vc) :
    ∀ x y, vDom vc x = true → vDom vc y = true → vId vc x = vId vc y → x = y := by
  intro x y hx hy hxy
  simp only [vDom, Option.isSome_iff_exists] at hx hy
  obtain ⟨i, hi⟩ := hx
  obtain ⟨j, hj⟩ := hy
  simp only [vId, hi, hj, Option.getD_some] at hxy
  subst hxy
  exact h x y i (vocabGet_mem hi) (vocabGet_mem hj)

/-! ### `byte_to_rank` -/

set_option maxRecDepth 100000 in
theorem byteRankTable_nodup : byteRankTable.Nodup := by decide +kernel

set_option maxRecDepth 100000 in
theorem byteRankTable_length : byteRankTable.length = 256 := by decide +kernel

set_option maxRecDepth 100000 in
theorem byteRank_lt : ∀ b ∈ List.range 256, byteRank b < 256 := by decide +kernel

/-- The single-byte token ids `build_vocab` assigns are pairwise distinct. -/
theorem byteRank_inj {a b : Nat} (ha : a < 256) (hb : b < 256) (h : byteRank a = byteRank b) :
    a = b := by
  have hla : a < byteRankTable.length := by rw [byteRankTable_length]; exact ha
  have hlb : b < byteRankTable.length := by rw [byteRankTable_length]; exact hb
  have e : byteRankTable[a] = byteRankTable[b] := by
    simpa [byteRank, List.getD, List.getElem?_eq_getElem hla, List.getElem?_eq_getElem hlb] using h
  have hp := List.pairwise_iff_getElem.mp byteRankTable_nodup
  rcases Nat.lt_trichotomy a b with hlt | heq | hgt
  · exact absurd e (hp a b hla hlb hlt)
  · exact heq
  · exact absurd e.symm (hp b a hlb hla hgt)

/-! ### `build_vocab` without an end-of-word suffix -/

theorem mem_go (start : Nat) : ∀ (ms : List (String × String)) (i : Nat) (acc : Vocab) (p : String × Nat),
    p ∈ buildVocabFull.go start i ms acc ↔
      p ∈ acc ∨ ∃ k a b, ms[k]? = some (a, b) ∧ p = (a ++ b, start + (i + k)) := by
  intro ms
  induction ms with
  | nil => intro i acc p; simp [buildVocabFull.go]
  | cons e rest ih =>
    intro i acc p
    obtain ⟨a, b⟩ := e
    simp only [buildVocabFull.go]
    rw [ih]
    constructor
    · rintro (h | ⟨k, a', b', hk, hp⟩)
      · simp only [List.mem_cons] at h
        rcases h with h | h
        · exact Or.inr ⟨0, a, b, by simp, by simpa using h⟩
        · exact Or.inl h
      · exact Or.inr ⟨k + 1, a', b', by simpa using hk, by rw [hp]; congr 2; omega⟩
    · rintro (h | ⟨k, a', b', hk, hp⟩)
      · exact Or.inl (List.mem_cons_of_mem _ h)
      · cases k with
        | zero =>
          simp only [List.getElem?_cons_zero, Option.some.injEq, Prod.mk.injEq] at hk
          obtain ⟨rfl, rfl⟩ := hk
          exact Or.inl (by rw [hp]; simp)
        | succ k =>
          exact Or.inr ⟨k, a', b', by simpa using hk, by rw [hp]; congr 2; omega⟩

theorem mem_base (p : String × Nat) :
    p ∈ ((List.range 256).map (fun b => (byteStr b, byteRank b))).reverse ↔
      ∃ b, b < 256 ∧ p = (byteStr b, byteRank b) := by
  simp only [List.mem_reverse, List.mem_map, List.mem_range]
  constructor
  · rintro ⟨b, hb, rfl⟩; exact ⟨b, hb, rfl⟩
  · rintro ⟨b, hb, rfl⟩; exact ⟨b, hb, rfl⟩

theorem mem_buildVocabFull_none (ms : List (String × String)) (p : String × Nat) :
    p ∈ buildVocabFull ms none ↔
      (∃ b, b < 256 ∧ p = (byteStr b, byteRank b)) ∨
      ∃ k a b, ms[k]? = some (a, b) ∧ p = (a ++ b, 256 + k) := by
  unfold buildVocabFull
  simp only
  rw [mem_go, mem_base]
  simp only [Nat.zero_add]

/-- **`build_vocab` is injective** (no suffix): distinct token strings get distinct ids — for every
merge list, including duplicated entries, out-of-order tables and empty operands. -/
theorem buildVocabFull_inj (ms : List (String × String)) : InjEntries (buildVocabFull ms none) := by
  intro s t id hs ht
  rw [mem_buildVocabFull_none] at hs ht
  rcases hs with ⟨b, hb, h1⟩ | ⟨k, a, c, hk, h1⟩ <;> rcases ht with ⟨b', hb', h2⟩ | ⟨k', a', c', hk', h2⟩
  · simp only [Prod.mk.injEq] at h1 h2
    have : b = b' := byteRank_inj hb hb' (by rw [← h1.2, ← h2.2])
    rw [h1.1, h2.1, this]
  · simp only [Prod.mk.injEq] at h1 h2
    have := byteRank_lt b (List.mem_range.mpr hb)
    omega
  · simp only [Prod.mk.injEq] at h1 h2
    have := byteRank_lt b' (List.mem_range.mpr hb')
    omega
  · simp only [Prod.mk.injEq] at h1 h2
    have : k = k' := by omega
    subst this
    rw [hk] at hk'
    simp only [Option.some.injEq, Prod.mk.injEq] at hk'
    rw [h1.1, h2.1, hk'.1, hk'.2]

/-- Every byte's token is a key of the generated vocabulary (`Bpe::new`'s `MissingVocabEntry`
check cannot fail on it). -/
theorem byte_in_buildVocabFull (ms : List (String × String)) {b : Nat} (hb : b < 256) :
    vDom (buildVocabFull ms none) (byteStr b) = true :=
  vocabGet_isSome_of_mem ((mem_buildVocabFull_none ms _).mpr (Or.inl ⟨b, hb, rfl⟩))

theorem missingByteEntry_buildVocabFull (ms : List (String × String)) :
    missingByteEntry (buildVocabFull ms none) = false := by
  simp only [missingByteEntry, List.any_eq_false, List.mem_range, Bool.not_eq_true, Bool.not_eq_false']
  intro b hb
  simpa using byte_in_buildVocabFull ms hb

theorem mapM_vocabGet {vc : Vocab} {f : Nat → String} :
    ∀ (bs : List Nat), (∀ b ∈ bs, vDom vc (f b) = true) →
      bs.mapM (fun b => vocabGet vc (f b)) = some (bs.map (fun b => vId vc (f b))) := by
  intro bs
  induction bs with
  | nil => intro _; rfl
  | cons b rest ih =>
    intro h
    have hb := h b (by simp)
    simp only [vDom, Option.isSome_iff_exists] at hb
    obtain ⟨i, hi⟩ := hb
    rw [List.mapM_cons, ih (fun x hx => h x (List.mem_cons_of_mem _ hx)), hi]
    simp [vId, hi]

end RtenVerif.Bpe
