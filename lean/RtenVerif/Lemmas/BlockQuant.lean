import RtenVerif.Model.BlockQuant

/-!
Helper lemmas for C37 (core Lean only; ring identities by `grind` over `Lean.Grind.CommRing`).
-/
namespace RtenVerif.BlockQuant
open Lean.Grind

variable {R : Type} [CommRing R]

theorem dot3_nil_w (a q : List R) : dot3 a [] q = 0 := by
  cases a <;> simp [dot3]

theorem dot3_nil_a (w q : List R) : dot3 ([] : List R) w q = 0 := by
  simp [dot3]

theorem dot3_nil_q (a w : List R) : dot3 a w [] = 0 := by
  cases a <;> cases w <;> simp [dot3]

/-- Splitting the per-element scale list splits the sum at the same position. -/
theorem dot3_append_w : ∀ (w1 w2 a q : List R),
    dot3 a (w1 ++ w2) q =
      dot3 (a.take w1.length) w1 (q.take w1.length) + dot3 (a.drop w1.length) w2 (q.drop w1.length)
  | [], w2, a, q => by simp [dot3_nil_w]; grind
  | w :: ws, w2, [], q => by simp [dot3_nil_a]; grind
  | w :: ws, w2, x :: xs, [] => by simp [dot3_nil_q]; grind
  | w :: ws, w2, x :: xs, y :: ys => by
    have ih := dot3_append_w ws w2 xs ys
    simp only [List.cons_append, dot3, List.length_cons, List.take_succ_cons, List.drop_succ_cons, ih]
    grind

/-- One block with constant scale `s`: the algebraic heart of the factored form. -/
theorem dot3_replicate (s : R) : ∀ (n : Nat) (a q : List R), a.length = q.length → a.length ≤ n →
    dot3 a (List.replicate n s) q = s * (rawDot a q - 8 * sumR a)
  | n, [], [], _, _ => by simp [dot3, rawDot, sumR]; grind
  | 0, x :: xs, _, _, h => by simp at h
  | n + 1, x :: xs, y :: ys, hl, hn => by
    have ih := dot3_replicate s n xs ys (by simpa using hl) (by simpa using hn)
    simp only [List.replicate_succ, dot3, rawDot, sumR, ih]
    grind
  | _, [], _ :: _, h, _ => by simp at h
  | _, _ :: _, [], h, _ => by simp at h

theorem expandScales_cons (bs : Nat) (s : R) (ss : List R) :
    expandScales bs (s :: ss) = List.replicate bs s ++ expandScales bs ss := by
  simp [expandScales]

/-- The per-element scale of element `k` is the scale of block `k / bs`. -/
theorem expandScales_getD (bs : Nat) (hbs : 0 < bs) (z : R) : ∀ (scales : List R) (k : Nat),
    (expandScales bs scales).getD k z = scales.getD (k / bs) z
  | [], k => by simp [expandScales]
  | s :: ss, k => by
    rw [expandScales_cons]
    by_cases hk : k < bs
    · have : k / bs = 0 := Nat.div_eq_of_lt hk
      simp [List.getD_eq_getElem?_getD, List.getElem?_append_left, hk, this]
    · have hk' : bs ≤ k := by omega
      have hdiv : k / bs = (k - bs) / bs + 1 := by
        have := Nat.div_eq_sub_div hbs hk'
        omega
      have ih := expandScales_getD bs hbs z ss (k - bs)
      simp only [List.getD_eq_getElem?_getD] at ih ⊢
      rw [List.getElem?_append_right (by simpa using hk')]
      simp only [List.length_replicate, hdiv, List.getElem?_cons_succ]
      exact ih

/-- **T1 core**: reference = factored form, for any lengths (the last block may be partial, and
elements beyond the last scale contribute nothing on either side). -/
theorem refDot_eq_factoredBlocks (bs : Nat) : ∀ (scales a q : List R), a.length = q.length →
    refDot bs scales a q = factoredBlocks bs scales a q
  | [], a, q, _ => by simp [refDot, expandScales, dot3_nil_w, factoredBlocks]
  | s :: ss, a, q, h => by
    have ih := refDot_eq_factoredBlocks bs ss (a.drop bs) (q.drop bs) (by simp [h])
    unfold refDot at ih ⊢
    rw [expandScales_cons, dot3_append_w, List.length_replicate, ih]
    rw [dot3_replicate s bs (a.take bs) (q.take bs) (by simp [h]) (by simp; omega)]
    simp [factoredBlocks]

/-! ### Int8 mode -/

theorem signedDot_eq : ∀ (l q : List R), l.length = q.length →
    signedDot l q = rawDot l q - 8 * sumR l
  | [], [], _ => by simp [signedDot, rawDot, sumR]; grind
  | x :: xs, y :: ys, h => by
    have ih := signedDot_eq xs ys (by simpa using h)
    simp only [signedDot, rawDot, sumR, ih]
    grind
  | [], _ :: _, h => by simp at h
  | _ :: _, [], h => by simp at h

theorem rawDot_scale (r : R) : ∀ (l q : List R), rawDot (l.map (r * ·)) q = r * rawDot l q
  | [], q => by simp [rawDot]; grind
  | x :: xs, [] => by simp [rawDot]; grind
  | x :: xs, y :: ys => by
    simp only [List.map_cons, rawDot, rawDot_scale r xs ys]
    grind

theorem sumR_scale (r : R) : ∀ (l : List R), sumR (l.map (r * ·)) = r * sumR l
  | [] => by simp [sumR]; grind
  | x :: xs => by
    simp only [List.map_cons, sumR, sumR_scale r xs]
    grind

theorem zipWith_replicate_mul (r : R) : ∀ (n : Nat) (l : List R), l.length ≤ n →
    List.zipWith (· * ·) (List.replicate n r) l = l.map (r * ·)
  | _, [], _ => by simp
  | 0, _ :: _, h => by simp at h
  | n + 1, x :: xs, h => by
    simp [List.replicate_succ, zipWith_replicate_mul r n xs (by simpa using h)]

theorem scaleLhs_cons_take (bs : Nat) (r : R) (rs l : List R) :
    (scaleLhs bs (r :: rs) l).take bs = (l.take bs).map (r * ·) := by
  unfold scaleLhs
  rw [expandScales_cons, List.take_zipWith]
  have h1 : (List.replicate bs r ++ expandScales bs rs).take bs = List.replicate bs r := by
    rw [List.take_append_of_le_length (by simp)]
    simp
  rw [h1]
  have : List.zipWith (· * ·) (List.replicate bs r) (l.take bs) = (l.take bs).map (r * ·) :=
    zipWith_replicate_mul r bs (l.take bs) (by simp; omega)
  exact this

theorem scaleLhs_cons_drop (bs : Nat) (r : R) (rs l : List R) :
    (scaleLhs bs (r :: rs) l).drop bs = scaleLhs bs rs (l.drop bs) := by
  unfold scaleLhs
  rw [expandScales_cons, List.drop_zipWith]
  have h1 : (List.replicate bs r ++ expandScales bs rs).drop bs = expandScales bs rs := by
    rw [List.drop_append_of_le_length (by simp)]
    simp
  rw [h1]

theorem scaleLhs_length_le (bs : Nat) (rs l : List R) : (scaleLhs bs rs l).length ≤ l.length := by
  unfold scaleLhs
  simp [List.length_zipWith]
  omega

theorem scaleLhs_nil_scales (bs : Nat) (l : List R) : scaleLhs bs ([] : List R) l = [] := by
  simp [scaleLhs, expandScales]

theorem factoredBlocks_nil_a (bs : Nat) : ∀ (scales q : List R),
    factoredBlocks bs scales ([] : List R) q = 0
  | [], q => by simp [factoredBlocks]
  | s :: ss, q => by
    simp only [factoredBlocks, List.take_nil, List.drop_nil, rawDot, sumR, factoredBlocks_nil_a bs ss]
    grind

/-- Int8 mode = factored form applied to the de-quantised LHS `row_scale·l`, for both dot-product
flavours; `q` may be longer than the scaled LHS (truncated like `zip`). -/
theorem int8Blocks_eq_factored (u : Bool) (bs : Nat) : ∀ (cs rs l q : List R), l.length = q.length →
    cs.length = rs.length →
    int8Blocks u bs cs rs l q = factoredBlocks bs cs (scaleLhs bs rs l) q
  | [], [], l, q, _, _ => by simp [int8Blocks, factoredBlocks]
  | c :: cs, r :: rs, l, q, h, hc => by
    have ih := int8Blocks_eq_factored u bs cs rs (l.drop bs) (q.drop bs) (by simp [h])
      (by simpa using hc)
    simp only [int8Blocks, factoredBlocks, scaleLhs_cons_take, scaleLhs_cons_drop, ih,
      rawDot_scale, sumR_scale]
    have hs := signedDot_eq (l.take bs) (q.take bs) (by simp [h])
    cases u
    · simp only [Bool.false_eq_true, if_false, hs]; grind
    · simp only [if_true]; grind
  | [], _ :: _, _, _, _, hc => by simp at hc
  | _ :: _, [], _, _, _, hc => by simp at hc

/-! ### Linearity of the reference in the LHS (error of Int8 mode = quantisation error) -/

theorem dot3_sub : ∀ (a a' w q : List R), a.length = a'.length →
    dot3 (List.zipWith (· - ·) a a') w q = dot3 a w q - dot3 a' w q
  | [], [], w, q, _ => by simp [dot3]; grind
  | x :: xs, y :: ys, [], q, _ => by simp [dot3_nil_w]; grind
  | x :: xs, y :: ys, w :: ws, [], _ => by simp [dot3_nil_q]; grind
  | x :: xs, y :: ys, w :: ws, p :: ps, h => by
    simp only [List.zipWith_cons_cons, dot3, dot3_sub xs ys ws ps (by simpa using h)]
    grind
  | [], _ :: _, _, _, h => by simp at h
  | _ :: _, [], _, _, h => by simp at h

/-! ### Nibbles and the index map -/

theorem unpack_pack_byte (b : Nat) (h : b < 256) : packByte (loNibble b) (hiNibble b) = b := by
  unfold packByte loNibble hiNibble; omega

theorem pack_unpack_nibbles (lo hi : Nat) (h1 : lo < 16) (h2 : hi < 16) :
    loNibble (packByte lo hi) = lo ∧ hiNibble (packByte lo hi) = hi := by
  unfold packByte loNibble hiNibble; omega

theorem packNibbles_unpackBytes : ∀ (bytes : List Nat), (∀ b ∈ bytes, b < 256) →
    packNibbles (unpackBytes bytes) = bytes
  | [], _ => rfl
  | b :: bs, h => by
    simp only [unpackBytes, packNibbles]
    rw [unpack_pack_byte b (h b (by simp)), packNibbles_unpackBytes bs (fun x hx => h x (by simp [hx]))]

theorem unpackBytes_length : ∀ (bytes : List Nat), (unpackBytes bytes).length = 2 * bytes.length
  | [] => rfl
  | b :: bs => by simp [unpackBytes, unpackBytes_length bs]; omega

theorem unpackBytes_getD : ∀ (bytes : List Nat) (k : Nat),
    (unpackBytes bytes).getD k 0 =
      if k % 2 = 0 then loNibble (bytes.getD (k / 2) 0) else hiNibble (bytes.getD (k / 2) 0)
  | [], k => by simp [unpackBytes, loNibble, hiNibble]
  | b :: bs, 0 => by simp [unpackBytes]
  | b :: bs, 1 => by simp [unpackBytes]
  | b :: bs, k + 2 => by
    have ih := unpackBytes_getD bs k
    have h1 : (k + 2) % 2 = k % 2 := by omega
    have h2 : (k + 2) / 2 = k / 2 + 1 := by omega
    simp only [unpackBytes, List.getD_eq_getElem?_getD, List.getElem?_cons_succ, h1, h2] at ih ⊢
    exact ih

end RtenVerif.BlockQuant
