import RtenVerif.Model.ConstNarrow

/-! Lemmas for C20: `rneShift` is round-to-nearest-even on the grid of multiples of `2^sh`;
decoding of the f32 bit patterns the model produces; every finite f32 is `n * 2^c`. -/
namespace RtenVerif.ConstNarrow

theorem absDiff_self (a : Nat) : absDiff a a = 0 := by unfold absDiff; omega

theorem absDiff_mul (a b c : Nat) : absDiff (a * c) (b * c) = absDiff a b * c := by
  unfold absDiff
  rw [Nat.add_mul, Nat.sub_mul, Nat.sub_mul]

/-- Decomposition used everywhere: `x = k*u + r`, `r < u`. -/
theorem divmod_spec (x u : Nat) (hu : 0 < u) : x = (x / u) * u + x % u ∧ x % u < u := by
  refine ⟨?_, Nat.mod_lt _ hu⟩
  have := Nat.div_add_mod x u
  rw [Nat.mul_comm] at this
  omega

/-- The two candidates. -/
theorem rneShift_cases (x sh : Nat) :
    (rneShift x sh = x / 2 ^ sh ∧ ¬ (2 * (x % 2 ^ sh) > 2 ^ sh ∨ (2 * (x % 2 ^ sh) = 2 ^ sh ∧ (x / 2 ^ sh) % 2 = 1))) ∨
    (rneShift x sh = x / 2 ^ sh + 1 ∧ (2 * (x % 2 ^ sh) > 2 ^ sh ∨ (2 * (x % 2 ^ sh) = 2 ^ sh ∧ (x / 2 ^ sh) % 2 = 1))) := by
  unfold rneShift
  simp only
  split
  · right; exact ⟨rfl, by assumption⟩
  · left; exact ⟨rfl, by assumption⟩

/-- Multiples of `u` below/above: `j ≤ k → j*u ≤ k*u`, `k+1 ≤ j → k*u + u ≤ j*u`. -/
theorem mul_step_le {j k : Nat} (u : Nat) (h : j + 1 ≤ k) : j * u + u ≤ k * u := by
  have := Nat.mul_le_mul_right u h
  rw [Nat.add_mul, Nat.one_mul] at this
  exact this

/-- **Nearest.** `rneShift x sh * 2^sh` is at least as close to `x` as any multiple of `2^sh`. -/
theorem rneShift_nearest (x sh j : Nat) :
    absDiff x (rneShift x sh * 2 ^ sh) ≤ absDiff x (j * 2 ^ sh) := by
  have hu : 0 < 2 ^ sh := Nat.two_pow_pos sh
  obtain ⟨hx, hr⟩ := divmod_spec x (2 ^ sh) hu
  generalize hk : x / 2 ^ sh = k at *
  generalize hrr : x % 2 ^ sh = r at *
  generalize hU : 2 ^ sh = u at *
  have hk1 : (k + 1) * u = k * u + u := by rw [Nat.add_mul, Nat.one_mul]
  rcases rneShift_cases x sh with ⟨he, hc⟩ | ⟨he, hc⟩
  · rw [hU] at hc he; rw [hk, hrr] at hc; rw [hk] at he
    rw [he]
    unfold absDiff
    by_cases hjk : j ≤ k
    · have := Nat.mul_le_mul_right u hjk
      omega
    · have := mul_step_le u (by omega : k + 1 ≤ j)
      omega
  · rw [hU] at hc he; rw [hk, hrr] at hc; rw [hk] at he
    rw [he, hk1]
    unfold absDiff
    by_cases hjk : j ≤ k
    · have := Nat.mul_le_mul_right u hjk
      omega
    · have := Nat.mul_le_mul_right u (by omega : k + 1 ≤ j)
      rw [hk1] at this
      omega

/-- **Ties to even.** If another multiple is exactly as close, the chosen one is even. -/
theorem rneShift_tie_even (x sh j : Nat) (hne : j ≠ rneShift x sh)
    (heq : absDiff x (rneShift x sh * 2 ^ sh) = absDiff x (j * 2 ^ sh)) :
    rneShift x sh % 2 = 0 := by
  have hu : 0 < 2 ^ sh := Nat.two_pow_pos sh
  obtain ⟨hx, hr⟩ := divmod_spec x (2 ^ sh) hu
  generalize hk : x / 2 ^ sh = k at *
  generalize hrr : x % 2 ^ sh = r at *
  generalize hU : 2 ^ sh = u at *
  have hk1 : (k + 1) * u = k * u + u := by rw [Nat.add_mul, Nat.one_mul]
  rcases rneShift_cases x sh with ⟨he, hc⟩ | ⟨he, hc⟩
  · rw [hU] at hc he; rw [hk, hrr] at hc; rw [hk] at he
    rw [he] at heq hne ⊢
    unfold absDiff at heq
    by_cases hjk : j + 1 ≤ k
    · have := mul_step_le u hjk
      omega
    · have := Nat.mul_le_mul_right u (by omega : k + 1 ≤ j)
      rw [hk1] at this
      omega
  · rw [hU] at hc he; rw [hk, hrr] at hc; rw [hk] at he
    rw [he] at heq hne ⊢
    rw [hk1] at heq
    unfold absDiff at heq
    by_cases hjk : j ≤ k
    · have := Nat.mul_le_mul_right u hjk
      omega
    · have := Nat.mul_le_mul_right u (by omega : k + 2 ≤ j)
      have h2 : (k + 2) * u = k * u + u + u := by rw [Nat.add_mul]; omega
      omega

/-- The rounded quotient is the truncated one or its successor. -/
theorem rneShift_bounds (x sh : Nat) : x / 2 ^ sh ≤ rneShift x sh ∧ rneShift x sh ≤ x / 2 ^ sh + 1 := by
  rcases rneShift_cases x sh with ⟨he, _⟩ | ⟨he, _⟩ <;> omega

theorem bitLen_spec (M : Nat) (h : M ≠ 0) : 2 ^ (bitLen M - 1) ≤ M ∧ M < 2 ^ bitLen M ∧ 1 ≤ bitLen M := by
  unfold bitLen
  simp only [h, if_false]
  refine ⟨?_, Nat.lt_log2_self, by omega⟩
  have : M.log2 + 1 - 1 = M.log2 := by omega
  rw [this]
  exact Nat.log2_self_le h

/-- Decoding of the bit pattern the model builds from a significand `k ≤ 2^24` (carry included)
at quantum exponent `q`: its value is `k * 2^q`. -/
theorem f32MagValue_encode (q k : Nat) (hq : 925 ≤ q) (hk : k ≤ 2 ^ 24) (hn : 2 ^ 23 ≤ k ∨ q = 925) :
    f32MagValue ((q - 925) * 2 ^ 23 + k) = k * 2 ^ q := by
  have e23 : (2 : Nat) ^ 23 = 8388608 := by decide
  have e24 : (2 : Nat) ^ 24 = 16777216 := by decide
  rw [e24] at hk
  rw [e23] at hn
  unfold f32MagValue
  simp only [e23]
  by_cases h1 : k < 8388608
  · -- subnormal result: q = 925
    have hq' : q = 925 := by omega
    subst hq'
    have d : ((925 - 925) * 8388608 + k) / 8388608 = 0 := by omega
    have m : ((925 - 925) * 8388608 + k) % 8388608 = k := by omega
    rw [d, m]; simp
  · by_cases h2 : k < 16777216
    · have d : ((q - 925) * 8388608 + k) / 8388608 = q - 925 + 1 := by omega
      have m : ((q - 925) * 8388608 + k) % 8388608 = k - 8388608 := by omega
      rw [d, m]
      have ne : ¬ (q - 925 + 1 = 0) := by omega
      simp only [ne, if_false]
      have ex : q - 925 + 1 - 1 + 925 = q := by omega
      have ks : 8388608 + (k - 8388608) = k := by omega
      rw [ex, ks]
    · have hk' : k = 16777216 := by omega
      subst hk'
      have d : ((q - 925) * 8388608 + 16777216) / 8388608 = q - 925 + 2 := by omega
      have m : ((q - 925) * 8388608 + 16777216) % 8388608 = 0 := by omega
      rw [d, m]
      have ne : ¬ (q - 925 + 2 = 0) := by omega
      simp only [ne, if_false]
      have ex : q - 925 + 2 - 1 + 925 = q + 1 := by omega
      rw [ex, Nat.pow_succ]
      omega

/-- Every finite f32 magnitude is `n * 2^c` with a 24-bit `n` and a quantum `c ≥ 925`
(i.e. `≥ 2^-149` unscaled). -/
theorem f32_finite_form (y : Nat) : ∃ n c, f32MagValue y = n * 2 ^ c ∧ n < 2 ^ 24 ∧ 925 ≤ c := by
  have e23 : (2 : Nat) ^ 23 = 8388608 := by decide
  have e24 : (2 : Nat) ^ 24 = 16777216 := by decide
  unfold f32MagValue
  simp only
  by_cases h : y / 2 ^ 23 = 0
  · refine ⟨y % 2 ^ 23, 925, by simp [h], ?_, by omega⟩
    have := Nat.mod_lt y (Nat.two_pow_pos 23)
    omega
  · refine ⟨2 ^ 23 + y % 2 ^ 23, y / 2 ^ 23 - 1 + 925, by simp [h], ?_, by omega⟩
    have := Nat.mod_lt y (Nat.two_pow_pos 23)
    omega

end RtenVerif.ConstNarrow

namespace RtenVerif.ConstNarrow

theorem pow_split {a b : Nat} (h : a ≤ b) : 2 ^ b = 2 ^ (b - a) * 2 ^ a := by
  rw [← Nat.pow_add]; congr 1; omega

theorem f64MagValue_eq (b : Nat) : f64MagValue b = f64Sig b * 2 ^ f64Exp b := by
  unfold f64MagValue f64Sig f64Exp
  by_cases h : b / 2 ^ 52 = 0 <;> simp [h]

/-- The pieces of `f32OfScaled` for `M ≠ 0`: quantum `q`, significand `k` with `k * 2^q` the
rounded value, `k ≤ 2^24`, normalised unless `q = 925`. -/
theorem f32OfScaled_parts (M E : Nat) (hM : M ≠ 0) :
    ∃ q k, 925 ≤ q ∧ k ≤ 2 ^ 24 ∧ (2 ^ 23 ≤ k ∨ q = 925) ∧
      f32OfScaled M E = (if (q - 925) * 2 ^ 23 + k ≥ f32Inf then f32Inf else (q - 925) * 2 ^ 23 + k) ∧
      ((q ≤ E ∧ k * 2 ^ q = M * 2 ^ E) ∨
       (E < q ∧ k = rneShift M (q - E) ∧ (q = 925 ∨ (2 ^ 23 ≤ M / 2 ^ (q - E) ∧ q = E + bitLen M - 24)))) := by
  obtain ⟨hlo, hhi, hL1⟩ := bitLen_spec M hM
  generalize hL : bitLen M = L at *
  refine ⟨max (E + L - 24) 925, (if max (E + L - 24) 925 ≤ E then M * 2 ^ (E - max (E + L - 24) 925) else rneShift M (max (E + L - 24) 925 - E)), by omega, ?_, ?_, ?_, ?_⟩
  all_goals generalize hq : max (E + L - 24) 925 = q
  all_goals have hq1 : 925 ≤ q := by omega
  all_goals have hq2 : E + L ≤ q + 24 := by omega
  all_goals have hq3 : q = 925 ∨ q + 24 = E + L := by omega
  · -- k ≤ 2^24
    split
    · rename_i hle
      -- M * 2^(E-q) < 2^L * 2^(E-q) = 2^(L+E-q) ≤ 2^24
      have h1 : M * 2 ^ (E - q) < 2 ^ L * 2 ^ (E - q) := Nat.mul_lt_mul_of_lt_of_le hhi (Nat.le_refl _) (Nat.two_pow_pos _)
      rw [← Nat.pow_add] at h1
      have h2 : 2 ^ (L + (E - q)) ≤ 2 ^ 24 := Nat.pow_le_pow_right (by omega) (by omega)
      omega
    · rename_i hlt
      have hb := (rneShift_bounds M (q - E)).2
      -- M < 2^L ≤ 2^(sh+24) so M / 2^sh < 2^24
      have h1 : 2 ^ L ≤ 2 ^ (24 + (q - E)) := Nat.pow_le_pow_right (by omega) (by omega)
      rw [Nat.pow_add] at h1
      have h2 : M / 2 ^ (q - E) < 2 ^ 24 := by
        apply Nat.div_lt_of_lt_mul
        rw [Nat.mul_comm]; omega
      omega
  · -- normalised unless q = 925
    rcases hq3 with h | h
    · right; exact h
    · left
      split
      · rename_i hle
        have h1 : 2 ^ (L - 1) * 2 ^ (E - q) ≤ M * 2 ^ (E - q) := Nat.mul_le_mul_right _ hlo
        rw [← Nat.pow_add] at h1
        have h2 : L - 1 + (E - q) = 23 := by omega
        rw [h2] at h1
        exact h1
      · rename_i hlt
        have hb := (rneShift_bounds M (q - E)).1
        have h3 : 2 ^ (L - 1) = 2 ^ 23 * 2 ^ (q - E) := by
          rw [← Nat.pow_add]; congr 1; omega
        have h4 : 2 ^ 23 ≤ M / 2 ^ (q - E) := by
          rw [Nat.le_div_iff_mul_le (Nat.two_pow_pos _)]
          omega
        omega
  · -- the definition
    unfold f32OfScaled
    simp only [hM, if_false, hL, hq]
  · by_cases hle : q ≤ E
    · left
      refine ⟨hle, ?_⟩
      simp only [hle, if_true]
      rw [Nat.mul_assoc, ← Nat.pow_add]
      congr 2; omega
    · right
      refine ⟨by omega, by simp [hle], ?_⟩
      rcases hq3 with h | h
      · left; exact h
      · right
        refine ⟨?_, by omega⟩
        have h3 : 2 ^ (L - 1) = 2 ^ 23 * 2 ^ (q - E) := by
          rw [← Nat.pow_add]; congr 1; omega
        rw [Nat.le_div_iff_mul_le (Nat.two_pow_pos _)]
        omega

end RtenVerif.ConstNarrow

namespace RtenVerif.ConstNarrow

theorem absDiff_eq_zero {a b : Nat} (h : absDiff a b = 0) : a = b := by
  unfold absDiff at h; omega

/-- **Core.** For every value `M * 2^E` whose rounding is finite, the result is at least as close
as any f32-representable magnitude `n * 2^c` (`n < 2^24`, quantum `c ≥ 925`), and if a
*different* representable value is exactly as close, the result's bit pattern is even. -/
theorem f32OfScaled_nearest (M E n c : Nat) (hc : 925 ≤ c) (hn : n < 2 ^ 24)
    (hfin : f32OfScaled M E < f32Inf) :
    absDiff (M * 2 ^ E) (f32MagValue (f32OfScaled M E)) ≤ absDiff (M * 2 ^ E) (n * 2 ^ c) ∧
    (f32MagValue (f32OfScaled M E) ≠ n * 2 ^ c →
      absDiff (M * 2 ^ E) (f32MagValue (f32OfScaled M E)) = absDiff (M * 2 ^ E) (n * 2 ^ c) →
      f32OfScaled M E % 2 = 0) := by
  have e23 : (2 : Nat) ^ 23 = 8388608 := by decide
  by_cases hM : M = 0
  · subst hM
    have h0 : f32OfScaled 0 E = 0 := by unfold f32OfScaled; simp
    have hv : f32MagValue 0 = 0 := by unfold f32MagValue; simp
    rw [h0, hv]
    refine ⟨?_, fun _ _ => rfl⟩
    unfold absDiff; omega
  obtain ⟨q, k, hq, hk, hnorm, hdef, hcase⟩ := f32OfScaled_parts M E hM
  -- not clamped
  have hr : f32OfScaled M E = (q - 925) * 2 ^ 23 + k := by
    rw [hdef] at hfin ⊢
    split
    · rename_i hge; rw [if_pos hge] at hfin; exact absurd hfin (Nat.lt_irrefl _)
    · rfl
  have hval : f32MagValue (f32OfScaled M E) = k * 2 ^ q := by
    rw [hr]; exact f32MagValue_encode q k hq hk hnorm
  rw [hval]
  rcases hcase with ⟨_, hex⟩ | ⟨hlt, hkdef, hsub⟩
  · -- exact
    rw [hex, absDiff_self]
    refine ⟨Nat.zero_le _, ?_⟩
    intro hne heq
    exact absurd (absDiff_eq_zero heq.symm) hne
  · -- rounded
    have hqs : 2 ^ q = 2 ^ (q - E) * 2 ^ E := pow_split (Nat.le_of_lt hlt)
    have hR : k * 2 ^ q = (k * 2 ^ (q - E)) * 2 ^ E := by rw [hqs, Nat.mul_assoc]
    have hE : 0 < 2 ^ E := Nat.two_pow_pos E
    by_cases hcq : q ≤ c
    · -- y lies on the grid of multiples of 2^q
      have hcs : 2 ^ c = 2 ^ (c - q) * 2 ^ q := pow_split hcq
      have hY : n * 2 ^ c = ((n * 2 ^ (c - q)) * 2 ^ (q - E)) * 2 ^ E := by
        rw [hcs, hqs]; simp only [Nat.mul_assoc]
      rw [hR, hY, absDiff_mul, absDiff_mul, hkdef]
      refine ⟨Nat.mul_le_mul_right _ (rneShift_nearest M (q - E) _), ?_⟩
      intro hne heq
      have hj : n * 2 ^ (c - q) ≠ rneShift M (q - E) := by
        intro h; apply hne; rw [h]
      have heq' := Nat.eq_of_mul_eq_mul_right hE heq
      have hev := rneShift_tie_even M (q - E) _ hj heq'
      rw [hr, hkdef, e23]; omega
    · -- y is finer than the result's quantum: it lies below the truncated value
      have hq925 : q ≠ 925 := by omega
      rcases hsub with h | ⟨hk0, _⟩
      · exact absurd h hq925
      generalize hk0d : M / 2 ^ (q - E) = k0 at hk0
      -- A = k0 * 2^sh * 2^E ≤ X
      have hA1 : k0 * 2 ^ (q - E) ≤ M := by
        rw [← hk0d]; exact Nat.div_mul_le_self M _
      have hA : (k0 * 2 ^ (q - E)) * 2 ^ E ≤ M * 2 ^ E := Nat.mul_le_mul_right _ hA1
      -- Y < A
      have hY1 : n * 2 ^ c < 2 ^ 24 * 2 ^ c := Nat.mul_lt_mul_of_lt_of_le hn (Nat.le_refl _) (Nat.two_pow_pos _)
      have hY2 : 2 ^ 24 * 2 ^ c ≤ 2 ^ 23 * 2 ^ q := by
        rw [← Nat.pow_add, ← Nat.pow_add]
        exact Nat.pow_le_pow_right (by omega) (by omega)
      have hY3 : 2 ^ 23 * 2 ^ q ≤ k0 * 2 ^ q := Nat.mul_le_mul_right _ hk0
      have hA2 : k0 * 2 ^ q = (k0 * 2 ^ (q - E)) * 2 ^ E := by rw [hqs, Nat.mul_assoc]
      -- the result is at least as close as A
      have hN : absDiff (M * 2 ^ E) (k * 2 ^ q) ≤ absDiff (M * 2 ^ E) ((k0 * 2 ^ (q - E)) * 2 ^ E) := by
        rw [hR, absDiff_mul, absDiff_mul, hkdef]
        exact Nat.mul_le_mul_right _ (rneShift_nearest M (q - E) k0)
      generalize (k0 * 2 ^ (q - E)) * 2 ^ E = A at *
      generalize M * 2 ^ E = X at *
      generalize n * 2 ^ c = Y at *
      generalize k * 2 ^ q = R at *
      unfold absDiff at hN ⊢
      refine ⟨by omega, ?_⟩
      intro _ heq
      omega

end RtenVerif.ConstNarrow

namespace RtenVerif.ConstNarrow

/-- When exactly the rounded quotient reaches `t + 1`, for an odd `t`: from the midpoint on. -/
theorem rneShift_ge_iff (x sh t : Nat) (ht : t % 2 = 1) :
    t + 1 ≤ rneShift x sh ↔ (2 * t + 1) * 2 ^ sh ≤ 2 * x := by
  have hu : 0 < 2 ^ sh := Nat.two_pow_pos sh
  obtain ⟨hx, hr⟩ := divmod_spec x (2 ^ sh) hu
  rcases rneShift_cases x sh with ⟨he, hc⟩ | ⟨he, hc⟩ <;> rw [he]
  all_goals generalize x / 2 ^ sh = k at *
  all_goals generalize x % 2 ^ sh = r at *
  all_goals generalize 2 ^ sh = u at *
  all_goals have h1 : (2 * t + 1) * u = 2 * (t * u) + u := by rw [Nat.add_mul, Nat.one_mul, Nat.mul_assoc]
  all_goals rw [h1]
  all_goals rcases Nat.lt_trichotomy k t with h | h | h
  all_goals first
    | (have := mul_step_le u (show k + 1 ≤ t from h); constructor <;> intro _ <;> omega)
    | (subst h; constructor <;> intro _ <;> omega)
    | (have := mul_step_le u (show t + 1 ≤ k from h); constructor <;> intro _ <;> omega)

/-- Truncation bounds at quantum `q > E`: `k0 * 2^q ≤ M * 2^E < (k0 + 1) * 2^q`. -/
theorem trunc_bounds (M E q : Nat) (hlt : E < q) :
    (M / 2 ^ (q - E)) * 2 ^ q ≤ M * 2 ^ E ∧ M * 2 ^ E < (M / 2 ^ (q - E) + 1) * 2 ^ q := by
  have hqs : 2 ^ q = 2 ^ (q - E) * 2 ^ E := pow_split (Nat.le_of_lt hlt)
  have hu : 0 < 2 ^ (q - E) := Nat.two_pow_pos _
  have hw : 0 < 2 ^ E := Nat.two_pow_pos _
  obtain ⟨hx, hr⟩ := divmod_spec M (2 ^ (q - E)) hu
  rw [hqs, ← Nat.mul_assoc, ← Nat.mul_assoc]
  constructor
  · apply Nat.mul_le_mul_right
    omega
  · rw [Nat.mul_lt_mul_right hw, Nat.add_mul, Nat.one_mul]
    omega

/-- **Overflow rule.** The result is infinity exactly from `2^128 - 2^103` on (scaled:
`(2^25 - 1) * 2^1177`), the midpoint between `f32::MAX` and `2^128`. -/
theorem f32OfScaled_overflow (M E : Nat) :
    f32OfScaled M E = f32Inf ↔ (2 ^ 25 - 1) * 2 ^ 1177 ≤ M * 2 ^ E := by
  have e23 : (2 : Nat) ^ 23 = 8388608 := by decide
  have e24 : (2 : Nat) ^ 24 = 16777216 := by decide
  have e25 : (2 : Nat) ^ 25 - 1 = 33554431 := by decide
  have hT : 0 < 2 ^ 1177 := Nat.two_pow_pos _
  by_cases hM : M = 0
  · subst hM
    have h0 : f32OfScaled 0 E = 0 := by unfold f32OfScaled; simp
    rw [h0, e25, Nat.zero_mul]
    unfold f32Inf
    generalize 2 ^ 1177 = T at *
    constructor <;> intro h <;> omega
  obtain ⟨q, k, hq, hk, hnorm, hdef, hcase⟩ := f32OfScaled_parts M E hM
  rw [hdef]
  have hiff : (if (q - 925) * 2 ^ 23 + k ≥ f32Inf then f32Inf else (q - 925) * 2 ^ 23 + k) = f32Inf ↔
      (q - 925) * 2 ^ 23 + k ≥ f32Inf := by
    split <;> omega
  rw [hiff, e25]
  unfold f32Inf
  rw [e23]
  rw [e24] at hk
  rw [e23] at hnorm
  have hQpos : 0 < 2 ^ q := Nat.two_pow_pos _
  -- position of 2^q relative to T = 2^1177
  have hQ : (q ≤ 1177 ∧ 2 ^ q ≤ 2 ^ 1177) ∨ (q = 1178 ∧ 2 ^ q = 2 * 2 ^ 1177) ∨ (1179 ≤ q ∧ 4 * 2 ^ 1177 ≤ 2 ^ q) := by
    rcases Nat.lt_trichotomy q 1178 with h | h | h
    · left; exact ⟨by omega, Nat.pow_le_pow_right (by omega) (by omega)⟩
    · right; left; refine ⟨h, ?_⟩; rw [h, show (1178 : Nat) = 1177 + 1 from rfl, Nat.pow_succ]; omega
    · right; right; refine ⟨by omega, ?_⟩
      have h1 : 2 ^ q = 2 ^ (q - 1177) * 2 ^ 1177 := pow_split (by omega)
      have h2 : 2 ^ 2 ≤ 2 ^ (q - 1177) := Nat.pow_le_pow_right (by omega) (by omega)
      rw [h1]
      exact Nat.mul_le_mul_right _ h2
  rcases hcase with ⟨_, hex⟩ | ⟨hlt, hkdef, hsub⟩
  · -- exact: X = k * 2^q
    rw [← hex]
    have hkQ : k * 2 ^ q ≤ 16777216 * 2 ^ q := Nat.mul_le_mul_right _ hk
    rcases hQ with ⟨h1, h2⟩ | ⟨h1, h2⟩ | ⟨h1, h2⟩
    · generalize 2 ^ q = Q at *; generalize 2 ^ 1177 = T at *
      constructor <;> intro h <;> omega
    · by_cases hk24 : k = 16777216
      · subst hk24
        generalize 2 ^ q = Q at *; generalize 2 ^ 1177 = T at *
        constructor <;> intro h <;> omega
      · have hkQ' : k * 2 ^ q ≤ 16777215 * 2 ^ q := Nat.mul_le_mul_right _ (by omega)
        generalize 2 ^ q = Q at *; generalize 2 ^ 1177 = T at *
        constructor <;> intro h <;> omega
    · have hk23 : 8388608 ≤ k := by omega
      have hkQ' : 8388608 * 2 ^ q ≤ k * 2 ^ q := Nat.mul_le_mul_right _ hk23
      generalize 2 ^ q = Q at *; generalize 2 ^ 1177 = T at *
      constructor <;> intro h <;> omega
  · -- rounded
    obtain ⟨hlo, hhi⟩ := trunc_bounds M E q hlt
    obtain ⟨hb1, hb2⟩ := rneShift_bounds M (q - E)
    rw [← hkdef] at hb1 hb2
    rcases hQ with ⟨h1, h2⟩ | ⟨h1, h2⟩ | ⟨h1, h2⟩
    · -- finite, below the boundary
      have hk0 : M / 2 ^ (q - E) + 1 ≤ 16777217 := by omega
      have := Nat.mul_le_mul_right (2 ^ q) hk0
      generalize (M / 2 ^ (q - E) + 1) * 2 ^ q = P at *
      generalize M * 2 ^ E = X at *
      generalize 2 ^ q = Q at *; generalize 2 ^ 1177 = T at *
      constructor <;> intro h <;> omega
    · -- q = 1178: infinity iff the significand carries to 2^24
      have hge := rneShift_ge_iff M (q - E) 16777215 (by decide)
      rw [← hkdef] at hge
      have hw : 0 < 2 ^ E := Nat.two_pow_pos _
      have hqs : 2 ^ q = 2 ^ (q - E) * 2 ^ E := pow_split (Nat.le_of_lt hlt)
      -- multiply the midpoint condition by 2^E
      have hmul : (2 * 16777215 + 1) * 2 ^ (q - E) ≤ 2 * M ↔ 33554431 * 2 ^ q ≤ 2 * (M * 2 ^ E) := by
        rw [← Nat.mul_le_mul_right_iff hw, hqs]
        simp only [Nat.mul_assoc]
      rw [hmul] at hge
      have hk' : (q - 925) * 8388608 + k ≥ 2139095040 ↔ 16777215 + 1 ≤ k := by omega
      rw [hk', hge, h2]
      generalize M * 2 ^ E = X
      generalize 2 ^ 1177 = T
      constructor <;> intro h <;> omega
    · -- q ≥ 1179: always infinity
      rcases hsub with h | ⟨hk0, _⟩
      · omega
      have hk0Q : 2 ^ 23 * 2 ^ q ≤ M / 2 ^ (q - E) * 2 ^ q := Nat.mul_le_mul_right _ hk0
      rw [e23] at hk0Q hk0
      generalize M / 2 ^ (q - E) * 2 ^ q = P at *
      generalize M * 2 ^ E = X at *
      generalize 2 ^ q = Q at *; generalize 2 ^ 1177 = T at *
      constructor <;> intro h <;> omega

end RtenVerif.ConstNarrow
