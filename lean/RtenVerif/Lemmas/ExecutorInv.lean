import RtenVerif.Lemmas.ExecutorStep
/-!
# C02 — the simulation invariant between the executor and the naive evaluation

`Sim`: counters are exact (T1), everything in `temp_values` is a value node that is not a
borrowed input and holds the value the naive evaluation assigns to that id, and every id that
still has a use and has a naive value is still in `temp_values` (T2).  One completed step
preserves it when the executor and the naive evaluation store the same operator outputs.
-/
namespace RtenVerif.Executor
open RtenVerif.Graph

/-- The empty capture environment. -/
def nocap {V : Type} : Nat → Option (V × Bool) := fun _ => none

/-- The value the naive evaluation assigns to an id (top-level run). -/
def val {V : Type} (r : Run V) (E : Nat → Option V) (v : Nat) : Option V := naiveLook r nocap E v

/-- Well-formedness of a run request (what `create_plan`'s argument checks and the graph
builders guarantee), for the code as it stands. -/
structure WF {V : Type} (r : Run V) : Prop where
  fixed : r.fixed = true
  /-- an id is not supplied twice (`Inputs are not unique`) -/
  disjoint : ∀ v, r.owned v ≠ none → r.borrowed v = none
  /-- supplied inputs are value or constant nodes -/
  ownedKind : ∀ v, r.owned v ≠ none → isValueOrConstant r.g v = true
  /-- operator outputs are value nodes -/
  outsValue : ∀ i op, getOp r.g i = some op → ∀ o ∈ opOutputs op, isValue r.g o = true

/-- The value the naive evaluation assigns to an id when names not found in this graph's own
scope are read from the capture environment `caps0`. -/
def valC {V : Type} (r : Run V) (caps0 : Nat → Option (V × Bool)) (E : Nat → Option V) (v : Nat) :
    Option V := naiveLook r caps0 E v

/-- Well-formedness of a capture environment: it only defines ids listed in `Graph::captures()`;
those are value nodes without a producer in this graph that are not supplied as inputs
(capture placeholders); and nothing can be taken by value. -/
structure CapsWF {V : Type} (r : Run V) (caps0 : Nat → Option (V × Bool)) : Prop where
  dom : ∀ v, caps0 v ≠ none → r.g.captures.contains v = true
  kind : ∀ v, r.g.captures.contains v = true → isValue r.g v = true ∧ r.isInput v = false ∧
    ∀ i op, getOp r.g i = some op → v ∉ opOutputs op
  notake : ∀ v x b, caps0 v = some (x, b) → b = false

theorem capsWF_nocap {V : Type} (r : Run V) (h : r.g.captures = []) : CapsWF r (nocap : Nat → Option (V × Bool)) :=
  ⟨fun v hv => absurd rfl hv, fun v hv => by rw [h] at hv; simp at hv, fun v x b hv => by cases hv⟩

structure Sim {V : Type} (r : Run V) (caps0 : Nat → Option (V × Bool)) (total : Nat → Nat)
    (rest outs : List Nat) (st : St V) (E : Nat → Option V) : Prop where
  rcb : RcBounded st.rc
  rc : RcInv r.g total rest outs st.rc
  caps : st.caps = caps0
  capE : ∀ v, r.g.captures.contains v = true → E v = none
  agree : ∀ v x, st.temps v = some x →
    isValue r.g v = true ∧ r.borrowed v = none ∧ val r E v = some x
  live : ∀ v, isValue r.g v = true → r.borrowed v = none → 0 < uses r.g rest outs v →
    val r E v ≠ none → st.temps v ≠ none

theorem Sim.noTake {V : Type} {r : Run V} {caps0 : Nat → Option (V × Bool)} {total : Nat → Nat}
    {rest outs : List Nat} {st : St V} {E : Nat → Option V} (hs : Sim r caps0 total rest outs st E)
    (hcw : CapsWF r caps0) : NoTake st := by
  intro v x b h; rw [hs.caps] at h; exact hcw.notake v x b h

theorem isValue_getNode {g : Graph} {v : Nat} (h : isValue g v = true) : getNode g v = some .value := by
  unfold isValue at h
  split at h
  · assumption
  · simp at h

theorem isValue_not_const {g : Graph} {v : Nat} (h : isValue g v = true) : isConstant g v = false := by
  simp [isConstant, isValue_getNode h]

theorem val_value {V : Type} {r : Run V} {E : Nat → Option V} {v : Nat}
    (hv : isValue r.g v = true) (hb : r.borrowed v = none) :
    val r E v = match r.owned v with
      | some x => some x
      | none => E v := by
  simp only [val, naiveLook, isValue_getNode hv, hb, nocap]
  cases r.owned v with
  | some x => rfl
  | none => cases E v <;> rfl

theorem valC_eq {V : Type} (r : Run V) (caps0 : Nat → Option (V × Bool)) (E : Nat → Option V) (v : Nat) :
    valC r caps0 E v = match val r E v with
      | some x => some x
      | none => if isValue r.g v = true then (caps0 v).map (fun p => p.1) else none := by
  unfold valC val naiveLook isValue nocap
  cases getNode r.g v with
  | none => rfl
  | some n =>
    cases n with
    | constant => rfl
    | operator _ => rfl
    | value =>
      simp only
      cases r.borrowed v with
      | some b => rfl
      | none =>
        cases r.owned v with
        | some o => rfl
        | none =>
          cases E v with
          | some e => rfl
          | none => simp

theorem valC_of_val {V : Type} {r : Run V} {caps0 : Nat → Option (V × Bool)} {E : Nat → Option V}
    {v : Nat} {x : V} (h : val r E v = some x) : valC r caps0 E v = some x := by
  rw [valC_eq, h]

/-- The executor's input lookup agrees with the naive value for every id that still has a use. -/
theorem lookupInput_eq {V : Type} {r : Run V} {caps0 : Nat → Option (V × Bool)} {total : Nat → Nat}
    {rest outs : List Nat} {st : St V} {E : Nat → Option V} (hs : Sim r caps0 total rest outs st E)
    (d : Nat) (hu : isValue r.g d = true → 0 < uses r.g rest outs d) :
    lookupInput r st d = valC r caps0 E d := by
  rw [valC_eq]
  unfold lookupInput constOrInput
  cases hn : getNode r.g d with
  | none => simp [val, naiveLook, hn, isValue]
  | some n =>
    cases n with
    | constant => simp [val, naiveLook, hn]
    | operator op => simp [val, naiveLook, hn, isValue]
    | value =>
      have hv : isValue r.g d = true := by simp [isValue, hn]
      cases hb : r.borrowed d with
      | some b => simp [val, naiveLook, hn, hb]
      | none =>
        simp only
        cases ht : st.temps d with
        | some x =>
          have := (hs.agree d x ht).2.2
          rw [this]
        | none =>
          have hl := hs.live d hv hb (hu hv)
          have hvn : val r E d = none := by
            cases hval : val r E d with
            | none => rfl
            | some y => exact absurd ht (hl (by rw [hval]; simp))
          rw [hvn, hs.caps]
          simp only [hv, if_true]
          cases caps0 d with
          | none => rfl
          | some p => rfl

/-! ## Candidates -/

theorem enumSome_mem {l : List (Option Nat)} {k p id : Nat} (h : (p, id) ∈ enumSome l k) :
    k ≤ p ∧ l[p - k]? = some (some id) := by
  induction l generalizing k with
  | nil => simp [enumSome] at h
  | cons x xs ih =>
    cases x with
    | none =>
      simp only [enumSome] at h
      obtain ⟨h1, h2⟩ := ih h
      refine ⟨by omega, ?_⟩
      have : p - k = (p - (k + 1)) + 1 := by omega
      rw [this]; simpa using h2
    | some y =>
      simp only [enumSome, List.mem_cons, Prod.mk.injEq] at h
      rcases h with ⟨rfl, rfl⟩ | h
      · simp
      · obtain ⟨h1, h2⟩ := ih h
        refine ⟨by omega, ?_⟩
        have : p - k = (p - (k + 1)) + 1 := by omega
        rw [this]; simpa using h2

theorem foldl_max_mem {α : Type} (key : α → Nat) (xs : List α) :
    ∀ (acc : Option α) (c : α),
      xs.foldl (fun acc x => match acc with
        | none => some x
        | some m => if key m ≤ key x then some x else some m) acc = some c →
      c ∈ xs ∨ acc = some c := by
  induction xs with
  | nil => intro acc c h; right; simpa using h
  | cons x xs ih =>
    intro acc c h
    simp only [List.foldl_cons] at h
    rcases ih _ c h with h' | h'
    · left; exact List.mem_cons_of_mem _ h'
    · cases acc with
      | none => simp only [Option.some.injEq] at h'; left; rw [← h']; exact List.mem_cons_self
      | some m =>
        simp only at h'
        split at h'
        · simp only [Option.some.injEq] at h'; left; rw [← h']; exact List.mem_cons_self
        · right; exact h'

theorem maxByKeyLast_mem {α : Type} (key : α → Nat) (xs : List α) (c : α)
    (h : maxByKeyLast key xs = some c) : c ∈ xs := by
  unfold maxByKeyLast at h
  rcases foldl_max_mem key xs none c h with h' | h'
  · exact h'
  · simp at h'

/-- Every candidate is a present input at its position, and its position is a declared
in-place position or the operator is commutative. -/
theorem candidates_spec {V : Type} {ops : Ops V} {i : Nat} {op : OpNode} {temps : Nat → Option V}
    {c : Nat × Nat} (h : c ∈ candidates ops i op temps) :
    op.inputs[c.1]? = some (some c.2) ∧ (c.1 ∈ ops.inPlaceIdx i ∨ op.commutative = true) := by
  unfold candidates at h
  split at h
  · simp at h
  · split at h
    · rename_i hcomm
      split at h
      · rename_i c' hc'
        simp only [List.mem_singleton] at h
        subst h
        have := enumSome_mem (maxByKeyLast_mem _ _ _ hc')
        exact ⟨by simpa using this.2, Or.inr hcomm⟩
      · simp at h
    · simp only [List.mem_filterMap] at h
      obtain ⟨pos, hpos, hf⟩ := h
      split at hf
      · rename_i id hid
        simp only [Option.some.injEq] at hf
        subst hf
        exact ⟨hid, Or.inl hpos⟩
      · simp at hf

theorem mem_opInputs {op : OpNode} {p id : Nat} (h : op.inputs[p]? = some (some id)) :
    id ∈ opInputs op := by
  unfold opInputs
  rw [List.mem_filterMap]
  exact ⟨some id, List.mem_of_getElem? h, rfl⟩

/-- Two different positions holding the same id: the id occurs at least twice. -/
theorem count_two {l : List (Option Nat)} {p q id : Nat} (hp : l[p]? = some (some id))
    (hq : l[q]? = some (some id)) (hne : p ≠ q) : 2 ≤ (l.filterMap _root_.id).count id := by
  induction l generalizing p q with
  | nil => simp at hp
  | cons x xs ih =>
    cases p with
    | zero =>
      cases q with
      | zero => exact absurd rfl hne
      | succ q =>
        simp only [List.getElem?_cons_zero, Option.some.injEq] at hp
        simp only [List.getElem?_cons_succ] at hq
        subst hp
        have : id ∈ xs.filterMap _root_.id := List.mem_filterMap.mpr ⟨some id, List.mem_of_getElem? hq, rfl⟩
        have := List.count_pos_iff.mpr this
        have e : (some id :: xs).filterMap _root_.id = id :: xs.filterMap _root_.id := rfl
        rw [e, List.count_cons_self]; omega
    | succ p =>
      cases q with
      | zero =>
        simp only [List.getElem?_cons_zero, Option.some.injEq] at hq
        simp only [List.getElem?_cons_succ] at hp
        subst hq
        have : id ∈ xs.filterMap _root_.id := List.mem_filterMap.mpr ⟨some id, List.mem_of_getElem? hp, rfl⟩
        have := List.count_pos_iff.mpr this
        have e : (some id :: xs).filterMap _root_.id = id :: xs.filterMap _root_.id := rfl
        rw [e, List.count_cons_self]; omega
      | succ q =>
        simp only [List.getElem?_cons_succ] at hp hq
        have := ih hp hq (by omega)
        cases x with
        | none => simpa [List.filterMap_cons] using this
        | some y =>
          simp only [List.filterMap_cons, _root_.id, List.count_cons]
          omega

theorem All₂.mem_right {α β : Type} {R : α → β → Prop} {as : List α} {bs : List β}
    (h : All₂ R as bs) {b : β} (hb : b ∈ bs) : ∃ a ∈ as, R a b := by
  induction h with
  | nil => simp at hb
  | cons hab _ ih =>
    rcases List.mem_cons.mp hb with rfl | hb
    · exact ⟨_, List.mem_cons_self, hab⟩
    · obtain ⟨a, ha, hr⟩ := ih hb
      exact ⟨a, List.mem_cons_of_mem _ ha, hr⟩

theorem All₂.mem_left {α β : Type} {R : α → β → Prop} {as : List α} {bs : List β}
    (h : All₂ R as bs) {a : α} (ha : a ∈ as) : ∃ b ∈ bs, R a b := by
  induction h with
  | nil => simp at ha
  | cons hab _ ih =>
    rcases List.mem_cons.mp ha with rfl | ha
    · exact ⟨_, List.mem_cons_self, hab⟩
    · obtain ⟨b, hb, hr⟩ := ih ha
      exact ⟨b, List.mem_cons_of_mem _ hb, hr⟩

theorem All₂.nil_right {α β : Type} {R : α → β → Prop} {as : List α}
    (h : All₂ R as ([] : List β)) : as = [] := by
  cases h; rfl

theorem All₂.map_eq {α β γ : Type} {R : α → β → Prop} {f : α → γ} {g : β → γ} {as : List α}
    {bs : List β} (h : All₂ R as bs) (hfg : ∀ a b, R a b → g b = f a) : bs.map g = as.map f := by
  induction h with
  | nil => rfl
  | cons hab _ ih => simp only [List.map_cons, hfg _ _ hab, ih]

/-! ## What a step does to `temp_values` -/

/-- The take phase of a step (in-place candidates, then by-value captures): -/
structure TakeFacts {V : Type} (ops : Ops V) (r : Run V) (st : St V) (i : Nat) (op : OpNode)
    (taken : List (Nat × V)) (st2 : St V) (byVal : List (Nat × V)) : Prop where
  rc : st2.rc = st.rc
  caps : st2.caps = st.caps
  /-- each taken `(pos, v)`: a candidate `(pos, id)` with count 1 holding `v` -/
  htaken : ∀ p v, (p, v) ∈ taken → ∃ id, op.inputs[p]? = some (some id) ∧
    (p ∈ ops.inPlaceIdx i ∨ op.commutative = true) ∧ st.rc id = 1 ∧ st.temps id = some v
  /-- an entry of `temp_values` is untouched or was removed because its count was 1 -/
  htemps : ∀ x, st2.temps x = st.temps x ∨
    (st2.temps x = none ∧ st.rc x = 1 ∧ x ∈ opDeps r.g op ∧ st.temps x ≠ none)
  /-- an input that is not at a taken position is untouched, given counts are exact -/
  untouched : ∀ p d, p ∉ taken.map (fun t => t.1) → op.inputs[p]? = some (some d) →
    (st.rc d = 1 → st.temps d ≠ none → (opDeps r.g op).count d ≤ 1) → st2.temps d = st.temps d
  hbyVal : ∀ x v, (x, v) ∈ byVal → x ∈ capDeps r.g op ∧ st.temps x = some v ∧ st2.temps x = none
  /-- a captured dependency is still in `temp_values` or was moved into `byVal` unchanged -/
  capd : ∀ x, x ∈ capDeps r.g op → st2.temps x = st.temps x ∨
    (st2.temps x = none ∧ ∃ v, st.temps x = some v ∧ (x, v) ∈ byVal)
  notaken : taken = [] → ∀ x, x ∉ capDeps r.g op → st2.temps x = st.temps x
  nonempty : taken ≠ [] → ops.inPlaceIdx i ≠ []
  /-- the taken positions are the candidates' positions (or nothing was taken) -/
  hpos : taken = [] ∨ taken.map (fun t => t.1) = (candidates ops i op st.temps).map (fun c => c.1)

theorem capDeps_not_input {g : Graph} {op : OpNode} {x : Nat} (h : x ∈ capDeps g op) :
    x ∉ opInputs op := by
  unfold capDeps at h
  rw [List.mem_filter] at h
  intro hx
  unfold opInputs at hx
  rw [List.mem_filterMap] at hx
  obtain ⟨a, ha, hid⟩ := hx
  simp only [id] at hid
  subst hid
  have := h.2
  simp only [Bool.and_eq_true, Bool.not_eq_true', decide_eq_true_eq] at this
  have h2 := this.2
  rw [List.contains_eq_mem] at h2
  simp [ha] at h2

theorem takeFacts' {V : Type} {ops : Ops V} {r : Run V} {st : St V} {i : Nat} {op : OpNode}
    {st1 : St V} {taken : List (Nat × V)} {st2 : St V} {byVal : List (Nat × V)}
    (htake : (if (!(candidates ops i op st.temps).isEmpty &&
      (candidates ops i op st.temps).all (fun c => canTake r st c.2) && !r.neverInPlace) = true
      then takeAll r st (candidates ops i op st.temps) else some (st, [])) = some (st1, taken))
    (hbv : (if ops.isSubgraph i = true then takeByValue r st1 (capDeps r.g op) else (st1, []))
      = (st2, byVal)) (hc : NoTake st) :
    TakeFacts ops r st i op taken st2 byVal := by
  -- phase 1
  have h1 : ∃ tc : List (Nat × Nat), (∀ c ∈ tc, c ∈ candidates ops i op st.temps) ∧
      st1.rc = st.rc ∧ st1.caps = st.caps ∧
      All₂ (fun c t => t.1 = c.1 ∧ st.rc c.2 = 1 ∧ st.temps c.2 = some t.2) tc taken ∧
      (∀ x, st1.temps x = if x ∈ tc.map (fun c => c.2) then none else st.temps x) ∧
      (taken = [] → tc = []) ∧ (tc = candidates ops i op st.temps ∨ tc = []) := by
    by_cases hcond : (!(candidates ops i op st.temps).isEmpty &&
        (candidates ops i op st.temps).all (fun c => canTake r st c.2) && !r.neverInPlace) = true
    · rw [if_pos hcond] at htake
      obtain ⟨ha, hcaps, hrc, htemps⟩ := takeAll_spec hc htake
      refine ⟨candidates ops i op st.temps, fun c h => h, hrc, hcaps, ha, htemps, ?_, Or.inl rfl⟩
      intro ht; rw [ht] at ha; exact ha.nil_right
    · rw [if_neg hcond] at htake
      simp only [Option.some.injEq, Prod.mk.injEq] at htake
      obtain ⟨h1, h2⟩ := htake
      refine ⟨[], by simp, by rw [← h1], by rw [← h1], by rw [← h2]; exact .nil, ?_, fun _ => rfl,
        Or.inr rfl⟩
      intro x; rw [← h1]; simp
  obtain ⟨tc, htc, hrc1, hcaps1, ha, htemps1, htnil, htcd⟩ := h1
  have hc1 : NoTake st1 := by intro v x b h; rw [hcaps1] at h; exact hc v x b h
  -- phase 2
  have h2 : st2.rc = st1.rc ∧ st2.caps = st1.caps ∧
      (∀ x, st2.temps x = st1.temps x ∨
        (st2.temps x = none ∧ x ∈ capDeps r.g op ∧ st1.rc x = 1 ∧
          ∃ v, st1.temps x = some v ∧ (x, v) ∈ byVal)) ∧
      (∀ x v, (x, v) ∈ byVal → x ∈ capDeps r.g op ∧ st1.temps x = some v ∧
        st2.temps x = none) := by
    split at hbv
    · have hs := takeByValue_spec (r := r) (ds := capDeps r.g op) hc1
      have hr := takeByValue_rc r st1 (capDeps r.g op)
      rw [hbv] at hs hr
      exact ⟨hr, hs.1, hs.2.1, hs.2.2⟩
    · simp only [Prod.mk.injEq] at hbv
      obtain ⟨h1, h2⟩ := hbv
      rw [← h1, ← h2]
      exact ⟨rfl, rfl, fun x => Or.inl rfl, by simp⟩
  obtain ⟨hrc2, hcaps2, htemps2, hbyval⟩ := h2
  -- candidates that were taken
  have hcand : ∀ c ∈ tc,
      op.inputs[c.1]? = some (some c.2) ∧ (c.1 ∈ ops.inPlaceIdx i ∨ op.commutative = true) :=
    fun c hcm => candidates_spec (htc c hcm)
  have st1_cases : ∀ x, st1.temps x = st.temps x ∨
      (st1.temps x = none ∧ st.rc x = 1 ∧ x ∈ opInputs op ∧ st.temps x ≠ none ∧
        ∃ p, p ∈ taken.map (fun t => t.1) ∧ op.inputs[p]? = some (some x)) := by
    intro x
    rw [htemps1 x]
    split
    · rename_i hx
      right
      rw [List.mem_map] at hx
      obtain ⟨c, hcm, rfl⟩ := hx
      obtain ⟨t, ht, h1, h2, h3⟩ := ha.mem_left hcm
      refine ⟨rfl, h2, mem_opInputs (hcand c hcm).1, by rw [h3]; simp, c.1, ?_, (hcand c hcm).1⟩
      rw [List.mem_map]; exact ⟨t, ht, h1⟩
    · left; rfl
  refine ⟨by rw [hrc2, hrc1], by rw [hcaps2, hcaps1], ?_, ?_, ?_, ?_, ?_, ?_, ?_, ?_⟩
  · intro p v hpv
    obtain ⟨c, hcm, h1, h2, h3⟩ := ha.mem_right hpv
    simp only at h1
    refine ⟨c.2, ?_, ?_, h2, h3⟩
    · rw [h1]; exact (hcand c hcm).1
    · rw [h1]; exact (hcand c hcm).2
  · intro x
    rcases htemps2 x with h | ⟨h, hx, hrc, v, hv, _⟩
    · rw [h]
      rcases st1_cases x with h' | ⟨h', hr, hin, hne, _⟩
      · left; exact h'
      · right; refine ⟨h', hr, ?_, hne⟩
        rw [opDeps_eq]; exact List.mem_append_left _ hin
    · right
      rcases st1_cases x with h' | ⟨h', _⟩
      · refine ⟨h, by rw [← hrc1]; exact hrc, ?_, by rw [← h', hv]; simp⟩
        rw [opDeps_eq]; exact List.mem_append_right _ hx
      · rw [h'] at hv; simp at hv
  · intro p d hp hd hcount
    have hd_in : d ∈ opInputs op := mem_opInputs hd
    have h2 : st2.temps d = st1.temps d := by
      rcases htemps2 d with h | ⟨_, hx, _⟩
      · exact h
      · exact absurd hd_in (capDeps_not_input hx)
    rw [h2]
    rcases st1_cases d with h | ⟨_, hr, _, hne, q, hq, hqd⟩
    · exact h
    · exfalso
      have hpq : p ≠ q := by rintro rfl; exact hp hq
      have h2' := count_two hd hqd hpq
      have := hcount hr hne
      have h3 : (opDeps r.g op).count d = (opInputs op).count d + (capDeps r.g op).count d := by
        rw [opDeps_eq, List.count_append]
      unfold opInputs at h3
      omega
  · intro x v hxv
    obtain ⟨hx, hv, hn⟩ := hbyval x v hxv
    refine ⟨hx, ?_, hn⟩
    rcases st1_cases x with h | ⟨h, _⟩
    · rw [← h]; exact hv
    · rw [h] at hv; simp at hv
  · intro x hx
    have h1 : st1.temps x = st.temps x := by
      rcases st1_cases x with h | ⟨_, _, hin, _⟩
      · exact h
      · exact absurd hin (capDeps_not_input hx)
    rcases htemps2 x with h | ⟨h, _, _, v, hv, hm⟩
    · left; rw [h, h1]
    · right; exact ⟨h, v, by rw [← h1]; exact hv, hm⟩
  · intro ht x hx
    have h1 : st1.temps x = st.temps x := by
      rw [htemps1 x, htnil ht]; simp
    rcases htemps2 x with h | ⟨_, hx', _⟩
    · rw [h, h1]
    · exact absurd hx' hx
  · intro hne hidx
    cases htk : taken with
    | nil => exact hne htk
    | cons t ts =>
      obtain ⟨c0, hc0, _⟩ := ha.mem_right (show t ∈ taken by rw [htk]; exact List.mem_cons_self)
      have hcm := htc c0 hc0
      unfold candidates at hcm
      simp [hidx] at hcm
  · rcases htcd with h | h
    · right
      rw [← h]
      exact ha.map_eq (fun c t hct => hct.1)
    · left
      rw [h] at ha
      cases ha; rfl

theorem takeFacts {V : Type} {ops : Ops V} {r : Run V} {st st' : St V} {i : Nat} {tr : StepTrace}
    (P : StepParts ops r st st' i tr) (hc : NoTake st) :
    TakeFacts ops r st i P.op P.taken P.st2 P.byVal := takeFacts' P.htake P.hbyval hc

end RtenVerif.Executor
